(* C05: angular_separation and relative_position_angle, ideal instance. *)
From Coq Require Import Reals ZArith List String Lra Lia Psatz.
From PyLib Require Import PyVal PyBuiltins Ideal Whnf PyEval Sphere.
From Gen Require Import M_base M_Angle M_Epoch M_Interpolation M_Coordinates.
From Proofs.C05 Require Import C05_angle C05_run.
Import ListNotations.
Open Scope R_scope.

Ltac2 Set Whnf.is_blocked as old := fun c =>
  Ltac2.Bool.or (old c) (Ltac2.Bool.or (Ltac2.Constr.equal c '@Angle___init__)
                                       (Ltac2.Constr.equal c '@Angle_to_positive)).

(* Angle - Angle *)
Lemma Angle_sub_ang a b : -360 < a < 360 -> -360 < b < 360 ->
  Angle___sub__ Rops (ang a) (ang b) = ang (red360 (a + - b)).
Proof. intros Ha Hb. c05run. reflexivity. Qed.

Ltac2 Set Whnf.is_blocked as old := fun c =>
  Ltac2.Bool.or (old c) (Ltac2.Bool.or (Ltac2.Constr.equal c '@Angle___sub__)
                                       (Ltac2.Constr.equal c '@num_pow)).

Ltac sep_hook s :=
  lazymatch goal with
  | _ : s = _ |- _ => idtac
  | _ =>
    lazymatch s with
    | Angle___sub__ Rops (ang ?a) (ang ?b) =>
        assert (s = ang (red360 (a + - b))) by (apply Angle_sub_ang; sph_dec)
    | num_pow Rops (VFloat ?x) (VInt 2) =>
        assert (s = VFloat (x * x)) by (apply num_pow_2)
    | _ => c05_hook s
    end
  end.
Ltac py_trace s ::= sep_hook s.

(* ---- angular_separation ---- *)
Definition sep_h (dd d1 d2 da : R) : R :=
  sin (dd / Rlit 20 (-1)) * sin (dd / Rlit 20 (-1))
  + cos d1 * cos d2 * (sin (da / Rlit 20 (-1)) * sin (da / Rlit 20 (-1))).

Lemma sep_h_hav dd d1 d2 da : sep_h dd d1 d2 da = hav dd + cos d1 * cos d2 * hav da.
Proof.
  unfold sep_h, hav. replace (Rlit 20 (-1)) with 2 by (Rlit_norm; lra). reflexivity.
Qed.

Lemma cos_d2r_red360 x : cos (d2r (red360 x)) = cos (d2r x).
Proof. destruct (red360_cases x) as [k Hk]. rewrite Hk. apply cos_d2r_360k. Qed.
Lemma sin_d2r_red360 x : sin (d2r (red360 x)) = sin (d2r x).
Proof. destruct (red360_cases x) as [k Hk]. rewrite Hk. apply sin_d2r_360k. Qed.

(* the haversine sum is (1 - cos of the angle between the two directions) / 2 *)
Lemma sep_h_value A1 D1 A2 D2 :
  sep_h (d2r (red360 (D1 + - D2))) (d2r D1) (d2r D2) (d2r (red360 (A1 + - A2)))
  = (1 - dot (uvec (d2r A1) (d2r D1)) (uvec (d2r A2) (d2r D2))) / 2.
Proof.
  rewrite sep_h_hav, !hav_cos, !cos_d2r_red360, dot_uvec.
  replace (d2r (D1 + - D2)) with (d2r D1 - d2r D2) by (unfold d2r; ring).
  replace (d2r (A1 + - A2)) with (d2r A1 - d2r A2) by (unfold d2r; ring).
  rewrite (cos_minus (d2r D1)). field.
Qed.

Lemma dot_uvec_range l1 b1 l2 b2 : -1 <= dot (uvec l1 b1) (uvec l2 b2) <= 1.
Proof. rewrite dot_uvec. apply zr_plus_cos. Qed.

Lemma sep_h_range A1 D1 A2 D2 :
  0 <= sep_h (d2r (red360 (D1 + - D2))) (d2r D1) (d2r D2) (d2r (red360 (A1 + - A2))) <= 1.
Proof.
  rewrite sep_h_value. pose proof (dot_uvec_range (d2r A1) (d2r D1) (d2r A2) (d2r D2)). lra.
Qed.

(* 1 - h as the code computes it *)
Definition sep_hc (dd d1 d2 da : R) : R :=
  cos (dd / Rlit 20 (-1)) * cos (da / Rlit 20 (-1)) * (cos (dd / Rlit 20 (-1)) * cos (da / Rlit 20 (-1)))
  + sin ((d1 + d2) / Rlit 20 (-1)) * sin (da / Rlit 20 (-1))
    * (sin ((d1 + d2) / Rlit 20 (-1)) * sin (da / Rlit 20 (-1))).

Lemma cos2_half x : cos (x / 2) * cos (x / 2) = (1 + cos x) / 2.
Proof. replace x with (2 * (x / 2)) at 3 by field. rewrite cos_2a_cos. field. Qed.
Lemma sin2_half x : sin (x / 2) * sin (x / 2) = (1 - cos x) / 2.
Proof. apply hav_cos. Qed.

(* hc = 1 - h *)
Lemma sep_hc_value A1 D1 A2 D2 :
  sep_hc (d2r (red360 (D1 + - D2))) (d2r D1) (d2r D2) (d2r (red360 (A1 + - A2)))
  = 1 - sep_h (d2r (red360 (D1 + - D2))) (d2r D1) (d2r D2) (d2r (red360 (A1 + - A2))).
Proof.
  rewrite sep_h_hav, !hav_cos. unfold sep_hc.
  replace (Rlit 20 (-1)) with 2 by (Rlit_norm; lra).
  set (dd := d2r (red360 (D1 + - D2))). set (da := d2r (red360 (A1 + - A2))).
  replace (cos (dd / 2) * cos (da / 2) * (cos (dd / 2) * cos (da / 2)))
    with ((cos (dd / 2) * cos (dd / 2)) * (cos (da / 2) * cos (da / 2))) by ring.
  replace (sin ((d2r D1 + d2r D2) / 2) * sin (da / 2) * (sin ((d2r D1 + d2r D2) / 2) * sin (da / 2)))
    with ((sin ((d2r D1 + d2r D2) / 2) * sin ((d2r D1 + d2r D2) / 2)) * (sin (da / 2) * sin (da / 2))) by ring.
  rewrite !cos2_half, !sin2_half. unfold dd. rewrite cos_d2r_red360.
  replace (d2r (D1 + - D2)) with (d2r D1 - d2r D2) by (unfold d2r; ring).
  rewrite cos_minus, cos_plus. field.
Qed.

Definition sep_deg (A1 D1 A2 D2 : R) : R :=
  r2d (Rlit 20 (-1) *
       atan2 (sqrt (sep_h (d2r (red360 (D1 + - D2))) (d2r D1) (d2r D2) (d2r (red360 (A1 + - A2)))))
             (sqrt (sep_hc (d2r (red360 (D1 + - D2))) (d2r D1) (d2r D2) (d2r (red360 (A1 + - A2)))))).

Lemma angsep_closed a1 d1 a2 d2 :
  -360 < a1 < 360 -> -360 < d1 < 360 -> -360 < a2 < 360 -> -360 < d2 < 360 ->
  f_angular_separation Rops (ang a1) (ang d1) (ang a2) (ang d2) = ang (sep_deg a1 d1 a2 d2).
Proof.
  intros Ha1 Hd1 Ha2 Hd2.
  pose proof (sep_h_range a1 d1 a2 d2) as Hh.
  unfold sep_h, d2r in Hh.
  crun. rewrite red360_id; [reflexivity |].
  match goal with |- context [atan2 ?z (sqrt ?w)] =>
    pose proof (r2d_atan2_nonneg_range z (sqrt w) (sqrt_pos w)) as Hb end.
  unfold r2d in Hb. Rlit_norm_all. lra.
Qed.

(* atan2 (sqrt h) (sqrt (1 - h)) = asin (sqrt h) *)
Lemma atan2_sqrt_asin h : 0 <= h <= 1 -> atan2 (sqrt h) (sqrt (1 - h)) = asin (sqrt h).
Proof.
  intros Hh.
  assert (Hs : 0 <= sqrt h <= 1).
  { split. apply sqrt_pos. rewrite <- sqrt_1. apply sqrt_le_1; lra. }
  pose proof (asin_bound (sqrt h)) as Hb. pose proof PI_RGT_0 as HPI.
  assert (Hc : sqrt (1 - h) = cos (asin (sqrt h))).
  { rewrite cos_asin by lra. f_equal. unfold Rsqr. rewrite sqrt_sqrt by lra. reflexivity. }
  rewrite Hc. rewrite <- (sin_asin (sqrt h)) at 1 by lra.
  rewrite <- (Rmult_1_l (sin (asin (sqrt h)))), <- (Rmult_1_l (cos (asin (sqrt h)))).
  apply atan2_polar; lra.
Qed.

Lemma sep_deg_asin a1 d1 a2 d2 :
  sep_deg a1 d1 a2 d2 =
  r2d (2 * asin (sqrt (sep_h (d2r (red360 (d1 + - d2))) (d2r d1) (d2r d2) (d2r (red360 (a1 + - a2)))))).
Proof.
  unfold sep_deg. replace (Rlit 20 (-1)) with 2 by (Rlit_norm; lra).
  rewrite sep_hc_value, atan2_sqrt_asin by apply sep_h_range. reflexivity.
Qed.

(* cos of the separation = dot product of the unit vectors; 0 <= separation <= 180 *)
Theorem angsep_cos a1 d1 a2 d2 :
  -360 < a1 < 360 -> -360 < d1 < 360 -> -360 < a2 < 360 -> -360 < d2 < 360 ->
  exists th, f_angular_separation Rops (ang a1) (ang d1) (ang a2) (ang d2) = ang th
    /\ cos (d2r th) = sin (d2r d1) * sin (d2r d2) + cos (d2r d1) * cos (d2r d2) * cos (d2r a1 - d2r a2)
    /\ 0 <= th <= 180.
Proof.
  intros Ha1 Hd1 Ha2 Hd2. exists (sep_deg a1 d1 a2 d2). split; [now apply angsep_closed |].
  pose proof (sep_h_range a1 d1 a2 d2) as Hh.
  rewrite sep_deg_asin. split.
  - rewrite d2r_r2d, cos_2asin_sqrt by assumption. rewrite sep_h_value, dot_uvec. field.
  - pose proof (range_2asin_sqrt _ Hh) as [R1 R2].
    apply r2d_le in R1, R2. rewrite r2d_PI in R2.
    replace (r2d 0) with 0 in R1 by (unfold r2d; ring). lra.
Qed.

Theorem angsep_sym a1 d1 a2 d2 :
  -360 < a1 < 360 -> -360 < d1 < 360 -> -360 < a2 < 360 -> -360 < d2 < 360 ->
  f_angular_separation Rops (ang a1) (ang d1) (ang a2) (ang d2)
  = f_angular_separation Rops (ang a2) (ang d2) (ang a1) (ang d1).
Proof.
  intros Ha1 Hd1 Ha2 Hd2. rewrite !angsep_closed by assumption. rewrite !sep_deg_asin.
  rewrite !sep_h_value, dot_sym. reflexivity.
Qed.

(* ---- relative_position_angle ---- *)
(* the right-ascension difference (degrees) as the code forms it: one operand is shifted by
   a whole turn before subtracting, then whole turns are removed by rounding *)
Definition pa_w (a1 a2 : R) : R :=
  if Rlt_dec (Rlit 1800 (-1)) (a1 - a2) then a1 - Rlit 3600 (-1) - a2
  else if Rlt_dec (a1 - a2) (Rlit (-1800) (-1)) then a1 - (a2 - Rlit 3600 (-1)) else a1 - a2.
Definition pa_da (w : R) : R := w - Rlit 3600 (-1) * IZR (Rround (w / Rlit 3600 (-1))).
(* the two cancellation-free forms of the second atan2 argument *)
Definition pa_x1 (dd da d1 d2 : R) : R :=
  sin dd + Rlit 20 (-1) * sin d2 * cos d1 * (sin (da / Rlit 20 (-1)) * sin (da / Rlit 20 (-1))).
Definition pa_x2 (ds da d1 d2 : R) : R :=
  sin ds - Rlit 20 (-1) * sin d2 * cos d1 * (cos (da / Rlit 20 (-1)) * cos (da / Rlit 20 (-1))).
Definition pa_x (dd ds da d1 d2 : R) : R :=
  if Rle_dec (Rlit 0 (-1)) (cos da) then pa_x1 dd da d1 d2 else pa_x2 ds da d1 d2.
Definition pa_rad (dd ds da d1 d2 : R) : R := atan2 (cos d1 * sin da) (pa_x dd ds da d1 d2).
(* the textbook quotient form *)
Definition pa_old (da d1 d2 : R) : R := atan2 (sin da) (cos d2 * tan d1 - sin d2 * cos da).

Definition pa_deg (a1 d1 a2 d2 : R) : R :=
  r2d (pa_rad (d2r (red360 (d1 + - d2))) (d2r (red360 (d1 + d2)))
              (d2r (pa_da (pa_w a1 a2))) (d2r d1) (d2r d2)).

Lemma relpa_closed a1 d1 a2 d2 :
  -360 < a1 < 360 -> -360 < a2 < 360 -> -360 < d1 < 360 -> -360 < d2 < 360 ->
  f_relative_position_angle Rops (ang a1) (ang d1) (ang a2) (ang d2) = ang (pa_deg a1 d1 a2 d2).
Proof.
  intros Ha1 Ha2 Hd1 Hd2. unfold pa_deg, pa_rad, pa_x, pa_da, pa_w, d2r.
  destruct (Rlt_dec (Rlit 1800 (-1)) (a1 - a2)) as [Hw | Hw];
    [| destruct (Rlt_dec (a1 - a2) (Rlit (-1800) (-1))) as [Hw' | Hw']].
  - destruct (Rle_dec _ _) as [Hc | Hc].
    + crun. reflexivity.
    + crun. reflexivity.
  - destruct (Rle_dec _ _) as [Hc | Hc].
    + crun. reflexivity.
    + crun. reflexivity.
  - destruct (Rle_dec _ _) as [Hc | Hc].
    + crun. reflexivity.
    + crun. reflexivity.
Qed.

Lemma pa_da_cases a1 a2 : exists k : Z, pa_da (pa_w a1 a2) = (a1 - a2) + 360 * IZR k.
Proof.
  unfold pa_da. set (n := Rround _). unfold pa_w.
  destruct (Rlt_dec _ _); [| destruct (Rlt_dec _ _)].
  - exists (- 1 - n)%Z. rewrite minus_IZR. Rlit_norm. lra.
  - exists (1 - n)%Z. rewrite minus_IZR. Rlit_norm. lra.
  - exists (- n)%Z. rewrite opp_IZR. Rlit_norm. lra.
Qed.
Lemma cos_d2r_da a1 a2 : cos (d2r (pa_da (pa_w a1 a2))) = cos (d2r a1 - d2r a2).
Proof.
  destruct (pa_da_cases a1 a2) as [k Hk]. rewrite Hk, cos_d2r_360k. f_equal. unfold d2r. ring.
Qed.
Lemma sin_d2r_da a1 a2 : sin (d2r (pa_da (pa_w a1 a2))) = sin (d2r a1 - d2r a2).
Proof.
  destruct (pa_da_cases a1 a2) as [k Hk]. rewrite Hk, sin_d2r_360k. f_equal. unfold d2r. ring.
Qed.

(* round-half-even of a number in [-1/2, 1/2] is 0 *)
Lemma Rround_small x : - (1 / 2) <= x <= 1 / 2 -> Rround x = 0%Z.
Proof.
  intros Hx. unfold Rround.
  destruct (Rle_dec 0 x) as [Hp | Hn].
  - assert (E : Rfloor x = 0%Z) by (apply Rfloor_unique; simpl; lra).
    rewrite E. simpl. replace (x - 0) with x by ring.
    destruct (Rlt_dec x (1 / 2)); [reflexivity |]. destruct (Rlt_dec (1 / 2) x); [lra | reflexivity].
  - assert (E : Rfloor x = (-1)%Z) by (apply Rfloor_unique; simpl; lra).
    rewrite E. simpl.
    destruct (Rlt_dec (x - -1) (1 / 2)); [lra |]. destruct (Rlt_dec (1 / 2) (x - -1)); reflexivity.
Qed.

(* for canonical right ascensions the difference comes out in [-180, 180] and the rounding
   term vanishes *)
Lemma pa_da_range a1 a2 : 0 <= a1 < 360 -> 0 <= a2 < 360 ->
  pa_da (pa_w a1 a2) = pa_w a1 a2 /\ -180 <= pa_w a1 a2 <= 180.
Proof.
  intros H1 H2.
  assert (Hw : -180 <= pa_w a1 a2 <= 180).
  { unfold pa_w. destruct (Rlt_dec _ _) as [A | A]; [| destruct (Rlt_dec _ _) as [B | B]];
      Rlit_norm_all; lra. }
  split; [| assumption]. unfold pa_da. rewrite Rround_small; [simpl; ring |].
  Rlit_norm. lra.
Qed.

(* both forms of x are  sin d1 cos d2 - sin d2 cos d1 cos (a1 - a2)  = u1 . north2 *)
Lemma pa_x_value A1 D1 A2 D2 :
  pa_x (d2r (red360 (D1 + - D2))) (d2r (red360 (D1 + D2))) (d2r (pa_da (pa_w A1 A2)))
       (d2r D1) (d2r D2)
  = sin (d2r D1) * cos (d2r D2) - sin (d2r D2) * cos (d2r D1) * cos (d2r A1 - d2r A2).
Proof.
  assert (Hca : cos (d2r (pa_da (pa_w A1 A2))) = cos (d2r A1 - d2r A2)) by apply cos_d2r_da.
  unfold pa_x. destruct (Rle_dec _ _) as [Hc | Hc].
  - unfold pa_x1. replace (Rlit 20 (-1)) with 2 by (Rlit_norm; lra).
    rewrite sin2_half, Hca, sin_d2r_red360.
    replace (d2r (D1 + - D2)) with (d2r D1 - d2r D2) by (unfold d2r; ring).
    rewrite sin_minus. field.
  - unfold pa_x2. replace (Rlit 20 (-1)) with 2 by (Rlit_norm; lra).
    rewrite cos2_half, Hca, sin_d2r_red360.
    replace (d2r (D1 + D2)) with (d2r D1 + d2r D2) by (unfold d2r; ring).
    rewrite sin_plus. field.
Qed.

Lemma pa_y_value A1 A2 : sin (d2r (pa_da (pa_w A1 A2))) = sin (d2r A1 - d2r A2).
Proof. apply sin_d2r_da. Qed.

(* the computed angle equals the quotient form of Meeus when cos d1 > 0 *)
Theorem relpa_quotient_form a1 d1 a2 d2 : 0 < cos (d2r d1) ->
  pa_deg a1 d1 a2 d2 = r2d (pa_old (d2r a1 - d2r a2) (d2r d1) (d2r d2)).
Proof.
  intros Hc. unfold pa_deg, pa_rad, pa_old. rewrite pa_x_value, pa_y_value. f_equal.
  rewrite <- (atan2_scale (cos (d2r d1)) (sin (d2r a1 - d2r a2))) by assumption.
  f_equal. unfold tan. field. lra.
Qed.

Lemma atan2_opp y x : y <> 0 -> atan2 (- y) x = - atan2 y x.
Proof.
  intros Hy. pose proof (atan2_bound y x) as Hb. pose proof (atan2_bound (- y) x) as Hb'.
  assert (Hne : x <> 0 \/ y <> 0) by tauto. assert (Hne' : x <> 0 \/ - y <> 0) by (right; lra).
  assert (Hr : rho x (- y) = rho x y) by (unfold rho; f_equal; ring).
  assert (atan2 y x <> PI).
  { intros E. pose proof (atan2_sin y x Hne) as Hs. rewrite E, sin_PI in Hs.
    pose proof (rho_pos x y Hne). apply Hy. apply Rmult_eq_reg_r with (/ rho x y).
    - unfold Rdiv in Hs. lra.
    - apply Rinv_neq_0_compat. lra. }
  apply cos_sin_inj.
  - lra.
  - rewrite cos_neg, !atan2_cos, Hr by assumption. reflexivity.
  - rewrite sin_neg, !atan2_sin, Hr by assumption. field. apply Rgt_not_eq, rho_pos. assumption.
Qed.

(* exchanging the two right ascensions (delta alpha -> - delta alpha) negates the angle *)
Theorem relpa_antisym a1 d1 a2 d2 p :
  -360 < a1 < 360 -> -360 < a2 < 360 -> -360 < d1 < 360 -> -360 < d2 < 360 ->
  cos (d2r d1) * sin (d2r a1 - d2r a2) <> 0 ->
  f_relative_position_angle Rops (ang a1) (ang d1) (ang a2) (ang d2) = ang p ->
  f_relative_position_angle Rops (ang a2) (ang d1) (ang a1) (ang d2) = ang (- p).
Proof.
  intros Ha1 Ha2 Hd1 Hd2 Hs H. rewrite relpa_closed in H by assumption. rewrite relpa_closed by assumption.
  injection H as <-. f_equal. unfold pa_deg. rewrite <- r2d_opp. f_equal. unfold pa_rad.
  rewrite !pa_x_value, !pa_y_value.
  replace (d2r a2 - d2r a1) with (- (d2r a1 - d2r a2)) by ring.
  rewrite sin_neg, cos_neg. rewrite <- atan2_opp by assumption. f_equal. ring.
Qed.
