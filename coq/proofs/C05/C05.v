(* Property C05 — celestial coordinate conversions are inverse rotations; separation metric.
   Statements only (proofs in C05_ecl / C05_hor / C05_gal / C05_sep).  Everything is about
   the model regenerated from /repo, instantiated over the real numbers (Rops): what the
   code computes when rounding is ignored.  [ang d] is an Angle object holding d degrees;
   [uvec lon lat] is the unit vector of a direction (radians); Rx/Ry/Rz are the active
   right-handed rotations about the axes (PyLib.Sphere).  An INPUT exactly at a pole (|latitude| = 90) is excluded in the rotation theorems
   (tan of the input latitude); an OUTPUT at a pole is included (latitude = atan2 z cos-lat). *)
From Coq Require Import Reals ZArith List String.
From PyLib Require Import PyVal PyBuiltins Ideal Sphere.
From Gen Require Import M_base M_Angle M_Epoch M_Interpolation M_Coordinates.
From Proofs.C05 Require Import C05_angle C05_run C05_ecl C05_hor C05_gal C05_sep C05_circle.
Import ListNotations.
Open Scope R_scope.

(* exact closed forms of every output (these pin each formula of the conversions): the
   longitude is atan2 (y, x) and the latitude atan2 (z, |cos lat_in| sqrt (x^2 + y^2)).
   Stated for all reals, but the real-number instance has no domain check for tan: for an input
   latitude with cos = 0 the term [tan] is Coq's 1 * / 0 and the equation, though true, says
   nothing about the code's behaviour at an exact input pole (binary64 tan(pi/2) is 1.6e16).
   Every geometric theorem below therefore carries the hypothesis -90 < input latitude < 90
   (hence cos > 0); exact input poles are covered only by the binary64 search. *)
Theorem C05_closed_forms :
  (forall al de ep, f_equatorial2ecliptical Rops (ang al) (ang de) (ang ep) =
     let y := sin (d2r al) * cos (d2r ep) + tan (d2r de) * sin (d2r ep) in let x := cos (d2r al) in
     VTuple [ang (topos (r2d (atan2 y x)));
             ang (r2d (atan2 (sin (d2r de) * cos (d2r ep) - cos (d2r de) * sin (d2r ep) * sin (d2r al))
                             (Rabs (cos (d2r de)) * sqrt (x * x + y * y))))]) /\
  (forall lo la ep, f_ecliptical2equatorial Rops (ang lo) (ang la) (ang ep) =
     let y := sin (d2r lo) * cos (d2r ep) - tan (d2r la) * sin (d2r ep) in let x := cos (d2r lo) in
     VTuple [ang (topos (r2d (atan2 y x)));
             ang (r2d (atan2 (sin (d2r la) * cos (d2r ep) + cos (d2r la) * sin (d2r ep) * sin (d2r lo))
                             (Rabs (cos (d2r la)) * sqrt (x * x + y * y))))]) /\
  (forall ha de ph, f_equatorial2horizontal Rops (ang ha) (ang de) (ang ph) =
     let y := sin (d2r ha) in let x := cos (d2r ha) * sin (d2r ph) - tan (d2r de) * cos (d2r ph) in
     VTuple [ang (r2d (atan2 y x));
             ang (r2d (atan2 (sin (d2r ph) * sin (d2r de) + cos (d2r ph) * cos (d2r de) * cos (d2r ha))
                             (Rabs (cos (d2r de)) * sqrt (x * x + y * y))))]) /\
  (forall az el ph, f_horizontal2equatorial Rops (ang az) (ang el) (ang ph) =
     let y := sin (d2r az) in let x := cos (d2r az) * sin (d2r ph) + tan (d2r el) * cos (d2r ph) in
     VTuple [ang (r2d (atan2 y x));
             ang (r2d (atan2 (sin (d2r ph) * sin (d2r el) - cos (d2r ph) * cos (d2r el) * cos (d2r az))
                             (Rabs (cos (d2r el)) * sqrt (x * x + y * y))))]) /\
  (forall al de, f_equatorial2galactic Rops (ang al) (ang de) =
     let h := d2r g_ra - d2r al in
     let y := sin h in let x := cos h * sin (d2r g_dec) - tan (d2r de) * cos (d2r g_dec) in
     VTuple [ang (topos (red360 (r2d (- atan2 y x) + g_l0)));
             ang (r2d (atan2 (sin (d2r de) * sin (d2r g_dec) + cos (d2r de) * cos (d2r g_dec) * cos h)
                             (Rabs (cos (d2r de)) * sqrt (x * x + y * y))))]) /\
  (forall lo la, f_galactic2equatorial Rops (ang lo) (ang la) =
     let h := d2r lo - d2r g_l1 in
     let y := sin h in let x := cos h * sin (d2r g_dec) - tan (d2r la) * cos (d2r g_dec) in
     VTuple [ang (topos (r2d (atan2 y x) + g_ra1));
             ang (r2d (atan2 (sin (d2r la) * sin (d2r g_dec) + cos (d2r la) * cos (d2r g_dec) * cos h)
                             (Rabs (cos (d2r la)) * sqrt (x * x + y * y))))]).
Proof.
  exact (conj eq2ecl_closed (conj ecl2eq_closed (conj eq2hor_closed (conj hor2eq_closed
        (conj eq2gal_closed gal2eq_closed))))).
Qed.

(* equatorial <-> ecliptical: rotation by -/+ obliquity about the x axis; longitude in
   [0,360), latitude in [-90,90] *)
Theorem C05_ecl_rotation :
  (forall al de ep, -90 < de < 90 ->
    exists lo la, f_equatorial2ecliptical Rops (ang al) (ang de) (ang ep) = VTuple [ang lo; ang la]
      /\ uvec (d2r lo) (d2r la) = Rx (- d2r ep) (uvec (d2r al) (d2r de))
      /\ 0 <= lo < 360 /\ -90 <= la <= 90) /\
  (forall lo la ep, -90 < la < 90 ->
    exists al de, f_ecliptical2equatorial Rops (ang lo) (ang la) (ang ep) = VTuple [ang al; ang de]
      /\ uvec (d2r al) (d2r de) = Rx (d2r ep) (uvec (d2r lo) (d2r la))
      /\ 0 <= al < 360 /\ -90 <= de <= 90).
Proof. exact (conj eq2ecl_rotation ecl2eq_rotation). Qed.

(* ... mutually inverse, as angles, for every obliquity: for a start longitude in the
   canonical range [0,360) (other longitudes: C05_inverse_directions) and when the intermediate
   latitude is not a pole.  The hypothesis naming the first result is always satisfiable
   (C05_ecl_rotation gives the values). *)
Theorem C05_ecl_inverse :
  (forall al de ep lo la, 0 <= al < 360 -> -90 < de < 90 ->
    f_equatorial2ecliptical Rops (ang al) (ang de) (ang ep) = VTuple [ang lo; ang la] ->
    -90 < la < 90 ->
    f_ecliptical2equatorial Rops (ang lo) (ang la) (ang ep) = VTuple [ang al; ang de]) /\
  (forall lo la ep al de, 0 <= lo < 360 -> -90 < la < 90 ->
    f_ecliptical2equatorial Rops (ang lo) (ang la) (ang ep) = VTuple [ang al; ang de] ->
    -90 < de < 90 ->
    f_equatorial2ecliptical Rops (ang al) (ang de) (ang ep) = VTuple [ang lo; ang la]).
Proof. exact (conj ecl_roundtrip equ_roundtrip). Qed.

(* equatorial <-> horizontal (azimuth from the South, westwards): rotation about the y axis
   taking the celestial pole to altitude = latitude; azimuth / hour angle in (-180,180] *)
Theorem C05_hor_rotation :
  (forall ha de ph, -90 < de < 90 ->
    exists az el, f_equatorial2horizontal Rops (ang ha) (ang de) (ang ph) = VTuple [ang az; ang el]
      /\ uvec (d2r az) (d2r el) = Ry (d2r ph - PI / 2) (uvec (d2r ha) (d2r de))
      /\ -180 < az <= 180 /\ -90 <= el <= 90) /\
  (forall az el ph, -90 < el < 90 ->
    exists ha de, f_horizontal2equatorial Rops (ang az) (ang el) (ang ph) = VTuple [ang ha; ang de]
      /\ uvec (d2r ha) (d2r de) = Ry (PI / 2 - d2r ph) (uvec (d2r az) (d2r el))
      /\ -180 < ha <= 180 /\ -90 <= de <= 90).
Proof. exact (conj eq2hor_rotation hor2eq_rotation). Qed.

Theorem C05_hor_inverse :
  (forall ha de ph az el, -180 < ha <= 180 -> -90 < de < 90 ->
    f_equatorial2horizontal Rops (ang ha) (ang de) (ang ph) = VTuple [ang az; ang el] ->
    -90 < el < 90 ->
    f_horizontal2equatorial Rops (ang az) (ang el) (ang ph) = VTuple [ang ha; ang de]) /\
  (forall az el ph ha de, -180 < az <= 180 -> -90 < el < 90 ->
    f_horizontal2equatorial Rops (ang az) (ang el) (ang ph) = VTuple [ang ha; ang de] ->
    -90 < de < 90 ->
    f_equatorial2horizontal Rops (ang ha) (ang de) (ang ph) = VTuple [ang az; ang el]).
Proof. exact (conj hor_roundtrip equ_h_roundtrip). Qed.

(* equatorial <-> galactic: the fixed rotations Rz(303) Ry(27.4 - 90) Rz(-192.25) and
   Rz(12.25) Ry(27.4 - 90) Rz(-123) (degrees), which are inverse to each other *)
Theorem C05_gal_rotation :
  (forall al de, -90 < de < 90 ->
    exists lo la, f_equatorial2galactic Rops (ang al) (ang de) = VTuple [ang lo; ang la]
      /\ uvec (d2r lo) (d2r la)
         = Rz (d2r g_l0) (Ry (d2r g_dec - PI / 2) (Rz (- d2r g_ra) (uvec (d2r al) (d2r de))))
      /\ 0 <= lo < 360 /\ -90 <= la <= 90) /\
  (forall lo la, -90 < la < 90 ->
    exists al de, f_galactic2equatorial Rops (ang lo) (ang la) = VTuple [ang al; ang de]
      /\ uvec (d2r al) (d2r de)
         = Rz (d2r g_ra1) (Ry (d2r g_dec - PI / 2) (Rz (- d2r g_l1) (uvec (d2r lo) (d2r la))))
      /\ 0 <= al < 360 /\ -90 <= de <= 90) /\
  g_ra = 19225 / 100 /\ g_dec = 274 / 10 /\ g_l0 = 303 /\ g_l1 = 123 /\ g_ra1 = 1225 / 100.
Proof.
  split; [exact eq2gal_rotation |]. split; [exact gal2eq_rotation |].
  unfold g_ra, g_dec, g_l0, g_l1, g_ra1. repeat split; PyEval.Rlit_norm; Lra.lra.
Qed.

Theorem C05_gal_inverse :
  (forall al de lo la, 0 <= al < 360 -> -90 < de < 90 ->
    f_equatorial2galactic Rops (ang al) (ang de) = VTuple [ang lo; ang la] ->
    -90 < la < 90 ->
    f_galactic2equatorial Rops (ang lo) (ang la) = VTuple [ang al; ang de]) /\
  (forall lo la al de, 0 <= lo < 360 -> -90 < la < 90 ->
    f_galactic2equatorial Rops (ang lo) (ang la) = VTuple [ang al; ang de] ->
    -90 < de < 90 ->
    f_equatorial2galactic Rops (ang al) (ang de) = VTuple [ang lo; ang la]).
Proof. exact (conj gal_roundtrip equ_g_roundtrip). Qed.

(* the angle between any two directions (dot product of the unit vectors) is unchanged *)
Theorem C05_dot_preserved :
  (forall a1 d1 a2 d2 ep l1 b1 l2 b2, -90 < d1 < 90 -> -90 < d2 < 90 ->
    f_equatorial2ecliptical Rops (ang a1) (ang d1) (ang ep) = VTuple [ang l1; ang b1] ->
    f_equatorial2ecliptical Rops (ang a2) (ang d2) (ang ep) = VTuple [ang l2; ang b2] ->
    dot (uvec (d2r l1) (d2r b1)) (uvec (d2r l2) (d2r b2))
    = dot (uvec (d2r a1) (d2r d1)) (uvec (d2r a2) (d2r d2))) /\
  (forall l1 b1 l2 b2 ep a1 d1 a2 d2, -90 < b1 < 90 -> -90 < b2 < 90 ->
    f_ecliptical2equatorial Rops (ang l1) (ang b1) (ang ep) = VTuple [ang a1; ang d1] ->
    f_ecliptical2equatorial Rops (ang l2) (ang b2) (ang ep) = VTuple [ang a2; ang d2] ->
    dot (uvec (d2r a1) (d2r d1)) (uvec (d2r a2) (d2r d2))
    = dot (uvec (d2r l1) (d2r b1)) (uvec (d2r l2) (d2r b2))) /\
  (forall h1 d1 h2 d2 ph a1 e1 a2 e2, -90 < d1 < 90 -> -90 < d2 < 90 ->
    f_equatorial2horizontal Rops (ang h1) (ang d1) (ang ph) = VTuple [ang a1; ang e1] ->
    f_equatorial2horizontal Rops (ang h2) (ang d2) (ang ph) = VTuple [ang a2; ang e2] ->
    dot (uvec (d2r a1) (d2r e1)) (uvec (d2r a2) (d2r e2))
    = dot (uvec (d2r h1) (d2r d1)) (uvec (d2r h2) (d2r d2))) /\
  (forall a1 e1 a2 e2 ph h1 d1 h2 d2, -90 < e1 < 90 -> -90 < e2 < 90 ->
    f_horizontal2equatorial Rops (ang a1) (ang e1) (ang ph) = VTuple [ang h1; ang d1] ->
    f_horizontal2equatorial Rops (ang a2) (ang e2) (ang ph) = VTuple [ang h2; ang d2] ->
    dot (uvec (d2r h1) (d2r d1)) (uvec (d2r h2) (d2r d2))
    = dot (uvec (d2r a1) (d2r e1)) (uvec (d2r a2) (d2r e2))) /\
  (forall a1 d1 a2 d2 l1 b1 l2 b2, -90 < d1 < 90 -> -90 < d2 < 90 ->
    f_equatorial2galactic Rops (ang a1) (ang d1) = VTuple [ang l1; ang b1] ->
    f_equatorial2galactic Rops (ang a2) (ang d2) = VTuple [ang l2; ang b2] ->
    dot (uvec (d2r l1) (d2r b1)) (uvec (d2r l2) (d2r b2))
    = dot (uvec (d2r a1) (d2r d1)) (uvec (d2r a2) (d2r d2))) /\
  (forall l1 b1 l2 b2 a1 d1 a2 d2, -90 < b1 < 90 -> -90 < b2 < 90 ->
    f_galactic2equatorial Rops (ang l1) (ang b1) = VTuple [ang a1; ang d1] ->
    f_galactic2equatorial Rops (ang l2) (ang b2) = VTuple [ang a2; ang d2] ->
    dot (uvec (d2r a1) (d2r d1)) (uvec (d2r a2) (d2r d2))
    = dot (uvec (d2r l1) (d2r b1)) (uvec (d2r l2) (d2r b2))).
Proof.
  exact (conj eq2ecl_dot (conj ecl2eq_dot (conj eq2hor_dot (conj hor2eq_dot
        (conj eq2gal_dot gal2eq_dot))))).
Qed.

(* angular separation.  Conjunct 1 is the code's own expression: theta = 2 atan2 (sqrt h,
   sqrt hc), h = sep_h = hav dd + cos d1 cos d2 hav da, hc = sep_hc (C05_sep.v) for the stored
   differences dd, da (reduced mod 360 by the Angle constructor); conjunct 4 (hc = 1 - h) is
   about exactly the two expressions of conjunct 1.  Hence cos theta = dot product of the two
   directions (cosine rule), 0 <= separation <= 180, symmetric. *)
Theorem C05_separation :
  (forall a1 d1 a2 d2,
    -360 < a1 < 360 -> -360 < d1 < 360 -> -360 < a2 < 360 -> -360 < d2 < 360 ->
    let dd := d2r (red360 (d1 + - d2)) in let da := d2r (red360 (a1 + - a2)) in
    f_angular_separation Rops (ang a1) (ang d1) (ang a2) (ang d2)
    = ang (r2d (Rlit 20 (-1) * atan2 (sqrt (sep_h dd (d2r d1) (d2r d2) da))
                                      (sqrt (sep_hc dd (d2r d1) (d2r d2) da))))) /\
  (forall a1 d1 a2 d2,
    -360 < a1 < 360 -> -360 < d1 < 360 -> -360 < a2 < 360 -> -360 < d2 < 360 ->
    exists th, f_angular_separation Rops (ang a1) (ang d1) (ang a2) (ang d2) = ang th
      /\ cos (d2r th) = sin (d2r d1) * sin (d2r d2)
                        + cos (d2r d1) * cos (d2r d2) * cos (d2r a1 - d2r a2)
      /\ 0 <= th <= 180) /\
  (forall a1 d1 a2 d2,
    -360 < a1 < 360 -> -360 < d1 < 360 -> -360 < a2 < 360 -> -360 < d2 < 360 ->
    f_angular_separation Rops (ang a1) (ang d1) (ang a2) (ang d2)
    = f_angular_separation Rops (ang a2) (ang d2) (ang a1) (ang d1)) /\
  (forall A1 D1 A2 D2,
    sep_hc (d2r (red360 (D1 + - D2))) (d2r D1) (d2r D2) (d2r (red360 (A1 + - A2)))
    = 1 - sep_h (d2r (red360 (D1 + - D2))) (d2r D1) (d2r D2) (d2r (red360 (A1 + - A2)))).
Proof. exact (conj angsep_closed (conj angsep_cos (conj angsep_sym sep_hc_value))). Qed.

(* relative position angle.  The code forms da = a1 - a2 with one operand shifted by a whole
   turn first when |a1 - a2| > 180 (pa_w), removes whole turns by rounding (pa_da), and
   computes atan2 (cos d1 sin da, x) with x = sin (d1-d2) + 2 sin d2 cos d1 sin^2 (da/2) if
   cos da >= 0 and x = sin (d1+d2) - 2 sin d2 cos d1 cos^2 (da/2) otherwise (conjunct 1 is exactly
   that expression; pa_w, pa_da, pa_x: C05_sep.v).  For canonical right ascensions da is in [-180,180] and the rounding term
   is 0; da is congruent to a1 - a2 mod 360; both forms of x are u1 . north2; the result
   equals Meeus' quotient form atan2 (sin da, cos d2 tan d1 - sin d2 cos da) when cos d1 > 0;
   it negates when the two right ascensions are exchanged with the declinations kept (delta
   alpha -> - delta alpha; this is NOT the exchange of the two bodies, whose position angles
   are not negatives of each other on the sphere). *)
Theorem C05_position_angle :
  (forall a1 d1 a2 d2,
    -360 < a1 < 360 -> -360 < a2 < 360 -> -360 < d1 < 360 -> -360 < d2 < 360 ->
    f_relative_position_angle Rops (ang a1) (ang d1) (ang a2) (ang d2)
    = ang (r2d (atan2 (cos (d2r d1) * sin (d2r (pa_da (pa_w a1 a2))))
                      (pa_x (d2r (red360 (d1 + - d2))) (d2r (red360 (d1 + d2)))
                            (d2r (pa_da (pa_w a1 a2))) (d2r d1) (d2r d2))))) /\
  (forall a1 a2, 0 <= a1 < 360 -> 0 <= a2 < 360 ->
    pa_da (pa_w a1 a2) = pa_w a1 a2 /\ -180 <= pa_w a1 a2 <= 180) /\
  (forall a1 a2, exists k : Z, pa_da (pa_w a1 a2) = (a1 - a2) + 360 * IZR k) /\
  (forall A1 D1 A2 D2,
    pa_x (d2r (red360 (D1 + - D2))) (d2r (red360 (D1 + D2))) (d2r (pa_da (pa_w A1 A2)))
         (d2r D1) (d2r D2)
    = sin (d2r D1) * cos (d2r D2) - sin (d2r D2) * cos (d2r D1) * cos (d2r A1 - d2r A2)) /\
  (forall a1 d1 a2 d2, 0 < cos (d2r d1) ->
    r2d (atan2 (cos (d2r d1) * sin (d2r (pa_da (pa_w a1 a2))))
               (pa_x (d2r (red360 (d1 + - d2))) (d2r (red360 (d1 + d2)))
                     (d2r (pa_da (pa_w a1 a2))) (d2r d1) (d2r d2)))
    = r2d (atan2 (sin (d2r a1 - d2r a2))
                 (cos (d2r d2) * tan (d2r d1) - sin (d2r d2) * cos (d2r a1 - d2r a2)))) /\
  (forall a1 d1 a2 d2 p,
    -360 < a1 < 360 -> -360 < a2 < 360 -> -360 < d1 < 360 -> -360 < d2 < 360 ->
    cos (d2r d1) * sin (d2r a1 - d2r a2) <> 0 ->
    f_relative_position_angle Rops (ang a1) (ang d1) (ang a2) (ang d2) = ang p ->
    f_relative_position_angle Rops (ang a2) (ang d1) (ang a1) (ang d2) = ang (- p)).
Proof.
  split; [exact relpa_closed |].
  split; [exact pa_da_range |]. split; [exact pa_da_cases |].
  exact (conj pa_x_value (conj relpa_quotient_form relpa_antisym)).
Qed.

(* there and back as DIRECTIONS, for every input longitude (canonical or not): the second
   conversion returns the canonical representative of the start direction, same latitude.
   Still needed: input latitude and intermediate latitude strictly between the poles (both
   are inputs of a routine that takes tan of them). *)
Theorem C05_inverse_directions :
  (forall al de ep lo la, -90 < de < 90 ->
    f_equatorial2ecliptical Rops (ang al) (ang de) (ang ep) = VTuple [ang lo; ang la] -> -90 < la < 90 ->
    exists x y, f_ecliptical2equatorial Rops (ang lo) (ang la) (ang ep) = VTuple [ang x; ang y]
      /\ uvec (d2r x) (d2r y) = uvec (d2r al) (d2r de) /\ y = de /\ 0 <= x < 360) /\
  (forall lo la ep al de, -90 < la < 90 ->
    f_ecliptical2equatorial Rops (ang lo) (ang la) (ang ep) = VTuple [ang al; ang de] -> -90 < de < 90 ->
    exists x y, f_equatorial2ecliptical Rops (ang al) (ang de) (ang ep) = VTuple [ang x; ang y]
      /\ uvec (d2r x) (d2r y) = uvec (d2r lo) (d2r la) /\ y = la /\ 0 <= x < 360) /\
  (forall ha de ph az el, -90 < de < 90 ->
    f_equatorial2horizontal Rops (ang ha) (ang de) (ang ph) = VTuple [ang az; ang el] -> -90 < el < 90 ->
    exists x y, f_horizontal2equatorial Rops (ang az) (ang el) (ang ph) = VTuple [ang x; ang y]
      /\ uvec (d2r x) (d2r y) = uvec (d2r ha) (d2r de) /\ y = de /\ -180 < x <= 180) /\
  (forall az el ph ha de, -90 < el < 90 ->
    f_horizontal2equatorial Rops (ang az) (ang el) (ang ph) = VTuple [ang ha; ang de] -> -90 < de < 90 ->
    exists x y, f_equatorial2horizontal Rops (ang ha) (ang de) (ang ph) = VTuple [ang x; ang y]
      /\ uvec (d2r x) (d2r y) = uvec (d2r az) (d2r el) /\ y = el /\ -180 < x <= 180) /\
  (forall al de lo la, -90 < de < 90 ->
    f_equatorial2galactic Rops (ang al) (ang de) = VTuple [ang lo; ang la] -> -90 < la < 90 ->
    exists x y, f_galactic2equatorial Rops (ang lo) (ang la) = VTuple [ang x; ang y]
      /\ uvec (d2r x) (d2r y) = uvec (d2r al) (d2r de) /\ y = de /\ 0 <= x < 360) /\
  (forall lo la al de, -90 < la < 90 ->
    f_galactic2equatorial Rops (ang lo) (ang la) = VTuple [ang al; ang de] -> -90 < de < 90 ->
    exists x y, f_equatorial2galactic Rops (ang al) (ang de) = VTuple [ang x; ang y]
      /\ uvec (d2r x) (d2r y) = uvec (d2r lo) (d2r la) /\ y = la /\ 0 <= x < 360).
Proof.
  exact (conj ecl_roundtrip_vec (conj equ_roundtrip_vec (conj hor_roundtrip_vec
        (conj equ_h_roundtrip_vec (conj gal_roundtrip_vec equ_g_roundtrip_vec))))).
Qed.


(* circle_diameter, with the three separations s12, s13, s23 (degrees, 0..180) abstracted:
   the code takes the longest one as a (circ_sel), returns a when a >= sqrt(b^2+c^2) (right or
   obtuse triangle) and 2abc/sqrt((a+b+c)(a+b-c)(b+c-a)(a+c-b)) otherwise (circ_d), ... *)
Theorem C05_circle_closed_form : forall a1 d1 a2 d2 a3 d3 s12 s13 s23,
  f_angular_separation Rops (ang a1) (ang d1) (ang a2) (ang d2) = ang s12 ->
  f_angular_separation Rops (ang a1) (ang d1) (ang a3) (ang d3) = ang s13 ->
  f_angular_separation Rops (ang a2) (ang d2) (ang a3) (ang d3) = ang s23 ->
  0 <= s12 <= 180 -> 0 <= s13 <= 180 -> 0 <= s23 <= 180 ->
  f_circle_diameter Rops (ang a1) (ang d1) (ang a2) (ang d2) (ang a3) (ang d3)
  = ang (let '(a, b, c) := circ_sel s12 s13 s23 in circ_d a b c).
Proof. exact circle_closed. Qed.

(* ... and the result lies between the largest separation and 2/sqrt(3) times it *)
Theorem C05_circle_bounds : forall a1 d1 a2 d2 a3 d3 s12 s13 s23,
  f_angular_separation Rops (ang a1) (ang d1) (ang a2) (ang d2) = ang s12 ->
  f_angular_separation Rops (ang a1) (ang d1) (ang a3) (ang d3) = ang s13 ->
  f_angular_separation Rops (ang a2) (ang d2) (ang a3) (ang d3) = ang s23 ->
  0 <= s12 <= 180 -> 0 <= s13 <= 180 -> 0 <= s23 <= 180 ->
  exists d, f_circle_diameter Rops (ang a1) (ang d1) (ang a2) (ang d2) (ang a3) (ang d3) = ang d
    /\ Rmax s12 (Rmax s13 s23) <= d <= 2 * Rmax s12 (Rmax s13 s23) / sqrt 3.
Proof. exact circle_bounds. Qed.

(* the planar fact behind it, for any sides 0 <= b, c <= a *)
Theorem C05_circle_geometry : forall a b c, 0 <= b <= a -> 0 <= c <= a ->
  a <= circ_d a b c <= 2 * a / sqrt 3.
Proof. exact circ_d_bounds. Qed.

Redirect "C05_closed_forms.assumptions" Print Assumptions C05_closed_forms.
Redirect "C05_ecl_rotation.assumptions" Print Assumptions C05_ecl_rotation.
Redirect "C05_ecl_inverse.assumptions" Print Assumptions C05_ecl_inverse.
Redirect "C05_hor_rotation.assumptions" Print Assumptions C05_hor_rotation.
Redirect "C05_hor_inverse.assumptions" Print Assumptions C05_hor_inverse.
Redirect "C05_gal_rotation.assumptions" Print Assumptions C05_gal_rotation.
Redirect "C05_gal_inverse.assumptions" Print Assumptions C05_gal_inverse.
Redirect "C05_dot_preserved.assumptions" Print Assumptions C05_dot_preserved.
Redirect "C05_separation.assumptions" Print Assumptions C05_separation.
Redirect "C05_position_angle.assumptions" Print Assumptions C05_position_angle.
Redirect "C05_inverse_directions.assumptions" Print Assumptions C05_inverse_directions.
Redirect "C05_circle_closed_form.assumptions" Print Assumptions C05_circle_closed_form.
Redirect "C05_circle_bounds.assumptions" Print Assumptions C05_circle_bounds.
Redirect "C05_circle_geometry.assumptions" Print Assumptions C05_circle_geometry.
