(* C05: equatorial <-> horizontal (Meeus: azimuth from the South, westwards), ideal
   instance: closed forms, rotation by the colatitude about the y axis, inverse. *)
From Coq Require Import Reals ZArith List String Lra Lia Psatz.
From PyLib Require Import PyVal PyBuiltins Ideal Whnf PyEval Sphere.
From Gen Require Import M_base M_Angle M_Epoch M_Interpolation M_Coordinates.
From Proofs.C05 Require Import C05_angle C05_run.
Import ListNotations.
Open Scope R_scope.

Ltac2 Set Whnf.is_blocked as old := fun c =>
  Ltac2.Bool.or (old c) (Ltac2.Bool.or (Ltac2.Constr.equal c '@Angle___init__)
                                       (Ltac2.Constr.equal c '@Angle_to_positive)).

(* formulas (radians) *)
Definition hor_x (h d p : R) : R := cos h * sin p - tan d * cos p.
Definition hor_azi (h d p : R) : R := atan2 (sin h) (hor_x h d p).
Definition hor_ele (h d p : R) : R :=
  atan2 (sin p * sin d + cos p * cos d * cos h)
        (Rabs (cos d) * sqrt (hor_x h d p * hor_x h d p + sin h * sin h)).
Definition equ_x (az el p : R) : R := cos az * sin p + tan el * cos p.
Definition equ_ha (az el p : R) : R := atan2 (sin az) (equ_x az el p).
Definition equ_dec_h (az el p : R) : R :=
  atan2 (sin p * sin el - cos p * cos el * cos az)
        (Rabs (cos el) * sqrt (equ_x az el p * equ_x az el p + sin az * sin az)).

Lemma eq2hor_closed (ha de ph : R) :
  f_equatorial2horizontal Rops (ang ha) (ang de) (ang ph) =
  VTuple [ang (r2d (hor_azi (d2r ha) (d2r de) (d2r ph)));
          ang (r2d (hor_ele (d2r ha) (d2r de) (d2r ph)))].
Proof. crun. reflexivity. Qed.

Lemma hor2eq_closed (az el ph : R) :
  f_horizontal2equatorial Rops (ang az) (ang el) (ang ph) =
  VTuple [ang (r2d (equ_ha (d2r az) (d2r el) (d2r ph)));
          ang (r2d (equ_dec_h (d2r az) (d2r el) (d2r ph)))].
Proof. crun. reflexivity. Qed.

(* rotation about the y axis that takes the celestial pole (latitude p) to the zenith *)
Definition Rhor (p : R) (v : vec) : vec := Ry (p - PI / 2) v.
Definition Rhor_inv (p : R) (v : vec) : vec := Ry (PI / 2 - p) v.

Lemma Rhor_inv_l p v : Rhor_inv p (Rhor p v) = v.
Proof. unfold Rhor, Rhor_inv. rewrite Ry_add. replace (PI / 2 - p + (p - PI / 2)) with 0 by ring. apply Ry_0. Qed.
Lemma Rhor_inv_r p v : Rhor p (Rhor_inv p v) = v.
Proof. unfold Rhor, Rhor_inv. rewrite Ry_add. replace (p - PI / 2 + (PI / 2 - p)) with 0 by ring. apply Ry_0. Qed.
Lemma dot_Rhor p u v : dot (Rhor p u) (Rhor p v) = dot u v.
Proof. apply dot_Ry. Qed.
Lemma dot_Rhor_inv p u v : dot (Rhor_inv p u) (Rhor_inv p v) = dot u v.
Proof. apply dot_Ry. Qed.

Lemma cos_m_PI2 p : cos (p - PI / 2) = sin p.
Proof. replace (p - PI / 2) with (- (PI / 2 - p)) by ring. rewrite cos_neg. apply cos_shift. Qed.
Lemma sin_m_PI2 p : sin (p - PI / 2) = - cos p.
Proof. replace (p - PI / 2) with (- (PI / 2 - p)) by ring. rewrite sin_neg. f_equal. apply sin_shift. Qed.

Lemma hor_formula_rot h d p : 0 < cos d ->
  uvec (hor_azi h d p) (hor_ele h d p) = Rhor p (uvec h d).
Proof.
  intros Hd.
  assert (E : Rhor p (uvec h d) =
              (cos d * hor_x h d p, cos d * sin h,
               sin p * sin d + cos p * cos d * cos h)).
  { unfold Rhor, Ry, uvec, hor_x. rewrite cos_m_PI2, sin_m_PI2. apply vec_eq; unfold tan; field; lra. }
  assert (N : dot (Rhor p (uvec h d)) (Rhor p (uvec h d)) = 1)
    by (rewrite dot_Rhor; apply uvec_norm).
  rewrite E in *. unfold dot in N. unfold hor_azi, hor_ele. rewrite (Rabs_right (cos d)) by lra.
  apply lonlat_scaled2; [assumption | reflexivity | reflexivity | exact N].
Qed.

Lemma equ_h_formula_rot az el p : 0 < cos el ->
  uvec (equ_ha az el p) (equ_dec_h az el p) = Rhor_inv p (uvec az el).
Proof.
  intros Hd.
  assert (E : Rhor_inv p (uvec az el) =
              (cos el * equ_x az el p, cos el * sin az,
               sin p * sin el - cos p * cos el * cos az)).
  { unfold Rhor_inv, Ry, uvec, equ_x. rewrite cos_shift, sin_shift. apply vec_eq; unfold tan; field; lra. }
  assert (N : dot (Rhor_inv p (uvec az el)) (Rhor_inv p (uvec az el)) = 1)
    by (rewrite dot_Rhor_inv; apply uvec_norm).
  rewrite E in *. unfold dot in N. unfold equ_ha, equ_dec_h. rewrite (Rabs_right (cos el)) by lra.
  apply lonlat_scaled2; [assumption | reflexivity | reflexivity | exact N].
Qed.

Theorem eq2hor_rotation ha de ph : -90 < de < 90 ->
  exists az el, f_equatorial2horizontal Rops (ang ha) (ang de) (ang ph) = VTuple [ang az; ang el]
    /\ uvec (d2r az) (d2r el) = Rhor (d2r ph) (uvec (d2r ha) (d2r de))
    /\ -180 < az <= 180 /\ -90 <= el <= 90.
Proof.
  intros Hde. eexists. eexists. split; [apply eq2hor_closed |]. split; [| split].
  - rewrite !d2r_r2d. apply hor_formula_rot. now apply cos_d2r_pos.
  - apply r2d_atan2_range.
  - apply r2d_atan2_nonneg_range, abs_sqrt_nonneg.
Qed.

Theorem hor2eq_rotation az el ph : -90 < el < 90 ->
  exists ha de, f_horizontal2equatorial Rops (ang az) (ang el) (ang ph) = VTuple [ang ha; ang de]
    /\ uvec (d2r ha) (d2r de) = Rhor_inv (d2r ph) (uvec (d2r az) (d2r el))
    /\ -180 < ha <= 180 /\ -90 <= de <= 90.
Proof.
  intros Hel. eexists. eexists. split; [apply hor2eq_closed |]. split; [| split].
  - rewrite !d2r_r2d. apply equ_h_formula_rot. now apply cos_d2r_pos.
  - apply r2d_atan2_range.
  - apply r2d_atan2_nonneg_range, abs_sqrt_nonneg.
Qed.

Theorem hor_roundtrip ha de ph az el : -180 < ha <= 180 -> -90 < de < 90 ->
  f_equatorial2horizontal Rops (ang ha) (ang de) (ang ph) = VTuple [ang az; ang el] ->
  -90 < el < 90 ->
  f_horizontal2equatorial Rops (ang az) (ang el) (ang ph) = VTuple [ang ha; ang de].
Proof.
  intros Hha Hde H1 Hel.
  destruct (eq2hor_rotation ha de ph Hde) as (az' & el' & E1 & R1 & _ & _).
  rewrite H1 in E1. injection E1 as <- <-.
  destruct (hor2eq_rotation az el ph Hel) as (ha' & de' & E2 & R2 & Hha' & Hde').
  rewrite E2. rewrite R1, Rhor_inv_l in R2.
  destruct (angles_of_uvec_eq ha de ha' de') as [A B]; try lra; [now symmetry |].
  now subst.
Qed.

Theorem equ_h_roundtrip az el ph ha de : -180 < az <= 180 -> -90 < el < 90 ->
  f_horizontal2equatorial Rops (ang az) (ang el) (ang ph) = VTuple [ang ha; ang de] ->
  -90 < de < 90 ->
  f_equatorial2horizontal Rops (ang ha) (ang de) (ang ph) = VTuple [ang az; ang el].
Proof.
  intros Haz Hel H1 Hde.
  destruct (hor2eq_rotation az el ph Hel) as (ha' & de' & E1 & R1 & _ & _).
  rewrite H1 in E1. injection E1 as <- <-.
  destruct (eq2hor_rotation ha de ph Hde) as (az' & el' & E2 & R2 & Haz' & Hel').
  rewrite E2. rewrite R1, Rhor_inv_r in R2.
  destruct (angles_of_uvec_eq az el az' el') as [A B]; try lra; [now symmetry |].
  now subst.
Qed.

Theorem eq2hor_dot h1 d1 h2 d2 ph a1 e1 a2 e2 : -90 < d1 < 90 -> -90 < d2 < 90 ->
  f_equatorial2horizontal Rops (ang h1) (ang d1) (ang ph) = VTuple [ang a1; ang e1] ->
  f_equatorial2horizontal Rops (ang h2) (ang d2) (ang ph) = VTuple [ang a2; ang e2] ->
  dot (uvec (d2r a1) (d2r e1)) (uvec (d2r a2) (d2r e2))
  = dot (uvec (d2r h1) (d2r d1)) (uvec (d2r h2) (d2r d2)).
Proof.
  intros H1 H2 E1 E2.
  destruct (eq2hor_rotation h1 d1 ph H1) as (? & ? & E1' & R1 & _).
  destruct (eq2hor_rotation h2 d2 ph H2) as (? & ? & E2' & R2 & _).
  rewrite E1 in E1'. rewrite E2 in E2'. injection E1' as <- <-. injection E2' as <- <-.
  rewrite R1, R2. apply dot_Rhor.
Qed.

Theorem hor2eq_dot a1 e1 a2 e2 ph h1 d1 h2 d2 : -90 < e1 < 90 -> -90 < e2 < 90 ->
  f_horizontal2equatorial Rops (ang a1) (ang e1) (ang ph) = VTuple [ang h1; ang d1] ->
  f_horizontal2equatorial Rops (ang a2) (ang e2) (ang ph) = VTuple [ang h2; ang d2] ->
  dot (uvec (d2r h1) (d2r d1)) (uvec (d2r h2) (d2r d2))
  = dot (uvec (d2r a1) (d2r e1)) (uvec (d2r a2) (d2r e2)).
Proof.
  intros H1 H2 E1 E2.
  destruct (hor2eq_rotation a1 e1 ph H1) as (? & ? & E1' & R1 & _).
  destruct (hor2eq_rotation a2 e2 ph H2) as (? & ? & E2' & R2 & _).
  rewrite E1 in E1'. rewrite E2 in E2'. injection E1' as <- <-. injection E2' as <- <-.
  rewrite R1, R2. apply dot_Rhor_inv.
Qed.

(* there and back returns the same direction for EVERY input longitude (not only canonical
   ones): the result is the direction's canonical representative *)
Theorem hor_roundtrip_vec ha de ph az el : -90 < de < 90 ->
  f_equatorial2horizontal Rops (ang ha) (ang de) (ang ph) = VTuple [ang az; ang el] ->
  -90 < el < 90 ->
  exists x y, f_horizontal2equatorial Rops (ang az) (ang el) (ang ph) = VTuple [ang x; ang y]
    /\ uvec (d2r x) (d2r y) = uvec (d2r ha) (d2r de) /\ y = de /\ -180 < x <= 180.
Proof.
  intros H0 H1 H2.
  destruct (eq2hor_rotation ha de ph H0) as (o1' & o2' & E1 & R1 & _ & _).
  rewrite H1 in E1. injection E1 as <- <-.
  destruct (hor2eq_rotation az el ph H2) as (x & y & E2 & R2 & Hx & Hy).
  exists x, y. rewrite R1, Rhor_inv_l in R2. repeat split; try assumption; try lra.
  apply d2r_inj. apply (uvec_inj_lat (d2r x) (d2r y) (d2r ha) (d2r de)); [| | assumption].
  - destruct Hy as [A B]. apply d2r_le in A, B. rewrite d2r_m90 in A. rewrite d2r_90 in B. lra.
  - destruct H0 as [A B]. apply d2r_lt in A, B. rewrite d2r_m90 in A. rewrite d2r_90 in B. lra.
Qed.

(* there and back returns the same direction for EVERY input longitude (not only canonical
   ones): the result is the direction's canonical representative *)
Theorem equ_h_roundtrip_vec az el ph ha de : -90 < el < 90 ->
  f_horizontal2equatorial Rops (ang az) (ang el) (ang ph) = VTuple [ang ha; ang de] ->
  -90 < de < 90 ->
  exists x y, f_equatorial2horizontal Rops (ang ha) (ang de) (ang ph) = VTuple [ang x; ang y]
    /\ uvec (d2r x) (d2r y) = uvec (d2r az) (d2r el) /\ y = el /\ -180 < x <= 180.
Proof.
  intros H0 H1 H2.
  destruct (hor2eq_rotation az el ph H0) as (o1' & o2' & E1 & R1 & _ & _).
  rewrite H1 in E1. injection E1 as <- <-.
  destruct (eq2hor_rotation ha de ph H2) as (x & y & E2 & R2 & Hx & Hy).
  exists x, y. rewrite R1, Rhor_inv_r in R2. repeat split; try assumption; try lra.
  apply d2r_inj. apply (uvec_inj_lat (d2r x) (d2r y) (d2r az) (d2r el)); [| | assumption].
  - destruct Hy as [A B]. apply d2r_le in A, B. rewrite d2r_m90 in A. rewrite d2r_90 in B. lra.
  - destruct H0 as [A B]. apply d2r_lt in A, B. rewrite d2r_m90 in A. rewrite d2r_90 in B. lra.
Qed.
