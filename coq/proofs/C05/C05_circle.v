(* C05: circle_diameter -- the smallest circle containing three bodies (Meeus ch. 20).
   The three angular separations are abstracted (their values are characterised in
   C05_sep.v); proved here, in the ideal instance: which separation the code takes as the
   longest side a, which formula it applies, and that the result lies between a and
   2a/sqrt(3) (planar geometry: the circumscribed circle of an acute triangle whose longest
   side is a has diameter a / sin A with 60 deg <= A < 90 deg). *)
From Coq Require Import Reals ZArith List String Lra Lia Psatz.
From PyLib Require Import PyVal PyBuiltins Ideal Whnf PyEval Sphere.
From Gen Require Import M_base M_Angle M_Epoch M_Interpolation M_Coordinates.
From Proofs.C05 Require Import C05_angle.
Import ListNotations.
Open Scope R_scope.

(* ---- planar geometry ---- *)
Definition heron16 (a b c : R) : R := (a + b + c) * (a + b - c) * (b + c - a) * (a + c - b).

(* the diameter the code returns for sides a (the longest), b, c *)
Definition circ_d (a b c : R) : R :=
  if Rle_dec (sqrt (b * b + c * c)) a then a else 2 * a * b * c / sqrt (heron16 a b c).

Lemma heron16_alt a b c :
  heron16 a b c = 4 * (b * b) * (c * c) - (b * b + c * c - a * a) * (b * b + c * c - a * a).
Proof. unfold heron16. ring. Qed.

Section Acute.
Variables a b c : R.
Hypotheses (Hb : 0 <= b <= a) (Hc : 0 <= c <= a) (Hac : ~ sqrt (b * b + c * c) <= a).

Lemma acute_sq : a * a < b * b + c * c.
Proof.
  apply Rnot_le_lt. intro H. apply Hac.
  rewrite <- (sqrt_square a) by lra. apply sqrt_le_1_alt. exact H.
Qed.

Lemma acute_x_le : b * b + c * c - a * a <= b * c.
Proof. destruct (Rle_dec b c); nra. Qed.

Lemma acute_bc_pos : 0 < b * c.
Proof. pose proof acute_sq. pose proof acute_x_le. lra. Qed.

Lemma acute_heron_lo : 3 * ((b * c) * (b * c)) <= heron16 a b c.
Proof.
  rewrite heron16_alt. pose proof acute_sq. pose proof acute_x_le.
  set (x := b * b + c * c - a * a) in *. assert (0 < x) by (unfold x; lra).
  assert (x * x <= (b * c) * (b * c)) by nra. nra.
Qed.

Lemma acute_heron_hi : heron16 a b c <= (2 * (b * c)) * (2 * (b * c)).
Proof.
  rewrite heron16_alt. set (x := b * b + c * c - a * a).
  assert (0 <= x * x) by apply Rle_0_sqr. nra.
Qed.

Lemma acute_heron_pos : 0 < heron16 a b c.
Proof. pose proof acute_heron_lo. pose proof acute_bc_pos. nra. Qed.

Lemma acute_sqrt_pos : 0 < sqrt (heron16 a b c).
Proof. apply sqrt_lt_R0, acute_heron_pos. Qed.

Lemma acute_sqrt_hi : sqrt (heron16 a b c) <= 2 * (b * c).
Proof.
  pose proof acute_bc_pos. rewrite <- (sqrt_square (2 * (b * c))) by lra.
  apply sqrt_le_1_alt, acute_heron_hi.
Qed.

Lemma acute_sqrt_lo : sqrt 3 * (b * c) <= sqrt (heron16 a b c).
Proof.
  pose proof acute_bc_pos.
  replace (sqrt 3 * (b * c)) with (sqrt (3 * ((b * c) * (b * c)))).
  - apply sqrt_le_1_alt, acute_heron_lo.
  - rewrite sqrt_mult by nra. rewrite sqrt_square by lra. reflexivity.
Qed.
End Acute.

Lemma sqrt3_pos : 0 < sqrt 3.
Proof. apply sqrt_lt_R0. lra. Qed.

Lemma sqrt3_lt2 : sqrt 3 < 2.
Proof.
  rewrite <- (sqrt_square 2) by lra. apply sqrt_lt_1_alt. lra.
Qed.

(* the result is never smaller than the longest side and never larger than 2a/sqrt(3) *)
Theorem circ_d_bounds a b c : 0 <= b <= a -> 0 <= c <= a ->
  a <= circ_d a b c <= 2 * a / sqrt 3.
Proof.
  intros Hb Hc. pose proof sqrt3_pos as H3. pose proof sqrt3_lt2 as H32.
  assert (Ha : 0 <= a) by lra.
  unfold circ_d. destruct (Rle_dec (sqrt (b * b + c * c)) a) as [Ho|Hac].
  - split; [lra|]. apply Rmult_le_reg_r with (sqrt 3); [exact H3|].
    unfold Rdiv. rewrite Rmult_assoc, Rinv_l by lra. nra.
  - pose proof (acute_sqrt_pos a b c Hb Hc Hac) as Hs.
    pose proof (acute_sqrt_hi a b c Hb Hc Hac) as Hhi.
    pose proof (acute_sqrt_lo a b c Hb Hc Hac) as Hlo.
    pose proof (acute_bc_pos a b c Hb Hc Hac) as Hbc.
    set (q := sqrt (heron16 a b c)) in *.
    split.
    + apply Rmult_le_reg_r with q; [exact Hs|].
      unfold Rdiv. rewrite Rmult_assoc, Rinv_l by lra. nra.
    + apply Rmult_le_reg_r with (q * sqrt 3); [nra|].
      replace (2 * a * b * c / q * (q * sqrt 3)) with (2 * a * (sqrt 3 * (b * c))) by (field; lra).
      replace (2 * a / sqrt 3 * (q * sqrt 3)) with (2 * a * q) by (field; lra).
      nra.
Qed.

(* ---- the generated function ---- *)
Ltac2 Set Whnf.is_blocked as old := fun c =>
  Ltac2.Bool.or (old c) (Ltac2.List.exist (Ltac2.Constr.equal c)
                           ['@Angle___init__; '@f_angular_separation]).

(* which separation becomes the longest side a (Angle >= is "not <") *)
Definition circ_sel (s12 s13 s23 : R) : R * R * R :=
  if Rle_dec s13 s12 then
    if Rle_dec s23 s12 then (s12, s13, s23)
    else if Rle_dec s12 s13 then if Rle_dec s23 s13 then (s13, s12, s23) else (s23, s12, s13)
         else (s23, s12, s13)
  else if Rle_dec s23 s13 then (s13, s12, s23) else (s23, s12, s13).

Lemma sqrt3_gt : 17 / 10 < sqrt 3.
Proof.
  rewrite <- (sqrt_square (17 / 10)) by lra. apply sqrt_lt_1_alt. lra.
Qed.

Lemma circ_d_lt360 a b c : 0 <= b <= a -> 0 <= c <= a -> a <= 180 -> 0 <= circ_d a b c < 360.
Proof.
  intros Hb Hc Ha. pose proof (circ_d_bounds a b c Hb Hc) as [H1 H2].
  pose proof sqrt3_gt as H3. split; [lra|].
  apply Rle_lt_trans with (2 * a / sqrt 3); [exact H2|].
  apply Rmult_lt_reg_r with (sqrt 3); [lra|].
  unfold Rdiv. rewrite Rmult_assoc, Rinv_l by lra. nra.
Qed.

Ltac circ_dec := first [ assumption | Rlit_norm_all; lra | Rlit_norm_all; nra ].

(* finish: the evaluator stopped at Angle(d) *)
Ltac circ_finish :=
  lazymatch goal with
  | |- Angle___init__ _ _ (VTuple [VFloat ?d]) _ = ang ?d' =>
      first [ constr_eq d d'
            | replace d with d' by (unfold heron16; Rlit_norm; field; lra) ];
      change (Angle___init__ Rops blank (mk_tuple [VFloat d']) (mk_dict []) = ang d');
      rewrite Angle_new_deg_mk by lra; rewrite red360_id by lra; reflexivity
  end.

(* one leaf of the selection: longest side A, other sides B, C *)
Ltac circ_leaf_go A B C :=
  let HB := fresh "HB" in let HC := fresh "HC" in let Hr := fresh "Hr" in
  assert (HB : 0 <= B <= A) by lra; assert (HC : 0 <= C <= A) by lra;
  pose proof (circ_d_lt360 A B C HB HC ltac:(lra)) as Hr;
  unfold circ_d in *;
  destruct (Rle_dec (sqrt (B * B + C * C)) A) as [Ho|Hac];
  [ pyrunv_using circ_dec; circ_finish
  | let Hs := fresh "Hs" in let Hq := fresh "Hq" in
    pose proof (acute_sqrt_pos A B C HB HC Hac) as Hs;
    pose proof (acute_heron_pos A B C HB HC Hac) as Hq;
    unfold heron16 in Hs, Hq;
    pyrunv_using circ_dec; circ_finish ].
Ltac circ_leaf A B C := cbv beta iota; first [ exfalso; lra | circ_leaf_go A B C ].

Theorem circle_closed a1 d1 a2 d2 a3 d3 s12 s13 s23 :
  f_angular_separation Rops (ang a1) (ang d1) (ang a2) (ang d2) = ang s12 ->
  f_angular_separation Rops (ang a1) (ang d1) (ang a3) (ang d3) = ang s13 ->
  f_angular_separation Rops (ang a2) (ang d2) (ang a3) (ang d3) = ang s23 ->
  0 <= s12 <= 180 -> 0 <= s13 <= 180 -> 0 <= s23 <= 180 ->
  f_circle_diameter Rops (ang a1) (ang d1) (ang a2) (ang d2) (ang a3) (ang d3)
  = ang (let '(a, b, c) := circ_sel s12 s13 s23 in circ_d a b c).
Proof.
  intros H12 H13 H23 R12 R13 R23. unfold ang in H12, H13, H23.
  unfold circ_sel.
  destruct (Rle_dec s13 s12) as [L1|L1].
  - destruct (Rle_dec s23 s12) as [L2|L2].
    + circ_leaf s12 s13 s23.
    + destruct (Rle_dec s12 s13) as [L3|L3].
      * destruct (Rle_dec s23 s13) as [L4|L4].
        -- circ_leaf s13 s12 s23.
        -- circ_leaf s23 s12 s13.
      * circ_leaf s23 s12 s13.
  - destruct (Rle_dec s23 s13) as [L2|L2].
    + circ_leaf s13 s12 s23.
    + circ_leaf s23 s12 s13.
Qed.

(* between the longest separation and 2/sqrt(3) times it *)
Theorem circle_bounds a1 d1 a2 d2 a3 d3 s12 s13 s23 :
  f_angular_separation Rops (ang a1) (ang d1) (ang a2) (ang d2) = ang s12 ->
  f_angular_separation Rops (ang a1) (ang d1) (ang a3) (ang d3) = ang s13 ->
  f_angular_separation Rops (ang a2) (ang d2) (ang a3) (ang d3) = ang s23 ->
  0 <= s12 <= 180 -> 0 <= s13 <= 180 -> 0 <= s23 <= 180 ->
  exists d, f_circle_diameter Rops (ang a1) (ang d1) (ang a2) (ang d2) (ang a3) (ang d3) = ang d
    /\ Rmax s12 (Rmax s13 s23) <= d <= 2 * Rmax s12 (Rmax s13 s23) / sqrt 3.
Proof.
  intros H12 H13 H23 R12 R13 R23. eexists. split.
  - apply (circle_closed a1 d1 a2 d2 a3 d3 s12 s13 s23); assumption.
  - unfold circ_sel.
    destruct (Rle_dec s13 s12) as [L1|L1].
    + destruct (Rle_dec s23 s12) as [L2|L2].
      * cbv beta iota. replace (Rmax s12 (Rmax s13 s23)) with s12
          by (symmetry; apply Rmax_left; apply Rmax_lub; lra).
        apply circ_d_bounds; lra.
      * assert (E : Rmax s12 (Rmax s13 s23) = s23).
        { rewrite (Rmax_right s13 s23) by lra. apply Rmax_right. lra. }
        rewrite E.
        destruct (Rle_dec s12 s13); [destruct (Rle_dec s23 s13); [lra|]|]; apply circ_d_bounds; lra.
    + destruct (Rle_dec s23 s13) as [L2|L2].
      * assert (E : Rmax s12 (Rmax s13 s23) = s13).
        { rewrite (Rmax_left s13 s23) by lra. apply Rmax_right. lra. }
        rewrite E. apply circ_d_bounds; lra.
      * assert (E : Rmax s12 (Rmax s13 s23) = s23).
        { rewrite (Rmax_right s13 s23) by lra. apply Rmax_right. lra. }
        rewrite E. apply circ_d_bounds; lra.
Qed.
