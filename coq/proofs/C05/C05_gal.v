(* C05: equatorial (B1950) <-> galactic, ideal instance: closed forms, the fixed rotation
   built from 192.25 deg, 27.4 deg, 303 deg (resp. 123 deg, 12.25 deg), inverse. *)
From Coq Require Import Reals ZArith List String Lra Lia Psatz.
From PyLib Require Import PyVal PyBuiltins Ideal Whnf PyEval Sphere.
From Gen Require Import M_base M_Angle M_Epoch M_Interpolation M_Coordinates.
From Proofs.C05 Require Import C05_angle C05_run C05_hor.
Import ListNotations.
Open Scope R_scope.

Ltac2 Set Whnf.is_blocked as old := fun c =>
  Ltac2.Bool.or (old c) (Ltac2.Bool.or (Ltac2.Constr.equal c '@Angle___init__)
                                       (Ltac2.Constr.equal c '@Angle_to_positive)).

(* the constants of the code, in degrees *)
Definition g_ra : R := Rlit 19225 (-2).   (* 192.25: right ascension of the galactic pole *)
Definition g_dec : R := Rlit 274 (-1).    (* 27.4: its declination *)
Definition g_l0 : R := Rlit 3030 (-1).    (* 303 *)
Definition g_l1 : R := Rlit 1230 (-1).    (* 123 *)
Definition g_ra1 : R := Rlit 1225 (-2).   (* 12.25 *)

(* latitude formula of the galactic pair: the same as hor_ele with the factors of the
   numerator written in the other order *)
Definition gal_lat (h d p : R) : R :=
  atan2 (sin d * sin p + cos d * cos p * cos h)
        (Rabs (cos d) * sqrt (hor_x h d p * hor_x h d p + sin h * sin h)).
Lemma gal_lat_hor h d p : gal_lat h d p = hor_ele h d p.
Proof. unfold gal_lat, hor_ele. f_equal. ring. Qed.

Lemma eq2gal_closed (al de : R) :
  f_equatorial2galactic Rops (ang al) (ang de) =
  VTuple [ang (topos (red360 (r2d (- hor_azi (d2r g_ra - d2r al) (d2r de) (d2r g_dec)) + g_l0)));
          ang (r2d (gal_lat (d2r g_ra - d2r al) (d2r de) (d2r g_dec)))].
Proof. crun. reflexivity. Qed.

Lemma gal2eq_closed (lo la : R) :
  f_galactic2equatorial Rops (ang lo) (ang la) =
  VTuple [ang (topos (r2d (hor_azi (d2r lo - d2r g_l1) (d2r la) (d2r g_dec)) + g_ra1));
          ang (r2d (gal_lat (d2r lo - d2r g_l1) (d2r la) (d2r g_dec)))].
Proof. crun. reflexivity. Qed.

(* the two fixed rotations *)
Definition Rgal (v : vec) : vec :=
  Rz (d2r g_l0) (Ry (d2r g_dec - PI / 2) (Rz (- d2r g_ra) v)).
Definition Rgal_inv (v : vec) : vec :=
  Rz (d2r g_ra1) (Ry (d2r g_dec - PI / 2) (Rz (- d2r g_l1) v)).

Lemma dot_Rgal u v : dot (Rgal u) (Rgal v) = dot u v.
Proof. unfold Rgal. now rewrite dot_Rz, dot_Ry, dot_Rz. Qed.
Lemma dot_Rgal_inv u v : dot (Rgal_inv u) (Rgal_inv v) = dot u v.
Proof. unfold Rgal_inv. now rewrite dot_Rz, dot_Ry, dot_Rz. Qed.

Lemma Ry_Rz_PI a v : Ry a (Rz PI v) = Rz PI (Ry (- a) v).
Proof.
  destruct v as [[x y] z]. unfold Ry, Rz. rewrite cos_PI, sin_PI, cos_neg, sin_neg.
  apply vec_eq; ring.
Qed.
Lemma Rz_mPI v : Rz (- PI) v = Rz PI v.
Proof. replace (- PI) with (PI + 2 * IZR (-1) * PI) by ring. apply Rz_period. Qed.

Lemma g_consts1 : - d2r g_ra + d2r g_ra1 = - PI.
Proof. unfold d2r, g_ra, g_ra1. Rlit_norm. field. Qed.
Lemma g_consts2 : d2r g_l0 + (PI + - d2r g_l1) = 2 * PI.
Proof. unfold d2r, g_l0, g_l1. Rlit_norm. field. Qed.
Lemma g_consts3 : - d2r g_l1 + d2r g_l0 = PI.
Proof. unfold d2r, g_l0, g_l1. Rlit_norm. field. Qed.
Lemma g_consts4 : d2r g_ra1 + (PI + - d2r g_ra) = 0.
Proof. unfold d2r, g_ra, g_ra1. Rlit_norm. field. Qed.

Lemma Rgal_Rgal_inv v : Rgal (Rgal_inv v) = v.
Proof.
  unfold Rgal, Rgal_inv. rewrite (Rz_add (- d2r g_ra)), g_consts1, Rz_mPI.
  rewrite Ry_Rz_PI, Ry_add. replace (- (d2r g_dec - PI / 2) + (d2r g_dec - PI / 2)) with 0 by ring.
  rewrite Ry_0, !Rz_add.
  match goal with |- Rz ?t _ = _ => replace t with (2 * PI) by (pose proof g_consts2; lra) end.
  apply Rz_2PI.
Qed.
Lemma Rgal_inv_Rgal v : Rgal_inv (Rgal v) = v.
Proof.
  unfold Rgal, Rgal_inv. rewrite (Rz_add (- d2r g_l1)), g_consts3.
  rewrite Ry_Rz_PI, Ry_add. replace (- (d2r g_dec - PI / 2) + (d2r g_dec - PI / 2)) with 0 by ring.
  rewrite Ry_0, !Rz_add.
  match goal with |- Rz ?t _ = _ => replace t with 0 by (pose proof g_consts4; lra) end.
  apply Rz_0.
Qed.

Theorem eq2gal_rotation al de : -90 < de < 90 ->
  exists lo la, f_equatorial2galactic Rops (ang al) (ang de) = VTuple [ang lo; ang la]
    /\ uvec (d2r lo) (d2r la) = Rgal (uvec (d2r al) (d2r de))
    /\ 0 <= lo < 360 /\ -90 <= la <= 90.
Proof.
  intros Hde. eexists. eexists. split; [apply eq2gal_closed |]. split; [| split].
  - rewrite uvec_topos_deg', uvec_red360_deg, d2r_plus, !d2r_r2d, gal_lat_hor.
    rewrite <- Rz_uvec, <- My_uvec, hor_formula_rot by now apply cos_d2r_pos.
    unfold Rgal, Rhor. f_equal. rewrite My_Ry. f_equal.
    replace (d2r g_ra - d2r al) with (- d2r al + d2r g_ra) by ring.
    rewrite <- Rz_uvec, <- My_uvec, My_Rz, My_My. reflexivity.
  - set (x := hor_azi (d2r g_ra - d2r al) (d2r de) (d2r g_dec)).
    assert (Hb : -180 < r2d x <= 180) by apply r2d_atan2_range.
    assert (Hr : -720 < r2d (- x) + g_l0 < 720) by (rewrite r2d_opp; unfold g_l0; Rlit_norm; lra).
    pose proof (red360_range _ Hr). apply topos_range. lra.
  - apply r2d_atan2_nonneg_range, abs_sqrt_nonneg.
Qed.

Theorem gal2eq_rotation lo la : -90 < la < 90 ->
  exists al de, f_galactic2equatorial Rops (ang lo) (ang la) = VTuple [ang al; ang de]
    /\ uvec (d2r al) (d2r de) = Rgal_inv (uvec (d2r lo) (d2r la))
    /\ 0 <= al < 360 /\ -90 <= de <= 90.
Proof.
  intros Hla. eexists. eexists. split; [apply gal2eq_closed |]. split; [| split].
  - rewrite uvec_topos_deg', d2r_plus, !d2r_r2d, gal_lat_hor.
    rewrite <- Rz_uvec, hor_formula_rot by now apply cos_d2r_pos.
    unfold Rgal_inv, Rhor. f_equal. f_equal.
    replace (d2r lo - d2r g_l1) with (d2r lo + - d2r g_l1) by ring.
    now rewrite <- Rz_uvec.
  - set (x := hor_azi (d2r lo - d2r g_l1) (d2r la) (d2r g_dec)).
    assert (Hb : -180 < r2d x <= 180) by apply r2d_atan2_range.
    apply topos_range. unfold g_ra1. Rlit_norm. lra.
  - apply r2d_atan2_nonneg_range, abs_sqrt_nonneg.
Qed.

Theorem gal_roundtrip al de lo la : 0 <= al < 360 -> -90 < de < 90 ->
  f_equatorial2galactic Rops (ang al) (ang de) = VTuple [ang lo; ang la] ->
  -90 < la < 90 ->
  f_galactic2equatorial Rops (ang lo) (ang la) = VTuple [ang al; ang de].
Proof.
  intros Hal Hde H1 Hla.
  destruct (eq2gal_rotation al de Hde) as (lo' & la' & E1 & R1 & _ & _).
  rewrite H1 in E1. injection E1 as <- <-.
  destruct (gal2eq_rotation lo la Hla) as (al' & de' & E2 & R2 & Hal' & Hde').
  rewrite E2. rewrite R1, Rgal_inv_Rgal in R2.
  destruct (angles_of_uvec_eq al de al' de') as [A B]; try lra; [now symmetry |].
  now subst.
Qed.

Theorem equ_g_roundtrip lo la al de : 0 <= lo < 360 -> -90 < la < 90 ->
  f_galactic2equatorial Rops (ang lo) (ang la) = VTuple [ang al; ang de] ->
  -90 < de < 90 ->
  f_equatorial2galactic Rops (ang al) (ang de) = VTuple [ang lo; ang la].
Proof.
  intros Hlo Hla H1 Hde.
  destruct (gal2eq_rotation lo la Hla) as (al' & de' & E1 & R1 & _ & _).
  rewrite H1 in E1. injection E1 as <- <-.
  destruct (eq2gal_rotation al de Hde) as (lo' & la' & E2 & R2 & Hlo' & Hla').
  rewrite E2. rewrite R1, Rgal_Rgal_inv in R2.
  destruct (angles_of_uvec_eq lo la lo' la') as [A B]; try lra; [now symmetry |].
  now subst.
Qed.

Theorem eq2gal_dot a1 d1 a2 d2 l1 b1 l2 b2 : -90 < d1 < 90 -> -90 < d2 < 90 ->
  f_equatorial2galactic Rops (ang a1) (ang d1) = VTuple [ang l1; ang b1] ->
  f_equatorial2galactic Rops (ang a2) (ang d2) = VTuple [ang l2; ang b2] ->
  dot (uvec (d2r l1) (d2r b1)) (uvec (d2r l2) (d2r b2))
  = dot (uvec (d2r a1) (d2r d1)) (uvec (d2r a2) (d2r d2)).
Proof.
  intros H1 H2 E1 E2.
  destruct (eq2gal_rotation a1 d1 H1) as (? & ? & E1' & R1 & _).
  destruct (eq2gal_rotation a2 d2 H2) as (? & ? & E2' & R2 & _).
  rewrite E1 in E1'. rewrite E2 in E2'. injection E1' as <- <-. injection E2' as <- <-.
  rewrite R1, R2. apply dot_Rgal.
Qed.

Theorem gal2eq_dot l1 b1 l2 b2 a1 d1 a2 d2 : -90 < b1 < 90 -> -90 < b2 < 90 ->
  f_galactic2equatorial Rops (ang l1) (ang b1) = VTuple [ang a1; ang d1] ->
  f_galactic2equatorial Rops (ang l2) (ang b2) = VTuple [ang a2; ang d2] ->
  dot (uvec (d2r a1) (d2r d1)) (uvec (d2r a2) (d2r d2))
  = dot (uvec (d2r l1) (d2r b1)) (uvec (d2r l2) (d2r b2)).
Proof.
  intros H1 H2 E1 E2.
  destruct (gal2eq_rotation l1 b1 H1) as (? & ? & E1' & R1 & _).
  destruct (gal2eq_rotation l2 b2 H2) as (? & ? & E2' & R2 & _).
  rewrite E1 in E1'. rewrite E2 in E2'. injection E1' as <- <-. injection E2' as <- <-.
  rewrite R1, R2. apply dot_Rgal_inv.
Qed.

(* there and back returns the same direction for EVERY input longitude (not only canonical
   ones): the result is the direction's canonical representative *)
Theorem gal_roundtrip_vec al de lo la : -90 < de < 90 ->
  f_equatorial2galactic Rops (ang al) (ang de) = VTuple [ang lo; ang la] ->
  -90 < la < 90 ->
  exists x y, f_galactic2equatorial Rops (ang lo) (ang la) = VTuple [ang x; ang y]
    /\ uvec (d2r x) (d2r y) = uvec (d2r al) (d2r de) /\ y = de /\ 0 <= x < 360.
Proof.
  intros H0 H1 H2.
  destruct (eq2gal_rotation al de H0) as (o1' & o2' & E1 & R1 & _ & _).
  rewrite H1 in E1. injection E1 as <- <-.
  destruct (gal2eq_rotation lo la H2) as (x & y & E2 & R2 & Hx & Hy).
  exists x, y. rewrite R1, Rgal_inv_Rgal in R2. repeat split; try assumption; try lra.
  apply d2r_inj. apply (uvec_inj_lat (d2r x) (d2r y) (d2r al) (d2r de)); [| | assumption].
  - destruct Hy as [A B]. apply d2r_le in A, B. rewrite d2r_m90 in A. rewrite d2r_90 in B. lra.
  - destruct H0 as [A B]. apply d2r_lt in A, B. rewrite d2r_m90 in A. rewrite d2r_90 in B. lra.
Qed.

(* there and back returns the same direction for EVERY input longitude (not only canonical
   ones): the result is the direction's canonical representative *)
Theorem equ_g_roundtrip_vec lo la al de : -90 < la < 90 ->
  f_galactic2equatorial Rops (ang lo) (ang la) = VTuple [ang al; ang de] ->
  -90 < de < 90 ->
  exists x y, f_equatorial2galactic Rops (ang al) (ang de) = VTuple [ang x; ang y]
    /\ uvec (d2r x) (d2r y) = uvec (d2r lo) (d2r la) /\ y = la /\ 0 <= x < 360.
Proof.
  intros H0 H1 H2.
  destruct (gal2eq_rotation lo la H0) as (o1' & o2' & E1 & R1 & _ & _).
  rewrite H1 in E1. injection E1 as <- <-.
  destruct (eq2gal_rotation al de H2) as (x & y & E2 & R2 & Hx & Hy).
  exists x, y. rewrite R1, Rgal_Rgal_inv in R2. repeat split; try assumption; try lra.
  apply d2r_inj. apply (uvec_inj_lat (d2r x) (d2r y) (d2r lo) (d2r la)); [| | assumption].
  - destruct Hy as [A B]. apply d2r_le in A, B. rewrite d2r_m90 in A. rewrite d2r_90 in B. lra.
  - destruct H0 as [A B]. apply d2r_lt in A, B. rewrite d2r_m90 in A. rewrite d2r_90 in B. lra.
Qed.
