(* C15: evaluation driver on top of pyrun: innermost-first evaluation of nested arithmetic
   (whnf alone re-evaluates call-by-name arguments, exponential in the nesting depth of a
   Horner polynomial), and values of the Angle callees supplied from C15_angle lemmas. *)
From Coq Require Import Reals ZArith List Bool Lra Lia String.
From PyLib Require Import PyVal PyBuiltins Ideal Whnf PyEval.
From Gen Require Import M_base M_Angle M_Epoch M_Coordinates.
From Proofs.C15 Require Import C15_angle.
Import ListNotations.
Open Scope R_scope.

Ltac eval_inner tac :=
  repeat match goal with
  | |- context [?f Rops ?a ?b] =>
      is_canon a; is_canon b;
      let t := constr:(f Rops a b) in
      let H := fresh "Hin" in
      eassert (H : t = _) by (pyrun_using tac; py_canon_refl); rewrite H; clear H
  | |- context [m1 Rops ?fn ?a] =>
      is_canon a;
      let t := constr:(m1 Rops fn a) in
      let H := fresh "Hin" in
      eassert (H : t = _) by (pyrun_using tac; py_canon_refl); rewrite H; clear H
  end.

Ltac myrun_using tac :=
  whnf_lhs;
  lazymatch goal with
  | |- ?l = _ =>
    tryif is_canon l then expose_R else
    lazymatch l with
    | bind ?e ?k =>
        tryif is_canon e then
          (lazymatch e with
           | VErr _ => rewrite (bind_err _ k)
           | _ => rewrite (bind_ok e k) by reflexivity; cbv beta
           end; myrun_using tac)
        else
          (let H := fresh "Hev" in
           eassert (H : e = _) by (eval_inner tac; pyrun_using tac; py_canon_refl);
           rewrite H; clear H; myrun_using tac)
    | _ => pyrun_using tac
    end
  end.
Ltac myrun := myrun_using pylra.

(* closed integer arithmetic under IZR is computed before lra is asked *)
Ltac zcomp :=
  repeat match goal with
  | |- context [IZR ?z] =>
      lazymatch z with Z0 => fail | Zpos _ => fail | Zneg _ => fail | _ => idtac end;
      let v := eval vm_compute in z in
      lazymatch v with Z0 => idtac | Zpos _ => idtac | Zneg _ => idtac end;
      progress change z with v
  end.
Ltac ztac := first [ pylra | zcomp; pylra ].
Ltac zrun := myrun_using ztac.

(* callees whose value is supplied by lemmas of C15_angle (or by a hypothesis) *)
Ltac2 Set Whnf.is_blocked as old := fun c =>
  Ltac2.Bool.or (old c) (Ltac2.List.exist (Ltac2.Constr.equal c)
    ['@g_JDE2000; '@Angle___init__; '@Angle_to_positive; '@Angle_reduce_deg;
     '@Epoch_get_date; '@Epoch_is_leap; '@Epoch_get_doy; '@Epoch___init__;
     '@f_nutation_longitude; '@f_true_obliquity; '@f_ecliptical2equatorial]).

Ltac angle_hook s :=
  lazymatch s with
  | Angle___init__ Rops _ (mk_tuple [Angle_reduce_deg Rops (VFloat ?x)]) (mk_dict []) =>
      assert (s = ang (rdeg x)) by (exact (Angle_new_red x))
  | Angle___init__ Rops _ (mk_tuple [VFloat ?x]) (mk_dict []) =>
      assert (s = ang (rdeg x)) by (exact (Angle_new_mk x))
  | Angle___init__ Rops _ (mk_tuple [VFloat ?x]) (mk_dict [(VStr "radians", VBool true)]) =>
      assert (s = ang (rdeg (x * (180 / PI)))) by (exact (Angle_new_rad x))
  | Angle___init__ Rops _ (mk_tuple [VObj cAngle [VFloat ?x; VFloat tol0]]) (mk_dict []) =>
      assert (s = ang x) by (exact (Angle_new_copy x))
  | Angle___init__ Rops ?b (mk_tuple [?e]) (mk_dict []) =>
      let H := fresh "Harg" in
      eassert (H : e = _) by (myrun_using ztac; py_canon_refl);
      lazymatch type of H with
      | _ = VFloat ?x =>
          assert (s = ang (rdeg x)) by (rewrite H; exact (Angle_new_mk x)); clear H
      end
  | Epoch___init__ Rops _ (mk_tuple [VFloat ?x]) (mk_dict []) =>
      match goal with HE : forall x0 : R, Epoch___init__ Rops _ (mk_tuple [VFloat x0]) (mk_dict []) = _ |- _ =>
        pose proof (HE x) end
  | Epoch_is_leap Rops ?a =>
      let a' := eval cbv [item nth] in a in
      match goal with H : Epoch_is_leap Rops a' = ?v |- _ => assert (s = v) by exact H end
  | Epoch_get_doy Rops ?a ?b ?c =>
      let a' := eval cbv [item nth] in a in
      let b' := eval cbv [item nth] in b in
      let c' := eval cbv [item nth] in c in
      match goal with H : Epoch_get_doy Rops a' b' c' = ?v |- _ => assert (s = v) by exact H end
  | Angle_to_positive Rops (VObj cAngle [VFloat (rdeg ?x); _]) =>
      assert (s = VTuple [ang (norm360 x); ang (norm360 x)]) by (exact (to_positive_norm x))
  | _ => idtac
  end.
Ltac py_trace s ::= angle_hook s.

(* replace every sin/cos by a variable in [-1,1] (amplitude bounds) *)
Ltac gen_trig :=
  repeat match goal with
  | |- context [sin ?a] =>
      let s := fresh "s" in let H := fresh "Hs" in
      pose proof (SIN_bound a) as H; set (s := sin a) in *; clearbody s
  | |- context [cos ?a] =>
      let s := fresh "c" in let H := fresh "Hc" in
      pose proof (COS_bound a) as H; set (s := cos a) in *; clearbody s
  end.
