(* C15 (Moon position): the two loop shapes the translator produces in Moon.geocentric_ecliptical_pos
       for i, value in enumerate(TABLE):
           argument = 0.0
           for j in range(4):
               if TABLE[i][j]: argument += TABLE[i][j] * arguments[j]
           coeff = value[4]           (and value[5] in the longitude/distance loop)
           if abs(value[1]) == 1: coeff = coeff * E
           elif abs(value[1]) == 2: coeff = coeff * E2
           sigma += coeff * sin(argument)      (and sigmar += coeffr * cos(argument))
   as combinators [lr_fix] (two sums) and [b_fix] (one sum) over abstract pieces, with theorems for
   tables of ANY length (induction over the rows and over the inner range).  Nothing here mentions
   the generated model; C15_pos_main.v shows by unification that the generated loops ARE instances. *)
From Coq Require Import Reals ZArith List Bool Lra Lia.
From PyLib Require Import PyVal PyBuiltins Ideal.
Import ListNotations.
Open Scope R_scope.

Notation rval := (val R).

Definition urow (ROW : nat -> rval) (i : nat) : rval := VTuple [VInt (Z.of_nat i); ROW i].
Definition arg_step (N : nat -> Z) (U : nat -> R -> R) (a : R) (j : nat) : R :=
  if (N j =? 0)%Z then a else U j a.
Definition row_arg (m : nat) (a0 : R) (N : nat -> nat -> Z) (U : nat -> nat -> R -> R) (i : nat) : R :=
  fold_left (arg_step (N i) (U i)) (seq 0 m) a0.
(* the eccentricity factor: coefficient times E, E^2 or 1 *)
Definition efac (b1 b2 : bool) (e1 e2 c : R) : R := if b1 then c * e1 else if b2 then c * e2 else c.

Lemma zrange_nat_S' a n : zrange_nat a (S n) = VInt a :: @zrange_nat R (a + 1) n.
Proof. reflexivity. Qed.

(* the inner loop over j = k .. k+rest-1, argument a float *)
Lemma inner_float (COND : rval -> rval -> rval) (UPD : rval -> rval -> rval -> rval) (u : rval)
    (Kin : rval -> rval -> rval) (N : nat -> Z) (U : nat -> R -> R) (m : nat) :
  (forall j, (j < m)%nat -> COND u (VInt (Z.of_nat j)) = VInt (N j)) ->
  (forall j a, (j < m)%nat -> UPD u (VInt (Z.of_nat j)) (VFloat a) = VFloat (U j a)) ->
  forall rest k a jst, (k + rest = m)%nat ->
  exists j',
  (fix loop (l : list rval) (argument_1 j_0 : rval) {struct l} : rval :=
     match l with
     | [] => Kin argument_1 j_0
     | x :: l' =>
         ifv Rops (COND u x)
           (fun _ => bind (UPD u x argument_1) (fun argument_2 => loop l' argument_2 x))
           (fun _ => loop l' argument_1 x)
     end) (zrange_nat (Z.of_nat k) rest) (VFloat a) jst
  = Kin (VFloat (fold_left (arg_step N U) (seq k rest) a)) j'.
Proof.
  intros HC HU. induction rest as [|rest IH]; intros k a jst Hk.
  - exists jst. reflexivity.
  - rewrite zrange_nat_S'. cbv beta iota.
    rewrite (HC k) by lia. unfold ifv at 1.
    replace (Z.of_nat k + 1)%Z with (Z.of_nat (S k)) by lia.
    simpl seq. simpl fold_left. unfold arg_step at 2.
    destruct (N k =? 0)%Z.
    + destruct (IH (S k) a (VInt (Z.of_nat k))) as [j' E]; [lia|]. exists j'. exact E.
    + rewrite (HU k a) by lia. unfold bind at 1.
      destruct (IH (S k) (U k a) (VInt (Z.of_nat k))) as [j' E]; [lia|]. exists j'. exact E.
Qed.

(* ------------------------------------------------------------------ longitude / distance loop *)
Definition lr_fix (K : rval -> rval -> rval -> rval -> rval -> rval -> rval -> rval -> rval) (IA RNG : rval)
    (C4 C5 T1 T2 ME ME2 : rval -> rval) (ACCL ACCR : rval -> rval -> rval -> rval)
    (COND : rval -> rval -> rval) (UPD : rval -> rval -> rval -> rval) :=
  fix loop39 (l41 : list rval) (argument_ coeffl_ coeffr_ i_ j_ sigmal_ sigmar_ value_ : rval) {struct l41} : rval :=
    match l41 with
    | [] => K argument_ coeffl_ coeffr_ i_ j_ sigmal_ sigmar_ value_
    | x40 :: l41' =>
        bind (unpack 2 x40) (fun u49 =>
        bind IA (fun argument_0 =>
        bind RNG (fun l470 =>
          (fix loop45 (l47 : list rval) (argument_1 j_0 : rval) {struct l47} : rval :=
             match l47 with
             | [] =>
                 bind (C4 u49) (fun coeffl_0 =>
                 bind (C5 u49) (fun coeffr_0 =>
                 ifv Rops (T1 u49)
                   (fun _ => bind (ME coeffl_0) (fun coeffl_1 => bind (ME coeffr_0) (fun coeffr_1 =>
                             bind (ACCL sigmal_ coeffl_1 argument_1) (fun sigmal_0 =>
                             bind (ACCR sigmar_ coeffr_1 argument_1) (fun sigmar_0 =>
                             loop39 l41' argument_1 coeffl_1 coeffr_1 (item u49 0) j_0 sigmal_0 sigmar_0 (item u49 1))))))
                   (fun _ => ifv Rops (T2 u49)
                     (fun _ => bind (ME2 coeffl_0) (fun coeffl_1 => bind (ME2 coeffr_0) (fun coeffr_1 =>
                               bind (ACCL sigmal_ coeffl_1 argument_1) (fun sigmal_0 =>
                               bind (ACCR sigmar_ coeffr_1 argument_1) (fun sigmar_0 =>
                               loop39 l41' argument_1 coeffl_1 coeffr_1 (item u49 0) j_0 sigmal_0 sigmar_0 (item u49 1))))))
                     (fun _ => bind (ACCL sigmal_ coeffl_0 argument_1) (fun sigmal_0 =>
                               bind (ACCR sigmar_ coeffr_0 argument_1) (fun sigmar_0 =>
                               loop39 l41' argument_1 coeffl_0 coeffr_0 (item u49 0) j_0 sigmal_0 sigmar_0 (item u49 1)))))))
             | x46 :: l47' =>
                 ifv Rops (COND u49 x46)
                   (fun _ => bind (UPD u49 x46 argument_1) (fun argument_2 => loop45 l47' argument_2 x46))
                   (fun _ => loop45 l47' argument_1 x46)
             end) (seq_of l470) argument_0 j_)))
    end.

Lemma lr_fix_cons K IA RNG C4 C5 T1 T2 ME ME2 ACCL ACCR COND UPD x40 l41' a cl cr i j sl sr v :
  lr_fix K IA RNG C4 C5 T1 T2 ME ME2 ACCL ACCR COND UPD (x40 :: l41') a cl cr i j sl sr v =
  bind (unpack 2 x40) (fun u49 =>
  bind IA (fun argument_0 =>
  bind RNG (fun l470 =>
    (fix loop45 (l47 : list rval) (argument_1 j_0 : rval) {struct l47} : rval :=
       match l47 with
       | [] =>
           bind (C4 u49) (fun coeffl_0 =>
           bind (C5 u49) (fun coeffr_0 =>
           ifv Rops (T1 u49)
             (fun _ => bind (ME coeffl_0) (fun coeffl_1 => bind (ME coeffr_0) (fun coeffr_1 =>
                       bind (ACCL sl coeffl_1 argument_1) (fun sigmal_0 =>
                       bind (ACCR sr coeffr_1 argument_1) (fun sigmar_0 =>
                       lr_fix K IA RNG C4 C5 T1 T2 ME ME2 ACCL ACCR COND UPD l41' argument_1 coeffl_1 coeffr_1 (item u49 0) j_0 sigmal_0 sigmar_0 (item u49 1))))))
             (fun _ => ifv Rops (T2 u49)
               (fun _ => bind (ME2 coeffl_0) (fun coeffl_1 => bind (ME2 coeffr_0) (fun coeffr_1 =>
                         bind (ACCL sl coeffl_1 argument_1) (fun sigmal_0 =>
                         bind (ACCR sr coeffr_1 argument_1) (fun sigmar_0 =>
                         lr_fix K IA RNG C4 C5 T1 T2 ME ME2 ACCL ACCR COND UPD l41' argument_1 coeffl_1 coeffr_1 (item u49 0) j_0 sigmal_0 sigmar_0 (item u49 1))))))
               (fun _ => bind (ACCL sl coeffl_0 argument_1) (fun sigmal_0 =>
                         bind (ACCR sr coeffr_0 argument_1) (fun sigmar_0 =>
                         lr_fix K IA RNG C4 C5 T1 T2 ME ME2 ACCL ACCR COND UPD l41' argument_1 coeffl_0 coeffr_0 (item u49 0) j_0 sigmal_0 sigmar_0 (item u49 1)))))))
       | x46 :: l47' =>
           ifv Rops (COND u49 x46)
             (fun _ => bind (UPD u49 x46 argument_1) (fun argument_2 => loop45 l47' argument_2 x46))
             (fun _ => loop45 l47' argument_1 x46)
       end) (seq_of l470) argument_0 j))).
Proof. reflexivity. Qed.

Section LR.
Variables (K : rval -> rval -> rval -> rval -> rval -> rval -> rval -> rval -> rval) (IA RNG : rval)
          (C4 C5 T1 T2 ME ME2 : rval -> rval) (ACCL ACCR : rval -> rval -> rval -> rval)
          (COND : rval -> rval -> rval) (UPD : rval -> rval -> rval -> rval).
Variables (ROW : nat -> rval) (ntot m : nat) (a0 e1 e2 : R).
Variables (cl cr : nat -> R) (b1 b2 : nat -> bool) (N : nat -> nat -> Z) (U : nat -> nat -> R -> R)
          (accl accr : R -> R -> R -> R).

Hypothesis HIA : IA = VFloat a0.
Hypothesis HRNG : RNG = VList (zrange_nat 0 m).
Hypothesis HC4 : forall i, (i < ntot)%nat -> C4 (urow ROW i) = VFloat (cl i).
Hypothesis HC5 : forall i, (i < ntot)%nat -> C5 (urow ROW i) = VFloat (cr i).
Hypothesis HT1 : forall i, (i < ntot)%nat -> T1 (urow ROW i) = VBool (b1 i).
Hypothesis HT2 : forall i, (i < ntot)%nat -> T2 (urow ROW i) = VBool (b2 i).
Hypothesis HME : forall c, ME (VFloat c) = VFloat (c * e1).
Hypothesis HME2 : forall c, ME2 (VFloat c) = VFloat (c * e2).
Hypothesis HACCL : forall d c a, ACCL (VFloat d) (VFloat c) (VFloat a) = VFloat (accl d c a).
Hypothesis HACCR : forall d c a, ACCR (VFloat d) (VFloat c) (VFloat a) = VFloat (accr d c a).
Hypothesis HCOND : forall i j, (i < ntot)%nat -> (j < m)%nat ->
  COND (urow ROW i) (VInt (Z.of_nat j)) = VInt (N i j).
Hypothesis HUPD : forall i j a, (i < ntot)%nat -> (j < m)%nat ->
  UPD (urow ROW i) (VInt (Z.of_nat j)) (VFloat a) = VFloat (U i j a).

Theorem lr_fix_spec : forall n k arg c1 c2 i j sl sr v, (k + n <= ntot)%nat ->
  exists arg' c1' c2' i' j' v',
  lr_fix K IA RNG C4 C5 T1 T2 ME ME2 ACCL ACCR COND UPD (map (urow ROW) (seq k n)) arg c1 c2 i j (VFloat sl) (VFloat sr) v =
  K arg' c1' c2' i' j'
    (VFloat (fold_left (fun d i => accl d (efac (b1 i) (b2 i) e1 e2 (cl i)) (row_arg m a0 N U i)) (seq k n) sl))
    (VFloat (fold_left (fun d i => accr d (efac (b1 i) (b2 i) e1 e2 (cr i)) (row_arg m a0 N U i)) (seq k n) sr)) v'.
Proof.
  rewrite HIA, HRNG.
  induction n as [|n IH]; intros k arg c1 c2 i j sl sr v Hk.
  - exists arg, c1, c2, i, j, v. reflexivity.
  - simpl seq. simpl map. rewrite lr_fix_cons.
    change (unpack 2 (urow ROW k)) with (urow ROW k). unfold bind at 1. unfold urow at 1.
    unfold bind at 1. unfold bind at 1.
    change (seq_of (VList (zrange_nat 0 m))) with (@zrange_nat R 0 m).
    fold (urow ROW k).
    destruct (inner_float COND UPD (urow ROW k)
      (fun argument_1 j_0 =>
         bind (C4 (urow ROW k)) (fun coeffl_0 =>
         bind (C5 (urow ROW k)) (fun coeffr_0 =>
         ifv Rops (T1 (urow ROW k))
           (fun _ => bind (ME coeffl_0) (fun coeffl_1 => bind (ME coeffr_0) (fun coeffr_1 =>
                     bind (ACCL (VFloat sl) coeffl_1 argument_1) (fun sigmal_0 =>
                     bind (ACCR (VFloat sr) coeffr_1 argument_1) (fun sigmar_0 =>
                     lr_fix K (VFloat a0) (VList (zrange_nat 0 m)) C4 C5 T1 T2 ME ME2 ACCL ACCR COND UPD (map (urow ROW) (seq (S k) n)) argument_1 coeffl_1 coeffr_1 (item (urow ROW k) 0) j_0 sigmal_0 sigmar_0 (item (urow ROW k) 1))))))
           (fun _ => ifv Rops (T2 (urow ROW k))
             (fun _ => bind (ME2 coeffl_0) (fun coeffl_1 => bind (ME2 coeffr_0) (fun coeffr_1 =>
                       bind (ACCL (VFloat sl) coeffl_1 argument_1) (fun sigmal_0 =>
                       bind (ACCR (VFloat sr) coeffr_1 argument_1) (fun sigmar_0 =>
                       lr_fix K (VFloat a0) (VList (zrange_nat 0 m)) C4 C5 T1 T2 ME ME2 ACCL ACCR COND UPD (map (urow ROW) (seq (S k) n)) argument_1 coeffl_1 coeffr_1 (item (urow ROW k) 0) j_0 sigmal_0 sigmar_0 (item (urow ROW k) 1))))))
             (fun _ => bind (ACCL (VFloat sl) coeffl_0 argument_1) (fun sigmal_0 =>
                       bind (ACCR (VFloat sr) coeffr_0 argument_1) (fun sigmar_0 =>
                       lr_fix K (VFloat a0) (VList (zrange_nat 0 m)) C4 C5 T1 T2 ME ME2 ACCL ACCR COND UPD (map (urow ROW) (seq (S k) n)) argument_1 coeffl_0 coeffr_0 (item (urow ROW k) 0) j_0 sigmal_0 sigmar_0 (item (urow ROW k) 1))))))))
      (N k) (U k) m (fun jj Hj => HCOND k jj ltac:(lia) Hj) (fun jj a Hj => HUPD k jj a ltac:(lia) Hj)
      m 0%nat a0 j eq_refl) as [j' E].
    change (Z.of_nat 0) with 0%Z in E. rewrite E. clear E.
    fold (row_arg m a0 N U k).
    rewrite (HC4 k) by lia. unfold bind at 1. rewrite (HC5 k) by lia. unfold bind at 1.
    rewrite (HT1 k) by lia. unfold ifv at 1.
    simpl fold_left. unfold efac at 2 4.
    destruct (b1 k).
    + rewrite !HME. unfold bind at 1. unfold bind at 1. rewrite HACCL. unfold bind at 1.
      rewrite HACCR. unfold bind at 1.
      destruct (IH (S k) (VFloat (row_arg m a0 N U k)) (VFloat (cl k * e1)) (VFloat (cr k * e1))
                   (item (urow ROW k) 0) j' (accl sl (cl k * e1) (row_arg m a0 N U k))
                   (accr sr (cr k * e1) (row_arg m a0 N U k)) (item (urow ROW k) 1))
        as (a' & x1 & x2 & i' & j'' & v' & E); [lia|].
      exists a', x1, x2, i', j'', v'. exact E.
    + rewrite (HT2 k) by lia. unfold ifv at 1. destruct (b2 k).
      * rewrite !HME2. unfold bind at 1. unfold bind at 1. rewrite HACCL. unfold bind at 1.
        rewrite HACCR. unfold bind at 1.
        destruct (IH (S k) (VFloat (row_arg m a0 N U k)) (VFloat (cl k * e2)) (VFloat (cr k * e2))
                     (item (urow ROW k) 0) j' (accl sl (cl k * e2) (row_arg m a0 N U k))
                     (accr sr (cr k * e2) (row_arg m a0 N U k)) (item (urow ROW k) 1))
          as (a' & x1 & x2 & i' & j'' & v' & E); [lia|].
        exists a', x1, x2, i', j'', v'. exact E.
      * rewrite HACCL. unfold bind at 1. rewrite HACCR. unfold bind at 1.
        destruct (IH (S k) (VFloat (row_arg m a0 N U k)) (VFloat (cl k)) (VFloat (cr k))
                     (item (urow ROW k) 0) j' (accl sl (cl k) (row_arg m a0 N U k))
                     (accr sr (cr k) (row_arg m a0 N U k)) (item (urow ROW k) 1))
          as (a' & x1 & x2 & i' & j'' & v' & E); [lia|].
        exists a', x1, x2, i', j'', v'. exact E.
Qed.
End LR.

(* ------------------------------------------------------------------ latitude loop *)
Definition b_fix (K : rval -> rval -> rval -> rval -> rval -> rval -> rval) (IA RNG : rval)
    (C4 T1 T2 ME ME2 : rval -> rval) (ACC : rval -> rval -> rval -> rval)
    (COND : rval -> rval -> rval) (UPD : rval -> rval -> rval -> rval) :=
  fix loop28 (l30 : list rval) (argument_ coeffb_ i_ j_ sigmab_ value_ : rval) {struct l30} : rval :=
    match l30 with
    | [] => K argument_ coeffb_ i_ j_ sigmab_ value_
    | x29 :: l30' =>
        bind (unpack 2 x29) (fun u38 =>
        bind IA (fun argument_0 =>
        bind RNG (fun l360 =>
          (fix loop34 (l36 : list rval) (argument_1 j_0 : rval) {struct l36} : rval :=
             match l36 with
             | [] =>
                 bind (C4 u38) (fun coeffb_0 =>
                 ifv Rops (T1 u38)
                   (fun _ => bind (ME coeffb_0) (fun coeffb_1 =>
                             bind (ACC sigmab_ coeffb_1 argument_1) (fun sigmab_0 =>
                             loop28 l30' argument_1 coeffb_1 (item u38 0) j_0 sigmab_0 (item u38 1))))
                   (fun _ => ifv Rops (T2 u38)
                     (fun _ => bind (ME2 coeffb_0) (fun coeffb_1 =>
                               bind (ACC sigmab_ coeffb_1 argument_1) (fun sigmab_0 =>
                               loop28 l30' argument_1 coeffb_1 (item u38 0) j_0 sigmab_0 (item u38 1))))
                     (fun _ => bind (ACC sigmab_ coeffb_0 argument_1) (fun sigmab_0 =>
                               loop28 l30' argument_1 coeffb_0 (item u38 0) j_0 sigmab_0 (item u38 1)))))
             | x35 :: l36' =>
                 ifv Rops (COND u38 x35)
                   (fun _ => bind (UPD u38 x35 argument_1) (fun argument_2 => loop34 l36' argument_2 x35))
                   (fun _ => loop34 l36' argument_1 x35)
             end) (seq_of l360) argument_0 j_)))
    end.

Lemma b_fix_cons K IA RNG C4 T1 T2 ME ME2 ACC COND UPD x29 l30' a cb i j sb v :
  b_fix K IA RNG C4 T1 T2 ME ME2 ACC COND UPD (x29 :: l30') a cb i j sb v =
  bind (unpack 2 x29) (fun u38 =>
  bind IA (fun argument_0 =>
  bind RNG (fun l360 =>
    (fix loop34 (l36 : list rval) (argument_1 j_0 : rval) {struct l36} : rval :=
       match l36 with
       | [] =>
           bind (C4 u38) (fun coeffb_0 =>
           ifv Rops (T1 u38)
             (fun _ => bind (ME coeffb_0) (fun coeffb_1 =>
                       bind (ACC sb coeffb_1 argument_1) (fun sigmab_0 =>
                       b_fix K IA RNG C4 T1 T2 ME ME2 ACC COND UPD l30' argument_1 coeffb_1 (item u38 0) j_0 sigmab_0 (item u38 1))))
             (fun _ => ifv Rops (T2 u38)
               (fun _ => bind (ME2 coeffb_0) (fun coeffb_1 =>
                         bind (ACC sb coeffb_1 argument_1) (fun sigmab_0 =>
                         b_fix K IA RNG C4 T1 T2 ME ME2 ACC COND UPD l30' argument_1 coeffb_1 (item u38 0) j_0 sigmab_0 (item u38 1))))
               (fun _ => bind (ACC sb coeffb_0 argument_1) (fun sigmab_0 =>
                         b_fix K IA RNG C4 T1 T2 ME ME2 ACC COND UPD l30' argument_1 coeffb_0 (item u38 0) j_0 sigmab_0 (item u38 1)))))
       | x35 :: l36' =>
           ifv Rops (COND u38 x35)
             (fun _ => bind (UPD u38 x35 argument_1) (fun argument_2 => loop34 l36' argument_2 x35))
             (fun _ => loop34 l36' argument_1 x35)
       end) (seq_of l360) argument_0 j))).
Proof. reflexivity. Qed.

Section B.
Variables (K : rval -> rval -> rval -> rval -> rval -> rval -> rval) (IA RNG : rval)
          (C4 T1 T2 ME ME2 : rval -> rval) (ACC : rval -> rval -> rval -> rval)
          (COND : rval -> rval -> rval) (UPD : rval -> rval -> rval -> rval).
Variables (ROW : nat -> rval) (ntot m : nat) (a0 e1 e2 : R).
Variables (cb : nat -> R) (b1 b2 : nat -> bool) (N : nat -> nat -> Z) (U : nat -> nat -> R -> R)
          (acc : R -> R -> R -> R).

Hypothesis HIA : IA = VFloat a0.
Hypothesis HRNG : RNG = VList (zrange_nat 0 m).
Hypothesis HC4 : forall i, (i < ntot)%nat -> C4 (urow ROW i) = VFloat (cb i).
Hypothesis HT1 : forall i, (i < ntot)%nat -> T1 (urow ROW i) = VBool (b1 i).
Hypothesis HT2 : forall i, (i < ntot)%nat -> T2 (urow ROW i) = VBool (b2 i).
Hypothesis HME : forall c, ME (VFloat c) = VFloat (c * e1).
Hypothesis HME2 : forall c, ME2 (VFloat c) = VFloat (c * e2).
Hypothesis HACC : forall d c a, ACC (VFloat d) (VFloat c) (VFloat a) = VFloat (acc d c a).
Hypothesis HCOND : forall i j, (i < ntot)%nat -> (j < m)%nat ->
  COND (urow ROW i) (VInt (Z.of_nat j)) = VInt (N i j).
Hypothesis HUPD : forall i j a, (i < ntot)%nat -> (j < m)%nat ->
  UPD (urow ROW i) (VInt (Z.of_nat j)) (VFloat a) = VFloat (U i j a).

Theorem b_fix_spec : forall n k arg c1 i j sb v, (k + n <= ntot)%nat ->
  exists arg' c1' i' j' v',
  b_fix K IA RNG C4 T1 T2 ME ME2 ACC COND UPD (map (urow ROW) (seq k n)) arg c1 i j (VFloat sb) v =
  K arg' c1' i' j'
    (VFloat (fold_left (fun d i => acc d (efac (b1 i) (b2 i) e1 e2 (cb i)) (row_arg m a0 N U i)) (seq k n) sb)) v'.
Proof.
  rewrite HIA, HRNG.
  induction n as [|n IH]; intros k arg c1 i j sb v Hk.
  - exists arg, c1, i, j, v. reflexivity.
  - simpl seq. simpl map. rewrite b_fix_cons.
    change (unpack 2 (urow ROW k)) with (urow ROW k). unfold bind at 1. unfold urow at 1.
    unfold bind at 1. unfold bind at 1.
    change (seq_of (VList (zrange_nat 0 m))) with (@zrange_nat R 0 m).
    fold (urow ROW k).
    destruct (inner_float COND UPD (urow ROW k)
      (fun argument_1 j_0 =>
         bind (C4 (urow ROW k)) (fun coeffb_0 =>
         ifv Rops (T1 (urow ROW k))
           (fun _ => bind (ME coeffb_0) (fun coeffb_1 =>
                     bind (ACC (VFloat sb) coeffb_1 argument_1) (fun sigmab_0 =>
                     b_fix K (VFloat a0) (VList (zrange_nat 0 m)) C4 T1 T2 ME ME2 ACC COND UPD (map (urow ROW) (seq (S k) n)) argument_1 coeffb_1 (item (urow ROW k) 0) j_0 sigmab_0 (item (urow ROW k) 1))))
           (fun _ => ifv Rops (T2 (urow ROW k))
             (fun _ => bind (ME2 coeffb_0) (fun coeffb_1 =>
                       bind (ACC (VFloat sb) coeffb_1 argument_1) (fun sigmab_0 =>
                       b_fix K (VFloat a0) (VList (zrange_nat 0 m)) C4 T1 T2 ME ME2 ACC COND UPD (map (urow ROW) (seq (S k) n)) argument_1 coeffb_1 (item (urow ROW k) 0) j_0 sigmab_0 (item (urow ROW k) 1))))
             (fun _ => bind (ACC (VFloat sb) coeffb_0 argument_1) (fun sigmab_0 =>
                       b_fix K (VFloat a0) (VList (zrange_nat 0 m)) C4 T1 T2 ME ME2 ACC COND UPD (map (urow ROW) (seq (S k) n)) argument_1 coeffb_0 (item (urow ROW k) 0) j_0 sigmab_0 (item (urow ROW k) 1))))))
      (N k) (U k) m (fun jj Hj => HCOND k jj ltac:(lia) Hj) (fun jj a Hj => HUPD k jj a ltac:(lia) Hj)
      m 0%nat a0 j eq_refl) as [j' E].
    change (Z.of_nat 0) with 0%Z in E. rewrite E. clear E.
    fold (row_arg m a0 N U k).
    rewrite (HC4 k) by lia. unfold bind at 1.
    rewrite (HT1 k) by lia. unfold ifv at 1.
    simpl fold_left. unfold efac at 2.
    destruct (b1 k).
    + rewrite HME. unfold bind at 1. rewrite HACC. unfold bind at 1.
      destruct (IH (S k) (VFloat (row_arg m a0 N U k)) (VFloat (cb k * e1))
                   (item (urow ROW k) 0) j' (acc sb (cb k * e1) (row_arg m a0 N U k)) (item (urow ROW k) 1))
        as (a' & x1 & i' & j'' & v' & E); [lia|].
      exists a', x1, i', j'', v'. exact E.
    + rewrite (HT2 k) by lia. unfold ifv at 1. destruct (b2 k).
      * rewrite HME2. unfold bind at 1. rewrite HACC. unfold bind at 1.
        destruct (IH (S k) (VFloat (row_arg m a0 N U k)) (VFloat (cb k * e2))
                     (item (urow ROW k) 0) j' (acc sb (cb k * e2) (row_arg m a0 N U k)) (item (urow ROW k) 1))
          as (a' & x1 & i' & j'' & v' & E); [lia|].
        exists a', x1, i', j'', v'. exact E.
      * rewrite HACC. unfold bind at 1.
        destruct (IH (S k) (VFloat (row_arg m a0 N U k)) (VFloat (cb k))
                     (item (urow ROW k) 0) j' (acc sb (cb k) (row_arg m a0 N U k)) (item (urow ROW k) 1))
          as (a' & x1 & i' & j'' & v' & E); [lia|].
        exists a', x1, i', j'', v'. exact E.
Qed.
End B.
