(* C15 -- closed forms of the expensive finder targets (thorough tier only: 5-7 min and 6-8 GB each): statements. *)
From Coq Require Import Reals ZArith List Bool Lra String.
From PyLib Require Import PyVal PyBuiltins Ideal.
From Gen Require Import M_base M_Angle M_Epoch M_Moon.
From Proofs.C15 Require Import C15_fdefs.
From Proofs.C15 Require C15_f_moon_perigee_apogee_perigee.
From Proofs.C15 Require C15_f_moon_maximum_declination_northern.
From Proofs.C15 Require C15_f_moon_maximum_declination_southern.
Open Scope R_scope.
Theorem T15_moon_perigee_apogee_perigee : C15_f_moon_perigee_apogee_perigee.closed_stmt /\ timing C15_f_moon_perigee_apogee_perigee.J0 C15_f_moon_perigee_apogee_perigee.B C15_f_moon_perigee_apogee_perigee.cc C15_f_moon_perigee_apogee_perigee.C C15_f_moon_perigee_apogee_perigee.v_jde_2.
Proof. exact C15_f_moon_perigee_apogee_perigee.ok. Qed.
Redirect "T15_moon_perigee_apogee_perigee.assumptions" Print Assumptions T15_moon_perigee_apogee_perigee.
Theorem T15_moon_maximum_declination_northern : C15_f_moon_maximum_declination_northern.closed_stmt /\ timing C15_f_moon_maximum_declination_northern.J0 C15_f_moon_maximum_declination_northern.B C15_f_moon_maximum_declination_northern.cc C15_f_moon_maximum_declination_northern.C C15_f_moon_maximum_declination_northern.v_jde_3.
Proof. exact C15_f_moon_maximum_declination_northern.ok. Qed.
Redirect "T15_moon_maximum_declination_northern.assumptions" Print Assumptions T15_moon_maximum_declination_northern.
Theorem T15_moon_maximum_declination_southern : C15_f_moon_maximum_declination_southern.closed_stmt /\ timing C15_f_moon_maximum_declination_southern.J0 C15_f_moon_maximum_declination_southern.B C15_f_moon_maximum_declination_southern.cc C15_f_moon_maximum_declination_southern.C C15_f_moon_maximum_declination_southern.v_jde_3.
Proof. exact C15_f_moon_maximum_declination_southern.ok. Qed.
Redirect "T15_moon_maximum_declination_southern.assumptions" Print Assumptions T15_moon_maximum_declination_southern.
