(* C15 -- generic lemmas for the difference of consecutive values of a periodic term a(k) sin(th(k)) *)
From Coq Require Import Reals ZArith Lra Lia.
From Spec Require Import MoonFinder.
From Proofs.C15 Require Import C15_angle.
Open Scope R_scope.

Lemma sin_diff_bound p q : Rabs (sin p - sin q) <= 2 * Rabs (sin ((p - q) / 2)).
Proof.
  rewrite form4. rewrite !Rabs_mult. rewrite (Rabs_right 2) by lra.
  pose proof (COS_bound ((p + q) / 2)) as [H1 H2].
  assert (Rabs (cos ((p + q) / 2)) <= 1) by (apply abs_le; lra).
  pose proof (Rabs_pos (sin ((p - q) / 2))). nra.
Qed.

Lemma sin_shift_pi x : sin (x + PI) = - sin x.
Proof. rewrite neg_sin. reflexivity. Qed.

Lemma abs_sin_shift x (m : Z) : Rabs (sin (x + IZR m * PI)) = Rabs (sin x).
Proof.
  destruct (Z.Even_or_Odd m) as [[q ->] | [q ->]].
  - rewrite mult_IZR. replace (x + 2 * IZR q * PI) with (x + 2 * IZR q * PI) by ring.
    rewrite sin_period_Z. reflexivity.
  - rewrite plus_IZR, mult_IZR. replace (x + (2 * IZR q + 1) * PI) with ((x + PI) + 2 * IZR q * PI) by ring.
    rewrite sin_period_Z, sin_shift_pi. apply Rabs_Ropp.
Qed.

(* |a1 sin p - a0 sin q| <= amax * 2|sin((p-q)/2)| + |a1 - a0| *)
Lemma term_bound (a1 a0 p q amax eps s : R) :
  Rabs a1 <= amax -> Rabs (a1 - a0) <= eps -> Rabs (sin ((p - q) / 2)) <= s -> 0 <= amax ->
  Rabs (a1 * sin p - a0 * sin q) <= amax * (2 * s) + eps.
Proof.
  intros H1 H2 H3 H4.
  replace (a1 * sin p - a0 * sin q) with (a1 * (sin p - sin q) + (a1 - a0) * sin q) by ring.
  eapply Rle_trans; [apply Rabs_triang|]. rewrite !Rabs_mult.
  pose proof (sin_diff_bound p q). pose proof (SIN_bound q) as [S1 S2].
  assert (Rabs (sin q) <= 1) by (apply abs_le; lra).
  pose proof (Rabs_pos a1). pose proof (Rabs_pos (a1 - a0)). pose proof (Rabs_pos (sin p - sin q)).
  pose proof (Rabs_pos (sin q)). pose proof (Rabs_pos (sin ((p - q) / 2))).
  assert (Rabs a1 * Rabs (sin p - sin q) <= amax * (2 * s)) by nra.
  assert (Rabs (a1 - a0) * Rabs (sin q) <= eps) by nra.
  lra.
Qed.

(* norm360 in radians: the angle plus a whole number of turns *)
Lemma norm_rad x : exists m : Z, norm360 x * (PI / 180) = x * (PI / 180) + 2 * IZR m * PI.
Proof. destruct (norm360_cong x) as [m Hm]. exists m. rewrite Hm. field. Qed.
