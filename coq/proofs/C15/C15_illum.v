(* C15: illuminated fraction (ideal instance) *)
From Coq Require Import Reals ZArith List Bool Lra Lia String.
From Interval Require Import Tactic.
From PyLib Require Import PyVal PyBuiltins Ideal Whnf PyEval.
From Gen Require Import M_base M_Angle M_Epoch M_Moon.
From Proofs.C15 Require Import C15_angle C15_tac C15_nodes.
Import ListNotations.
Open Scope R_scope.

(* k = (1 + cos i)/2 for an angle i (degrees), hence in [0,1] *)
Lemma illuminated_closed j : J2000 ->
  exists i : R, Moon_illuminated_fraction_disk Rops (epo j) = VFloat ((1 + cos (d2r i)) / 2)
             /\ 0 <= (1 + cos (d2r i)) / 2 <= 1.
Proof.
  intro HJ. red in HJ.
  eassert (Hrun : Moon_illuminated_fraction_disk Rops (epo j) = _) by (zrun; py_canon_refl).
  lazymatch type of Hrun with
  | _ = VFloat ((_ + cos (?i * (PI / 180))) / _) => set (ii := i) in *; exists ii
  end.
  split.
  - rewrite Hrun. unfold d2r. Rlit_norm. f_equal. lra.
  - pose proof (COS_bound (d2r ii)). lra.
Qed.

