(* C15: illuminated fraction (ideal instance) *)
From Coq Require Import Reals ZArith List Bool Lra Lia String.
From Interval Require Import Tactic.
From PyLib Require Import PyVal PyBuiltins Ideal Whnf PyEval.
From Gen Require Import M_base M_Angle M_Epoch M_Moon.
From Proofs.C15 Require Import C15_angle C15_tac C15_nodes.
Import ListNotations.
Open Scope R_scope.

(* the mean elements D, M, M' as the code's polynomials in T (degrees), and reduced to [0,360) in radians *)
Definition mD (t : R) : R :=
  Rlit 2978501921 (-7) + (Rlit 4452671114034 (-7) + (Rlit (-18819) (-7) + (Rlit 10 (-1) / Rlit 5458680 (-1) - t / Rlit 1130650000 (-1)) * t) * t) * t.
Definition mM (t : R) : R :=
  Rlit 3575291092 (-7) + (Rlit 359990502909 (-7) + (Rlit (-1536) (-7) + t / Rlit 244900000 (-1)) * t) * t.
Definition mMp (t : R) : R :=
  Rlit 1349633964 (-7) + (Rlit 4771988675055 (-7) + (Rlit 87414 (-7) + (Rlit 10 (-1) / Rlit 696999 (-1) + t / Rlit 147120000 (-1)) * t) * t) * t.
Definition rD t := norm360 (mD t) * (PI / 180).
Definition rM t := norm360 (mM t) * (PI / 180).
Definition rMp t := norm360 (mMp t) * (PI / 180).

(* the phase angle exactly as the code computes it: every Angle operation reduces to (-360,360) *)
Definition illum_i_code (t : R) : R :=
  rdeg (rdeg (rdeg (rdeg (rdeg (rdeg (rdeg (- rdeg (norm360 (mD t) + - Rlit 1800 (-1)))
    + - (Rlit 6289 (-3) * sin (rMp t)))
    + Rlit 21 (-1) * sin (rM t))
    + - (Rlit 1274 (-3) * sin (Rlit 20 (-1) * rD t - rMp t)))
    + - (Rlit 658 (-3) * sin (Rlit 20 (-1) * rD t)))
    + - (Rlit 214 (-3) * sin (Rlit 20 (-1) * rMp t)))
    + - (Rlit 11 (-2) * sin (rD t))).
(* Meeus (48.4), no reductions:  i = 180 - D - 6.289 sin M' + 2.100 sin M - 1.274 sin(2D - M')
   - 0.658 sin 2D - 0.214 sin 2M' - 0.110 sin D   (degrees; Rlit m e = m * 10^e) *)
Definition illum_i (t : R) : R :=
  - (mD t + - Rlit 1800 (-1))
    + - (Rlit 6289 (-3) * sin (rMp t))
    + Rlit 21 (-1) * sin (rM t)
    + - (Rlit 1274 (-3) * sin (Rlit 20 (-1) * rD t - rMp t))
    + - (Rlit 658 (-3) * sin (Rlit 20 (-1) * rD t))
    + - (Rlit 214 (-3) * sin (Rlit 20 (-1) * rMp t))
    + - (Rlit 11 (-2) * sin (rD t)).
Definition Tl (j : R) : R := (j - 2451545) / Rlit 365250 (-1).

Lemma illum_i_cong t : cong360 (illum_i_code t) (illum_i t).
Proof. unfold illum_i_code, illum_i. cong_strip. Qed.

(* k = (1 + cos i)/2 with the explicit angle i, hence in [0,1] *)
Lemma illuminated_closed j : J2000 ->
  Moon_illuminated_fraction_disk Rops (epo j) = VFloat ((1 + cos (d2r (illum_i (Tl j)))) / 2)
  /\ 0 <= (1 + cos (d2r (illum_i (Tl j)))) / 2 <= 1.
Proof.
  intro HJ. red in HJ. split.
  - rewrite <- (cong_cos _ _ (illum_i_cong (Tl j))).
    zrun. unfold illum_i_code, rD, rM, rMp, mD, mM, mMp, Tl, d2r. f_equal. Rlit_norm. lra.
  - pose proof (COS_bound (d2r (illum_i (Tl j)))). lra.
Qed.
