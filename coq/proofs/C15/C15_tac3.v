(* C15 -- straight-line evaluator with let-abstraction for the long lunar finders (moon_phase):
   every statement `x = <expr>` is evaluated call-by-value by PyEval.pyrunv on the small goal
   `<expr> = ?v`; the real number it yields is then NAMED (an abstract variable x with an equation Hx : x = value) before it is
   substituted into the rest of the function, so the pending continuation only ever contains
   variables (without this the index expression k is copied ~10^4 times into the 45 periodic
   terms and every later step pays for it).  Only conversion / rewriting with proved equalities. *)
From Coq Require Import Reals ZArith List Bool Lra Lia String.
From PyLib Require Import PyVal PyBuiltins Ideal Whnf PyEval.
Import ListNotations.
Open Scope R_scope.

Ltac is_var_R r := lazymatch r with _ _ => fail | _ => is_var r end.

(* name the reals of a canonical value in hypothesis H : e = v *)
Ltac name_reals H :=
  lazymatch type of H with
  | _ = VFloat ?r =>
      tryif is_var_R r then idtac else
        (let x := fresh "x" in let Hx := fresh "Hx" in remember r as x eqn:Hx in H)
  | _ = VObj _ [VFloat ?r; _] =>
      tryif is_var_R r then idtac else
        (let x := fresh "x" in let Hx := fresh "Hx" in remember r as x eqn:Hx in H)
  | _ => idtac
  end.

Lemma if_push {A B} (F : A -> B) (b : bool) (x y : A) :
  (if b then F x else F y) = F (if b then x else y).
Proof. destruct b; reflexivity. Qed.
Lemma if_VFloat (b : bool) (x y : R) : (if b then VFloat x else VFloat y) = VFloat (if b then x else y).
Proof. destruct b; reflexivity. Qed.

(* [if b then (bind (VFloat c1) (fun n => REST n)) else REST (VFloat c0)] with b an undetermined bool
   (the `if Epoch.is_leap(y): num_days_year = 366.0` join): both branches are the same continuation on two
   literals; continue ONCE with  REST (VFloat (if b then c1 else c0))  instead of twice *)
Ltac merge_if :=
  lazymatch goal with
  | |- (if ?b then bind (VFloat ?c1) ?k else ?B) = ?r =>
      lazymatch B with
      | context [VFloat (f_lit Rops ?m ?e ?fl)] =>
          let c0 := constr:(f_lit Rops m e fl) in
          let Bp := (eval pattern (@VFloat R c0) in B) in
          lazymatch Bp with
          | ?F _ =>
              refine (eq_trans (f_equal (fun z => if b then z else B) (bind_ok (VFloat c1) k eq_refl)) _);
              cbv beta;
              change ((if b then F (VFloat c1) else F (VFloat c0)) = r);
              refine (eq_trans (if_push F b (VFloat c1) (VFloat c0)) _);
              refine (eq_trans (f_equal F (if_VFloat b c1 c0)) _);
              cbv beta
          end
      end
  end.

Ltac pyrunL_using tac :=
  whnf_lhs;
  lazymatch goal with
  | |- ?l = _ =>
    tryif is_canon l then idtac else
    lazymatch l with
    | bind ?e ?k =>
        tryif is_canon e then
          (lazymatch e with
           | VErr _ => refine (eq_trans (bind_err _ k) _)
           | _ => refine (eq_trans (bind_ok e k eq_refl) _); cbv beta
           end; pyrunL_using tac)
        else
          (let H := fresh "Hev" in
           eassert (H : e = _) by (pyrunv_using tac; py_canon_refl);
           name_reals H;
           refine (eq_trans (f_equal (fun z => bind z k) H) _); clear H;
           pyrunL_using tac)
    | (if _ then bind (VFloat _) _ else _) => merge_if; pyrunL_using tac
    | _ =>
        (* a statement-level test on a blocked callee (if Epoch.is_leap(y): ...): evaluate its arguments,
           use the hypothesis giving its value, and stay in this driver *)
        tryif (pose_stuck;
                 lazymatch goal with
                 | py_stuck := ?s |- _ =>
                     clear py_stuck;
                     first [ lazymatch s with
                             | bind _ _ =>
                                 let H := fresh "Hev" in
                                 eassert (H : s = _) by (pyrunv_using tac; py_canon_refl);
                                 rewrite H; clear H
                             end
                           | pv_first_noncanon_arg s ltac:(fun a =>
                               let H := fresh "Harg" in
                               eassert (H : a = _) by (pyrunv_using tac; py_canon_refl);
                               rewrite H; clear H)
                           | match goal with H : s = _ |- _ => rewrite H end ]
                 end)
        then pyrunL_using tac
        else pyrunv_using tac
    end
  end.
