(* Property C15 (thorough tier) -- lunar finder closed forms with Epoch(x) = the Epoch holding exactly x (property C02's
   Epoch_ctor_exact_ideal) instead of a hypothesis, for a fractional year in -2000..4001.  Remaining hypotheses: the values of
   Epoch.get_date / is_leap / get_doy (and Angle(0,0,p) for the parallax).  T15_* obligations, not listed in THEOREMS. *)
From Coq Require Import Reals ZArith List Bool Lra String.
From PyLib Require Import PyVal PyBuiltins Ideal.
From Gen Require Import M_base M_Angle M_Epoch M_Moon.
From Proofs.C15 Require Import C15_fdefs.
From Proofs.C15 Require C15_x_moon_passage_nodes_ascending.
From Proofs.C15 Require C15_x_moon_passage_nodes_descending.
From Proofs.C15 Require C15_x_moon_perigee_apogee_apogee.
Open Scope R_scope.
Theorem T15_moon_passage_nodes_ascending_exact : C15_x_moon_passage_nodes_ascending.exact_stmt.
Proof. exact C15_x_moon_passage_nodes_ascending.exact. Qed.
Theorem T15_moon_passage_nodes_descending_exact : C15_x_moon_passage_nodes_descending.exact_stmt.
Proof. exact C15_x_moon_passage_nodes_descending.exact. Qed.
Theorem T15_moon_perigee_apogee_apogee_exact : C15_x_moon_perigee_apogee_apogee.exact_stmt.
Proof. exact C15_x_moon_perigee_apogee_apogee.exact. Qed.
Redirect "T15_moon_passage_nodes_ascending_exact.assumptions" Print Assumptions T15_moon_passage_nodes_ascending_exact.
Redirect "T15_moon_passage_nodes_descending_exact.assumptions" Print Assumptions T15_moon_passage_nodes_descending_exact.
Redirect "T15_moon_perigee_apogee_apogee_exact.assumptions" Print Assumptions T15_moon_perigee_apogee_apogee_exact.
