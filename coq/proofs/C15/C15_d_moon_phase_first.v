(* Moon.moon_phase(epoch, 'first'): consecutive results (index k -> k+1) differ by one synodic month within the
   term-by-term difference bound.  Written by mkdiff.py from the source text; uses the closed form of C15_p_moon_phase_first.v. *)
From Coq Require Import Reals ZArith List Bool Lra Lia.
From Interval Require Import Tactic.
From PyLib Require Import PyVal PyBuiltins Ideal.
From Spec Require Import MoonFinder.
From Proofs.C15 Require Import C15_angle C15_fdefs C15_diff.
From Proofs.C15 Require C15_p_moon_phase_first.
Open Scope R_scope.
Module P := C15_p_moon_phase_first.
Ltac lit := repeat match goal with |- context [Rlit ?m ?e] =>
  let r := eval cbv -[IZR Rdiv Rmult Rinv Rplus Ropp] in (Rlit m e) in change (Rlit m e) with r end.
Ltac lit_in H := repeat match type of H with context [Rlit ?m ?e] =>
  let r := eval cbv -[IZR Rdiv Rmult Rinv Rplus Ropp] in (Rlit m e) in change (Rlit m e) with r in H end.

Lemma term_0 (xM eM xMprime eMprime xF eF xOmega eOmega E0 dE : R) (m0M m1M m0Mprime m1Mprime m0F m1F m0Omega m1Omega : Z) :
  Rabs eM <= 1 / 100 -> Rabs eMprime <= 1 / 100 -> Rabs eF <= 1 / 100 -> Rabs eOmega <= 1 / 100 -> 8 / 10 <= E0 <= 10908 / 10000 -> 8 / 10 <= E0 + dE <= 10908 / 10000 -> Rabs dE <= 1 / 10000 ->
  Rabs (((Rlit (-62801) (-5)) * (sin ((xMprime + Rlit 38581693528 (-8) + eMprime) * (PI / 180) + 2 * IZR m1Mprime * PI))) - ((Rlit (-62801) (-5)) * (sin (xMprime * (PI / 180) + 2 * IZR m0Mprime * PI)))) <= Rlit 2809466 (-7).
Proof.
  intros HM HMprime HF HOmega HE0 HE1 HdE.
  apply abs_le_inv in HM.
  apply abs_le_inv in HMprime.
  apply abs_le_inv in HF.
  apply abs_le_inv in HOmega.
  apply abs_le_inv in HdE.
  eapply Rle_trans; [ eapply (term_bound _ _ _ _ (Rlit 62801000 (-8)) (Rlit 0 (-9)) (Rlit 223680 (-6))) | lit; lra ].
  - lit. apply abs_le. lra.
  - lit. apply abs_le. lra.
  - replace ((((xMprime + Rlit 38581693528 (-8) + eMprime) * (PI / 180) + 2 * IZR m1Mprime * PI) - (xMprime * (PI / 180) + 2 * IZR m0Mprime * PI)) / 2) with ((IZR (1) * (Rlit 38581693528 (-8) + eMprime)) * (PI / 360) + IZR ((1) * (m1Mprime - m0Mprime)) * PI)
      by (rewrite ?plus_IZR, ?mult_IZR, ?minus_IZR, ?opp_IZR; lit; field).
    rewrite abs_sin_shift. lit. apply abs_le. split; interval.
  - lit. lra.
Qed.
Lemma term_1 (xM eM xMprime eMprime xF eF xOmega eOmega E0 dE : R) (m0M m1M m0Mprime m1Mprime m0F m1F m0Omega m1Omega : Z) :
  Rabs eM <= 1 / 100 -> Rabs eMprime <= 1 / 100 -> Rabs eF <= 1 / 100 -> Rabs eOmega <= 1 / 100 -> 8 / 10 <= E0 <= 10908 / 10000 -> 8 / 10 <= E0 + dE <= 10908 / 10000 -> Rabs dE <= 1 / 10000 ->
  Rabs ((((Rlit 17172 (-5)) * (E0 + dE)) * (sin ((xM + Rlit 291053567 (-7) + eM) * (PI / 180) + 2 * IZR m1M * PI))) - (((Rlit 17172 (-5)) * E0) * (sin (xM * (PI / 180) + 2 * IZR m0M * PI)))) <= Rlit 942559 (-7).
Proof.
  intros HM HMprime HF HOmega HE0 HE1 HdE.
  apply abs_le_inv in HM.
  apply abs_le_inv in HMprime.
  apply abs_le_inv in HF.
  apply abs_le_inv in HOmega.
  apply abs_le_inv in HdE.
  eapply Rle_trans; [ eapply (term_bound _ _ _ _ (Rlit 18731218 (-8)) (Rlit 17172 (-9)) (Rlit 251555 (-6))) | lit; lra ].
  - lit. apply abs_le. split; nra.
  - lit. apply abs_le. split; nra.
  - replace ((((xM + Rlit 291053567 (-7) + eM) * (PI / 180) + 2 * IZR m1M * PI) - (xM * (PI / 180) + 2 * IZR m0M * PI)) / 2) with ((IZR (1) * (Rlit 291053567 (-7) + eM)) * (PI / 360) + IZR ((1) * (m1M - m0M)) * PI)
      by (rewrite ?plus_IZR, ?mult_IZR, ?minus_IZR, ?opp_IZR; lit; field).
    rewrite abs_sin_shift. lit. apply abs_le. split; interval.
  - lit. lra.
Qed.
Lemma term_2 (xM eM xMprime eMprime xF eF xOmega eOmega E0 dE : R) (m0M m1M m0Mprime m1Mprime m0F m1F m0Omega m1Omega : Z) :
  Rabs eM <= 1 / 100 -> Rabs eMprime <= 1 / 100 -> Rabs eF <= 1 / 100 -> Rabs eOmega <= 1 / 100 -> 8 / 10 <= E0 <= 10908 / 10000 -> 8 / 10 <= E0 + dE <= 10908 / 10000 -> Rabs dE <= 1 / 10000 ->
  Rabs ((((Rlit 1183 (-5)) * (E0 + dE)) * (sin (((xMprime + Rlit 38581693528 (-8) + eMprime) * (PI / 180) + 2 * IZR m1Mprime * PI) + ((xM + Rlit 291053567 (-7) + eM) * (PI / 180) + 2 * IZR m1M * PI)))) - (((Rlit 1183 (-5)) * E0) * (sin ((xMprime * (PI / 180) + 2 * IZR m0Mprime * PI) + (xM * (PI / 180) + 2 * IZR m0M * PI))))) <= Rlit 119118 (-7).
Proof.
  intros HM HMprime HF HOmega HE0 HE1 HdE.
  apply abs_le_inv in HM.
  apply abs_le_inv in HMprime.
  apply abs_le_inv in HF.
  apply abs_le_inv in HOmega.
  apply abs_le_inv in HdE.
  eapply Rle_trans; [ eapply (term_bound _ _ _ _ (Rlit 1290417 (-8)) (Rlit 1183 (-9)) (Rlit 461502 (-6))) | lit; lra ].
  - lit. apply abs_le. split; nra.
  - lit. apply abs_le. split; nra.
  - replace (((((xMprime + Rlit 38581693528 (-8) + eMprime) * (PI / 180) + 2 * IZR m1Mprime * PI) + ((xM + Rlit 291053567 (-7) + eM) * (PI / 180) + 2 * IZR m1M * PI)) - ((xMprime * (PI / 180) + 2 * IZR m0Mprime * PI) + (xM * (PI / 180) + 2 * IZR m0M * PI))) / 2) with ((IZR (1) * (Rlit 38581693528 (-8) + eMprime) + IZR (1) * (Rlit 291053567 (-7) + eM)) * (PI / 360) + IZR ((1) * (m1Mprime - m0Mprime) + (1) * (m1M - m0M)) * PI)
      by (rewrite ?plus_IZR, ?mult_IZR, ?minus_IZR, ?opp_IZR; lit; field).
    rewrite abs_sin_shift. lit. apply abs_le. split; interval.
  - lit. lra.
Qed.
Lemma term_3 (xM eM xMprime eMprime xF eF xOmega eOmega E0 dE : R) (m0M m1M m0Mprime m1Mprime m0F m1F m0Omega m1Omega : Z) :
  Rabs eM <= 1 / 100 -> Rabs eMprime <= 1 / 100 -> Rabs eF <= 1 / 100 -> Rabs eOmega <= 1 / 100 -> 8 / 10 <= E0 <= 10908 / 10000 -> 8 / 10 <= E0 + dE <= 10908 / 10000 -> Rabs dE <= 1 / 10000 ->
  Rabs (((Rlit 862 (-5)) * (sin ((Rlit 20 (-1)) * ((xMprime + Rlit 38581693528 (-8) + eMprime) * (PI / 180) + 2 * IZR m1Mprime * PI)))) - ((Rlit 862 (-5)) * (sin ((Rlit 20 (-1)) * (xMprime * (PI / 180) + 2 * IZR m0Mprime * PI))))) <= Rlit 75142 (-7).
Proof.
  intros HM HMprime HF HOmega HE0 HE1 HdE.
  apply abs_le_inv in HM.
  apply abs_le_inv in HMprime.
  apply abs_le_inv in HF.
  apply abs_le_inv in HOmega.
  apply abs_le_inv in HdE.
  eapply Rle_trans; [ eapply (term_bound _ _ _ _ (Rlit 862000 (-8)) (Rlit 0 (-9)) (Rlit 435855 (-6))) | lit; lra ].
  - lit. apply abs_le. lra.
  - lit. apply abs_le. lra.
  - replace ((((Rlit 20 (-1)) * ((xMprime + Rlit 38581693528 (-8) + eMprime) * (PI / 180) + 2 * IZR m1Mprime * PI)) - ((Rlit 20 (-1)) * (xMprime * (PI / 180) + 2 * IZR m0Mprime * PI))) / 2) with ((IZR (2) * (Rlit 38581693528 (-8) + eMprime)) * (PI / 360) + IZR ((2) * (m1Mprime - m0Mprime)) * PI)
      by (rewrite ?plus_IZR, ?mult_IZR, ?minus_IZR, ?opp_IZR; lit; field).
    rewrite abs_sin_shift. lit. apply abs_le. split; interval.
  - lit. lra.
Qed.
Lemma term_4 (xM eM xMprime eMprime xF eF xOmega eOmega E0 dE : R) (m0M m1M m0Mprime m1Mprime m0F m1F m0Omega m1Omega : Z) :
  Rabs eM <= 1 / 100 -> Rabs eMprime <= 1 / 100 -> Rabs eF <= 1 / 100 -> Rabs eOmega <= 1 / 100 -> 8 / 10 <= E0 <= 10908 / 10000 -> 8 / 10 <= E0 + dE <= 10908 / 10000 -> Rabs dE <= 1 / 10000 ->
  Rabs (((Rlit 804 (-5)) * (sin ((Rlit 20 (-1)) * ((xF + Rlit 39067050284 (-8) + eF) * (PI / 180) + 2 * IZR m1F * PI)))) - ((Rlit 804 (-5)) * (sin ((Rlit 20 (-1)) * (xF * (PI / 180) + 2 * IZR m0F * PI))))) <= Rlit 82081 (-7).
Proof.
  intros HM HMprime HF HOmega HE0 HE1 HdE.
  apply abs_le_inv in HM.
  apply abs_le_inv in HMprime.
  apply abs_le_inv in HF.
  apply abs_le_inv in HOmega.
  apply abs_le_inv in HdE.
  eapply Rle_trans; [ eapply (term_bound _ _ _ _ (Rlit 804000 (-8)) (Rlit 0 (-9)) (Rlit 510451 (-6))) | lit; lra ].
  - lit. apply abs_le. lra.
  - lit. apply abs_le. lra.
  - replace ((((Rlit 20 (-1)) * ((xF + Rlit 39067050284 (-8) + eF) * (PI / 180) + 2 * IZR m1F * PI)) - ((Rlit 20 (-1)) * (xF * (PI / 180) + 2 * IZR m0F * PI))) / 2) with ((IZR (2) * (Rlit 39067050284 (-8) + eF)) * (PI / 360) + IZR ((2) * (m1F - m0F)) * PI)
      by (rewrite ?plus_IZR, ?mult_IZR, ?minus_IZR, ?opp_IZR; lit; field).
    rewrite abs_sin_shift. lit. apply abs_le. split; interval.
  - lit. lra.
Qed.
Lemma term_5 (xM eM xMprime eMprime xF eF xOmega eOmega E0 dE : R) (m0M m1M m0Mprime m1Mprime m0F m1F m0Omega m1Omega : Z) :
  Rabs eM <= 1 / 100 -> Rabs eMprime <= 1 / 100 -> Rabs eF <= 1 / 100 -> Rabs eOmega <= 1 / 100 -> 8 / 10 <= E0 <= 10908 / 10000 -> 8 / 10 <= E0 + dE <= 10908 / 10000 -> Rabs dE <= 1 / 10000 ->
  Rabs ((((Rlit 454 (-5)) * (E0 + dE)) * (sin (((xMprime + Rlit 38581693528 (-8) + eMprime) * (PI / 180) + 2 * IZR m1Mprime * PI) - ((xM + Rlit 291053567 (-7) + eM) * (PI / 180) + 2 * IZR m1M * PI)))) - (((Rlit 454 (-5)) * E0) * (sin ((xMprime * (PI / 180) + 2 * IZR m0Mprime * PI) - (xM * (PI / 180) + 2 * IZR m0M * PI))))) <= Rlit 2884 (-7).
Proof.
  intros HM HMprime HF HOmega HE0 HE1 HdE.
  apply abs_le_inv in HM.
  apply abs_le_inv in HMprime.
  apply abs_le_inv in HF.
  apply abs_le_inv in HOmega.
  apply abs_le_inv in HdE.
  eapply Rle_trans; [ eapply (term_bound _ _ _ _ (Rlit 495224 (-8)) (Rlit 454 (-9)) (Rlit 29068 (-6))) | lit; lra ].
  - lit. apply abs_le. split; nra.
  - lit. apply abs_le. split; nra.
  - replace (((((xMprime + Rlit 38581693528 (-8) + eMprime) * (PI / 180) + 2 * IZR m1Mprime * PI) - ((xM + Rlit 291053567 (-7) + eM) * (PI / 180) + 2 * IZR m1M * PI)) - ((xMprime * (PI / 180) + 2 * IZR m0Mprime * PI) - (xM * (PI / 180) + 2 * IZR m0M * PI))) / 2) with ((IZR (1) * (Rlit 38581693528 (-8) + eMprime) + IZR (-1) * (Rlit 291053567 (-7) + eM)) * (PI / 360) + IZR ((1) * (m1Mprime - m0Mprime) + (-1) * (m1M - m0M)) * PI)
      by (rewrite ?plus_IZR, ?mult_IZR, ?minus_IZR, ?opp_IZR; lit; field).
    rewrite abs_sin_shift. lit. apply abs_le. split; interval.
  - lit. lra.
Qed.
Lemma term_6 (xM eM xMprime eMprime xF eF xOmega eOmega E0 dE : R) (m0M m1M m0Mprime m1Mprime m0F m1F m0Omega m1Omega : Z) :
  Rabs eM <= 1 / 100 -> Rabs eMprime <= 1 / 100 -> Rabs eF <= 1 / 100 -> Rabs eOmega <= 1 / 100 -> 8 / 10 <= E0 <= 10908 / 10000 -> 8 / 10 <= E0 + dE <= 10908 / 10000 -> Rabs dE <= 1 / 10000 ->
  Rabs (((((Rlit 204 (-5)) * (E0 + dE)) * (E0 + dE)) * (sin ((Rlit 20 (-1)) * ((xM + Rlit 291053567 (-7) + eM) * (PI / 180) + 2 * IZR m1M * PI)))) - ((((Rlit 204 (-5)) * E0) * E0) * (sin ((Rlit 20 (-1)) * (xM * (PI / 180) + 2 * IZR m0M * PI))))) <= Rlit 23636 (-7).
Proof.
  intros HM HMprime HF HOmega HE0 HE1 HdE.
  apply abs_le_inv in HM.
  apply abs_le_inv in HMprime.
  apply abs_le_inv in HF.
  apply abs_le_inv in HOmega.
  apply abs_le_inv in HdE.
  eapply Rle_trans; [ eapply (term_bound _ _ _ _ (Rlit 242729 (-8)) (Rlit 446 (-9)) (Rlit 486770 (-6))) | lit; lra ].
  - remember (E0 + dE) as E1 eqn:HE1e. lit. apply abs_le. split; interval.
  - match goal with |- Rabs ?z <= _ => replace z with (Rlit 204 (-5) * (dE * (2 * E0 + dE))) by (lit; ring) end.
    lit. apply abs_le. split; interval.
  - replace ((((Rlit 20 (-1)) * ((xM + Rlit 291053567 (-7) + eM) * (PI / 180) + 2 * IZR m1M * PI)) - ((Rlit 20 (-1)) * (xM * (PI / 180) + 2 * IZR m0M * PI))) / 2) with ((IZR (2) * (Rlit 291053567 (-7) + eM)) * (PI / 360) + IZR ((2) * (m1M - m0M)) * PI)
      by (rewrite ?plus_IZR, ?mult_IZR, ?minus_IZR, ?opp_IZR; lit; field).
    rewrite abs_sin_shift. lit. apply abs_le. split; interval.
  - lit. lra.
Qed.
Lemma term_7 (xM eM xMprime eMprime xF eF xOmega eOmega E0 dE : R) (m0M m1M m0Mprime m1Mprime m0F m1F m0Omega m1Omega : Z) :
  Rabs eM <= 1 / 100 -> Rabs eMprime <= 1 / 100 -> Rabs eF <= 1 / 100 -> Rabs eOmega <= 1 / 100 -> 8 / 10 <= E0 <= 10908 / 10000 -> 8 / 10 <= E0 + dE <= 10908 / 10000 -> Rabs dE <= 1 / 10000 ->
  Rabs (((Rlit 18 (-4)) * (sin (((xMprime + Rlit 38581693528 (-8) + eMprime) * (PI / 180) + 2 * IZR m1Mprime * PI) - ((Rlit 20 (-1)) * ((xF + Rlit 39067050284 (-8) + eF) * (PI / 180) + 2 * IZR m1F * PI))))) - ((Rlit 18 (-4)) * (sin ((xMprime * (PI / 180) + 2 * IZR m0Mprime * PI) - ((Rlit 20 (-1)) * (xF * (PI / 180) + 2 * IZR m0F * PI)))))) <= Rlit 10999 (-7).
Proof.
  intros HM HMprime HF HOmega HE0 HE1 HdE.
  apply abs_le_inv in HM.
  apply abs_le_inv in HMprime.
  apply abs_le_inv in HF.
  apply abs_le_inv in HOmega.
  apply abs_le_inv in HdE.
  eapply Rle_trans; [ eapply (term_bound _ _ _ _ (Rlit 180000 (-8)) (Rlit 0 (-9)) (Rlit 305514 (-6))) | lit; lra ].
  - lit. apply abs_le. lra.
  - lit. apply abs_le. lra.
  - replace (((((xMprime + Rlit 38581693528 (-8) + eMprime) * (PI / 180) + 2 * IZR m1Mprime * PI) - ((Rlit 20 (-1)) * ((xF + Rlit 39067050284 (-8) + eF) * (PI / 180) + 2 * IZR m1F * PI))) - ((xMprime * (PI / 180) + 2 * IZR m0Mprime * PI) - ((Rlit 20 (-1)) * (xF * (PI / 180) + 2 * IZR m0F * PI)))) / 2) with ((IZR (1) * (Rlit 38581693528 (-8) + eMprime) + IZR (-2) * (Rlit 39067050284 (-8) + eF)) * (PI / 360) + IZR ((1) * (m1Mprime - m0Mprime) + (-2) * (m1F - m0F)) * PI)
      by (rewrite ?plus_IZR, ?mult_IZR, ?minus_IZR, ?opp_IZR; lit; field).
    rewrite abs_sin_shift. lit. apply abs_le. split; interval.
  - lit. lra.
Qed.
Lemma term_8 (xM eM xMprime eMprime xF eF xOmega eOmega E0 dE : R) (m0M m1M m0Mprime m1Mprime m0F m1F m0Omega m1Omega : Z) :
  Rabs eM <= 1 / 100 -> Rabs eMprime <= 1 / 100 -> Rabs eF <= 1 / 100 -> Rabs eOmega <= 1 / 100 -> 8 / 10 <= E0 <= 10908 / 10000 -> 8 / 10 <= E0 + dE <= 10908 / 10000 -> Rabs dE <= 1 / 10000 ->
  Rabs (((Rlit 7 (-4)) * (sin (((xMprime + Rlit 38581693528 (-8) + eMprime) * (PI / 180) + 2 * IZR m1Mprime * PI) + ((Rlit 20 (-1)) * ((xF + Rlit 39067050284 (-8) + eF) * (PI / 180) + 2 * IZR m1F * PI))))) - ((Rlit 7 (-4)) * (sin ((xMprime * (PI / 180) + 2 * IZR m0Mprime * PI) + ((Rlit 20 (-1)) * (xF * (PI / 180) + 2 * IZR m0F * PI)))))) <= Rlit 9657 (-7).
Proof.
  intros HM HMprime HF HOmega HE0 HE1 HdE.
  apply abs_le_inv in HM.
  apply abs_le_inv in HMprime.
  apply abs_le_inv in HF.
  apply abs_le_inv in HOmega.
  apply abs_le_inv in HdE.
  eapply Rle_trans; [ eapply (term_bound _ _ _ _ (Rlit 70000 (-8)) (Rlit 0 (-9)) (Rlit 689744 (-6))) | lit; lra ].
  - lit. apply abs_le. lra.
  - lit. apply abs_le. lra.
  - replace (((((xMprime + Rlit 38581693528 (-8) + eMprime) * (PI / 180) + 2 * IZR m1Mprime * PI) + ((Rlit 20 (-1)) * ((xF + Rlit 39067050284 (-8) + eF) * (PI / 180) + 2 * IZR m1F * PI))) - ((xMprime * (PI / 180) + 2 * IZR m0Mprime * PI) + ((Rlit 20 (-1)) * (xF * (PI / 180) + 2 * IZR m0F * PI)))) / 2) with ((IZR (1) * (Rlit 38581693528 (-8) + eMprime) + IZR (2) * (Rlit 39067050284 (-8) + eF)) * (PI / 360) + IZR ((1) * (m1Mprime - m0Mprime) + (2) * (m1F - m0F)) * PI)
      by (rewrite ?plus_IZR, ?mult_IZR, ?minus_IZR, ?opp_IZR; lit; field).
    rewrite abs_sin_shift. lit. apply abs_le. split; interval.
  - lit. lra.
Qed.
Lemma term_9 (xM eM xMprime eMprime xF eF xOmega eOmega E0 dE : R) (m0M m1M m0Mprime m1Mprime m0F m1F m0Omega m1Omega : Z) :
  Rabs eM <= 1 / 100 -> Rabs eMprime <= 1 / 100 -> Rabs eF <= 1 / 100 -> Rabs eOmega <= 1 / 100 -> 8 / 10 <= E0 <= 10908 / 10000 -> 8 / 10 <= E0 + dE <= 10908 / 10000 -> Rabs dE <= 1 / 10000 ->
  Rabs (((Rlit 4 (-4)) * (sin ((Rlit 30 (-1)) * ((xMprime + Rlit 38581693528 (-8) + eMprime) * (PI / 180) + 2 * IZR m1Mprime * PI)))) - ((Rlit 4 (-4)) * (sin ((Rlit 30 (-1)) * (xMprime * (PI / 180) + 2 * IZR m0Mprime * PI))))) <= Rlit 5008 (-7).
Proof.
  intros HM HMprime HF HOmega HE0 HE1 HdE.
  apply abs_le_inv in HM.
  apply abs_le_inv in HMprime.
  apply abs_le_inv in HF.
  apply abs_le_inv in HOmega.
  apply abs_le_inv in HdE.
  eapply Rle_trans; [ eapply (term_bound _ _ _ _ (Rlit 40000 (-8)) (Rlit 0 (-9)) (Rlit 625993 (-6))) | lit; lra ].
  - lit. apply abs_le. lra.
  - lit. apply abs_le. lra.
  - replace ((((Rlit 30 (-1)) * ((xMprime + Rlit 38581693528 (-8) + eMprime) * (PI / 180) + 2 * IZR m1Mprime * PI)) - ((Rlit 30 (-1)) * (xMprime * (PI / 180) + 2 * IZR m0Mprime * PI))) / 2) with ((IZR (3) * (Rlit 38581693528 (-8) + eMprime)) * (PI / 360) + IZR ((3) * (m1Mprime - m0Mprime)) * PI)
      by (rewrite ?plus_IZR, ?mult_IZR, ?minus_IZR, ?opp_IZR; lit; field).
    rewrite abs_sin_shift. lit. apply abs_le. split; interval.
  - lit. lra.
Qed.
Lemma term_10 (xM eM xMprime eMprime xF eF xOmega eOmega E0 dE : R) (m0M m1M m0Mprime m1Mprime m0F m1F m0Omega m1Omega : Z) :
  Rabs eM <= 1 / 100 -> Rabs eMprime <= 1 / 100 -> Rabs eF <= 1 / 100 -> Rabs eOmega <= 1 / 100 -> 8 / 10 <= E0 <= 10908 / 10000 -> 8 / 10 <= E0 + dE <= 10908 / 10000 -> Rabs dE <= 1 / 10000 ->
  Rabs ((((Rlit 34 (-5)) * (E0 + dE)) * (sin (((Rlit 20 (-1)) * ((xMprime + Rlit 38581693528 (-8) + eMprime) * (PI / 180) + 2 * IZR m1Mprime * PI)) - ((xM + Rlit 291053567 (-7) + eM) * (PI / 180) + 2 * IZR m1M * PI)))) - (((Rlit 34 (-5)) * E0) * (sin (((Rlit 20 (-1)) * (xMprime * (PI / 180) + 2 * IZR m0Mprime * PI)) - (xM * (PI / 180) + 2 * IZR m0M * PI))))) <= Rlit 1453 (-7).
Proof.
  intros HM HMprime HF HOmega HE0 HE1 HdE.
  apply abs_le_inv in HM.
  apply abs_le_inv in HMprime.
  apply abs_le_inv in HF.
  apply abs_le_inv in HOmega.
  apply abs_le_inv in HdE.
  eapply Rle_trans; [ eapply (term_bound _ _ _ _ (Rlit 37088 (-8)) (Rlit 34 (-9)) (Rlit 195792 (-6))) | lit; lra ].
  - lit. apply abs_le. split; nra.
  - lit. apply abs_le. split; nra.
  - replace (((((Rlit 20 (-1)) * ((xMprime + Rlit 38581693528 (-8) + eMprime) * (PI / 180) + 2 * IZR m1Mprime * PI)) - ((xM + Rlit 291053567 (-7) + eM) * (PI / 180) + 2 * IZR m1M * PI)) - (((Rlit 20 (-1)) * (xMprime * (PI / 180) + 2 * IZR m0Mprime * PI)) - (xM * (PI / 180) + 2 * IZR m0M * PI))) / 2) with ((IZR (2) * (Rlit 38581693528 (-8) + eMprime) + IZR (-1) * (Rlit 291053567 (-7) + eM)) * (PI / 360) + IZR ((2) * (m1Mprime - m0Mprime) + (-1) * (m1M - m0M)) * PI)
      by (rewrite ?plus_IZR, ?mult_IZR, ?minus_IZR, ?opp_IZR; lit; field).
    rewrite abs_sin_shift. lit. apply abs_le. split; interval.
  - lit. lra.
Qed.
Lemma term_11 (xM eM xMprime eMprime xF eF xOmega eOmega E0 dE : R) (m0M m1M m0Mprime m1Mprime m0F m1F m0Omega m1Omega : Z) :
  Rabs eM <= 1 / 100 -> Rabs eMprime <= 1 / 100 -> Rabs eF <= 1 / 100 -> Rabs eOmega <= 1 / 100 -> 8 / 10 <= E0 <= 10908 / 10000 -> 8 / 10 <= E0 + dE <= 10908 / 10000 -> Rabs dE <= 1 / 10000 ->
  Rabs ((((Rlit 32 (-5)) * (E0 + dE)) * (sin (((xM + Rlit 291053567 (-7) + eM) * (PI / 180) + 2 * IZR m1M * PI) + ((Rlit 20 (-1)) * ((xF + Rlit 39067050284 (-8) + eF) * (PI / 180) + 2 * IZR m1F * PI))))) - (((Rlit 32 (-5)) * E0) * (sin ((xM * (PI / 180) + 2 * IZR m0M * PI) + ((Rlit 20 (-1)) * (xF * (PI / 180) + 2 * IZR m0F * PI)))))) <= Rlit 4959 (-7).
Proof.
  intros HM HMprime HF HOmega HE0 HE1 HdE.
  apply abs_le_inv in HM.
  apply abs_le_inv in HMprime.
  apply abs_le_inv in HF.
  apply abs_le_inv in HOmega.
  apply abs_le_inv in HdE.
  eapply Rle_trans; [ eapply (term_bound _ _ _ _ (Rlit 34906 (-8)) (Rlit 32 (-9)) (Rlit 710241 (-6))) | lit; lra ].
  - lit. apply abs_le. split; nra.
  - lit. apply abs_le. split; nra.
  - replace (((((xM + Rlit 291053567 (-7) + eM) * (PI / 180) + 2 * IZR m1M * PI) + ((Rlit 20 (-1)) * ((xF + Rlit 39067050284 (-8) + eF) * (PI / 180) + 2 * IZR m1F * PI))) - ((xM * (PI / 180) + 2 * IZR m0M * PI) + ((Rlit 20 (-1)) * (xF * (PI / 180) + 2 * IZR m0F * PI)))) / 2) with ((IZR (1) * (Rlit 291053567 (-7) + eM) + IZR (2) * (Rlit 39067050284 (-8) + eF)) * (PI / 360) + IZR ((1) * (m1M - m0M) + (2) * (m1F - m0F)) * PI)
      by (rewrite ?plus_IZR, ?mult_IZR, ?minus_IZR, ?opp_IZR; lit; field).
    rewrite abs_sin_shift. lit. apply abs_le. split; interval.
  - lit. lra.
Qed.
Lemma term_12 (xM eM xMprime eMprime xF eF xOmega eOmega E0 dE : R) (m0M m1M m0Mprime m1Mprime m0F m1F m0Omega m1Omega : Z) :
  Rabs eM <= 1 / 100 -> Rabs eMprime <= 1 / 100 -> Rabs eF <= 1 / 100 -> Rabs eOmega <= 1 / 100 -> 8 / 10 <= E0 <= 10908 / 10000 -> 8 / 10 <= E0 + dE <= 10908 / 10000 -> Rabs dE <= 1 / 10000 ->
  Rabs ((((Rlit 32 (-5)) * (E0 + dE)) * (sin (((xM + Rlit 291053567 (-7) + eM) * (PI / 180) + 2 * IZR m1M * PI) - ((Rlit 20 (-1)) * ((xF + Rlit 39067050284 (-8) + eF) * (PI / 180) + 2 * IZR m1F * PI))))) - (((Rlit 32 (-5)) * E0) * (sin ((xM * (PI / 180) + 2 * IZR m0M * PI) - ((Rlit 20 (-1)) * (xF * (PI / 180) + 2 * IZR m0F * PI)))))) <= Rlit 1942 (-7).
Proof.
  intros HM HMprime HF HOmega HE0 HE1 HdE.
  apply abs_le_inv in HM.
  apply abs_le_inv in HMprime.
  apply abs_le_inv in HF.
  apply abs_le_inv in HOmega.
  apply abs_le_inv in HdE.
  eapply Rle_trans; [ eapply (term_bound _ _ _ _ (Rlit 34906 (-8)) (Rlit 32 (-9)) (Rlit 278066 (-6))) | lit; lra ].
  - lit. apply abs_le. split; nra.
  - lit. apply abs_le. split; nra.
  - replace (((((xM + Rlit 291053567 (-7) + eM) * (PI / 180) + 2 * IZR m1M * PI) - ((Rlit 20 (-1)) * ((xF + Rlit 39067050284 (-8) + eF) * (PI / 180) + 2 * IZR m1F * PI))) - ((xM * (PI / 180) + 2 * IZR m0M * PI) - ((Rlit 20 (-1)) * (xF * (PI / 180) + 2 * IZR m0F * PI)))) / 2) with ((IZR (1) * (Rlit 291053567 (-7) + eM) + IZR (-2) * (Rlit 39067050284 (-8) + eF)) * (PI / 360) + IZR ((1) * (m1M - m0M) + (-2) * (m1F - m0F)) * PI)
      by (rewrite ?plus_IZR, ?mult_IZR, ?minus_IZR, ?opp_IZR; lit; field).
    rewrite abs_sin_shift. lit. apply abs_le. split; interval.
  - lit. lra.
Qed.
Lemma term_13 (xM eM xMprime eMprime xF eF xOmega eOmega E0 dE : R) (m0M m1M m0Mprime m1Mprime m0F m1F m0Omega m1Omega : Z) :
  Rabs eM <= 1 / 100 -> Rabs eMprime <= 1 / 100 -> Rabs eF <= 1 / 100 -> Rabs eOmega <= 1 / 100 -> 8 / 10 <= E0 <= 10908 / 10000 -> 8 / 10 <= E0 + dE <= 10908 / 10000 -> Rabs dE <= 1 / 10000 ->
  Rabs (((((Rlit 28 (-5)) * (E0 + dE)) * (E0 + dE)) * (sin (((xMprime + Rlit 38581693528 (-8) + eMprime) * (PI / 180) + 2 * IZR m1Mprime * PI) + ((Rlit 20 (-1)) * ((xM + Rlit 291053567 (-7) + eM) * (PI / 180) + 2 * IZR m1M * PI))))) - ((((Rlit 28 (-5)) * E0) * E0) * (sin ((xMprime * (PI / 180) + 2 * IZR m0Mprime * PI) + ((Rlit 20 (-1)) * (xM * (PI / 180) + 2 * IZR m0M * PI)))))) <= Rlit 4463 (-7).
Proof.
  intros HM HMprime HF HOmega HE0 HE1 HdE.
  apply abs_le_inv in HM.
  apply abs_le_inv in HMprime.
  apply abs_le_inv in HF.
  apply abs_le_inv in HOmega.
  apply abs_le_inv in HdE.
  eapply Rle_trans; [ eapply (term_bound _ _ _ _ (Rlit 33316 (-8)) (Rlit 62 (-9)) (Rlit 669705 (-6))) | lit; lra ].
  - remember (E0 + dE) as E1 eqn:HE1e. lit. apply abs_le. split; interval.
  - match goal with |- Rabs ?z <= _ => replace z with (Rlit 28 (-5) * (dE * (2 * E0 + dE))) by (lit; ring) end.
    lit. apply abs_le. split; interval.
  - replace (((((xMprime + Rlit 38581693528 (-8) + eMprime) * (PI / 180) + 2 * IZR m1Mprime * PI) + ((Rlit 20 (-1)) * ((xM + Rlit 291053567 (-7) + eM) * (PI / 180) + 2 * IZR m1M * PI))) - ((xMprime * (PI / 180) + 2 * IZR m0Mprime * PI) + ((Rlit 20 (-1)) * (xM * (PI / 180) + 2 * IZR m0M * PI)))) / 2) with ((IZR (1) * (Rlit 38581693528 (-8) + eMprime) + IZR (2) * (Rlit 291053567 (-7) + eM)) * (PI / 360) + IZR ((1) * (m1Mprime - m0Mprime) + (2) * (m1M - m0M)) * PI)
      by (rewrite ?plus_IZR, ?mult_IZR, ?minus_IZR, ?opp_IZR; lit; field).
    rewrite abs_sin_shift. lit. apply abs_le. split; interval.
  - lit. lra.
Qed.
Lemma term_14 (xM eM xMprime eMprime xF eF xOmega eOmega E0 dE : R) (m0M m1M m0Mprime m1Mprime m0F m1F m0Omega m1Omega : Z) :
  Rabs eM <= 1 / 100 -> Rabs eMprime <= 1 / 100 -> Rabs eF <= 1 / 100 -> Rabs eOmega <= 1 / 100 -> 8 / 10 <= E0 <= 10908 / 10000 -> 8 / 10 <= E0 + dE <= 10908 / 10000 -> Rabs dE <= 1 / 10000 ->
  Rabs ((((Rlit 27 (-5)) * (E0 + dE)) * (sin (((Rlit 20 (-1)) * ((xMprime + Rlit 38581693528 (-8) + eMprime) * (PI / 180) + 2 * IZR m1Mprime * PI)) + ((xM + Rlit 291053567 (-7) + eM) * (PI / 180) + 2 * IZR m1M * PI)))) - (((Rlit 27 (-5)) * E0) * (sin (((Rlit 20 (-1)) * (xMprime * (PI / 180) + 2 * IZR m0Mprime * PI)) + (xM * (PI / 180) + 2 * IZR m0M * PI))))) <= Rlit 3818 (-7).
Proof.
  intros HM HMprime HF HOmega HE0 HE1 HdE.
  apply abs_le_inv in HM.
  apply abs_le_inv in HMprime.
  apply abs_le_inv in HF.
  apply abs_le_inv in HOmega.
  apply abs_le_inv in HdE.
  eapply Rle_trans; [ eapply (term_bound _ _ _ _ (Rlit 29452 (-8)) (Rlit 27 (-9)) (Rlit 648116 (-6))) | lit; lra ].
  - lit. apply abs_le. split; nra.
  - lit. apply abs_le. split; nra.
  - replace (((((Rlit 20 (-1)) * ((xMprime + Rlit 38581693528 (-8) + eMprime) * (PI / 180) + 2 * IZR m1Mprime * PI)) + ((xM + Rlit 291053567 (-7) + eM) * (PI / 180) + 2 * IZR m1M * PI)) - (((Rlit 20 (-1)) * (xMprime * (PI / 180) + 2 * IZR m0Mprime * PI)) + (xM * (PI / 180) + 2 * IZR m0M * PI))) / 2) with ((IZR (2) * (Rlit 38581693528 (-8) + eMprime) + IZR (1) * (Rlit 291053567 (-7) + eM)) * (PI / 360) + IZR ((2) * (m1Mprime - m0Mprime) + (1) * (m1M - m0M)) * PI)
      by (rewrite ?plus_IZR, ?mult_IZR, ?minus_IZR, ?opp_IZR; lit; field).
    rewrite abs_sin_shift. lit. apply abs_le. split; interval.
  - lit. lra.
Qed.
Lemma term_15 (xM eM xMprime eMprime xF eF xOmega eOmega E0 dE : R) (m0M m1M m0Mprime m1Mprime m0F m1F m0Omega m1Omega : Z) :
  Rabs eM <= 1 / 100 -> Rabs eMprime <= 1 / 100 -> Rabs eF <= 1 / 100 -> Rabs eOmega <= 1 / 100 -> 8 / 10 <= E0 <= 10908 / 10000 -> 8 / 10 <= E0 + dE <= 10908 / 10000 -> Rabs dE <= 1 / 10000 ->
  Rabs (((Rlit 17 (-5)) * (sin ((xOmega + Rlit (-156375588) (-8) + eOmega) * (PI / 180) + 2 * IZR m1Omega * PI))) - ((Rlit 17 (-5)) * (sin (xOmega * (PI / 180) + 2 * IZR m0Omega * PI)))) <= Rlit 48 (-7).
Proof.
  intros HM HMprime HF HOmega HE0 HE1 HdE.
  apply abs_le_inv in HM.
  apply abs_le_inv in HMprime.
  apply abs_le_inv in HF.
  apply abs_le_inv in HOmega.
  apply abs_le_inv in HdE.
  eapply Rle_trans; [ eapply (term_bound _ _ _ _ (Rlit 17000 (-8)) (Rlit 0 (-9)) (Rlit 13934 (-6))) | lit; lra ].
  - lit. apply abs_le. lra.
  - lit. apply abs_le. lra.
  - replace ((((xOmega + Rlit (-156375588) (-8) + eOmega) * (PI / 180) + 2 * IZR m1Omega * PI) - (xOmega * (PI / 180) + 2 * IZR m0Omega * PI)) / 2) with ((IZR (1) * (Rlit (-156375588) (-8) + eOmega)) * (PI / 360) + IZR ((1) * (m1Omega - m0Omega)) * PI)
      by (rewrite ?plus_IZR, ?mult_IZR, ?minus_IZR, ?opp_IZR; lit; field).
    rewrite abs_sin_shift. lit. apply abs_le. split; interval.
  - lit. lra.
Qed.
Lemma term_16 (xM eM xMprime eMprime xF eF xOmega eOmega E0 dE : R) (m0M m1M m0Mprime m1Mprime m0F m1F m0Omega m1Omega : Z) :
  Rabs eM <= 1 / 100 -> Rabs eMprime <= 1 / 100 -> Rabs eF <= 1 / 100 -> Rabs eOmega <= 1 / 100 -> 8 / 10 <= E0 <= 10908 / 10000 -> 8 / 10 <= E0 + dE <= 10908 / 10000 -> Rabs dE <= 1 / 10000 ->
  Rabs (((Rlit 5 (-5)) * (sin ((((xMprime + Rlit 38581693528 (-8) + eMprime) * (PI / 180) + 2 * IZR m1Mprime * PI) - ((xM + Rlit 291053567 (-7) + eM) * (PI / 180) + 2 * IZR m1M * PI)) - ((Rlit 20 (-1)) * ((xF + Rlit 39067050284 (-8) + eF) * (PI / 180) + 2 * IZR m1F * PI))))) - ((Rlit 5 (-5)) * (sin (((xMprime * (PI / 180) + 2 * IZR m0Mprime * PI) - (xM * (PI / 180) + 2 * IZR m0M * PI)) - ((Rlit 20 (-1)) * (xF * (PI / 180) + 2 * IZR m0F * PI)))))) <= Rlit 536 (-7).
Proof.
  intros HM HMprime HF HOmega HE0 HE1 HdE.
  apply abs_le_inv in HM.
  apply abs_le_inv in HMprime.
  apply abs_le_inv in HF.
  apply abs_le_inv in HOmega.
  apply abs_le_inv in HdE.
  eapply Rle_trans; [ eapply (term_bound _ _ _ _ (Rlit 5000 (-8)) (Rlit 0 (-9)) (Rlit 535065 (-6))) | lit; lra ].
  - lit. apply abs_le. lra.
  - lit. apply abs_le. lra.
  - replace ((((((xMprime + Rlit 38581693528 (-8) + eMprime) * (PI / 180) + 2 * IZR m1Mprime * PI) - ((xM + Rlit 291053567 (-7) + eM) * (PI / 180) + 2 * IZR m1M * PI)) - ((Rlit 20 (-1)) * ((xF + Rlit 39067050284 (-8) + eF) * (PI / 180) + 2 * IZR m1F * PI))) - (((xMprime * (PI / 180) + 2 * IZR m0Mprime * PI) - (xM * (PI / 180) + 2 * IZR m0M * PI)) - ((Rlit 20 (-1)) * (xF * (PI / 180) + 2 * IZR m0F * PI)))) / 2) with ((IZR (1) * (Rlit 38581693528 (-8) + eMprime) + IZR (-1) * (Rlit 291053567 (-7) + eM) + IZR (-2) * (Rlit 39067050284 (-8) + eF)) * (PI / 360) + IZR ((1) * (m1Mprime - m0Mprime) + (-1) * (m1M - m0M) + (-2) * (m1F - m0F)) * PI)
      by (rewrite ?plus_IZR, ?mult_IZR, ?minus_IZR, ?opp_IZR; lit; field).
    rewrite abs_sin_shift. lit. apply abs_le. split; interval.
  - lit. lra.
Qed.
Lemma term_17 (xM eM xMprime eMprime xF eF xOmega eOmega E0 dE : R) (m0M m1M m0Mprime m1Mprime m0F m1F m0Omega m1Omega : Z) :
  Rabs eM <= 1 / 100 -> Rabs eMprime <= 1 / 100 -> Rabs eF <= 1 / 100 -> Rabs eOmega <= 1 / 100 -> 8 / 10 <= E0 <= 10908 / 10000 -> 8 / 10 <= E0 + dE <= 10908 / 10000 -> Rabs dE <= 1 / 10000 ->
  Rabs (((Rlit 4 (-5)) * (sin ((Rlit 20 (-1)) * (((xMprime + Rlit 38581693528 (-8) + eMprime) * (PI / 180) + 2 * IZR m1Mprime * PI) + ((xF + Rlit 39067050284 (-8) + eF) * (PI / 180) + 2 * IZR m1F * PI))))) - ((Rlit 4 (-5)) * (sin ((Rlit 20 (-1)) * ((xMprime * (PI / 180) + 2 * IZR m0Mprime * PI) + (xF * (PI / 180) + 2 * IZR m0F * PI)))))) <= Rlit 668 (-7).
Proof.
  intros HM HMprime HF HOmega HE0 HE1 HdE.
  apply abs_le_inv in HM.
  apply abs_le_inv in HMprime.
  apply abs_le_inv in HF.
  apply abs_le_inv in HOmega.
  apply abs_le_inv in HdE.
  eapply Rle_trans; [ eapply (term_bound _ _ _ _ (Rlit 4000 (-8)) (Rlit 0 (-9)) (Rlit 834158 (-6))) | lit; lra ].
  - lit. apply abs_le. lra.
  - lit. apply abs_le. lra.
  - replace ((((Rlit 20 (-1)) * (((xMprime + Rlit 38581693528 (-8) + eMprime) * (PI / 180) + 2 * IZR m1Mprime * PI) + ((xF + Rlit 39067050284 (-8) + eF) * (PI / 180) + 2 * IZR m1F * PI))) - ((Rlit 20 (-1)) * ((xMprime * (PI / 180) + 2 * IZR m0Mprime * PI) + (xF * (PI / 180) + 2 * IZR m0F * PI)))) / 2) with ((IZR (2) * (Rlit 38581693528 (-8) + eMprime) + IZR (2) * (Rlit 39067050284 (-8) + eF)) * (PI / 360) + IZR ((2) * (m1Mprime - m0Mprime) + (2) * (m1F - m0F)) * PI)
      by (rewrite ?plus_IZR, ?mult_IZR, ?minus_IZR, ?opp_IZR; lit; field).
    rewrite abs_sin_shift. lit. apply abs_le. split; interval.
  - lit. lra.
Qed.
Lemma term_18 (xM eM xMprime eMprime xF eF xOmega eOmega E0 dE : R) (m0M m1M m0Mprime m1Mprime m0F m1F m0Omega m1Omega : Z) :
  Rabs eM <= 1 / 100 -> Rabs eMprime <= 1 / 100 -> Rabs eF <= 1 / 100 -> Rabs eOmega <= 1 / 100 -> 8 / 10 <= E0 <= 10908 / 10000 -> 8 / 10 <= E0 + dE <= 10908 / 10000 -> Rabs dE <= 1 / 10000 ->
  Rabs (((Rlit 4 (-5)) * (sin ((((xMprime + Rlit 38581693528 (-8) + eMprime) * (PI / 180) + 2 * IZR m1Mprime * PI) + ((xM + Rlit 291053567 (-7) + eM) * (PI / 180) + 2 * IZR m1M * PI)) + ((Rlit 20 (-1)) * ((xF + Rlit 39067050284 (-8) + eF) * (PI / 180) + 2 * IZR m1F * PI))))) - ((Rlit 4 (-5)) * (sin (((xMprime * (PI / 180) + 2 * IZR m0Mprime * PI) + (xM * (PI / 180) + 2 * IZR m0M * PI)) + ((Rlit 20 (-1)) * (xF * (PI / 180) + 2 * IZR m0F * PI)))))) <= Rlit 680 (-7).
Proof.
  intros HM HMprime HF HOmega HE0 HE1 HdE.
  apply abs_le_inv in HM.
  apply abs_le_inv in HMprime.
  apply abs_le_inv in HF.
  apply abs_le_inv in HOmega.
  apply abs_le_inv in HdE.
  eapply Rle_trans; [ eapply (term_bound _ _ _ _ (Rlit 4000 (-8)) (Rlit 0 (-9)) (Rlit 849648 (-6))) | lit; lra ].
  - lit. apply abs_le. lra.
  - lit. apply abs_le. lra.
  - replace ((((((xMprime + Rlit 38581693528 (-8) + eMprime) * (PI / 180) + 2 * IZR m1Mprime * PI) + ((xM + Rlit 291053567 (-7) + eM) * (PI / 180) + 2 * IZR m1M * PI)) + ((Rlit 20 (-1)) * ((xF + Rlit 39067050284 (-8) + eF) * (PI / 180) + 2 * IZR m1F * PI))) - (((xMprime * (PI / 180) + 2 * IZR m0Mprime * PI) + (xM * (PI / 180) + 2 * IZR m0M * PI)) + ((Rlit 20 (-1)) * (xF * (PI / 180) + 2 * IZR m0F * PI)))) / 2) with ((IZR (1) * (Rlit 38581693528 (-8) + eMprime) + IZR (1) * (Rlit 291053567 (-7) + eM) + IZR (2) * (Rlit 39067050284 (-8) + eF)) * (PI / 360) + IZR ((1) * (m1Mprime - m0Mprime) + (1) * (m1M - m0M) + (2) * (m1F - m0F)) * PI)
      by (rewrite ?plus_IZR, ?mult_IZR, ?minus_IZR, ?opp_IZR; lit; field).
    rewrite abs_sin_shift. lit. apply abs_le. split; interval.
  - lit. lra.
Qed.
Lemma term_19 (xM eM xMprime eMprime xF eF xOmega eOmega E0 dE : R) (m0M m1M m0Mprime m1Mprime m0F m1F m0Omega m1Omega : Z) :
  Rabs eM <= 1 / 100 -> Rabs eMprime <= 1 / 100 -> Rabs eF <= 1 / 100 -> Rabs eOmega <= 1 / 100 -> 8 / 10 <= E0 <= 10908 / 10000 -> 8 / 10 <= E0 + dE <= 10908 / 10000 -> Rabs dE <= 1 / 10000 ->
  Rabs (((Rlit 4 (-5)) * (sin (((xMprime + Rlit 38581693528 (-8) + eMprime) * (PI / 180) + 2 * IZR m1Mprime * PI) - ((Rlit 20 (-1)) * ((xM + Rlit 291053567 (-7) + eM) * (PI / 180) + 2 * IZR m1M * PI))))) - ((Rlit 4 (-5)) * (sin ((xMprime * (PI / 180) + 2 * IZR m0Mprime * PI) - ((Rlit 20 (-1)) * (xM * (PI / 180) + 2 * IZR m0M * PI)))))) <= Rlit 224 (-7).
Proof.
  intros HM HMprime HF HOmega HE0 HE1 HdE.
  apply abs_le_inv in HM.
  apply abs_le_inv in HMprime.
  apply abs_le_inv in HF.
  apply abs_le_inv in HOmega.
  apply abs_le_inv in HdE.
  eapply Rle_trans; [ eapply (term_bound _ _ _ _ (Rlit 4000 (-8)) (Rlit 0 (-9)) (Rlit 279391 (-6))) | lit; lra ].
  - lit. apply abs_le. lra.
  - lit. apply abs_le. lra.
  - replace (((((xMprime + Rlit 38581693528 (-8) + eMprime) * (PI / 180) + 2 * IZR m1Mprime * PI) - ((Rlit 20 (-1)) * ((xM + Rlit 291053567 (-7) + eM) * (PI / 180) + 2 * IZR m1M * PI))) - ((xMprime * (PI / 180) + 2 * IZR m0Mprime * PI) - ((Rlit 20 (-1)) * (xM * (PI / 180) + 2 * IZR m0M * PI)))) / 2) with ((IZR (1) * (Rlit 38581693528 (-8) + eMprime) + IZR (-2) * (Rlit 291053567 (-7) + eM)) * (PI / 360) + IZR ((1) * (m1Mprime - m0Mprime) + (-2) * (m1M - m0M)) * PI)
      by (rewrite ?plus_IZR, ?mult_IZR, ?minus_IZR, ?opp_IZR; lit; field).
    rewrite abs_sin_shift. lit. apply abs_le. split; interval.
  - lit. lra.
Qed.
Lemma term_20 (xM eM xMprime eMprime xF eF xOmega eOmega E0 dE : R) (m0M m1M m0Mprime m1Mprime m0F m1F m0Omega m1Omega : Z) :
  Rabs eM <= 1 / 100 -> Rabs eMprime <= 1 / 100 -> Rabs eF <= 1 / 100 -> Rabs eOmega <= 1 / 100 -> 8 / 10 <= E0 <= 10908 / 10000 -> 8 / 10 <= E0 + dE <= 10908 / 10000 -> Rabs dE <= 1 / 10000 ->
  Rabs (((Rlit 3 (-5)) * (sin ((((xMprime + Rlit 38581693528 (-8) + eMprime) * (PI / 180) + 2 * IZR m1Mprime * PI) + ((xM + Rlit 291053567 (-7) + eM) * (PI / 180) + 2 * IZR m1M * PI)) - ((Rlit 20 (-1)) * ((xF + Rlit 39067050284 (-8) + eF) * (PI / 180) + 2 * IZR m1F * PI))))) - ((Rlit 3 (-5)) * (sin (((xMprime * (PI / 180) + 2 * IZR m0Mprime * PI) + (xM * (PI / 180) + 2 * IZR m0M * PI)) - ((Rlit 20 (-1)) * (xF * (PI / 180) + 2 * IZR m0F * PI)))))) <= Rlit 34 (-7).
Proof.
  intros HM HMprime HF HOmega HE0 HE1 HdE.
  apply abs_le_inv in HM.
  apply abs_le_inv in HMprime.
  apply abs_le_inv in HF.
  apply abs_le_inv in HOmega.
  apply abs_le_inv in HdE.
  eapply Rle_trans; [ eapply (term_bound _ _ _ _ (Rlit 3000 (-8)) (Rlit 0 (-9)) (Rlit 56534 (-6))) | lit; lra ].
  - lit. apply abs_le. lra.
  - lit. apply abs_le. lra.
  - replace ((((((xMprime + Rlit 38581693528 (-8) + eMprime) * (PI / 180) + 2 * IZR m1Mprime * PI) + ((xM + Rlit 291053567 (-7) + eM) * (PI / 180) + 2 * IZR m1M * PI)) - ((Rlit 20 (-1)) * ((xF + Rlit 39067050284 (-8) + eF) * (PI / 180) + 2 * IZR m1F * PI))) - (((xMprime * (PI / 180) + 2 * IZR m0Mprime * PI) + (xM * (PI / 180) + 2 * IZR m0M * PI)) - ((Rlit 20 (-1)) * (xF * (PI / 180) + 2 * IZR m0F * PI)))) / 2) with ((IZR (1) * (Rlit 38581693528 (-8) + eMprime) + IZR (1) * (Rlit 291053567 (-7) + eM) + IZR (-2) * (Rlit 39067050284 (-8) + eF)) * (PI / 360) + IZR ((1) * (m1Mprime - m0Mprime) + (1) * (m1M - m0M) + (-2) * (m1F - m0F)) * PI)
      by (rewrite ?plus_IZR, ?mult_IZR, ?minus_IZR, ?opp_IZR; lit; field).
    rewrite abs_sin_shift. lit. apply abs_le. split; interval.
  - lit. lra.
Qed.
Lemma term_21 (xM eM xMprime eMprime xF eF xOmega eOmega E0 dE : R) (m0M m1M m0Mprime m1Mprime m0F m1F m0Omega m1Omega : Z) :
  Rabs eM <= 1 / 100 -> Rabs eMprime <= 1 / 100 -> Rabs eF <= 1 / 100 -> Rabs eOmega <= 1 / 100 -> 8 / 10 <= E0 <= 10908 / 10000 -> 8 / 10 <= E0 + dE <= 10908 / 10000 -> Rabs dE <= 1 / 10000 ->
  Rabs (((Rlit 3 (-5)) * (sin ((Rlit 30 (-1)) * ((xM + Rlit 291053567 (-7) + eM) * (PI / 180) + 2 * IZR m1M * PI)))) - ((Rlit 3 (-5)) * (sin ((Rlit 30 (-1)) * (xM * (PI / 180) + 2 * IZR m0M * PI))))) <= Rlit 415 (-7).
Proof.
  intros HM HMprime HF HOmega HE0 HE1 HdE.
  apply abs_le_inv in HM.
  apply abs_le_inv in HMprime.
  apply abs_le_inv in HF.
  apply abs_le_inv in HOmega.
  apply abs_le_inv in HdE.
  eapply Rle_trans; [ eapply (term_bound _ _ _ _ (Rlit 3000 (-8)) (Rlit 0 (-9)) (Rlit 690743 (-6))) | lit; lra ].
  - lit. apply abs_le. lra.
  - lit. apply abs_le. lra.
  - replace ((((Rlit 30 (-1)) * ((xM + Rlit 291053567 (-7) + eM) * (PI / 180) + 2 * IZR m1M * PI)) - ((Rlit 30 (-1)) * (xM * (PI / 180) + 2 * IZR m0M * PI))) / 2) with ((IZR (3) * (Rlit 291053567 (-7) + eM)) * (PI / 360) + IZR ((3) * (m1M - m0M)) * PI)
      by (rewrite ?plus_IZR, ?mult_IZR, ?minus_IZR, ?opp_IZR; lit; field).
    rewrite abs_sin_shift. lit. apply abs_le. split; interval.
  - lit. lra.
Qed.
Lemma term_22 (xM eM xMprime eMprime xF eF xOmega eOmega E0 dE : R) (m0M m1M m0Mprime m1Mprime m0F m1F m0Omega m1Omega : Z) :
  Rabs eM <= 1 / 100 -> Rabs eMprime <= 1 / 100 -> Rabs eF <= 1 / 100 -> Rabs eOmega <= 1 / 100 -> 8 / 10 <= E0 <= 10908 / 10000 -> 8 / 10 <= E0 + dE <= 10908 / 10000 -> Rabs dE <= 1 / 10000 ->
  Rabs (((Rlit 2 (-5)) * (sin ((Rlit 20 (-1)) * (((xMprime + Rlit 38581693528 (-8) + eMprime) * (PI / 180) + 2 * IZR m1Mprime * PI) - ((xF + Rlit 39067050284 (-8) + eF) * (PI / 180) + 2 * IZR m1F * PI))))) - ((Rlit 2 (-5)) * (sin ((Rlit 20 (-1)) * ((xMprime * (PI / 180) + 2 * IZR m0Mprime * PI) - (xF * (PI / 180) + 2 * IZR m0F * PI)))))) <= Rlit 35 (-7).
Proof.
  intros HM HMprime HF HOmega HE0 HE1 HdE.
  apply abs_le_inv in HM.
  apply abs_le_inv in HMprime.
  apply abs_le_inv in HF.
  apply abs_le_inv in HOmega.
  apply abs_le_inv in HdE.
  eapply Rle_trans; [ eapply (term_bound _ _ _ _ (Rlit 2000 (-8)) (Rlit 0 (-9)) (Rlit 85158 (-6))) | lit; lra ].
  - lit. apply abs_le. lra.
  - lit. apply abs_le. lra.
  - replace ((((Rlit 20 (-1)) * (((xMprime + Rlit 38581693528 (-8) + eMprime) * (PI / 180) + 2 * IZR m1Mprime * PI) - ((xF + Rlit 39067050284 (-8) + eF) * (PI / 180) + 2 * IZR m1F * PI))) - ((Rlit 20 (-1)) * ((xMprime * (PI / 180) + 2 * IZR m0Mprime * PI) - (xF * (PI / 180) + 2 * IZR m0F * PI)))) / 2) with ((IZR (2) * (Rlit 38581693528 (-8) + eMprime) + IZR (-2) * (Rlit 39067050284 (-8) + eF)) * (PI / 360) + IZR ((2) * (m1Mprime - m0Mprime) + (-2) * (m1F - m0F)) * PI)
      by (rewrite ?plus_IZR, ?mult_IZR, ?minus_IZR, ?opp_IZR; lit; field).
    rewrite abs_sin_shift. lit. apply abs_le. split; interval.
  - lit. lra.
Qed.
Lemma term_23 (xM eM xMprime eMprime xF eF xOmega eOmega E0 dE : R) (m0M m1M m0Mprime m1Mprime m0F m1F m0Omega m1Omega : Z) :
  Rabs eM <= 1 / 100 -> Rabs eMprime <= 1 / 100 -> Rabs eF <= 1 / 100 -> Rabs eOmega <= 1 / 100 -> 8 / 10 <= E0 <= 10908 / 10000 -> 8 / 10 <= E0 + dE <= 10908 / 10000 -> Rabs dE <= 1 / 10000 ->
  Rabs (((Rlit 2 (-5)) * (sin ((((xMprime + Rlit 38581693528 (-8) + eMprime) * (PI / 180) + 2 * IZR m1Mprime * PI) - ((xM + Rlit 291053567 (-7) + eM) * (PI / 180) + 2 * IZR m1M * PI)) + ((Rlit 20 (-1)) * ((xF + Rlit 39067050284 (-8) + eF) * (PI / 180) + 2 * IZR m1F * PI))))) - ((Rlit 2 (-5)) * (sin (((xMprime * (PI / 180) + 2 * IZR m0Mprime * PI) - (xM * (PI / 180) + 2 * IZR m0M * PI)) + ((Rlit 20 (-1)) * (xF * (PI / 180) + 2 * IZR m0F * PI)))))) <= Rlit 195 (-7).
Proof.
  intros HM HMprime HF HOmega HE0 HE1 HdE.
  apply abs_le_inv in HM.
  apply abs_le_inv in HMprime.
  apply abs_le_inv in HF.
  apply abs_le_inv in HOmega.
  apply abs_le_inv in HdE.
  eapply Rle_trans; [ eapply (term_bound _ _ _ _ (Rlit 2000 (-8)) (Rlit 0 (-9)) (Rlit 485717 (-6))) | lit; lra ].
  - lit. apply abs_le. lra.
  - lit. apply abs_le. lra.
  - replace ((((((xMprime + Rlit 38581693528 (-8) + eMprime) * (PI / 180) + 2 * IZR m1Mprime * PI) - ((xM + Rlit 291053567 (-7) + eM) * (PI / 180) + 2 * IZR m1M * PI)) + ((Rlit 20 (-1)) * ((xF + Rlit 39067050284 (-8) + eF) * (PI / 180) + 2 * IZR m1F * PI))) - (((xMprime * (PI / 180) + 2 * IZR m0Mprime * PI) - (xM * (PI / 180) + 2 * IZR m0M * PI)) + ((Rlit 20 (-1)) * (xF * (PI / 180) + 2 * IZR m0F * PI)))) / 2) with ((IZR (1) * (Rlit 38581693528 (-8) + eMprime) + IZR (-1) * (Rlit 291053567 (-7) + eM) + IZR (2) * (Rlit 39067050284 (-8) + eF)) * (PI / 360) + IZR ((1) * (m1Mprime - m0Mprime) + (-1) * (m1M - m0M) + (2) * (m1F - m0F)) * PI)
      by (rewrite ?plus_IZR, ?mult_IZR, ?minus_IZR, ?opp_IZR; lit; field).
    rewrite abs_sin_shift. lit. apply abs_le. split; interval.
  - lit. lra.
Qed.
Lemma term_24 (xM eM xMprime eMprime xF eF xOmega eOmega E0 dE : R) (m0M m1M m0Mprime m1Mprime m0F m1F m0Omega m1Omega : Z) :
  Rabs eM <= 1 / 100 -> Rabs eMprime <= 1 / 100 -> Rabs eF <= 1 / 100 -> Rabs eOmega <= 1 / 100 -> 8 / 10 <= E0 <= 10908 / 10000 -> 8 / 10 <= E0 + dE <= 10908 / 10000 -> Rabs dE <= 1 / 10000 ->
  Rabs (((Rlit 2 (-5)) * (sin (((Rlit 30 (-1)) * ((xMprime + Rlit 38581693528 (-8) + eMprime) * (PI / 180) + 2 * IZR m1Mprime * PI)) + ((xM + Rlit 291053567 (-7) + eM) * (PI / 180) + 2 * IZR m1M * PI)))) - ((Rlit 2 (-5)) * (sin (((Rlit 30 (-1)) * (xMprime * (PI / 180) + 2 * IZR m0Mprime * PI)) + (xM * (PI / 180) + 2 * IZR m0M * PI))))) <= Rlit 321 (-7).
Proof.
  intros HM HMprime HF HOmega HE0 HE1 HdE.
  apply abs_le_inv in HM.
  apply abs_le_inv in HMprime.
  apply abs_le_inv in HF.
  apply abs_le_inv in HOmega.
  apply abs_le_inv in HdE.
  eapply Rle_trans; [ eapply (term_bound _ _ _ _ (Rlit 2000 (-8)) (Rlit 0 (-9)) (Rlit 801956 (-6))) | lit; lra ].
  - lit. apply abs_le. lra.
  - lit. apply abs_le. lra.
  - replace (((((Rlit 30 (-1)) * ((xMprime + Rlit 38581693528 (-8) + eMprime) * (PI / 180) + 2 * IZR m1Mprime * PI)) + ((xM + Rlit 291053567 (-7) + eM) * (PI / 180) + 2 * IZR m1M * PI)) - (((Rlit 30 (-1)) * (xMprime * (PI / 180) + 2 * IZR m0Mprime * PI)) + (xM * (PI / 180) + 2 * IZR m0M * PI))) / 2) with ((IZR (3) * (Rlit 38581693528 (-8) + eMprime) + IZR (1) * (Rlit 291053567 (-7) + eM)) * (PI / 360) + IZR ((3) * (m1Mprime - m0Mprime) + (1) * (m1M - m0M)) * PI)
      by (rewrite ?plus_IZR, ?mult_IZR, ?minus_IZR, ?opp_IZR; lit; field).
    rewrite abs_sin_shift. lit. apply abs_le. split; interval.
  - lit. lra.
Qed.

Definition corr_step_bound : R := Rlit 410035 (-6).
Definition win (k : R) : Prop := -41 <= k / P.cc <= 21.
Lemma t_succ k : P.v_t_1 (k + 1) = P.v_t_1 k + 1 / P.cc.
Proof. unfold P.v_t_1, P.f_t_1, P.cc. lit. field. Qed.
Lemma d_M k : win k -> exists e, Rabs e <= 1 / 100 /\ P.v_M_1 (k + 1) = P.v_M_1 k + Rlit 291053567 (-7) + e.
Proof.
  intro W. exists (P.v_M_1 (k + 1) - P.v_M_1 k - Rlit 291053567 (-7)). split; [|ring].
  unfold P.v_M_1. rewrite t_succ. unfold win in W. change (k / P.cc) with (P.v_t_1 k) in W.
  revert W. generalize (P.v_t_1 k). intros t W. unfold P.f_M_1.
  match goal with |- Rabs ?z <= _ => replace z with (((((Rlit (-14) (-7)) - ((Rlit 11 (-8)) * (t + 1 / P.cc))) * (t + 1 / P.cc)) * (t + 1 / P.cc)) - ((((Rlit (-14) (-7)) - ((Rlit 11 (-8)) * t)) * t) * t)) by (unfold P.cc; lit; first [ring | field]) end.
  unfold P.cc. lit. apply abs_le. split; interval with (i_bisect t, i_taylor t).
Qed.
Lemma d_Mprime k : win k -> exists e, Rabs e <= 1 / 100 /\ P.v_Mprime_1 (k + 1) = P.v_Mprime_1 k + Rlit 38581693528 (-8) + e.
Proof.
  intro W. exists (P.v_Mprime_1 (k + 1) - P.v_Mprime_1 k - Rlit 38581693528 (-8)). split; [|ring].
  unfold P.v_Mprime_1. rewrite t_succ. unfold win in W. change (k / P.cc) with (P.v_t_1 k) in W.
  revert W. generalize (P.v_t_1 k). intros t W. unfold P.f_Mprime_1.
  match goal with |- Rabs ?z <= _ => replace z with (((((Rlit 107582 (-7)) + (((Rlit 1238 (-8)) - ((Rlit 58 (-9)) * (t + 1 / P.cc))) * (t + 1 / P.cc))) * (t + 1 / P.cc)) * (t + 1 / P.cc)) - ((((Rlit 107582 (-7)) + (((Rlit 1238 (-8)) - ((Rlit 58 (-9)) * t)) * t)) * t) * t)) by (unfold P.cc; lit; first [ring | field]) end.
  unfold P.cc. lit. apply abs_le. split; interval with (i_bisect t, i_taylor t).
Qed.
Lemma d_F k : win k -> exists e, Rabs e <= 1 / 100 /\ P.v_F_1 (k + 1) = P.v_F_1 k + Rlit 39067050284 (-8) + e.
Proof.
  intro W. exists (P.v_F_1 (k + 1) - P.v_F_1 k - Rlit 39067050284 (-8)). split; [|ring].
  unfold P.v_F_1. rewrite t_succ. unfold win in W. change (k / P.cc) with (P.v_t_1 k) in W.
  revert W. generalize (P.v_t_1 k). intros t W. unfold P.f_F_1.
  match goal with |- Rabs ?z <= _ => replace z with (((((Rlit (-16118) (-7)) + (((Rlit (-227) (-8)) + ((Rlit 11 (-9)) * (t + 1 / P.cc))) * (t + 1 / P.cc))) * (t + 1 / P.cc)) * (t + 1 / P.cc)) - ((((Rlit (-16118) (-7)) + (((Rlit (-227) (-8)) + ((Rlit 11 (-9)) * t)) * t)) * t) * t)) by (unfold P.cc; lit; first [ring | field]) end.
  unfold P.cc. lit. apply abs_le. split; interval with (i_bisect t, i_taylor t).
Qed.
Lemma d_Omega k : win k -> exists e, Rabs e <= 1 / 100 /\ P.v_Omega_1 (k + 1) = P.v_Omega_1 k + Rlit (-156375588) (-8) + e.
Proof.
  intro W. exists (P.v_Omega_1 (k + 1) - P.v_Omega_1 k - Rlit (-156375588) (-8)). split; [|ring].
  unfold P.v_Omega_1. rewrite t_succ. unfold win in W. change (k / P.cc) with (P.v_t_1 k) in W.
  revert W. generalize (P.v_t_1 k). intros t W. unfold P.f_Omega_1.
  match goal with |- Rabs ?z <= _ => replace z with (((((Rlit 20672 (-7)) + ((Rlit 215 (-8)) * (t + 1 / P.cc))) * (t + 1 / P.cc)) * (t + 1 / P.cc)) - ((((Rlit 20672 (-7)) + ((Rlit 215 (-8)) * t)) * t) * t)) by (unfold P.cc; lit; first [ring | field]) end.
  unfold P.cc. lit. apply abs_le. split; interval with (i_bisect t, i_taylor t).
Qed.
Lemma E_bounds k : win k -> 8 / 10 <= P.v_E_1 k <= 10908 / 10000.
Proof.
  intro W. unfold P.v_E_1. unfold win in W. change (k / P.cc) with (P.v_t_1 k) in W.
  revert W. generalize (P.v_t_1 k). intros t W. unfold P.f_E_1. lit. split; interval with (i_bisect t).
Qed.
Lemma E_step k : win k -> Rabs (P.v_E_1 (k + 1) - P.v_E_1 k) <= 1 / 10000.
Proof.
  intro W. unfold P.v_E_1. rewrite t_succ. unfold win in W. change (k / P.cc) with (P.v_t_1 k) in W.
  revert W. generalize (P.v_t_1 k). intros t W. unfold P.f_E_1, P.cc. lit. apply abs_le. split; interval with (i_bisect t, i_taylor t).
Qed.
Lemma Q_step k : win k -> Rabs (P.f_Q (P.v_t_1 (k + 1)) - P.f_Q (P.v_t_1 k)) <= 1 / 10000.
Proof.
  intro W. rewrite t_succ. unfold win in W. change (k / P.cc) with (P.v_t_1 k) in W.
  revert W. generalize (P.v_t_1 k). intros t W. unfold P.f_Q, P.cc. lit. apply abs_le. split; interval with (i_bisect t, i_taylor t).
Qed.
Lemma corr2_amp k : Rabs (P.v_corr2_1 k) <= 13 / 10000.
Proof.
  unfold P.v_corr2_1.
  generalize (P.v_a1r_1 k); intro.
  generalize (P.v_a2r_1 k); intro.
  generalize (P.v_a3r_1 k); intro.
  generalize (P.v_a4r_1 k); intro.
  generalize (P.v_a5r_1 k); intro.
  generalize (P.v_a6r_1 k); intro.
  generalize (P.v_a7r_1 k); intro.
  generalize (P.v_a8r_1 k); intro.
  generalize (P.v_a9r_1 k); intro.
  generalize (P.v_a10r_1 k); intro.
  generalize (P.v_a11r_1 k); intro.
  generalize (P.v_a12r_1 k); intro.
  generalize (P.v_a13r_1 k); intro.
  generalize (P.v_a14r_1 k); intro.
  unfold P.f_corr2_1. lit. apply abs_le. split; interval.
Qed.
Lemma corr_step k : win k -> win (k + 1) -> Rabs (P.v_corr_2 (k + 1) - P.v_corr_2 k) <= corr_step_bound.
Proof.
  intros W0 W1.
  destruct (d_M k W0) as [eM [BM EM]].
  destruct (d_Mprime k W0) as [eMprime [BMprime EMprime]].
  destruct (d_F k W0) as [eF [BF EF]].
  destruct (d_Omega k W0) as [eOmega [BOmega EOmega]].
  pose proof (E_bounds k W0) as HE0. pose proof (E_bounds (k + 1) W1) as HE1. pose proof (E_step k W0) as HdE.
  unfold P.v_corr_2, P.v_Mr_1, P.v_Mprimer_1, P.v_Fr_1, P.v_Omegar_1.
  destruct (norm_rad (P.v_M_1 (k + 1))) as [m1M N1M]. destruct (norm_rad (P.v_M_1 k)) as [m0M N0M].
  rewrite N1M, N0M. clear N1M N0M. rewrite EM. clear EM.
  generalize dependent (P.v_M_1 k). intros xM.
  destruct (norm_rad (P.v_Mprime_1 (k + 1))) as [m1Mprime N1Mprime]. destruct (norm_rad (P.v_Mprime_1 k)) as [m0Mprime N0Mprime].
  rewrite N1Mprime, N0Mprime. clear N1Mprime N0Mprime. rewrite EMprime. clear EMprime.
  generalize dependent (P.v_Mprime_1 k). intros xMprime.
  destruct (norm_rad (P.v_F_1 (k + 1))) as [m1F N1F]. destruct (norm_rad (P.v_F_1 k)) as [m0F N0F].
  rewrite N1F, N0F. clear N1F N0F. rewrite EF. clear EF.
  generalize dependent (P.v_F_1 k). intros xF.
  destruct (norm_rad (P.v_Omega_1 (k + 1))) as [m1Omega N1Omega]. destruct (norm_rad (P.v_Omega_1 k)) as [m0Omega N0Omega].
  rewrite N1Omega, N0Omega. clear N1Omega N0Omega. rewrite EOmega. clear EOmega.
  generalize dependent (P.v_Omega_1 k). intros xOmega.
  replace (P.v_E_1 (k + 1)) with (P.v_E_1 k + (P.v_E_1 (k + 1) - P.v_E_1 k)) in * by ring.
  generalize dependent (P.v_E_1 (k + 1) - P.v_E_1 k). intros dE.
  generalize dependent (P.v_E_1 k). intros E0. intros.
  replace (E0 + dE - E0) with dE in HdE by ring.
  unfold P.f_corr_2.
  pose proof (abs_le_inv _ _ (term_0 xM eM xMprime eMprime xF eF xOmega eOmega E0 dE m0M m1M m0Mprime m1Mprime m0F m1F m0Omega m1Omega BM BMprime BF BOmega HE0 HE1 HdE)) as T0. revert T0. lit. intro T0.
  pose proof (abs_le_inv _ _ (term_1 xM eM xMprime eMprime xF eF xOmega eOmega E0 dE m0M m1M m0Mprime m1Mprime m0F m1F m0Omega m1Omega BM BMprime BF BOmega HE0 HE1 HdE)) as T1. revert T1. lit. intro T1.
  pose proof (abs_le_inv _ _ (term_2 xM eM xMprime eMprime xF eF xOmega eOmega E0 dE m0M m1M m0Mprime m1Mprime m0F m1F m0Omega m1Omega BM BMprime BF BOmega HE0 HE1 HdE)) as T2. revert T2. lit. intro T2.
  pose proof (abs_le_inv _ _ (term_3 xM eM xMprime eMprime xF eF xOmega eOmega E0 dE m0M m1M m0Mprime m1Mprime m0F m1F m0Omega m1Omega BM BMprime BF BOmega HE0 HE1 HdE)) as T3. revert T3. lit. intro T3.
  pose proof (abs_le_inv _ _ (term_4 xM eM xMprime eMprime xF eF xOmega eOmega E0 dE m0M m1M m0Mprime m1Mprime m0F m1F m0Omega m1Omega BM BMprime BF BOmega HE0 HE1 HdE)) as T4. revert T4. lit. intro T4.
  pose proof (abs_le_inv _ _ (term_5 xM eM xMprime eMprime xF eF xOmega eOmega E0 dE m0M m1M m0Mprime m1Mprime m0F m1F m0Omega m1Omega BM BMprime BF BOmega HE0 HE1 HdE)) as T5. revert T5. lit. intro T5.
  pose proof (abs_le_inv _ _ (term_6 xM eM xMprime eMprime xF eF xOmega eOmega E0 dE m0M m1M m0Mprime m1Mprime m0F m1F m0Omega m1Omega BM BMprime BF BOmega HE0 HE1 HdE)) as T6. revert T6. lit. intro T6.
  pose proof (abs_le_inv _ _ (term_7 xM eM xMprime eMprime xF eF xOmega eOmega E0 dE m0M m1M m0Mprime m1Mprime m0F m1F m0Omega m1Omega BM BMprime BF BOmega HE0 HE1 HdE)) as T7. revert T7. lit. intro T7.
  pose proof (abs_le_inv _ _ (term_8 xM eM xMprime eMprime xF eF xOmega eOmega E0 dE m0M m1M m0Mprime m1Mprime m0F m1F m0Omega m1Omega BM BMprime BF BOmega HE0 HE1 HdE)) as T8. revert T8. lit. intro T8.
  pose proof (abs_le_inv _ _ (term_9 xM eM xMprime eMprime xF eF xOmega eOmega E0 dE m0M m1M m0Mprime m1Mprime m0F m1F m0Omega m1Omega BM BMprime BF BOmega HE0 HE1 HdE)) as T9. revert T9. lit. intro T9.
  pose proof (abs_le_inv _ _ (term_10 xM eM xMprime eMprime xF eF xOmega eOmega E0 dE m0M m1M m0Mprime m1Mprime m0F m1F m0Omega m1Omega BM BMprime BF BOmega HE0 HE1 HdE)) as T10. revert T10. lit. intro T10.
  pose proof (abs_le_inv _ _ (term_11 xM eM xMprime eMprime xF eF xOmega eOmega E0 dE m0M m1M m0Mprime m1Mprime m0F m1F m0Omega m1Omega BM BMprime BF BOmega HE0 HE1 HdE)) as T11. revert T11. lit. intro T11.
  pose proof (abs_le_inv _ _ (term_12 xM eM xMprime eMprime xF eF xOmega eOmega E0 dE m0M m1M m0Mprime m1Mprime m0F m1F m0Omega m1Omega BM BMprime BF BOmega HE0 HE1 HdE)) as T12. revert T12. lit. intro T12.
  pose proof (abs_le_inv _ _ (term_13 xM eM xMprime eMprime xF eF xOmega eOmega E0 dE m0M m1M m0Mprime m1Mprime m0F m1F m0Omega m1Omega BM BMprime BF BOmega HE0 HE1 HdE)) as T13. revert T13. lit. intro T13.
  pose proof (abs_le_inv _ _ (term_14 xM eM xMprime eMprime xF eF xOmega eOmega E0 dE m0M m1M m0Mprime m1Mprime m0F m1F m0Omega m1Omega BM BMprime BF BOmega HE0 HE1 HdE)) as T14. revert T14. lit. intro T14.
  pose proof (abs_le_inv _ _ (term_15 xM eM xMprime eMprime xF eF xOmega eOmega E0 dE m0M m1M m0Mprime m1Mprime m0F m1F m0Omega m1Omega BM BMprime BF BOmega HE0 HE1 HdE)) as T15. revert T15. lit. intro T15.
  pose proof (abs_le_inv _ _ (term_16 xM eM xMprime eMprime xF eF xOmega eOmega E0 dE m0M m1M m0Mprime m1Mprime m0F m1F m0Omega m1Omega BM BMprime BF BOmega HE0 HE1 HdE)) as T16. revert T16. lit. intro T16.
  pose proof (abs_le_inv _ _ (term_17 xM eM xMprime eMprime xF eF xOmega eOmega E0 dE m0M m1M m0Mprime m1Mprime m0F m1F m0Omega m1Omega BM BMprime BF BOmega HE0 HE1 HdE)) as T17. revert T17. lit. intro T17.
  pose proof (abs_le_inv _ _ (term_18 xM eM xMprime eMprime xF eF xOmega eOmega E0 dE m0M m1M m0Mprime m1Mprime m0F m1F m0Omega m1Omega BM BMprime BF BOmega HE0 HE1 HdE)) as T18. revert T18. lit. intro T18.
  pose proof (abs_le_inv _ _ (term_19 xM eM xMprime eMprime xF eF xOmega eOmega E0 dE m0M m1M m0Mprime m1Mprime m0F m1F m0Omega m1Omega BM BMprime BF BOmega HE0 HE1 HdE)) as T19. revert T19. lit. intro T19.
  pose proof (abs_le_inv _ _ (term_20 xM eM xMprime eMprime xF eF xOmega eOmega E0 dE m0M m1M m0Mprime m1Mprime m0F m1F m0Omega m1Omega BM BMprime BF BOmega HE0 HE1 HdE)) as T20. revert T20. lit. intro T20.
  pose proof (abs_le_inv _ _ (term_21 xM eM xMprime eMprime xF eF xOmega eOmega E0 dE m0M m1M m0Mprime m1Mprime m0F m1F m0Omega m1Omega BM BMprime BF BOmega HE0 HE1 HdE)) as T21. revert T21. lit. intro T21.
  pose proof (abs_le_inv _ _ (term_22 xM eM xMprime eMprime xF eF xOmega eOmega E0 dE m0M m1M m0Mprime m1Mprime m0F m1F m0Omega m1Omega BM BMprime BF BOmega HE0 HE1 HdE)) as T22. revert T22. lit. intro T22.
  pose proof (abs_le_inv _ _ (term_23 xM eM xMprime eMprime xF eF xOmega eOmega E0 dE m0M m1M m0Mprime m1Mprime m0F m1F m0Omega m1Omega BM BMprime BF BOmega HE0 HE1 HdE)) as T23. revert T23. lit. intro T23.
  pose proof (abs_le_inv _ _ (term_24 xM eM xMprime eMprime xF eF xOmega eOmega E0 dE m0M m1M m0Mprime m1Mprime m0F m1F m0Omega m1Omega BM BMprime BF BOmega HE0 HE1 HdE)) as T24. revert T24. lit. intro T24.
  unfold corr_step_bound. lit. apply abs_le. split; lra.
Qed.
Lemma w_amp k : win k -> Rabs (P.v_w_2 k - Rlit 306 (-5)) <= 1 / 1000.
Proof.
  intro W. pose proof (E_bounds k W) as HE. unfold P.v_w_2, P.v_w_1.
  generalize dependent (P.v_E_1 k). intros E0 HE.
  generalize (P.v_Mr_1 k); intro.
  generalize (P.v_Mprimer_1 k); intro.
  generalize (P.v_Fr_1 k); intro.
  generalize (P.v_Omegar_1 k); intro.
  unfold P.f_w_2, P.f_w_1. lit. apply abs_le. split; interval.
Qed.
(* consecutive results (index k and k+1, both in the window): one synodic month 29.530588861 d within 42 / 100 d *)
Theorem step k : win k -> win (k + 1) -> Rabs (P.v_jde_2 (k + 1) - P.v_jde_2 k - P.B) <= 42 / 100.
Proof.
  intros W0 W1.
  pose proof (abs_le_inv _ _ (corr_step k W0 W1)) as HC. pose proof (abs_le_inv _ _ (Q_step k W0)) as HQ.
  pose proof (abs_le_inv _ _ (corr2_amp k)) as H20. pose proof (abs_le_inv _ _ (corr2_amp (k + 1))) as H21.
  pose proof (abs_le_inv _ _ (w_amp k W0)) as HW0. pose proof (abs_le_inv _ _ (w_amp (k + 1) W1)) as HW1.
  assert (HS : P.v_jde_2 (k + 1) - P.v_jde_2 k - P.B = (P.f_Q (P.v_t_1 (k + 1)) - P.f_Q (P.v_t_1 k))
               + (P.v_corr_2 (k + 1) - P.v_corr_2 k) + (P.v_corr2_1 (k + 1) - P.v_corr2_1 k)
               + (P.v_w_2 (k + 1) - P.v_w_2 k)).
  { unfold P.v_jde_2, P.f_jde_2, P.v_jde_1, P.f_jde_1, P.f_Q, P.B. lit. ring. }
  rewrite HS. unfold corr_step_bound in HC. revert HC HW0 HW1. lit. intros HC HW0 HW1. apply abs_le. split; lra.
Qed.
Theorem step_days k : win k -> win (k + 1) -> 291 / 10 <= P.v_jde_2 (k + 1) - P.v_jde_2 k <= 300 / 10.
Proof.
  intros W0 W1. pose proof (abs_le_inv _ _ (step k W0 W1)) as H. unfold P.B in H. revert H. lit. intro H. lra.
Qed.
