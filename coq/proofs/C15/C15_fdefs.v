(* C15 -- lunar event finders: what is abstracted (hypotheses), the syntactic forms of the Angle lemmas
   used by the symbolic evaluation, and the timing consequences through Spec.MoonFinder. *)
From Coq Require Import Reals ZArith List Bool Lra Lia String.
From PyLib Require Import PyVal PyBuiltins Ideal.
From Spec Require Import MoonFinder.
From Gen Require Import M_base M_Angle M_Epoch.
From Proofs.C15 Require Import C15_angle.
Import ListNotations.
Open Scope R_scope.

(* the query: an Epoch whose calendar date (Epoch.get_date, not entered) is y-m-d, with leap flag lp
   (Epoch.is_leap) and day of the year doy (Epoch.get_doy); the finders form the fractional year
   y + doy / (365 or 366) from these *)
Definition date_is (j : R) (y m : Z) (d : R) : Prop :=
  Epoch_get_date Rops (VObj cEpoch [VFloat j]) (VDict []) = VTuple [VInt y; VInt m; VFloat d].
Definition leap_is (y : Z) (lp : bool) : Prop := Epoch_is_leap Rops (VInt y) = VBool lp.
Definition doy_is (y m : Z) (d doy : R) : Prop :=
  Epoch_get_doy Rops (VInt y) (VInt m) (VFloat d) = VFloat doy.
Definition frac_year (y : Z) (doy : R) (lp : bool) : R :=
  IZR y + doy / (if lp then Rlit 3660 (-1) else Rlit 3650 (-1)).
(* Epoch(x) at the end of every finder (not entered): E x is the JDE it stores *)
Definition Epoch_of (E : R -> R) : Prop :=
  forall x, Epoch___init__ Rops (VObj cEpoch [VNone]) (VTuple [VFloat x]) (VDict [])
            = VObj cEpoch [VFloat (E x)].
(* Angle(0, 0, p) (arcseconds; not entered): A p is the value in degrees it stores *)
Definition Angle_dms_of (A : R -> R) : Prop :=
  forall p, Angle___init__ Rops (VObj cAngle [VNone; VNone]) (VTuple [VInt 0; VInt 0; VFloat p]) (VDict [])
            = VObj cAngle [VFloat (A p); VFloat (Rlit 1 (-10))].
Definition angle_val (d : R) : val R := VObj cAngle [VFloat d; VFloat (Rlit 1 (-10))].
Definition scalar_arg (v : val R) : Prop :=
  match v with VNone | VBool _ | VInt _ | VFloat _ | VStr _ => True | _ => False end.
Definition nonstr_arg (v : val R) : Prop :=
  match v with VNone | VBool _ | VInt _ | VFloat _ => True | _ => False end.

(* Angle.reduce_deg / Angle(reduced) / to_positive as the evaluation meets them (proved in C15_angle
   for EVERY real x) *)
Lemma reduce_rd : forall x, Angle_reduce_deg Rops (VFloat x) = VFloat (rdeg x).
Proof. exact reduce_val. Qed.
Lemma new_rd : forall x,
  Angle___init__ Rops (VObj cAngle [VNone; VNone]) (VTuple [VFloat (rdeg x)]) (VDict [])
  = VObj cAngle [VFloat (rdeg x); VFloat (Rlit 1 (-10))].
Proof. intro x. pose proof (Angle_new (rdeg x)) as H. rewrite rdeg_idem in H. exact H. Qed.
Lemma pos_rd : forall x,
  Angle_to_positive Rops (VObj cAngle [VFloat (rdeg x); VFloat (Rlit 1 (-10))])
  = VTuple [VObj cAngle [VFloat (norm360 x); VFloat (Rlit 1 (-10))];
            VObj cAngle [VFloat (norm360 x); VFloat (Rlit 1 (-10))]].
Proof. exact to_positive_norm. Qed.

(* timing of a finder whose result, as a function of the (real) index k, is r k:
   |r k - (J0 + B k)| <= C while the epoch argument T = k / cc stays in [-41, 21], and 2C < B *)
Definition timing (J0 B cc C : R) (r : R -> R) : Prop :=
  2 * C < B /\ forall k, -41 <= k / cc <= 21 -> Rabs (r k - (J0 + B * k)) <= C.

Section Timing.
  Variables (J0 B cc C off : R) (r : R -> R).
  Hypothesis HT : timing J0 B cc C r.
  Let P (n : Z) : Prop := -41 <= (IZR n + off) / cc <= 21.
  Let rz (n : Z) : R := r (IZR n + off).
  Let J0' : R := J0.

  Lemma rz_dev n : P n -> Rabs (rz n - (J0 + B * (IZR n + off))) <= C.
  Proof. intro H. apply (proj2 HT). exact H. Qed.

  (* consecutive events: strictly later, one mean period apart within 2C *)
  Lemma timing_step n : P n -> P (n + 1)%Z ->
    rz n < rz (n + 1)%Z /\ Rabs (rz (n + 1)%Z - rz n - B) <= 2 * C.
  Proof. apply (lin_step J0 B off C rz P rz_dev (proj1 HT)). Qed.
  (* a later index gives a result at least B - 2C later; never backwards *)
  Lemma timing_order n1 n2 : P n1 -> P n2 -> (n1 < n2)%Z -> rz n1 + (B - 2 * C) <= rz n2.
  Proof. apply (lin_order J0 B off C rz P rz_dev (proj1 HT)). Qed.
  Lemma timing_monotone n1 n2 : P n1 -> P n2 -> (n1 <= n2)%Z -> rz n1 <= rz n2.
  Proof. apply (lin_monotone J0 B off C rz P rz_dev (proj1 HT)). Qed.
End Timing.
