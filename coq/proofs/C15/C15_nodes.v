(* C15: node and perigee longitudes are explicit polynomials in T (ideal instance) *)
From Coq Require Import Reals ZArith List Bool Lra Lia String.
From Interval Require Import Tactic.
From PyLib Require Import PyVal PyBuiltins Ideal Whnf PyEval.
From Gen Require Import M_base M_Angle M_Epoch M_Moon.
From Proofs.C15 Require Import C15_angle C15_tac.
Import ListNotations.
Open Scope R_scope.

Definition J2000 : Prop := g_JDE2000 Rops = epo 2451545.
Definition Tc (j : R) : R := (j - 2451545) / 36525.

(* hand-written: Meeus (47.7) and the mean perigee, Horner form *)
Definition node_poly (t : R) : R :=
  125.0445479 + (-1934.1362891 + (0.0020754 + (1 / 476441 - t / 60616000) * t) * t) * t.
Definition perigee_poly (t : R) : R :=
  83.3532465 + (4069.0137287 + (-0.01032 + (-1 / 80053 + t / 18999000) * t) * t) * t.

Lemma mean_node_closed j : J2000 ->
  Moon_longitude_mean_ascending_node Rops (epo j) = ang (norm360 (node_poly (Tc j))).
Proof.
  intro HJ. red in HJ. zrun.
  match goal with |- VObj _ [VFloat (norm360 ?a); _] = _ => replace a with (node_poly (Tc j)) end; [reflexivity|].
  unfold node_poly, Tc. Rlit_norm. lra.
Qed.

Lemma mean_perigee_closed j : J2000 ->
  Moon_longitude_mean_perigee Rops (epo j) = ang (rdeg (perigee_poly (Tc j))).
Proof.
  intro HJ. red in HJ. zrun.
  match goal with |- VObj _ [VFloat (rdeg ?a); _] = _ => replace a with (perigee_poly (Tc j)) end; [reflexivity|].
  unfold perigee_poly, Tc. Rlit_norm. lra.
Qed.

(* secular rates = linear coefficients; the rest is small on |T| <= 60 *)
Lemma node_rate t : -60 <= t <= 60 ->
  Rabs (node_poly t - (125.0445479 + -1934.1362891 * t)) <= 8.2.
Proof.
  intro H.
  replace (node_poly t - (125.0445479 + -1934.1362891 * t))
    with ((0.0020754 + (1 / 476441 - t / 60616000) * t) * t * t) by (unfold node_poly; lra).
  interval with (i_bisect t, i_depth 8).
Qed.
Lemma perigee_rate t : -60 <= t <= 60 ->
  Rabs (perigee_poly t - (83.3532465 + 4069.0137287 * t)) <= 40.6.
Proof.
  intro H.
  replace (perigee_poly t - (83.3532465 + 4069.0137287 * t))
    with ((-0.01032 + (-1 / 80053 + t / 18999000) * t) * t * t) by (unfold perigee_poly; lra).
  interval with (i_bisect t, i_depth 8).
Qed.
