(* Moon.moon_passage_nodes(epoch, 'descending') -- closed form of the regenerated model (ideal instance), deviation bound.
   Written by mkmoon.py from the source text (checked in); re-proved against the regenerated model every run. *)
From Coq Require Import Reals ZArith List Bool Lra Lia String.
From Interval Require Import Tactic.
From PyLib Require Import PyVal PyBuiltins Ideal Whnf PyEval.
From Spec Require Import MoonFinder.
From Gen Require Import M_base M_Angle M_Epoch M_Moon.
From Proofs.C15 Require Import C15_angle C15_tac2 C15_fdefs.
Import ListNotations.
Open Scope R_scope.
Open Scope string_scope.
Ltac2 Set Whnf.is_blocked as old := fun c =>
  Ltac2.Bool.or (old c) (Ltac2.List.exist (Ltac2.Constr.equal c)
    ['@Epoch_get_date; '@Epoch_is_leap; '@Epoch_get_doy; '@Angle_reduce_deg; '@Angle___init__;
     '@Angle_to_positive; '@Epoch___init__; '@ifv]).
Ltac lit_norm := repeat match goal with |- context [Rlit ?m ?e] =>
  let r := eval cbv -[IZR Rdiv Rmult Rinv Rplus Ropp] in (Rlit m e) in change (Rlit m e) with r end.

(* index from the fractional year yr, as the code computes it *)
Definition kk (yr : R) : R := Rround_nd ((yr - Rlit 200005 (-2)) * Rlit 134223 (-4)) 0 + Rlit 5 (-1).
Definition off : R := Rlit 5 (-1).
Definition J0 : R := Rlit 24515651619 (-4).
Definition B : R := Rlit 27212220817 (-9).
Definition cc : R := Rlit 134223 (-2).
(* every assignment along the path of target 'descending', as a function of the index k *)
Definition f_t_1 (xk : R) : R :=
  (xk / (Rlit 134223 (-2))).
Definition v_t_1 (k : R) : R := f_t_1 k.
Definition f_jde_1 (xk xt : R) : R :=
  (((Rlit 24515651619 (-4)) + ((Rlit 27212220817 (-9)) * xk)) + ((((Rlit 2762 (-7)) + (((Rlit 21 (-9)) - ((Rlit 88 (-12)) * xt)) * xt)) * xt) * xt)).
Definition v_jde_1 (k : R) : R := f_jde_1 k (v_t_1 k).
Definition f_D_1 (xk xt : R) : R :=
  (((Rlit 183638 (-3)) + ((Rlit 33173735682 (-8)) * xk)) + ((((Rlit 14852 (-7)) + (((Rlit 209 (-8)) - ((Rlit 1 (-8)) * xt)) * xt)) * xt) * xt)).
Definition v_D_1 (k : R) : R := f_D_1 k (v_t_1 k).
Definition f_M_1 (xk xt : R) : R :=
  (((Rlit 174006 (-4)) + ((Rlit 268203725 (-7)) * xk)) + ((((Rlit 1186 (-7)) + ((Rlit 6 (-8)) * xt)) * xt) * xt)).
Definition v_M_1 (k : R) : R := f_M_1 k (v_t_1 k).
Definition f_Mprime_1 (xk xt : R) : R :=
  (((Rlit 383776 (-4)) + ((Rlit 35552747313 (-8)) * xk)) + ((((Rlit 123499 (-7)) + (((Rlit 14627 (-9)) - ((Rlit 69 (-9)) * xt)) * xt)) * xt) * xt)).
Definition v_Mprime_1 (k : R) : R := f_Mprime_1 k (v_t_1 k).
Definition f_Omega_1 (xk xt : R) : R :=
  (((Rlit 1239767 (-4)) - ((Rlit 144098956 (-8)) * xk)) + ((((Rlit 20608 (-7)) + (((Rlit 214 (-8)) - ((Rlit 16 (-9)) * xt)) * xt)) * xt) * xt)).
Definition v_Omega_1 (k : R) : R := f_Omega_1 k (v_t_1 k).
Definition f_V_1 (xt : R) : R :=
  ((Rlit 29975 (-2)) + (((Rlit 13285 (-2)) - ((Rlit 9173 (-6)) * xt)) * xt)).
Definition v_V_1 (k : R) : R := f_V_1 (v_t_1 k).
Definition f_P_1 (xOmega xt : R) : R :=
  ((xOmega + (Rlit 27275 (-2))) - ((Rlit 23 (-1)) * xt)).
Definition v_P_1 (k : R) : R := f_P_1 (v_Omega_1 k) (v_t_1 k).
Definition v_Dr_1 (k : R) : R := norm360 (v_D_1 k) * (PI / 180).
Definition v_Mr_1 (k : R) : R := norm360 (v_M_1 k) * (PI / 180).
Definition v_Mprimer_1 (k : R) : R := norm360 (v_Mprime_1 k) * (PI / 180).
Definition v_Omegar_1 (k : R) : R := norm360 (v_Omega_1 k) * (PI / 180).
Definition v_Vr_1 (k : R) : R := norm360 (v_V_1 k) * (PI / 180).
Definition v_Pr_1 (k : R) : R := norm360 (v_P_1 k) * (PI / 180).
Definition f_E_1 (xt : R) : R :=
  ((Rlit 10 (-1)) + (((Rlit (-2516) (-6)) - ((Rlit 74 (-7)) * xt)) * xt)).
Definition v_E_1 (k : R) : R := f_E_1 (v_t_1 k).
Definition f_corr_1 (xMprimer xDr xE xMr xOmegar xVr xPr : R) : R :=
  (((((((((((((((((((((((Rlit (-4721) (-4)) * (sin xMprimer)) - ((Rlit 1649 (-4)) * (sin ((Rlit 20 (-1)) * xDr)))) - ((Rlit 868 (-4)) * (sin (((Rlit 20 (-1)) * xDr) - xMprimer)))) + ((Rlit 84 (-4)) * (sin (((Rlit 20 (-1)) * xDr) + xMprimer)))) - (((Rlit 83 (-4)) * xE) * (sin (((Rlit 20 (-1)) * xDr) - xMr)))) - (((Rlit 39 (-4)) * xE) * (sin ((((Rlit 20 (-1)) * xDr) - xMr) - xMprimer)))) + ((Rlit 34 (-4)) * (sin ((Rlit 20 (-1)) * xMprimer)))) - ((Rlit 31 (-4)) * (sin ((Rlit 20 (-1)) * (xDr - xMprimer))))) + (((Rlit 30 (-4)) * xE) * (sin (((Rlit 20 (-1)) * xDr) + xMr)))) + (((Rlit 28 (-4)) * xE) * (sin (xMr - xMprimer)))) + (((Rlit 26 (-4)) * xE) * (sin xMr))) + ((Rlit 25 (-4)) * (sin ((Rlit 40 (-1)) * xDr)))) + ((Rlit 24 (-4)) * (sin xDr))) + (((Rlit 22 (-4)) * xE) * (sin (xMr + xMprimer)))) + ((Rlit 17 (-4)) * (sin xOmegar))) + ((Rlit 14 (-4)) * (sin (((Rlit 40 (-1)) * xDr) - xMprimer)))) + (((Rlit 5 (-4)) * xE) * (sin ((((Rlit 20 (-1)) * xDr) + xMr) - xMprimer)))) + (((Rlit 4 (-4)) * xE) * (sin ((((Rlit 20 (-1)) * xDr) - xMr) + xMprimer)))) - (((Rlit 3 (-4)) * xE) * (sin ((Rlit 20 (-1)) * (xDr - xMr))))) + (((Rlit 3 (-4)) * xE) * (sin (((Rlit 40 (-1)) * xDr) - xMr)))) + ((Rlit 3 (-4)) * (sin xVr))) + ((Rlit 3 (-4)) * (sin xPr))).
Definition v_corr_1 (k : R) : R := f_corr_1 (v_Mprimer_1 k) (v_Dr_1 k) (v_E_1 k) (v_Mr_1 k) (v_Omegar_1 k) (v_Vr_1 k) (v_Pr_1 k).
Definition f_jde_2 (xjde xcorr : R) : R :=
  (xjde + xcorr).
Definition v_jde_2 (k : R) : R := f_jde_2 (v_jde_1 k) (v_corr_1 k).
Definition f_Q (xt : R) : R :=
  ((((Rlit 2762 (-7)) + (((Rlit 21 (-9)) - ((Rlit 88 (-12)) * xt)) * xt)) * xt) * xt).
Definition C : R := Rlit 1284 (-3).

(* deviation from the linear mean instant J0 + B k: the polynomial part Q(T) + the periodic terms *)
Lemma dev_split k : v_jde_2 k - (J0 + B * k) = f_Q (v_t_1 k) + (((v_corr_1 k))).
Proof. unfold v_jde_2, v_jde_1, f_jde_2, f_jde_1, f_Q, J0, B. ring. Qed.
Lemma dev_bound k : -41 <= k / cc <= 21 -> Rabs (v_jde_2 k - (J0 + B * k)) <= C.
Proof.
  intro Ht. rewrite dev_split.
  change (k / cc) with (v_t_1 k) in Ht.
  unfold v_corr_1, v_E_1, v_P_1, v_V_1, v_Omega_1, v_Mprime_1, v_M_1, v_D_1.
  generalize (v_Dr_1 k); intro.
  generalize (v_Mr_1 k); intro.
  generalize (v_Mprimer_1 k); intro.
  generalize (v_Omegar_1 k); intro.
  generalize (v_Vr_1 k); intro.
  generalize (v_Pr_1 k); intro.
  revert Ht. generalize (v_t_1 k). intros t Ht.
  unfold f_Q, f_corr_1, f_E_1, f_P_1, f_V_1, f_Omega_1, f_Mprime_1, f_M_1, f_D_1, C. lit_norm.
  interval with (i_bisect t, i_depth 6).
Qed.
Theorem timing_ok : timing J0 B cc C v_jde_2.
Proof. split; [unfold C, B; lit_norm; lra | exact dev_bound]. Qed.
Lemma kk_index yr : kk yr = IZR (Rround ((yr - Rlit 200005 (-2)) * Rlit 134223 (-4))) + off.
Proof. unfold kk, off. rewrite Rround_nd_0. reflexivity. Qed.

Definition closed_stmt : Prop :=
  forall (j : R) (y m : Z) (d doy : R) (lp : bool) (E A : R -> R),
  date_is j y m d -> leap_is y lp -> doy_is y m d doy -> Epoch_of E ->
  let yr := frac_year y doy lp in
  Moon_moon_passage_nodes Rops (VObj cEpoch [VFloat j]) (VStr "descending") =
  VObj cEpoch [VFloat (E (v_jde_2 (kk yr)))].
Theorem closed : closed_stmt.
Proof.
  unfold closed_stmt, date_is, leap_is, doy_is, Epoch_of.
  intros j y m d doy lp E A Hd Hl Hdoy HE.
  pose proof reduce_rd as HR. pose proof new_rd as HN. pose proof pos_rd as HP.
  unfold frac_year.
  destruct lp; (match goal with |- _ =>
    pyrun2;
    unfold angle_val, kk, v_jde_2, v_corr_1, v_E_1, v_Pr_1, v_Vr_1, v_Omegar_1, v_Mprimer_1, v_Mr_1, v_Dr_1, v_P_1, v_V_1, v_Omega_1, v_Mprime_1, v_M_1, v_D_1, v_jde_1, v_t_1, f_t_1, f_jde_1, f_D_1, f_M_1, f_Mprime_1, f_Omega_1, f_V_1, f_P_1, f_E_1, f_corr_1, f_jde_2;
    reflexivity end).
Qed.
Theorem ok : closed_stmt /\ timing J0 B cc C v_jde_2.
Proof. exact (conj closed timing_ok). Qed.
