(* Moon.moon_phase(epoch, 'full') -- closed form of the regenerated model (ideal instance), deviation bound.
   Written by mkmoon.py from the source text (checked in); re-proved against the regenerated model every run. *)
From Coq Require Import Reals ZArith List Bool Lra Lia String.
From Interval Require Import Tactic.
From PyLib Require Import PyVal PyBuiltins Ideal Whnf PyEval.
From Spec Require Import MoonFinder.
From Gen Require Import M_base M_Angle M_Epoch M_Moon.
From Proofs.C15 Require Import C15_angle C15_tac3 C15_fdefs.
Import ListNotations.
Open Scope R_scope.
Open Scope string_scope.
Ltac2 Set Whnf.is_blocked as old := fun c =>
  Ltac2.Bool.or (old c) (Ltac2.List.exist (Ltac2.Constr.equal c)
    ['@Epoch_get_date; '@Epoch_is_leap; '@Epoch_get_doy; '@Angle_reduce_deg; '@Angle___init__;
     '@Angle_to_positive; '@Epoch___init__]).
Ltac lit_norm := repeat match goal with |- context [Rlit ?m ?e] =>
  let r := eval cbv -[IZR Rdiv Rmult Rinv Rplus Ropp] in (Rlit m e) in change (Rlit m e) with r end.
(* values of the abstracted callees: the Angle lemmas of C15_fdefs (every real x), Epoch(x) from the hypothesis *)
Ltac pyrunv_hook s tac ::=
  lazymatch s with
  | Angle_reduce_deg Rops (VFloat ?x) => rewrite (reduce_rd x)
  | Angle___init__ Rops _ (VTuple [VFloat (rdeg ?x)]) (VDict []) => rewrite (new_rd x)
  | Angle_to_positive Rops (VObj cAngle [VFloat (rdeg ?x); _]) => rewrite (pos_rd x)
  | Epoch___init__ Rops _ (VTuple [VFloat ?x]) (VDict []) =>
      match goal with HE : forall x0 : R, Epoch___init__ Rops _ _ _ = _ |- _ => rewrite (HE x) end
  end.

(* index from the fractional year yr, as the code computes it *)
Definition kk (yr : R) : R := Rround_nd ((yr - Rlit 20000 (-1)) * Rlit 123685 (-4)) 0 + Rlit 5 (-1).
Definition off : R := Rlit 5 (-1).
Definition J0 : R := Rlit 245155009766 (-5).
Definition B : R := Rlit 29530588861 (-9).
Definition cc : R := Rlit 123685 (-2).
(* every assignment along the path of target 'full', as a function of the index k *)
Definition f_t_1 (xk : R) : R :=
  (xk / (Rlit 123685 (-2))).
Definition v_t_1 (k : R) : R := f_t_1 k.
Definition f_jde_1 (xk xt : R) : R :=
  (((Rlit 245155009766 (-5)) + ((Rlit 29530588861 (-9)) * xk)) + ((((Rlit 15437 (-8)) + (((Rlit (-15) (-8)) + ((Rlit 73 (-11)) * xt)) * xt)) * xt) * xt)).
Definition v_jde_1 (k : R) : R := f_jde_1 k (v_t_1 k).
Definition f_E_1 (xt : R) : R :=
  ((Rlit 10 (-1)) + (((Rlit (-2516) (-6)) - ((Rlit 74 (-7)) * xt)) * xt)).
Definition v_E_1 (k : R) : R := f_E_1 (v_t_1 k).
Definition f_M_1 (xk xt : R) : R :=
  (((Rlit 25534 (-4)) + ((Rlit 291053567 (-7)) * xk)) + ((((Rlit (-14) (-7)) - ((Rlit 11 (-8)) * xt)) * xt) * xt)).
Definition v_M_1 (k : R) : R := f_M_1 k (v_t_1 k).
Definition f_Mprime_1 (xk xt : R) : R :=
  (((Rlit 2015643 (-4)) + ((Rlit 38581693528 (-8)) * xk)) + ((((Rlit 107582 (-7)) + (((Rlit 1238 (-8)) - ((Rlit 58 (-9)) * xt)) * xt)) * xt) * xt)).
Definition v_Mprime_1 (k : R) : R := f_Mprime_1 k (v_t_1 k).
Definition f_F_1 (xk xt : R) : R :=
  (((Rlit 1607108 (-4)) + ((Rlit 39067050284 (-8)) * xk)) + ((((Rlit (-16118) (-7)) + (((Rlit (-227) (-8)) + ((Rlit 11 (-9)) * xt)) * xt)) * xt) * xt)).
Definition v_F_1 (k : R) : R := f_F_1 k (v_t_1 k).
Definition f_Omega_1 (xk xt : R) : R :=
  (((Rlit 1247746 (-4)) - ((Rlit 156375588 (-8)) * xk)) + ((((Rlit 20672 (-7)) + ((Rlit 215 (-8)) * xt)) * xt) * xt)).
Definition v_Omega_1 (k : R) : R := f_Omega_1 k (v_t_1 k).
Definition v_Mr_1 (k : R) : R := norm360 (v_M_1 k) * (PI / 180).
Definition v_Mprimer_1 (k : R) : R := norm360 (v_Mprime_1 k) * (PI / 180).
Definition v_Fr_1 (k : R) : R := norm360 (v_F_1 k) * (PI / 180).
Definition v_Omegar_1 (k : R) : R := norm360 (v_Omega_1 k) * (PI / 180).
Definition f_a1_1 (xk xt : R) : R :=
  (((Rlit 29977 (-2)) + ((Rlit 107408 (-6)) * xk)) - (((Rlit 9173 (-6)) * xt) * xt)).
Definition v_a1_1 (k : R) : R := f_a1_1 k (v_t_1 k).
Definition f_a2_1 (xk : R) : R :=
  ((Rlit 25188 (-2)) + ((Rlit 16321 (-6)) * xk)).
Definition v_a2_1 (k : R) : R := f_a2_1 k.
Definition f_a3_1 (xk : R) : R :=
  ((Rlit 25183 (-2)) + ((Rlit 26651886 (-6)) * xk)).
Definition v_a3_1 (k : R) : R := f_a3_1 k.
Definition f_a4_1 (xk : R) : R :=
  ((Rlit 34942 (-2)) + ((Rlit 36412478 (-6)) * xk)).
Definition v_a4_1 (k : R) : R := f_a4_1 k.
Definition f_a5_1 (xk : R) : R :=
  ((Rlit 8466 (-2)) + ((Rlit 18206239 (-6)) * xk)).
Definition v_a5_1 (k : R) : R := f_a5_1 k.
Definition f_a6_1 (xk : R) : R :=
  ((Rlit 14174 (-2)) + ((Rlit 53303771 (-6)) * xk)).
Definition v_a6_1 (k : R) : R := f_a6_1 k.
Definition f_a7_1 (xk : R) : R :=
  ((Rlit 20714 (-2)) + ((Rlit 2453732 (-6)) * xk)).
Definition v_a7_1 (k : R) : R := f_a7_1 k.
Definition f_a8_1 (xk : R) : R :=
  ((Rlit 15484 (-2)) + ((Rlit 730686 (-5)) * xk)).
Definition v_a8_1 (k : R) : R := f_a8_1 k.
Definition f_a9_1 (xk : R) : R :=
  ((Rlit 3452 (-2)) + ((Rlit 27261239 (-6)) * xk)).
Definition v_a9_1 (k : R) : R := f_a9_1 k.
Definition f_a10_1 (xk : R) : R :=
  ((Rlit 20719 (-2)) + ((Rlit 121824 (-6)) * xk)).
Definition v_a10_1 (k : R) : R := f_a10_1 k.
Definition f_a11_1 (xk : R) : R :=
  ((Rlit 29134 (-2)) + ((Rlit 1844379 (-6)) * xk)).
Definition v_a11_1 (k : R) : R := f_a11_1 k.
Definition f_a12_1 (xk : R) : R :=
  ((Rlit 16172 (-2)) + ((Rlit 24198154 (-6)) * xk)).
Definition v_a12_1 (k : R) : R := f_a12_1 k.
Definition f_a13_1 (xk : R) : R :=
  ((Rlit 23956 (-2)) + ((Rlit 25513099 (-6)) * xk)).
Definition v_a13_1 (k : R) : R := f_a13_1 k.
Definition f_a14_1 (xk : R) : R :=
  ((Rlit 33155 (-2)) + ((Rlit 3592518 (-6)) * xk)).
Definition v_a14_1 (k : R) : R := f_a14_1 k.
Definition v_a1r_1 (k : R) : R := norm360 (v_a1_1 k) * (PI / 180).
Definition v_a2r_1 (k : R) : R := norm360 (v_a2_1 k) * (PI / 180).
Definition v_a3r_1 (k : R) : R := norm360 (v_a3_1 k) * (PI / 180).
Definition v_a4r_1 (k : R) : R := norm360 (v_a4_1 k) * (PI / 180).
Definition v_a5r_1 (k : R) : R := norm360 (v_a5_1 k) * (PI / 180).
Definition v_a6r_1 (k : R) : R := norm360 (v_a6_1 k) * (PI / 180).
Definition v_a7r_1 (k : R) : R := norm360 (v_a7_1 k) * (PI / 180).
Definition v_a8r_1 (k : R) : R := norm360 (v_a8_1 k) * (PI / 180).
Definition v_a9r_1 (k : R) : R := norm360 (v_a9_1 k) * (PI / 180).
Definition v_a10r_1 (k : R) : R := norm360 (v_a10_1 k) * (PI / 180).
Definition v_a11r_1 (k : R) : R := norm360 (v_a11_1 k) * (PI / 180).
Definition v_a12r_1 (k : R) : R := norm360 (v_a12_1 k) * (PI / 180).
Definition v_a13r_1 (k : R) : R := norm360 (v_a13_1 k) * (PI / 180).
Definition v_a14r_1 (k : R) : R := norm360 (v_a14_1 k) * (PI / 180).
Definition f_corr_1 : R :=
  (Rlit 0 (-1)).
Definition v_corr_1 (k : R) : R := f_corr_1 .
Definition f_w_1 : R :=
  (Rlit 0 (-1)).
Definition v_w_1 (k : R) : R := f_w_1 .
Definition f_corr_2 (xMprimer xE xMr xFr xOmegar : R) : R :=
  ((((((((((((((((((((((((((Rlit (-40614) (-5)) * (sin xMprimer)) + (((Rlit 17302 (-5)) * xE) * (sin xMr))) + ((Rlit 1614 (-5)) * (sin ((Rlit 20 (-1)) * xMprimer)))) + ((Rlit 1043 (-5)) * (sin ((Rlit 20 (-1)) * xFr)))) + (((Rlit 734 (-5)) * xE) * (sin (xMprimer - xMr)))) - (((Rlit 515 (-5)) * xE) * (sin (xMprimer + xMr)))) + ((((Rlit 209 (-5)) * xE) * xE) * (sin ((Rlit 20 (-1)) * xMr)))) - ((Rlit 111 (-5)) * (sin (xMprimer - ((Rlit 20 (-1)) * xFr))))) - ((Rlit 57 (-5)) * (sin (xMprimer + ((Rlit 20 (-1)) * xFr))))) + (((Rlit 56 (-5)) * xE) * (sin (((Rlit 20 (-1)) * xMprimer) + xMr)))) - ((Rlit 42 (-5)) * (sin ((Rlit 30 (-1)) * xMprimer)))) + (((Rlit 42 (-5)) * xE) * (sin (xMr + ((Rlit 20 (-1)) * xFr))))) + (((Rlit 38 (-5)) * xE) * (sin (xMr - ((Rlit 20 (-1)) * xFr))))) - (((Rlit 24 (-5)) * xE) * (sin (((Rlit 20 (-1)) * xMprimer) - xMr)))) - ((Rlit 17 (-5)) * (sin xOmegar))) - ((Rlit 7 (-5)) * (sin (xMprimer + ((Rlit 20 (-1)) * xMr))))) + ((Rlit 4 (-5)) * (sin ((Rlit 20 (-1)) * (xMprimer - xFr))))) + ((Rlit 4 (-5)) * (sin ((Rlit 30 (-1)) * xMr)))) + ((Rlit 3 (-5)) * (sin ((xMprimer + xMr) - ((Rlit 20 (-1)) * xFr))))) + ((Rlit 3 (-5)) * (sin ((Rlit 20 (-1)) * (xMprimer + xFr))))) - ((Rlit 3 (-5)) * (sin ((xMprimer + xMr) + ((Rlit 20 (-1)) * xFr))))) + ((Rlit 3 (-5)) * (sin ((xMprimer - xMr) + ((Rlit 20 (-1)) * xFr))))) - ((Rlit 2 (-5)) * (sin ((xMprimer - xMr) - ((Rlit 20 (-1)) * xFr))))) - ((Rlit 2 (-5)) * (sin (((Rlit 30 (-1)) * xMprimer) + xMr)))) + ((Rlit 2 (-5)) * (sin ((Rlit 40 (-1)) * xMprimer)))).
Definition v_corr_2 (k : R) : R := f_corr_2 (v_Mprimer_1 k) (v_E_1 k) (v_Mr_1 k) (v_Fr_1 k) (v_Omegar_1 k).
Definition f_corr2_1 (xa1r xa2r xa3r xa4r xa5r xa6r xa7r xa8r xa9r xa10r xa11r xa12r xa13r xa14r : R) : R :=
  (((((((((((((((Rlit 325 (-6)) * (sin xa1r)) + ((Rlit 165 (-6)) * (sin xa2r))) + ((Rlit 164 (-6)) * (sin xa3r))) + ((Rlit 126 (-6)) * (sin xa4r))) + ((Rlit 110 (-6)) * (sin xa5r))) + ((Rlit 62 (-6)) * (sin xa6r))) + ((Rlit 60 (-6)) * (sin xa7r))) + ((Rlit 56 (-6)) * (sin xa8r))) + ((Rlit 47 (-6)) * (sin xa9r))) + ((Rlit 42 (-6)) * (sin xa10r))) + ((Rlit 40 (-6)) * (sin xa11r))) + ((Rlit 37 (-6)) * (sin xa12r))) + ((Rlit 35 (-6)) * (sin xa13r))) + ((Rlit 23 (-6)) * (sin xa14r))).
Definition v_corr2_1 (k : R) : R := f_corr2_1 (v_a1r_1 k) (v_a2r_1 k) (v_a3r_1 k) (v_a4r_1 k) (v_a5r_1 k) (v_a6r_1 k) (v_a7r_1 k) (v_a8r_1 k) (v_a9r_1 k) (v_a10r_1 k) (v_a11r_1 k) (v_a12r_1 k) (v_a13r_1 k) (v_a14r_1 k).
Definition f_jde_2 (xjde xcorr xcorr2 xw : R) : R :=
  (xjde + ((xcorr + xcorr2) + xw)).
Definition v_jde_2 (k : R) : R := f_jde_2 (v_jde_1 k) (v_corr_2 k) (v_corr2_1 k) (v_w_1 k).
Definition f_Q (xt : R) : R :=
  ((((Rlit 15437 (-8)) + (((Rlit (-15) (-8)) + ((Rlit 73 (-11)) * xt)) * xt)) * xt) * xt).
Definition C : R := Rlit 953 (-3).

(* deviation from the linear mean instant J0 + B k: the polynomial part Q(T) + the periodic terms *)
Lemma dev_split k : v_jde_2 k - (J0 + B * k) = f_Q (v_t_1 k) + (((((v_corr_2 k) + (v_corr2_1 k)) + (v_w_1 k)))).
Proof. unfold v_jde_2, v_jde_1, f_jde_2, f_jde_1, f_Q, J0, B. ring. Qed.
Lemma dev_bound k : -41 <= k / cc <= 21 -> Rabs (v_jde_2 k - (J0 + B * k)) <= C.
Proof.
  intro Ht. rewrite dev_split.
  change (k / cc) with (v_t_1 k) in Ht.
  unfold v_corr2_1, v_corr_2, v_w_1, v_corr_1, v_a14_1, v_a13_1, v_a12_1, v_a11_1, v_a10_1, v_a9_1, v_a8_1, v_a7_1, v_a6_1, v_a5_1, v_a4_1, v_a3_1, v_a2_1, v_a1_1, v_Omega_1, v_F_1, v_Mprime_1, v_M_1, v_E_1.
  generalize (v_Mr_1 k); intro.
  generalize (v_Mprimer_1 k); intro.
  generalize (v_Fr_1 k); intro.
  generalize (v_Omegar_1 k); intro.
  generalize (v_a1r_1 k); intro.
  generalize (v_a2r_1 k); intro.
  generalize (v_a3r_1 k); intro.
  generalize (v_a4r_1 k); intro.
  generalize (v_a5r_1 k); intro.
  generalize (v_a6r_1 k); intro.
  generalize (v_a7r_1 k); intro.
  generalize (v_a8r_1 k); intro.
  generalize (v_a9r_1 k); intro.
  generalize (v_a10r_1 k); intro.
  generalize (v_a11r_1 k); intro.
  generalize (v_a12r_1 k); intro.
  generalize (v_a13r_1 k); intro.
  generalize (v_a14r_1 k); intro.
  revert Ht. generalize (v_t_1 k). intros t Ht.
  unfold f_Q, f_corr2_1, f_corr_2, f_w_1, f_corr_1, f_a14_1, f_a13_1, f_a12_1, f_a11_1, f_a10_1, f_a9_1, f_a8_1, f_a7_1, f_a6_1, f_a5_1, f_a4_1, f_a3_1, f_a2_1, f_a1_1, f_Omega_1, f_F_1, f_Mprime_1, f_M_1, f_E_1, C. lit_norm.
  interval with (i_bisect t, i_depth 6).
Qed.
Theorem timing_ok : timing J0 B cc C v_jde_2.
Proof. split; [unfold C, B; lit_norm; lra | exact dev_bound]. Qed.
Lemma kk_index yr : kk yr = IZR (Rround ((yr - Rlit 20000 (-1)) * Rlit 123685 (-4))) + off.
Proof. unfold kk, off. rewrite Rround_nd_0. reflexivity. Qed.

Definition closed_stmt : Prop :=
  forall (j : R) (y m : Z) (d doy : R) (lp : bool) (E A : R -> R),
  date_is j y m d -> leap_is y lp -> doy_is y m d doy -> Epoch_of E ->
  let yr := frac_year y doy lp in
  Moon_moon_phase Rops (VObj cEpoch [VFloat j]) (VStr "full") =
  VObj cEpoch [VFloat (E (v_jde_2 (kk yr)))].
Theorem closed : closed_stmt.
Proof.
  unfold closed_stmt, date_is, leap_is, doy_is, Epoch_of.
  intros j y m d doy lp E A Hd Hl Hdoy HE.
  unfold frac_year.
  pyrunL_using ltac:(first [pylra | (destruct lp; pylra)]).
  subst.
  unfold angle_val, kk, v_jde_2, v_corr2_1, v_corr_2, v_w_1, v_corr_1, v_a14r_1, v_a13r_1, v_a12r_1, v_a11r_1, v_a10r_1, v_a9r_1, v_a8r_1, v_a7r_1, v_a6r_1, v_a5r_1, v_a4r_1, v_a3r_1, v_a2r_1, v_a1r_1, v_a14_1, v_a13_1, v_a12_1, v_a11_1, v_a10_1, v_a9_1, v_a8_1, v_a7_1, v_a6_1, v_a5_1, v_a4_1, v_a3_1, v_a2_1, v_a1_1, v_Omegar_1, v_Fr_1, v_Mprimer_1, v_Mr_1, v_Omega_1, v_F_1, v_Mprime_1, v_M_1, v_E_1, v_jde_1, v_t_1, f_t_1, f_jde_1, f_E_1, f_M_1, f_Mprime_1, f_F_1, f_Omega_1, f_a1_1, f_a2_1, f_a3_1, f_a4_1, f_a5_1, f_a6_1, f_a7_1, f_a8_1, f_a9_1, f_a10_1, f_a11_1, f_a12_1, f_a13_1, f_a14_1, f_corr_1, f_w_1, f_corr_2, f_corr2_1, f_jde_2.
  reflexivity.
Qed.
Theorem ok : closed_stmt /\ timing J0 B cc C v_jde_2.
Proof. exact (conj closed timing_ok). Qed.
