#!/venv/bin/python
"""mkdiff.py -- writes C15_d_moon_phase_<target>.v (4 targets): the difference of consecutive results of
Moon.moon_phase, bounded term by term:  |c E'^p sin(th') - c E^p sin(th)| <= |c| Emax^p 2|sin((th'-th)/2)| + |c| eps_p,
th' - th known from the per-lunation advance of M, M', F, Omega.  Uses the definitions of C15_p_moon_phase_<target>.v
(written by mkphase.py).  Run once by the author; the output is checked in."""
import ast, os, sys, math
from fractions import Fraction
import importlib.util
HERE = os.path.dirname(os.path.abspath(__file__))
REPO = sys.argv[1] if len(sys.argv) > 1 else "/repo"
spec = importlib.util.spec_from_file_location("mkphase", os.path.join(HERE, "mkphase.py"))
sys.argv = [sys.argv[0], REPO]
mk = importlib.util.module_from_spec(spec); spec.loader.exec_module(mk)

ANG = ["M", "Mprime", "F", "Omega"]              # degrees polynomials v_<X>_1, radians v_<X>r_1
RATE = {}                                          # filled from the source: coefficient of k
EMAX = Fraction(10908, 10000)                      # E <= 1.0908 on -41 <= T <= 21
EPS_E = Fraction(1, 10000)                         # |E(k+1) - E(k)|
EPS_A = Fraction(1, 100)                           # |X(k+1) - X(k) - rate|  (degrees)


class G(mk.Gen):
    def define(self, pyname, node, extra=None):
        if pyname == "corr" and not isinstance(node, ast.Constant) and mk.Gen.const(self, node) is None:
            self.corr_node = node
        if pyname in ANG and not hasattr(self, "ang_" + pyname):
            setattr(self, "ang_" + pyname, node)
        if pyname == "E" and not hasattr(self, "E_node"):
            self.E_node = node
        if pyname in ANG and pyname not in RATE:
            # (c0 + rate * k) + q(t)
            lin = node.left
            r = lin.right
            c = self.const(r.left)
            sign = -1 if isinstance(lin.op, ast.Sub) else 1
            RATE[pyname] = (c[0] * sign, c[1], c[2] * sign)
        return mk.Gen.define(self, pyname, node, extra)


def split_terms(n, sign=1, out=None):
    if out is None: out = []
    if isinstance(n, ast.BinOp) and isinstance(n.op, (ast.Add, ast.Sub)):
        split_terms(n.left, sign, out)
        split_terms(n.right, sign * (1 if isinstance(n.op, ast.Add) else -1), out)
    else:
        out.append((sign, n))
    return out


def factor(g, n):
    """term = product of a float literal, E factors and one sin(arg): returns (cfrac, p, argnode)"""
    c = Fraction(1); p = 0; arg = None
    def walk(m):
        nonlocal c, p, arg
        k = g.const(m)
        if k is not None: c *= k[2]; return
        if isinstance(m, ast.BinOp) and isinstance(m.op, ast.Mult): walk(m.left); walk(m.right); return
        if isinstance(m, ast.Name) and m.id == "E": p += 1; return
        if isinstance(m, ast.Call) and m.func.id == "sin": arg = m.args[0]; return
        raise mk.Bad("factor " + ast.dump(m)[:60])
    walk(n)
    return c, p, arg


def linform(g, n):
    """integer coefficients of the radians names in a linear argument expression"""
    k = g.const(n)
    if k is not None: return ("c", k[2])
    if isinstance(n, ast.Name): return {n.id: Fraction(1)}
    if isinstance(n, ast.BinOp):
        a, b = linform(g, n.left), linform(g, n.right)
        if isinstance(n.op, (ast.Add, ast.Sub)):
            s = 1 if isinstance(n.op, ast.Add) else -1
            r = dict(a)
            for x, v in b.items(): r[x] = r.get(x, 0) + s * v
            return r
        if isinstance(n.op, ast.Mult):
            if isinstance(a, tuple): return {x: a[1] * v for x, v in b.items()}
            if isinstance(b, tuple): return {x: b[1] * v for x, v in a.items()}
    raise mk.Bad("linform")


def frl(c):
    e = 0
    while (c * 10 ** e).denominator != 1: e += 1
    return mk.rlit(int(c * 10 ** e), -e)


def up(x, places=6):
    q = 10 ** places
    n = -((-x.numerator * q) // x.denominator)
    return Fraction(n, q)


def rl(fr, places=6):
    n = fr * 10 ** places
    assert n.denominator == 1
    return mk.rlit(int(n), -places)


def emit(src, fnode, target):
    g = G(src, "moon_phase", target)
    g.run(fnode.body)
    P = "C15_p_moon_phase_%s" % target
    L = []; w = L.append
    w("(* Moon.moon_phase(epoch, %r): consecutive results (index k -> k+1) differ by one synodic month within the" % target)
    w("   term-by-term difference bound.  Written by mkdiff.py from the source text; uses the closed form of %s.v. *)" % P)
    w("From Coq Require Import Reals ZArith List Bool Lra Lia.")
    w("From Interval Require Import Tactic.")
    w("From PyLib Require Import PyVal PyBuiltins Ideal.")
    w("From Spec Require Import MoonFinder.")
    w("From Proofs.C15 Require Import C15_angle C15_fdefs C15_diff.")
    w("From Proofs.C15 Require %s." % P)
    w("Open Scope R_scope.")
    w("Module P := %s." % P)
    w("Ltac lit := repeat match goal with |- context [Rlit ?m ?e] =>")
    w("  let r := eval cbv -[IZR Rdiv Rmult Rinv Rplus Ropp] in (Rlit m e) in change (Rlit m e) with r end.")
    w("Ltac lit_in H := repeat match type of H with context [Rlit ?m ?e] =>")
    w("  let r := eval cbv -[IZR Rdiv Rmult Rinv Rplus Ropp] in (Rlit m e) in change (Rlit m e) with r in H end.")
    w("")
    radn = {"Mr": "M", "Mprimer": "Mprime", "Fr": "F", "Omegar": "Omega"}
    # variables of the term lemmas
    vars_ = " ".join("x%s e%s" % (a, a) for a in ANG)
    ms = " ".join("m0%s m1%s" % (a, a) for a in ANG)
    def xr(a, which):
        if which == 0: return "(x%s * (PI / 180) + 2 * IZR m0%s * PI)" % (a, a)
        return "((x%s + %s + e%s) * (PI / 180) + 2 * IZR m1%s * PI)" % (a, mk.rlit(RATE[a][0], RATE[a][1]), a, a)
    names0 = {py: xr(a, 0) for py, a in radn.items()}; names0["E"] = "E0"
    names1 = {py: xr(a, 1) for py, a in radn.items()}; names1["E"] = "(E0 + dE)"
    hyps = " -> ".join("Rabs e%s <= %s" % (a, "1 / 100") for a in ANG)
    terms = split_terms(g.corr_node)
    total = Fraction(0)
    tl = []
    for i, (sg, tn) in enumerate(terms):
        c, p, arg = factor(g, tn)
        lf = linform(g, arg)
        nvec = {radn[x]: v for x, v in lf.items()}
        for v in nvec.values(): assert v.denominator == 1
        # numeric bound of |sin(sum n (rate+e) pi/360)|
        smax = 0.0
        import itertools
        for es in itertools.product([-1, 1], repeat=len(nvec)):
            a = sum(float(n) * (float(RATE[x][2]) + e * float(EPS_A)) for (x, n), e in zip(nvec.items(), es)) * math.pi / 360
            smax = max(smax, abs(math.sin(a)))
        # the extremes of |sin| over the tiny box are at corners unless it crosses a peak; add a safety margin
        s = up(Fraction(smax).limit_denominator(10**9) + Fraction(2, 10**4), 6)
        if s > 1: s = Fraction(1)
        amax = up(abs(c) * EMAX ** p, 8)
        eps = up(abs(c) * (0 if p == 0 else EPS_E if p == 1 else EPS_E * (2 * EMAX + EPS_E)), 9)
        b = up(amax * 2 * s + eps, 7)
        total += b
        t0 = g.coq(tn, dict(names0)); t1 = g.coq(tn, dict(names1))
        a0 = g.coq(arg, dict(names0)); a1 = g.coq(arg, dict(names1))
        A = " + ".join("IZR (%d) * (%s + e%s)" % (int(n), mk.rlit(RATE[x][0], RATE[x][1]), x) for x, n in nvec.items())
        M = " + ".join("(%d) * (m1%s - m0%s)" % (int(n), x, x) for x, n in nvec.items())
        w("Lemma term_%d (%s E0 dE : R) (%s : Z) :" % (i, vars_, ms))
        w("  %s -> %s <= E0 <= %s -> %s <= E0 + dE <= %s -> Rabs dE <= %s ->" % (hyps, "8 / 10", "10908 / 10000", "8 / 10", "10908 / 10000", "1 / 10000"))
        w("  Rabs (%s - %s) <= %s." % (t1, t0, rl(b, 7)))
        w("Proof.")
        w("  intros %s HE0 HE1 HdE." % " ".join("H%s" % a for a in ANG))
        for a in ANG: w("  apply abs_le_inv in H%s." % a)
        w("  apply abs_le_inv in HdE.")
        w("  eapply Rle_trans; [ eapply (term_bound _ _ _ _ (%s) (%s) (%s)) | lit; lra ]." % (rl(amax, 8), rl(eps, 9), rl(s, 6)))
        if p == 0:
            w("  - lit. apply abs_le. lra.")
            w("  - lit. apply abs_le. lra.")
        elif p == 1:
            w("  - lit. apply abs_le. split; nra.")
            w("  - lit. apply abs_le. split; nra.")
        else:
            w("  - remember (E0 + dE) as E1 eqn:HE1e. lit. apply abs_le. split; interval.")
            w("  - match goal with |- Rabs ?z <= _ => replace z with (%s * (dE * (2 * E0 + dE))) by (lit; ring) end." % frl(c))
            w("    lit. apply abs_le. split; interval.")
        w("  - replace ((%s - %s) / 2) with ((%s) * (PI / 360) + IZR (%s) * PI)" % (a1, a0, A, M))
        w("      by (rewrite ?plus_IZR, ?mult_IZR, ?minus_IZR, ?opp_IZR; lit; field).")
        w("    rewrite abs_sin_shift. lit. apply abs_le. split; interval.")
        w("  - lit. lra.")
        w("Qed.")
        tl.append((i, sg, b))
    w("")
    w("Definition corr_step_bound : R := %s." % rl(up(total, 6), 6))
    w("Definition win (k : R) : Prop := -41 <= k / P.cc <= 21.")
    w("Lemma t_succ k : P.v_t_1 (k + 1) = P.v_t_1 k + 1 / P.cc.")
    w("Proof. unfold P.v_t_1, P.f_t_1, P.cc. lit. field. Qed.")
    # (a) advance of the four angles per lunation
    for a in ANG:
        node = getattr(g, "ang_" + a)
        q1 = g.coq(node.right, {"t": "(t + 1 / P.cc)"}); q0 = g.coq(node.right, {"t": "t"})
        rate = mk.rlit(RATE[a][0], RATE[a][1])
        w("Lemma d_%s k : win k -> exists e, Rabs e <= 1 / 100 /\\ P.v_%s_1 (k + 1) = P.v_%s_1 k + %s + e." % (a, a, a, rate))
        w("Proof.")
        w("  intro W. exists (P.v_%s_1 (k + 1) - P.v_%s_1 k - %s). split; [|ring]." % (a, a, rate))
        w("  unfold P.v_%s_1. rewrite t_succ. unfold win in W. change (k / P.cc) with (P.v_t_1 k) in W." % a)
        w("  revert W. generalize (P.v_t_1 k). intros t W. unfold P.f_%s_1." % a)
        w("  match goal with |- Rabs ?z <= _ => replace z with (%s - %s) by (unfold P.cc; lit; first [ring | field]) end." % (q1, q0))
        w("  unfold P.cc. lit. apply abs_le. split; interval with (i_bisect t, i_taylor t).")
        w("Qed.")
    e1 = g.coq(g.E_node, {"t": "(t + 1 / P.cc)"}); e0 = g.coq(g.E_node, {"t": "t"})
    w("Lemma E_bounds k : win k -> 8 / 10 <= P.v_E_1 k <= 10908 / 10000.")
    w("Proof.")
    w("  intro W. unfold P.v_E_1. unfold win in W. change (k / P.cc) with (P.v_t_1 k) in W.")
    w("  revert W. generalize (P.v_t_1 k). intros t W. unfold P.f_E_1. lit. split; interval with (i_bisect t).")
    w("Qed.")
    w("Lemma E_step k : win k -> Rabs (P.v_E_1 (k + 1) - P.v_E_1 k) <= 1 / 10000.")
    w("Proof.")
    w("  intro W. unfold P.v_E_1. rewrite t_succ. unfold win in W. change (k / P.cc) with (P.v_t_1 k) in W.")
    w("  revert W. generalize (P.v_t_1 k). intros t W. unfold P.f_E_1, P.cc. lit. apply abs_le. split; interval with (i_bisect t, i_taylor t).")
    w("Qed.")
    q1 = g.coq(g.Q, {"t": "(t + 1 / P.cc)"}); q0 = g.coq(g.Q, {"t": "t"})
    w("Lemma Q_step k : win k -> Rabs (P.f_Q (P.v_t_1 (k + 1)) - P.f_Q (P.v_t_1 k)) <= 1 / 10000.")
    w("Proof.")
    w("  intro W. rewrite t_succ. unfold win in W. change (k / P.cc) with (P.v_t_1 k) in W.")
    w("  revert W. generalize (P.v_t_1 k). intros t W. unfold P.f_Q, P.cc. lit. apply abs_le. split; interval with (i_bisect t, i_taylor t).")
    w("Qed.")
    # (d) planetary terms: amplitude only
    w("Lemma corr2_amp k : Rabs (P.v_corr2_1 k) <= 13 / 10000.")
    w("Proof.")
    w("  unfold P.v_corr2_1.")
    for i in range(1, 15): w("  generalize (P.v_a%dr_1 k); intro." % i)
    w("  unfold P.f_corr2_1. lit. apply abs_le. split; interval.")
    w("Qed.")
    # (c) the periodic sum
    w("Lemma corr_step k : win k -> win (k + 1) -> Rabs (P.v_corr_2 (k + 1) - P.v_corr_2 k) <= corr_step_bound.")
    w("Proof.")
    w("  intros W0 W1.")
    for a in ANG: w("  destruct (d_%s k W0) as [e%s [B%s E%s]]." % (a, a, a, a))
    w("  pose proof (E_bounds k W0) as HE0. pose proof (E_bounds (k + 1) W1) as HE1. pose proof (E_step k W0) as HdE.")
    w("  unfold P.v_corr_2, P.v_Mr_1, P.v_Mprimer_1, P.v_Fr_1, P.v_Omegar_1.")
    for a in ANG:
        w("  destruct (norm_rad (P.v_%s_1 (k + 1))) as [m1%s N1%s]. destruct (norm_rad (P.v_%s_1 k)) as [m0%s N0%s]." % (a, a, a, a, a, a))
        w("  rewrite N1%s, N0%s. clear N1%s N0%s. rewrite E%s. clear E%s." % (a, a, a, a, a, a))
        w("  generalize dependent (P.v_%s_1 k). intros x%s." % (a, a))
    w("  replace (P.v_E_1 (k + 1)) with (P.v_E_1 k + (P.v_E_1 (k + 1) - P.v_E_1 k)) in * by ring.")
    w("  generalize dependent (P.v_E_1 (k + 1) - P.v_E_1 k). intros dE.")
    w("  generalize dependent (P.v_E_1 k). intros E0. intros.")
    w("  replace (E0 + dE - E0) with dE in HdE by ring.")
    w("  unfold P.f_corr_2.")
    args = " ".join("x%s e%s" % (a, a) for a in ANG) + " E0 dE " + " ".join("m0%s m1%s" % (a, a) for a in ANG)
    hy = " ".join("B%s" % a for a in ANG) + " HE0 HE1 HdE"
    for i, sg, b in tl:
        w("  pose proof (abs_le_inv _ _ (term_%d %s %s)) as T%d. revert T%d. lit. intro T%d." % (i, args, hy, i, i, i))
    w("  unfold corr_step_bound. lit. apply abs_le. split; lra.")
    w("Qed.")
    # (e) the W correction of the quarters (0 for new / full): constant + small cosine terms, amplitude only
    wname = g.env["w"][1]
    nw = g.ver["w"]
    w0 = {"new": 0, "full": 0, "first": 306, "last": -306}[target]
    w("Lemma w_amp k : win k -> Rabs (P.%s k - %s) <= 1 / 1000." % (wname, mk.rlit(w0, -5)))
    w("Proof.")
    w("  intro W. pose proof (E_bounds k W) as HE. unfold %s." % ", ".join("P.v_w_%d" % i for i in range(nw, 0, -1)))
    w("  generalize dependent (P.v_E_1 k). intros E0 HE.")
    for r_ in ("Mr", "Mprimer", "Fr", "Omegar"): w("  generalize (P.v_%s_1 k); intro." % r_)
    w("  unfold %s. lit. apply abs_le. split; interval." % ", ".join("P.f_w_%d" % i for i in range(nw, 0, -1)))
    w("Qed.")
    # (f) the step of the result
    tot = {"new": ("33 / 100", "292 / 10", "299 / 10"), "full": ("33 / 100", "292 / 10", "299 / 10"),
           "first": ("42 / 100", "291 / 10", "300 / 10"), "last": ("42 / 100", "291 / 10", "300 / 10")}[target]
    w("(* consecutive results (index k and k+1, both in the window): one synodic month 29.530588861 d within %s d *)" % tot[0])
    w("Theorem step k : win k -> win (k + 1) -> Rabs (P.v_jde_2 (k + 1) - P.v_jde_2 k - P.B) <= %s." % tot[0])
    w("Proof.")
    w("  intros W0 W1.")
    w("  pose proof (abs_le_inv _ _ (corr_step k W0 W1)) as HC. pose proof (abs_le_inv _ _ (Q_step k W0)) as HQ.")
    w("  pose proof (abs_le_inv _ _ (corr2_amp k)) as H20. pose proof (abs_le_inv _ _ (corr2_amp (k + 1))) as H21.")
    w("  pose proof (abs_le_inv _ _ (w_amp k W0)) as HW0. pose proof (abs_le_inv _ _ (w_amp (k + 1) W1)) as HW1.")
    w("  assert (HS : P.v_jde_2 (k + 1) - P.v_jde_2 k - P.B = (P.f_Q (P.v_t_1 (k + 1)) - P.f_Q (P.v_t_1 k))")
    w("               + (P.v_corr_2 (k + 1) - P.v_corr_2 k) + (P.v_corr2_1 (k + 1) - P.v_corr2_1 k)")
    w("               + (P.%s (k + 1) - P.%s k))." % (wname, wname))
    w("  { unfold P.v_jde_2, P.f_jde_2, P.v_jde_1, P.f_jde_1, P.f_Q, P.B. lit. ring. }")
    w("  rewrite HS. unfold corr_step_bound in HC. revert HC HW0 HW1. lit. intros HC HW0 HW1. apply abs_le. split; lra.")
    w("Qed.")
    w("Theorem step_days k : win k -> win (k + 1) -> %s <= P.v_jde_2 (k + 1) - P.v_jde_2 k <= %s." % (tot[1], tot[2]))
    w("Proof.")
    w("  intros W0 W1. pose proof (abs_le_inv _ _ (step k W0 W1)) as H. unfold P.B in H. revert H. lit. intro H. lra.")
    w("Qed.")
    json_out = {"target": target, "corr_step_bound": float(up(total, 6)), "terms": len(terms)}
    open(os.path.join(HERE, "C15_d_moon_phase_%s.v" % target), "w").write("\n".join(L) + "\n")
    return json_out


if __name__ == "__main__":
    src = open(os.path.join(REPO, "pymeeus", "Moon.py")).read()
    tree = ast.parse(src)
    cls = [n for n in tree.body if isinstance(n, ast.ClassDef) and n.name == "Moon"][0]
    fnode = [n for n in cls.body if isinstance(n, ast.FunctionDef) and n.name == "moon_phase"][0]
    for t in ("new", "full", "first", "last"):
        print(emit(src, fnode, t))
