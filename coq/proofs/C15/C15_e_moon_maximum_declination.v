(* Moon.moon_maximum_declination -- refusals: TypeError for a non-Epoch / non-string argument, ValueError for a string that is
   not one of its targets (checked before the date is looked at).  Written by mkmoon.py. *)
From Coq Require Import Reals ZArith List Bool Lra Lia String.
From Interval Require Import Tactic.
From PyLib Require Import PyVal PyBuiltins Ideal Whnf PyEval.
From Spec Require Import MoonFinder.
From Gen Require Import M_base M_Angle M_Epoch M_Moon.
From Proofs.C15 Require Import C15_angle C15_tac2 C15_fdefs.
Import ListNotations.
Open Scope R_scope.
Open Scope string_scope.
Ltac2 Set Whnf.is_blocked as old := fun c =>
  Ltac2.Bool.or (old c) (Ltac2.List.exist (Ltac2.Constr.equal c)
    ['@Epoch_get_date; '@Epoch_is_leap; '@Epoch_get_doy; '@Angle_reduce_deg; '@Angle___init__;
     '@Angle_to_positive; '@Epoch___init__; '@ifv]).
Ltac lit_norm := repeat match goal with |- context [Rlit ?m ?e] =>
  let r := eval cbv -[IZR Rdiv Rmult Rinv Rplus Ropp] in (Rlit m e) in change (Rlit m e) with r end.

Lemma bad_epoch v s : scalar_arg v -> Moon_moon_maximum_declination Rops v (VStr s) = VErr TypeError.
Proof. destruct v; simpl; intro H; try contradiction; (match goal with |- _ => pyrun2; reflexivity end). Qed.
Lemma bad_target_type j v : nonstr_arg v -> Moon_moon_maximum_declination Rops (VObj cEpoch [VFloat j]) v = VErr TypeError.
Proof. destruct v; simpl; intro H; try contradiction; (match goal with |- _ => pyrun2; reflexivity end). Qed.
Definition bad_strings : list string := [""; "New"; "NEW"; "half"; "none"; "newer"; "new"; "first"; "full"; "last"].
Lemma bad_target_value j s : In s bad_strings -> Moon_moon_maximum_declination Rops (VObj cEpoch [VFloat j]) (VStr s) = VErr ValueError.
Proof.
  unfold bad_strings. simpl. intro H.
  repeat (destruct H as [<- | H]; [pyrun2; reflexivity |]). contradiction.
Qed.
Theorem refusals :
  (forall v s, scalar_arg v -> Moon_moon_maximum_declination Rops v (VStr s) = VErr TypeError) /\
  (forall j v, nonstr_arg v -> Moon_moon_maximum_declination Rops (VObj cEpoch [VFloat j]) v = VErr TypeError) /\
  (forall j s, In s bad_strings -> Moon_moon_maximum_declination Rops (VObj cEpoch [VFloat j]) (VStr s) = VErr ValueError).
Proof. exact (conj bad_epoch (conj bad_target_type bad_target_value)). Qed.
