(* Property C15 -- Moon.moon_phase, statements (file 3): closed form of the regenerated code for the four targets
   (every coefficient written out in C15_p_moon_phase_<target>.v, written by mkphase.py from the source text and
   re-proved against the regenerated model every run) and the consequences for the order of the phases.

   closed_stmt: for a query Epoch whose calendar date / leap flag / day of year (Epoch.get_date, is_leap, get_doy:
   abstracted, C01/C16 are about them) are y-m-d, lp, doy:  decimal year yr = y + doy / (366 if lp else 365);
   k = round((yr - 2000) * 12.3685, 0) + (0 | 0.25 | 0.5 | 0.75);  T = k / 1236.85;  mean phase, E, M, M', F, Omega
   polynomials, the 14 planetary arguments, the periodic sum of the target (25 terms), the W correction of the
   quarters (sign flipped for "last"), the 14 additional terms;  result = Epoch(JDE) of that sum (Epoch(x) abstracted).
   timing: |JDE(k) - (J0 + B k)| <= C for -41 <= T <= 21 and 2C < B. *)
From Coq Require Import Reals ZArith List Bool Lra String.
From PyLib Require Import PyVal PyBuiltins Ideal.
From Spec Require Import MoonFinder.
From Gen Require Import M_base M_Angle M_Epoch M_Moon.
From Proofs.C15 Require Import C15_angle C15_fdefs.
From Proofs.C15 Require C15_p_moon_phase_new C15_p_moon_phase_first C15_p_moon_phase_full C15_p_moon_phase_last.
From Proofs.C15 Require Import C15_phase.
From Proofs.C15 Require C15_d_moon_phase_new C15_d_moon_phase_full C15_d_moon_phase_first C15_d_moon_phase_last.
Import ListNotations.
Open Scope R_scope.

Theorem C15_moon_phase_new : C15_p_moon_phase_new.closed_stmt /\
  timing C15_p_moon_phase_new.J0 C15_p_moon_phase_new.B C15_p_moon_phase_new.cc C15_p_moon_phase_new.C C15_p_moon_phase_new.v_jde_2.
Proof. exact C15_p_moon_phase_new.ok. Qed.
Theorem C15_moon_phase_first : C15_p_moon_phase_first.closed_stmt /\
  timing C15_p_moon_phase_first.J0 C15_p_moon_phase_first.B C15_p_moon_phase_first.cc C15_p_moon_phase_first.C C15_p_moon_phase_first.v_jde_2.
Proof. exact C15_p_moon_phase_first.ok. Qed.
Theorem C15_moon_phase_full : C15_p_moon_phase_full.closed_stmt /\
  timing C15_p_moon_phase_full.J0 C15_p_moon_phase_full.B C15_p_moon_phase_full.cc C15_p_moon_phase_full.C C15_p_moon_phase_full.v_jde_2.
Proof. exact C15_p_moon_phase_full.ok. Qed.
Theorem C15_moon_phase_last : C15_p_moon_phase_last.closed_stmt /\
  timing C15_p_moon_phase_last.J0 C15_p_moon_phase_last.B C15_p_moon_phase_last.cc C15_p_moon_phase_last.C C15_p_moon_phase_last.v_jde_2.
Proof. exact C15_p_moon_phase_last.ok. Qed.

(* inside one lunation n (index window -41 <= k/1236.85 <= 21): new < first quarter < full < last quarter < next new,
   consecutive phases 5.2 .. 9.6 days apart (B/4 = 7.38 d, deviations C <= 1.18 d) *)
Theorem C15_phase_order : forall n : Z,
  win (IZR n + 0) -> win (IZR n + Rlit 25 (-2)) -> win (IZR n + Rlit 5 (-1)) -> win (IZR n + Rlit 75 (-2)) ->
  win (IZR (n + 1) + 0) ->
  5.2 <= r_first n - r_new n <= 9.6 /\ 5.2 <= r_full n - r_first n <= 9.6 /\
  5.2 <= r_last n - r_full n <= 9.6 /\ 5.2 <= r_new (n + 1) - r_last n <= 9.6.
Proof. exact phase_order. Qed.

(* successive instants of the same phase are one synodic month 29.530588861 d apart within 2C
   (1.906 d for new / full, 2.358 / 2.346 d for the quarters): the amplitude bound, weaker than the observed 29.2 .. 29.9 *)
Theorem C15_phase_spacing : forall n : Z,
  (win (IZR n + 0) -> win (IZR (n + 1) + 0) -> Rabs (r_new (n + 1) - r_new n - Bs) <= 2 * C15_p_moon_phase_new.C) /\
  (win (IZR n + Rlit 25 (-2)) -> win (IZR (n + 1) + Rlit 25 (-2)) -> Rabs (r_first (n + 1) - r_first n - Bs) <= 2 * C15_p_moon_phase_first.C) /\
  (win (IZR n + Rlit 5 (-1)) -> win (IZR (n + 1) + Rlit 5 (-1)) -> Rabs (r_full (n + 1) - r_full n - Bs) <= 2 * C15_p_moon_phase_full.C) /\
  (win (IZR n + Rlit 75 (-2)) -> win (IZR (n + 1) + Rlit 75 (-2)) -> Rabs (r_last (n + 1) - r_last n - Bs) <= 2 * C15_p_moon_phase_last.C).
Proof. exact phase_spacing. Qed.

(* consecutive new moons (and consecutive full moons) are between 29.2 and 29.9 days apart, for every index k with
   k and k+1 in the window -41 <= k/1236.85 <= 21: term-by-term difference bound (C15_d_moon_phase_*.v, written by
   mkdiff.py): each of the 25 periodic terms c E^p sin(th) changes by at most |c| Emax^p 2|sin((th'-th)/2)| + |c| eps,
   th'-th from the advance of M, M', F, Omega per lunation (29.105.., 385.816.., 390.670.., -1.563.. deg, +-0.01);
   sum 0.3136 d; the 14 planetary terms by their amplitude (0.0026 d); mean-phase polynomial 1e-4 d.
   The quarters really vary more (29.18 .. 29.93 d observed): the same bound gives 0.4100 + 0.005 d, i.e. 29.1 .. 30.0 d. *)
Theorem C15_new_moon_spacing : forall k : R, C15_d_moon_phase_new.win k -> C15_d_moon_phase_new.win (k + 1) ->
  292 / 10 <= C15_p_moon_phase_new.v_jde_2 (k + 1) - C15_p_moon_phase_new.v_jde_2 k <= 299 / 10.
Proof. exact C15_d_moon_phase_new.step_days. Qed.
Theorem C15_full_moon_spacing : forall k : R, C15_d_moon_phase_full.win k -> C15_d_moon_phase_full.win (k + 1) ->
  292 / 10 <= C15_p_moon_phase_full.v_jde_2 (k + 1) - C15_p_moon_phase_full.v_jde_2 k <= 299 / 10.
Proof. exact C15_d_moon_phase_full.step_days. Qed.
Theorem C15_first_quarter_spacing : forall k : R, C15_d_moon_phase_first.win k -> C15_d_moon_phase_first.win (k + 1) ->
  291 / 10 <= C15_p_moon_phase_first.v_jde_2 (k + 1) - C15_p_moon_phase_first.v_jde_2 k <= 300 / 10.
Proof. exact C15_d_moon_phase_first.step_days. Qed.
Theorem C15_last_quarter_spacing : forall k : R, C15_d_moon_phase_last.win k -> C15_d_moon_phase_last.win (k + 1) ->
  291 / 10 <= C15_p_moon_phase_last.v_jde_2 (k + 1) - C15_p_moon_phase_last.v_jde_2 k <= 300 / 10.
Proof. exact C15_d_moon_phase_last.step_days. Qed.

Redirect "C15_moon_phase_new.assumptions" Print Assumptions C15_moon_phase_new.
Redirect "C15_moon_phase_first.assumptions" Print Assumptions C15_moon_phase_first.
Redirect "C15_moon_phase_full.assumptions" Print Assumptions C15_moon_phase_full.
Redirect "C15_moon_phase_last.assumptions" Print Assumptions C15_moon_phase_last.
Redirect "C15_phase_order.assumptions" Print Assumptions C15_phase_order.
Redirect "C15_phase_spacing.assumptions" Print Assumptions C15_phase_spacing.
Redirect "C15_new_moon_spacing.assumptions" Print Assumptions C15_new_moon_spacing.
Redirect "C15_full_moon_spacing.assumptions" Print Assumptions C15_full_moon_spacing.
Redirect "C15_first_quarter_spacing.assumptions" Print Assumptions C15_first_quarter_spacing.
Redirect "C15_last_quarter_spacing.assumptions" Print Assumptions C15_last_quarter_spacing.
