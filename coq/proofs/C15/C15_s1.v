(* Property C15 -- lunar event finders, statements (file 1: node passages, refusals of all four finders).
   Separate statement files so that the Print Assumptions traversals run in parallel. *)
From Coq Require Import Reals ZArith List Bool Lra String.
From PyLib Require Import PyVal PyBuiltins Ideal.
From Spec Require Import MoonFinder.
From Gen Require Import M_base M_Angle M_Epoch M_Moon.
From Proofs.C15 Require Import C15_angle C15_fdefs.
From Proofs.C15 Require C15_f_moon_passage_nodes_ascending.
From Proofs.C15 Require C15_f_moon_passage_nodes_descending.
From Proofs.C15 Require C15_e_moon_perigee_apogee.
From Proofs.C15 Require C15_e_moon_passage_nodes.
From Proofs.C15 Require C15_e_moon_maximum_declination.
From Proofs.C15 Require C15_e_moon_phase.
Import ListNotations.
Open Scope R_scope.

(* ---- lunar event finders: closed form of the regenerated code per finder/target (every coefficient written out in
   C15_f_*.v), for a query whose calendar date / leap flag / day of year (Epoch.get_date, is_leap, get_doy: not entered)
   give the fractional year yr: index k = round((yr - y0) * rate, 0) + target offset; result = Epoch(mean(k) + periodic terms)
   [+ Angle(parallax) / Angle(declination)]; and |result - (J0 + B k)| <= C while -41 <= k/cc <= 21 with 2C < B (interval
   arithmetic on the proved coefficients).  The expensive targets (perigee, northern/southern maximum declination: 5-7 min and 6-8 GB each) are
   stated in C15_heavy.v, compiled in the thorough tier only; moon_phase (4 targets): C15_s3.v (C15_p_moon_phase_*.v, evaluated with C15_tac3). *)
Theorem C15_moon_passage_nodes_ascending : C15_f_moon_passage_nodes_ascending.closed_stmt /\ timing C15_f_moon_passage_nodes_ascending.J0 C15_f_moon_passage_nodes_ascending.B C15_f_moon_passage_nodes_ascending.cc C15_f_moon_passage_nodes_ascending.C C15_f_moon_passage_nodes_ascending.v_jde_2.
Proof. exact C15_f_moon_passage_nodes_ascending.ok. Qed.
Theorem C15_moon_passage_nodes_descending : C15_f_moon_passage_nodes_descending.closed_stmt /\ timing C15_f_moon_passage_nodes_descending.J0 C15_f_moon_passage_nodes_descending.B C15_f_moon_passage_nodes_descending.cc C15_f_moon_passage_nodes_descending.C C15_f_moon_passage_nodes_descending.v_jde_2.
Proof. exact C15_f_moon_passage_nodes_descending.ok. Qed.
Theorem C15_moon_perigee_apogee_refusals :
  (forall v s, scalar_arg v -> Moon_moon_perigee_apogee Rops v (VStr s) = VErr TypeError) /\
  (forall j v, nonstr_arg v -> Moon_moon_perigee_apogee Rops (VObj cEpoch [VFloat j]) v = VErr TypeError) /\
  (forall j s, In s C15_e_moon_perigee_apogee.bad_strings -> Moon_moon_perigee_apogee Rops (VObj cEpoch [VFloat j]) (VStr s) = VErr ValueError).
Proof. exact C15_e_moon_perigee_apogee.refusals. Qed.
Theorem C15_moon_passage_nodes_refusals :
  (forall v s, scalar_arg v -> Moon_moon_passage_nodes Rops v (VStr s) = VErr TypeError) /\
  (forall j v, nonstr_arg v -> Moon_moon_passage_nodes Rops (VObj cEpoch [VFloat j]) v = VErr TypeError) /\
  (forall j s, In s C15_e_moon_passage_nodes.bad_strings -> Moon_moon_passage_nodes Rops (VObj cEpoch [VFloat j]) (VStr s) = VErr ValueError).
Proof. exact C15_e_moon_passage_nodes.refusals. Qed.
Theorem C15_moon_maximum_declination_refusals :
  (forall v s, scalar_arg v -> Moon_moon_maximum_declination Rops v (VStr s) = VErr TypeError) /\
  (forall j v, nonstr_arg v -> Moon_moon_maximum_declination Rops (VObj cEpoch [VFloat j]) v = VErr TypeError) /\
  (forall j s, In s C15_e_moon_maximum_declination.bad_strings -> Moon_moon_maximum_declination Rops (VObj cEpoch [VFloat j]) (VStr s) = VErr ValueError).
Proof. exact C15_e_moon_maximum_declination.refusals. Qed.
Theorem C15_moon_phase_refusals :
  (forall v s, scalar_arg v -> Moon_moon_phase Rops v (VStr s) = VErr TypeError) /\
  (forall j v, nonstr_arg v -> Moon_moon_phase Rops (VObj cEpoch [VFloat j]) v = VErr TypeError) /\
  (forall j s, In s C15_e_moon_phase.bad_strings -> Moon_moon_phase Rops (VObj cEpoch [VFloat j]) (VStr s) = VErr ValueError).
Proof. exact C15_e_moon_phase.refusals. Qed.

Redirect "C15_moon_passage_nodes_ascending.assumptions" Print Assumptions C15_moon_passage_nodes_ascending.
Redirect "C15_moon_passage_nodes_descending.assumptions" Print Assumptions C15_moon_passage_nodes_descending.
Redirect "C15_moon_perigee_apogee_refusals.assumptions" Print Assumptions C15_moon_perigee_apogee_refusals.
Redirect "C15_moon_passage_nodes_refusals.assumptions" Print Assumptions C15_moon_passage_nodes_refusals.
Redirect "C15_moon_maximum_declination_refusals.assumptions" Print Assumptions C15_moon_maximum_declination_refusals.
Redirect "C15_moon_phase_refusals.assumptions" Print Assumptions C15_moon_phase_refusals.
