(* Moon.moon_maximum_declination(epoch, 'southern') -- closed form of the regenerated model (ideal instance), deviation bound.
   Written by mkmoon.py from the source text (checked in); re-proved against the regenerated model every run. *)
From Coq Require Import Reals ZArith List Bool Lra Lia String.
From Interval Require Import Tactic.
From PyLib Require Import PyVal PyBuiltins Ideal Whnf PyEval.
From Spec Require Import MoonFinder.
From Gen Require Import M_base M_Angle M_Epoch M_Moon.
From Proofs.C15 Require Import C15_angle C15_tac2 C15_fdefs.
Import ListNotations.
Open Scope R_scope.
Open Scope string_scope.
Ltac2 Set Whnf.is_blocked as old := fun c =>
  Ltac2.Bool.or (old c) (Ltac2.List.exist (Ltac2.Constr.equal c)
    ['@Epoch_get_date; '@Epoch_is_leap; '@Epoch_get_doy; '@Angle_reduce_deg; '@Angle___init__;
     '@Angle_to_positive; '@Epoch___init__; '@ifv]).
Ltac lit_norm := repeat match goal with |- context [Rlit ?m ?e] =>
  let r := eval cbv -[IZR Rdiv Rmult Rinv Rplus Ropp] in (Rlit m e) in change (Rlit m e) with r end.

(* index from the fractional year yr, as the code computes it *)
Definition kk (yr : R) : R := Rround_nd ((yr - Rlit 200003 (-2)) * Rlit 133686 (-4)) 0.
Definition off : R := 0.
Definition J0 : R := Rlit 24515489289 (-4).
Definition B : R := Rlit 27321582247 (-9).
Definition cc : R := Rlit 133686 (-2).
(* every assignment along the path of target 'southern', as a function of the index k *)
Definition f_t_1 (xk : R) : R :=
  (xk / (Rlit 133686 (-2))).
Definition v_t_1 (k : R) : R := f_t_1 k.
Definition f_D_1 (xk xt : R) : R :=
  (((Rlit 3330705546 (-7)) * xk) + ((((Rlit (-4214) (-7)) + ((Rlit 11 (-8)) * xt)) * xt) * xt)).
Definition v_D_1 (k : R) : R := f_D_1 k (v_t_1 k).
Definition f_M_1 (xk xt : R) : R :=
  (((Rlit 269281592 (-7)) * xk) - ((((Rlit 355 (-7)) + ((Rlit 1 (-7)) * xt)) * xt) * xt)).
Definition v_M_1 (k : R) : R := f_M_1 k (v_t_1 k).
Definition f_Mprime_1 (xk xt : R) : R :=
  (((Rlit 3569562794 (-7)) * xk) + ((((Rlit 103066 (-7)) + ((Rlit 1251 (-8)) * xt)) * xt) * xt)).
Definition v_Mprime_1 (k : R) : R := f_Mprime_1 k (v_t_1 k).
Definition f_F_1 (xk xt : R) : R :=
  (((Rlit 14467807 (-7)) * xk) - ((((Rlit 2069 (-6)) + ((Rlit 215 (-8)) * xt)) * xt) * xt)).
Definition v_F_1 (k : R) : R := f_F_1 k (v_t_1 k).
Definition f_jde_1 (xk xt : R) : R :=
  (((Rlit 27321582247 (-9)) * xk) + ((((Rlit 119804 (-9)) - ((Rlit 141 (-9)) * xt)) * xt) * xt)).
Definition v_jde_1 (k : R) : R := f_jde_1 k (v_t_1 k).
Definition f_D_2 (xD : R) : R :=
  (xD + (Rlit 3456676 (-4))).
Definition v_D_2 (k : R) : R := f_D_2 (v_D_1 k).
Definition f_M_2 (xM : R) : R :=
  (xM + (Rlit 113951 (-5))).
Definition v_M_2 (k : R) : R := f_M_2 (v_M_1 k).
Definition f_Mprime_2 (xMprime : R) : R :=
  (xMprime + (Rlit 18621 (-2))).
Definition v_Mprime_2 (k : R) : R := f_Mprime_2 (v_Mprime_1 k).
Definition f_F_2 (xF : R) : R :=
  (xF + (Rlit 1451633 (-4))).
Definition v_F_2 (k : R) : R := f_F_2 (v_F_1 k).
Definition f_jde_2 (xjde : R) : R :=
  (xjde + (Rlit 24515489289 (-4))).
Definition v_jde_2 (k : R) : R := f_jde_2 (v_jde_1 k).
Definition v_Dr_1 (k : R) : R := norm360 (v_D_2 k) * (PI / 180).
Definition v_Mr_1 (k : R) : R := norm360 (v_M_2 k) * (PI / 180).
Definition v_Mprimer_1 (k : R) : R := norm360 (v_Mprime_2 k) * (PI / 180).
Definition v_Fr_1 (k : R) : R := norm360 (v_F_2 k) * (PI / 180).
Definition f_E_1 (xt : R) : R :=
  ((Rlit 10 (-1)) + (((Rlit (-2516) (-6)) - ((Rlit 74 (-7)) * xt)) * xt)).
Definition v_E_1 (k : R) : R := f_E_1 (v_t_1 k).
Definition f_corr_1 : R :=
  (Rlit 0 (-1)).
Definition v_corr_1 (k : R) : R := f_corr_1 .
Definition f_cor2_1 : R :=
  (Rlit 0 (-1)).
Definition v_cor2_1 (k : R) : R := f_cor2_1 .
Definition f_corr_2 (xFr xMprimer xDr xE xMr : R) : R :=
  (((((((((((((((((((((((((((((((((((((((((((((Rlit (-8975) (-4)) * (cos xFr)) - ((Rlit 4726 (-4)) * (sin xMprimer))) - ((Rlit 1030 (-4)) * (sin ((Rlit 20 (-1)) * xFr)))) - ((Rlit 976 (-4)) * (sin (((Rlit 20 (-1)) * xDr) - xMprimer)))) + ((Rlit 541 (-4)) * (cos (xMprimer - xFr)))) + ((Rlit 516 (-4)) * (cos (xMprimer + xFr)))) - ((Rlit 438 (-4)) * (sin ((Rlit 20 (-1)) * xDr)))) + (((Rlit 112 (-4)) * xE) * (sin xMr))) + ((Rlit 157 (-4)) * (cos ((Rlit 30 (-1)) * xFr)))) + ((Rlit 23 (-4)) * (sin (xMprimer + ((Rlit 20 (-1)) * xFr))))) - ((Rlit 136 (-4)) * (cos (((Rlit 20 (-1)) * xDr) - xFr)))) + ((Rlit 110 (-4)) * (cos ((((Rlit 20 (-1)) * xDr) - xMprimer) - xFr)))) + ((Rlit 91 (-4)) * (cos ((((Rlit 20 (-1)) * xDr) - xMprimer) + xFr)))) + ((Rlit 89 (-4)) * (cos (((Rlit 20 (-1)) * xDr) + xFr)))) + ((Rlit 75 (-4)) * (sin ((Rlit 20 (-1)) * xMprimer)))) - ((Rlit 30 (-4)) * (sin (xMprimer - ((Rlit 20 (-1)) * xFr))))) - ((Rlit 61 (-4)) * (cos (((Rlit 20 (-1)) * xMprimer) - xFr)))) - ((Rlit 47 (-4)) * (sin (xMprimer + ((Rlit 30 (-1)) * xFr))))) - (((Rlit 43 (-4)) * xE) * (sin ((((Rlit 20 (-1)) * xDr) - xMr) - xMprimer)))) + ((Rlit 40 (-4)) * (cos (xMprimer - ((Rlit 20 (-1)) * xFr))))) - ((Rlit 37 (-4)) * (sin ((Rlit 20 (-1)) * (xDr - xMprimer))))) - ((Rlit 31 (-4)) * (sin xFr))) + ((Rlit 30 (-4)) * (sin (((Rlit 20 (-1)) * xDr) + xMprimer)))) + ((Rlit 29 (-4)) * (cos (xMprimer + ((Rlit 20 (-1)) * xFr))))) - (((Rlit 29 (-4)) * xE) * (sin (((Rlit 20 (-1)) * xDr) - xMr)))) - ((Rlit 27 (-4)) * (sin (xMprimer + xFr)))) + (((Rlit 24 (-4)) * xE) * (sin (xMr - xMprimer)))) - ((Rlit 21 (-4)) * (sin (xMprimer - ((Rlit 30 (-1)) * xFr))))) - ((Rlit 19 (-4)) * (sin (((Rlit 20 (-1)) * xMprimer) + xFr)))) - ((Rlit 6 (-4)) * (cos (((Rlit 20 (-1)) * (xDr - xMprimer)) - xFr)))) - ((Rlit 18 (-4)) * (sin ((Rlit 30 (-1)) * xFr)))) - ((Rlit 17 (-4)) * (cos (xMprimer + ((Rlit 30 (-1)) * xFr))))) + ((Rlit 17 (-4)) * (cos ((Rlit 20 (-1)) * xMprimer)))) + ((Rlit 14 (-4)) * (cos (((Rlit 20 (-1)) * xDr) - xMprimer)))) - ((Rlit 13 (-4)) * (cos ((((Rlit 20 (-1)) * xDr) + xMprimer) + xFr)))) - ((Rlit 13 (-4)) * (cos xMprimer))) + ((Rlit 12 (-4)) * (sin (((Rlit 30 (-1)) * xMprimer) + xFr)))) + ((Rlit 11 (-4)) * (sin ((((Rlit 20 (-1)) * xDr) - xMprimer) + xFr)))) + ((Rlit 11 (-4)) * (cos ((Rlit 20 (-1)) * (xDr - xMprimer))))) + ((Rlit 1 (-3)) * (cos (xDr + xFr)))) + (((Rlit 10 (-4)) * xE) * (sin (xMr + xMprimer)))) - ((Rlit 9 (-4)) * (sin ((Rlit 20 (-1)) * (xDr - xFr))))) - ((Rlit 7 (-4)) * (cos (((Rlit 20 (-1)) * xMprimer) + xFr)))) - ((Rlit 7 (-4)) * (cos (((Rlit 30 (-1)) * xMprimer) + xFr)))).
Definition v_corr_2 (k : R) : R := f_corr_2 (v_Fr_1 k) (v_Mprimer_1 k) (v_Dr_1 k) (v_E_1 k) (v_Mr_1 k).
Definition f_cor2_2 (xFr xDr xMprimer xE xMr : R) : R :=
  ((((((((((((((((((((((((((((((((((((((Rlit (-51093) (-4)) * (sin xFr)) + ((Rlit 2658 (-4)) * (cos ((Rlit 20 (-1)) * xFr)))) - ((Rlit 1448 (-4)) * (sin (((Rlit 20 (-1)) * xDr) - xFr)))) + ((Rlit 322 (-4)) * (sin ((Rlit 30 (-1)) * xFr)))) + ((Rlit 133 (-4)) * (cos ((Rlit 20 (-1)) * (xDr - xFr))))) + ((Rlit 125 (-4)) * (cos ((Rlit 20 (-1)) * xDr)))) - ((Rlit 15 (-4)) * (sin (xMprimer - xFr)))) + ((Rlit 101 (-4)) * (sin (xMprimer + ((Rlit 20 (-1)) * xFr))))) - ((Rlit 97 (-4)) * (cos xFr))) + (((Rlit 87 (-4)) * xE) * (sin ((((Rlit 20 (-1)) * xDr) + xMr) - xFr)))) + ((Rlit 74 (-4)) * (sin (xMprimer + ((Rlit 30 (-1)) * xFr))))) + ((Rlit 67 (-4)) * (sin (xDr + xFr)))) - ((Rlit 63 (-4)) * (sin (xMprimer - ((Rlit 20 (-1)) * xFr))))) - (((Rlit 60 (-4)) * xE) * (sin ((((Rlit 20 (-1)) * xDr) - xMr) - xFr)))) + ((Rlit 57 (-4)) * (sin ((((Rlit 20 (-1)) * xDr) - xMprimer) - xFr)))) - ((Rlit 56 (-4)) * (cos (xMprimer + xFr)))) - ((Rlit 52 (-4)) * (cos (xMprimer + ((Rlit 20 (-1)) * xFr))))) - ((Rlit 41 (-4)) * (cos (((Rlit 20 (-1)) * xMprimer) + xFr)))) - ((Rlit 40 (-4)) * (cos (xMprimer - ((Rlit 30 (-1)) * xFr))))) - ((Rlit 38 (-4)) * (cos (((Rlit 20 (-1)) * xMprimer) - xFr)))) + ((Rlit 34 (-4)) * (cos (xMprimer - ((Rlit 20 (-1)) * xFr))))) - ((Rlit 29 (-4)) * (sin ((Rlit 20 (-1)) * xMprimer)))) + ((Rlit 29 (-4)) * (sin (((Rlit 30 (-1)) * xMprimer) + xFr)))) + (((Rlit 28 (-4)) * xE) * (cos ((((Rlit 20 (-1)) * xDr) + xMr) - xFr)))) - ((Rlit 28 (-4)) * (cos (xMprimer - xFr)))) + ((Rlit 23 (-4)) * (cos ((Rlit 30 (-1)) * xFr)))) + ((Rlit 21 (-4)) * (sin (((Rlit 20 (-1)) * xDr) + xFr)))) + ((Rlit 19 (-4)) * (cos (xMprimer + ((Rlit 30 (-1)) * xFr))))) + ((Rlit 18 (-4)) * (cos (xDr + xFr)))) - ((Rlit 17 (-4)) * (sin (((Rlit 20 (-1)) * xMprimer) - xFr)))) + ((Rlit 15 (-4)) * (cos (((Rlit 30 (-1)) * xMprimer) + xFr)))) + ((Rlit 14 (-4)) * (cos (((Rlit 20 (-1)) * (xDr + xMprimer)) + xFr)))) + ((Rlit 12 (-4)) * (sin (((Rlit 20 (-1)) * (xDr - xMprimer)) - xFr)))) - ((Rlit 12 (-4)) * (cos ((Rlit 20 (-1)) * xMprimer)))) + ((Rlit 10 (-4)) * (cos xMprimer))) - ((Rlit 10 (-4)) * (sin ((Rlit 20 (-1)) * xFr)))) + ((Rlit 37 (-4)) * (sin (xMprimer + xFr)))).
Definition v_cor2_2 (k : R) : R := f_cor2_2 (v_Fr_1 k) (v_Dr_1 k) (v_Mprimer_1 k) (v_E_1 k) (v_Mr_1 k).
Definition f_jde_3 (xjde xcorr : R) : R :=
  (xjde + xcorr).
Definition v_jde_3 (k : R) : R := f_jde_3 (v_jde_2 k) (v_corr_2 k).
Definition f_declination_1 (xt xcor2 : R) : R :=
  (((Rlit 236961 (-4)) - ((Rlit 13004 (-6)) * xt)) + xcor2).
Definition v_declination_1 (k : R) : R := f_declination_1 (v_t_1 k) (v_cor2_2 k).
Definition f_declination_2 (xdeclination : R) : R :=
  (xdeclination * (Rlit (-10) (-1))).
Definition v_declination_2 (k : R) : R := f_declination_2 (v_declination_1 k).
Definition f_Q (xt : R) : R :=
  ((((Rlit 119804 (-9)) - ((Rlit 141 (-9)) * xt)) * xt) * xt).
Definition C : R := Rlit 2150 (-3).

(* deviation from the linear mean instant J0 + B k: the polynomial part Q(T) + the periodic terms *)
Lemma dev_split k : v_jde_3 k - (J0 + B * k) = f_Q (v_t_1 k) + (((v_corr_2 k))).
Proof. unfold v_jde_3, v_jde_2, v_jde_1, f_jde_3, f_jde_2, f_jde_1, f_Q, J0, B. ring. Qed.
Lemma dev_bound k : -41 <= k / cc <= 21 -> Rabs (v_jde_3 k - (J0 + B * k)) <= C.
Proof.
  intro Ht. rewrite dev_split.
  change (k / cc) with (v_t_1 k) in Ht.
  unfold v_declination_2, v_declination_1, v_cor2_2, v_corr_2, v_cor2_1, v_corr_1, v_E_1, v_F_2, v_Mprime_2, v_M_2, v_D_2, v_F_1, v_Mprime_1, v_M_1, v_D_1.
  generalize (v_Dr_1 k); intro.
  generalize (v_Mr_1 k); intro.
  generalize (v_Mprimer_1 k); intro.
  generalize (v_Fr_1 k); intro.
  revert Ht. generalize (v_t_1 k). intros t Ht.
  unfold f_Q, f_declination_2, f_declination_1, f_cor2_2, f_corr_2, f_cor2_1, f_corr_1, f_E_1, f_F_2, f_Mprime_2, f_M_2, f_D_2, f_F_1, f_Mprime_1, f_M_1, f_D_1, C. lit_norm.
  interval with (i_bisect t, i_depth 6).
Qed.
Theorem timing_ok : timing J0 B cc C v_jde_3.
Proof. split; [unfold C, B; lit_norm; lra | exact dev_bound]. Qed.
Lemma kk_index yr : kk yr = IZR (Rround ((yr - Rlit 200003 (-2)) * Rlit 133686 (-4))) + off.
Proof. unfold kk, off. rewrite Rround_nd_0. ring. Qed.

Definition closed_stmt : Prop :=
  forall (j : R) (y m : Z) (d doy : R) (lp : bool) (E A : R -> R),
  date_is j y m d -> leap_is y lp -> doy_is y m d doy -> Epoch_of E ->
  let yr := frac_year y doy lp in
  Moon_moon_maximum_declination Rops (VObj cEpoch [VFloat j]) (VStr "southern") =
  VTuple [VObj cEpoch [VFloat (E (v_jde_3 (kk yr)))]; angle_val (rdeg (v_declination_2 (kk yr)))].
Theorem closed : closed_stmt.
Proof.
  unfold closed_stmt, date_is, leap_is, doy_is, Epoch_of.
  intros j y m d doy lp E A Hd Hl Hdoy HE.
  pose proof reduce_rd as HR. pose proof new_rd as HN. pose proof pos_rd as HP.
  unfold frac_year.
  destruct lp; (match goal with |- _ =>
    pyrun2;
    unfold angle_val, kk, v_declination_2, v_declination_1, v_jde_3, v_cor2_2, v_corr_2, v_cor2_1, v_corr_1, v_E_1, v_Fr_1, v_Mprimer_1, v_Mr_1, v_Dr_1, v_jde_2, v_F_2, v_Mprime_2, v_M_2, v_D_2, v_jde_1, v_F_1, v_Mprime_1, v_M_1, v_D_1, v_t_1, f_t_1, f_D_1, f_M_1, f_Mprime_1, f_F_1, f_jde_1, f_D_2, f_M_2, f_Mprime_2, f_F_2, f_jde_2, f_E_1, f_corr_1, f_cor2_1, f_corr_2, f_cor2_2, f_jde_3, f_declination_1, f_declination_2;
    reflexivity end).
Qed.
Theorem ok : closed_stmt /\ timing J0 B cc C v_jde_3.
Proof. exact (conj closed timing_ok). Qed.
