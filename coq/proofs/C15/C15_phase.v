(* C15 -- consequences of the moon_phase closed forms (C15_p_moon_phase_<target>.v) for the four phases:
   all targets share the mean instant J0 + B k (k = n + 0, 1/4, 1/2, 3/4); each result deviates from it by at
   most its C while the epoch argument k/cc stays in [-41, 21] (years -2000 .. 4000 and more).  Hence, inside one
   lunation n:  new < first quarter < full < last quarter < next new, each step B/4 +- (C + C') days. *)
From Coq Require Import Reals ZArith List Bool Lra Lia.
From PyLib Require Import PyVal PyBuiltins Ideal.
From Spec Require Import MoonFinder.
From Proofs.C15 Require Import C15_angle C15_fdefs.
From Proofs.C15 Require C15_p_moon_phase_new C15_p_moon_phase_first C15_p_moon_phase_full C15_p_moon_phase_last.
Open Scope R_scope.

Module N := C15_p_moon_phase_new.
Module Q1 := C15_p_moon_phase_first.
Module F := C15_p_moon_phase_full.
Module Q3 := C15_p_moon_phase_last.

Definition Bs : R := Rlit 29530588861 (-9).
Definition Js : R := Rlit 245155009766 (-5).
Definition ccs : R := Rlit 123685 (-2).
Definition win (k : R) : Prop := -41 <= k / ccs <= 21.

(* the JDE handed to Epoch(.) by the four targets, as functions of the lunation number n *)
Definition r_new (n : Z) : R := N.v_jde_2 (IZR n + 0).
Definition r_first (n : Z) : R := Q1.v_jde_2 (IZR n + Rlit 25 (-2)).
Definition r_full (n : Z) : R := F.v_jde_2 (IZR n + Rlit 5 (-1)).
Definition r_last (n : Z) : R := Q3.v_jde_2 (IZR n + Rlit 75 (-2)).

Ltac lit := unfold Bs, Js, ccs, N.C, Q1.C, F.C, Q3.C, N.J0, N.B, N.cc, Q1.J0, Q1.B, Q1.cc, F.J0, F.B, F.cc, Q3.J0, Q3.B, Q3.cc in *;
  repeat match goal with |- context [Rlit ?m ?e] =>
    let r := eval cbv -[IZR Rdiv Rmult Rinv Rplus Ropp] in (Rlit m e) in change (Rlit m e) with r end;
  repeat match goal with H : context [Rlit ?m ?e] |- _ =>
    let r := eval cbv -[IZR Rdiv Rmult Rinv Rplus Ropp] in (Rlit m e) in change (Rlit m e) with r in H end.

Lemma dev_new k : win k -> Rabs (N.v_jde_2 k - (Js + Bs * k)) <= N.C.
Proof. exact (proj2 N.timing_ok k). Qed.
Lemma dev_first k : win k -> Rabs (Q1.v_jde_2 k - (Js + Bs * k)) <= Q1.C.
Proof. exact (proj2 Q1.timing_ok k). Qed.
Lemma dev_full k : win k -> Rabs (F.v_jde_2 k - (Js + Bs * k)) <= F.C.
Proof. exact (proj2 F.timing_ok k). Qed.
Lemma dev_last k : win k -> Rabs (Q3.v_jde_2 k - (Js + Bs * k)) <= Q3.C.
Proof. exact (proj2 Q3.timing_ok k). Qed.

(* the four phases of lunation n and the next new moon, in order; consecutive phases between 5.2 and 9.6 days apart *)
Theorem phase_order (n : Z) :
  win (IZR n + 0) -> win (IZR n + Rlit 25 (-2)) -> win (IZR n + Rlit 5 (-1)) -> win (IZR n + Rlit 75 (-2)) ->
  win (IZR (n + 1) + 0) ->
  5.2 <= r_first n - r_new n <= 9.6 /\ 5.2 <= r_full n - r_first n <= 9.6 /\
  5.2 <= r_last n - r_full n <= 9.6 /\ 5.2 <= r_new (n + 1) - r_last n <= 9.6.
Proof.
  intros W0 W1 W2 W3 W4. unfold r_new, r_first, r_full, r_last.
  pose proof (abs_le_inv _ _ (dev_new _ W0)) as H0. pose proof (abs_le_inv _ _ (dev_first _ W1)) as H1.
  pose proof (abs_le_inv _ _ (dev_full _ W2)) as H2. pose proof (abs_le_inv _ _ (dev_last _ W3)) as H3.
  pose proof (abs_le_inv _ _ (dev_new _ W4)) as H4.
  rewrite plus_IZR in *.
  generalize dependent (N.v_jde_2 (IZR n + 0)). generalize dependent (N.v_jde_2 (IZR n + 1 + 0)).
  generalize dependent (Q1.v_jde_2 (IZR n + Rlit 25 (-2))). generalize dependent (F.v_jde_2 (IZR n + Rlit 5 (-1))).
  generalize dependent (Q3.v_jde_2 (IZR n + Rlit 75 (-2))).
  intros. lit. lra.
Qed.

(* successive instants of the same phase: one synodic month +- 2C apart (C = 0.953 d new/full, 1.179 / 1.173 d quarters) *)
Theorem phase_spacing (n : Z) :
  (win (IZR n + 0) -> win (IZR (n + 1) + 0) -> Rabs (r_new (n + 1) - r_new n - Bs) <= 2 * N.C) /\
  (win (IZR n + Rlit 25 (-2)) -> win (IZR (n + 1) + Rlit 25 (-2)) -> Rabs (r_first (n + 1) - r_first n - Bs) <= 2 * Q1.C) /\
  (win (IZR n + Rlit 5 (-1)) -> win (IZR (n + 1) + Rlit 5 (-1)) -> Rabs (r_full (n + 1) - r_full n - Bs) <= 2 * F.C) /\
  (win (IZR n + Rlit 75 (-2)) -> win (IZR (n + 1) + Rlit 75 (-2)) -> Rabs (r_last (n + 1) - r_last n - Bs) <= 2 * Q3.C).
Proof.
  unfold r_new, r_first, r_full, r_last. rewrite plus_IZR.
  repeat split; intros Wa Wb; apply abs_le.
  - pose proof (abs_le_inv _ _ (dev_new _ Wa)). pose proof (abs_le_inv _ _ (dev_new _ Wb)). lra.
  - pose proof (abs_le_inv _ _ (dev_first _ Wa)). pose proof (abs_le_inv _ _ (dev_first _ Wb)). lra.
  - pose proof (abs_le_inv _ _ (dev_full _ Wa)). pose proof (abs_le_inv _ _ (dev_full _ Wb)). lra.
  - pose proof (abs_le_inv _ _ (dev_last _ Wa)). pose proof (abs_le_inv _ _ (dev_last _ Wb)). lra.
Qed.
