(* C15 -- Moon.moon_phase, four targets: statements (thorough tier; each file needs several minutes and GB). *)
From Coq Require Import Reals ZArith List Bool Lra String.
From PyLib Require Import PyVal PyBuiltins Ideal.
From Gen Require Import M_base M_Angle M_Epoch M_Moon.
From Proofs.C15 Require Import C15_fdefs.
From Proofs.C15 Require C15_f_moon_phase_first.
From Proofs.C15 Require C15_f_moon_phase_full.
From Proofs.C15 Require C15_f_moon_phase_last.
From Proofs.C15 Require C15_f_moon_phase_new.
Open Scope R_scope.
Theorem C15_moon_phase_first : C15_f_moon_phase_first.closed_stmt /\ timing C15_f_moon_phase_first.J0 C15_f_moon_phase_first.B C15_f_moon_phase_first.cc C15_f_moon_phase_first.C C15_f_moon_phase_first.v_jde_2.
Proof. exact C15_f_moon_phase_first.ok. Qed.
Redirect "C15_moon_phase_first.assumptions" Print Assumptions C15_moon_phase_first.
Theorem C15_moon_phase_full : C15_f_moon_phase_full.closed_stmt /\ timing C15_f_moon_phase_full.J0 C15_f_moon_phase_full.B C15_f_moon_phase_full.cc C15_f_moon_phase_full.C C15_f_moon_phase_full.v_jde_2.
Proof. exact C15_f_moon_phase_full.ok. Qed.
Redirect "C15_moon_phase_full.assumptions" Print Assumptions C15_moon_phase_full.
Theorem C15_moon_phase_last : C15_f_moon_phase_last.closed_stmt /\ timing C15_f_moon_phase_last.J0 C15_f_moon_phase_last.B C15_f_moon_phase_last.cc C15_f_moon_phase_last.C C15_f_moon_phase_last.v_jde_2.
Proof. exact C15_f_moon_phase_last.ok. Qed.
Redirect "C15_moon_phase_last.assumptions" Print Assumptions C15_moon_phase_last.
Theorem C15_moon_phase_new : C15_f_moon_phase_new.closed_stmt /\ timing C15_f_moon_phase_new.J0 C15_f_moon_phase_new.B C15_f_moon_phase_new.cc C15_f_moon_phase_new.C C15_f_moon_phase_new.v_jde_2.
Proof. exact C15_f_moon_phase_new.ok. Qed.
Redirect "C15_moon_phase_new.assumptions" Print Assumptions C15_moon_phase_new.
