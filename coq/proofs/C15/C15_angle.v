(* C15: small characterisation lemmas about Angle (ideal instance) used by the Moon proofs:
   Angle(Angle.reduce_deg(x)).to_positive() is  x mod 360  in [0,360). *)
From Coq Require Import Reals ZArith List Bool Lra Lia String.
From PyLib Require Import PyVal PyBuiltins Ideal Whnf PyEval.
From Gen Require Import M_base M_Angle.
Import ListNotations.
Open Scope R_scope.

Definition tol0 : R := Rlit 1 (-10).
Definition ang (d : R) : val R := VObj cAngle [VFloat d; VFloat tol0].
Definition blankA : val R := VObj cAngle [VNone; VNone].

Lemma Rfmod1_range a : 0 <= a -> 0 <= Rfmod a 1 < 1.
Proof.
  intro Ha. unfold Rfmod, Rtrunc.
  assert (a / 1 = a) as -> by field.
  destruct (Rlt_dec a 0); [lra|].
  destruct (Rfloor_spec a). lra.
Qed.

Lemma Rtrunc_nonneg a : 0 <= a -> (0 <= Rtrunc a)%Z.
Proof.
  intro Ha. unfold Rtrunc. destruct (Rlt_dec a 0); [lra|].
  destruct (Rfloor_spec a) as [_ H]. apply le_IZR. 
  assert (-1 < IZR (Rfloor a)) by lra.
  apply lt_IZR in H0. apply IZR_le. lia.
Qed.

Lemma Rfmod1_split a : 0 <= a -> a = IZR (Rtrunc a) + Rfmod a 1.
Proof. intro Ha. unfold Rfmod. assert (a / 1 = a) as -> by field. lra. Qed.

(* what Angle.reduce_deg returns on a float *)
Definition rdeg (x : R) : R :=
  if Rle_dec 360 (Rabs x)
  then (if Rle_dec 0 x then 1 else -1) * (IZR (Rtrunc (Rabs x) mod 360) + Rfmod (Rabs x) 1)
  else x.

Lemma reduce_val x : Angle_reduce_deg Rops (VFloat x) = VFloat (rdeg x).
Proof.
  unfold rdeg. destruct (Rle_dec 360 (Rabs x)) as [H|H].
  - pose proof (Rfmod1_range (Rabs x) (Rabs_pos x)) as Hm.
    destruct (Rle_dec 0 x) as [Hx|Hx].
    + rewrite Rabs_right in * by lra.
      destruct (Req_dec (Rfmod x 1) 0) as [E|E].
      * pyrun. rewrite Rabs_right by lra. rewrite E. rewrite (proj2 (Rltb_false 1 0)) by lra. Rlit_norm. f_equal. lra.
      * pyrun. rewrite Rabs_right by lra. Rlit_norm. f_equal. lra.
    + assert (Hx' : x < 0) by lra. rewrite Rabs_left in * by lra.
      destruct (Req_dec (Rfmod (- x) 1) 0) as [E|E].
      * pyrun. rewrite Rabs_left by lra. rewrite E. rewrite (proj2 (Rltb_false 1 0)) by lra. Rlit_norm. f_equal. lra.
      * pyrun. rewrite Rabs_left by lra. Rlit_norm. f_equal. lra.
  - assert (Rabs x < 360) by lra. pyrun. reflexivity.
Qed.

Lemma rdeg_range x : -360 < rdeg x < 360.
Proof.
  unfold rdeg. destruct (Rle_dec 360 (Rabs x)) as [H|H].
  - pose proof (Rfmod1_range (Rabs x) (Rabs_pos x)) as Hm.
    assert (Hz : (0 <= Rtrunc (Rabs x) mod 360 <= 359)%Z)
      by (pose proof (Z.mod_pos_bound (Rtrunc (Rabs x)) 360); lia).
    destruct Hz as [Hz1 Hz2]. apply IZR_le in Hz1, Hz2.
    destruct (Rle_dec 0 x); lra.
  - unfold Rabs in H. destruct (Rcase_abs x); lra.
Qed.

Lemma rdeg_cong x : exists k : Z, rdeg x = x + 360 * IZR k.
Proof.
  unfold rdeg. destruct (Rle_dec 360 (Rabs x)) as [H|H].
  - pose proof (Rfmod1_split (Rabs x) (Rabs_pos x)) as Hs.
    pose proof (Z.div_mod (Rtrunc (Rabs x)) 360 ltac:(lia)) as Hd.
    set (m := Rfmod (Rabs x) 1) in *.
    set (z := Rtrunc (Rabs x)) in *. set (q := (z / 360)%Z) in *. set (r := (z mod 360)%Z) in *.
    assert (IZR z = 360 * IZR q + IZR r) by (rewrite Hd, plus_IZR, mult_IZR; reflexivity).
    destruct (Rle_dec 0 x).
    + rewrite Rabs_right in Hs by lra. exists (- q)%Z. rewrite opp_IZR. lra.
    + rewrite Rabs_left in Hs by lra. exists q. lra.
  - exists 0%Z. lra.
Qed.

Lemma rdeg_small x : -360 < x < 360 -> rdeg x = x.
Proof.
  intro H. unfold rdeg. destruct (Rle_dec 360 (Rabs x)) as [H'|H']; [|reflexivity].
  unfold Rabs in H'. destruct (Rcase_abs x); lra.
Qed.

(* Angle(a) for a float a *)
Lemma Angle_new_small a : -360 < a < 360 ->
  Angle___init__ Rops blankA (VTuple [VFloat a]) (VDict []) = ang a.
Proof.
  intro H. assert (Rabs a < 360) by (unfold Rabs; destruct (Rcase_abs a); lra).
  pyrun. reflexivity.
Qed.

Lemma Angle_new a : Angle___init__ Rops blankA (VTuple [VFloat a]) (VDict []) = ang (rdeg a).
Proof.
  unfold rdeg. destruct (Rle_dec 360 (Rabs a)) as [H|H].
  - pose proof (Rfmod1_range (Rabs a) (Rabs_pos a)) as Hm.
    destruct (Rle_dec 0 a) as [Hx|Hx].
    + rewrite Rabs_right in * by lra.
      destruct (Req_dec (Rfmod a 1) 0) as [E|E].
      * pyrun. rewrite Rabs_right by lra. rewrite E. rewrite (proj2 (Rltb_false 1 0)) by lra.
        unfold ang, tol0. Rlit_norm. repeat f_equal. lra.
      * pyrun. rewrite Rabs_right by lra. unfold ang, tol0. Rlit_norm. repeat f_equal. lra.
    + assert (Hx' : a < 0) by lra. rewrite Rabs_left in * by lra.
      destruct (Req_dec (Rfmod (- a) 1) 0) as [E|E].
      * pyrun. rewrite Rabs_left by lra. rewrite E. rewrite (proj2 (Rltb_false 1 0)) by lra.
        unfold ang, tol0. Rlit_norm. repeat f_equal. lra.
      * pyrun. rewrite Rabs_left by lra. unfold ang, tol0. Rlit_norm. repeat f_equal. lra.
  - assert (Rabs a < 360) by lra. pyrun. reflexivity.
Qed.

(* x mod 360 in [0, 360): what Angle(Angle.reduce_deg(x)).to_positive() holds *)
Definition norm360 (x : R) : R := if Rlt_dec (rdeg x) 0 then 360 + rdeg x else rdeg x.

Lemma norm360_range x : 0 <= norm360 x < 360.
Proof. unfold norm360. pose proof (rdeg_range x). destruct (Rlt_dec (rdeg x) 0); lra. Qed.

Lemma norm360_cong x : exists k : Z, norm360 x = x + 360 * IZR k.
Proof.
  unfold norm360. destruct (rdeg_cong x) as [k Hk]. destruct (Rlt_dec (rdeg x) 0).
  - exists (k + 1)%Z. rewrite plus_IZR. lra.
  - exists k. lra.
Qed.

Lemma to_positive_val a : -360 < a < 360 ->
  Angle_to_positive Rops (ang a) =
  VTuple [ang (if Rlt_dec a 0 then 360 + a else a); ang (if Rlt_dec a 0 then 360 + a else a)].
Proof.
  intro H. destruct (Rlt_dec a 0).
  - pyrun. Rlit_norm. unfold ang, tol0.
    assert (3600 / 10 - Rabs a = 360 + a) as -> by (rewrite Rabs_left by lra; lra).
    reflexivity.
  - pyrun. reflexivity.
Qed.

Lemma to_positive_norm x :
  Angle_to_positive Rops (ang (rdeg x)) = VTuple [ang (norm360 x); ang (norm360 x)].
Proof. rewrite to_positive_val by apply rdeg_range. reflexivity. Qed.

Lemma rad_val a : Angle_rad Rops (ang a) = VFloat (a * (PI / 180)).
Proof. pyrun. reflexivity. Qed.

Lemma sin_period_Z x (k : Z) : sin (x + 2 * IZR k * PI) = sin x.
Proof.
  destruct (Z_le_gt_dec 0 k) as [H|H].
  - rewrite <- (Z2Nat.id k H), <- INR_IZR_INZ. apply sin_period.
  - assert (Hk : (0 <= - k)%Z) by lia.
    rewrite <- (sin_period (x + 2 * IZR k * PI) (Z.to_nat (- k))).
    rewrite INR_IZR_INZ, (Z2Nat.id _ Hk), opp_IZR. f_equal. lra.
Qed.
Lemma cos_period_Z x (k : Z) : cos (x + 2 * IZR k * PI) = cos x.
Proof.
  destruct (Z_le_gt_dec 0 k) as [H|H].
  - rewrite <- (Z2Nat.id k H), <- INR_IZR_INZ. apply cos_period.
  - assert (Hk : (0 <= - k)%Z) by lia.
    rewrite <- (cos_period (x + 2 * IZR k * PI) (Z.to_nat (- k))).
    rewrite INR_IZR_INZ, (Z2Nat.id _ Hk), opp_IZR. f_equal. lra.
Qed.

Definition d2r (x : R) : R := x * (PI / 180).

Lemma norm360_d2r x : exists k : Z, d2r (norm360 x) = d2r x + 2 * IZR k * PI.
Proof. destruct (norm360_cong x) as [k Hk]. exists k. unfold d2r. rewrite Hk. field. Qed.

Lemma sin_norm360 x : sin (d2r (norm360 x)) = sin (d2r x).
Proof. destruct (norm360_d2r x) as [k ->]. apply sin_period_Z. Qed.
Lemma cos_norm360 x : cos (d2r (norm360 x)) = cos (d2r x).
Proof. destruct (norm360_d2r x) as [k ->]. apply cos_period_Z. Qed.

Definition epo (j : R) : val R := VObj cEpoch [VFloat j].

Lemma rdeg_idem x : rdeg (rdeg x) = rdeg x.
Proof. apply rdeg_small, rdeg_range. Qed.

Lemma Angle_new_red x :
  Angle___init__ Rops (VObj cAngle [VNone; VNone]) (mk_tuple [Angle_reduce_deg Rops (VFloat x)]) (mk_dict [])
  = ang (rdeg x).
Proof.
  rewrite reduce_val. change (mk_tuple [VFloat (rdeg x)]) with (VTuple [VFloat (rdeg x)] : val R).
  change (@mk_dict R []) with (VDict [] : val R).
  fold blankA. rewrite Angle_new, rdeg_idem. reflexivity.
Qed.
Lemma Angle_new_mk x :
  Angle___init__ Rops (VObj cAngle [VNone; VNone]) (mk_tuple [VFloat x]) (mk_dict []) = ang (rdeg x).
Proof. exact (Angle_new x). Qed.

Lemma Angle_new_rad x :
  Angle___init__ Rops (VObj cAngle [VNone; VNone]) (mk_tuple [VFloat x])
    (mk_dict [(VStr "radians", VBool true)]) = ang (rdeg (x * (180 / PI))).
Proof.
  change (mk_tuple [VFloat x]) with (VTuple [VFloat x] : val R).
  change (@mk_dict R [(VStr "radians", VBool true)]) with (VDict [(VStr "radians", VBool true)] : val R).
  pose proof (reduce_val (x * (180 / PI))) as Hr.
  destruct (Rle_dec 360 (Rabs (x * (180 / PI)))) as [H|H].
  - pose proof (Rfmod1_range _ (Rabs_pos (x * (180 / PI)))) as Hm.
    destruct (Rle_dec 0 (x * (180 / PI))) as [Hx|Hx].
    + destruct (Req_dec (Rfmod (Rabs (x * (180 / PI))) 1) 0) as [E|E].
      * pyrun. apply f_equal with (f := fun v => VObj cAngle [v; VFloat tol0]) in Hr.
        etransitivity; [|exact Hr]. clear Hr. symmetry. unfold tol0. pyrun. reflexivity.
      * pyrun. apply f_equal with (f := fun v => VObj cAngle [v; VFloat tol0]) in Hr.
        etransitivity; [|exact Hr]. clear Hr. symmetry. unfold tol0. pyrun. reflexivity.
    + assert (Hx' : x * (180 / PI) < 0) by lra.
      destruct (Req_dec (Rfmod (Rabs (x * (180 / PI))) 1) 0) as [E|E].
      * pyrun. apply f_equal with (f := fun v => VObj cAngle [v; VFloat tol0]) in Hr.
        etransitivity; [|exact Hr]. clear Hr. symmetry. unfold tol0. pyrun. reflexivity.
      * pyrun. apply f_equal with (f := fun v => VObj cAngle [v; VFloat tol0]) in Hr.
        etransitivity; [|exact Hr]. clear Hr. symmetry. unfold tol0. pyrun. reflexivity.
  - assert (Rabs (x * (180 / PI)) < 360) by lra. pyrun.
    rewrite rdeg_small; [reflexivity|]. unfold Rabs in H0. destruct (Rcase_abs _); lra.
Qed.

Lemma Angle_new_copy a :
  Angle___init__ Rops (VObj cAngle [VNone; VNone]) (mk_tuple [ang a]) (mk_dict []) = ang a.
Proof.
  change (mk_tuple [ang a]) with (VTuple [ang a] : val R).
  change (@mk_dict R []) with (VDict [] : val R). pyrun. reflexivity.
Qed.

(* congruence modulo 360 *)
Definition cong360 (x y : R) : Prop := exists k : Z, x = y + 360 * IZR k.
Lemma cong_refl x : cong360 x x. Proof. exists 0%Z. lra. Qed.
Lemma cong_trans x y z : cong360 x y -> cong360 y z -> cong360 x z.
Proof. intros [k ->] [l ->]. exists (k + l)%Z. rewrite plus_IZR. lra. Qed.
Lemma cong_rdeg x y : cong360 x y -> cong360 (rdeg x) y.
Proof. intro H. eapply cong_trans; [exact (rdeg_cong x)|exact H]. Qed.
Lemma cong_norm x y : cong360 x y -> cong360 (norm360 x) y.
Proof. intro H. eapply cong_trans; [exact (norm360_cong x)|exact H]. Qed.
Lemma cong_plus a b c d : cong360 a c -> cong360 b d -> cong360 (a + b) (c + d).
Proof. intros [k ->] [l ->]. exists (k + l)%Z. rewrite plus_IZR. lra. Qed.
Lemma cong_minus a b c d : cong360 a c -> cong360 b d -> cong360 (a - b) (c - d).
Proof. intros [k ->] [l ->]. exists (k - l)%Z. rewrite minus_IZR. lra. Qed.
Lemma cong_opp a c : cong360 a c -> cong360 (- a) (- c).
Proof. intros [k ->]. exists (- k)%Z. rewrite opp_IZR. lra. Qed.
Lemma cong_cos x y : cong360 x y -> cos (d2r x) = cos (d2r y).
Proof. intros [k ->]. unfold d2r. rewrite <- (cos_period_Z (y * (PI / 180)) k). f_equal. field. Qed.
Lemma cong_sin x y : cong360 x y -> sin (d2r x) = sin (d2r y).
Proof. intros [k ->]. unfold d2r. rewrite <- (sin_period_Z (y * (PI / 180)) k). f_equal. field. Qed.

(* strips rdeg / norm360 wrappers structurally: goal [cong360 lhs ?e] *)
Ltac cong_strip :=
  lazymatch goal with
  | |- cong360 (rdeg _) _ => apply cong_rdeg; cong_strip
  | |- cong360 (norm360 _) _ => apply cong_norm; cong_strip
  | |- cong360 (_ + _) _ => apply cong_plus; cong_strip
  | |- cong360 (_ - _) _ => apply cong_minus; cong_strip
  | |- cong360 (- _) _ => apply cong_opp; cong_strip
  | |- cong360 _ _ => apply cong_refl
  end.

Definition blankE : val R := VObj cEpoch [VNone].

(* the whole reduction chain of the generated code: Angle(Angle.reduce_deg(x)).to_positive() *)
Lemma reduce_chain x :
  bind (Angle___init__ Rops (VObj cAngle [VNone; VNone]) (mk_tuple [Angle_reduce_deg Rops (VFloat x)]) (mk_dict []))
       (fun o => if is_obj cAngle o then Angle_to_positive Rops o else VErr AttributeError)
  = VTuple [ang (norm360 x); ang (norm360 x)]
  /\ 0 <= norm360 x < 360 /\ cong360 (norm360 x) x.
Proof.
  split; [|split; [apply norm360_range|apply cong_norm, cong_refl]].
  rewrite Angle_new_red. rewrite bind_ok by reflexivity. cbv beta.
  change (is_obj cAngle (ang (rdeg x))) with true. cbv iota. apply to_positive_norm.
Qed.
