(* C15 (Moon position): closed form of the three sums of Moon.geocentric_ecliptical_pos and the
   amplitude-sum envelopes read from the tables extracted from the source, for T in [-40, 20]
   centuries (years -2000 .. 4000):
     sigma_l = sum_i cl_i Efac_i sin(arg_i), sigma_r = sum_i cr_i Efac_i cos(arg_i), sigma_b likewise,
     arg_i = (d_i D + m_i M + m'_i M' + f_i F) degrees, D .. F the code's polynomials (unreduced);
     355 240 km <= Delta <= 414 761 km,  |beta| <= 6.10 deg,  |lambda - L'| <= 9.25 deg (mod 360),
     hence 6378.14 / Delta in (0, 0.018]: the parallax asin(6378.14 / Delta) is defined.
   The envelopes are sums of absolute amplitudes: they do NOT reach the property's 356 000 .. 407 000 km
   and 5.35 deg, which depend on phase relations between the terms (searched). *)
From Coq Require Import Reals ZArith List Bool Lra Lia.
From Interval Require Import Tactic.
From PyLib Require Import PyVal PyBuiltins Ideal PyEval.
From Gen Require Import M_base M_Angle M_Epoch M_Moon.
From Proofs.C15 Require Import C15_angle C15_pos_loop C15_pos_main.
Import ListNotations.
Open Scope R_scope.

(* ------------------------------------------------------------------ sums over an index range *)
Fixpoint bigsum (x : nat -> R) (k n : nat) : R :=
  match n with O => 0 | S n' => x k + bigsum x (S k) n' end.

Lemma fold_sin_bigsum (c a : nat -> R) : forall n k d0,
  fold_left (fun d i => acc_sin d (c i) (a i)) (seq k n) d0 = d0 + bigsum (fun i => c i * sin (a i)) k n.
Proof. induction n as [|n IH]; intros k d0; simpl; [lra | rewrite IH; unfold acc_sin; lra]. Qed.
Lemma fold_cos_bigsum (c a : nat -> R) : forall n k d0,
  fold_left (fun d i => acc_cos d (c i) (a i)) (seq k n) d0 = d0 + bigsum (fun i => c i * cos (a i)) k n.
Proof. induction n as [|n IH]; intros k d0; simpl; [lra | rewrite IH; unfold acc_cos; lra]. Qed.
Lemma bigsum_ext x y : forall n k, (forall i, x i = y i) -> bigsum x k n = bigsum y k n.
Proof. induction n as [|n IH]; intros k H; simpl; [reflexivity | rewrite H; f_equal; apply IH; exact H]. Qed.
Lemma bigsum_abs_le x y : forall n k, (forall i, Rabs (x i) <= y i) -> Rabs (bigsum x k n) <= bigsum y k n.
Proof.
  induction n as [|n IH]; intros k H; simpl.
  - rewrite Rabs_R0. lra.
  - eapply Rle_trans; [apply Rabs_triang|]. apply Rplus_le_compat; [apply H | apply IH; exact H].
Qed.

Lemma lit0 : Rlit 0 (-1) = 0.
Proof. unfold Rlit. simpl. lra. Qed.

(* ------------------------------------------------------------------ the argument of a row *)
(* d D + m M + m' M' + f F in degrees, unreduced polynomials *)
Definition dot_deg (ns : nat -> Z) (t : R) : R :=
  IZR (ns 0%nat) * polyD t + IZR (ns 1%nat) * polyM t + IZR (ns 2%nat) * polyMp t + IZR (ns 3%nat) * polyF t.

Lemma rad_of_cong x : exists k : Z, rad_of x = x * (PI / 180) + 2 * IZR k * PI.
Proof. destruct (norm360_cong x) as [k Hk]. exists k. unfold rad_of. rewrite Hk. field. Qed.

Lemma row_arg_unfold (N : nat -> nat -> Z) (U : nat -> nat -> R -> R) i :
  (forall jj a, U i jj a = a + IZR (N i jj) * nth jj (margs 0) 0 -> True) -> True.
Proof. auto. Qed.

Lemma step_val N (args : list R) a jj :
  arg_step N (fun jj a => a + IZR (N jj) * nth jj args 0) a jj = a + IZR (N jj) * nth jj args 0.
Proof. unfold arg_step. destruct (Z.eqb_spec (N jj) 0) as [E|E]; [rewrite E; lra | reflexivity]. Qed.

Lemma row_arg_val (N : nat -> nat -> Z) t i :
  row_arg 4 (Rlit 0 (-1)) N (fun i jj a => a + IZR (N i jj) * nth jj (margs t) 0) i =
  IZR (N i 0%nat) * rad_of (polyD t) + IZR (N i 1%nat) * rad_of (polyM t)
  + IZR (N i 2%nat) * rad_of (polyMp t) + IZR (N i 3%nat) * rad_of (polyF t).
Proof.
  unfold row_arg. simpl seq. simpl fold_left.
  rewrite !(step_val (N i) (margs t)). rewrite lit0. simpl nth. ring.
Qed.

Lemma row_arg_cong (N : nat -> nat -> Z) t i : exists k : Z,
  row_arg 4 (Rlit 0 (-1)) N (fun i jj a => a + IZR (N i jj) * nth jj (margs t) 0) i =
  dot_deg (N i) t * (PI / 180) + 2 * IZR k * PI.
Proof.
  rewrite row_arg_val.
  destruct (rad_of_cong (polyD t)) as [k0 ->]. destruct (rad_of_cong (polyM t)) as [k1 ->].
  destruct (rad_of_cong (polyMp t)) as [k2 ->]. destruct (rad_of_cong (polyF t)) as [k3 ->].
  exists (N i 0%nat * k0 + N i 1%nat * k1 + N i 2%nat * k2 + N i 3%nat * k3)%Z.
  unfold dot_deg. rewrite !plus_IZR, !mult_IZR. ring.
Qed.

Lemma sin_row (N : nat -> nat -> Z) t i :
  sin (row_arg 4 (Rlit 0 (-1)) N (fun i jj a => a + IZR (N i jj) * nth jj (margs t) 0) i) = sin (dot_deg (N i) t * (PI / 180)).
Proof. destruct (row_arg_cong N t i) as [k ->]. apply sin_period_Z. Qed.
Lemma cos_row (N : nat -> nat -> Z) t i :
  cos (row_arg 4 (Rlit 0 (-1)) N (fun i jj a => a + IZR (N i jj) * nth jj (margs t) 0) i) = cos (dot_deg (N i) t * (PI / 180)).
Proof. destruct (row_arg_cong N t i) as [k ->]. apply cos_period_Z. Qed.

(* ------------------------------------------------------------------ closed forms *)
Definition efl (t : R) (i : nat) (c : R) : R := efac (b1lr i) (b2lr i) (Ecc t) (Ecc t * Ecc t) c.
Definition efb (t : R) (i : nat) (c : R) : R := efac (b1b i) (b2b i) (Ecc t) (Ecc t * Ecc t) c.

Theorem sigma_l_closed t :
  sigma_l t = bigsum (fun i => efl t i (clr i) * sin (dot_deg (Nlr i) t * (PI / 180))) 0 (length LRT).
Proof.
  unfold sigma_l.
  etransitivity; [exact (fold_sin_bigsum (fun i => efl t i (clr i)) (fun i => row_arg 4 (Rlit 0 (-1)) Nlr (Ulr t) i) (length LRT) 0%nat (Rlit 0 (-1)))|].
  rewrite lit0 at 1. rewrite Rplus_0_l. apply bigsum_ext. intro i. cbv beta.
  change (Ulr t) with (fun (i jj : nat) (a : R) => a + IZR (Nlr i jj) * nth jj (margs t) 0).
  rewrite (sin_row Nlr t i). reflexivity.
Qed.
Theorem sigma_r_closed t :
  sigma_r t = bigsum (fun i => efl t i (crr i) * cos (dot_deg (Nlr i) t * (PI / 180))) 0 (length LRT).
Proof.
  unfold sigma_r.
  etransitivity; [exact (fold_cos_bigsum (fun i => efl t i (crr i)) (fun i => row_arg 4 (Rlit 0 (-1)) Nlr (Ulr t) i) (length LRT) 0%nat (Rlit 0 (-1)))|].
  rewrite lit0 at 1. rewrite Rplus_0_l. apply bigsum_ext. intro i. cbv beta.
  change (Ulr t) with (fun (i jj : nat) (a : R) => a + IZR (Nlr i jj) * nth jj (margs t) 0).
  rewrite (cos_row Nlr t i). reflexivity.
Qed.
Theorem sigma_b_closed t :
  sigma_b t = bigsum (fun i => efb t i (cbb i) * sin (dot_deg (Nb i) t * (PI / 180))) 0 (length BT).
Proof.
  unfold sigma_b.
  etransitivity; [exact (fold_sin_bigsum (fun i => efb t i (cbb i)) (fun i => row_arg 4 (Rlit 0 (-1)) Nb (Ub t) i) (length BT) 0%nat (Rlit 0 (-1)))|].
  rewrite lit0 at 1. rewrite Rplus_0_l. apply bigsum_ext. intro i. cbv beta.
  change (Ub t) with (fun (i jj : nat) (a : R) => a + IZR (Nb i jj) * nth jj (margs t) 0).
  rewrite (sin_row Nb t i). reflexivity.
Qed.

(* ------------------------------------------------------------------ amplitude envelopes *)
Lemma Ecc_range t : -40 <= t <= 20 -> 94 / 100 <= Ecc t <= 109 / 100 /\ Ecc t * Ecc t <= 119 / 100.
Proof.
  intro H. unfold Ecc. Rlit_norm. split; [split|]; interval with (i_bisect t).
Qed.

Definition fbound (b1 b2 : bool) : R := if b1 then 109 / 100 else if b2 then 119 / 100 else 1.
Lemma efac_le b1 b2 e c : 0 <= e <= 109 / 100 -> e * e <= 119 / 100 ->
  Rabs (efac b1 b2 e (e * e) c) <= Rabs c * fbound b1 b2.
Proof.
  intros He He2. unfold efac, fbound. destruct b1; [|destruct b2].
  - rewrite Rabs_mult, (Rabs_right e) by lra. pose proof (Rabs_pos c). nra.
  - rewrite Rabs_mult, (Rabs_right (e * e)) by nra. pose proof (Rabs_pos c). nra.
  - lra.
Qed.

Lemma abs_sin_1 x : Rabs (sin x) <= 1.
Proof. pose proof (SIN_bound x). unfold Rabs. destruct (Rcase_abs _); lra. Qed.
Lemma abs_cos_1 x : Rabs (cos x) <= 1.
Proof. pose proof (COS_bound x). unfold Rabs. destruct (Rcase_abs _); lra. Qed.

Lemma term_bound (g : R -> R) b1 b2 e c a : (forall x, Rabs (g x) <= 1) -> 0 <= e <= 109 / 100 -> e * e <= 119 / 100 ->
  Rabs (efac b1 b2 e (e * e) c * g a) <= Rabs c * fbound b1 b2.
Proof.
  intros Hg He He2. rewrite Rabs_mult. pose proof (efac_le b1 b2 e c He He2). pose proof (Hg a).
  pose proof (Rabs_pos (efac b1 b2 e (e * e) c)). pose proof (Rabs_pos (g a)). nra.
Qed.

Ltac table_num := lazy -[Rlit Rabs Rplus Rmult Rdiv Rinv Rminus Ropp Rle IZR]; Rlit_norm; interval.

Lemma LRT_length : length LRT = 60%nat.
Proof. lazy -[Rlit]. reflexivity. Qed.
Lemma BT_length : length BT = 60%nat.
Proof. lazy -[Rlit]. reflexivity. Qed.

Lemma amp_l : bigsum (fun i => Rabs (clr i) * fbound (b1lr i) (b2lr i)) 0 60 <= 9236000.
Proof. table_num. Qed.
Lemma amp_r : bigsum (fun i => Rabs (crr i) * fbound (b1lr i) (b2lr i)) 0 60 <= 29755000.
Proof. table_num. Qed.
Lemma amp_b : bigsum (fun i => Rabs (cbb i) * fbound (b1b i) (b2b i)) 0 60 <= 6088000.
Proof. table_num. Qed.

Theorem sigma_bounds t : -40 <= t <= 20 ->
  Rabs (sigma_l t) <= 9236000 /\ Rabs (sigma_r t) <= 29755000 /\ Rabs (sigma_b t) <= 6088000.
Proof.
  intro Ht. destruct (Ecc_range t Ht) as [He He2]. assert (0 <= Ecc t <= 109 / 100) as He' by lra.
  split; [|split].
  - rewrite sigma_l_closed, LRT_length. eapply Rle_trans; [|exact amp_l].
    apply bigsum_abs_le. intro i. apply term_bound; [exact abs_sin_1 | exact He' | exact He2].
  - rewrite sigma_r_closed, LRT_length. eapply Rle_trans; [|exact amp_r].
    apply bigsum_abs_le. intro i. apply term_bound; [exact abs_cos_1 | exact He' | exact He2].
  - rewrite sigma_b_closed, BT_length. eapply Rle_trans; [|exact amp_b].
    apply bigsum_abs_le. intro i. apply term_bound; [exact abs_sin_1 | exact He' | exact He2].
Qed.

(* ------------------------------------------------------------------ the returned quadruple *)
Lemma Tm_eq j : Tm j = (j - 2451545) / 36525.
Proof. unfold Tm. Rlit_norm. field. Qed.

Lemma Rabs_le_iff x b : Rabs x <= b <-> - b <= x <= b.
Proof. unfold Rabs. destruct (Rcase_abs x); split; intros; lra. Qed.

Lemma add_l_bound t : Rabs (add_l t) <= 6238.
Proof.
  unfold add_l. Rlit_norm.
  pose proof (SIN_bound (rad_of (polyA1 t))). pose proof (SIN_bound (rad_of (polyLp t) - rad_of (polyF t))).
  pose proof (SIN_bound (rad_of (polyA2 t))). apply Rabs_le_iff. lra.
Qed.
Lemma add_b_bound t : Rabs (add_b t) <= 3209.
Proof.
  unfold add_b. Rlit_norm.
  pose proof (SIN_bound (rad_of (polyLp t))). pose proof (SIN_bound (rad_of (polyA3 t))).
  pose proof (SIN_bound (rad_of (polyA1 t) - rad_of (polyF t))). pose proof (SIN_bound (rad_of (polyA1 t) + rad_of (polyF t))).
  pose proof (SIN_bound (rad_of (polyLp t) - rad_of (polyMp t))). pose proof (SIN_bound (rad_of (polyLp t) + rad_of (polyMp t))).
  apply Rabs_le_iff. lra.
Qed.

(* distance: 385000.56 km + sigma_r / 1000, inside the amplitude envelope *)
Theorem moon_delta_envelope t : -40 <= t <= 20 -> 355245 <= moon_delta t <= 414756.
Proof.
  intro Ht. destruct (sigma_bounds t Ht) as (_ & Hr & _). apply Rabs_le_iff in Hr.
  unfold moon_delta. Rlit_norm. lra.
Qed.

(* latitude: (sigma_b + additive terms) / 10^6 degrees, no reduction needed, |beta| <= 6.10 deg *)
Theorem moon_beta_closed t : -40 <= t <= 20 ->
  moon_beta t = (sigma_b t + add_b t) / 1000000 /\ Rabs (moon_beta t) <= 61 / 10.
Proof.
  intro Ht. destruct (sigma_bounds t Ht) as (_ & _ & Hb). pose proof (add_b_bound t) as Ha.
  apply Rabs_le_iff in Hb. apply Rabs_le_iff in Ha.
  assert (moon_beta t = (sigma_b t + add_b t) / 1000000) as E.
  { unfold moon_beta. assert (Rlit 10000000 (-1) = 1000000) as -> by (unfold Rlit; simpl; lra).
    apply rdeg_small. lra. }
  split; [exact E|]. rewrite E. apply Rabs_le_iff. lra.
Qed.

(* longitude: mean longitude L' (reduced to [0,360)) + (sigma_l + additive terms) / 10^6 degrees,
   the perturbation being at most 9.25 degrees *)
Theorem moon_lambda_closed t : -40 <= t <= 20 ->
  moon_lambda t = rdeg (norm360 (polyLp t) + (sigma_l t + add_l t) / 1000000) /\
  Rabs ((sigma_l t + add_l t) / 1000000) <= 925 / 100.
Proof.
  intro Ht. destruct (sigma_bounds t Ht) as (Hl & _ & _). pose proof (add_l_bound t) as Ha.
  apply Rabs_le_iff in Hl. apply Rabs_le_iff in Ha.
  split.
  - unfold moon_lambda. assert (Rlit 10000000 (-1) = 1000000) as -> by (unfold Rlit; simpl; lra). reflexivity.
  - apply Rabs_le_iff. lra.
Qed.

(* parallax: asin(6378.14 / Delta), the argument being in (0, 0.018] *)
Theorem moon_par_closed t : -40 <= t <= 20 ->
  moon_par t = rdeg (asin (637814 / 100 / moon_delta t) * (180 / PI)) /\
  0 < 637814 / 100 / moon_delta t <= 18 / 1000.
Proof.
  intro Ht. pose proof (moon_delta_envelope t Ht) as Hd. split.
  - unfold moon_par. assert (Rlit 637814 (-2) = 637814 / 100) as -> by (unfold Rlit; simpl; lra). reflexivity.
  - assert (0 < / moon_delta t <= / 355245) as [I1 I2].
    { split; [apply Rinv_0_lt_compat; lra | apply Rinv_le_contravar; lra]. }
    unfold Rdiv at 1 3. split; [nra|]. 
    assert (/ 355245 <= 282 / 100000000) by (apply Rmult_le_reg_l with 355245; [lra|]; rewrite Rinv_r by lra; lra).
    nra.
Qed.

(* the generated function, unconditionally on the property's range of epochs *)
Theorem moon_position j : -40 <= (j - 2451545) / 36525 <= 20 ->
  Moon_geocentric_ecliptical_pos Rops (VObj cEpoch [VFloat j]) =
  VTuple [ang (moon_lambda (Tm j)); ang (moon_beta (Tm j)); VFloat (moon_delta (Tm j)); ang (moon_par (Tm j))].
Proof.
  intro HT. rewrite <- Tm_eq in HT. apply moon_pos_struct.
  destruct (sigma_bounds _ HT) as (_ & Hr & _). lra.
Qed.
