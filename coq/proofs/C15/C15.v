(* Property C15 — Moon position is physical; lunar event finders agree with it.
   Statements only; proofs in C15_angle / C15_nodes / C15_illum (ideal instance of the model
   regenerated from /repo) and Spec.MoonFinder (hand-written finder spec).
   The value of the module constant JDE2000 (g_JDE2000 Rops = epo 2451545) is proved in C15_j2000.v. *)
From Coq Require Import Reals ZArith List Bool Lra String.
From PyLib Require Import PyVal PyBuiltins Ideal PyEval.
From Spec Require Import MoonFinder.
From Gen Require Import M_base M_Angle M_Epoch M_Moon.
From Proofs.C15 Require Import C15_angle C15_j2000 C15_nodes C15_illum C15_fdefs.
From Proofs.C15 Require C15_f_moon_maximum_declination_northern.
From Proofs.C15 Require C15_f_moon_maximum_declination_southern.
From Proofs.C15 Require C15_f_moon_passage_nodes_ascending.
From Proofs.C15 Require C15_f_moon_passage_nodes_descending.
From Proofs.C15 Require C15_f_moon_perigee_apogee_apogee.
From Proofs.C15 Require C15_f_moon_perigee_apogee_perigee.
From Proofs.C15 Require C15_e_moon_perigee_apogee.
From Proofs.C15 Require C15_e_moon_passage_nodes.
From Proofs.C15 Require C15_e_moon_maximum_declination.
From Proofs.C15 Require C15_e_moon_phase.
Import ListNotations.
Open Scope R_scope.

(* "reduction of large arguments": Angle(Angle.reduce_deg(x)).to_positive() holds x mod 360 in [0,360) for every real x *)
Theorem C15_angle_reduction : forall x : R,
  bind (Angle___init__ Rops (VObj cAngle [VNone; VNone]) (mk_tuple [Angle_reduce_deg Rops (VFloat x)]) (mk_dict []))
       (fun o => if is_obj cAngle o then Angle_to_positive Rops o else VErr AttributeError)
  = VTuple [ang (norm360 x); ang (norm360 x)]
  /\ 0 <= norm360 x < 360 /\ cong360 (norm360 x) x.
Proof. exact reduce_chain. Qed.

(* mean ascending node: Meeus' polynomial in T = (JDE - 2451545)/36525, reduced to [0,360) *)
Theorem C15_jde2000 : g_JDE2000 Rops = epo 2451545.
Proof. exact JDE2000_val. Qed.

Theorem C15_mean_node : forall j : R,
  Moon_longitude_mean_ascending_node Rops (epo j) = ang (norm360 (node_poly (Tc j))).
Proof. exact (fun j => mean_node_closed j JDE2000_val). Qed.

(* mean perigee: polynomial in T, reduced to (-360,360) *)
Theorem C15_mean_perigee : forall j : R,
  Moon_longitude_mean_perigee Rops (epo j) = ang (rdeg (perigee_poly (Tc j))).
Proof. exact (fun j => mean_perigee_closed j JDE2000_val). Qed.

(* secular rates are the linear coefficients: -1934.1362891 and +4069.0137287 deg/century; the
   higher-order part stays below 8.2 / 40.6 deg over |T| <= 60 (the linear part moves 116 000 / 244 000 deg) *)
Theorem C15_node_rate : forall t : R, -60 <= t <= 60 ->
  Rabs (node_poly t - (125.0445479 + -1934.1362891 * t)) <= 8.2.
Proof. exact node_rate. Qed.
Theorem C15_perigee_rate : forall t : R, -60 <= t <= 60 ->
  Rabs (perigee_poly t - (83.3532465 + 4069.0137287 * t)) <= 40.6.
Proof. exact perigee_rate. Qed.

(* illuminated fraction: k = (1 + cos i)/2 for an angle i, hence in [0,1] *)
Theorem C15_illuminated_fraction : forall j : R,
  exists i : R, Moon_illuminated_fraction_disk Rops (epo j) = VFloat ((1 + cos (d2r i)) / 2)
             /\ 0 <= (1 + cos (d2r i)) / 2 <= 1.
Proof. exact (fun j => illuminated_closed j JDE2000_val). Qed.

(* finder spec: the index round((year - y0) * rate) is non-decreasing in the fractional year and onto;
   results mean(k) + c(k) with |c| <= C, mean spacing B +- D, 2C + D < B: strictly increasing, spaced B +- (2C+D) *)
Theorem C15_finder_index : forall y0 rate : R, 0 < rate ->
  (forall yr1 yr2, yr1 <= yr2 -> (Rround ((yr1 - y0) * rate) <= Rround ((yr2 - y0) * rate))%Z) /\
  (forall n : Z, exists yr, Rround ((yr - y0) * rate) = n) /\
  (forall x, Rround_nd x 0 = IZR (Rround x)).
Proof.
  intros y0 rate Hr. split; [|split].
  - intros. apply index_mono; assumption.
  - intro n. apply index_onto; assumption.
  - exact Rround_nd_0.
Qed.
Theorem C15_finder_spacing : forall (B C D : R) (r mean c : Z -> R),
  (forall k, r k = mean k + c k) -> (forall k, Rabs (c k) <= C) ->
  (forall k, Rabs (mean (k + 1)%Z - mean k - B) <= D) -> 2 * C + D < B ->
  (forall k, r k < r (k + 1)%Z /\ Rabs (r (k + 1)%Z - r k - B) <= 2 * C + D) /\
  (forall k n, (0 < n)%Z -> r k < r (k + n)%Z).
Proof.
  intros. split.
  - apply (results_spacing B C D r mean c); assumption.
  - apply (results_increasing B C D r mean c); assumption.
Qed.

(* ---- lunar event finders: closed form of the regenerated code per finder/target (every coefficient written out in
   C15_f_*.v), for a query whose calendar date / leap flag / day of year (Epoch.get_date, is_leap, get_doy: not entered)
   give the fractional year yr: index k = round((yr - y0) * rate, 0) + target offset; result = Epoch(mean(k) + periodic terms)
   [+ Angle(parallax) / Angle(declination)]; and |result - (J0 + B k)| <= C while -41 <= k/cc <= 21 with 2C < B (interval
   arithmetic on the proved coefficients).  moon_phase (4 targets) is not covered: one target takes > 40 min / 6 GB. *)
Theorem C15_moon_maximum_declination_northern : C15_f_moon_maximum_declination_northern.closed_stmt /\ timing C15_f_moon_maximum_declination_northern.J0 C15_f_moon_maximum_declination_northern.B C15_f_moon_maximum_declination_northern.cc C15_f_moon_maximum_declination_northern.C C15_f_moon_maximum_declination_northern.v_jde_3.
Proof. exact C15_f_moon_maximum_declination_northern.ok. Qed.
Theorem C15_moon_maximum_declination_southern : C15_f_moon_maximum_declination_southern.closed_stmt /\ timing C15_f_moon_maximum_declination_southern.J0 C15_f_moon_maximum_declination_southern.B C15_f_moon_maximum_declination_southern.cc C15_f_moon_maximum_declination_southern.C C15_f_moon_maximum_declination_southern.v_jde_3.
Proof. exact C15_f_moon_maximum_declination_southern.ok. Qed.
Theorem C15_moon_passage_nodes_ascending : C15_f_moon_passage_nodes_ascending.closed_stmt /\ timing C15_f_moon_passage_nodes_ascending.J0 C15_f_moon_passage_nodes_ascending.B C15_f_moon_passage_nodes_ascending.cc C15_f_moon_passage_nodes_ascending.C C15_f_moon_passage_nodes_ascending.v_jde_2.
Proof. exact C15_f_moon_passage_nodes_ascending.ok. Qed.
Theorem C15_moon_passage_nodes_descending : C15_f_moon_passage_nodes_descending.closed_stmt /\ timing C15_f_moon_passage_nodes_descending.J0 C15_f_moon_passage_nodes_descending.B C15_f_moon_passage_nodes_descending.cc C15_f_moon_passage_nodes_descending.C C15_f_moon_passage_nodes_descending.v_jde_2.
Proof. exact C15_f_moon_passage_nodes_descending.ok. Qed.
Theorem C15_moon_perigee_apogee_apogee : C15_f_moon_perigee_apogee_apogee.closed_stmt /\ timing C15_f_moon_perigee_apogee_apogee.J0 C15_f_moon_perigee_apogee_apogee.B C15_f_moon_perigee_apogee_apogee.cc C15_f_moon_perigee_apogee_apogee.C C15_f_moon_perigee_apogee_apogee.v_jde_2.
Proof. exact C15_f_moon_perigee_apogee_apogee.ok. Qed.
Theorem C15_moon_perigee_apogee_perigee : C15_f_moon_perigee_apogee_perigee.closed_stmt /\ timing C15_f_moon_perigee_apogee_perigee.J0 C15_f_moon_perigee_apogee_perigee.B C15_f_moon_perigee_apogee_perigee.cc C15_f_moon_perigee_apogee_perigee.C C15_f_moon_perigee_apogee_perigee.v_jde_2.
Proof. exact C15_f_moon_perigee_apogee_perigee.ok. Qed.
(* refusals: TypeError for a non-Epoch (None/bool/int/float/str) first argument or a non-string target, ValueError for a
   string that is not one of the finder's targets (list bad_strings in C15_e_*.v: empty, wrong case, other finders' targets) *)
Theorem C15_moon_perigee_apogee_refusals :
  (forall v s, scalar_arg v -> Moon_moon_perigee_apogee Rops v (VStr s) = VErr TypeError) /\
  (forall j v, nonstr_arg v -> Moon_moon_perigee_apogee Rops (VObj cEpoch [VFloat j]) v = VErr TypeError) /\
  (forall j s, In s C15_e_moon_perigee_apogee.bad_strings -> Moon_moon_perigee_apogee Rops (VObj cEpoch [VFloat j]) (VStr s) = VErr ValueError).
Proof. exact C15_e_moon_perigee_apogee.refusals. Qed.
Theorem C15_moon_passage_nodes_refusals :
  (forall v s, scalar_arg v -> Moon_moon_passage_nodes Rops v (VStr s) = VErr TypeError) /\
  (forall j v, nonstr_arg v -> Moon_moon_passage_nodes Rops (VObj cEpoch [VFloat j]) v = VErr TypeError) /\
  (forall j s, In s C15_e_moon_passage_nodes.bad_strings -> Moon_moon_passage_nodes Rops (VObj cEpoch [VFloat j]) (VStr s) = VErr ValueError).
Proof. exact C15_e_moon_passage_nodes.refusals. Qed.
Theorem C15_moon_maximum_declination_refusals :
  (forall v s, scalar_arg v -> Moon_moon_maximum_declination Rops v (VStr s) = VErr TypeError) /\
  (forall j v, nonstr_arg v -> Moon_moon_maximum_declination Rops (VObj cEpoch [VFloat j]) v = VErr TypeError) /\
  (forall j s, In s C15_e_moon_maximum_declination.bad_strings -> Moon_moon_maximum_declination Rops (VObj cEpoch [VFloat j]) (VStr s) = VErr ValueError).
Proof. exact C15_e_moon_maximum_declination.refusals. Qed.
Theorem C15_moon_phase_refusals :
  (forall v s, scalar_arg v -> Moon_moon_phase Rops v (VStr s) = VErr TypeError) /\
  (forall j v, nonstr_arg v -> Moon_moon_phase Rops (VObj cEpoch [VFloat j]) v = VErr TypeError) /\
  (forall j s, In s C15_e_moon_phase.bad_strings -> Moon_moon_phase Rops (VObj cEpoch [VFloat j]) (VStr s) = VErr ValueError).
Proof. exact C15_e_moon_phase.refusals. Qed.
(* consequences of `timing` through Spec.MoonFinder (LinearMean): for integer indices n (k = n + off) in the window,
   consecutive results are strictly ordered and B +- 2C apart; a later index is at least B - 2C later; never backwards *)
Theorem C15_finder_timing : forall (J0 B cc C off : R) (r : R -> R), timing J0 B cc C r ->
  let P := fun n : Z => -41 <= (IZR n + off) / cc <= 21 in
  let rz := fun n : Z => r (IZR n + off) in
  (forall n, P n -> P (n + 1)%Z -> rz n < rz (n + 1)%Z /\ Rabs (rz (n + 1)%Z - rz n - B) <= 2 * C) /\
  (forall n1 n2, P n1 -> P n2 -> (n1 < n2)%Z -> rz n1 + (B - 2 * C) <= rz n2) /\
  (forall n1 n2, P n1 -> P n2 -> (n1 <= n2)%Z -> rz n1 <= rz n2).
Proof.
  intros J0 B cc C off r HT P rz. split; [| split].
  - exact (timing_step J0 B cc C off r HT).
  - exact (timing_order J0 B cc C off r HT).
  - exact (timing_monotone J0 B cc C off r HT).
Qed.

Redirect "C15_angle_reduction.assumptions" Print Assumptions C15_angle_reduction.
Redirect "C15_jde2000.assumptions" Print Assumptions C15_jde2000.
Redirect "C15_mean_node.assumptions" Print Assumptions C15_mean_node.
Redirect "C15_mean_perigee.assumptions" Print Assumptions C15_mean_perigee.
Redirect "C15_node_rate.assumptions" Print Assumptions C15_node_rate.
Redirect "C15_perigee_rate.assumptions" Print Assumptions C15_perigee_rate.
Redirect "C15_illuminated_fraction.assumptions" Print Assumptions C15_illuminated_fraction.
Redirect "C15_finder_index.assumptions" Print Assumptions C15_finder_index.
Redirect "C15_finder_spacing.assumptions" Print Assumptions C15_finder_spacing.
Redirect "C15_moon_maximum_declination_northern.assumptions" Print Assumptions C15_moon_maximum_declination_northern.
Redirect "C15_moon_maximum_declination_southern.assumptions" Print Assumptions C15_moon_maximum_declination_southern.
Redirect "C15_moon_passage_nodes_ascending.assumptions" Print Assumptions C15_moon_passage_nodes_ascending.
Redirect "C15_moon_passage_nodes_descending.assumptions" Print Assumptions C15_moon_passage_nodes_descending.
Redirect "C15_moon_perigee_apogee_apogee.assumptions" Print Assumptions C15_moon_perigee_apogee_apogee.
Redirect "C15_moon_perigee_apogee_perigee.assumptions" Print Assumptions C15_moon_perigee_apogee_perigee.
Redirect "C15_moon_perigee_apogee_refusals.assumptions" Print Assumptions C15_moon_perigee_apogee_refusals.
Redirect "C15_moon_passage_nodes_refusals.assumptions" Print Assumptions C15_moon_passage_nodes_refusals.
Redirect "C15_moon_maximum_declination_refusals.assumptions" Print Assumptions C15_moon_maximum_declination_refusals.
Redirect "C15_moon_phase_refusals.assumptions" Print Assumptions C15_moon_phase_refusals.
Redirect "C15_finder_timing.assumptions" Print Assumptions C15_finder_timing.
