(* Property C15 — Moon position is physical; lunar event finders agree with it.
   Statements only; proofs in C15_angle / C15_nodes / C15_illum (ideal instance of the model
   regenerated from /repo) and Spec.MoonFinder (hand-written finder spec).
   The value of the module constant JDE2000 (g_JDE2000 Rops = epo 2451545) is proved in C15_j2000.v. *)
From Coq Require Import Reals ZArith List Bool Lra String.
From PyLib Require Import PyVal PyBuiltins Ideal PyEval.
From Spec Require Import MoonFinder.
From Gen Require Import M_base M_Angle M_Epoch M_Moon.
From Proofs.C15 Require Import C15_angle C15_j2000 C15_nodes C15_illum C15_fdefs.
Import ListNotations.
Open Scope R_scope.

(* "reduction of large arguments": Angle(Angle.reduce_deg(x)).to_positive() holds x mod 360 in [0,360) for every real x *)
Theorem C15_angle_reduction : forall x : R,
  bind (Angle___init__ Rops (VObj cAngle [VNone; VNone]) (mk_tuple [Angle_reduce_deg Rops (VFloat x)]) (mk_dict []))
       (fun o => if is_obj cAngle o then Angle_to_positive Rops o else VErr AttributeError)
  = VTuple [ang (norm360 x); ang (norm360 x)]
  /\ 0 <= norm360 x < 360 /\ cong360 (norm360 x) x.
Proof. exact reduce_chain. Qed.

(* mean ascending node: Meeus' polynomial in T = (JDE - 2451545)/36525, reduced to [0,360) *)
Theorem C15_jde2000 : g_JDE2000 Rops = epo 2451545.
Proof. exact JDE2000_val. Qed.

Theorem C15_mean_node : forall j : R,
  Moon_longitude_mean_ascending_node Rops (epo j) = ang (norm360 (node_poly (Tc j))).
Proof. exact (fun j => mean_node_closed j JDE2000_val). Qed.

(* mean perigee: polynomial in T, reduced to (-360,360) *)
Theorem C15_mean_perigee : forall j : R,
  Moon_longitude_mean_perigee Rops (epo j) = ang (rdeg (perigee_poly (Tc j))).
Proof. exact (fun j => mean_perigee_closed j JDE2000_val). Qed.

(* secular rates are the linear coefficients: -1934.1362891 and +4069.0137287 deg/century; the
   higher-order part stays below 8.2 / 40.6 deg over |T| <= 60 (the linear part moves 116 000 / 244 000 deg) *)
Theorem C15_node_rate : forall t : R, -60 <= t <= 60 ->
  Rabs (node_poly t - (125.0445479 + -1934.1362891 * t)) <= 8.2.
Proof. exact node_rate. Qed.
Theorem C15_perigee_rate : forall t : R, -60 <= t <= 60 ->
  Rabs (perigee_poly t - (83.3532465 + 4069.0137287 * t)) <= 40.6.
Proof. exact perigee_rate. Qed.

(* illuminated fraction: k = (1 + cos i)/2 with the explicit phase angle (C15_illum.illum_i, Meeus 48.4)
   i = 180 - D - 6.289 sin M' + 2.1 sin M - 1.274 sin(2D - M') - 0.658 sin 2D - 0.214 sin 2M' - 0.11 sin D,
   D, M, M' the code's polynomials in T = (JDE - 2451545)/36525; hence k in [0,1] *)
Theorem C15_illuminated_fraction : forall j : R,
  Moon_illuminated_fraction_disk Rops (epo j) = VFloat ((1 + cos (d2r (illum_i (Tl j)))) / 2)
  /\ 0 <= (1 + cos (d2r (illum_i (Tl j)))) / 2 <= 1.
Proof. exact (fun j => illuminated_closed j JDE2000_val). Qed.

(* finder spec: the index round((year - y0) * rate) is non-decreasing in the fractional year and onto;
   results mean(k) + c(k) with |c| <= C, mean spacing B +- D, 2C + D < B: strictly increasing, spaced B +- (2C+D) *)
Theorem C15_finder_index : forall y0 rate : R, 0 < rate ->
  (forall yr1 yr2, yr1 <= yr2 -> (Rround ((yr1 - y0) * rate) <= Rround ((yr2 - y0) * rate))%Z) /\
  (forall n : Z, exists yr, Rround ((yr - y0) * rate) = n) /\
  (forall x, Rround_nd x 0 = IZR (Rround x)).
Proof.
  intros y0 rate Hr. split; [|split].
  - intros. apply index_mono; assumption.
  - intro n. apply index_onto; assumption.
  - exact Rround_nd_0.
Qed.
(* [spec only, NOT tied to the code by proof]: needs |c k| <= C for every integer k; the statement tied to the
   generated finders (corrections bounded on the window -41 <= T <= 21) is C15_finder_timing *)
Theorem C15_finder_spacing : forall (B C D : R) (r mean c : Z -> R),
  (forall k, r k = mean k + c k) -> (forall k, Rabs (c k) <= C) ->
  (forall k, Rabs (mean (k + 1)%Z - mean k - B) <= D) -> 2 * C + D < B ->
  (forall k, r k < r (k + 1)%Z /\ Rabs (r (k + 1)%Z - r k - B) <= 2 * C + D) /\
  (forall k n, (0 < n)%Z -> r k < r (k + n)%Z).
Proof.
  intros. split.
  - apply (results_spacing B C D r mean c); assumption.
  - apply (results_increasing B C D r mean c); assumption.
Qed.

(* the lunar event finder statements are in C15_s1.v / C15_s2.v (quick) and C15_heavy.v (thorough) *)
Redirect "C15_angle_reduction.assumptions" Print Assumptions C15_angle_reduction.
Redirect "C15_jde2000.assumptions" Print Assumptions C15_jde2000.
Redirect "C15_mean_node.assumptions" Print Assumptions C15_mean_node.
Redirect "C15_mean_perigee.assumptions" Print Assumptions C15_mean_perigee.
Redirect "C15_node_rate.assumptions" Print Assumptions C15_node_rate.
Redirect "C15_perigee_rate.assumptions" Print Assumptions C15_perigee_rate.
Redirect "C15_illuminated_fraction.assumptions" Print Assumptions C15_illuminated_fraction.
Redirect "C15_finder_index.assumptions" Print Assumptions C15_finder_index.
Redirect "C15_finder_spacing.assumptions" Print Assumptions C15_finder_spacing.
