(* Moon.moon_perigee_apogee(epoch, 'perigee') -- closed form of the regenerated model (ideal instance), deviation bound.
   Written by mkmoon.py from the source text (checked in); re-proved against the regenerated model every run. *)
From Coq Require Import Reals ZArith List Bool Lra Lia String.
From Interval Require Import Tactic.
From PyLib Require Import PyVal PyBuiltins Ideal Whnf PyEval.
From Spec Require Import MoonFinder.
From Gen Require Import M_base M_Angle M_Epoch M_Moon.
From Proofs.C15 Require Import C15_angle C15_tac2 C15_fdefs.
Import ListNotations.
Open Scope R_scope.
Open Scope string_scope.
Ltac2 Set Whnf.is_blocked as old := fun c =>
  Ltac2.Bool.or (old c) (Ltac2.List.exist (Ltac2.Constr.equal c)
    ['@Epoch_get_date; '@Epoch_is_leap; '@Epoch_get_doy; '@Angle_reduce_deg; '@Angle___init__;
     '@Angle_to_positive; '@Epoch___init__; '@ifv]).
Ltac lit_norm := repeat match goal with |- context [Rlit ?m ?e] =>
  let r := eval cbv -[IZR Rdiv Rmult Rinv Rplus Ropp] in (Rlit m e) in change (Rlit m e) with r end.

(* index from the fractional year yr, as the code computes it *)
Definition kk (yr : R) : R := Rround_nd ((yr - Rlit 199997 (-2)) * Rlit 132555 (-4)) 0.
Definition off : R := 0.
Definition J0 : R := Rlit 24515346698 (-4).
Definition B : R := Rlit 2755454989 (-8).
Definition cc : R := Rlit 132555 (-2).
(* every assignment along the path of target 'perigee', as a function of the index k *)
Definition f_t_1 (xk : R) : R :=
  (xk / (Rlit 132555 (-2))).
Definition v_t_1 (k : R) : R := f_t_1 k.
Definition f_jde_1 (xk xt : R) : R :=
  (((Rlit 24515346698 (-4)) + ((Rlit 2755454989 (-8)) * xk)) + ((((Rlit (-6691) (-7)) + (((Rlit 1098 (-9)) + ((Rlit 52 (-10)) * xt)) * xt)) * xt) * xt)).
Definition v_jde_1 (k : R) : R := f_jde_1 k (v_t_1 k).
Definition f_D_1 (xk xt : R) : R :=
  (((Rlit 1719179 (-4)) + ((Rlit 3359106046 (-7)) * xk)) + ((((Rlit (-100383) (-7)) + (((Rlit (-1156) (-8)) + ((Rlit 55 (-9)) * xt)) * xt)) * xt) * xt)).
Definition v_D_1 (k : R) : R := f_D_1 k (v_t_1 k).
Definition f_M_1 (xk xt : R) : R :=
  (((Rlit 3473477 (-4)) + ((Rlit 271577721 (-7)) * xk)) + ((((Rlit (-813) (-6)) - ((Rlit 1 (-6)) * xt)) * xt) * xt)).
Definition v_M_1 (k : R) : R := f_M_1 k (v_t_1 k).
Definition f_F_1 (xk xt : R) : R :=
  (((Rlit 3166109 (-4)) + ((Rlit 3645287911 (-7)) * xk)) + ((((Rlit (-125053) (-7)) - ((Rlit 148 (-7)) * xt)) * xt) * xt)).
Definition v_F_1 (k : R) : R := f_F_1 k (v_t_1 k).
Definition v_Dr_1 (k : R) : R := norm360 (v_D_1 k) * (PI / 180).
Definition v_Mr_1 (k : R) : R := norm360 (v_M_1 k) * (PI / 180).
Definition v_Fr_1 (k : R) : R := norm360 (v_F_1 k) * (PI / 180).
Definition f_corr_1 : R :=
  (Rlit 0 (-1)).
Definition v_corr_1 (k : R) : R := f_corr_1 .
Definition f_parallax_1 : R :=
  (Rlit 0 (-1)).
Definition v_parallax_1 (k : R) : R := f_parallax_1 .
Definition f_corr_2 (xDr xt xMr xFr : R) : R :=
  (((((((((((((((((((((((((((((((((((((((((((((((((((((((((((((Rlit (-16769) (-4)) * (sin ((Rlit 20 (-1)) * xDr))) + ((Rlit 4589 (-4)) * (sin ((Rlit 40 (-1)) * xDr)))) - ((Rlit 1856 (-4)) * (sin ((Rlit 60 (-1)) * xDr)))) + ((Rlit 883 (-4)) * (sin ((Rlit 80 (-1)) * xDr)))) + (((Rlit (-773) (-4)) + ((Rlit 19 (-5)) * xt)) * (sin (((Rlit 20 (-1)) * xDr) - xMr)))) + (((Rlit 502 (-4)) - ((Rlit 13 (-5)) * xt)) * (sin xMr))) - ((Rlit 46 (-3)) * (sin ((Rlit 100 (-1)) * xDr)))) + (((Rlit 422 (-4)) - ((Rlit 11 (-5)) * xt)) * (sin (((Rlit 40 (-1)) * xDr) - xMr)))) - ((Rlit 256 (-4)) * (sin (((Rlit 60 (-1)) * xDr) - xMr)))) + ((Rlit 253 (-4)) * (sin ((Rlit 120 (-1)) * xDr)))) + ((Rlit 237 (-4)) * (sin xDr))) + ((Rlit 162 (-4)) * (sin (((Rlit 80 (-1)) * xDr) - xMr)))) - ((Rlit 145 (-4)) * (sin ((Rlit 140 (-1)) * xDr)))) + ((Rlit 129 (-4)) * (sin ((Rlit 20 (-1)) * xFr)))) - ((Rlit 112 (-4)) * (sin ((Rlit 30 (-1)) * xDr)))) - ((Rlit 104 (-4)) * (sin (((Rlit 100 (-1)) * xDr) - xMr)))) + ((Rlit 86 (-4)) * (sin ((Rlit 160 (-1)) * xDr)))) + ((Rlit 69 (-4)) * (sin (((Rlit 120 (-1)) * xDr) - xMr)))) + ((Rlit 66 (-4)) * (sin ((Rlit 50 (-1)) * xDr)))) - ((Rlit 53 (-4)) * (sin ((Rlit 20 (-1)) * (xDr + xFr))))) - ((Rlit 52 (-4)) * (sin ((Rlit 180 (-1)) * xDr)))) - ((Rlit 46 (-4)) * (sin (((Rlit 140 (-1)) * xDr) - xMr)))) - ((Rlit 41 (-4)) * (sin ((Rlit 70 (-1)) * xDr)))) + ((Rlit 4 (-3)) * (sin (((Rlit 20 (-1)) * xDr) + xMr)))) + ((Rlit 32 (-4)) * (sin ((Rlit 200 (-1)) * xDr)))) - ((Rlit 32 (-4)) * (sin (xDr + xMr)))) + ((Rlit 31 (-4)) * (sin (((Rlit 160 (-1)) * xDr) - xMr)))) - ((Rlit 29 (-4)) * (sin (((Rlit 40 (-1)) * xDr) + xMr)))) + ((Rlit 27 (-4)) * (sin ((Rlit 90 (-1)) * xDr)))) + ((Rlit 27 (-4)) * (sin (((Rlit 40 (-1)) * xDr) + ((Rlit 20 (-1)) * xFr))))) - ((Rlit 27 (-4)) * (sin ((Rlit 20 (-1)) * (xDr - xMr))))) + ((Rlit 24 (-4)) * (sin (((Rlit 40 (-1)) * xDr) - ((Rlit 20 (-1)) * xMr))))) - ((Rlit 21 (-4)) * (sin (((Rlit 60 (-1)) * xDr) - ((Rlit 20 (-1)) * xMr))))) - ((Rlit 21 (-4)) * (sin ((Rlit 220 (-1)) * xDr)))) - ((Rlit 21 (-4)) * (sin (((Rlit 180 (-1)) * xDr) - xMr)))) + ((Rlit 19 (-4)) * (sin (((Rlit 60 (-1)) * xDr) + xMr)))) - ((Rlit 18 (-4)) * (sin ((Rlit 110 (-1)) * xDr)))) - ((Rlit 14 (-4)) * (sin (((Rlit 80 (-1)) * xDr) + xMr)))) - ((Rlit 14 (-4)) * (sin (((Rlit 40 (-1)) * xDr) - ((Rlit 20 (-1)) * xFr))))) - ((Rlit 14 (-4)) * (sin (((Rlit 60 (-1)) * xDr) + ((Rlit 20 (-1)) * xFr))))) + ((Rlit 14 (-4)) * (sin (((Rlit 30 (-1)) * xDr) + xMr)))) - ((Rlit 14 (-4)) * (sin (((Rlit 50 (-1)) * xDr) + xMr)))) + ((Rlit 13 (-4)) * (sin ((Rlit 130 (-1)) * xDr)))) + ((Rlit 13 (-4)) * (sin (((Rlit 200 (-1)) * xDr) - xMr)))) + ((Rlit 11 (-4)) * (sin (((Rlit 30 (-1)) * xDr) + ((Rlit 20 (-1)) * xMr))))) - ((Rlit 11 (-4)) * (sin ((((Rlit 40 (-1)) * xDr) + ((Rlit 20 (-1)) * xFr)) - ((Rlit 20 (-1)) * xMr))))) - ((Rlit 10 (-4)) * (sin (xDr + ((Rlit 20 (-1)) * xMr))))) - ((Rlit 9 (-4)) * (sin (((Rlit 220 (-1)) * xDr) - xMr)))) - ((Rlit 8 (-4)) * (sin ((Rlit 40 (-1)) * xFr)))) + ((Rlit 8 (-4)) * (sin (((Rlit 60 (-1)) * xDr) - ((Rlit 20 (-1)) * xFr))))) + ((Rlit 8 (-4)) * (sin ((((Rlit 20 (-1)) * xDr) - ((Rlit 20 (-1)) * xFr)) + xMr)))) + ((Rlit 7 (-4)) * (sin ((Rlit 20 (-1)) * xMr)))) + ((Rlit 7 (-4)) * (sin (((Rlit 20 (-1)) * xFr) - xMr)))) + ((Rlit 7 (-4)) * (sin (((Rlit 20 (-1)) * xDr) + ((Rlit 40 (-1)) * xFr))))) - ((Rlit 6 (-4)) * (sin ((Rlit 20 (-1)) * (xFr - xMr))))) - ((Rlit 6 (-4)) * (sin ((Rlit 20 (-1)) * ((xDr - xFr) + xMr))))) + ((Rlit 6 (-4)) * (sin ((Rlit 240 (-1)) * xDr)))) + ((Rlit 5 (-4)) * (sin ((Rlit 40 (-1)) * (xDr - xFr))))) + ((Rlit 5 (-4)) * (sin ((Rlit 20 (-1)) * (xDr + xMr))))) - ((Rlit 4 (-4)) * (sin (xDr - xMr)))).
Definition v_corr_2 (k : R) : R := f_corr_2 (v_Dr_1 k) (v_t_1 k) (v_Mr_1 k) (v_Fr_1 k).
Definition f_parallax_2 (xDr xt xMr xFr : R) : R :=
  (((((((((((((((((((((((((((((((((((((((((((((((Rlit 3629215 (-3)) + ((Rlit 63224 (-3)) * (cos ((Rlit 20 (-1)) * xDr)))) - ((Rlit 699 (-2)) * (cos ((Rlit 40 (-1)) * xDr)))) + (((Rlit 2834 (-3)) - ((Rlit 71 (-4)) * xt)) * (cos (((Rlit 20 (-1)) * xDr) - xMr)))) + ((Rlit 1927 (-3)) * (cos ((Rlit 60 (-1)) * xDr)))) - ((Rlit 1263 (-3)) * (cos xDr))) - ((Rlit 702 (-3)) * (cos ((Rlit 80 (-1)) * xDr)))) + (((Rlit 696 (-3)) - ((Rlit 17 (-4)) * xt)) * (cos xMr))) - ((Rlit 69 (-2)) * (cos ((Rlit 20 (-1)) * xFr)))) + (((Rlit (-629) (-3)) + ((Rlit 16 (-4)) * xt)) * (cos (((Rlit 40 (-1)) * xDr) - xMr)))) - ((Rlit 392 (-3)) * (cos ((Rlit 20 (-1)) * (xDr - xFr))))) + ((Rlit 297 (-3)) * (cos ((Rlit 100 (-1)) * xDr)))) + ((Rlit 26 (-2)) * (cos (((Rlit 60 (-1)) * xDr) - xMr)))) + ((Rlit 201 (-3)) * (cos ((Rlit 30 (-1)) * xDr)))) - ((Rlit 161 (-3)) * (cos (((Rlit 20 (-1)) * xDr) + xMr)))) + ((Rlit 157 (-3)) * (cos (xDr + xMr)))) - ((Rlit 138 (-3)) * (cos ((Rlit 120 (-1)) * xDr)))) - ((Rlit 127 (-3)) * (cos (((Rlit 80 (-1)) * xDr) - xMr)))) + ((Rlit 104 (-3)) * (cos ((Rlit 20 (-1)) * (xDr + xFr))))) + ((Rlit 104 (-3)) * (cos ((Rlit 20 (-1)) * (xDr - xMr))))) - ((Rlit 79 (-3)) * (cos ((Rlit 50 (-1)) * xDr)))) + ((Rlit 68 (-3)) * (cos ((Rlit 140 (-1)) * xDr)))) + ((Rlit 67 (-3)) * (cos (((Rlit 100 (-1)) * xDr) - xMr)))) + ((Rlit 54 (-3)) * (cos (((Rlit 40 (-1)) * xDr) + xMr)))) - ((Rlit 38 (-3)) * (cos (((Rlit 120 (-1)) * xDr) - xMr)))) - ((Rlit 38 (-3)) * (cos (((Rlit 40 (-1)) * xDr) - ((Rlit 20 (-1)) * xMr))))) + ((Rlit 37 (-3)) * (cos ((Rlit 70 (-1)) * xDr)))) - ((Rlit 37 (-3)) * (cos (((Rlit 40 (-1)) * xDr) + ((Rlit 20 (-1)) * xFr))))) - ((Rlit 35 (-3)) * (cos ((Rlit 160 (-1)) * xDr)))) - ((Rlit 3 (-2)) * (cos (((Rlit 30 (-1)) * xDr) + xMr)))) + ((Rlit 29 (-3)) * (cos (xDr - xMr)))) - ((Rlit 25 (-3)) * (cos (((Rlit 60 (-1)) * xDr) + xMr)))) + ((Rlit 23 (-3)) * (cos ((Rlit 20 (-1)) * xMr)))) + ((Rlit 23 (-3)) * (cos (((Rlit 140 (-1)) * xDr) - xMr)))) - ((Rlit 23 (-3)) * (cos ((Rlit 20 (-1)) * (xDr + xMr))))) + ((Rlit 22 (-3)) * (cos (((Rlit 60 (-1)) * xDr) - ((Rlit 20 (-1)) * xMr))))) - ((Rlit 21 (-3)) * (cos (((Rlit 20 (-1)) * (xDr - xFr)) - xMr)))) - ((Rlit 20 (-3)) * (cos ((Rlit 90 (-1)) * xDr)))) + ((Rlit 19 (-3)) * (cos ((Rlit 180 (-1)) * xDr)))) + ((Rlit 17 (-3)) * (cos (((Rlit 60 (-1)) * xDr) + ((Rlit 20 (-1)) * xFr))))) + ((Rlit 14 (-3)) * (cos (((Rlit 20 (-1)) * xFr) - xMr)))) - ((Rlit 14 (-3)) * (cos (((Rlit 160 (-1)) * xDr) - xMr)))) + ((Rlit 13 (-3)) * (cos (((Rlit 40 (-1)) * xDr) - ((Rlit 20 (-1)) * xFr))))) + ((Rlit 12 (-3)) * (cos (((Rlit 80 (-1)) * xDr) + xMr)))) + ((Rlit 11 (-3)) * (cos ((Rlit 110 (-1)) * xDr)))) + ((Rlit 1 (-2)) * (cos (((Rlit 50 (-1)) * xDr) + xMr)))) - ((Rlit 1 (-2)) * (cos ((Rlit 200 (-1)) * xDr)))).
Definition v_parallax_2 (k : R) : R := f_parallax_2 (v_Dr_1 k) (v_t_1 k) (v_Mr_1 k) (v_Fr_1 k).
Definition f_jde_2 (xjde xcorr : R) : R :=
  (xjde + xcorr).
Definition v_jde_2 (k : R) : R := f_jde_2 (v_jde_1 k) (v_corr_2 k).
Definition f_Q (xt : R) : R :=
  ((((Rlit (-6691) (-7)) + (((Rlit 1098 (-9)) + ((Rlit 52 (-10)) * xt)) * xt)) * xt) * xt).
Definition C : R := Rlit 4201 (-3).

(* deviation from the linear mean instant J0 + B k: the polynomial part Q(T) + the periodic terms *)
Lemma dev_split k : v_jde_2 k - (J0 + B * k) = f_Q (v_t_1 k) + (((v_corr_2 k))).
Proof. unfold v_jde_2, v_jde_1, f_jde_2, f_jde_1, f_Q, J0, B. ring. Qed.
Lemma dev_bound k : -41 <= k / cc <= 21 -> Rabs (v_jde_2 k - (J0 + B * k)) <= C.
Proof.
  intro Ht. rewrite dev_split.
  change (k / cc) with (v_t_1 k) in Ht.
  unfold v_parallax_2, v_corr_2, v_parallax_1, v_corr_1, v_F_1, v_M_1, v_D_1.
  generalize (v_Dr_1 k); intro.
  generalize (v_Mr_1 k); intro.
  generalize (v_Fr_1 k); intro.
  revert Ht. generalize (v_t_1 k). intros t Ht.
  unfold f_Q, f_parallax_2, f_corr_2, f_parallax_1, f_corr_1, f_F_1, f_M_1, f_D_1, C. lit_norm.
  interval with (i_bisect t, i_depth 6).
Qed.
Theorem timing_ok : timing J0 B cc C v_jde_2.
Proof. split; [unfold C, B; lit_norm; lra | exact dev_bound]. Qed.
Lemma kk_index yr : kk yr = IZR (Rround ((yr - Rlit 199997 (-2)) * Rlit 132555 (-4))) + off.
Proof. unfold kk, off. rewrite Rround_nd_0. ring. Qed.

Definition closed_stmt : Prop :=
  forall (j : R) (y m : Z) (d doy : R) (lp : bool) (E A : R -> R),
  date_is j y m d -> leap_is y lp -> doy_is y m d doy -> Epoch_of E -> Angle_dms_of A ->
  let yr := frac_year y doy lp in
  Moon_moon_perigee_apogee Rops (VObj cEpoch [VFloat j]) (VStr "perigee") =
  VTuple [VObj cEpoch [VFloat (E (v_jde_2 (kk yr)))]; angle_val (A (v_parallax_2 (kk yr)))].
Theorem closed : closed_stmt.
Proof.
  unfold closed_stmt, date_is, leap_is, doy_is, Epoch_of, Angle_dms_of.
  intros j y m d doy lp E A Hd Hl Hdoy HE HA.
  pose proof reduce_rd as HR. pose proof new_rd as HN. pose proof pos_rd as HP.
  unfold frac_year.
  destruct lp; (match goal with |- _ =>
    pyrun2;
    unfold angle_val, kk, v_jde_2, v_parallax_2, v_corr_2, v_parallax_1, v_corr_1, v_Fr_1, v_Mr_1, v_Dr_1, v_F_1, v_M_1, v_D_1, v_jde_1, v_t_1, f_t_1, f_jde_1, f_D_1, f_M_1, f_F_1, f_corr_1, f_parallax_1, f_corr_2, f_parallax_2, f_jde_2;
    reflexivity end).
Qed.
Theorem ok : closed_stmt /\ timing J0 B cc C v_jde_2.
Proof. exact (conj closed timing_ok). Qed.
