(* Moon.moon_passage_nodes(epoch, 'descending') (thorough tier) -- the closed form without the hypothesis about Epoch(x): for a fractional
   year in -2000..4001 the instant handed to Epoch() is in the range of C02's Epoch_ctor_exact_ideal, so the returned
   Epoch holds exactly mean(k) + periodic terms.  Written by mkmoon.py (checked in). *)
From Coq Require Import Reals ZArith List Bool Lra Lia String.
From Interval Require Import Tactic.
From PyLib Require Import PyVal PyBuiltins Ideal Whnf PyEval.
From Spec Require Import MoonFinder.
From Gen Require Import M_base M_Angle M_Epoch M_Moon.
From Proofs.C02 Require Import C02_ctor_ideal.
From Proofs.C15 Require Import C15_angle C15_tac2 C15_fdefs C15_f_moon_passage_nodes_descending.
Import ListNotations.
Open Scope R_scope.
Open Scope string_scope.
Ltac2 Set Whnf.is_blocked as old := fun c =>
  Ltac2.Bool.or (old c) (Ltac2.List.exist (Ltac2.Constr.equal c)
    ['@Epoch_get_date; '@Epoch_is_leap; '@Epoch_get_doy; '@Angle_reduce_deg; '@Angle___init__;
     '@Angle_to_positive; '@Epoch___init__; '@ifv]).
Ltac lit_norm := repeat match goal with |- context [Rlit ?m ?e] =>
  let r := eval cbv -[IZR Rdiv Rmult Rinv Rplus Ropp] in (Rlit m e) in change (Rlit m e) with r end.

Lemma k_window yr : -2000 <= yr <= 4001 -> -41 <= kk yr / cc <= 21.
Proof.
  intro H. rewrite kk_index. pose proof (Rround_bounds ((yr - Rlit 200005 (-2)) * Rlit 134223 (-4))) as Rb.
  set (n := IZR (Rround ((yr - Rlit 200005 (-2)) * Rlit 134223 (-4)))) in *.
  assert (Hn : -53692 <= n + off <= 26861).
  { revert Rb. unfold off. lit_norm. intro Rb. lra. }
  revert Hn. generalize (n + off). intros x Hx. unfold cc. lit_norm. split; interval.
Qed.
Lemma X_in_range yr : -2000 <= yr <= 4001 -> jde_in_range (v_jde_2 (kk yr)).
Proof.
  intro H. pose proof (k_window yr H) as Hk. pose proof (dev_bound _ Hk) as D. apply abs_le_inv in D.
  assert (Hx : -53692 <= kk yr <= 26861).
  { rewrite kk_index. pose proof (Rround_bounds ((yr - Rlit 200005 (-2)) * Rlit 134223 (-4))) as Rb. revert Rb. unfold off. lit_norm. intro Rb. lra. }
  revert D. unfold jde_in_range, J0, B, C. lit_norm. intro D. lra.
Qed.

Definition exact_stmt : Prop :=
  forall (j : R) (y m : Z) (d doy : R) (lp : bool) (A : R -> R),
  date_is j y m d -> leap_is y lp -> doy_is y m d doy ->
  let yr := frac_year y doy lp in -2000 <= yr <= 4001 ->
  Moon_moon_passage_nodes Rops (VObj cEpoch [VFloat j]) (VStr "descending") =
  VObj cEpoch [VFloat (v_jde_2 (kk yr))].
Theorem exact : exact_stmt.
Proof.
  unfold exact_stmt, date_is, leap_is, doy_is.
  intros j y m d doy lp A Hd Hl Hdoy Hyr.
  pose proof reduce_rd as HR. pose proof new_rd as HN. pose proof pos_rd as HP.
  pose proof (Epoch_ctor_exact_ideal _ (X_in_range _ Hyr)) as HE. clear Hyr.
  unfold frac_year in *.
  destruct lp; (match goal with |- _ =>
    unfold angle_val, kk, v_jde_2, v_corr_1, v_E_1, v_Pr_1, v_Vr_1, v_Omegar_1, v_Mprimer_1, v_Mr_1, v_Dr_1, v_P_1, v_V_1, v_Omega_1, v_Mprime_1, v_M_1, v_D_1, v_jde_1, v_t_1, f_t_1, f_jde_1, f_D_1, f_M_1, f_Mprime_1, f_Omega_1, f_V_1, f_P_1, f_E_1, f_corr_1, f_jde_2 in HE; cbv iota in HE;
    pyrun2;
    unfold angle_val, kk, v_jde_2, v_corr_1, v_E_1, v_Pr_1, v_Vr_1, v_Omegar_1, v_Mprimer_1, v_Mr_1, v_Dr_1, v_P_1, v_V_1, v_Omega_1, v_Mprime_1, v_M_1, v_D_1, v_jde_1, v_t_1, f_t_1, f_jde_1, f_D_1, f_M_1, f_Mprime_1, f_Omega_1, f_V_1, f_P_1, f_E_1, f_corr_1, f_jde_2;
    reflexivity end).
Qed.
