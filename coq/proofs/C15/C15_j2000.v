(* C15: the module constant JDE2000 = Epoch(2000, 1, 1.5) evaluates to JDE 2451545 (ideal instance) *)
From Coq Require Import Reals ZArith List Bool Lra Lia String.
From PyLib Require Import PyVal PyBuiltins Ideal Whnf PyEval.
From Gen Require Import M_base M_Angle M_Epoch.
From Proofs.C15 Require Import C15_angle.
Import ListNotations.
Open Scope R_scope.

Ltac zc :=
  repeat match goal with
  | |- context [IZR ?z] =>
      lazymatch z with Z0 => fail | Zpos _ => fail | Zneg _ => fail | _ => idtac end;
      let v := eval vm_compute in z in
      lazymatch v with Z0 => idtac | Zpos _ => idtac | Zneg _ => idtac end;
      progress change z with v
  end.
Ltac zt := first [ pylra | zc; pylra ].

Ltac floor_step :=
  match goal with
  | |- context [Rfloor ?x] =>
      lazymatch x with context [Rfloor _] => fail | _ => idtac end;
      first [ rewrite (Rfloor_unique x 2452653) by (simpl; lra)
            | rewrite (Rfloor_unique x 428) by (simpl; lra)
            | rewrite (Rfloor_unique x 19) by (simpl; lra)
            | rewrite (Rfloor_unique x 4) by (simpl; lra) ]
  end.

Lemma JDE2000_val : g_JDE2000 Rops = epo 2451545.
Proof.
  unfold epo. pyrunv_using zt. zc. Rlit_norm.
  repeat floor_step. zc.
  do 3 f_equal. lra.
Qed.
