(* C15: Moon.geocentric_ecliptical_pos - statements (proofs: C15_pos_loop.v generic loop theorems,
   C15_pos_main.v instantiation on the regenerated model, C15_pos_bound.v closed forms and envelopes).
   Ideal (real-number) instance; T = (JDE - 2451545)/36525 in [-40, 20] = years -2000 .. 4000.
   LRT / BT are the two periodic-term tables decoded from the regenerated model (60 rows each);
   clr/crr/cbb i the coefficients, Nlr/Nb i the four multipliers of row i, efl/efb the eccentricity
   factor (E, E^2 or 1 as |m_i| = 1, 2, other; E = 1 - 0.002516 T - 0.0000074 T^2), polyLp .. polyF,
   polyA1 .. polyA3 the polynomials written in the code, rad_of x = (x reduced to [0,360)) * pi/180. *)
From Coq Require Import Reals ZArith List Bool Lra.
From PyLib Require Import PyVal PyBuiltins Ideal.
From Gen Require Import M_base M_Angle M_Epoch M_Moon.
From Proofs.C15 Require Import C15_angle C15_pos_loop C15_pos_main C15_pos_bound.
Import ListNotations.
Open Scope R_scope.

(* the generated function returns (Angle lambda, Angle beta, Delta, Angle parallax) with
   lambda = L' + (sigma_l + 3958 sin A1 + 1962 sin(L' - F) + 318 sin A2) / 10^6   (Angle sum, reduced)
   beta   = (sigma_b - 2235 sin L' + 382 sin A3 + 175 sin(A1 - F) + 175 sin(A1 + F)
             + 127 sin(L' - M') - 115 sin(L' + M')) / 10^6
   Delta  = 385000.56 + sigma_r / 1000 km,   parallax = asin(6378.14 / Delta)  (never a ValueError) *)
Theorem C15_moon_position : forall j : R, -40 <= (j - 2451545) / 36525 <= 20 ->
  let t := Tm j in
  Moon_geocentric_ecliptical_pos Rops (VObj cEpoch [VFloat j]) =
    VTuple [ang (moon_lambda t); ang (moon_beta t); VFloat (moon_delta t); ang (moon_par t)] /\
  t = (j - 2451545) / 36525 /\
  moon_lambda t = rdeg (norm360 (polyLp t) + (sigma_l t + add_l t) / 1000000) /\
  moon_beta t = (sigma_b t + add_b t) / 1000000 /\
  moon_delta t = Rlit 38500056 (-2) + sigma_r t / Rlit 10000 (-1) /\
  moon_par t = rdeg (asin (637814 / 100 / moon_delta t) * (180 / PI)).
Proof.
  intros j HT t. assert (-40 <= t <= 20) as Ht by (unfold t; rewrite Tm_eq; exact HT).
  split; [exact (moon_position j HT)|]. split; [exact (Tm_eq j)|].
  split; [exact (proj1 (moon_lambda_closed t Ht))|]. split; [exact (proj1 (moon_beta_closed t Ht))|].
  split; [reflexivity | exact (proj1 (moon_par_closed t Ht))].
Qed.

(* the three table sums, every T: sum_i coeff_i Efac_i sin/cos((d_i D + m_i M + m'_i M' + f_i F) deg)
   with the UNREDUCED polynomials (the code's reduction of each argument to [0,360) drops out) *)
Theorem C15_moon_series_closed_form : forall t : R,
  sigma_l t = bigsum (fun i => efl t i (clr i) * sin (dot_deg (Nlr i) t * (PI / 180))) 0 (length LRT) /\
  sigma_r t = bigsum (fun i => efl t i (crr i) * cos (dot_deg (Nlr i) t * (PI / 180))) 0 (length LRT) /\
  sigma_b t = bigsum (fun i => efb t i (cbb i) * sin (dot_deg (Nb i) t * (PI / 180))) 0 (length BT) /\
  length LRT = 60%nat /\ length BT = 60%nat.
Proof.
  intro t. split; [apply sigma_l_closed|]. split; [apply sigma_r_closed|]. split; [apply sigma_b_closed|].
  split; [exact LRT_length | exact BT_length].
Qed.

(* amplitude-sum envelopes from the extracted tables, T in [-40, 20] *)
Theorem C15_moon_envelopes : forall t : R, -40 <= t <= 20 ->
  355245 <= moon_delta t <= 414756 /\
  Rabs (moon_beta t) <= 61 / 10 /\
  Rabs ((sigma_l t + add_l t) / 1000000) <= 925 / 100 /\
  0 < 637814 / 100 / moon_delta t <= 18 / 1000.
Proof.
  intros t Ht. split; [exact (moon_delta_envelope t Ht)|]. split; [exact (proj2 (moon_beta_closed t Ht))|].
  split; [exact (proj2 (moon_lambda_closed t Ht)) | exact (proj2 (moon_par_closed t Ht))].
Qed.

Redirect "C15_moon_position.assumptions" Print Assumptions C15_moon_position.
Redirect "C15_moon_series_closed_form.assumptions" Print Assumptions C15_moon_series_closed_form.
Redirect "C15_moon_envelopes.assumptions" Print Assumptions C15_moon_envelopes.
