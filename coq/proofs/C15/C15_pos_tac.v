(* C15 (Moon position): evaluator tactics (same construction as coq/proofs/C08/C08_nut_angle.v):
   pyrunA - blocked callees are rewritten with a hypothesis or a lemma ([py_user_rw]);
   pyrunC - the same with call-by-value evaluation of arguments (long arithmetic stays linear). *)
From Coq Require Import Reals ZArith List Bool Lra Lia String.
From PyLib Require Import PyVal PyBuiltins Ideal IdealFacts Whnf PyEval.
Import ListNotations.
Open Scope R_scope.

Notation rval := (val R).

(* pyrun variant: a blocked (abstracted) callee is rewritten with a hypothesis giving its
   value, after its arguments have been evaluated; [py_user_rw] can be extended with lemmas *)
Ltac py_user_rw tac := fail.
Ltac pyrunA_using tac :=
  whnf_lhs;
  lazymatch goal with
  | |- ?l = _ =>
    tryif is_canon l then expose_R else
    first [
      lazymatch l with
      | bind ?e ?k =>
          tryif is_canon e then
            lazymatch e with
            | VErr _ => rewrite (bind_err _ k)
            | _ => rewrite (bind_ok e k) by reflexivity; cbv beta
            end
          else
            let H := fresh "Hev" in
            eassert (H : e = _) by (pyrunA_using tac; py_canon_refl);
            rewrite H; clear H
      | VTuple ?xs => first_noncanon xs ltac:(fun x =>
            let H := fresh "Hev" in
            eassert (H : x = _) by (pyrunA_using tac; py_canon_refl); rewrite H; clear H)
      | VList ?xs => first_noncanon xs ltac:(fun x =>
            let H := fresh "Hev" in
            eassert (H : x = _) by (pyrunA_using tac; py_canon_refl); rewrite H; clear H)
      | VObj _ ?xs => first_noncanon xs ltac:(fun x =>
            let H := fresh "Hev" in
            eassert (H : x = _) by (pyrunA_using tac; py_canon_refl); rewrite H; clear H)
      | _ =>
          pose_stuck;
          lazymatch goal with
          | py_stuck := ?s |- _ =>
              clear py_stuck;
              lazymatch s with
              | bind ?e ?k =>
                  let H := fresh "Hev" in
                  eassert (H : bind e k = _) by (pyrunA_using tac; py_canon_refl);
                  rewrite H; clear H
              | Rltb _ _ => py_decide_at s tac
              | Rleb _ _ => py_decide_at s tac
              | Reqb _ _ => py_decide_at s tac
              | _ =>
                  first [ match goal with H : s = _ |- _ => rewrite H end
                        | pyA_eval_arg s tac
                        | py_user_rw tac
                        | idtac "pyrunA: stuck on" s; fail 1 ]
              end
          end
      end;
      pyrunA_using tac
    | idtac ]
  end
with pyA_eval_arg s tac :=
  lazymatch s with
  | ?g ?a =>
      first [ pyA_eval_arg g tac
            | lazymatch type of a with
              | val _ =>
                  tryif is_canon a then fail else
                  (let H := fresh "Harg" in
                   eassert (H : a = _) by (pyrunA_using tac; py_canon_refl);
                   rewrite H; clear H)
              end ]
  end.
Ltac pyrunA := pyrunA_using pylra.
(* decision tactic that first computes closed integer subterms (0 mod 1 ...) *)
Ltac zcomp :=
  repeat match goal with
  | |- context [IZR ?z] =>
      lazymatch z with
      | Z0 => fail | Zpos _ => fail | Zneg _ => fail
      | _ => let z' := eval vm_compute in z in progress change z with z'
      end
  end.
Ltac pylraZ := first [ pylra | zcomp; pylra ].
Ltac pyrunZ := pyrunA_using pylraZ.


(* the same evaluator with call-by-value at every bind (used for long straight-line arithmetic) *)
Ltac pyrunC_using tac :=
  whnf_lhs;
  lazymatch goal with
  | |- ?l = _ =>
    tryif is_canon l then expose_R else
    first [
      lazymatch l with
      | bind ?e ?k =>
          tryif is_canon e then
            lazymatch e with
            | VErr _ => rewrite (bind_err _ k)
            | _ => rewrite (bind_ok e k) by reflexivity; cbv beta
            end
          else
            let H := fresh "Hev" in
            eassert (H : e = _) by (pyV_using tac; py_canon_refl);
            rewrite H; clear H
      | VTuple ?xs => first_noncanon xs ltac:(fun x =>
            let H := fresh "Hev" in
            eassert (H : x = _) by (pyrunC_using tac; py_canon_refl); rewrite H; clear H)
      | VList ?xs => first_noncanon xs ltac:(fun x =>
            let H := fresh "Hev" in
            eassert (H : x = _) by (pyrunC_using tac; py_canon_refl); rewrite H; clear H)
      | VObj _ ?xs => first_noncanon xs ltac:(fun x =>
            let H := fresh "Hev" in
            eassert (H : x = _) by (pyrunC_using tac; py_canon_refl); rewrite H; clear H)
      | _ =>
          pose_stuck;
          lazymatch goal with
          | py_stuck := ?s |- _ =>
              clear py_stuck;
              lazymatch s with
              | bind ?e ?k =>
                  let H := fresh "Hev" in
                  eassert (H : bind e k = _) by (pyrunC_using tac; py_canon_refl);
                  rewrite H; clear H
              | Rltb _ _ => py_decide_at s tac
              | Rleb _ _ => py_decide_at s tac
              | Reqb _ _ => py_decide_at s tac
              | _ =>
                  first [ match goal with H : s = _ |- _ => rewrite H end
                        | pyC_eval_arg s tac
                        | py_user_rw tac
                        | idtac "pyrunC: stuck on" s; fail 1 ]
              end
          end
      end;
      pyrunC_using tac
    | idtac ]
  end
with pyC_eval_arg s tac :=
  lazymatch s with
  | ?g ?a =>
      first [ pyC_eval_arg g tac
            | lazymatch type of a with
              | val _ =>
                  tryif is_canon a then fail else
                  (let H := fresh "Harg" in
                   eassert (H : a = _) by (pyrunC_using tac; py_canon_refl);
                   rewrite H; clear H)
              end ]
  end
(* call-by-value evaluation of [e] in a goal [e = ?v]: arguments of type val first (innermost
   first), then the call itself; nested arithmetic is linear instead of quadratic this way *)
with pyV_using tac :=
  lazymatch goal with
  | |- ?e = _ =>
      tryif is_canon e then idtac else
      first [ pyV_arg e tac; pyV_using tac | pyrunC_using tac ]
  end
with pyV_arg s tac :=
  lazymatch s with
  | ?g ?a =>
      first [ pyV_arg g tac
            | lazymatch type of a with
              | val _ =>
                  tryif is_canon a then fail else
                  (let H := fresh "Harg" in
                   eassert (H : a = _) by (pyV_using tac; py_canon_refl);
                   rewrite H; clear H)
              end ]
  end.
Ltac pyrunC := pyrunC_using pylra.

