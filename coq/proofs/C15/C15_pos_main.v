(* C15 (Moon position): Moon.geocentric_ecliptical_pos of the regenerated model, ideal instance.
   The two generated table loops are instances of C15_pos_loop.lr_fix / b_fix (unification with the
   generated text); the generic theorems then give, for the tables extracted from the source,
     sigma_l = sum_i cl_i Efac_i sin(arg_i),  sigma_r = sum_i cr_i Efac_i cos(arg_i),
     sigma_b = sum_i cb_i Efac_i sin(arg_i),  arg_i = d_i D + m_i M + m'_i M' + f_i F  (radians),
   Efac_i = E, E^2 or 1 as |m_i| = 1, 2 or otherwise, and the closed form of the returned
   (lambda, beta, Delta, parallax) with the code's own polynomials. *)
From Coq Require Import String.
From Coq Require Import Reals ZArith List Bool Lra Lia.
From PyLib Require Import PyVal PyBuiltins Ideal IdealFacts Whnf PyEval.
From Gen Require Import M_base M_Angle M_Epoch M_Moon.
From Proofs.C15 Require Import C15_angle C15_j2000 C15_pos_tac C15_pos_loop.
Import ListNotations.
Open Scope R_scope.

(* ------------------------------------------------------------------ object-level Angle lemmas *)
Lemma new_obj x : Angle___init__ Rops (VObj cAngle [VNone; VNone]) (VTuple [VFloat x]) (VDict []) = ang (rdeg x).
Proof. exact (Angle_new x). Qed.
Lemma new_red_obj x : Angle___init__ Rops (VObj cAngle [VNone; VNone]) (VTuple [VFloat (rdeg x)]) (VDict []) = ang (rdeg x).
Proof. rewrite new_obj, rdeg_idem. reflexivity. Qed.
Lemma new_rad_obj x :
  Angle___init__ Rops (VObj cAngle [VNone; VNone]) (VTuple [VFloat x]) (VDict [(VStr "radians"%string, VBool true)])
  = ang (rdeg (x * (180 / PI))).
Proof. exact (Angle_new_rad x). Qed.
Lemma topos_obj x : Angle_to_positive Rops (VObj cAngle [VFloat (rdeg x); VFloat tol0]) = VTuple [ang (norm360 x); ang (norm360 x)].
Proof. exact (to_positive_norm x). Qed.
Lemma jde_obj : g_JDE2000 Rops = VObj cEpoch [VFloat 2451545].
Proof. exact JDE2000_val. Qed.

(* ------------------------------------------------------------------ the tables, decoded *)
Definition rowLR := (Z * Z * Z * Z * R * R)%type.
Definition rowB := (Z * Z * Z * Z * R)%type.
Definition lr_m (r : rowLR) : list Z := let '(a, b, c, d, _, _) := r in [a; b; c; d].
Definition lr_cl (r : rowLR) : R := let '(_, _, _, _, x, _) := r in x.
Definition lr_cr (r : rowLR) : R := let '(_, _, _, _, _, y) := r in y.
Definition b_m (r : rowB) : list Z := let '(a, b, c, d, _) := r in [a; b; c; d].
Definition b_c (r : rowB) : R := let '(_, _, _, _, x) := r in x.
Definition mul (ns : list Z) (k : nat) : Z := nth k ns 0%Z.
Definition enc_LR (r : rowLR) : rval :=
  VList [VInt (mul (lr_m r) 0); VInt (mul (lr_m r) 1); VInt (mul (lr_m r) 2); VInt (mul (lr_m r) 3);
         VFloat (lr_cl r); VFloat (lr_cr r)].
Definition enc_B (r : rowB) : rval :=
  VList [VInt (mul (b_m r) 0); VInt (mul (b_m r) 1); VInt (mul (b_m r) 2); VInt (mul (b_m r) 3); VFloat (b_c r)].
Definition dec_LR (v : rval) : list rowLR :=
  match v with
  | VList l => map (fun r => match r with
                             | VList [VInt a; VInt b; VInt c; VInt d; VFloat x; VFloat y] => (a, b, c, d, x, y)
                             | _ => (0%Z, 0%Z, 0%Z, 0%Z, 0, 0) end) l
  | _ => []
  end.
Definition dec_B (v : rval) : list rowB :=
  match v with
  | VList l => map (fun r => match r with
                             | VList [VInt a; VInt b; VInt c; VInt d; VFloat x] => (a, b, c, d, x)
                             | _ => (0%Z, 0%Z, 0%Z, 0%Z, 0) end) l
  | _ => []
  end.
Definition LRT : list rowLR := dec_LR (g_PERIODIC_TERMS_LR_TABLE Rops).
Definition BT : list rowB := dec_B (g_PERIODIC_TERMS_B_TABLE Rops).
Definition dLR : rowLR := (0%Z, 0%Z, 0%Z, 0%Z, 0, 0).
Definition dB : rowB := (0%Z, 0%Z, 0%Z, 0%Z, 0).

Ltac table_lazy := lazy -[Rlit Rplus Rminus Rmult Rdiv Rinv Ropp IZR PI]; reflexivity.
Lemma lr_table_enc : g_PERIODIC_TERMS_LR_TABLE Rops = VList (map enc_LR LRT).
Proof. table_lazy. Qed.
Lemma b_table_enc : g_PERIODIC_TERMS_B_TABLE Rops = VList (map enc_B BT).
Proof. table_lazy. Qed.

(* ------------------------------------------------------------------ list / getitem helpers *)
Lemma nth_val_nth' (l : list rval) i d : (i < length l)%nat -> nth_val l (Z.of_nat i) = nth i l d.
Proof.
  intro Hi.
  assert ((Z.of_nat i <? 0)%Z = false) as E1 by (apply Z.ltb_ge; lia).
  assert ((Z.of_nat (length l) <=? Z.of_nat i)%Z = false) as E2 by (apply Z.leb_gt; lia).
  unfold nth_val. cbv zeta. rewrite E1. cbv iota. rewrite E1, E2. simpl orb. cbv iota.
  rewrite Nat2Z.id. apply nth_indep. exact Hi.
Qed.
Lemma getitem_map_nth {A} (f : A -> rval) l i d : (i < length l)%nat ->
  py_getitem Rops (VList (map f l)) (VInt (Z.of_nat i)) = f (nth i l d).
Proof.
  intro Hi. simpl. rewrite (nth_val_nth' _ _ (f d)) by (rewrite map_length; exact Hi).
  apply map_nth.
Qed.
Lemma enum_from_map {A} (f : A -> rval) (d : A) l k :
  enum_from (Z.of_nat k) (map f l) =
  map (fun i => VTuple [VInt (Z.of_nat i); f (nth (i - k) l d)]) (seq k (length l)).
Proof.
  revert k. induction l as [|x l IH]; intro k; simpl.
  - reflexivity.
  - rewrite Nat.sub_diag. f_equal.
    replace (Z.of_nat k + 1)%Z with (Z.of_nat (S k)) by lia. rewrite IH.
    apply map_ext_in. intros i Hi. apply in_seq in Hi.
    replace (i - k)%nat with (S (i - S k)) by lia. reflexivity.
Qed.
Lemma enumerate_table {A} (f : A -> rval) (d : A) l :
  py_iter (py_enumerate (VList (map f l))) = VList (map (urow (fun i => f (nth i l d))) (seq 0 (length l))).
Proof.
  change (py_iter (py_enumerate (VList (map f l)))) with (@VList R (enum_from (Z.of_nat 0) (map f l))).
  rewrite (enum_from_map f d). f_equal. apply map_ext. intro i. rewrite Nat.sub_0_r. reflexivity.
Qed.
Lemma bind_VList' (l : list rval) (k : rval -> rval) : bind (VList l) k = k (VList l).
Proof. reflexivity. Qed.

Definition rowLR_of (i : nat) : rval := enc_LR (nth i LRT dLR).
Definition rowB_of (i : nat) : rval := enc_B (nth i BT dB).
Lemma enumerate_LR : py_iter (py_enumerate (VList (map enc_LR LRT))) = VList (map (urow rowLR_of) (seq 0 (length LRT))).
Proof. exact (enumerate_table enc_LR dLR LRT). Qed.
Lemma enumerate_B : py_iter (py_enumerate (VList (map enc_B BT))) = VList (map (urow rowB_of) (seq 0 (length BT))).
Proof. exact (enumerate_table enc_B dB BT). Qed.

(* row i, column jj < 4 of a table: the multiplier *)
Lemma lr_mult i jj : (i < length LRT)%nat -> (jj < 4)%nat ->
  py_getitem Rops (py_getitem Rops (VList (map enc_LR LRT)) (VInt (Z.of_nat i))) (VInt (Z.of_nat jj))
  = VInt (mul (lr_m (nth i LRT dLR)) jj).
Proof.
  intros Hi Hj. rewrite (getitem_map_nth enc_LR LRT i dLR Hi). unfold enc_LR.
  destruct jj as [|[|[|[|jj]]]]; try reflexivity. lia.
Qed.
Lemma b_mult i jj : (i < length BT)%nat -> (jj < 4)%nat ->
  py_getitem Rops (py_getitem Rops (VList (map enc_B BT)) (VInt (Z.of_nat i))) (VInt (Z.of_nat jj))
  = VInt (mul (b_m (nth i BT dB)) jj).
Proof.
  intros Hi Hj. rewrite (getitem_map_nth enc_B BT i dB Hi). unfold enc_B.
  destruct jj as [|[|[|[|jj]]]]; try reflexivity. lia.
Qed.
Lemma args_getitem (a b c d : R) jj : (jj < 4)%nat ->
  py_getitem Rops (VList [VFloat a; VFloat b; VFloat c; VFloat d]) (VInt (Z.of_nat jj)) = VFloat (nth jj [a; b; c; d] 0).
Proof. intro Hj. destruct jj as [|[|[|[|jj]]]]; try reflexivity. lia. Qed.

(* ------------------------------------------------------------------ the code's polynomials *)
Definition Tm (j : R) : R := (j - 2451545) / Rlit 365250 (-1).
Definition polyLp (t : R) : R := Rlit 2183164477 (-7) + (Rlit 48126788123421 (-8) + (Rlit (-15786) (-7) + (Rlit 10 (-1) / Rlit 5388410 (-1) - t / Rlit 651940000 (-1)) * t) * t) * t.
Definition polyD (t : R) : R := Rlit 2978501921 (-7) + (Rlit 4452671114034 (-7) + (Rlit (-18819) (-7) + (Rlit 10 (-1) / Rlit 5458680 (-1) - t / Rlit 1130650000 (-1)) * t) * t) * t.
Definition polyM (t : R) : R := Rlit 3575291092 (-7) + (Rlit 359990502909 (-7) + (Rlit (-1536) (-7) + t / Rlit 244900000 (-1)) * t) * t.
Definition polyMp (t : R) : R := Rlit 1349633964 (-7) + (Rlit 4771988675055 (-7) + (Rlit 87414 (-7) + (Rlit 10 (-1) / Rlit 696999 (-1) + t / Rlit 147120000 (-1)) * t) * t) * t.
Definition polyF (t : R) : R := Rlit 932720950 (-7) + (Rlit 4832020175233 (-7) + (Rlit (-36539) (-7) + (Rlit (-10) (-1) / Rlit 35260000 (-1) + t / Rlit 8633100000 (-1)) * t) * t) * t.
Definition polyA1 (t : R) : R := Rlit 11975 (-2) + Rlit 131849 (-3) * t.
Definition polyA2 (t : R) : R := Rlit 5309 (-2) + Rlit 479264290 (-3) * t.
Definition polyA3 (t : R) : R := Rlit 31345 (-2) + Rlit 481266484 (-3) * t.
Definition Ecc (t : R) : R := Rlit 10 (-1) + (Rlit (-2516) (-6) - Rlit 74 (-7) * t) * t.
(* reduced to [0,360) and converted to radians, as the code does *)
Definition rad_of (x : R) : R := norm360 x * (PI / 180).
Definition margs (t : R) : list R := [rad_of (polyD t); rad_of (polyM t); rad_of (polyMp t); rad_of (polyF t)].

(* what the loops compute *)
Definition Nlr (i jj : nat) : Z := mul (lr_m (nth i LRT dLR)) jj.
Definition Nb (i jj : nat) : Z := mul (b_m (nth i BT dB)) jj.
Definition Ulr (t : R) (i jj : nat) (a : R) : R := a + IZR (Nlr i jj) * nth jj (margs t) 0.
Definition Ub (t : R) (i jj : nat) (a : R) : R := a + IZR (Nb i jj) * nth jj (margs t) 0.
Definition b1lr (i : nat) : bool := (Z.abs (Nlr i 1) =? 1)%Z.
Definition b2lr (i : nat) : bool := (Z.abs (Nlr i 1) =? 2)%Z.
Definition b1b (i : nat) : bool := (Z.abs (Nb i 1) =? 1)%Z.
Definition b2b (i : nat) : bool := (Z.abs (Nb i 1) =? 2)%Z.
Definition acc_sin (d c a : R) : R := d + c * sin a.
Definition acc_cos (d c a : R) : R := d + c * cos a.
Definition clr (i : nat) : R := lr_cl (nth i LRT dLR).
Definition crr (i : nat) : R := lr_cr (nth i LRT dLR).
Definition cbb (i : nat) : R := b_c (nth i BT dB).
Definition sigma_l (t : R) : R :=
  fold_left (fun d i => acc_sin d (efac (b1lr i) (b2lr i) (Ecc t) (Ecc t * Ecc t) (clr i)) (row_arg 4 (Rlit 0 (-1)) Nlr (Ulr t) i))
            (seq 0 (length LRT)) (Rlit 0 (-1)).
Definition sigma_r (t : R) : R :=
  fold_left (fun d i => acc_cos d (efac (b1lr i) (b2lr i) (Ecc t) (Ecc t * Ecc t) (crr i)) (row_arg 4 (Rlit 0 (-1)) Nlr (Ulr t) i))
            (seq 0 (length LRT)) (Rlit 0 (-1)).
Definition sigma_b (t : R) : R :=
  fold_left (fun d i => acc_sin d (efac (b1b i) (b2b i) (Ecc t) (Ecc t * Ecc t) (cbb i)) (row_arg 4 (Rlit 0 (-1)) Nb (Ub t) i))
            (seq 0 (length BT)) (Rlit 0 (-1)).

Ltac2 Set Whnf.is_blocked as old := fun c =>
  Ltac2.Bool.or (old c) (Ltac2.List.exist (Ltac2.Constr.equal c)
    ['@g_JDE2000; '@Angle___init__; '@Angle_to_positive; '@Angle_reduce_deg; '@py_getitem; '@py_enumerate;
     '@g_PERIODIC_TERMS_LR_TABLE; '@g_PERIODIC_TERMS_B_TABLE]).
Ltac py_user_rw tac ::=
  first [ rewrite jde_obj | rewrite reduce_val | rewrite new_red_obj | rewrite new_obj | rewrite new_rad_obj | rewrite topos_obj ].

(* the LR loop: goal [bind (py_iter (py_enumerate (g_LR Rops))) (fun l => FIX (seq_of l) ...) = _] *)
Ltac lr_stage j :=
  rewrite lr_table_enc; rewrite enumerate_LR;
  let rows := fresh "rows" in let Hrows := fresh "Hrows" in
  remember (map (urow rowLR_of) (seq 0 (length LRT))) as rows eqn:Hrows;
  rewrite bind_VList'; cbv beta;
  match goal with |- context [seq_of (VList ?l)] => change (seq_of (VList l)) with l end;
  expose_R;
  match goal with |- ?f _ _ _ _ _ _ _ _ _ = _ =>
     let g := open_constr:(lr_fix _ _ _ _ _ _ _ _ _ _ _ _ _) in unify f g;
     let g' := eval cbv beta delta [lr_fix] in g in
     change f with g';
     let HH := fresh "HH" in
     assert (HH : g' = g) by abstract (cbv beta delta [lr_fix]; reflexivity);
     rewrite HH; clear HH end;
  lazymatch goal with
  | |- lr_fix ?KK ?IA ?RNG ?CC4 ?CC5 ?TT1 ?TT2 ?MME ?MME2 ?AACCL ?AACCR ?CCOND ?UUPD _ ?aa ?c1 ?c2 ?ii ?jj0 (VFloat ?sl) (VFloat ?sr) ?vv = _ =>
    assert (HIA : IA = VFloat (Rlit 0 (-1))) by reflexivity;
    assert (HRNG : RNG = VList (zrange_nat 0 4)) by reflexivity;
    assert (HC4 : forall i, (i < length LRT)%nat -> CC4 (urow rowLR_of i) = VFloat (clr i)) by (intros; reflexivity);
    assert (HC5 : forall i, (i < length LRT)%nat -> CC5 (urow rowLR_of i) = VFloat (crr i)) by (intros; reflexivity);
    assert (HT1 : forall i, (i < length LRT)%nat -> TT1 (urow rowLR_of i) = VBool (b1lr i));
    [ intros i _; cbv beta;
      change (py_getitem Rops (item (urow rowLR_of i) 1) (VInt 1)) with (@VInt R (Nlr i 1)); pyrun; reflexivity | ];
    assert (HT2 : forall i, (i < length LRT)%nat -> TT2 (urow rowLR_of i) = VBool (b2lr i));
    [ intros i _; cbv beta;
      change (py_getitem Rops (item (urow rowLR_of i) 1) (VInt 1)) with (@VInt R (Nlr i 1)); pyrun; reflexivity | ];
    assert (HME : forall c, MME (VFloat c) = VFloat (c * Ecc (Tm j))) by (intro c; cbv beta; pyrun; reflexivity);
    assert (HME2 : forall c, MME2 (VFloat c) = VFloat (c * (Ecc (Tm j) * Ecc (Tm j)))) by (intro c; cbv beta; pyrun; reflexivity);
    assert (HACCL : forall d c a, AACCL (VFloat d) (VFloat c) (VFloat a) = VFloat (acc_sin d c a)) by (intros d c a; cbv beta; pyrunC; reflexivity);
    assert (HACCR : forall d c a, AACCR (VFloat d) (VFloat c) (VFloat a) = VFloat (acc_cos d c a)) by (intros d c a; cbv beta; pyrunC; reflexivity);
    assert (HCOND : forall i jj, (i < length LRT)%nat -> (jj < 4)%nat ->
                    CCOND (urow rowLR_of i) (VInt (Z.of_nat jj)) = VInt (Nlr i jj));
    [ intros i jj Hi Hjj; cbv beta; change (item (urow rowLR_of i) 0) with (@VInt R (Z.of_nat i));
      exact (lr_mult i jj Hi Hjj) | ];
    assert (HUPD : forall i jj a, (i < length LRT)%nat -> (jj < 4)%nat ->
                   UUPD (urow rowLR_of i) (VInt (Z.of_nat jj)) (VFloat a) = VFloat (Ulr (Tm j) i jj a));
    [ intros i jj a Hi Hjj; cbv beta; change (item (urow rowLR_of i) 0) with (@VInt R (Z.of_nat i));
      rewrite (lr_mult i jj Hi Hjj); rewrite (args_getitem _ _ _ _ jj Hjj);
      pyrun; reflexivity | ];
    let E := fresh "E" in
    destruct (lr_fix_spec KK IA RNG CC4 CC5 TT1 TT2 MME MME2 AACCL AACCR CCOND UUPD rowLR_of (length LRT) 4
                (Rlit 0 (-1)) (Ecc (Tm j)) (Ecc (Tm j) * Ecc (Tm j)) clr crr b1lr b2lr Nlr (Ulr (Tm j)) acc_sin acc_cos
                HIA HRNG HC4 HC5 HT1 HT2 HME HME2 HACCL HACCR HCOND HUPD
                (length LRT) 0%nat aa c1 c2 ii jj0 sl sr vv (le_n _)) as (?a' & ?x1 & ?x2 & ?i' & ?j' & ?v' & E);
    rewrite <- Hrows in E; rewrite E; clear E HIA HRNG HC4 HC5 HT1 HT2 HME HME2 HACCL HACCR HCOND HUPD
  end.

(* the B loop *)
Ltac b_stage j :=
  rewrite b_table_enc; rewrite enumerate_B;
  let rows := fresh "rows" in let Hrows := fresh "Hrows" in
  remember (map (urow rowB_of) (seq 0 (length BT))) as rows eqn:Hrows;
  rewrite bind_VList'; cbv beta;
  match goal with |- context [seq_of (VList ?l)] => change (seq_of (VList l)) with l end;
  expose_R;
  match goal with |- ?f _ _ _ _ _ _ _ = _ =>
     let g := open_constr:(b_fix _ _ _ _ _ _ _ _ _ _ _) in unify f g;
     let g' := eval cbv beta delta [b_fix] in g in
     change f with g';
     let HH := fresh "HH" in
     assert (HH : g' = g) by abstract (cbv beta delta [b_fix]; reflexivity);
     rewrite HH; clear HH end;
  lazymatch goal with
  | |- b_fix ?KK ?IA ?RNG ?CC4 ?TT1 ?TT2 ?MME ?MME2 ?AACC ?CCOND ?UUPD _ ?aa ?c1 ?ii ?jj0 (VFloat ?sb) ?vv = _ =>
    assert (HIA : IA = VFloat (Rlit 0 (-1))) by reflexivity;
    assert (HRNG : RNG = VList (zrange_nat 0 4)) by reflexivity;
    assert (HC4 : forall i, (i < length BT)%nat -> CC4 (urow rowB_of i) = VFloat (cbb i)) by (intros; reflexivity);
    assert (HT1 : forall i, (i < length BT)%nat -> TT1 (urow rowB_of i) = VBool (b1b i));
    [ intros i _; cbv beta;
      change (py_getitem Rops (item (urow rowB_of i) 1) (VInt 1)) with (@VInt R (Nb i 1)); pyrun; reflexivity | ];
    assert (HT2 : forall i, (i < length BT)%nat -> TT2 (urow rowB_of i) = VBool (b2b i));
    [ intros i _; cbv beta;
      change (py_getitem Rops (item (urow rowB_of i) 1) (VInt 1)) with (@VInt R (Nb i 1)); pyrun; reflexivity | ];
    assert (HME : forall c, MME (VFloat c) = VFloat (c * Ecc (Tm j))) by (intro c; cbv beta; pyrun; reflexivity);
    assert (HME2 : forall c, MME2 (VFloat c) = VFloat (c * (Ecc (Tm j) * Ecc (Tm j)))) by (intro c; cbv beta; pyrun; reflexivity);
    assert (HACC : forall d c a, AACC (VFloat d) (VFloat c) (VFloat a) = VFloat (acc_sin d c a)) by (intros d c a; cbv beta; pyrunC; reflexivity);
    assert (HCOND : forall i jj, (i < length BT)%nat -> (jj < 4)%nat ->
                    CCOND (urow rowB_of i) (VInt (Z.of_nat jj)) = VInt (Nb i jj));
    [ intros i jj Hi Hjj; cbv beta; change (item (urow rowB_of i) 0) with (@VInt R (Z.of_nat i));
      exact (b_mult i jj Hi Hjj) | ];
    assert (HUPD : forall i jj a, (i < length BT)%nat -> (jj < 4)%nat ->
                   UUPD (urow rowB_of i) (VInt (Z.of_nat jj)) (VFloat a) = VFloat (Ub (Tm j) i jj a));
    [ intros i jj a Hi Hjj; cbv beta; change (item (urow rowB_of i) 0) with (@VInt R (Z.of_nat i));
      rewrite (b_mult i jj Hi Hjj); rewrite (args_getitem _ _ _ _ jj Hjj);
      pyrun; reflexivity | ];
    let E := fresh "E" in
    destruct (b_fix_spec KK IA RNG CC4 TT1 TT2 MME MME2 AACC CCOND UUPD rowB_of (length BT) 4
                (Rlit 0 (-1)) (Ecc (Tm j)) (Ecc (Tm j) * Ecc (Tm j)) cbb b1b b2b Nb (Ub (Tm j)) acc_sin
                HIA HRNG HC4 HT1 HT2 HME HME2 HACC HCOND HUPD
                (length BT) 0%nat aa c1 ii jj0 sb vv (le_n _)) as (?a' & ?x1 & ?i' & ?j' & ?v' & E);
    rewrite <- Hrows in E; rewrite E; clear E HIA HRNG HC4 HT1 HT2 HME HME2 HACC HCOND HUPD
  end.

(* the additive terms and the results *)
Definition add_l (t : R) : R :=
  Rlit 39580 (-1) * sin (rad_of (polyA1 t)) + Rlit 19620 (-1) * sin (rad_of (polyLp t) - rad_of (polyF t))
  + Rlit 3180 (-1) * sin (rad_of (polyA2 t)).
Definition add_b (t : R) : R :=
  Rlit (-22350) (-1) * sin (rad_of (polyLp t)) + Rlit 3820 (-1) * sin (rad_of (polyA3 t))
  + Rlit 1750 (-1) * sin (rad_of (polyA1 t) - rad_of (polyF t)) + Rlit 1750 (-1) * sin (rad_of (polyA1 t) + rad_of (polyF t))
  + Rlit 1270 (-1) * sin (rad_of (polyLp t) - rad_of (polyMp t)) - Rlit 1150 (-1) * sin (rad_of (polyLp t) + rad_of (polyMp t)).
Definition moon_delta (t : R) : R := Rlit 38500056 (-2) + sigma_r t / Rlit 10000 (-1).
Definition moon_lambda (t : R) : R := rdeg (norm360 (polyLp t) + (sigma_l t + add_l t) / Rlit 10000000 (-1)).
Definition moon_beta (t : R) : R := rdeg ((sigma_b t + add_b t) / Rlit 10000000 (-1)).
Definition moon_par (t : R) : R := rdeg (asin (Rlit 637814 (-2) / moon_delta t) * (180 / PI)).

Theorem moon_pos_struct j :
  Rabs (sigma_r (Tm j)) <= 34000000 ->
  Moon_geocentric_ecliptical_pos Rops (VObj cEpoch [VFloat j]) =
  VTuple [ang (moon_lambda (Tm j)); ang (moon_beta (Tm j)); VFloat (moon_delta (Tm j)); ang (moon_par (Tm j))].
Proof.
  intro Hsr.
  assert (Hd : 351000 <= moon_delta (Tm j) <= 419001).
  { unfold moon_delta. unfold Rabs in Hsr. destruct (Rcase_abs (sigma_r (Tm j))); Rlit_norm; lra. }
  assert (Hq : -1 <= Rlit 637814 (-2) / moon_delta (Tm j) <= 1).
  { assert (0 < / moon_delta (Tm j) <= / 351000) as [I1 I2].
    { split; [apply Rinv_0_lt_compat; lra | apply Rinv_le_contravar; lra]. }
    unfold Rdiv. Rlit_norm. split; nra. }
  unfold moon_delta in Hd, Hq.
  pyrunC. fold (Tm j).
  fold (polyLp (Tm j)) (polyD (Tm j)) (polyM (Tm j)) (polyMp (Tm j)) (polyF (Tm j)) (polyA1 (Tm j)) (polyA2 (Tm j)) (polyA3 (Tm j)).
  fold (Ecc (Tm j)).
  fold (rad_of (polyLp (Tm j))) (rad_of (polyD (Tm j))) (rad_of (polyM (Tm j))) (rad_of (polyMp (Tm j))) (rad_of (polyF (Tm j))) (rad_of (polyA1 (Tm j))) (rad_of (polyA2 (Tm j))) (rad_of (polyA3 (Tm j))).
  cbv beta zeta.
  lr_stage j.
  fold (sigma_l (Tm j)) (sigma_r (Tm j)).
  pyrunC.
  b_stage j.
  fold (sigma_b (Tm j)).
  pyrunC.
  unfold ang, moon_lambda, moon_beta, moon_delta, moon_par, add_l, add_b. reflexivity.
Qed.
