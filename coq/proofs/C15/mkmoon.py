#!/venv/bin/python
"""mkmoon.py -- writes C15_f_<finder>_<target>.v (closed form + amplitude bound per finder/target) and
C15_e_<finder>.v (TypeError / ValueError behaviour) for the four lunar event finders of pymeeus/Moon.py.

Run ONCE by the author (python mkmoon.py [/repo]); the output is checked in and the check never runs this
script.  It follows the Python text of each finder along the path a concrete target string takes and writes
every assignment down as a Coq definition (same expression shape, literals as Rlit m e = m*10^e); the proof
script then shows that the REGENERATED model computes exactly that, so a later change of any coefficient,
sign, offset or rounding rule in /repo breaks the proof.
"""
import ast, os, sys, json
from decimal import Decimal
from fractions import Fraction

REPO = sys.argv[1] if len(sys.argv) > 1 else "/repo"
OUT = os.path.dirname(os.path.abspath(__file__))
# moon_phase targets can be generated too (add them here), but one target needs > 40 min / 6 GB to check
FINDERS = {"moon_phase": [], "moon_perigee_apogee": ["perigee", "apogee"],
           "moon_passage_nodes": ["ascending", "descending"], "moon_maximum_declination": ["northern", "southern"]}
# targets whose closed form is also proved without the Epoch(x) hypothesis (thorough tier, C02's constructor theorem)
EXACT = [("moon_passage_nodes", "ascending"), ("moon_passage_nodes", "descending"), ("moon_perigee_apogee", "apogee")]
BAD_STRINGS = ["", "New", "NEW", "half", "none", "newer"]
TLO, THI = -41, 21


class Bad(Exception):
    pass


def lit_parts(text, neg=False):
    d = Decimal(text)
    sign, digits, exp = d.as_tuple()
    m = int("".join(map(str, digits))) if digits else 0
    if sign: m = -m
    if neg: m = -m
    return m, exp, Fraction(d) * (-1 if neg else 1)


def rlit(m, e):
    return "Rlit %s %s" % (m if m >= 0 else "(%d)" % m, e if e >= 0 else "(%d)" % e)


class Gen:
    def __init__(self, src, fn, target):
        self.src, self.fn, self.target = src, fn, target
        self.lines = src.splitlines()
        self.env = {}        # python name -> ("real", vname) | ("angle", vname of degrees) | ...
        self.ver = {}
        self.defs = []       # coq text lines
        self.arith = []      # v_ names of arithmetic definitions (to unfold)
        self.rads = []       # v_ names of angle-in-radians definitions (to generalise)
        self.fnames = []     # f_ names
        self.exprs = {}      # vname -> (ast node, {python name: vname}) for interval evaluation
        self.kdef = None
        self.jde_incr = []   # coq refs of increments of jde (other than the constant)
        self.J0 = None; self.B = None; self.Q = None
        self.ret = None
        self.cc = None
        self.incr_env = {}
        self.order = []

    # ---- literals / expressions
    def seg(self, n):
        if n.lineno != n.end_lineno: raise Bad("multi-line literal")
        return self.lines[n.lineno - 1].encode()[n.col_offset:n.end_col_offset].decode()

    def const(self, n):
        """(m, e, Fraction) of a float literal node, possibly negated"""
        if isinstance(n, ast.Constant) and isinstance(n.value, float):
            return lit_parts(self.seg(n))
        if isinstance(n, ast.UnaryOp) and isinstance(n.op, ast.USub) and isinstance(n.operand, ast.Constant) \
                and isinstance(n.operand.value, float):
            return lit_parts(self.seg(n.operand), True)
        return None

    def coq(self, n, names):
        """Coq text of an arithmetic expression; names: python name -> coq parameter name (collects)"""
        c = self.const(n)
        if c is not None:
            return "(%s)" % rlit(c[0], c[1])
        if isinstance(n, ast.Constant):
            if isinstance(n.value, int) and not isinstance(n.value, bool):
                return "(IZR %s)" % (n.value if n.value >= 0 else "(%d)" % n.value)
            raise Bad("constant %r" % (n.value,))
        if isinstance(n, ast.UnaryOp) and isinstance(n.op, ast.USub):
            return "(- %s)" % self.coq(n.operand, names)
        if isinstance(n, ast.BinOp):
            op = {ast.Add: "+", ast.Sub: "-", ast.Mult: "*", ast.Div: "/"}.get(type(n.op))
            if not op: raise Bad("operator")
            return "(%s %s %s)" % (self.coq(n.left, names), op, self.coq(n.right, names))
        if isinstance(n, ast.Name):
            if n.id not in names:
                names[n.id] = "x" + n.id
            return names[n.id]
        if isinstance(n, ast.Call) and isinstance(n.func, ast.Name) and n.func.id in ("sin", "cos") and len(n.args) == 1:
            return "(%s %s)" % (n.func.id, self.coq(n.args[0], names))
        raise Bad("expression " + ast.dump(n)[:80])

    def ref(self, pyname):
        if pyname == "k": return "k"
        kind, v = self.env[pyname]
        if kind != "real": raise Bad("%s is not a real here" % pyname)
        return "(%s k)" % v

    def fresh(self, pyname):
        self.ver[pyname] = self.ver.get(pyname, 0) + 1
        return "%s_%d" % (pyname, self.ver[pyname])

    def define(self, pyname, node, extra=None):
        """arithmetic assignment pyname = node (node over current env)"""
        names = {}
        body = self.coq(node, names)
        tag = self.fresh(pyname)
        params = list(names.items())
        ptxt = " ".join(p for _, p in params)
        self.defs.append("Definition f_%s (%s : R) : R :=\n  %s." % (tag, ptxt, body) if params else
                         "Definition f_%s : R :=\n  %s." % (tag, body))
        args = " ".join(self.ref(py) for py, _ in params)
        self.defs.append("Definition v_%s (k : R) : R := f_%s %s." % (tag, tag, args))
        self.fnames.append("f_" + tag); self.arith.append("v_" + tag); self.order.append("v_" + tag)
        self.exprs["v_" + tag] = (node, {py: (self.env[py][1] if py != "k" else "k") for py, _ in params})
        self.env[pyname] = ("real", "v_" + tag)
        return "v_" + tag

    # ---- statements
    def test(self, t):
        if isinstance(t, ast.Compare) and len(t.ops) == 1 and isinstance(t.left, ast.Name) and t.left.id == "target" \
                and isinstance(t.comparators[0], ast.Constant) and isinstance(t.comparators[0].value, str):
            eq = self.target == t.comparators[0].value
            return eq if isinstance(t.ops[0], ast.Eq) else (not eq) if isinstance(t.ops[0], ast.NotEq) else None
        if isinstance(t, ast.BoolOp):
            vs = [self.test(v) for v in t.values]
            if None in vs: return None
            return any(vs) if isinstance(t.op, ast.Or) else all(vs)
        return None

    def run(self, body):
        for st in body:
            self.stmt(st)

    def stmt(self, st):
        u = ast.unparse(st)
        if isinstance(st, ast.Expr) and isinstance(st.value, ast.Constant): return      # docstring
        if isinstance(st, ast.If):
            if len(st.body) == 1 and isinstance(st.body[0], ast.Raise): return              # argument checks
            if u.startswith("if Epoch.is_leap(y):"): return                                    # year prelude
            v = self.test(st.test)
            if v is None: raise Bad("if " + ast.unparse(st.test))
            self.run(st.body if v else st.orelse)
            return
        if isinstance(st, ast.Assign) and len(st.targets) == 1:
            tg, val = st.targets[0], st.value
            uv = ast.unparse(val)
            if u in ("(y, m, d) = epoch.get_date()", "y, m, d = epoch.get_date()", "num_days_year = 365.0",
                     "doy = Epoch.get_doy(y, m, d)"): return
            if u == "year = y + doy / num_days_year":
                self.env["year"] = ("year", None); return
            if not isinstance(tg, ast.Name): raise Bad("target " + u)
            name = tg.id
            if name == "k":
                # k = round((year - y0) * rate, 0)
                if not (isinstance(val, ast.Call) and ast.unparse(val.func) == "round" and len(val.args) == 2
                        and ast.unparse(val.args[1]) == "0"): raise Bad("k formula")
                a = val.args[0]
                if not (isinstance(a, ast.BinOp) and isinstance(a.op, ast.Mult) and isinstance(a.left, ast.BinOp)
                        and isinstance(a.left.op, ast.Sub) and ast.unparse(a.left.left) == "year"): raise Bad("k formula")
                y0, rate = self.const(a.left.right), self.const(a.right)
                self.kdef = {"y0": y0, "rate": rate, "off": None}
                return
            if uv == "Angle(Angle.reduce_deg(%s)).to_positive()" % name:
                kind, v = self.env[name]
                self.env[name] = ("angle", "norm360 (%s k)" % v); return
            if isinstance(val, ast.Call) and isinstance(val.func, ast.Attribute) and val.func.attr == "rad" \
                    and isinstance(val.func.value, ast.Name) and not val.args:
                kind, deg = self.env[val.func.value.id]
                if kind != "angle": raise Bad("rad of non-angle")
                tag = self.fresh(name)
                self.defs.append("Definition v_%s (k : R) : R := %s * (PI / 180)." % (tag, deg))
                self.rads.append("v_" + tag); self.order.append("v_" + tag)
                self.env[name] = ("real", "v_" + tag); return
            if uv == "Epoch(jde)" and name == "jde":
                self.env["jde"] = ("epoch", self.env["jde"][1]); return
            if uv == "Angle(0, 0, parallax)":
                self.env[name] = ("dms", self.env["parallax"][1]); return
            if uv == "Angle(Angle.reduce_deg(declination))":
                self.env[name] = ("rdegangle", self.env["declination"][1]); return
            if name == "jde" and "jde" not in self.env:
                self.mean(val)
            self.define(name, val)
            if name == "jde" and self.ver["jde"] == 1: self.jde_mean = self.env["jde"][1]
            if name == "t":
                if not (isinstance(val, ast.BinOp) and isinstance(val.op, ast.Div) and ast.unparse(val.left) == "k"):
                    raise Bad("t formula")
                self.cc = self.const(val.right)
            return
        if isinstance(st, ast.AugAssign) and isinstance(st.target, ast.Name):
            name = st.target.id
            if name == "k":
                if not isinstance(st.op, ast.Add): raise Bad("k aug")
                self.kdef["off"] = self.const(st.value); return
            node = ast.BinOp(left=ast.Name(id=name, ctx=ast.Load()), op=st.op, right=st.value)
            if name == "jde":
                c = self.const(st.value)
                if c is not None and isinstance(st.op, ast.Add):
                    self.J0 = c
                else:
                    names = {}
                    txt = self.coq(st.value, names)
                    import re
                    for py, p in names.items():
                        txt = re.sub(r"\b%s\b" % re.escape(p), lambda m_, r_=self.ref(py): r_, txt)
                    self.incr_env[id(st.value)] = {py: self.env[py][1] for py in names}
                    self.jde_incr.append((txt, st.value))
            self.define(name, node)
            return
        if isinstance(st, ast.Return):
            self.ret = [n.id for n in st.value.elts] if isinstance(st.value, ast.Tuple) else [st.value.id]
            return
        raise Bad("statement " + u[:60])

    def mean(self, val):
        """jde = J0 + B*k + Q   or   jde = B*k + Q (J0 added later)"""
        if not (isinstance(val, ast.BinOp) and isinstance(val.op, ast.Add)): raise Bad("mean")
        self.Q = val.right
        lin = val.left
        if isinstance(lin, ast.BinOp) and isinstance(lin.op, ast.Add):
            self.J0 = self.const(lin.left); lin = lin.right
        if not (isinstance(lin, ast.BinOp) and isinstance(lin.op, ast.Mult) and ast.unparse(lin.right) == "k"): raise Bad("mean B")
        self.B = self.const(lin.left)

    # ---- interval evaluation (Fractions): sin/cos -> [-1,1], rads free
    def ival(self, n, env):
        c = self.const(n)
        if c is not None: return (c[2], c[2])
        if isinstance(n, ast.Constant): return (Fraction(n.value), Fraction(n.value))
        if isinstance(n, ast.UnaryOp):
            lo, hi = self.ival(n.operand, env); return (-hi, -lo)
        if isinstance(n, ast.BinOp):
            a, b = self.ival(n.left, env), self.ival(n.right, env)
            if isinstance(n.op, ast.Add): return (a[0] + b[0], a[1] + b[1])
            if isinstance(n.op, ast.Sub): return (a[0] - b[1], a[1] - b[0])
            if isinstance(n.op, ast.Mult):
                ps = [a[0] * b[0], a[0] * b[1], a[1] * b[0], a[1] * b[1]]; return (min(ps), max(ps))
            raise Bad("div")
        if isinstance(n, ast.Name): return env[n.id]
        if isinstance(n, ast.Call): return (Fraction(-1), Fraction(1))
        raise Bad("ival")

    def veval(self, vname, tint, cache):
        """interval of the arithmetic definition vname for t in tint"""
        if vname in cache: return cache[vname]
        node, deps = self.exprs[vname]
        env = {}
        for py, v in deps.items():
            if v in self.rads: env[py] = (Fraction(-10**9), Fraction(10**9))
            elif py == "t": env[py] = tint
            elif py == "k": env[py] = (Fraction(-10**9), Fraction(10**9))
            else: env[py] = self.veval(v, tint, cache)
        cache[vname] = self.ival(node, env)
        return cache[vname]


def dec_up(x, places):
    q = 10 ** places
    n = -((-x.numerator * q) // x.denominator)
    return rlit(n, -places), Fraction(n, q)


HEADER = """From Coq Require Import Reals ZArith List Bool Lra Lia String.
From Interval Require Import Tactic.
From PyLib Require Import PyVal PyBuiltins Ideal Whnf PyEval.
From Spec Require Import MoonFinder.
From Gen Require Import M_base M_Angle M_Epoch M_Moon.
From Proofs.C15 Require Import C15_angle C15_tac2 C15_fdefs.
Import ListNotations.
Open Scope R_scope.
Open Scope string_scope.
Ltac2 Set Whnf.is_blocked as old := fun c =>
  Ltac2.Bool.or (old c) (Ltac2.List.exist (Ltac2.Constr.equal c)
    ['@Epoch_get_date; '@Epoch_is_leap; '@Epoch_get_doy; '@Angle_reduce_deg; '@Angle___init__;
     '@Angle_to_positive; '@Epoch___init__; '@ifv]).
Ltac lit_norm := repeat match goal with |- context [Rlit ?m ?e] =>
  let r := eval cbv -[IZR Rdiv Rmult Rinv Rplus Ropp] in (Rlit m e) in change (Rlit m e) with r end.
"""


def emit(src, fnode, fn, target):
    g = Gen(src, fn, target)
    g.run(fnode.body)
    if g.kdef is None or g.J0 is None or g.B is None or g.cc is None or g.ret is None: raise Bad("incomplete")
    L = []
    w = L.append
    mod = "C15_f_%s_%s" % (fn, target)
    w("(* Moon.%s(epoch, %r) -- closed form of the regenerated model (ideal instance), deviation bound." % (fn, target))
    w("   Written by mkmoon.py from the source text (checked in); re-proved against the regenerated model every run. *)")
    w(HEADER)
    y0, rate, off = g.kdef["y0"], g.kdef["rate"], g.kdef["off"]
    w("(* index from the fractional year yr, as the code computes it *)")
    kbody = "Rround_nd ((yr - %s) * %s) 0" % (rlit(y0[0], y0[1]), rlit(rate[0], rate[1]))
    if off is not None: kbody = "%s + %s" % (kbody, rlit(off[0], off[1]))
    w("Definition kk (yr : R) : R := %s." % kbody)
    w("Definition off : R := %s." % (rlit(off[0], off[1]) if off is not None else "0"))
    w("Definition J0 : R := %s." % rlit(g.J0[0], g.J0[1]))
    w("Definition B : R := %s." % rlit(g.B[0], g.B[1]))
    w("Definition cc : R := %s." % rlit(g.cc[0], g.cc[1]))
    w("(* every assignment along the path of target %r, as a function of the index k *)" % target)
    for d in g.defs: w(d)
    names = {}
    qtxt = g.coq(g.Q, names)
    if list(names) != ["t"]: raise Bad("Q depends on " + str(list(names)))
    w("Definition f_Q (xt : R) : R :=\n  %s." % qtxt)
    jde_final = g.env["jde"][1]
    kind = g.env["jde"][0]
    if kind != "epoch": raise Bad("jde not wrapped in Epoch")
    # result shape
    if g.ret == ["jde"]:
        shape = "VObj cEpoch [VFloat (E (%s (kk yr)))]" % jde_final
        extra_hyp = ""
    else:
        k2, v2 = g.env[g.ret[1]]
        if k2 == "dms":
            shape = "VTuple [VObj cEpoch [VFloat (E (%s (kk yr)))]; angle_val (A (%s (kk yr)))]" % (jde_final, v2)
            extra_hyp = " Angle_dms_of A ->"
        elif k2 == "rdegangle":
            shape = "VTuple [VObj cEpoch [VFloat (E (%s (kk yr)))]; angle_val (rdeg (%s (kk yr)))]" % (jde_final, v2)
            extra_hyp = ""
        else: raise Bad("return kind " + k2)
    # deviation bound numbers
    tv = g.env["t"][1]
    lo = hi = None
    pieces = 124
    for i in range(pieces):
        ti = (Fraction(TLO) + Fraction((THI - TLO) * i, pieces), Fraction(TLO) + Fraction((THI - TLO) * (i + 1), pieces))
        cache = {}
        a = g.ival(g.Q, {"t": ti})
        for txt, node in g.jde_incr:
            b = incr_ival(g, node, ti, cache)
            a = (a[0] + b[0], a[1] + b[1])
        lo = a[0] if lo is None else min(lo, a[0]); hi = a[1] if hi is None else max(hi, a[1])
    Cnat = max(abs(lo), abs(hi))
    Ctxt, C = dec_up(Cnat * Fraction(103, 100) + Fraction(1, 100), 3)
    if 2 * C >= g.B[2]: raise Bad("2C >= B")
    w("Definition C : R := %s." % Ctxt)
    w("")
    incr_sum = " + ".join("(%s)" % t for t, _ in g.jde_incr)
    allv = list(reversed(g.order))
    w("(* deviation from the linear mean instant J0 + B k: the polynomial part Q(T) + the periodic terms *)")
    w("Lemma dev_split k : %s k - (J0 + B * k) = f_Q (%s k) + (%s)." % (jde_final, tv, incr_sum))
    jchain = [v for v in reversed(g.arith) if v.startswith("v_jde_")]
    w("Proof. unfold %s, %s, f_Q, J0, B. ring. Qed." % (", ".join(jchain), ", ".join("f_" + v[2:] for v in jchain)))
    w("Lemma dev_bound k : %d <= k / cc <= %d -> Rabs (%s k - (J0 + B * k)) <= C." % (TLO, THI, jde_final))
    w("Proof.")
    w("  intro Ht. rewrite dev_split.")
    w("  change (k / cc) with (%s k) in Ht." % tv)
    others = [v for v in reversed(g.arith) if not v.startswith("v_jde_") and v != tv]
    w("  unfold %s." % ", ".join(others))
    for r in g.rads:
        w("  generalize (%s k); intro." % r)
    w("  revert Ht. generalize (%s k). intros t Ht." % tv)
    w("  unfold f_Q, %s, C. lit_norm." % ", ".join("f_" + v[2:] for v in others))
    w("  interval with (i_bisect t, i_depth 6).")
    w("Qed.")
    w("Theorem timing_ok : timing J0 B cc C %s." % jde_final)
    w("Proof. split; [unfold C, B; lit_norm; lra | exact dev_bound]. Qed.")
    w("Lemma kk_index yr : kk yr = IZR (Rround ((yr - %s) * %s)) + off." % (rlit(y0[0], y0[1]), rlit(rate[0], rate[1])))
    w("Proof. unfold kk, off. rewrite Rround_nd_0. %s Qed." % ("reflexivity." if off is not None else "ring."))
    w("")
    w("Definition closed_stmt : Prop :=")
    w("  forall (j : R) (y m : Z) (d doy : R) (lp : bool) (E A : R -> R),")
    w("  date_is j y m d -> leap_is y lp -> doy_is y m d doy -> Epoch_of E ->%s" % extra_hyp)
    w("  let yr := frac_year y doy lp in")
    w("  Moon_%s Rops (VObj cEpoch [VFloat j]) (VStr \"%s\") =\n  %s." % (fn, target, shape))
    w("Theorem closed : closed_stmt.")
    w("Proof.")
    w("  unfold closed_stmt, date_is, leap_is, doy_is, Epoch_of%s." % (", Angle_dms_of" if "dms" in extra_hyp else ""))
    w("  intros j y m d doy lp E A Hd Hl Hdoy HE%s." % (" HA" if extra_hyp else ""))
    w("  pose proof reduce_rd as HR. pose proof new_rd as HN. pose proof pos_rd as HP.")
    w("  unfold frac_year.")
    w("  destruct lp; (match goal with |- _ =>")
    w("    pyrun2;")
    w("    unfold angle_val, kk, %s, %s;" % (", ".join(allv), ", ".join(g.fnames)))
    w("    reflexivity end).")
    w("Qed.")
    w("Theorem ok : closed_stmt /\\ timing J0 B cc C %s." % jde_final)
    w("Proof. exact (conj closed timing_ok). Qed.")
    open(os.path.join(OUT, mod + ".v"), "w").write("\n".join(L) + "\n")
    if (fn, target) in EXACT:
        emit_exact(mod, fn, target, jde_final, shape, extra_hyp, allv, g.fnames, y0, rate)
    return mod, {"J0": float(g.J0[2]), "B": float(g.B[2]), "C": float(C), "result": jde_final, "ret": g.ret,
                 "off": float(off[2]) if off else 0.0}


def incr_ival(g, node, ti, cache):
    """interval of an increment expression of jde (names = current arithmetic definitions at that point)"""
    names = {}
    g.coq(node, names)
    env = {}
    for py in names:
        env[py] = g.veval(g.incr_env[id(node)][py], ti, cache)
    return g.ival(node, env)



def emit_exact(mod, fn, target, jde_final, shape, extra_hyp, allv, fnames, y0, rate):
    L = []
    w = L.append
    w("(* Moon.%s(epoch, %r) (thorough tier) -- the closed form without the hypothesis about Epoch(x): for a fractional" % (fn, target))
    w("   year in -2000..4001 the instant handed to Epoch() is in the range of C02's Epoch_ctor_exact_ideal, so the returned")
    w("   Epoch holds exactly mean(k) + periodic terms.  Written by mkmoon.py (checked in). *)")
    w(HEADER.replace("From Proofs.C15 Require Import C15_angle C15_tac2 C15_fdefs.",
                     "From Proofs.C02 Require Import C02_ctor_ideal.\nFrom Proofs.C15 Require Import C15_angle C15_tac2 C15_fdefs %s." % mod))
    yl, rl = rlit(y0[0], y0[1]), rlit(rate[0], rate[1])
    import math
    klo = math.floor((Fraction(-2000) - y0[2]) * rate[2]) - 2
    khi = math.ceil((Fraction(4001) - y0[2]) * rate[2]) + 3
    w("Lemma k_window yr : -2000 <= yr <= 4001 -> -41 <= kk yr / cc <= 21.")
    w("Proof.")
    w("  intro H. rewrite kk_index. pose proof (Rround_bounds ((yr - %s) * %s)) as Rb." % (yl, rl))
    w("  set (n := IZR (Rround ((yr - %s) * %s))) in *." % (yl, rl))
    w("  assert (Hn : %d <= n + off <= %d)." % (klo, khi))
    w("  { revert Rb. unfold off. lit_norm. intro Rb. lra. }")
    w("  revert Hn. generalize (n + off). intros x Hx. unfold cc. lit_norm. split; interval.")
    w("Qed.")
    w("Lemma X_in_range yr : -2000 <= yr <= 4001 -> jde_in_range (%s (kk yr))." % jde_final)
    w("Proof.")
    w("  intro H. pose proof (k_window yr H) as Hk. pose proof (dev_bound _ Hk) as D. apply abs_le_inv in D.")
    w("  assert (Hx : %d <= kk yr <= %d)." % (klo, khi))
    w("  { rewrite kk_index. pose proof (Rround_bounds ((yr - %s) * %s)) as Rb. revert Rb. unfold off. lit_norm. intro Rb. lra. }" % (yl, rl))
    w("  revert D. unfold jde_in_range, J0, B, C. lit_norm. intro D. lra.")
    w("Qed.")
    w("")
    w("Definition exact_stmt : Prop :=")
    w("  forall (j : R) (y m : Z) (d doy : R) (lp : bool) (A : R -> R),")
    w("  date_is j y m d -> leap_is y lp -> doy_is y m d doy ->%s" % extra_hyp)
    w("  let yr := frac_year y doy lp in -2000 <= yr <= 4001 ->")
    sh = shape.replace("(E (%s (kk yr)))" % jde_final, "(%s (kk yr))" % jde_final)
    w("  Moon_%s Rops (VObj cEpoch [VFloat j]) (VStr \"%s\") =\n  %s." % (fn, target, sh))
    w("Theorem exact : exact_stmt.")
    w("Proof.")
    w("  unfold exact_stmt, date_is, leap_is, doy_is%s." % (", Angle_dms_of" if "dms" in extra_hyp else ""))
    w("  intros j y m d doy lp A Hd Hl Hdoy%s Hyr." % (" HA" if extra_hyp else ""))
    w("  pose proof reduce_rd as HR. pose proof new_rd as HN. pose proof pos_rd as HP.")
    w("  pose proof (Epoch_ctor_exact_ideal _ (X_in_range _ Hyr)) as HE. clear Hyr.")
    w("  unfold frac_year in *.")
    w("  destruct lp; (match goal with |- _ =>")
    w("    unfold angle_val, kk, %s, %s in HE; cbv iota in HE;" % (", ".join(allv), ", ".join(fnames)))
    w("    pyrun2;")
    w("    unfold angle_val, kk, %s, %s;" % (", ".join(allv), ", ".join(fnames)))
    w("    reflexivity end).")
    w("Qed.")
    open(os.path.join(OUT, mod.replace("C15_f_", "C15_x_") + ".v"), "w").write("\n".join(L) + "\n")

def emit_errors(fn, targets, others):
    L = []
    w = L.append
    w("(* Moon.%s -- refusals: TypeError for a non-Epoch / non-string argument, ValueError for a string that is" % fn)
    w("   not one of its targets (checked before the date is looked at).  Written by mkmoon.py. *)")
    w(HEADER)
    f = "Moon_%s Rops" % fn
    w("Lemma bad_epoch v s : scalar_arg v -> %s v (VStr s) = VErr TypeError." % f)
    w("Proof. destruct v; simpl; intro H; try contradiction; (match goal with |- _ => pyrun2; reflexivity end). Qed.")
    w("Lemma bad_target_type j v : nonstr_arg v -> %s (VObj cEpoch [VFloat j]) v = VErr TypeError." % f)
    w("Proof. destruct v; simpl; intro H; try contradiction; (match goal with |- _ => pyrun2; reflexivity end). Qed.")
    bad = BAD_STRINGS + others
    w("Definition bad_strings : list string := [%s]." % "; ".join('"%s"' % s for s in bad))
    w("Lemma bad_target_value j s : In s bad_strings -> %s (VObj cEpoch [VFloat j]) (VStr s) = VErr ValueError." % f)
    w("Proof.")
    w("  unfold bad_strings. simpl. intro H.")
    w("  repeat (destruct H as [<- | H]; [pyrun2; reflexivity |]). contradiction.")
    w("Qed.")
    w("Theorem refusals :")
    w("  (forall v s, scalar_arg v -> %s v (VStr s) = VErr TypeError) /\\" % f)
    w("  (forall j v, nonstr_arg v -> %s (VObj cEpoch [VFloat j]) v = VErr TypeError) /\\" % f)
    w("  (forall j s, In s bad_strings -> %s (VObj cEpoch [VFloat j]) (VStr s) = VErr ValueError)." % f)
    w("Proof. exact (conj bad_epoch (conj bad_target_type bad_target_value)). Qed.")
    mod = "C15_e_%s" % fn
    open(os.path.join(OUT, mod + ".v"), "w").write("\n".join(L) + "\n")
    return mod


if __name__ == "__main__":
    src = open(os.path.join(REPO, "pymeeus", "Moon.py")).read()
    tree = ast.parse(src)
    cls = [n for n in tree.body if isinstance(n, ast.ClassDef) and n.name == "Moon"][0]
    table = {}
    alltargets = ["new", "first", "full", "last"] + [t for ts in FINDERS.values() for t in ts]
    for fn, targets in FINDERS.items():
        fnode = [n for n in cls.body if isinstance(n, ast.FunctionDef) and n.name == fn][0]
        for t in targets:
            try:
                mod, meta = emit(src, fnode, fn, t)
                table["%s.%s" % (fn, t)] = meta
                print("%-44s B=%-13.9f C=%-7.3f off=%s ret=%s" % (mod, meta["B"], meta["C"], meta["off"], meta["ret"]))
            except Bad as e:
                print("SKIP %s %s: %s" % (fn, t, e))
        others = [t for t in alltargets if t not in (targets or ["new", "first", "full", "last"])][:4]
        print(emit_errors(fn, targets, others))
    json.dump(table, open(os.path.join(OUT, "moonfinders.json"), "w"), indent=1, sort_keys=True)
    # thorough-tier statements: closed forms without the Epoch(x) hypothesis
    L = []
    w = L.append
    w("(* Property C15 (thorough tier) -- lunar finder closed forms with Epoch(x) = the Epoch holding exactly x (property C02's")
    w("   Epoch_ctor_exact_ideal) instead of a hypothesis, for a fractional year in -2000..4001.  Remaining hypotheses: the values of")
    w("   Epoch.get_date / is_leap / get_doy (and Angle(0,0,p) for the parallax).  T15_* obligations, not listed in THEOREMS. *)")
    w("From Coq Require Import Reals ZArith List Bool Lra String.")
    w("From PyLib Require Import PyVal PyBuiltins Ideal.")
    w("From Gen Require Import M_base M_Angle M_Epoch M_Moon.")
    w("From Proofs.C15 Require Import C15_fdefs.")
    for fn, t in EXACT: w("From Proofs.C15 Require C15_x_%s_%s." % (fn, t))
    w("Open Scope R_scope.")
    for fn, t in EXACT:
        w("Theorem T15_%s_%s_exact : C15_x_%s_%s.exact_stmt." % (fn, t, fn, t))
        w("Proof. exact C15_x_%s_%s.exact. Qed." % (fn, t))
    for fn, t in EXACT:
        w('Redirect "T15_%s_%s_exact.assumptions" Print Assumptions T15_%s_%s_exact.' % (fn, t, fn, t))
    open(os.path.join(OUT, "C15_exact.v"), "w").write("\n".join(L) + "\n")

