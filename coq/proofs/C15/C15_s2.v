(* Property C15 -- lunar event finders, statements (file 2: apogee, timing consequences). *)
From Coq Require Import Reals ZArith List Bool Lra String.
From PyLib Require Import PyVal PyBuiltins Ideal.
From Spec Require Import MoonFinder.
From Gen Require Import M_base M_Angle M_Epoch M_Moon.
From Proofs.C15 Require Import C15_angle C15_fdefs.
From Proofs.C15 Require C15_f_moon_perigee_apogee_apogee.
Import ListNotations.
Open Scope R_scope.

Theorem C15_moon_perigee_apogee_apogee : C15_f_moon_perigee_apogee_apogee.closed_stmt /\ timing C15_f_moon_perigee_apogee_apogee.J0 C15_f_moon_perigee_apogee_apogee.B C15_f_moon_perigee_apogee_apogee.cc C15_f_moon_perigee_apogee_apogee.C C15_f_moon_perigee_apogee_apogee.v_jde_2.
Proof. exact C15_f_moon_perigee_apogee_apogee.ok. Qed.
(* consequences of `timing` through Spec.MoonFinder (LinearMean): for integer indices n (k = n + off) in the window,
   consecutive results are strictly ordered and B +- 2C apart; a later index is at least B - 2C later; never backwards *)
Theorem C15_finder_timing : forall (J0 B cc C off : R) (r : R -> R), timing J0 B cc C r ->
  let P := fun n : Z => -41 <= (IZR n + off) / cc <= 21 in
  let rz := fun n : Z => r (IZR n + off) in
  (forall n, P n -> P (n + 1)%Z -> rz n < rz (n + 1)%Z /\ Rabs (rz (n + 1)%Z - rz n - B) <= 2 * C) /\
  (forall n1 n2, P n1 -> P n2 -> (n1 < n2)%Z -> rz n1 + (B - 2 * C) <= rz n2) /\
  (forall n1 n2, P n1 -> P n2 -> (n1 <= n2)%Z -> rz n1 <= rz n2).
Proof.
  intros J0 B cc C off r HT P rz. split; [| split].
  - exact (timing_step J0 B cc C off r HT).
  - exact (timing_order J0 B cc C off r HT).
  - exact (timing_monotone J0 B cc C off r HT).
Qed.

Redirect "C15_moon_perigee_apogee_apogee.assumptions" Print Assumptions C15_moon_perigee_apogee_apogee.
Redirect "C15_finder_timing.assumptions" Print Assumptions C15_finder_timing.
