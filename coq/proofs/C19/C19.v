(* Property C19 — Easter, Pesach and Moslem-calendar conversions follow their calendar rules.
   This file holds only the statements; all proofs are in C19_main.v (lifting of the sharded
   kernel computations C19_easter / C19_pesach / C19_shard_NN) and in Spec.Islamic (lia).
   easter, pesach, m2g, g2m, g2m_of, dow are the generated Epoch.easter, Epoch.jewish_pesach,
   Epoch.moslem2gregorian, Epoch.gregorian2moslem, Epoch(y, m, d).dow() in the binary64 instance
   (C19_defs.v); the model is regenerated from /repo on every run.
   jdn / valid / weekday: independent civil day count Spec.CalSpec (Julian to 4 Oct 1582). *)
From Coq Require Import ZArith List String PrimFloat.
From PyLib Require Import PyVal PyBuiltins B64 B64Facts.
From Spec Require Import CalSpec Computus Hebrew Islamic.
From Gen Require Import M_base M_Angle M_Epoch.
From Proofs.C19 Require Import C19_defs C19_main.
Import ListNotations.
Open Scope Z_scope.

(* Easter equals the date of the tabular epact definition of the Computus
   (Julian to 1582, Gregorian from 1583), for every year -4712..10000 *)
Theorem C19_easter : forall y, -4712 <= y <= 10000 ->
  Epoch_easter B0 (VInt y) = VTuple [VInt (fst (easter_spec y)); VInt (snd (easter_spec y))].
Proof. exact easter_eq. Qed.

(* ... it lies in 22 March .. 25 April and is a Sunday, both by the independent day count and
   by the implementation's own Epoch(year, month, day).dow() *)
Theorem C19_easter_sunday : forall y, -4712 <= y <= 10000 ->
  exists m d, Epoch_easter B0 (VInt y) = VTuple [VInt m; VInt d] /\ easter_spec y = (m, d) /\
    in_easter_window m d = true /\ valid y m d = true /\ weekday y m d = 0 /\ dow y m d = VInt 0.
Proof. exact easter_sunday. Qed.

(* Pesach of the years 1..3000 is 15 Nisan of the arithmetic Hebrew calendar, 163 days before
   the following Rosh Hashanah, and falls on Sunday, Tuesday, Thursday or Saturday *)
Theorem C19_pesach : forall y, 1 <= y <= 3000 ->
  exists m d, Epoch_jewish_pesach B0 (VInt y) = VTuple [VInt m; VInt d] /\ valid y m d = true /\
    jdn y m d = rosh_hashanah_jdn (y + 3761) - 163 /\
    (weekday y m d = 0 \/ weekday y m d = 2 \/ weekday y m d = 4 \/ weekday y m d = 6) /\
    dow y m d = VInt (weekday y m d).
Proof.
  intros y Hy. destruct (pesach_spec y Hy) as (m & d & H1 & H2 & H3 & H4 & H5).
  exists m, d. repeat split; try assumption. apply pesach_weekday_spec, H4.
Qed.

(* Moslem -> civil: for every date of 1..2500 AH the result is a date of the civil calendar
   whose day number is that of the arithmetic Islamic calendar (epoch 16 July 622 Julian) *)
Theorem C19_moslem2gregorian : forall h m d, 1 <= h <= 2500 -> islamic_valid h m d = true ->
  exists y mo da dv, Epoch_moslem2gregorian B0 (VInt h) (VInt m) (VInt d) = VTuple [VInt y; VInt mo; dv] /\
    (dv = VInt da \/ dv = VFloat (b64_of_Z da)) /\
    valid y mo da = true /\ jdn y mo da = islamic_jdn h m d.
Proof. exact m2g_shape. Qed.

(* ... and back: gregorian2moslem applied to that result returns the Moslem date *)
Theorem C19_roundtrip : forall h m d, 1 <= h <= 2500 -> islamic_valid h m d = true ->
  g2m_of (Epoch_moslem2gregorian B0 (VInt h) (VInt m) (VInt d)) = VTuple [VInt h; VInt m; VInt d].
Proof. exact roundtrip. Qed.

(* civil -> Moslem: every civil date from 16 July 622 to 7 February 3048 (= 30 Dhu al-Hijja 2500)
   is converted to the date of the arithmetic Islamic calendar with the same day number;
   that date is unique (islamic_jdn_inj below) *)
Theorem C19_gregorian2moslem : forall y m d, valid y m d = true ->
  jdn 622 7 16 <= jdn y m d <= jdn 3048 2 7 ->
  exists h mi di, 1 <= h <= 2500 /\ islamic_valid h mi di = true /\ islamic_jdn h mi di = jdn y m d /\
    Epoch_gregorian2moslem B0 (VInt y) (VInt m) (VInt d) = VTuple [VInt h; VInt mi; VInt di].
Proof. exact g2m_spec. Qed.

(* ... and converting that Moslem date back returns the civil date *)
Theorem C19_roundtrip_civil : forall y m d, valid y m d = true ->
  jdn 622 7 16 <= jdn y m d <= jdn 3048 2 7 ->
  exists h mi di dv,
    Epoch_gregorian2moslem B0 (VInt y) (VInt m) (VInt d) = VTuple [VInt h; VInt mi; VInt di] /\
    Epoch_moslem2gregorian B0 (VInt h) (VInt mi) (VInt di) = VTuple [VInt y; VInt m; dv] /\
    (dv = VInt d \/ dv = VFloat (b64_of_Z d)).
Proof. exact roundtrip_civil. Qed.

(* consecutive Moslem dates fall on consecutive civil days *)
Theorem C19_consecutive : forall h m d h' m' d', 1 <= h -> h' <= 2500 ->
  islamic_valid h m d = true -> islamic_next h m d = (h', m', d') ->
  exists n, civil_jdn (m2g h m d) = Some n /\ civil_jdn (m2g h' m' d') = Some (n + 1).
Proof. exact consecutive. Qed.

(* months have 30 or 29 days, years 354 or 355 days (measured in civil days between the
   converted first days) *)
Theorem C19_lengths :
  (forall h m h' m' d', 1 <= h -> h' <= 2500 -> 1 <= m <= 12 ->
     islamic_next h m (islamic_mlen h m) = (h', m', d') ->
     exists a b, civil_jdn (m2g h m 1) = Some a /\ civil_jdn (m2g h' m' d') = Some b /\
       b - a = islamic_mlen h m /\ (b - a = 29 \/ b - a = 30) /\ d' = 1) /\
  (forall h, 1 <= h < 2500 ->
     exists a b, civil_jdn (m2g h 1 1) = Some a /\ civil_jdn (m2g (h + 1) 1 1) = Some b /\
       b - a = islamic_ylen h /\ (b - a = 354 \/ b - a = 355)).
Proof. exact (conj month_lengths year_lengths). Qed.

(* the arithmetic Islamic calendar itself, for ALL years: its day count is a bijection between
   valid dates and the days from the epoch on, stepping by exactly one (lia, no bound) *)
Theorem C19_islamic_bijection :
  (forall h m d h' m' d', islamic_valid h m d = true -> islamic_valid h' m' d' = true ->
     islamic_jdn h m d = islamic_jdn h' m' d' -> (h, m, d) = (h', m', d')) /\
  (forall n, jdn 622 7 16 <= n -> exists h m d, islamic_valid h m d = true /\ islamic_jdn h m d = n) /\
  (forall h m d, islamic_valid h m d = true ->
     let '(h', m', d') := islamic_next h m d in
     islamic_valid h' m' d' = true /\ islamic_jdn h' m' d' = islamic_jdn h m d + 1) /\
  (forall h, islamic_jdn (h + 1) 1 1 - islamic_jdn h 1 1 = if islamic_leap h then 355 else 354).
Proof.
  split; [exact islamic_jdn_inj|]. split; [exact islamic_jdn_surj|]. split.
  - intros h m d V. pose proof (islamic_next_valid h m d V). pose proof (islamic_jdn_next h m d V).
    destruct (islamic_next h m d) as [[h' m'] d']. split; assumption.
  - exact islamic_year_length.
Qed.

Redirect "C19_easter.assumptions" Print Assumptions C19_easter.
Redirect "C19_easter_sunday.assumptions" Print Assumptions C19_easter_sunday.
Redirect "C19_pesach.assumptions" Print Assumptions C19_pesach.
Redirect "C19_moslem2gregorian.assumptions" Print Assumptions C19_moslem2gregorian.
Redirect "C19_roundtrip.assumptions" Print Assumptions C19_roundtrip.
Redirect "C19_gregorian2moslem.assumptions" Print Assumptions C19_gregorian2moslem.
Redirect "C19_roundtrip_civil.assumptions" Print Assumptions C19_roundtrip_civil.
Redirect "C19_consecutive.assumptions" Print Assumptions C19_consecutive.
Redirect "C19_lengths.assumptions" Print Assumptions C19_lengths.
Redirect "C19_islamic_bijection.assumptions" Print Assumptions C19_islamic_bijection.
