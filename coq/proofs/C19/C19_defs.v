(* C19: executable checks relating the generated model of easter / jewish_pesach /
   moslem2gregorian / gregorian2moslem to the hand-written calendar specifications. *)
From Coq Require Import ZArith NArith List Bool String PrimFloat.
From PyLib Require Import PyVal PyBuiltins B64 B64Facts Range.
From Spec Require Import CalSpec Computus Hebrew Islamic.
From Gen Require Import M_base M_Angle M_Epoch.
Import ListNotations.
Open Scope Z_scope.

Definition fval := val float.
Definition pair_val (p : Z * Z) : fval := VTuple [VInt (fst p); VInt (snd p)].

(* ---- Easter ---- *)
Definition easter (y : Z) : fval := Epoch_easter B0 (VInt y).
Definition in_easter_window (m d : Z) : bool :=
  ((m =? 3) && (22 <=? d) && (d <=? 31)) || ((m =? 4) && (1 <=? d) && (d <=? 25)).
Definition chk_easter (y : Z) : bool :=
  val_eqb (easter y) (pair_val (easter_spec y)) &&
  (let '(m, d) := easter_spec y in in_easter_window m d && (weekday y m d =? 0)).

(* ---- Pesach ---- *)
Definition pesach (y : Z) : fval := Epoch_jewish_pesach B0 (VInt y).
Definition chk_pesach (y : Z) : bool :=
  match pesach y with
  | VTuple [VInt m; VInt d] =>
      valid y m d && (jdn y m d =? pesach_jdn y) &&
      (let w := weekday y m d in (w =? 0) || (w =? 2) || (w =? 4) || (w =? 6))
  | _ => false
  end.

(* ---- Moslem calendar ---- *)
(* an integer given as int or as an integral float *)
Definition as_Z (v : fval) : option Z :=
  match v with
  | VInt z => Some z
  | VFloat f => let z := b64_floor f in if feq f (b64_of_Z z) then Some z else None
  | _ => None
  end.

Definition m2g (h m d : Z) : fval := Epoch_moslem2gregorian B0 (VInt h) (VInt m) (VInt d).
Definition g2m (y m d : Z) : fval := Epoch_gregorian2moslem B0 (VInt y) (VInt m) (VInt d).

Definition chk_m2g (h m d : Z) : bool :=
  match m2g h m d with
  | VTuple [VInt y; VInt mo; dv] =>
      match as_Z dv with
      | Some da => valid y mo da && (jdn y mo da =? islamic_jdn h m d)
      | None => false
      end
  | _ => false
  end.
Definition chk_m2g_year (h : Z) : bool :=
  forallb (fun m => forallb (chk_m2g h m) (zrange 1 (Z.to_nat (islamic_mlen h m)))) (zrange 1 12).

Definition chk_g2m (y m d : Z) : bool :=
  match g2m y m d with
  | VTuple [VInt h; VInt mi; VInt di] => islamic_valid h mi di && (islamic_jdn h mi di =? jdn y m d)
  | _ => false
  end.
Definition chk_g2m_year (y : Z) : bool :=
  forallb (fun m => forallb (fun d => if valid y m d && (islamic_epoch <=? jdn y m d) then chk_g2m y m d else true)
                            (zrange 1 (Z.to_nat (mlen y m)))) (zrange 1 12).
