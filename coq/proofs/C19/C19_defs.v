(* C19: executable checks relating the GENERATED model of Epoch.easter / jewish_pesach /
   moslem2gregorian / gregorian2moslem / dow (binary64 instance, no libm involved) to the
   hand-written calendar specifications Spec.Computus, Spec.Hebrew, Spec.Islamic and the
   independent civil day count Spec.CalSpec.jdn. *)
From Coq Require Import ZArith NArith List Bool String PrimFloat.
From PyLib Require Import PyVal PyBuiltins B64 B64Facts Range.
From Spec Require Import CalSpec Computus Hebrew Islamic.
From Gen Require Import M_base M_Angle M_Epoch.
Import ListNotations.
Open Scope Z_scope.

Definition fval := val float.
Definition pair_val (p : Z * Z) : fval := VTuple [VInt (fst p); VInt (snd p)].
Definition tuple3 (a b c : Z) : fval := VTuple [VInt a; VInt b; VInt c].

(* weekday of the civil date as the implementation computes it: Epoch(y, m, d).dow() *)
Definition mkEpoch (args : list fval) : fval :=
  Epoch___init__ B0 (VObj cEpoch [VNone]) (VTuple args) (VDict []).
Definition dow (y m d : Z) : fval := Epoch_dow B0 (mkEpoch [VInt y; VInt m; VInt d]) (VBool false).

(* ---- Easter ---- *)
Definition easter (y : Z) : fval := Epoch_easter B0 (VInt y).
Definition in_easter_window (m d : Z) : bool :=
  ((m =? 3) && (22 <=? d) && (d <=? 31)) || ((m =? 4) && (1 <=? d) && (d <=? 25)).
Definition chk_easter (y : Z) : bool :=
  val_eqb (easter y) (pair_val (easter_spec y)) &&
  (let '(m, d) := easter_spec y in
   in_easter_window m d && valid y m d && (weekday y m d =? 0) && val_eqb (dow y m d) (VInt 0)).

(* ---- Pesach ---- *)
Definition pesach (y : Z) : fval := Epoch_jewish_pesach B0 (VInt y).
Definition pesach_weekday (w : Z) : bool := (w =? 0) || (w =? 2) || (w =? 4) || (w =? 6).
Definition chk_pesach (y : Z) : bool :=
  match pesach y with
  | VTuple [VInt m; VInt d] =>
      valid y m d && (jdn y m d =? pesach_jdn y) && pesach_weekday (weekday y m d)
      && val_eqb (dow y m d) (VInt (weekday y m d))
  | _ => false
  end.

(* ---- Moslem calendar ---- *)
(* an integer given as int or as an integral float (moslem2gregorian returns the day of a
   Julian-calendar result as a float, through doy2date) *)
Definition as_Z (v : fval) : option Z :=
  match v with
  | VInt z => Some z
  | VFloat f => let z := b64_floor f in if feq f (b64_of_Z z) then Some z else None
  | _ => None
  end.

Definition m2g (h m d : Z) : fval := Epoch_moslem2gregorian B0 (VInt h) (VInt m) (VInt d).
Definition g2m (y m d : Z) : fval := Epoch_gregorian2moslem B0 (VInt y) (VInt m) (VInt d).
(* gregorian2moslem applied to the tuple returned by moslem2gregorian, as it is *)
Definition g2m_of (v : fval) : fval :=
  match v with
  | VTuple [y; m; d] => Epoch_gregorian2moslem B0 y m d
  | _ => VErr TypeError
  end.
(* the civil date denoted by a result tuple *)
Definition civil_of (v : fval) : option (Z * Z * Z) :=
  match v with
  | VTuple [VInt y; VInt m; dv] =>
      match as_Z dv with Some d => Some (y, m, d) | None => None end
  | _ => None
  end.

Definition chk_moslem (h m d : Z) : bool :=
  let r := m2g h m d in
  match civil_of r with
  | Some (y, mo, da) =>
      valid y mo da && (jdn y mo da =? islamic_jdn h m d)
      && val_eqb (g2m y mo da) (tuple3 h m d)
      && (match r with
          | VTuple [_; _; VInt _] => true      (* then g2m_of r is the call just checked *)
          | _ => val_eqb (g2m_of r) (tuple3 h m d)
          end)
  | None => false
  end.
Definition chk_moslem_year (h : Z) : bool :=
  forallb (fun m => forallb (chk_moslem h m) (zrange 1 (Z.to_nat (islamic_mlen h m)))) (zrange 1 12).

(* Julian Day Number of the civil date denoted by a result tuple, if it is a date of the calendar *)
Definition civil_jdn (v : fval) : option Z :=
  match civil_of v with
  | Some (y, m, d) => if valid y m d then Some (jdn y m d) else None
  | None => None
  end.

(* last day of AH 2500 (30 Dhu al-Hijja, a leap year) = 7 February 3048 *)
Definition last_day : Z := 2834356.
Example last_day_islamic : islamic_jdn 2500 12 30 = last_day. Proof. reflexivity. Qed.
Example last_day_civil : jdn 3048 2 7 = last_day. Proof. reflexivity. Qed.
