(* C19: Pesach of every year 1 .. 3000, by kernel computation *)
From Coq Require Import ZArith NArith.
From PyLib Require Import Range.
From Proofs.C19 Require Import C19_defs.
Lemma pesach_all : all_range 1 3000%N chk_pesach = true.
Proof. vm_cast_no_check (@eq_refl bool true). Qed.
