(* C19 shard 11: every date of the Moslem years 1728 .. 1884, by kernel computation *)
From Coq Require Import ZArith NArith.
From PyLib Require Import Range.
From Proofs.C19 Require Import C19_defs.
Lemma shard : all_range 1728 157%N chk_moslem_year = true.
Proof. vm_cast_no_check (@eq_refl bool true). Qed.
