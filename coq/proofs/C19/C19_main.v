(* C19: lifting the sharded kernel computations to the quantified statements *)
From Coq Require Import ZArith NArith List Bool String Lia PrimFloat.
From PyLib Require Import PyVal PyBuiltins B64 B64Facts Range.
From Spec Require Import CalSpec Computus Hebrew Islamic.
From Gen Require Import M_base M_Angle M_Epoch.
From Proofs.C19 Require Import C19_defs.
From Proofs.C19 Require C19_easter.
From Proofs.C19 Require C19_pesach.
From Proofs.C19 Require C19_shard_00.
From Proofs.C19 Require C19_shard_01.
From Proofs.C19 Require C19_shard_02.
From Proofs.C19 Require C19_shard_03.
From Proofs.C19 Require C19_shard_04.
From Proofs.C19 Require C19_shard_05.
From Proofs.C19 Require C19_shard_06.
From Proofs.C19 Require C19_shard_07.
From Proofs.C19 Require C19_shard_08.
From Proofs.C19 Require C19_shard_09.
From Proofs.C19 Require C19_shard_10.
From Proofs.C19 Require C19_shard_11.
From Proofs.C19 Require C19_shard_12.
From Proofs.C19 Require C19_shard_13.
From Proofs.C19 Require C19_shard_14.
From Proofs.C19 Require C19_shard_15.
Import ListNotations.
Open Scope Z_scope.

(* ------------------------------------------------------------------------ *)
(* shapes of result values                                                   *)
(* ------------------------------------------------------------------------ *)

Lemma pair_shape (P : Z -> Z -> bool) (v : fval) :
  (match v with VTuple [VInt m; VInt d] => P m d | _ => false end) = true ->
  exists m d, v = VTuple [VInt m; VInt d] /\ P m d = true.
Proof.
  intro H. destruct v; try discriminate H.
  destruct l as [|a [|b [|c r]]]; try discriminate H;
    destruct a; try discriminate H; destruct b; try discriminate H.
  eauto.
Qed.

Definition day_is (dv : fval) (d : Z) : Prop := dv = VInt d \/ dv = VFloat (b64_of_Z d).

Lemma as_Z_spec v z : as_Z v = Some z -> day_is v z.
Proof.
  unfold as_Z, day_is. destruct v; try discriminate.
  - intro H. inversion H. left. reflexivity.
  - cbv zeta. destruct (feq f (b64_of_Z (b64_floor f))) eqn:E; [|discriminate].
    intro H. inversion H. subst z. right. f_equal. apply feq_eq, E.
Qed.

Lemma civil_of_spec v y m d : civil_of v = Some (y, m, d) ->
  exists dv, v = VTuple [VInt y; VInt m; dv] /\ as_Z dv = Some d.
Proof.
  unfold civil_of. intro H. destruct v; try discriminate H.
  destruct l as [|a [|b [|c [|e r]]]]; try discriminate H;
    destruct a; try discriminate H; destruct b; try discriminate H.
  destruct (as_Z c) eqn:E; [|discriminate H]. inversion H. subst. eauto.
Qed.

Lemma civil_of_tuple y m dv d : as_Z dv = Some d -> civil_of (VTuple [VInt y; VInt m; dv]) = Some (y, m, d).
Proof. intro E. unfold civil_of. rewrite E. reflexivity. Qed.

(* ------------------------------------------------------------------------ *)
(* Easter                                                                    *)
(* ------------------------------------------------------------------------ *)

Lemma easter_checked y : -4712 <= y <= 10000 -> chk_easter y = true.
Proof. intro Hy. apply (all_range_spec _ _ _ C19_easter.easter_all). lia. Qed.

Theorem easter_eq : forall y, -4712 <= y <= 10000 -> easter y = pair_val (easter_spec y).
Proof.
  intros y Hy. pose proof (easter_checked y Hy) as H. unfold chk_easter in H.
  apply andb_true_iff in H. destruct H as [H _]. apply val_eqb_eq, H.
Qed.

Theorem easter_sunday : forall y, -4712 <= y <= 10000 ->
  exists m d, easter y = VTuple [VInt m; VInt d] /\ easter_spec y = (m, d) /\
    in_easter_window m d = true /\ valid y m d = true /\ weekday y m d = 0 /\ dow y m d = VInt 0.
Proof.
  intros y Hy. pose proof (easter_checked y Hy) as H. unfold chk_easter in H.
  apply andb_true_iff in H. destruct H as [H1 H].
  apply val_eqb_eq in H1. destruct (easter_spec y) as [m d] eqn:E.
  apply andb_true_iff in H. destruct H as [H H5].
  apply andb_true_iff in H. destruct H as [H H4].
  apply andb_true_iff in H. destruct H as [H2 H3].
  exists m, d. repeat split; try assumption.
  - apply Z.eqb_eq. assumption.
  - apply val_eqb_eq. assumption.
Qed.

(* ------------------------------------------------------------------------ *)
(* Pesach                                                                    *)
(* ------------------------------------------------------------------------ *)

Theorem pesach_spec : forall y, 1 <= y <= 3000 ->
  exists m d, pesach y = VTuple [VInt m; VInt d] /\ valid y m d = true /\
    jdn y m d = pesach_jdn y /\ pesach_weekday (weekday y m d) = true /\
    dow y m d = VInt (weekday y m d).
Proof.
  intros y Hy.
  assert (chk_pesach y = true) as H by (apply (all_range_spec _ _ _ C19_pesach.pesach_all); lia).
  unfold chk_pesach in H.
  apply (pair_shape (fun m d => valid y m d && (jdn y m d =? pesach_jdn y) && pesach_weekday (weekday y m d)
                                && val_eqb (dow y m d) (VInt (weekday y m d)))) in H.
  destruct H as (m & d & E & H).
  apply andb_true_iff in H. destruct H as [H H5].
  apply andb_true_iff in H. destruct H as [H H4].
  apply andb_true_iff in H. destruct H as [H2 H3].
  exists m, d. repeat split; try assumption.
  - apply Z.eqb_eq. assumption.
  - apply val_eqb_eq. assumption.
Qed.

Lemma pesach_weekday_spec w : pesach_weekday w = true -> w = 0 \/ w = 2 \/ w = 4 \/ w = 6.
Proof. unfold pesach_weekday. lia. Qed.

(* ------------------------------------------------------------------------ *)
(* Moslem calendar                                                           *)
(* ------------------------------------------------------------------------ *)

Lemma all_moslem_years : forall h, 1 <= h <= 2500 -> chk_moslem_year h = true.
Proof.
  intros h Hh.
  destruct (Z_lt_ge_dec h 158) as [H0|H0]; [apply (all_range_spec _ _ _ C19_shard_00.shard); lia|].
  destruct (Z_lt_ge_dec h 315) as [H1|H1]; [apply (all_range_spec _ _ _ C19_shard_01.shard); lia|].
  destruct (Z_lt_ge_dec h 472) as [H2|H2]; [apply (all_range_spec _ _ _ C19_shard_02.shard); lia|].
  destruct (Z_lt_ge_dec h 629) as [H3|H3]; [apply (all_range_spec _ _ _ C19_shard_03.shard); lia|].
  destruct (Z_lt_ge_dec h 786) as [H4|H4]; [apply (all_range_spec _ _ _ C19_shard_04.shard); lia|].
  destruct (Z_lt_ge_dec h 943) as [H5|H5]; [apply (all_range_spec _ _ _ C19_shard_05.shard); lia|].
  destruct (Z_lt_ge_dec h 1100) as [H6|H6]; [apply (all_range_spec _ _ _ C19_shard_06.shard); lia|].
  destruct (Z_lt_ge_dec h 1257) as [H7|H7]; [apply (all_range_spec _ _ _ C19_shard_07.shard); lia|].
  destruct (Z_lt_ge_dec h 1414) as [H8|H8]; [apply (all_range_spec _ _ _ C19_shard_08.shard); lia|].
  destruct (Z_lt_ge_dec h 1571) as [H9|H9]; [apply (all_range_spec _ _ _ C19_shard_09.shard); lia|].
  destruct (Z_lt_ge_dec h 1728) as [H10|H10]; [apply (all_range_spec _ _ _ C19_shard_10.shard); lia|].
  destruct (Z_lt_ge_dec h 1885) as [H11|H11]; [apply (all_range_spec _ _ _ C19_shard_11.shard); lia|].
  destruct (Z_lt_ge_dec h 2042) as [H12|H12]; [apply (all_range_spec _ _ _ C19_shard_12.shard); lia|].
  destruct (Z_lt_ge_dec h 2199) as [H13|H13]; [apply (all_range_spec _ _ _ C19_shard_13.shard); lia|].
  destruct (Z_lt_ge_dec h 2356) as [H14|H14]; [apply (all_range_spec _ _ _ C19_shard_14.shard); lia|].
  apply (all_range_spec _ _ _ C19_shard_15.shard); lia.
Qed.

Lemma moslem_checked h m d : 1 <= h <= 2500 -> islamic_valid h m d = true -> chk_moslem h m d = true.
Proof.
  intros Hh V. apply islamic_valid_iff in V. destruct V as (_ & Hm & Hd).
  pose proof (all_moslem_years h Hh) as H. unfold chk_moslem_year in H.
  pose proof (forallb_zrange _ 1 12 H m) as H1. cbv beta in H1.
  specialize (H1 ltac:(simpl; lia)).
  apply (forallb_zrange _ 1 _ H1 d).
  pose proof (islamic_mlen_29_30 h m). rewrite Z2Nat.id; lia.
Qed.

(* everything the check establishes about one Moslem date *)
Lemma moslem_date h m d : 1 <= h <= 2500 -> islamic_valid h m d = true ->
  exists y mo da dv, m2g h m d = VTuple [VInt y; VInt mo; dv] /\ as_Z dv = Some da /\
    valid y mo da = true /\ jdn y mo da = islamic_jdn h m d /\
    g2m y mo da = tuple3 h m d /\ g2m_of (m2g h m d) = tuple3 h m d.
Proof.
  intros Hh V. pose proof (moslem_checked h m d Hh V) as H. unfold chk_moslem in H. cbv zeta in H.
  destruct (civil_of (m2g h m d)) as [[[y mo] da]|] eqn:E; [|discriminate H].
  apply civil_of_spec in E. destruct E as (dv & Er & Ed).
  apply andb_true_iff in H. destruct H as [H H4].
  apply andb_true_iff in H. destruct H as [H H3].
  apply andb_true_iff in H. destruct H as [H1 H2].
  apply Z.eqb_eq in H2. apply val_eqb_eq in H3.
  exists y, mo, da, dv. repeat split; try assumption.
  rewrite Er in *. destruct dv; try (apply val_eqb_eq; exact H4).
  (* the day came back as an int: the same call as the one checked *)
  simpl in Ed. inversion Ed. subst. exact H3.
Qed.

(* moslem2gregorian returns the civil date of the arithmetic Islamic calendar's day *)
Theorem m2g_spec : forall h m d, 1 <= h <= 2500 -> islamic_valid h m d = true ->
  civil_jdn (m2g h m d) = Some (islamic_jdn h m d).
Proof.
  intros h m d Hh V. destruct (moslem_date h m d Hh V) as (y & mo & da & dv & Er & Ed & Hv & Hj & _).
  unfold civil_jdn. rewrite Er, (civil_of_tuple _ _ _ _ Ed), Hv, Hj. reflexivity.
Qed.

Theorem m2g_shape : forall h m d, 1 <= h <= 2500 -> islamic_valid h m d = true ->
  exists y mo da dv, m2g h m d = VTuple [VInt y; VInt mo; dv] /\ day_is dv da /\
    valid y mo da = true /\ jdn y mo da = islamic_jdn h m d.
Proof.
  intros h m d Hh V. destruct (moslem_date h m d Hh V) as (y & mo & da & dv & Er & Ed & Hv & Hj & _).
  exists y, mo, da, dv. repeat split; try assumption. apply as_Z_spec, Ed.
Qed.

(* converting to a civil date and back returns the Moslem date *)
Theorem roundtrip : forall h m d, 1 <= h <= 2500 -> islamic_valid h m d = true ->
  g2m_of (m2g h m d) = tuple3 h m d.
Proof. intros h m d Hh V. destruct (moslem_date h m d Hh V) as (y & mo & da & dv & H). apply H. Qed.

(* gregorian2moslem of every civil date from 16 July 622 to 7 Feb 3048 is the date of the
   arithmetic Islamic calendar with the same day number *)
Theorem g2m_spec : forall y m d, valid y m d = true -> islamic_epoch <= jdn y m d <= last_day ->
  exists h mi di, 1 <= h <= 2500 /\ islamic_valid h mi di = true /\ islamic_jdn h mi di = jdn y m d /\
    g2m y m d = tuple3 h mi di.
Proof.
  intros y m d V [Hlo Hhi].
  destruct (islamic_jdn_surj _ Hlo) as (h & mi & di & Vi & E).
  assert (h <= 2500) as Hh.
  { apply (islamic_year_of_day h mi di 2500 Vi).
    replace (islamic_jdn (2500 + 1) 1 1) with (last_day + 1) by reflexivity. lia. }
  assert (1 <= h) as Hh1 by (apply islamic_valid_iff in Vi; lia).
  destruct (moslem_date h mi di (conj Hh1 Hh) Vi) as (y' & mo' & da' & dv & _ & _ & V' & J & G & _).
  assert ((y', mo', da') = (y, m, d)) as Heq by (apply jdn_inj; try assumption; lia).
  inversion Heq. subst. exists h, mi, di. auto.
Qed.

Corollary g2m_unique : forall y m d h mi di, valid y m d = true ->
  islamic_epoch <= jdn y m d <= last_day ->
  islamic_valid h mi di = true -> islamic_jdn h mi di = jdn y m d -> g2m y m d = tuple3 h mi di.
Proof.
  intros y m d h mi di V B Vi E. destruct (g2m_spec y m d V B) as (h' & mi' & di' & _ & Vi' & E' & G).
  assert ((h', mi', di') = (h, mi, di)) as Heq by (apply islamic_jdn_inj; try assumption; lia).
  inversion Heq. subst. exact G.
Qed.

(* civil -> Moslem -> civil returns the civil date (the day possibly as an integral float) *)
Theorem roundtrip_civil : forall y m d, valid y m d = true -> islamic_epoch <= jdn y m d <= last_day ->
  exists h mi di dv, g2m y m d = tuple3 h mi di /\ m2g h mi di = VTuple [VInt y; VInt m; dv] /\ day_is dv d.
Proof.
  intros y m d V B. destruct (g2m_spec y m d V B) as (h & mi & di & Hh & Vi & E & G).
  destruct (m2g_shape h mi di Hh Vi) as (y' & mo' & da' & dv & Er & Hd & V' & J).
  assert ((y', mo', da') = (y, m, d)) as Heq by (apply jdn_inj; try assumption; lia).
  inversion Heq. subst. exists h, mi, di, dv. auto.
Qed.

Lemma next_year_le h m d h' m' d' : islamic_next h m d = (h', m', d') -> h <= h' <= h + 1.
Proof.
  unfold islamic_next. destruct (d <? islamic_mlen h m); [|destruct (m <? 12)];
    intro H; inversion H; lia.
Qed.

(* consecutive Moslem dates fall on consecutive civil days *)
Theorem consecutive : forall h m d h' m' d', 1 <= h -> h' <= 2500 ->
  islamic_valid h m d = true -> islamic_next h m d = (h', m', d') ->
  exists n, civil_jdn (m2g h m d) = Some n /\ civil_jdn (m2g h' m' d') = Some (n + 1).
Proof.
  intros h m d h' m' d' Hh Hh' V N. pose proof (next_year_le _ _ _ _ _ _ N) as Hle.
  pose proof (islamic_next_valid h m d V) as V'. pose proof (islamic_jdn_next h m d V) as J.
  rewrite N in V', J.
  exists (islamic_jdn h m d). split.
  - apply m2g_spec; [lia|assumption].
  - rewrite <- J. apply m2g_spec; [lia|assumption].
Qed.

(* months have 30 or 29 days: distance between the civil days of the first days of
   consecutive months *)
Theorem month_lengths : forall h m h' m' d', 1 <= h -> h' <= 2500 -> 1 <= m <= 12 ->
  islamic_next h m (islamic_mlen h m) = (h', m', d') ->
  exists a b, civil_jdn (m2g h m 1) = Some a /\ civil_jdn (m2g h' m' d') = Some b /\
    b - a = islamic_mlen h m /\ (b - a = 29 \/ b - a = 30) /\ d' = 1.
Proof.
  intros h m h' m' d' Hh Hh' Hm N. pose proof (next_year_le _ _ _ _ _ _ N) as Hle.
  pose proof (islamic_mlen_29_30 h m) as L.
  assert (islamic_valid h m (islamic_mlen h m) = true) as V by (apply islamic_valid_iff; lia).
  assert (islamic_valid h m 1 = true) as V1 by (apply islamic_valid_iff; lia).
  pose proof (islamic_next_valid _ _ _ V) as V'. pose proof (islamic_month_length h m Hm) as J.
  rewrite N in V', J.
  exists (islamic_jdn h m 1), (islamic_jdn h' m' d'). repeat split.
  - apply m2g_spec; [lia|assumption].
  - apply m2g_spec; [lia|assumption].
  - exact J.
  - lia.
  - unfold islamic_next in N. rewrite Z.ltb_irrefl in N. destruct (m <? 12); inversion N; reflexivity.
Qed.

(* years have 354 or 355 days *)
Theorem year_lengths : forall h, 1 <= h < 2500 ->
  exists a b, civil_jdn (m2g h 1 1) = Some a /\ civil_jdn (m2g (h + 1) 1 1) = Some b /\
    b - a = islamic_ylen h /\ (b - a = 354 \/ b - a = 355).
Proof.
  intros h Hh. exists (islamic_jdn h 1 1), (islamic_jdn (h + 1) 1 1).
  pose proof (islamic_year_length h). pose proof (islamic_ylen_354_355 h).
  repeat split; try lia; apply m2g_spec; try lia; apply islamic_valid_iff;
    change (islamic_mlen _ 1) with 30; lia.
Qed.

(* the hypotheses are satisfiable; documented examples *)
Example ex_m2g : m2g 1421 1 1 = tuple3 2000 4 6. Proof. vm_compute. reflexivity. Qed.
Example ex_g2m : g2m 1991 8 13 = tuple3 1412 2 2. Proof. vm_compute. reflexivity. Qed.
Example ex_epoch : m2g 1 1 1 = VTuple [VInt 622; VInt 7; VFloat 16%float]. Proof. vm_compute. reflexivity. Qed.
Example ex_easter : easter 1991 = pair_val (3, 31). Proof. vm_compute. reflexivity. Qed.
Example ex_pesach : pesach 1990 = pair_val (4, 10). Proof. vm_compute. reflexivity. Qed.
