(* C19: Easter of every year -4712 .. 10000, by kernel computation *)
From Coq Require Import ZArith NArith.
From PyLib Require Import Range.
From Proofs.C19 Require Import C19_defs.
Lemma easter_all : all_range (-4712) 14713%N chk_easter = true.
Proof. vm_cast_no_check (@eq_refl bool true). Qed.
