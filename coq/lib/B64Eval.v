(* B64Eval: symbolic evaluation of the generated model in the BINARY64 instance (B0 / B64ops t)
   with abstract primitive floats.  [b64run] (goal  model_call = rhs): weak-head steps (Whnf),
   binds and tuple/list/object elements call-by-value; a stuck boolean (a primitive float
   comparison on an abstract float, is_nan, ...) is normalised and decided by a hypothesis of the
   context (up to conversion), or computed if it is closed; a stuck call of a blocked function
   is rewritten with a hypothesis  call = value  of the context, or with the rewrite hints of the
   database b64run (e.g. B64Mono.fmod_py_pymod: float % as the total function pymod).  The primitives and the b64_* functions
   of B64.v are never unfolded: reason about them with PyLib.B64Verified.  Nothing here is trusted. *)
From Coq Require Import ZArith Bool List.
From Coq Require Import Uint63 Floats.
From PyLib Require Import PyVal PyBuiltins B64 Whnf PyEval.
Import ListNotations.

Create HintDb b64run.

(* Python's float % (the body of PyVal.fmod_py for y <> 0) as a total function; kept folded by b64run;
   its properties are in B64Mono *)
Definition pymod (a y : float) : float :=
  let m := b64_fmod a y in
  if (m =? 0)%float then (if get_sign y then (-0)%float else 0%float)
  else if Bool.eqb (y <? 0)%float (m <? 0)%float then m else (m + y)%float.

From Ltac2 Require Ltac2.
Ltac2 Set Whnf.is_blocked as old := fun c =>
  Ltac2.Bool.or (old c)
    (Ltac2.List.exist (Ltac2.Constr.equal c)
       ['PrimFloat.leb; 'PrimFloat.ltb; 'PrimFloat.eqb; 'PrimFloat.compare; 'PrimFloat.abs; 'PrimFloat.opp;
        'PrimFloat.add; 'PrimFloat.sub; 'PrimFloat.mul; 'PrimFloat.div; 'PrimFloat.sqrt; 'PrimFloat.classify;
        'PrimFloat.of_uint63; 'PrimFloat.normfr_mantissa; 'PrimFloat.frshiftexp; 'PrimFloat.ldshiftexp;
        'b64_floor; 'b64_trunc; 'b64_fmod; 'b64_of_Z; 'b64_round; 'pymod]).

Ltac b64_decide s :=
  let s' := eval cbv -[b64_floor b64_trunc b64_fmod b64_of_Z pymod] in s in
  change s with s';
  first [ match goal with H : s' = _ |- _ => rewrite H end
        | match goal with H : ?l = ?b |- _ =>
            lazymatch type of l with bool => idtac end;
            unify l s'; change s' with l; rewrite H end
        | timeout 2 (let v := eval vm_compute in s' in
          lazymatch v with true => change s' with true | false => change s' with false end)
        | idtac "b64run: cannot decide" s'; fail 1 ].

Ltac b64run :=
  whnf_lhs;
  lazymatch goal with
  | |- ?l = _ =>
    tryif is_canon l then idtac else
    first [
      lazymatch l with
      | bind ?e ?k =>
          tryif is_canon e then
            lazymatch e with
            | VErr _ => rewrite (bind_err _ k)
            | _ => rewrite (bind_ok e k) by reflexivity; cbv beta
            end
          else
            (* call-by-value below the bind: innermost operator applications with canonical arguments
               first (the generated dispatch wrappers mention their arguments twice: plain weak-head
               evaluation of a nested Python expression of depth n costs 2^n) *)
            first [ progress (repeat (lazymatch goal with |- bind ?E _ = _ =>
                      match E with
                      | context [?f ?o ?a ?b] =>
                          lazymatch type of o with FloatOps _ => idtac end;
                          is_canon a; is_canon b;
                          lazymatch type of (f o a b) with val _ => idtac end;
                          let H := fresh "Hin" in
                          eassert (H : f o a b = _) by (b64run; py_canon_refl); rewrite H; clear H
                      | context [?f ?o ?a (?g ?o)] =>       (* a module-level constant g_NAME O as operand *)
                          lazymatch type of o with FloatOps _ => idtac end;
                          lazymatch type of (g o) with val _ => idtac end;
                          let H := fresh "Hin" in
                          eassert (H : g o = _) by (b64run; py_canon_refl); rewrite H; clear H
                      | context [?f ?o (?g ?o) ?b] =>
                          lazymatch type of o with FloatOps _ => idtac end;
                          lazymatch type of (g o) with val _ => idtac end;
                          let H := fresh "Hin" in
                          eassert (H : g o = _) by (b64run; py_canon_refl); rewrite H; clear H
                      end end))
                  | let H := fresh "Hev" in
                    eassert (H : e = _) by (b64run; py_canon_refl);
                    rewrite H; clear H ]
      | VTuple ?xs => first_noncanon xs ltac:(fun x =>
            let H := fresh "Hev" in
            eassert (H : x = _) by (b64run; py_canon_refl); rewrite H; clear H)
      | VList ?xs => first_noncanon xs ltac:(fun x =>
            let H := fresh "Hev" in
            eassert (H : x = _) by (b64run; py_canon_refl); rewrite H; clear H)
      | VObj _ ?xs => first_noncanon xs ltac:(fun x =>
            let H := fresh "Hev" in
            eassert (H : x = _) by (b64run; py_canon_refl); rewrite H; clear H)
      | _ =>
          pose_stuck;
          lazymatch goal with
          | py_stuck := ?s |- _ =>
              clear py_stuck;
              lazymatch s with
              | bind ?e ?k =>
                  let H := fresh "Hev" in
                  eassert (H : bind e k = _) by (b64run; py_canon_refl);
                  rewrite H; clear H
              | _ => lazymatch type of s with
                     | bool => b64_decide s
                     | _ => first [ match goal with H : s = _ |- _ => rewrite H end
                                  | match goal with H : ?l = _ |- _ =>
                                      lazymatch type of l with val _ => idtac end;
                                      unify l s; change s with l; rewrite H end
                                  | progress (autorewrite with b64run)
                                  | idtac "b64run: stuck on" s; fail ]
                     end
              end
          end
      end;
      b64run
    | idtac ]
  end.

