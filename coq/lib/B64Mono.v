(* B64Mono: tools for all-floats theorems about the generated model in binary64, on top of
   B64Verified:  division;  Python's float % as a total function [pymod] with its range;
   finiteness / magnitude tracking with power-of-two bounds ([bnd x k]: x finite, |x| <= 2^k) and
   the tactic [bnd_tac] that derives such a bound by recursion over a float expression. *)
From Coq Require Import ZArith Reals Lra Lia Bool.
From Coq Require Import Uint63 Floats.
From Flocq Require Import Core BinarySingleNaN PrimFloat.
From PyLib Require Import PyVal B64 B64Verified B64Eval.
Open Scope R_scope.

#[local] Instance fexp64_valid_i : Valid_exp fexp64 := fexp64_valid.
#[local] Instance fexp64_mono_i : Monotone_exp fexp64 := fexp64_mono.

Lemma div_R x y : fin x -> fin y -> RV y <> 0 -> Rabs (RN (RV x / RV y)) < bpow radix2 emax ->
  RV (x / y) = RN (RV x / RV y) /\ fin (x / y).
Proof.
  intros Fx Fy Hy Hb. unfold RV, fin. rewrite div_equiv.
  generalize (Bdiv_correct prec emax Hprec Hmax mode_NE (Prim2B x) (Prim2B y) Hy).
  rewrite Rlt_bool_true by exact Hb. intros (A & B & _). split; [exact A|]. rewrite B. exact Fx.
Qed.

(* ------------------------------------------------------- Python's float % *)
Lemma fmod_py_pymod a y : (y =? 0)%float = false -> fmod_py B0 a y = VFloat (pymod a y).
Proof.
  intro Hy. unfold fmod_py, pymod.
  cbn [f_eqb f_fmod f_signbit f_neg f_ltb f_add B0 B64ops B64opsC f0 f_of_Z].
  change (b64_of_Z 0) with 0%float. rewrite Hy.
  destruct (b64_fmod a y =? 0)%float; [destruct (get_sign y); reflexivity|].
  destruct (Bool.eqb (y <? 0)%float (b64_fmod a y <? 0)%float); reflexivity.
Qed.
Lemma fmod_py_1 a : fmod_py B0 a (b64_of_Z 1) = VFloat (pymod a 1).
Proof. apply (fmod_py_pymod a 1). reflexivity. Qed.
#[export] Hint Rewrite fmod_py_pymod using reflexivity : b64run.

(* a % y for finite a and finite y > 0: finite, in [0, y] (y itself only by rounding of m + y) *)
Lemma pymod_pos_range a y : fin a -> fin y -> 0 < RV y ->
  fin (pymod a y) /\ 0 <= RV (pymod a y) <= RV y /\
  (0 <= RV a -> RV (pymod a y) = RV a - IZR (Zfloor (RV a / RV y)) * RV y /\ RV (pymod a y) < RV y).
Proof.
  intros Fa Fy Hy. destruct (b64_fmod_correct a y Fa Fy ltac:(lra)) as [Hm Fm].
  unfold pymod. set (m := b64_fmod a y) in *.
  set (q := RV a / RV y) in *.
  assert (RV a = q * RV y) as Eq by (unfold q; field; lra).
  assert (Rabs (q - IZR (Ztrunc q)) < 1) as Hfrac.
  { unfold Ztrunc. destruct (Rlt_bool_spec q 0).
    - pose proof (Zceil_ub q). pose proof (Zceil_lb q). apply Rabs_def1; lra.
    - pose proof (Zfloor_lb q). pose proof (Zfloor_ub q). apply Rabs_def1; lra. }
  assert (RV m = (q - IZR (Ztrunc q)) * RV y) as Hm' by (rewrite Hm, Eq at 1; ring).
  apply Rabs_def2 in Hfrac.
  rewrite (eqb_R m 0 Fm fin_zero), RV_zero, (ltb_R y 0 Fy fin_zero), (ltb_R m 0 Fm fin_zero), RV_zero.
  rewrite (Rlt_bool_false (RV y) 0) by lra. rewrite (sign_pos y Hy).
  destruct (Req_bool_spec (RV m) 0) as [Z | NZ].
  - rewrite RV_zero. split; [exact fin_zero|]. split; [lra|]. intro Ha.
    assert (0 <= q) by (unfold q; apply Rmult_le_pos; [lra | left; apply Rinv_0_lt_compat; lra]).
    unfold Ztrunc in Hm. rewrite Rlt_bool_false in Hm by assumption. rewrite <- Hm, Z. lra.
  - destruct (Rlt_bool_spec (RV m) 0) as [Hn | Hp]; cbn [Bool.eqb].
    + (* a < 0: m + y, one rounding *)
      assert (0 < RV m + RV y < RV y) as Hs by nra.
      assert (0 <= RN (RV m + RV y) <= RV y) as Hr.
      { split; [rewrite <- RN_0; apply RN_le; lra|].
        apply Rle_trans with (RN (RV y)); [apply RN_le; lra | rewrite RN_id; lra]. }
      destruct (add_R m y Fm Fy) as [A B].
      { eapply Rle_lt_trans; [| apply (RV_lt_emax y)]. rewrite !Rabs_pos_eq by lra. lra. }
      rewrite A. split; [exact B|]. split; [exact Hr|]. intro Ha.
      exfalso. assert (0 <= q) by (unfold q; apply Rmult_le_pos; [lra | left; apply Rinv_0_lt_compat; lra]).
      unfold Ztrunc in Hm'. rewrite Rlt_bool_false in Hm' by assumption. pose proof (Zfloor_lb q). nra.
    + split; [exact Fm|]. assert (0 < RV m) by lra. split; [nra|]. intro Ha.
      assert (0 <= q) by (unfold q; apply Rmult_le_pos; [lra | left; apply Rinv_0_lt_compat; lra]).
      unfold Ztrunc in Hm, Hm'. rewrite Rlt_bool_false in Hm, Hm' by assumption. pose proof (Zfloor_ub q). split; [exact Hm | nra].
Qed.

(* x % 1: in [0, 1]; exactly 1.0 only for a negative x whose fractional part is within 2^-54 of 0 *)
Lemma pymod_1_range a : fin a ->
  fin (pymod a 1) /\ 0 <= RV (pymod a 1) <= 1 /\
  (0 <= RV a -> RV (pymod a 1) = RV a - IZR (Zfloor (RV a)) /\ RV (pymod a 1) < 1) /\
  (RV (pymod a 1) = 1 -> RV a < 0 /\ - bpow radix2 (-54) <= RV a - IZR (Zceil (RV a)) < 0).
Proof.
  intro Fa. destruct (pymod_pos_range a 1 Fa fin_one ltac:(rewrite RV_one; lra)) as (F & R & P).
  rewrite RV_one in R, P. split; [exact F|]. split; [exact R|]. split.
  - intro Ha. destruct (P Ha) as [E L]. unfold Rdiv in E. rewrite Rinv_1, !Rmult_1_r in E. split; assumption.
  - intro H1. destruct (Rle_dec 0 (RV a)) as [Hp | Hn]; [destruct (P Hp); lra|].
    assert (RV a < 0) as Ha by lra. split; [exact Ha|].
    (* unfold the negative branch *)
    destruct (b64_fmod_1_value a Fa) as [Hm Fm].
    unfold Ztrunc in Hm. rewrite Rlt_bool_true in Hm by exact Ha.
    pose proof (Zceil_ub (RV a)) as Hu. pose proof (Zceil_lb (RV a)) as Hl.
    unfold pymod in H1. set (m := b64_fmod a 1) in *.
    rewrite (eqb_R m 0 Fm fin_zero), RV_zero, (ltb_R 1 0 fin_one fin_zero), (ltb_R m 0 Fm fin_zero), RV_zero, RV_one in H1.
    rewrite (Rlt_bool_false 1 0) in H1 by lra.
    destruct (Req_bool_spec (RV m) 0) as [Z | NZ].
    { change (get_sign 1) with false in H1. cbv iota in H1. rewrite RV_zero in H1. lra. }
    destruct (Rlt_bool_spec (RV m) 0) as [Hmn | Hmp]; cbn [Bool.eqb] in H1; [| lra].
    destruct (add_R m 1 Fm fin_one) as [A _].
    { rewrite RV_one. apply small_lt_emax. apply Rabs_le.
      assert (-1 < RV m) by (rewrite Hm; lra).
      assert (0 <= RN (RV m + 1) <= 1); [| lra].
      split; [rewrite <- RN_0; apply RN_le; lra|].
      apply Rle_trans with (RN (IZR 1)); [apply RN_le; simpl; lra | rewrite (RN_int 1) by lia; simpl; lra]. }
    rewrite RV_one in A. rewrite A in H1. rewrite <- Hm. split; [| lra].
    apply Rnot_lt_le. intro Hlt.
    set (u := 1 - bpow radix2 (-53)).
    assert (fmt u) as Fu.
    { unfold u. change 1 with (bpow radix2 0). change (bpow radix2 0 - bpow radix2 (-53)) with (bpow radix2 0 - bpow radix2 (fexp64 0)).
      rewrite <- pred_bpow. apply (generic_format_pred radix2 fexp64). apply (generic_format_bpow radix2 fexp64 0). vm_compute. discriminate. }
    assert (succ radix2 fexp64 u = 1) as Hsu.
    { unfold u. change 1 with (bpow radix2 0). change (bpow radix2 0 - bpow radix2 (-53)) with (bpow radix2 0 - bpow radix2 (fexp64 0)).
      rewrite <- pred_bpow. apply (succ_pred radix2 fexp64). apply (generic_format_bpow radix2 fexp64 0). vm_compute. discriminate. }
    pose proof (round_N_le_midp radix2 fexp64 (fun t => negb (Z.even t)) u (RV m + 1) Fu) as Hmid.
    rewrite Hsu in Hmid.
    assert (bpow radix2 (-53) = 2 * bpow radix2 (-54)) as E53
      by (change (-53)%Z with (1 + -54)%Z; rewrite bpow_plus; reflexivity).
    pose proof (bpow_gt_0 radix2 (-54)).
    assert (RN (RV m + 1) <= u) by (apply Hmid; unfold u; lra).
    unfold u in *. lra.
Qed.

(* ---------------------------------------------- magnitude / finiteness tracking *)
Definition bnd (x : PrimFloat.float) (k : Z) : Prop := fin x /\ Rabs (RV x) <= bpow radix2 k.

Lemma RN_abs_le_bpow v k : (-1074 <= k)%Z -> Rabs v <= bpow radix2 k -> Rabs (RN v) <= bpow radix2 k.
Proof.
  intros Hk H. apply abs_round_le_generic; [apply fexp64_valid | apply valid_rnd_N | | exact H].
  apply generic_format_bpow. unfold SpecFloat.fexp, SpecFloat.emin. change prec with 53%Z. change emax with 1024%Z. lia.
Qed.

Lemma bpow_lt_emax k : (k <= 1023)%Z -> bpow radix2 k < bpow radix2 emax.
Proof. intro H. apply bpow_lt. change emax with 1024%Z. lia. Qed.

(* k range kept explicit: -1074 <= k <= 1023 *)
Definition kok (k : Z) : bool := ((-1074 <=? k) && (k <=? 1023))%Z.
Lemma kok_spec k : kok k = true -> (-1074 <= k <= 1023)%Z.
Proof. unfold kok. rewrite andb_true_iff, !Z.leb_le. tauto. Qed.

Lemma add_bnd a b ka kb : bnd a ka -> bnd b kb -> kok (1 + Z.max ka kb) = true -> bnd (a + b) (1 + Z.max ka kb).
Proof.
  intros [Fa Ha] [Fb Hb] Hk. apply kok_spec in Hk.
  assert (Rabs (RV a + RV b) <= bpow radix2 (1 + Z.max ka kb)) as H.
  { eapply Rle_trans; [apply Rabs_triang|]. rewrite bpow_plus. change (bpow radix2 1) with 2.
    assert (bpow radix2 ka <= bpow radix2 (Z.max ka kb)) by (apply bpow_le; lia).
    assert (bpow radix2 kb <= bpow radix2 (Z.max ka kb)) by (apply bpow_le; lia). lra. }
  assert (Hr := fun K => RN_abs_le_bpow _ _ K H). specialize (Hr ltac:(lia)).
  destruct (add_R a b Fa Fb) as [A B].
  - eapply Rle_lt_trans; [exact Hr | apply bpow_lt_emax; lia].
  - split; [exact B | rewrite A; exact Hr].
Qed.
Lemma sub_bnd a b ka kb : bnd a ka -> bnd b kb -> kok (1 + Z.max ka kb) = true -> bnd (a - b) (1 + Z.max ka kb).
Proof.
  intros [Fa Ha] [Fb Hb] Hk. apply kok_spec in Hk.
  assert (Rabs (RV a - RV b) <= bpow radix2 (1 + Z.max ka kb)) as H.
  { unfold Rminus. eapply Rle_trans; [apply Rabs_triang|]. rewrite Rabs_Ropp, bpow_plus. change (bpow radix2 1) with 2.
    assert (bpow radix2 ka <= bpow radix2 (Z.max ka kb)) by (apply bpow_le; lia).
    assert (bpow radix2 kb <= bpow radix2 (Z.max ka kb)) by (apply bpow_le; lia). lra. }
  assert (Hr := fun K => RN_abs_le_bpow _ _ K H). specialize (Hr ltac:(lia)).
  destruct (sub_R a b Fa Fb) as [A B].
  - eapply Rle_lt_trans; [exact Hr | apply bpow_lt_emax; lia].
  - split; [exact B | rewrite A; exact Hr].
Qed.
Lemma mul_bnd a b ka kb : bnd a ka -> bnd b kb -> kok (ka + kb) = true -> bnd (a * b) (ka + kb).
Proof.
  intros [Fa Ha] [Fb Hb] Hk. apply kok_spec in Hk.
  assert (Rabs (RV a * RV b) <= bpow radix2 (ka + kb)) as H.
  { rewrite Rabs_mult, bpow_plus. apply Rmult_le_compat; try apply Rabs_pos; assumption. }
  assert (Hr := fun K => RN_abs_le_bpow _ _ K H). specialize (Hr ltac:(lia)).
  destruct (mul_R a b Fa Fb) as [A B].
  - eapply Rle_lt_trans; [exact Hr | apply bpow_lt_emax; lia].
  - split; [exact B | rewrite A; exact Hr].
Qed.
(* division by a float of magnitude >= 1 *)
Lemma div_bnd a b ka : bnd a ka -> fin b -> 1 <= Rabs (RV b) -> kok ka = true -> bnd (a / b) ka.
Proof.
  intros [Fa Ha] Fb Hb Hk. apply kok_spec in Hk.
  assert (RV b <> 0) as Hb0 by (intro E; rewrite E, Rabs_R0 in Hb; lra).
  assert (Rabs (RV a / RV b) <= bpow radix2 ka) as H.
  { unfold Rdiv. rewrite Rabs_mult, Rabs_inv.
    apply Rle_trans with (Rabs (RV a) * 1); [| lra].
    apply Rmult_le_compat_l; [apply Rabs_pos|]. rewrite <- Rinv_1. apply Rinv_le_contravar; lra. }
  assert (Hr := fun K => RN_abs_le_bpow _ _ K H). specialize (Hr ltac:(lia)).
  destruct (div_R a b Fa Fb Hb0) as [A B].
  - eapply Rle_lt_trans; [exact Hr | apply bpow_lt_emax; lia].
  - split; [exact B | rewrite A; exact Hr].
Qed.
Lemma abs_bnd a ka : bnd a ka -> bnd (abs a) ka.
Proof. intros [Fa Ha]. split; [apply abs_fin; exact Fa | rewrite abs_R, Rabs_Rabsolu; exact Ha]. Qed.
Lemma bnd_weaken a k k' : bnd a k -> (k <= k')%Z -> bnd a k'.
Proof. intros [F H] L. split; [exact F|]. eapply Rle_trans; [exact H | apply bpow_le; exact L]. Qed.

(* a closed literal: finite, |c| <= 2^k, checked by computation on mantissa and exponent *)
Definition lit_chk (c : PrimFloat.float) (k : Z) : bool :=
  match Prim2SF c with
  | S754_zero _ => true
  | S754_finite _ m e => (Z.pos m * 2 ^ (e + 1100) <=? 2 ^ (k + 1100))%Z && (-1100 <=? e)%Z && (-1100 <=? k)%Z
  | _ => false
  end.
Lemma lit_bnd c k : lit_chk c k = true -> bnd c k.
Proof.
  unfold lit_chk, bnd, fin. rewrite RV_SF, <- is_finite_SF_B2SF, B2SF_Prim2B.
  destruct (Prim2SF c) as [s|s| |s m e]; try discriminate.
  - intros _. split; [reflexivity|]. simpl. rewrite Rabs_R0. apply bpow_ge_0.
  - rewrite !andb_true_iff, !Z.leb_le. intros [[H He] Hk]. split; [reflexivity|].
    unfold SF2R. rewrite <- F2R_Zabs, abs_cond_Zopp. unfold F2R. simpl Fnum. simpl Fexp.
    apply Rmult_le_reg_r with (bpow radix2 1100); [apply bpow_gt_0|].
    rewrite Rmult_assoc, <- !bpow_plus. rewrite <- !IZR_Zpower by lia. rewrite <- mult_IZR.
    apply IZR_le. exact H.
Qed.

(* a closed float of magnitude >= 1 *)
Definition lit_ge1_chk (c : PrimFloat.float) : bool :=
  match Prim2SF c with
  | S754_finite _ m e => (2 ^ 1100 <=? Z.pos m * 2 ^ (e + 1100))%Z && (-1100 <=? e)%Z
  | _ => false
  end.
Lemma lit_ge1 c : lit_ge1_chk c = true -> fin c /\ 1 <= Rabs (RV c).
Proof.
  unfold lit_ge1_chk, fin. rewrite RV_SF, <- is_finite_SF_B2SF, B2SF_Prim2B.
  destruct (Prim2SF c) as [s|s| |s m e]; try discriminate.
  rewrite andb_true_iff, !Z.leb_le. intros [H He]. split; [reflexivity|].
  unfold SF2R. rewrite <- F2R_Zabs, abs_cond_Zopp. unfold F2R. simpl Fnum. simpl Fexp.
  apply Rmult_le_reg_r with (bpow radix2 1100); [apply bpow_gt_0|].
  rewrite Rmult_1_l, Rmult_assoc, <- bpow_plus. rewrite <- !IZR_Zpower by lia. rewrite <- mult_IZR.
  apply IZR_le. exact H.
Qed.
Lemma div_lit_bnd a b ka : bnd a ka -> lit_ge1_chk b = true -> kok ka = true -> bnd (a / b) ka.
Proof. intros Ha Hb Hk. destruct (lit_ge1 b Hb) as [Fb Hb1]. apply div_bnd; assumption. Qed.

Lemma pymod_bnd a y ka ky : bnd a ka -> bnd y ky -> 0 < RV y -> bnd (pymod a y) ky.
Proof.
  intros [Fa _] [Fy Hy] Hpos. destruct (pymod_pos_range a y Fa Fy Hpos) as (F & R & _).
  split; [exact F|]. rewrite Rabs_pos_eq by lra. rewrite Rabs_pos_eq in Hy by lra. lra.
Qed.
Lemma lit_pos_chk c : (0 <? c)%float = true -> PrimFloat.is_finite c = true -> 0 < RV c.
Proof.
  intros H F. apply fin_prim in F. rewrite (ltb_R 0 c fin_zero F), RV_zero in H.
  destruct (Rlt_bool_spec 0 (RV c)); [assumption | discriminate].
Qed.

(* exponent bound of a closed float, for the leaves of bnd_tac *)
Definition lit_k (c : PrimFloat.float) : Z :=
  match Prim2SF c with S754_finite _ m e => (Z.log2 (Z.pos m) + 1 + e)%Z | _ => 0%Z end.
Ltac bnd_lit c :=
  tryif (match c with context [?v] => is_var v end) then fail "bnd_lit: not closed" c else
  (let k := eval vm_compute in (lit_k c) in
   apply (lit_bnd c k); vm_compute; reflexivity).

(* derive [bnd e ?k] by recursion over the expression e *)
Ltac bnd_tac :=
  cbn [f_add f_sub f_mul f_div f_lit f_abs f_neg f_floor f_trunc zf f_of_Z B0 B64ops B64opsC];
  lazymatch goal with
  | |- bnd (?a + ?b)%float _ => eapply add_bnd; [bnd_tac | bnd_tac | vm_compute; reflexivity]
  | |- bnd (?a - ?b)%float _ => eapply sub_bnd; [bnd_tac | bnd_tac | vm_compute; reflexivity]
  | |- bnd (?a * ?b)%float _ => eapply mul_bnd; [bnd_tac | bnd_tac | vm_compute; reflexivity]
  | |- bnd (?a / ?b)%float _ => first [ eapply div_lit_bnd; [bnd_tac | vm_compute; reflexivity | vm_compute; reflexivity]
                                       | timeout 5 (bnd_lit (a / b)%float) ]
  | |- bnd (pymod ?a ?y) _ => eapply pymod_bnd; [bnd_tac | bnd_tac | apply lit_pos_chk; reflexivity]
  | |- bnd (abs ?a) _ => eapply abs_bnd; bnd_tac
  | |- bnd ?c _ => first [ eassumption | timeout 5 (bnd_lit c) ]
  end.

(* ------------------------------------ the same for non-negative quantities *)
Definition bnn (x : PrimFloat.float) (k : Z) : Prop := fin x /\ 0 <= RV x <= bpow radix2 k.
Lemma bnn_bnd x k : bnn x k -> bnd x k.
Proof. intros [F [H0 H1]]. split; [exact F | rewrite Rabs_pos_eq; assumption]. Qed.
Lemma bnd_bnn x k : bnd x k -> 0 <= RV x -> bnn x k.
Proof. intros [F H] H0. split; [exact F|]. rewrite Rabs_pos_eq in H by exact H0. lra. Qed.

Lemma add_bnn a b ka kb : bnn a ka -> bnn b kb -> kok (1 + Z.max ka kb) = true -> bnn (a + b) (1 + Z.max ka kb).
Proof.
  intros Ha Hb Hk. apply bnd_bnn; [apply add_bnd; [apply bnn_bnd; exact Ha | apply bnn_bnd; exact Hb | exact Hk]|].
  destruct Ha as [Fa [Ha0 Ha1]], Hb as [Fb [Hb0 Hb1]].
  destruct (add_bnd a b ka kb) as [F _]; [split; [exact Fa | rewrite Rabs_pos_eq; assumption] | split; [exact Fb | rewrite Rabs_pos_eq; assumption] | exact Hk |].
  apply kok_spec in Hk.
  destruct (add_R a b Fa Fb) as [A _].
  - assert (Rabs (RV a + RV b) <= bpow radix2 (1 + Z.max ka kb)) as H.
    { rewrite Rabs_pos_eq by lra. rewrite bpow_plus. change (bpow radix2 1) with 2.
      assert (bpow radix2 ka <= bpow radix2 (Z.max ka kb)) by (apply bpow_le; lia).
      assert (bpow radix2 kb <= bpow radix2 (Z.max ka kb)) by (apply bpow_le; lia). lra. }
    eapply Rle_lt_trans; [apply (RN_abs_le_bpow _ (1 + Z.max ka kb)); [lia | exact H] | apply bpow_lt_emax; lia].
  - rewrite A, <- RN_0. apply RN_le. lra.
Qed.
Lemma mul_bnn a b ka kb : bnn a ka -> bnn b kb -> kok (ka + kb) = true -> bnn (a * b) (ka + kb).
Proof.
  intros Ha Hb Hk. apply bnd_bnn; [apply mul_bnd; [apply bnn_bnd; exact Ha | apply bnn_bnd; exact Hb | exact Hk]|].
  destruct Ha as [Fa [Ha0 Ha1]], Hb as [Fb [Hb0 Hb1]]. apply kok_spec in Hk.
  destruct (mul_R a b Fa Fb) as [A _].
  - assert (Rabs (RV a * RV b) <= bpow radix2 (ka + kb)) as H.
    { rewrite Rabs_pos_eq by (apply Rmult_le_pos; assumption). rewrite bpow_plus. apply Rmult_le_compat; assumption. }
    eapply Rle_lt_trans; [apply (RN_abs_le_bpow _ (ka + kb)); [lia | exact H] | apply bpow_lt_emax; lia].
  - rewrite A, <- RN_0. apply RN_le. apply Rmult_le_pos; assumption.
Qed.
(* division by a closed float >= 1 *)
Definition lit_ge1p_chk (c : PrimFloat.float) : bool := lit_ge1_chk c && (0 <? c)%float.
Lemma div_lit_bnn a b ka : bnn a ka -> lit_ge1p_chk b = true -> kok ka = true -> bnn (a / b) ka.
Proof.
  intros Ha Hb Hk. unfold lit_ge1p_chk in Hb. apply andb_true_iff in Hb. destruct Hb as [Hb1 Hb2].
  apply bnd_bnn; [apply div_lit_bnd; [apply bnn_bnd; exact Ha | exact Hb1 | exact Hk]|].
  destruct (lit_ge1 b Hb1) as [Fb Hge]. destruct Ha as [Fa [Ha0 Ha1]]. apply kok_spec in Hk.
  assert (0 < RV b) as Hbp.
  { rewrite (ltb_R 0 b fin_zero Fb), RV_zero in Hb2. destruct (Rlt_bool_spec 0 (RV b)); [assumption | discriminate]. }
  rewrite Rabs_pos_eq in Hge by lra.
  assert (0 <= RV a / RV b <= bpow radix2 ka) as Hq.
  { split; [apply Rmult_le_pos; [exact Ha0 | left; apply Rinv_0_lt_compat; exact Hbp]|].
    apply Rle_trans with (RV a * 1); [| lra]. apply Rmult_le_compat_l; [exact Ha0|].
    rewrite <- Rinv_1. apply Rinv_le_contravar; lra. }
  destruct (div_R a b Fa Fb ltac:(lra)) as [A _].
  - eapply Rle_lt_trans; [apply (RN_abs_le_bpow _ ka); [lia | rewrite Rabs_pos_eq; lra] | apply bpow_lt_emax; lia].
  - rewrite A, <- RN_0. apply RN_le. lra.
Qed.
Lemma pymod_bnn a y ka ky : bnd a ka -> bnd y ky -> 0 < RV y -> bnn (pymod a y) ky.
Proof.
  intros [Fa _] [Fy Hy] Hpos. destruct (pymod_pos_range a y Fa Fy Hpos) as (F & R & _).
  split; [exact F|]. rewrite Rabs_pos_eq in Hy by lra. lra.
Qed.
Definition lit_nn_chk (c : PrimFloat.float) (k : Z) : bool := lit_chk c k && (0 <=? c)%float.
Lemma lit_bnn c k : lit_nn_chk c k = true -> bnn c k.
Proof.
  unfold lit_nn_chk. rewrite andb_true_iff. intros [H1 H2]. destruct (lit_bnd c k H1) as [F H].
  apply bnd_bnn; [split; assumption|].
  rewrite (leb_R 0 c fin_zero F), RV_zero in H2. destruct (Rle_bool_spec 0 (RV c)); [assumption | discriminate].
Qed.
Ltac bnn_lit c :=
  tryif (match c with context [?v] => is_var v end) then fail "bnn_lit: not closed" c else
  (let k := eval vm_compute in (lit_k c) in
   apply (lit_bnn c k); vm_compute; reflexivity).

(* derive [bnn e ?k] (finite, 0 <= e <= 2^k) by recursion over e; leaves from the context *)
Ltac bnn_tac :=
  cbn [f_add f_sub f_mul f_div f_lit f_abs f_neg f_floor f_trunc zf f_of_Z B0 B64ops B64opsC];
  lazymatch goal with
  | |- bnn (?a + ?b)%float _ => first [ eassumption | eapply add_bnn; [bnn_tac | bnn_tac | vm_compute; reflexivity] ]
  | |- bnn (?a * ?b)%float _ => first [ eassumption | eapply mul_bnn; [bnn_tac | bnn_tac | vm_compute; reflexivity] ]
  | |- bnn (?a / ?b)%float _ => first [ eassumption
                                       | eapply div_lit_bnn; [bnn_tac | vm_compute; reflexivity | vm_compute; reflexivity]
                                       | timeout 5 (bnn_lit (a / b)%float) ]
  | |- bnn (pymod ?a ?y) _ => eapply pymod_bnn; [bnd_tac | bnd_tac | apply lit_pos_chk; reflexivity]
  | |- bnn ?c _ => first [ eassumption | timeout 5 (bnn_lit c) ]
  end.
