(* Sphere: real-analysis lemmas for directions on the unit sphere.
   - atan2 (Ideal.atan2; Coq 8.16 has none): cos/sin of it, range, polar uniqueness, scaling
   - periodicity of sin/cos over Z multiples of 2 PI, degree/radian helpers
   - unit vectors uvec lon lat, ACTIVE right-handed rotations Rx Ry Rz about the axes
     (Rz a (uvec l b) = uvec (l + a) b), mirror My, dot product, preservation lemmas
   - recovering (lon, lat) from a unit vector: uvec (atan2 y x) (asin z) = (x, y, z)
   - haversine.
   Nothing here depends on the generated model. *)
From Coq Require Import Reals ZArith Lra Lia Psatz.
From PyLib Require Import PyVal Ideal.
Open Scope R_scope.

(* ------------------------------------------------------------------ *)
(** * sin / cos basics *)

Lemma sin2_eq a : sin a * sin a = 1 - cos a * cos a.
Proof. pose proof (sin2_cos2 a) as H. unfold Rsqr in H. lra. Qed.

Lemma cos_period_Z x (k : Z) : cos (x + 2 * IZR k * PI) = cos x.
Proof.
  destruct (Z_le_gt_dec 0 k) as [Hk | Hk].
  - rewrite <- (Z2Nat.id k Hk), <- INR_IZR_INZ. apply cos_period.
  - assert (Hn : (0 <= - k)%Z) by lia.
    rewrite <- (cos_period (x + 2 * IZR k * PI) (Z.to_nat (- k))).
    rewrite INR_IZR_INZ, (Z2Nat.id _ Hn), opp_IZR. f_equal. ring.
Qed.

Lemma sin_period_Z x (k : Z) : sin (x + 2 * IZR k * PI) = sin x.
Proof.
  destruct (Z_le_gt_dec 0 k) as [Hk | Hk].
  - rewrite <- (Z2Nat.id k Hk), <- INR_IZR_INZ. apply sin_period.
  - assert (Hn : (0 <= - k)%Z) by lia.
    rewrite <- (sin_period (x + 2 * IZR k * PI) (Z.to_nat (- k))).
    rewrite INR_IZR_INZ, (Z2Nat.id _ Hn), opp_IZR. f_equal. ring.
Qed.

(* two angles less than a full turn apart with the same sine and cosine are equal *)
Lemma cos_sin_inj a b :
  - (2 * PI) < a - b < 2 * PI -> cos a = cos b -> sin a = sin b -> a = b.
Proof.
  intros Hd Hc Hs.
  assert (H1 : cos (a - b) = 1).
  { rewrite cos_minus, Hc, Hs. pose proof (sin2_eq b). lra. }
  assert (H2 : sin ((a - b) / 2) = 0).
  { replace (a - b) with (2 * ((a - b) / 2)) in H1 by field.
    rewrite cos_2a_sin in H1.
    assert (sin ((a - b) / 2) * sin ((a - b) / 2) = 0) by lra.
    apply Rmult_integral in H. tauto. }
  pose proof PI_RGT_0 as HPI.
  destruct (Rle_dec 0 ((a - b) / 2)) as [Hp | Hn].
  - destruct (sin_eq_O_2PI_0 ((a - b) / 2)) as [H | [H | H]]; try lra.
  - assert (H3 : sin (- ((a - b) / 2)) = 0) by (rewrite sin_neg; lra).
    destruct (sin_eq_O_2PI_0 (- ((a - b) / 2))) as [H | [H | H]]; try lra.
Qed.

(* ------------------------------------------------------------------ *)
(** * atan2 *)

Definition rho (x y : R) : R := sqrt (x * x + y * y).

Lemma rho_sqr x y : rho x y * rho x y = x * x + y * y.
Proof. unfold rho. apply sqrt_sqrt. nra. Qed.

Lemma rho_nonneg x y : 0 <= rho x y.
Proof. apply sqrt_pos. Qed.

Lemma rho_pos x y : x <> 0 \/ y <> 0 -> 0 < rho x y.
Proof. intros H. unfold rho. apply sqrt_lt_R0. destruct H; nra. Qed.

Lemma rho_0 : rho 0 0 = 0.
Proof. unfold rho. replace (0 * 0 + 0 * 0) with 0 by ring. apply sqrt_0. Qed.

Lemma rho_scale k x y : 0 <= k -> rho (k * x) (k * y) = k * rho x y.
Proof.
  intros Hk. unfold rho.
  replace (k * x * (k * x) + k * y * (k * y)) with (k * k * (x * x + y * y)) by ring.
  rewrite sqrt_mult by nra. rewrite sqrt_square by lra. reflexivity.
Qed.

Lemma sqrt_1_sqr_pos x y : 0 < x -> sqrt (1 + (y / x)²) = rho x y / x.
Proof.
  intros Hx. apply sqrt_lem_1.
  - unfold Rsqr. nra.
  - apply Rmult_le_pos. apply rho_nonneg. left. now apply Rinv_0_lt_compat.
  - unfold Rsqr. replace (rho x y / x * (rho x y / x)) with ((rho x y * rho x y) / (x * x)) by (field; lra).
    rewrite rho_sqr. field. lra.
Qed.

Lemma sqrt_1_sqr_neg x y : x < 0 -> sqrt (1 + (y / x)²) = rho x y / (- x).
Proof.
  intros Hx. apply sqrt_lem_1.
  - unfold Rsqr. nra.
  - apply Rmult_le_pos. apply rho_nonneg. left. apply Rinv_0_lt_compat. lra.
  - unfold Rsqr. replace (rho x y / - x * (rho x y / - x)) with ((rho x y * rho x y) / (x * x)) by (field; lra).
    rewrite rho_sqr. field. lra.
Qed.

Lemma atan2_pos y x : 0 < x -> atan2 y x = atan (y / x).
Proof. intros H. unfold atan2. destruct (Rlt_dec 0 x); [reflexivity | lra]. Qed.

Lemma atan2_neg_up y x : x < 0 -> 0 <= y -> atan2 y x = atan (y / x) + PI.
Proof.
  intros H Hy. unfold atan2. destruct (Rlt_dec 0 x); [lra |].
  destruct (Rlt_dec x 0); [| lra]. destruct (Rle_dec 0 y); [reflexivity | lra].
Qed.

Lemma atan2_neg_down y x : x < 0 -> y < 0 -> atan2 y x = atan (y / x) - PI.
Proof.
  intros H Hy. unfold atan2. destruct (Rlt_dec 0 x); [lra |].
  destruct (Rlt_dec x 0); [| lra]. destruct (Rle_dec 0 y); [lra | reflexivity].
Qed.

Lemma atan2_0_up y : 0 < y -> atan2 y 0 = PI / 2.
Proof.
  intros Hy. unfold atan2. destruct (Rlt_dec 0 0); [lra |].
  destruct (Rlt_dec 0 y); [reflexivity | lra].
Qed.

Lemma atan2_0_down y : y < 0 -> atan2 y 0 = - (PI / 2).
Proof.
  intros Hy. unfold atan2. destruct (Rlt_dec 0 0); [lra |].
  destruct (Rlt_dec 0 y); [lra |]. destruct (Rlt_dec y 0); [reflexivity | lra].
Qed.

Lemma atan2_0_0 : atan2 0 0 = 0.
Proof.
  unfold atan2. destruct (Rlt_dec 0 0); [lra |]. reflexivity.
Qed.

Lemma atan2_cos_sin y x : x <> 0 \/ y <> 0 ->
  cos (atan2 y x) = x / rho x y /\ sin (atan2 y x) = y / rho x y.
Proof.
  intros Hxy. pose proof (rho_pos x y Hxy) as Hr.
  destruct (Rtotal_order x 0) as [Hx | [Hx | Hx]].
  - (* x < 0 *)
    assert (Hs := sqrt_1_sqr_neg x y Hx).
    destruct (Rle_dec 0 y) as [Hy | Hy].
    + rewrite atan2_neg_up by lra.
      rewrite neg_cos, neg_sin, cos_atan, sin_atan, Hs. split; field; lra.
    + rewrite atan2_neg_down by lra.
      unfold Rminus. rewrite cos_plus, sin_plus, cos_neg, sin_neg, cos_PI, sin_PI.
      rewrite cos_atan, sin_atan, Hs. split; field; lra.
  - (* x = 0 *)
    subst x. assert (Hy : y <> 0) by (destruct Hxy; [lra | assumption]).
    assert (Hr2 := rho_sqr 0 y).
    destruct (Rtotal_order y 0) as [Hy0 | [Hy0 | Hy0]]; [| lra |].
    + rewrite atan2_0_down by lra. rewrite cos_neg, sin_neg, cos_PI2, sin_PI2.
      assert (rho 0 y = - y) by nra. rewrite H. split; field; lra.
    + rewrite atan2_0_up by lra. rewrite cos_PI2, sin_PI2.
      assert (rho 0 y = y) by nra. rewrite H. split; field; lra.
  - (* 0 < x *)
    assert (Hs := sqrt_1_sqr_pos x y Hx).
    rewrite atan2_pos by lra. rewrite cos_atan, sin_atan, Hs. split; field; lra.
Qed.

Lemma atan2_cos y x : x <> 0 \/ y <> 0 -> cos (atan2 y x) = x / rho x y.
Proof. intros H. apply (atan2_cos_sin y x H). Qed.

Lemma atan2_sin y x : x <> 0 \/ y <> 0 -> sin (atan2 y x) = y / rho x y.
Proof. intros H. apply (atan2_cos_sin y x H). Qed.

(* hypothesis-free forms *)
Lemma rho_cos_atan2 y x : rho x y * cos (atan2 y x) = x.
Proof.
  destruct (Req_dec x 0) as [Hx | Hx]; [destruct (Req_dec y 0) as [Hy | Hy] |].
  - subst. rewrite rho_0. ring.
  - rewrite atan2_cos by tauto. field. apply Rgt_not_eq, rho_pos; tauto.
  - rewrite atan2_cos by tauto. field. apply Rgt_not_eq, rho_pos; tauto.
Qed.

Lemma rho_sin_atan2 y x : rho x y * sin (atan2 y x) = y.
Proof.
  destruct (Req_dec x 0) as [Hx | Hx]; [destruct (Req_dec y 0) as [Hy | Hy] |].
  - subst. rewrite rho_0. ring.
  - rewrite atan2_sin by tauto. field. apply Rgt_not_eq, rho_pos; tauto.
  - rewrite atan2_sin by tauto. field. apply Rgt_not_eq, rho_pos; tauto.
Qed.

Lemma atan_nonpos u : u <= 0 -> atan u <= 0.
Proof.
  intros [H | H].
  - left. rewrite <- atan_0. now apply atan_increasing.
  - subst. rewrite atan_0. lra.
Qed.

Lemma atan_pos u : 0 < u -> 0 < atan u.
Proof. intros H. rewrite <- atan_0. now apply atan_increasing. Qed.

Lemma atan2_bound y x : - PI < atan2 y x <= PI.
Proof.
  pose proof PI_RGT_0 as HPI.
  destruct (Rtotal_order x 0) as [Hx | [Hx | Hx]].
  - destruct (Rle_dec 0 y) as [Hy | Hy].
    + rewrite atan2_neg_up by lra. pose proof (atan_bound (y / x)).
      assert (atan (y / x) <= 0).
      { apply atan_nonpos. unfold Rdiv.
        assert (/ x < 0) by now apply Rinv_lt_0_compat. nra. }
      lra.
    + rewrite atan2_neg_down by lra. pose proof (atan_bound (y / x)).
      assert (0 < atan (y / x)).
      { apply atan_pos. unfold Rdiv.
        assert (/ x < 0) by now apply Rinv_lt_0_compat. nra. }
      lra.
  - subst x. destruct (Rtotal_order y 0) as [Hy | [Hy | Hy]].
    + rewrite atan2_0_down by lra. lra.
    + subst. rewrite atan2_0_0. lra.
    + rewrite atan2_0_up by lra. lra.
  - rewrite atan2_pos by lra. pose proof (atan_bound (y / x)). lra.
Qed.

(* polar uniqueness: the angle of (r cos t, r sin t) is t *)
Lemma atan2_polar r t : 0 < r -> - PI < t <= PI -> atan2 (r * sin t) (r * cos t) = t.
Proof.
  intros Hr Ht.
  assert (Hne : r * cos t <> 0 \/ r * sin t <> 0).
  { destruct (Req_dec (cos t) 0) as [Hc | Hc].
    - right. pose proof (sin2_eq t). rewrite Hc in H. nra.
    - left. nra. }
  assert (Hrho : rho (r * cos t) (r * sin t) = r).
  { rewrite rho_scale by lra. unfold rho.
    replace (cos t * cos t + sin t * sin t) with 1 by (pose proof (sin2_eq t); lra).
    rewrite sqrt_1. ring. }
  pose proof (atan2_bound (r * sin t) (r * cos t)).
  apply cos_sin_inj.
  - lra.
  - rewrite atan2_cos by assumption. rewrite Hrho. field. lra.
  - rewrite atan2_sin by assumption. rewrite Hrho. field. lra.
Qed.

Lemma atan2_unique r t x y : 0 < r -> - PI < t <= PI -> x = r * cos t -> y = r * sin t ->
  atan2 y x = t.
Proof. intros Hr Ht -> ->. now apply atan2_polar. Qed.

Lemma atan2_scale k y x : 0 < k -> atan2 (k * y) (k * x) = atan2 y x.
Proof.
  intros Hk.
  destruct (Req_dec x 0) as [Hx | Hx]; [destruct (Req_dec y 0) as [Hy | Hy] |].
  - subst. now rewrite !Rmult_0_r.
  - subst x. rewrite Rmult_0_r.
    destruct (Rtotal_order y 0) as [H | [H | H]]; [| lra |].
    + rewrite !atan2_0_down; nra.
    + rewrite !atan2_0_up; nra.
  - assert (Hq : k * y / (k * x) = y / x) by (field; lra).
    destruct (Rtotal_order x 0) as [H | [H | H]]; [| lra |].
    + destruct (Rle_dec 0 y).
      * rewrite !atan2_neg_up, Hq; nra.
      * rewrite !atan2_neg_down, Hq; nra.
    + rewrite !atan2_pos, Hq; nra.
Qed.

(* dividing both arguments by a positive number (the codes divide by cos delta via tan) *)
Lemma atan2_div k y x : 0 < k -> atan2 (y / k) (x / k) = atan2 y x.
Proof.
  intros Hk. unfold Rdiv. rewrite (Rmult_comm y), (Rmult_comm x).
  apply atan2_scale. now apply Rinv_0_lt_compat.
Qed.

(* ------------------------------------------------------------------ *)
(** * degrees and radians *)

Definition d2r (d : R) : R := d * (PI / 180).
Definition r2d (r : R) : R := r * (180 / PI).

Lemma d2r_r2d r : d2r (r2d r) = r.
Proof. unfold d2r, r2d. field. apply PI_neq0. Qed.
Lemma r2d_d2r d : r2d (d2r d) = d.
Proof. unfold d2r, r2d. field. apply PI_neq0. Qed.
Lemma d2r_plus a b : d2r (a + b) = d2r a + d2r b.
Proof. unfold d2r. ring. Qed.
Lemma d2r_minus a b : d2r (a - b) = d2r a - d2r b.
Proof. unfold d2r. ring. Qed.
Lemma d2r_opp a : d2r (- a) = - d2r a.
Proof. unfold d2r. ring. Qed.
Lemma d2r_360k a (k : Z) : d2r (a + 360 * IZR k) = d2r a + 2 * IZR k * PI.
Proof. unfold d2r. field. Qed.
Lemma d2r_180 : d2r 180 = PI.
Proof. unfold d2r. field. Qed.
Lemma d2r_90 : d2r 90 = PI / 2.
Proof. unfold d2r. field. Qed.
Lemma d2r_lt a b : a < b -> d2r a < d2r b.
Proof. intros H. unfold d2r. pose proof PI_RGT_0. apply Rmult_lt_compat_r; lra. Qed.
Lemma d2r_le a b : a <= b -> d2r a <= d2r b.
Proof. intros H. unfold d2r. pose proof PI_RGT_0. apply Rmult_le_compat_r; lra. Qed.
Lemma r2d_lt a b : a < b -> r2d a < r2d b.
Proof.
  intros H. unfold r2d. pose proof PI_RGT_0. apply Rmult_lt_compat_r; [| lra].
  apply Rdiv_lt_0_compat; lra.
Qed.
Lemma r2d_le a b : a <= b -> r2d a <= r2d b.
Proof.
  intros H. unfold r2d. pose proof PI_RGT_0. apply Rmult_le_compat_r; [| lra].
  left. apply Rdiv_lt_0_compat; lra.
Qed.
Lemma r2d_PI : r2d PI = 180.
Proof. unfold r2d. field. apply PI_neq0. Qed.
Lemma r2d_opp a : r2d (- a) = - r2d a.
Proof. unfold r2d. ring. Qed.

(* sine and cosine only see degrees modulo 360 *)
Lemma cos_d2r_360k a (k : Z) : cos (d2r (a + 360 * IZR k)) = cos (d2r a).
Proof. rewrite d2r_360k. apply cos_period_Z. Qed.
Lemma sin_d2r_360k a (k : Z) : sin (d2r (a + 360 * IZR k)) = sin (d2r a).
Proof. rewrite d2r_360k. apply sin_period_Z. Qed.

(* C fmod only removes whole multiples *)
Lemma Rfmod_multiple x y : exists k : Z, Rfmod x y = x + y * IZR k.
Proof. unfold Rfmod. exists (- Rtrunc (x / y))%Z. rewrite opp_IZR. ring. Qed.

(* ------------------------------------------------------------------ *)
(** * vectors, rotations *)

Definition vec : Type := (R * R * R)%type.

Definition uvec (lon lat : R) : vec := (cos lat * cos lon, cos lat * sin lon, sin lat).

Definition dot (u v : vec) : R :=
  let '(a, b, c) := u in let '(d, e, f) := v in a * d + b * e + c * f.

Definition cross (u v : vec) : vec :=
  let '(a, b, c) := u in let '(d, e, f) := v in (b * f - c * e, c * d - a * f, a * e - b * d).

(* active right-handed rotations by the angle a about the x, y, z axis *)
Definition Rx (a : R) (v : vec) : vec :=
  let '(x, y, z) := v in (x, cos a * y - sin a * z, sin a * y + cos a * z).
Definition Ry (a : R) (v : vec) : vec :=
  let '(x, y, z) := v in (cos a * x + sin a * z, y, - sin a * x + cos a * z).
Definition Rz (a : R) (v : vec) : vec :=
  let '(x, y, z) := v in (cos a * x - sin a * y, sin a * x + cos a * y, z).
(* mirror in the x-z plane (longitude -> -longitude) *)
Definition My (v : vec) : vec := let '(x, y, z) := v in (x, - y, z).

Lemma vec_eq (a b c d e f : R) : a = d -> b = e -> c = f -> (a, b, c) = (d, e, f).
Proof. now intros -> -> ->. Qed.

Ltac vdestruct := repeat match goal with v : vec |- _ => destruct v as [[? ?] ?] end.

Lemma dot_sym u v : dot u v = dot v u.
Proof. vdestruct. unfold dot. ring. Qed.

Lemma dot_Rx a u v : dot (Rx a u) (Rx a v) = dot u v.
Proof. vdestruct. unfold dot, Rx. pose proof (sin2_eq a) as H. ring [H]. Qed.
Lemma dot_Ry a u v : dot (Ry a u) (Ry a v) = dot u v.
Proof. vdestruct. unfold dot, Ry. pose proof (sin2_eq a) as H. ring [H]. Qed.
Lemma dot_Rz a u v : dot (Rz a u) (Rz a v) = dot u v.
Proof. vdestruct. unfold dot, Rz. pose proof (sin2_eq a) as H. ring [H]. Qed.
Lemma dot_My u v : dot (My u) (My v) = dot u v.
Proof. vdestruct. unfold dot, My. ring. Qed.

Lemma Rx_add a b v : Rx a (Rx b v) = Rx (a + b) v.
Proof. vdestruct. unfold Rx. rewrite cos_plus, sin_plus. apply vec_eq; ring. Qed.
Lemma Ry_add a b v : Ry a (Ry b v) = Ry (a + b) v.
Proof. vdestruct. unfold Ry. rewrite cos_plus, sin_plus. apply vec_eq; ring. Qed.
Lemma Rz_add a b v : Rz a (Rz b v) = Rz (a + b) v.
Proof. vdestruct. unfold Rz. rewrite cos_plus, sin_plus. apply vec_eq; ring. Qed.

Lemma Rx_0 v : Rx 0 v = v.
Proof. vdestruct. unfold Rx. rewrite cos_0, sin_0. apply vec_eq; ring. Qed.
Lemma Ry_0 v : Ry 0 v = v.
Proof. vdestruct. unfold Ry. rewrite cos_0, sin_0. apply vec_eq; ring. Qed.
Lemma Rz_0 v : Rz 0 v = v.
Proof. vdestruct. unfold Rz. rewrite cos_0, sin_0. apply vec_eq; ring. Qed.

Lemma Rx_inv a v : Rx (- a) (Rx a v) = v.
Proof. rewrite Rx_add. replace (- a + a) with 0 by ring. apply Rx_0. Qed.
Lemma Ry_inv a v : Ry (- a) (Ry a v) = v.
Proof. rewrite Ry_add. replace (- a + a) with 0 by ring. apply Ry_0. Qed.
Lemma Rz_inv a v : Rz (- a) (Rz a v) = v.
Proof. rewrite Rz_add. replace (- a + a) with 0 by ring. apply Rz_0. Qed.
Lemma Rx_inv' a v : Rx a (Rx (- a) v) = v.
Proof. rewrite Rx_add. replace (a + - a) with 0 by ring. apply Rx_0. Qed.
Lemma Ry_inv' a v : Ry a (Ry (- a) v) = v.
Proof. rewrite Ry_add. replace (a + - a) with 0 by ring. apply Ry_0. Qed.
Lemma Rz_inv' a v : Rz a (Rz (- a) v) = v.
Proof. rewrite Rz_add. replace (a + - a) with 0 by ring. apply Rz_0. Qed.

Lemma Rz_period a (k : Z) v : Rz (a + 2 * IZR k * PI) v = Rz a v.
Proof. vdestruct. unfold Rz. now rewrite cos_period_Z, sin_period_Z. Qed.
Lemma Rz_2PI v : Rz (2 * PI) v = v.
Proof.
  replace (2 * PI) with (0 + 2 * IZR 1 * PI) by ring. rewrite Rz_period. apply Rz_0.
Qed.

Lemma My_My v : My (My v) = v.
Proof. vdestruct. unfold My. apply vec_eq; ring. Qed.
Lemma My_Ry a v : My (Ry a v) = Ry a (My v).
Proof. vdestruct. unfold My, Ry. apply vec_eq; ring. Qed.
Lemma My_Rz a v : My (Rz a v) = Rz (- a) (My v).
Proof. vdestruct. unfold My, Rz. rewrite cos_neg, sin_neg. apply vec_eq; ring. Qed.
Lemma My_Rx a v : My (Rx a v) = Rx (- a) (My v).
Proof. vdestruct. unfold My, Rx. rewrite cos_neg, sin_neg. apply vec_eq; ring. Qed.
(* turning the y axis around: Rz PI conjugates Ry a into Ry (-a) *)
Lemma Rz_PI_Ry a v : Rz PI (Ry a (Rz PI v)) = Ry (- a) v.
Proof. vdestruct. unfold Rz, Ry. rewrite cos_PI, sin_PI, cos_neg, sin_neg. apply vec_eq; ring. Qed.

Lemma uvec_norm l b : dot (uvec l b) (uvec l b) = 1.
Proof. unfold dot, uvec. pose proof (sin2_eq l) as H1. pose proof (sin2_eq b) as H2. ring [H1 H2]. Qed.

Lemma Rz_uvec a l b : Rz a (uvec l b) = uvec (l + a) b.
Proof. unfold Rz, uvec. rewrite cos_plus, sin_plus. apply vec_eq; ring. Qed.
Lemma My_uvec l b : My (uvec l b) = uvec (- l) b.
Proof. unfold My, uvec. rewrite cos_neg, sin_neg. apply vec_eq; ring. Qed.

Lemma uvec_period l (k : Z) b : uvec (l + 2 * IZR k * PI) b = uvec l b.
Proof. unfold uvec. now rewrite cos_period_Z, sin_period_Z. Qed.

(* the angle between two directions: cosine formula *)
Lemma dot_uvec l1 b1 l2 b2 :
  dot (uvec l1 b1) (uvec l2 b2) = sin b1 * sin b2 + cos b1 * cos b2 * cos (l1 - l2).
Proof. unfold dot, uvec. rewrite cos_minus. ring. Qed.

(* ------------------------------------------------------------------ *)
(** * longitude / latitude of a unit vector *)

Lemma unit_z_range x y z : x * x + y * y + z * z = 1 -> -1 <= z <= 1.
Proof. intros H. split; nra. Qed.

Theorem uvec_of_unit x y z : x * x + y * y + z * z = 1 ->
  uvec (atan2 y x) (asin z) = (x, y, z).
Proof.
  intros H. pose proof (unit_z_range x y z H) as Hz.
  unfold uvec. rewrite cos_asin, sin_asin by assumption.
  assert (Hr : sqrt (1 - z²) = rho x y).
  { unfold rho, Rsqr. f_equal. lra. }
  rewrite Hr, rho_cos_atan2, rho_sin_atan2. reflexivity.
Qed.

Lemma cos_lat_pos b : - (PI / 2) < b < PI / 2 -> 0 < cos b.
Proof. intros H. apply cos_gt_0; lra. Qed.
Lemma cos_lat_nonneg b : - (PI / 2) <= b <= PI / 2 -> 0 <= cos b.
Proof. intros H. apply cos_ge_0; lra. Qed.

Lemma lat_of_uvec b : - (PI / 2) <= b <= PI / 2 -> asin (sin b) = b.
Proof. apply asin_sin. Qed.

Lemma lon_of_uvec l b : - (PI / 2) < b < PI / 2 -> - PI < l <= PI ->
  atan2 (cos b * sin l) (cos b * cos l) = l.
Proof. intros Hb Hl. apply atan2_polar; [now apply cos_lat_pos | assumption]. Qed.

Lemma uvec_inj_lat l1 b1 l2 b2 :
  - (PI / 2) <= b1 <= PI / 2 -> - (PI / 2) <= b2 <= PI / 2 ->
  uvec l1 b1 = uvec l2 b2 -> b1 = b2.
Proof.
  intros H1 H2 H. unfold uvec in H. injection H as _ _ Hs.
  rewrite <- (asin_sin b1), <- (asin_sin b2) by assumption. now rewrite Hs.
Qed.

Lemma uvec_inj_lon l1 l2 b :
  - (PI / 2) < b < PI / 2 -> - (2 * PI) < l1 - l2 < 2 * PI ->
  uvec l1 b = uvec l2 b -> l1 = l2.
Proof.
  intros Hb Hl H. unfold uvec in H. injection H as Hc Hs.
  pose proof (cos_lat_pos b Hb) as Hcb.
  apply cos_sin_inj; [assumption | |].
  - apply Rmult_eq_reg_l with (cos b); lra.
  - apply Rmult_eq_reg_l with (cos b); lra.
Qed.

(* equal directions have equal canonical coordinates *)
Lemma uvec_inj l1 b1 l2 b2 :
  - (PI / 2) < b1 < PI / 2 -> - (PI / 2) <= b2 <= PI / 2 ->
  - (2 * PI) < l1 - l2 < 2 * PI ->
  uvec l1 b1 = uvec l2 b2 -> l1 = l2 /\ b1 = b2.
Proof.
  intros H1 H2 Hl H.
  assert (b1 = b2) by (apply (uvec_inj_lat l1 b1 l2 b2); [lra | lra | assumption]).
  subst b2. split; [| reflexivity]. now apply (uvec_inj_lon l1 l2 b1).
Qed.

(* ------------------------------------------------------------------ *)
(** * asin / haversine *)

Definition hav (t : R) : R := sin (t / 2) * sin (t / 2).

Lemma hav_cos t : hav t = (1 - cos t) / 2.
Proof.
  unfold hav. replace t with (2 * (t / 2)) at 3 by field. rewrite cos_2a_sin. field.
Qed.

Lemma hav_range t : 0 <= hav t <= 1.
Proof. rewrite hav_cos. pose proof (COS_bound t). lra. Qed.

Lemma hav_sym t : hav (- t) = hav t.
Proof. rewrite !hav_cos, cos_neg. reflexivity. Qed.

(* theta = 2 asin (sqrt h)  ==>  cos theta = 1 - 2 h,  0 <= theta <= PI *)
Lemma cos_2asin_sqrt h : 0 <= h <= 1 -> cos (2 * asin (sqrt h)) = 1 - 2 * h.
Proof.
  intros Hh. rewrite cos_2a_sin.
  assert (0 <= sqrt h <= 1).
  { split. apply sqrt_pos. rewrite <- sqrt_1. apply sqrt_le_1; lra. }
  rewrite sin_asin by lra. assert (Hs : sqrt h * sqrt h = h) by (apply sqrt_sqrt; lra).
  rewrite Rmult_assoc, Hs. ring.
Qed.

Lemma range_2asin_sqrt h : 0 <= h <= 1 -> 0 <= 2 * asin (sqrt h) <= PI.
Proof.
  intros Hh.
  assert (0 <= sqrt h <= 1).
  { split. apply sqrt_pos. rewrite <- sqrt_1. apply sqrt_le_1; lra. }
  pose proof (asin_bound (sqrt h)).
  assert (0 <= asin (sqrt h)).
  { destruct (Rle_dec 0 (asin (sqrt h))) as [Hp | Hn]; [assumption | exfalso].
    pose proof PI_RGT_0.
    assert (Hneg : sin (asin (sqrt h)) < 0) by (apply sin_lt_0_var; lra).
    rewrite sin_asin in Hneg by lra. lra. }
  lra.
Qed.

Lemma asin_range_deg x : - 90 <= r2d (asin x) <= 90.
Proof.
  pose proof (asin_bound x) as H. pose proof PI_RGT_0 as HPI.
  assert (E1 : r2d (- (PI / 2)) = - 90) by (unfold r2d; field; lra).
  assert (E2 : r2d (PI / 2) = 90) by (unfold r2d; field; lra).
  rewrite <- E1, <- E2. split; apply r2d_le; lra.
Qed.
