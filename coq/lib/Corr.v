(* Corr: bit-exact comparison of model results with values recorded from the
   implementation (used only by the correspondence check). *)
From Coq Require Import ZArith List String Bool PrimFloat.
From PyLib Require Import PyVal B64.
Import ListNotations.

Fixpoint val_bits_eqb (a b : val float) {struct a} : bool :=
  let fix l_eqb (l1 l2 : list (val float)) {struct l1} : bool :=
    match l1, l2 with
    | [], [] => true
    | x :: l1', y :: l2' => val_bits_eqb x y && l_eqb l1' l2'
    | _, _ => false
    end in
  match a, b with
  | VNone, VNone => true
  | VBool x, VBool y => Bool.eqb x y
  | VInt x, VInt y => Z.eqb x y
  | VFloat x, VFloat y => feq_bits x y
  | VStr s, VStr t => String.eqb s t
  | VTuple l1, VTuple l2 => l_eqb l1 l2
  | VList l1, VList l2 => l_eqb l1 l2
  | VObj c1 f1, VObj c2 f2 => Pos.eqb c1 c2 && l_eqb f1 f2
  | VDict k1, VDict k2 =>
      (fix d_eqb (l1 l2 : list (val float * val float)) {struct l1} : bool :=
         match l1, l2 with
         | [], [] => true
         | (x1, y1) :: l1', (x2, y2) :: l2' =>
             val_bits_eqb x1 x2 && val_bits_eqb y1 y2 && d_eqb l1' l2'
         | _, _ => false
         end) k1 k2
  | VErr e1, VErr e2 => exn_eqb e1 e2
  | _, _ => false
  end.
