(* B64Verified: the bit tricks of B64.v (floor / trunc / fmod-by-1 / int->float / round of
   the binary64 instance) proved correct against Flocq's real-number semantics of
   binary64 (B2R (Prim2B x)), through Flocq's PrimFloat bridge. *)
From Coq Require Import ZArith Reals Lra Lia Bool.
From Coq Require Import Uint63 Floats.
From Flocq Require Import Core BinarySingleNaN PrimFloat Div_sqrt_error.
From PyLib Require Import PyVal B64.
Open Scope R_scope.

Notation pfloat := PrimFloat.float.
Notation fexp64 := (SpecFloat.fexp prec emax).
Notation RN := (round radix2 fexp64 ZnearestE).
Notation fmt := (generic_format radix2 fexp64).

#[local] Instance fexp64_valid : Valid_exp fexp64 := fexp_correct prec emax Hprec.

(* real value and finiteness of a primitive float *)
Definition RV (x : pfloat) : R := B2R (Prim2B x).
Definition fin (x : pfloat) : Prop := is_finite (Prim2B x) = true.

Lemma RV_SF x : RV x = SF2R radix2 (Prim2SF x).
Proof. unfold RV. rewrite <- B2SF_Prim2B. symmetry. apply SF2R_B2SF. Qed.

Lemma fmt_RV x : fmt (RV x).
Proof. apply generic_format_B2R. Qed.

(* ------------------------------------------------------------ bridge lemmas *)
Lemma add_R x y : fin x -> fin y -> Rabs (RN (RV x + RV y)) < bpow radix2 emax ->
  RV (x + y) = RN (RV x + RV y) /\ fin (x + y).
Proof.
  intros Fx Fy Hb. unfold RV, fin. rewrite add_equiv.
  generalize (Bplus_correct prec emax Hprec Hmax mode_NE (Prim2B x) (Prim2B y) Fx Fy).
  rewrite Rlt_bool_true by exact Hb. intros (A & B & _). split; assumption.
Qed.

Lemma sub_R x y : fin x -> fin y -> Rabs (RN (RV x - RV y)) < bpow radix2 emax ->
  RV (x - y) = RN (RV x - RV y) /\ fin (x - y).
Proof.
  intros Fx Fy Hb. unfold RV, fin. rewrite sub_equiv.
  generalize (Bminus_correct prec emax Hprec Hmax mode_NE (Prim2B x) (Prim2B y) Fx Fy).
  rewrite Rlt_bool_true by exact Hb. intros (A & B & _). split; assumption.
Qed.

Lemma ltb_R x y : fin x -> fin y -> (x <? y)%float = Rlt_bool (RV x) (RV y).
Proof. intros Fx Fy. rewrite ltb_equiv. apply Bltb_correct; assumption. Qed.
Lemma leb_R x y : fin x -> fin y -> (x <=? y)%float = Rle_bool (RV x) (RV y).
Proof. intros Fx Fy. rewrite leb_equiv. apply Bleb_correct; assumption. Qed.

Lemma abs_R x : RV (abs x) = Rabs (RV x).
Proof. unfold RV. rewrite abs_equiv. apply B2R_Babs. Qed.
Lemma abs_fin x : fin (abs x) <-> fin x.
Proof. unfold fin. rewrite abs_equiv, is_finite_Babs. tauto. Qed.
Lemma opp_R x : RV (- x) = - RV x.
Proof. unfold RV. rewrite opp_equiv. apply B2R_Bopp. Qed.
Lemma opp_fin x : fin (- x) <-> fin x.
Proof. unfold fin. rewrite opp_equiv, is_finite_Bopp. tauto. Qed.

Lemma fin_prim x : fin x <-> PrimFloat.is_finite x = true.
Proof. unfold fin. rewrite is_finite_equiv. tauto. Qed.

(* constants *)
Lemma RV_c2p52 : RV c2p52 = 4503599627370496.
Proof. rewrite RV_SF. vm_compute Prim2SF. unfold SF2R, F2R. simpl. lra. Qed.
Lemma fin_c2p52 : fin c2p52.
Proof. apply fin_prim. reflexivity. Qed.
Lemma RV_one : RV 1%float = 1.
Proof. rewrite RV_SF. vm_compute Prim2SF. unfold SF2R, F2R. simpl. lra. Qed.
Lemma fin_one : fin 1%float.
Proof. apply fin_prim. reflexivity. Qed.
Lemma RV_c2p51 : RV c2p51 = 2251799813685248.
Proof. rewrite RV_SF. vm_compute Prim2SF. unfold SF2R, F2R. simpl. lra. Qed.
Lemma fin_c2p51 : fin c2p51.
Proof. apply fin_prim. reflexivity. Qed.
Lemma RV_zero : RV 0%float = 0.
Proof. rewrite RV_SF. vm_compute Prim2SF. reflexivity. Qed.
Lemma fin_zero : fin 0%float.
Proof. apply fin_prim. reflexivity. Qed.

Lemma bpow_emax_big : 18014398509481984 < bpow radix2 emax.
Proof.
  change 18014398509481984 with (bpow radix2 54). apply bpow_lt. reflexivity.
Qed.

(* -------------------------------------------- integers are binary64 numbers *)
Lemma int_fmt z : (Z.abs z <= 9007199254740992)%Z -> fmt (IZR z).
Proof.
  intro H. destruct (Z.eq_dec (Z.abs z) 9007199254740992) as [E | N].
  - assert (fmt 9007199254740992) as F.
    { change 9007199254740992 with (bpow radix2 53). apply generic_format_bpow. vm_compute. discriminate. }
    destruct (Z.abs_eq_or_opp z) as [A | A]; rewrite A in E.
    + rewrite E. exact F.
    + assert (z = (- 9007199254740992)%Z) as -> by lia.
      change (IZR (- 9007199254740992)) with (- 9007199254740992). apply generic_format_opp. exact F.
  - change fexp64 with (FLT_exp (3 - emax - prec) prec).
    apply generic_format_FLT. exists (Float radix2 z 0).
    + unfold F2R. simpl. ring.
    + simpl. change (2 ^ prec)%Z with 9007199254740992%Z. lia.
    + simpl. vm_compute. discriminate.
Qed.

Lemma RN_int z : (Z.abs z <= 9007199254740992)%Z -> RN (IZR z) = IZR z.
Proof. intro H. apply round_generic. apply valid_rnd_N. apply int_fmt. exact H. Qed.

(* in [2^52, 2^53) the binary64 grid is the integers *)
Lemma RN_unit v : 4503599627370496 <= v < 9007199254740992 -> RN v = IZR (ZnearestE v).
Proof.
  intros Hv. unfold round, scaled_mantissa, cexp.
  assert (mag radix2 v = 53%Z :> Z) as ->.
  { apply mag_unique. rewrite Rabs_pos_eq by lra.
    change (bpow radix2 (53 - 1)) with 4503599627370496. change (bpow radix2 53) with 9007199254740992. exact Hv. }
  change (fexp64 53) with 0%Z. unfold F2R. simpl. rewrite !Rmult_1_r. reflexivity.
Qed.

Lemma small_lt_emax v : Rabs v <= 9007199254740992 -> Rabs v < bpow radix2 emax.
Proof. intro H. pose proof bpow_emax_big. lra. Qed.

(* exact integer additions / subtractions *)
Lemma int_add x y p q : fin x -> fin y -> RV x = IZR p -> RV y = IZR q ->
  (Z.abs (p + q) <= 9007199254740992)%Z -> RV (x + y) = IZR (p + q) /\ fin (x + y).
Proof.
  intros Fx Fy Hx Hy Hb.
  assert (RN (RV x + RV y) = IZR (p + q)) as E by (rewrite Hx, Hy, <- plus_IZR; apply RN_int; exact Hb).
  destruct (add_R x y Fx Fy) as [A B].
  - rewrite E. apply small_lt_emax. rewrite <- abs_IZR. apply IZR_le. exact Hb.
  - rewrite A, E. split; [reflexivity | exact B].
Qed.
Lemma int_sub x y p q : fin x -> fin y -> RV x = IZR p -> RV y = IZR q ->
  (Z.abs (p - q) <= 9007199254740992)%Z -> RV (x - y) = IZR (p - q) /\ fin (x - y).
Proof.
  intros Fx Fy Hx Hy Hb.
  assert (RN (RV x - RV y) = IZR (p - q)) as E by (rewrite Hx, Hy, <- minus_IZR; apply RN_int; exact Hb).
  destruct (sub_R x y Fx Fy) as [A B].
  - rewrite E. apply small_lt_emax. rewrite <- abs_IZR. apply IZR_le. exact Hb.
  - rewrite A, E. split; [reflexivity | exact B].
Qed.

(* the 2^52 trick: (a + 2^52) - 2^52 is an integer within 1/2 of a, for 0 <= a <= 2^51 *)
Lemma nearest_int a : fin a -> 0 <= RV a <= 2251799813685248 ->
  exists N : Z, RV ((a + c2p52) - c2p52) = IZR N /\ fin ((a + c2p52) - c2p52) /\
                Rabs (IZR N - RV a) <= / 2 /\ (0 <= N <= 2251799813685248)%Z.
Proof.
  intros Fa Ha.
  set (v := RV a + 4503599627370496).
  assert (4503599627370496 <= v < 9007199254740992) as Hv by (unfold v; lra).
  assert (RN (RV a + RV c2p52) = IZR (ZnearestE v)) as E by (rewrite RV_c2p52; apply RN_unit; exact Hv).
  pose proof (Znearest_half (fun t => negb (Z.even t)) v) as Hh.
  set (K := ZnearestE v) in *.
  assert (4503599627370496 <= K <= 6755399441055744)%Z as HK.
  { split.
    - apply le_IZR. apply Rnot_lt_le. intro L.
      assert (IZR K <= 4503599627370496 - 1) by (rewrite <- minus_IZR; apply IZR_le; apply lt_IZR in L; lia).
      unfold Rabs in Hh. destruct (Rcase_abs _); lra.
    - apply le_IZR. apply Rnot_lt_le. intro L.
      assert (6755399441055744 + 1 <= IZR K) by (rewrite <- plus_IZR; apply IZR_le; apply lt_IZR in L; lia).
      unfold v in *. unfold Rabs in Hh. destruct (Rcase_abs _); lra. }
  destruct (add_R a c2p52 Fa fin_c2p52) as [A B].
  { rewrite E. apply small_lt_emax. rewrite <- abs_IZR. apply IZR_le. lia. }
  rewrite E in A.
  destruct (int_sub (a + c2p52) c2p52 K 4503599627370496 B fin_c2p52 A RV_c2p52 ltac:(lia)) as [C D].
  exists (K - 4503599627370496)%Z. split; [exact C|]. split; [exact D|]. split; [|lia].
  rewrite minus_IZR. unfold v in Hh.
  replace (IZR K - 4503599627370496 - RV a) with (- (RV a + 4503599627370496 - IZR K)) by ring.
  rewrite Rabs_Ropp. exact Hh.
Qed.

Lemma floor_float a : fin a -> 0 <= RV a <= 2251799813685248 ->
  let r0 := ((a + c2p52) - c2p52)%float in
  let r := if (a <? r0)%float then (r0 - 1)%float else r0 in
  RV r = IZR (Zfloor (RV a)) /\ fin r /\ (0 <= Zfloor (RV a) <= 2251799813685248)%Z.
Proof.
  intros Fa Ha r0 r. destruct (nearest_int a Fa Ha) as (N & HN & FN & Hh & HNr).
  fold r0 in HN, FN. unfold r. rewrite (ltb_R a r0 Fa FN), HN.
  assert (Rabs (IZR N - RV a) <= / 2 -> - / 2 <= IZR N - RV a <= / 2) as Hab
    by (intro H; apply Rabs_le_inv; exact H).
  specialize (Hab Hh).
  destruct (Rlt_bool_spec (RV a) (IZR N)) as [L | L].
  - assert (Zfloor (RV a) = (N - 1)%Z) as ->.
    { apply Zfloor_imp. rewrite minus_IZR, plus_IZR, minus_IZR. lra. }
    assert (0 < IZR N) as HN0 by lra. apply lt_IZR in HN0.
    destruct (int_sub r0 1%float N 1 FN fin_one HN RV_one ltac:(lia)) as [C D].
    split; [exact C|]. split; [exact D | lia].
  - assert (Zfloor (RV a) = N) as ->.
    { apply Zfloor_imp. rewrite plus_IZR. lra. }
    split; [exact HN|]. split; [exact FN | lia].
Qed.

Lemma ceil_float a : fin a -> 0 <= RV a <= 2251799813685248 ->
  let r0 := ((a + c2p52) - c2p52)%float in
  let r := if (r0 <? a)%float then (r0 + 1)%float else r0 in
  RV r = IZR (Zceil (RV a)) /\ fin r /\ (0 <= Zceil (RV a) <= 2251799813685248)%Z.
Proof.
  intros Fa Ha r0 r. destruct (nearest_int a Fa Ha) as (N & HN & FN & Hh & HNr).
  fold r0 in HN, FN. unfold r. rewrite (ltb_R r0 a FN Fa), HN.
  assert (- / 2 <= IZR N - RV a <= / 2) as Hab by (apply Rabs_le_inv; exact Hh).
  destruct (Rlt_bool_spec (IZR N) (RV a)) as [L | L].
  - assert (Zceil (RV a) = (N + 1)%Z) as Hc.
    { apply Zceil_imp. replace (N + 1 - 1)%Z with N by lia. rewrite plus_IZR. lra. }
    rewrite Hc.
    assert (IZR N < 2251799813685248) as HN1 by lra. apply lt_IZR in HN1.
    destruct (int_add r0 1%float N 1 FN fin_one HN RV_one ltac:(lia)) as [C D].
    split; [exact C|]. split; [exact D | lia].
  - assert (Zceil (RV a) = N) as ->.
    { apply Zceil_imp. rewrite minus_IZR. lra. }
    split; [exact HN|]. split; [exact FN | lia].
Qed.

(* reading back a small non-negative integer from the mantissa of r + 2^52 *)
Lemma small_int_of_correct r k : fin r -> RV r = IZR k -> (0 <= k < 4503599627370496)%Z ->
  small_int_of r = k.
Proof.
  intros Fr Hr Hk. unfold small_int_of.
  destruct (int_add r c2p52 k 4503599627370496 Fr fin_c2p52 Hr RV_c2p52 ltac:(lia)) as [Hv Fv].
  set (v := (r + c2p52)%float) in *.
  rewrite normfr_mantissa_equiv.
  generalize (frshiftexp_equiv v). destruct (frshiftexp v) as [m e]. simpl fst. intro Hfe.
  assert (is_finite_strict (Prim2B v) = true) as Hs.
  { apply is_finite_strict_B2R. fold (RV v). rewrite Hv. apply IZR_neq. lia. }
  generalize (Bfrexp_correct prec emax Hprec (Prim2B v) Hs). rewrite <- Hfe.
  intros (Hval & Hrest). destruct (Hrest ltac:(reflexivity)) as (Hz & He). clear Hrest.
  fold (RV v) in Hval, He. rewrite Hv in Hval, He.
  assert (mag radix2 (IZR (k + 4503599627370496)) = 53%Z :> Z) as Hmag.
  { apply mag_unique. rewrite <- abs_IZR.
    change (bpow radix2 (53 - 1)) with (IZR 4503599627370496). change (bpow radix2 53) with (IZR 9007199254740992).
    split; [apply IZR_le | apply IZR_lt]; lia. }
  rewrite Hmag in He.
  generalize (Bnormfr_mantissa_correct prec emax Hmax (Prim2B m) Hz).
  destruct (Prim2B m) as [s|s| |s pm pe Hb] eqn:Em; try tauto.
  intros (Hnm & _ & Hpe). rewrite Hnm. simpl Z.of_N.
  rewrite He in Hval. unfold B2R in Hval. subst pe.
  unfold F2R in Hval. simpl Fnum in Hval. simpl Fexp in Hval.
  change (bpow radix2 (- prec)) with (/ 9007199254740992) in Hval.
  change (bpow radix2 53) with 9007199254740992 in Hval.
  change (bpow radix2 (-53)) with (/ 9007199254740992) in Hval.
  assert (IZR (k + 4503599627370496) = IZR (cond_Zopp s (Z.pos pm))) as Hq by (rewrite Hval; field).
  apply eq_IZR in Hq. destruct s; simpl in Hq; lia.
Qed.

(* ------------------------------------------------ mantissa / exponent view *)
Lemma parts_spec x : fin x ->
  exists m e, b64_parts x = Some (m, e) /\ RV x = IZR m * bpow radix2 e.
Proof.
  unfold fin, b64_parts. rewrite RV_SF, <- is_finite_SF_B2SF, B2SF_Prim2B.
  destruct (Prim2SF x) as [s|s| |s m e]; simpl; try discriminate; intros _.
  - exists 0%Z, 0%Z. split; [reflexivity | simpl; ring].
  - exists (if s then Z.neg m else Z.pos m), e. split; [reflexivity|].
    unfold F2R. simpl. destruct s; reflexivity.
Qed.

Lemma parts_none x : ~ fin x -> b64_parts x = None.
Proof.
  unfold fin, b64_parts. rewrite <- is_finite_SF_B2SF, B2SF_Prim2B.
  destruct (Prim2SF x) as [s|s| |s m e]; simpl; try reflexivity; intro H; exfalso; apply H; reflexivity.
Qed.

Lemma floor_scaled m e : (e < 0)%Z -> Zfloor (IZR m * bpow radix2 e) = Z.shiftr m (- e).
Proof.
  intro He. rewrite Z.shiftr_div_pow2 by lia.
  replace e with (- (- e))%Z at 1 by lia. rewrite bpow_opp.
  rewrite <- (IZR_Zpower radix2 (- e)) by lia. change (radix2 ^ (- e))%Z with (2 ^ (- e))%Z.
  apply Zfloor_div. apply Z.pow_nonzero; lia.
Qed.

Lemma int_scaled m e : (0 <= e)%Z -> IZR m * bpow radix2 e = IZR (Z.shiftl m e).
Proof.
  intro He. rewrite Z.shiftl_mul_pow2 by lia. rewrite mult_IZR.
  rewrite <- (IZR_Zpower radix2 e) by lia. reflexivity.
Qed.

(* (1) slow path: every finite float *)
Theorem b64_floor_slow_correct x : fin x -> b64_floor_slow x = Zfloor (RV x).
Proof.
  intro Fx. unfold b64_floor_slow. destruct (parts_spec x Fx) as (m & e & -> & ->).
  destruct (Z.leb_spec 0 e).
  - rewrite int_scaled by assumption. rewrite Zfloor_IZR. reflexivity.
  - rewrite floor_scaled by assumption. reflexivity.
Qed.

(* (1) b64_floor, fast and slow path: every finite float *)
Theorem b64_floor_correct x : fin x -> b64_floor x = Zfloor (RV x).
Proof.
  intro Fx. unfold b64_floor.
  assert (fin (abs x)) as Fa by (apply abs_fin; exact Fx).
  rewrite (ltb_R (abs x) c2p51 Fa fin_c2p51), abs_R, RV_c2p51.
  destruct (Rlt_bool_spec (Rabs (RV x)) 2251799813685248) as [Hs | Hs]; [| apply b64_floor_slow_correct; exact Fx].
  rewrite (leb_R 0 x fin_zero Fx), RV_zero.
  destruct (Rle_bool_spec 0 (RV x)) as [Hp | Hn].
  - rewrite Rabs_pos_eq in Hs by exact Hp.
    destruct (floor_float x Fx ltac:(lra)) as (Hr & Fr & Hrange).
    apply small_int_of_correct; [exact Fr | exact Hr | lia].
  - rewrite Rabs_left in Hs by exact Hn.
    assert (0 <= RV (abs x) <= 2251799813685248) as Ha by (rewrite abs_R, Rabs_left by exact Hn; lra).
    destruct (ceil_float (abs x) Fa Ha) as (Hr & Fr & Hrange).
    rewrite (small_int_of_correct _ _ Fr Hr ltac:(lia)).
    rewrite abs_R, Rabs_left by exact Hn. unfold Zceil. rewrite Ropp_involutive. lia.
Qed.

(* (2) trunc / int() *)
Theorem b64_trunc_correct x : fin x -> b64_trunc x = Ztrunc (RV x).
Proof.
  intro Fx. unfold b64_trunc, Ztrunc.
  rewrite (ltb_R x 0 Fx fin_zero), RV_zero.
  destruct (Rlt_bool_spec (RV x) 0) as [Hn | Hp].
  - rewrite b64_floor_correct by (apply abs_fin; exact Fx).
    rewrite abs_R, Rabs_left by exact Hn. reflexivity.
  - apply b64_floor_correct. exact Fx.
Qed.

(* ----------------------------------------------------------- (3) x % 1 *)
#[local] Instance fexp64_mono : Monotone_exp fexp64.
Proof. change fexp64 with (FLT_exp (3 - emax - prec) prec). apply FLT_exp_monotone. Qed.

Lemma eqb_R x y : fin x -> fin y -> (x =? y)%float = Req_bool (RV x) (RV y).
Proof. intros Fx Fy. rewrite eqb_equiv. apply Beqb_correct; assumption. Qed.

Lemma sign_neg x : RV x < 0 -> get_sign x = true.
Proof.
  rewrite get_sign_equiv. unfold RV. destruct (Prim2B x) as [s|s| |s m e H]; simpl; try lra.
  intro L. destruct s; [reflexivity|]. exfalso.
  assert (0 < F2R (Float radix2 (Z.pos m) e)) by (apply F2R_gt_0; reflexivity). simpl in *. lra.
Qed.
Lemma sign_pos x : 0 < RV x -> get_sign x = false.
Proof.
  rewrite get_sign_equiv. unfold RV. destruct (Prim2B x) as [s|s| |s m e H]; simpl; try lra.
  intro L. destruct s; [|reflexivity]. exfalso.
  assert (F2R (Float radix2 (Z.neg m) e) < 0) by (apply F2R_lt_0; reflexivity). simpl in *. lra.
Qed.

(* truncation toward zero as a float *)
Lemma trunc_small_correct x : fin x -> Rabs (RV x) <= 2251799813685248 ->
  RV (trunc_small x) = IZR (Ztrunc (RV x)) /\ fin (trunc_small x).
Proof.
  intros Fx Hx. unfold trunc_small.
  assert (fin (abs x)) as Fa by (apply abs_fin; exact Fx).
  assert (0 <= RV (abs x) <= 2251799813685248) as Ha by (rewrite abs_R; split; [apply Rabs_pos | exact Hx]).
  destruct (floor_float (abs x) Fa Ha) as (Hr & Fr & _).
  cbv zeta in Hr, Fr.
  set (r := if (abs x <? abs x + c2p52 - c2p52)%float then (abs x + c2p52 - c2p52 - 1)%float
            else (abs x + c2p52 - c2p52)%float) in *.
  rewrite (ltb_R x 0 Fx fin_zero), RV_zero. unfold Ztrunc.
  destruct (Rlt_bool_spec (RV x) 0) as [Hn | Hp].
  - split; [| apply opp_fin; exact Fr].
    rewrite opp_R, Hr, abs_R, Rabs_left by exact Hn. unfold Zceil. rewrite opp_IZR. reflexivity.
  - split; [| exact Fr]. rewrite Hr, abs_R, Rabs_pos_eq by exact Hp. reflexivity.
Qed.

Lemma frac_fmt v : fmt v -> fmt (v - IZR (Ztrunc v)).
Proof.
  intro Fv.
  assert (fmt 1) as F1 by (change 1 with (IZR 1); apply int_fmt; lia).
  generalize (format_REM radix2 fexp64 Ztrunc _ v 1).
  replace (v / 1) with v by field. rewrite Rmult_1_r. intro H. apply H; try assumption.
  intro Hs. apply Rabs_lt_inv in Hs. unfold Ztrunc.
  destruct (Rlt_bool_spec v 0).
  - apply Zceil_imp. simpl. lra.
  - apply Zfloor_imp. simpl. lra.
Qed.

(* (3) the fast path of fmod for y = 1: exact, sign of x (also for a zero result) *)
Theorem b64_fmod_1_correct x : fin x -> Rabs (RV x) < 2251799813685248 ->
  RV (b64_fmod x 1) = RV x - IZR (Ztrunc (RV x)) /\ fin (b64_fmod x 1) /\
  get_sign (b64_fmod x 1) = get_sign x.
Proof.
  intros Fx Hx. unfold b64_fmod.
  assert (fin (abs x)) as Fa by (apply abs_fin; exact Fx).
  change (1 =? 1)%float with true. rewrite andb_true_l.
  rewrite (ltb_R (abs x) c2p51 Fa fin_c2p51), abs_R, RV_c2p51, Rlt_bool_true by exact Hx.
  destruct (trunc_small_correct x Fx ltac:(lra)) as (Ht & Ft).
  set (t := Ztrunc (RV x)) in *.
  assert (fmt (RV x - IZR t)) as Ff by (apply frac_fmt; apply fmt_RV).
  assert (Rabs (RV x - IZR t) <= Rabs (RV x)) as Hle.
  { unfold t, Ztrunc. destruct (Rlt_bool_spec (RV x) 0) as [Hn | Hp].
    - pose proof (Zceil_ub (RV x)). assert (IZR (Zceil (RV x)) <= 0).
      { change 0 with (IZR 0). apply IZR_le. apply Zceil_glb. simpl. lra. }
      rewrite !Rabs_left1 by lra. lra.
    - pose proof (Zfloor_lb (RV x)). assert (0 <= IZR (Zfloor (RV x))).
      { change 0 with (IZR 0). apply IZR_le. apply Zfloor_lub. simpl. lra. }
      rewrite !Rabs_pos_eq by lra. lra. }
  assert (RN (RV x - RV (trunc_small x)) = RV x - IZR t) as E
    by (rewrite Ht; apply round_generic; [apply valid_rnd_N | exact Ff]).
  destruct (sub_R x (trunc_small x) Fx Ft) as [A B].
  { rewrite E. apply small_lt_emax. lra. }
  rewrite E in A.
  set (r := (x - trunc_small x)%float) in *.
  rewrite (eqb_R r 0 B fin_zero), RV_zero.
  destruct (Req_bool_spec (RV r) 0) as [Z | NZ].
  - rewrite <- A, Z. destruct (get_sign x) eqn:S.
    + split; [rewrite RV_SF; vm_compute Prim2SF; reflexivity|]. split; [apply fin_prim; reflexivity|]. reflexivity.
    + split; [exact RV_zero|]. split; [exact fin_zero|]. reflexivity.
  - split; [exact A|]. split; [exact B|].
    assert (RV x <> 0) as Hx0.
    { intro H0. apply NZ. rewrite A. unfold t. rewrite H0. change 0 with (IZR 0) at 2. rewrite Ztrunc_IZR. simpl. ring. }
    destruct (Rtotal_order (RV x) 0) as [Hn | [H0 | Hp]]; [| contradiction |].
    + rewrite (sign_neg x Hn). apply sign_neg. rewrite A.
      unfold t, Ztrunc. rewrite Rlt_bool_true by exact Hn.
      pose proof (Zceil_ub (RV x)). rewrite A in NZ. unfold t, Ztrunc in NZ. rewrite Rlt_bool_true in NZ by exact Hn. lra.
    + rewrite (sign_pos x Hp). apply sign_pos. rewrite A.
      unfold t, Ztrunc. rewrite Rlt_bool_false by lra.
      pose proof (Zfloor_lb (RV x)). rewrite A in NZ. unfold t, Ztrunc in NZ. rewrite Rlt_bool_false in NZ by lra. lra.
Qed.


(* ------------------------------------------------------- (4) int -> float *)
Lemma normalize_R m : Rabs (RN (IZR m)) < bpow radix2 emax ->
  let z := binary_normalize prec emax Hprec Hmax mode_NE m 0 false in
  B2R z = RN (IZR m) /\ is_finite z = true.
Proof.
  intros Hb z. generalize (binary_normalize_correct prec emax Hprec Hmax mode_NE m 0 false).
  cbv zeta. replace (F2R (Float radix2 m 0)) with (IZR m) by (unfold F2R; simpl; ring).
  rewrite Rlt_bool_true by exact Hb. intros (A & B & _). split; assumption.
Qed.

Lemma of_uint63_R n : (0 <= n < 4611686018427387904)%Z -> Rabs (RN (IZR n)) < bpow radix2 emax ->
  RV (of_uint63 (Uint63.of_Z n)) = RN (IZR n) /\ fin (of_uint63 (Uint63.of_Z n)).
Proof.
  intros Hn Hb. unfold RV, fin. rewrite of_int63_equiv.
  rewrite Uint63.of_Z_spec, Z.mod_small by (change wB with 9223372036854775808%Z; lia).
  apply normalize_R. exact Hb.
Qed.

Lemma RN_opp v : RN (- v) = - RN v.
Proof. apply round_NE_opp. Qed.

(* correctly rounded (round to nearest even) whenever the rounded value is finite *)
Theorem b64_of_Z_correct z : Rabs (RN (IZR z)) < bpow radix2 emax ->
  RV (b64_of_Z z) = RN (IZR z) /\ fin (b64_of_Z z).
Proof.
  intro Hb. unfold b64_of_Z, two62.
  destruct (Z.ltb_spec (Z.abs z) 4611686018427387904) as [Hs | Hl].
  - destruct (Z.ltb_spec z 0) as [Hn | Hp].
    + assert (Rabs (RN (IZR (- z))) < bpow radix2 emax) as Hb' by (rewrite opp_IZR, RN_opp, Rabs_Ropp; exact Hb).
      destruct (of_uint63_R (- z) ltac:(lia) Hb') as [A B].
      split; [| apply opp_fin; exact B].
      rewrite opp_R, A, opp_IZR, RN_opp. ring.
    + apply of_uint63_R; [lia | exact Hb].
  - unfold b64_of_ZE, RV, fin. rewrite binary_normalize_equiv.
    change (SF2Prim (B2SF ?b)) with (B2Prim b). rewrite Prim2B_B2Prim.
    apply normalize_R. exact Hb.
Qed.

(* ... exact up to 2^53 *)
Theorem b64_of_Z_exact z : (Z.abs z <= 9007199254740992)%Z ->
  RV (b64_of_Z z) = IZR z /\ fin (b64_of_Z z).
Proof.
  intro Hz. destruct (b64_of_Z_correct z) as [A B].
  - rewrite RN_int by exact Hz. apply small_lt_emax. rewrite <- abs_IZR. apply IZR_le. exact Hz.
  - rewrite RN_int in A by exact Hz. split; assumption.
Qed.

(* the side condition of b64_of_Z_correct holds below 2^1023 *)
Lemma RN_lt_emax v : Rabs v <= bpow radix2 1023 -> Rabs (RN v) < bpow radix2 emax.
Proof.
  intro H. apply Rle_lt_trans with (bpow radix2 1023); [| apply bpow_lt; reflexivity].
  apply abs_round_le_generic; [apply fexp64_valid | apply valid_rnd_N | | exact H].
  apply generic_format_bpow. vm_compute. discriminate.
Qed.

(* ------------------------------------------------------------ (5) round() *)
Lemma q_round_half_even_correct n d : (0 < d)%Z ->
  q_round_half_even n d = ZnearestE (IZR n / IZR d).
Proof.
  intro Hd. unfold q_round_half_even, Znearest.
  rewrite Zfloor_div by lia.
  set (q := (n / d)%Z). set (r := (n - q * d)%Z).
  assert (0 <= r < d)%Z as Hr.
  { unfold r, q. pose proof (Z.div_mod n d ltac:(lia)). pose proof (Z.mod_pos_bound n d Hd). lia. }
  assert (0 < IZR d) as Hd' by (apply IZR_lt; exact Hd).
  assert (IZR n / IZR d - IZR q = IZR r / IZR d) as Hx.
  { unfold r. rewrite minus_IZR, mult_IZR. field. lra. }
  rewrite Hx.
  assert (0 < r -> Zceil (IZR n / IZR d) = q + 1)%Z as Hceil.
  { intro H. apply Zceil_imp. replace (q + 1 - 1)%Z with q by lia. rewrite plus_IZR.
    assert (0 < IZR r / IZR d) by (apply Rdiv_lt_0_compat; [apply IZR_lt; exact H | exact Hd']).
    assert (IZR r / IZR d < 1).
    { apply Rmult_lt_reg_r with (IZR d); [exact Hd'|]. unfold Rdiv. rewrite Rmult_assoc, Rinv_l, Rmult_1_r, Rmult_1_l by lra.
      apply IZR_lt. lia. }
    lra. }
  assert (forall c, (c = Lt <-> (2 * r < d)%Z) -> (c = Gt <-> (d < 2 * r)%Z) -> True) as _ by trivial.
  destruct (Z.ltb_spec (2 * r) d) as [L | L].
  - rewrite Rcompare_Lt; [reflexivity|].
    apply Rmult_lt_reg_r with (IZR d); [exact Hd'|]. unfold Rdiv. rewrite Rmult_assoc, Rinv_l, Rmult_1_r by lra.
    apply Rmult_lt_reg_l with 2; [lra|]. replace (2 * (/ 2 * IZR d)) with (IZR d) by field.
    change 2 with (IZR 2). rewrite <- mult_IZR. apply IZR_lt. exact L.
  - destruct (Z.ltb_spec d (2 * r)) as [G | G].
    + rewrite Rcompare_Gt; [rewrite Hceil by lia; reflexivity|].
      apply Rmult_lt_reg_r with (IZR d); [exact Hd'|]. unfold Rdiv. rewrite Rmult_assoc, Rinv_l, Rmult_1_r by lra.
      apply Rmult_lt_reg_l with 2; [lra|]. replace (2 * (/ 2 * IZR d)) with (IZR d) by field.
      change 2 with (IZR 2). rewrite <- mult_IZR. apply IZR_lt. exact G.
    + assert (2 * r = d)%Z as E by lia.
      rewrite Rcompare_Eq.
      * rewrite Hceil by lia. destruct (Z.even q); reflexivity.
      * rewrite <- E, mult_IZR. field. apply Rgt_not_eq. apply IZR_lt. lia.
Qed.

(* (5) round(x) = round half to even of the exact value, every finite float *)
Theorem b64_round_correct x : fin x -> b64_round x = ZnearestE (RV x).
Proof.
  intro Fx. unfold b64_round. destruct (parts_spec x Fx) as (m & e & -> & ->).
  destruct (Z.leb_spec 0 e).
  - rewrite int_scaled by assumption. symmetry. apply Znearest_imp.
    replace (IZR (Z.shiftl m e) - IZR (Z.shiftl m e)) with 0 by ring. rewrite Rabs_R0. lra.
  - rewrite q_round_half_even_correct.
    + f_equal. replace e with (- (- e))%Z at 2 by lia. rewrite bpow_opp.
      rewrite Z.shiftl_mul_pow2, Z.mul_1_l by lia.
      rewrite <- (IZR_Zpower radix2 (- e)) by lia. reflexivity.
    + rewrite Z.shiftl_mul_pow2 by lia. apply Z.mul_pos_pos; [lia | apply Z.pow_pos_nonneg; lia].
Qed.

(* ------------------------------------------- non-finite arguments give 0 *)
Lemma b64_floor_nonfinite x : ~ fin x -> b64_floor x = 0%Z.
Proof.
  intro Nf. unfold b64_floor.
  assert ((abs x <? c2p51)%float = false) as ->.
  { rewrite ltb_equiv, abs_equiv. unfold Bltb. rewrite (B2SF_Prim2B c2p51).
    unfold fin in Nf. destruct (Prim2B x) as [s|s| |s m e H]; simpl in *; try (exfalso; apply Nf; reflexivity);
      vm_compute; reflexivity. }
  unfold b64_floor_slow. rewrite parts_none by exact Nf. reflexivity.
Qed.
Lemma b64_round_nonfinite x : ~ fin x -> b64_round x = 0%Z.
Proof. intro Nf. unfold b64_round. rewrite parts_none by exact Nf. reflexivity. Qed.

(* ------------------------------- (3') fmod(x, 1), slow path, every finite x *)
Lemma of_ZE_R m e : Rabs (RN (IZR m * bpow radix2 e)) < bpow radix2 emax ->
  RV (b64_of_ZE m e) = RN (IZR m * bpow radix2 e) /\ fin (b64_of_ZE m e).
Proof.
  intro Hb. unfold b64_of_ZE, RV, fin. rewrite binary_normalize_equiv.
  change (SF2Prim (B2SF ?b)) with (B2Prim b). rewrite Prim2B_B2Prim.
  generalize (binary_normalize_correct prec emax Hprec Hmax mode_NE m e false).
  cbv zeta. unfold F2R. simpl Fnum. simpl Fexp.
  rewrite Rlt_bool_true by exact Hb. intros (A & B & _). split; assumption.
Qed.

Lemma RV_lt_emax x : Rabs (RV x) < bpow radix2 emax.
Proof. apply abs_B2R_lt_emax. Qed.

Lemma frac_abs_le v : Rabs (v - IZR (Ztrunc v)) <= Rabs v.
Proof.
  unfold Ztrunc. destruct (Rlt_bool_spec v 0) as [Hn | Hp].
  - pose proof (Zceil_ub v). assert (IZR (Zceil v) <= 0).
    { change 0 with (IZR 0). apply IZR_le. apply Zceil_glb. simpl. lra. }
    rewrite !Rabs_left1 by lra. lra.
  - pose proof (Zfloor_lb v). assert (0 <= IZR (Zfloor v)).
    { change 0 with (IZR 0). apply IZR_le. apply Zfloor_lub. simpl. lra. }
    rewrite !Rabs_pos_eq by lra. lra.
Qed.

Theorem b64_fmod_slow_1_correct x : fin x ->
  RV (b64_fmod_slow x 1) = RV x - IZR (Ztrunc (RV x)) /\ fin (b64_fmod_slow x 1).
Proof.
  intro Fx. unfold b64_fmod_slow. destruct (parts_spec x Fx) as (mx & ex & -> & Hx).
  change (b64_parts 1) with (Some (4503599627370496%Z, (-52)%Z)).
  cbv beta iota. destruct (Z.eqb_spec 4503599627370496 0) as [Bad | _]; [discriminate Bad|].
  destruct (Z.eqb_spec mx 0) as [Z0 | NZ].
  - split; [| exact Fx]. rewrite Hx, Z0. rewrite Rmult_0_l. rewrite (Ztrunc_IZR 0). lra.
  - set (e := Z.min ex (-52)). assert (e <= -52)%Z as He by (unfold e; lia). assert (e <= ex)%Z as He' by (unfold e; lia).
    set (X := Z.shiftl mx (ex - e)). set (Y := Z.shiftl 4503599627370496 (-52 - e)).
    assert (Y = 2 ^ (- e))%Z as HY.
    { unfold Y. rewrite Z.shiftl_mul_pow2 by lia. change 4503599627370496%Z with (2 ^ 52)%Z.
      rewrite <- Z.pow_add_r by lia. f_equal. lia. }
    assert (0 < Y)%Z as HYpos by (rewrite HY; apply Z.pow_pos_nonneg; lia).
    assert (bpow radix2 e = / IZR Y) as Hbe.
    { rewrite HY. replace e with (- (- e))%Z at 1 by lia. rewrite bpow_opp. f_equal.
      rewrite <- (IZR_Zpower radix2 (- e)) by lia. reflexivity. }
    assert (RV x = IZR X * bpow radix2 e) as HxX.
    { rewrite Hx. unfold X. rewrite Z.shiftl_mul_pow2 by lia. rewrite mult_IZR.
      change (2 ^ (ex - e))%Z with (radix2 ^ (ex - e))%Z.
      rewrite (IZR_Zpower radix2 (ex - e)) by lia. rewrite Rmult_assoc, <- bpow_plus. do 2 f_equal. lia. }
    assert (IZR Y <> 0) as HYr by (apply IZR_neq; lia).
    assert (RV x - IZR (Ztrunc (RV x)) = IZR (Z.rem X Y) * bpow radix2 e) as Hfr.
    { rewrite HxX, Hbe. change (IZR X * / IZR Y) with (IZR X / IZR Y). rewrite Ztrunc_div by lia.
      pose proof (Z.quot_rem' X Y) as Hq.
      assert (IZR X = IZR Y * IZR (Z.quot X Y) + IZR (Z.rem X Y)) as Hq' by (rewrite <- mult_IZR, <- plus_IZR; f_equal; exact Hq).
      rewrite Hq'. field. exact HYr. }
    destruct (Z.eqb_spec (Z.rem X Y) 0) as [R0 | RN0].
    + rewrite Hfr, R0, Rmult_0_l. destruct (get_sign x).
      * split; [rewrite RV_SF; vm_compute Prim2SF; reflexivity | apply fin_prim; reflexivity].
      * split; [exact RV_zero | exact fin_zero].
    + assert (RN (IZR (Z.rem X Y) * bpow radix2 e) = IZR (Z.rem X Y) * bpow radix2 e) as E.
      { apply round_generic; [apply valid_rnd_N|]. rewrite <- Hfr. apply frac_fmt. apply fmt_RV. }
      destruct (of_ZE_R (Z.rem X Y) e) as [A B].
      * rewrite E, <- Hfr. eapply Rle_lt_trans; [apply frac_abs_le | apply RV_lt_emax].
      * rewrite A, E, Hfr. split; [reflexivity | exact B].
Qed.

(* (3) + (3'): x % 1.0 on the C level, every finite x *)
Theorem b64_fmod_1_value x : fin x ->
  RV (b64_fmod x 1) = RV x - IZR (Ztrunc (RV x)) /\ fin (b64_fmod x 1).
Proof.
  intro Fx. destruct (Rlt_dec (Rabs (RV x)) 2251799813685248) as [Hs | Hl].
  - destruct (b64_fmod_1_correct x Fx Hs) as (A & B & _). split; assumption.
  - unfold b64_fmod. change (1 =? 1)%float with true. rewrite andb_true_l.
    assert (fin (abs x)) as Fa by (apply abs_fin; exact Fx).
    rewrite (ltb_R (abs x) c2p51 Fa fin_c2p51), abs_R, RV_c2p51, Rlt_bool_false by lra.
    apply b64_fmod_slow_1_correct. exact Fx.
Qed.

(* ----------------------------- (6) kernel of Angle.reduce_deg: exact fmod 360 *)
Lemma mul_R x y : fin x -> fin y -> Rabs (RN (RV x * RV y)) < bpow radix2 emax ->
  RV (x * y) = RN (RV x * RV y) /\ fin (x * y).
Proof.
  intros Fx Fy Hb. unfold RV, fin. rewrite mul_equiv.
  generalize (Bmult_correct prec emax Hprec Hmax mode_NE (Prim2B x) (Prim2B y)).
  rewrite Rlt_bool_true by exact Hb. intros (A & B & _). split; [exact A|].
  rewrite B. unfold fin in Fx, Fy. rewrite Fx, Fy. reflexivity.
Qed.

Lemma floor_div_nested a n : (0 < n)%Z -> Zfloor (a / IZR n) = (Zfloor a / n)%Z.
Proof.
  intro Hn. set (t := Zfloor a). set (q := (t / n)%Z).
  assert (0 < IZR n) as Hn' by (apply IZR_lt; exact Hn).
  pose proof (Zfloor_lb a) as Hl. pose proof (Zfloor_ub a) as Hu. fold t in Hl, Hu.
  pose proof (Z.div_mod t n ltac:(lia)) as Hdm. pose proof (Z.mod_pos_bound t n Hn) as Hm. fold q in Hdm.
  apply Zfloor_imp. rewrite plus_IZR. simpl (IZR 1).
  assert (IZR n * IZR q <= IZR t) as H1 by (rewrite <- mult_IZR; apply IZR_le; lia).
  assert (IZR t + 1 <= IZR n * IZR q + IZR n) as H2.
  { rewrite <- mult_IZR, <- (plus_IZR _ n). change 1 with (IZR 1). rewrite <- plus_IZR. apply IZR_le. lia. }
  split.
  - apply Rmult_le_reg_r with (IZR n); [exact Hn'|]. unfold Rdiv. rewrite Rmult_assoc, Rinv_l by lra. lra.
  - apply Rmult_lt_reg_r with (IZR n); [exact Hn'|]. unfold Rdiv. rewrite Rmult_assoc, Rinv_l by lra. lra.
Qed.

(* for a finite a >= 0:  float(int(a) % 360) + fr, where fr is a % 1.0 (any float with that
   value, e.g. +0.0 instead of -0.0), is computed without any rounding and equals
   a - 360 floor(a/360) *)
Theorem reduce_kernel_gen a fr : fin a -> 0 <= RV a -> fin fr -> RV fr = RV a - IZR (Ztrunc (RV a)) ->
  let s := (b64_of_Z (b64_trunc a mod 360) + fr)%float in
  RV s = RV a - 360 * IZR (Zfloor (RV a / 360)) /\ fin s /\ 0 <= RV s < 360.
Proof.
  intros Fa Ha Fm Hm s.
  assert (b64_trunc a = Zfloor (RV a)) as Ht.
  { rewrite b64_trunc_correct by exact Fa. unfold Ztrunc. rewrite Rlt_bool_false by exact Ha. reflexivity. }
  set (t := Zfloor (RV a)) in *. set (d := (t mod 360)%Z).
  pose proof (Z.mod_pos_bound t 360 ltac:(lia)) as Hd. fold d in Hd.
  destruct (b64_of_Z_exact d ltac:(lia)) as [Hdv Fd].
  assert (Ztrunc (RV a) = t) as Htr by (unfold Ztrunc; rewrite Rlt_bool_false by exact Ha; reflexivity).
  rewrite Htr in Hm.
  assert (Zfloor (RV a / 360) = (t / 360)%Z) as Hq by (apply (floor_div_nested (RV a) 360); lia).
  set (v := RV a - 360 * IZR (Zfloor (RV a / 360))).
  assert (IZR d + (RV a - IZR t) = v) as Hsum.
  { unfold v. rewrite Hq. unfold d. rewrite Z.mod_eq by lia. rewrite minus_IZR, mult_IZR. ring. }
  assert (fmt v) as Fv.
  { unfold v. replace (360 * IZR (Zfloor (RV a / 360))) with (IZR (Zfloor (RV a / 360)) * 360) by ring.
    apply (format_REM radix2 fexp64 Zfloor _ (RV a) 360).
    - intro Hs. apply Zfloor_imp. simpl. apply Rabs_lt_inv in Hs.
      assert (0 <= RV a / 360) by (apply Rmult_le_pos; lra). lra.
    - apply fmt_RV.
    - apply (int_fmt 360). lia. }
  assert (0 <= v < 360) as Hv.
  { unfold v. pose proof (Zfloor_lb (RV a / 360)). pose proof (Zfloor_ub (RV a / 360)).
    assert (RV a = 360 * (RV a / 360)) as E by field. split; lra. }
  assert (RN (RV (b64_of_Z d) + RV fr) = v) as E.
  { rewrite Hdv, Hm, Hsum. apply round_generic; [apply valid_rnd_N | exact Fv]. }
  destruct (add_R (b64_of_Z d) fr Fd Fm) as [A B].
  { rewrite E. apply small_lt_emax. rewrite Rabs_pos_eq; lra. }
  unfold s. rewrite Ht. fold d. rewrite A, E. split; [reflexivity|]. split; [exact B | exact Hv].
Qed.

Theorem reduce_kernel a : fin a -> 0 <= RV a ->
  let s := (b64_of_Z (b64_trunc a mod 360) + b64_fmod a 1)%float in
  RV s = RV a - 360 * IZR (Zfloor (RV a / 360)) /\ fin s /\ 0 <= RV s < 360.
Proof.
  intros Fa Ha. destruct (b64_fmod_1_value a Fa) as [Hm Fm].
  apply reduce_kernel_gen; assumption.
Qed.

(* multiplying by +-1.0 is exact *)
Lemma mul_one_l s : fin s -> RV (1 * s) = RV s /\ fin (1 * s).
Proof.
  intro Fs. destruct (mul_R 1 s fin_one Fs) as [A B].
  - rewrite RV_one, Rmult_1_l, round_generic by (try apply valid_rnd_N; apply fmt_RV). apply RV_lt_emax.
  - rewrite RV_one, Rmult_1_l, round_generic in A by (try apply valid_rnd_N; apply fmt_RV). split; assumption.
Qed.
Lemma RV_mone : RV (-1)%float = -1.
Proof. rewrite RV_SF. vm_compute Prim2SF. unfold SF2R, F2R. simpl. lra. Qed.
Lemma fin_mone : fin (-1)%float.
Proof. apply fin_prim. reflexivity. Qed.
Lemma mul_mone_l s : fin s -> RV (-1 * s) = - RV s /\ fin (-1 * s).
Proof.
  intro Fs.
  assert (RN (RV (-1) * RV s) = - RV s) as E.
  { rewrite RV_mone. replace (-1 * RV s) with (- RV s) by ring.
    apply round_generic; [apply valid_rnd_N | apply generic_format_opp; apply fmt_RV]. }
  destruct (mul_R (-1) s fin_mone Fs) as [A B].
  - rewrite E, Rabs_Ropp. apply RV_lt_emax.
  - rewrite E in A. split; assumption.
Qed.

(* ----------------------------------- (3'') C fmod(x, y), every finite x and y <> 0 *)
Lemma rem_fmt x y : fmt x -> fmt y -> fmt (x - IZR (Ztrunc (x / y)) * y).
Proof.
  intros Fx Fy. apply (format_REM radix2 fexp64 Ztrunc _ x y); try assumption.
  intro Hs. apply Rabs_lt_inv in Hs. unfold Ztrunc.
  destruct (Rlt_bool_spec (x / y) 0).
  - apply Zceil_imp. simpl. lra.
  - apply Zfloor_imp. simpl. lra.
Qed.

Lemma rem_abs_le x y : y <> 0 -> Rabs (x - IZR (Ztrunc (x / y)) * y) <= Rabs x.
Proof.
  intro Hy. replace (x - IZR (Ztrunc (x / y)) * y) with ((x / y - IZR (Ztrunc (x / y))) * y) by (field; exact Hy).
  rewrite Rabs_mult. pose proof (frac_abs_le (x / y)) as H. pose proof (Rabs_pos y) as Hp.
  replace (Rabs x) with (Rabs (x / y) * Rabs y).
  - apply Rmult_le_compat_r; assumption.
  - rewrite <- Rabs_mult. f_equal. field. exact Hy.
Qed.

Theorem b64_fmod_slow_correct x y : fin x -> fin y -> RV y <> 0 ->
  RV (b64_fmod_slow x y) = RV x - IZR (Ztrunc (RV x / RV y)) * RV y /\ fin (b64_fmod_slow x y).
Proof.
  intros Fx Fy Hy0. unfold b64_fmod_slow.
  destruct (parts_spec x Fx) as (mx & ex & -> & Hx). destruct (parts_spec y Fy) as (my & ey & -> & Hy).
  assert (my <> 0)%Z as Hmy by (intro E; apply Hy0; rewrite Hy, E; ring).
  destruct (Z.eqb_spec my 0) as [Bad | _]; [contradiction|].
  destruct (Z.eqb_spec mx 0) as [Z0 | NZ].
  - split; [| exact Fx]. rewrite Hx, Z0. rewrite !Rmult_0_l. unfold Rdiv. rewrite Rmult_0_l. rewrite (Ztrunc_IZR 0). lra.
  - set (e := Z.min ex ey). assert (e <= ex)%Z as He1 by (unfold e; lia). assert (e <= ey)%Z as He2 by (unfold e; lia).
    set (X := Z.shiftl mx (ex - e)). set (Y := Z.shiftl my (ey - e)).
    assert (RV x = IZR X * bpow radix2 e) as HxX.
    { rewrite Hx. unfold X. rewrite Z.shiftl_mul_pow2 by lia. rewrite mult_IZR.
      change (2 ^ (ex - e))%Z with (radix2 ^ (ex - e))%Z.
      rewrite (IZR_Zpower radix2 (ex - e)) by lia. rewrite Rmult_assoc, <- bpow_plus. do 2 f_equal. lia. }
    assert (RV y = IZR Y * bpow radix2 e) as HyY.
    { rewrite Hy. unfold Y. rewrite Z.shiftl_mul_pow2 by lia. rewrite mult_IZR.
      change (2 ^ (ey - e))%Z with (radix2 ^ (ey - e))%Z.
      rewrite (IZR_Zpower radix2 (ey - e)) by lia. rewrite Rmult_assoc, <- bpow_plus. do 2 f_equal. lia. }
    assert (Y <> 0)%Z as HY0.
    { unfold Y. rewrite Z.shiftl_mul_pow2 by lia. apply Z.neq_mul_0. split; [exact Hmy | apply Z.pow_nonzero; lia]. }
    assert (IZR Y <> 0) as HYr by (apply IZR_neq; exact HY0).
    pose proof (bpow_gt_0 radix2 e) as Hbe.
    assert (RV x / RV y = IZR X / IZR Y) as Hdiv by (rewrite HxX, HyY; field; split; lra).
    assert (RV x - IZR (Ztrunc (RV x / RV y)) * RV y = IZR (Z.rem X Y) * bpow radix2 e) as Hfr.
    { rewrite Hdiv, Ztrunc_div by exact HY0. rewrite HxX, HyY.
      pose proof (Z.quot_rem' X Y) as Hq.
      assert (IZR X = IZR Y * IZR (Z.quot X Y) + IZR (Z.rem X Y)) as Hq' by (rewrite <- mult_IZR, <- plus_IZR; f_equal; exact Hq).
      rewrite Hq'. ring. }
    destruct (Z.eqb_spec (Z.rem X Y) 0) as [R0 | RN0].
    + rewrite Hfr, R0, Rmult_0_l. destruct (get_sign x).
      * split; [rewrite RV_SF; vm_compute Prim2SF; reflexivity | apply fin_prim; reflexivity].
      * split; [exact RV_zero | exact fin_zero].
    + assert (RN (IZR (Z.rem X Y) * bpow radix2 e) = IZR (Z.rem X Y) * bpow radix2 e) as E.
      { apply round_generic; [apply valid_rnd_N|]. rewrite <- Hfr. apply rem_fmt; apply fmt_RV. }
      destruct (of_ZE_R (Z.rem X Y) e) as [A B].
      * rewrite E, <- Hfr. eapply Rle_lt_trans; [apply rem_abs_le; exact Hy0 | apply RV_lt_emax].
      * rewrite A, E, Hfr. split; [reflexivity | exact B].
Qed.

(* C fmod as used by the model (fast path for y = 1 included): exact remainder of the
   truncated quotient, for all finite x, y with y <> 0 *)
Theorem b64_fmod_correct x y : fin x -> fin y -> RV y <> 0 ->
  RV (b64_fmod x y) = RV x - IZR (Ztrunc (RV x / RV y)) * RV y /\ fin (b64_fmod x y).
Proof.
  intros Fx Fy Hy0. unfold b64_fmod.
  assert (fin (abs x)) as Fa by (apply abs_fin; exact Fx).
  rewrite (eqb_R y 1 Fy fin_one), RV_one, (ltb_R (abs x) c2p51 Fa fin_c2p51), abs_R, RV_c2p51.
  destruct (Req_bool_spec (RV y) 1) as [Y1 | Yn]; [| apply b64_fmod_slow_correct; assumption].
  destruct (Rlt_bool_spec (Rabs (RV x)) 2251799813685248) as [Hs | Hl]; [| apply b64_fmod_slow_correct; assumption].
  cbv [andb]. generalize (b64_fmod_1_correct x Fx Hs). unfold b64_fmod.
  change (1 =? 1)%float with true. rewrite andb_true_l.
  rewrite (ltb_R (abs x) c2p51 Fa fin_c2p51), abs_R, RV_c2p51, Rlt_bool_true by exact Hs.
  intros (A & B & _). rewrite Y1. unfold Rdiv. rewrite Rinv_1, !Rmult_1_r. split; assumption.
Qed.

(* ------------------------------------------- general tools for all-floats proofs *)
Lemma RN_le a b : a <= b -> RN a <= RN b.
Proof. apply round_le; [apply fexp64_valid | apply valid_rnd_N]. Qed.
Lemma RN_0 : RN 0 = 0.
Proof. apply round_0. apply valid_rnd_N. Qed.
Lemma RN_id x : RN (RV x) = RV x.
Proof. apply round_generic; [apply valid_rnd_N | apply fmt_RV]. Qed.

(* a float below 1 is at most 1 - 2^-53 *)
Lemma lt_one_pred v : fmt v -> v < 1 -> v <= 1 - bpow radix2 (-53).
Proof.
  intros Fv Hv.
  assert (fmt 1) as F1 by (change 1 with (IZR 1); apply int_fmt; lia).
  pose proof (pred_ge_gt radix2 fexp64 v 1 Fv F1 Hv) as H.
  change 1 with (bpow radix2 0) in H. rewrite pred_bpow in H.
  change (fexp64 0) with (-53)%Z in H. exact H.
Qed.

Lemma RV_60 : RV 60%float = 60.
Proof. rewrite RV_SF. vm_compute Prim2SF. unfold SF2R, F2R. simpl. lra. Qed.
Lemma fin_60 : fin 60%float.
Proof. apply fin_prim. reflexivity. Qed.

(* 60 times a float in [0, 1) is a float in [0, 60): the product cannot round up to 60.0 *)
Lemma frac_times_60 f : fin f -> 0 <= RV f < 1 ->
  RV (f * 60) = RN (RV f * 60) /\ fin (f * 60) /\ 0 <= RV (f * 60) <= 60 - bpow radix2 (-47).
Proof.
  intros Ff Hf.
  set (fm := 0x1.fffffffffffffp-1%float).
  assert (RV fm = 1 - bpow radix2 (-53)) as Hfm.
  { unfold fm. rewrite RV_SF. vm_compute Prim2SF. unfold SF2R, F2R. simpl Fnum. simpl Fexp.
    change (bpow radix2 (-53)) with (/ 9007199254740992). simpl bpow. field. }
  assert (fin fm) as Ffm by (apply fin_prim; reflexivity).
  assert (RN (RV fm * 60) = 60 - bpow radix2 (-47)) as Htop.
  { destruct (mul_R fm 60 Ffm fin_60) as [A _].
    - rewrite RV_60. apply RN_lt_emax. rewrite Hfm. pose proof (bpow_gt_0 radix2 (-53)).
      assert (bpow radix2 (-53) < 1) by (change 1 with (bpow radix2 0); apply bpow_lt; reflexivity).
      rewrite Rabs_pos_eq by nra. apply Rle_trans with (bpow radix2 6); [change (bpow radix2 6) with 64; nra | apply bpow_le; discriminate].
    - rewrite RV_60 in A. rewrite <- A. unfold fm.
      rewrite RV_SF. vm_compute Prim2SF. unfold SF2R, F2R. simpl Fnum. simpl Fexp.
      change (bpow radix2 (-47)) with (/ 140737488355328). simpl bpow. field. }
  assert (RV f <= 1 - bpow radix2 (-53)) as Hle by (apply lt_one_pred; [apply fmt_RV | lra]).
  assert (0 <= RN (RV f * 60) <= 60 - bpow radix2 (-47)) as Hr.
  { split.
    - rewrite <- RN_0. apply RN_le. lra.
    - rewrite <- Htop. apply RN_le. rewrite Hfm. lra. }
  pose proof (bpow_gt_0 radix2 (-47)).
  destruct (mul_R f 60 Ff fin_60) as [A B].
  - rewrite RV_60. apply small_lt_emax. rewrite Rabs_pos_eq; lra.
  - rewrite RV_60 in A. rewrite A. split; [reflexivity|]. split; [exact B | exact Hr].
Qed.

(* Python's float % 1 on a non-negative finite float: the exact fractional part, in [0, 1) *)
Lemma fmod_py_1_nonneg a : fin a -> 0 <= RV a ->
  exists f, fmod_py B0 a (b64_of_Z 1) = VFloat f /\ fin f /\
            RV f = RV a - IZR (Zfloor (RV a)) /\ 0 <= RV f < 1.
Proof.
  intros Fa Ha. destruct (b64_fmod_1_value a Fa) as [Hm Fm].
  assert (Ztrunc (RV a) = Zfloor (RV a)) as Ht by (unfold Ztrunc; rewrite Rlt_bool_false by exact Ha; reflexivity).
  rewrite Ht in Hm.
  pose proof (Zfloor_lb (RV a)) as Hl. pose proof (Zfloor_ub (RV a)) as Hu.
  unfold fmod_py. cbn [f_eqb f_fmod f_signbit f_neg f_ltb f_add B0 B64ops B64opsC f0 f_of_Z].
  change (b64_of_Z 1) with 1%float. change (b64_of_Z 0) with 0%float.
  change (1 =? 0)%float with false. cbv iota.
  set (m := b64_fmod a 1) in *.
  rewrite (eqb_R m 0 Fm fin_zero), RV_zero.
  destruct (Req_bool_spec (RV m) 0) as [Z | NZ].
  - change (get_sign 1) with false. cbv iota. exists 0%float. rewrite RV_zero.
    split; [reflexivity|]. split; [exact fin_zero|]. rewrite <- Hm, Z. split; [reflexivity | lra].
  - rewrite (ltb_R m 0 Fm fin_zero), RV_zero, Rlt_bool_false by lra.
    change (1 <? 0)%float with false. cbn [Bool.eqb].
    exists m. split; [reflexivity|]. split; [exact Fm|]. split; [exact Hm | lra].
Qed.

(* the tests of float -> int conversion (is_nan, is_infinity) on a finite float *)
Lemma eqb_self_fin a : fin a -> (a =? a)%float = true.
Proof. intro Fa. rewrite (eqb_R a a Fa Fa). apply Req_bool_true. reflexivity. Qed.
Lemma abs_not_inf a : fin a -> (abs a =? infinity)%float = false.
Proof.
  intro Fa. pose proof (eqb_self_fin a Fa) as E. destruct (fin_prim a) as [Hf _]. specialize (Hf Fa).
  unfold PrimFloat.is_finite, PrimFloat.is_nan, PrimFloat.is_infinity in Hf. rewrite E in Hf. simpl in Hf.
  destruct (abs a =? infinity)%float; [discriminate | reflexivity].
Qed.

(* ---------------------------------------------- exact subtraction on the grid of v *)
(* v - c is a float when c is a multiple of the unit in the last place of v and |v - c| <= |v| *)
Lemma fmt_sub_grid v c : fmt v -> v <> 0 ->
  (exists k : Z, c = IZR k * bpow radix2 (cexp radix2 fexp64 v)) ->
  Rabs (v - c) <= Rabs v -> fmt (v - c).
Proof.
  intros Fv Hv0 (k & Hc) Hle. set (e := cexp radix2 fexp64 v) in *.
  set (M := Ztrunc (scaled_mantissa radix2 fexp64 v)).
  assert (v = IZR M * bpow radix2 e) as HvM by (exact Fv).
  assert (v - c = F2R (Float radix2 (M - k) e)) as E.
  { unfold F2R. simpl. rewrite minus_IZR, Hc, Rmult_minus_distr_r, <- HvM. reflexivity. }
  rewrite E. apply generic_format_F2R. intro Hnz. rewrite <- E.
  unfold e, cexp. apply fexp64_mono. apply mag_le_abs; [| exact Hle].
  rewrite E. apply F2R_neq_0. exact Hnz.
Qed.

Lemma RV_half : RV 0.5%float = / 2.
Proof. rewrite RV_SF. vm_compute Prim2SF. unfold SF2R, F2R. simpl. lra. Qed.
Lemma fin_half : fin 0.5%float.
Proof. apply fin_prim. reflexivity. Qed.

(* floor(fl(j - 0.5)) = floor(j - 1/2) for every float 0 <= j < 2^52: the subtraction is exact from
   1/4 on, and below 1/4 both sides are -1 *)
Lemma floor_sub_half j : fin j -> 0 <= RV j < 4503599627370496 ->
  fin (j - 0.5) /\ Zfloor (RV (j - 0.5)) = Zfloor (RV j - / 2) /\ Rabs (RV (j - 0.5)) <= 4503599627370496.
Proof.
  intros Fj Hj.
  assert (Rabs (RV j - / 2) <= 4503599627370496) as Hab by (apply Rabs_le; lra).
  destruct (Rlt_dec (RV j) (/ 4)) as [Hs | Hb].
  - (* small j: -1/2 <= fl(j - 1/2) <= -1/4 *)
    assert (RN (- / 2) = - / 2) as E1.
    { apply round_generic; [apply valid_rnd_N|]. apply generic_format_opp. rewrite <- RV_half. apply fmt_RV. }
    assert (RN (- / 4) = - / 4) as E2.
    { apply round_generic; [apply valid_rnd_N|]. apply generic_format_opp.
      change (/ 4) with (bpow radix2 (-2)). apply generic_format_bpow. vm_compute. discriminate. }
    assert (- / 2 <= RN (RV j - / 2) <= - / 4) as Hr.
    { split; [rewrite <- E1 | rewrite <- E2]; apply RN_le; lra. }
    destruct (sub_R j 0.5 Fj fin_half) as [A B].
    { rewrite RV_half. apply small_lt_emax. apply Rabs_le. lra. }
    rewrite RV_half in A. split; [exact B|]. rewrite A. split.
    + rewrite (Zfloor_imp (-1)) by (simpl; lra). symmetry. apply Zfloor_imp. simpl. lra.
    + apply Rabs_le. lra.
  - assert (fmt (RV j - / 2)) as Ff.
    { apply fmt_sub_grid; [apply fmt_RV | lra | | apply Rabs_le; rewrite Rabs_pos_eq by lra; lra].
      unfold cexp. set (mg := mag radix2 (RV j) : Z).
      assert (-1 <= mg <= 52)%Z as Hmg.
      { unfold mg. split.
        - apply mag_ge_bpow. rewrite Rabs_pos_eq by lra. change (bpow radix2 (-1 - 1)) with (/ 4). lra.
        - apply mag_le_bpow; [lra|]. rewrite Rabs_pos_eq by lra. change (bpow radix2 52) with 4503599627370496. lra. }
      assert (fexp64 mg = mg - 53)%Z as -> by (unfold SpecFloat.fexp, SpecFloat.emin; change prec with 53%Z; change emax with 1024%Z; lia).
      exists (2 ^ (-1 - (mg - 53)))%Z. change 2%Z with (radix2 : Z). rewrite IZR_Zpower by lia.
      rewrite <- bpow_plus. replace (-1 - (mg - 53) + (mg - 53))%Z with (-1)%Z by lia. reflexivity. }
    destruct (sub_R j 0.5 Fj fin_half) as [A B].
    { rewrite RV_half, round_generic by (try apply valid_rnd_N; exact Ff). apply small_lt_emax. lra. }
    rewrite RV_half, round_generic in A by (try apply valid_rnd_N; exact Ff).
    split; [exact B|]. rewrite A. split; [reflexivity | exact Hab].
Qed.

(* Python's float % y for a >= 0 and y > 0: exact remainder a - floor(a/y) y in [0, y) *)
Lemma fmod_py_pos a y : fin a -> fin y -> 0 <= RV a -> 0 < RV y ->
  exists f, fmod_py B0 a y = VFloat f /\ fin f /\
            RV f = RV a - IZR (Zfloor (RV a / RV y)) * RV y /\ 0 <= RV f < RV y.
Proof.
  intros Fa Fy Ha Hy. destruct (b64_fmod_correct a y Fa Fy ltac:(lra)) as [Hm Fm].
  assert (0 <= RV a / RV y) as Hq by (apply Rmult_le_pos; [lra | left; apply Rinv_0_lt_compat; lra]).
  assert (Ztrunc (RV a / RV y) = Zfloor (RV a / RV y)) as Ht by (unfold Ztrunc; rewrite Rlt_bool_false by exact Hq; reflexivity).
  rewrite Ht in Hm.
  pose proof (Zfloor_lb (RV a / RV y)) as Hl. pose proof (Zfloor_ub (RV a / RV y)) as Hu.
  assert (RV a = RV a / RV y * RV y) as Eq by (field; lra).
  assert (0 <= RV a - IZR (Zfloor (RV a / RV y)) * RV y < RV y) as Hr by (split; nra).
  unfold fmod_py. cbn [f_eqb f_fmod f_signbit f_neg f_ltb f_add B0 B64ops B64opsC f0 f_of_Z].
  change (b64_of_Z 0) with 0%float.
  rewrite (eqb_R y 0 Fy fin_zero), RV_zero, Req_bool_false by lra.
  set (m := b64_fmod a y) in *.
  rewrite (eqb_R m 0 Fm fin_zero), RV_zero.
  destruct (Req_bool_spec (RV m) 0) as [Z | NZ].
  - rewrite (sign_pos y Hy). exists 0%float. rewrite RV_zero.
    split; [reflexivity|]. split; [exact fin_zero|]. rewrite <- Hm, Z. split; [reflexivity | lra].
  - rewrite (ltb_R m 0 Fm fin_zero), (ltb_R y 0 Fy fin_zero), RV_zero, !Rlt_bool_false by lra.
    cbn [Bool.eqb]. exists m. split; [reflexivity|]. split; [exact Fm|]. split; [exact Hm | lra].
Qed.

(* ------------------------------------------------------------- assumptions *)
(* stdlib reals (ClassicalDedekindReals, functional extensionality), classic, and the
   FloatAxioms / Uint63 specification axioms of the primitive types that Flocq's bridge uses *)
Print Assumptions b64_floor_correct.
Print Assumptions b64_trunc_correct.
Print Assumptions b64_fmod_1_correct.
Print Assumptions b64_fmod_1_value.
Print Assumptions b64_fmod_correct.
Print Assumptions b64_of_Z_correct.
Print Assumptions b64_round_correct.
Print Assumptions reduce_kernel.
