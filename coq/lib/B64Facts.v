(* B64Facts: a boolean equality on model values that REFLECTS Leibniz equality, so
   that exhaustive checks by computation yield genuine equations about the
   generated model.  Uses one standard-library axiom about primitive floats:
   FloatAxioms.SF2Prim_Prim2SF (through Prim2SF_inj). *)
From Coq Require Import ZArith List String Bool Lia PrimFloat SpecFloat FloatOps FloatAxioms.
From PyLib Require Import PyVal B64.
Import ListNotations.

Definition sf_eqb (a b : spec_float) : bool :=
  match a, b with
  | S754_zero s1, S754_zero s2 => Bool.eqb s1 s2
  | S754_infinity s1, S754_infinity s2 => Bool.eqb s1 s2
  | S754_nan, S754_nan => true
  | S754_finite s1 m1 e1, S754_finite s2 m2 e2 => Bool.eqb s1 s2 && Pos.eqb m1 m2 && Z.eqb e1 e2
  | _, _ => false
  end.

Lemma sf_eqb_eq a b : sf_eqb a b = true -> a = b.
Proof.
  destruct a as [s1|s1| |s1 m1 e1], b as [s2|s2| |s2 m2 e2]; simpl; try discriminate; intro H.
  - apply Bool.eqb_prop in H; congruence.
  - apply Bool.eqb_prop in H; congruence.
  - reflexivity.
  - apply andb_true_iff in H; destruct H as [H He].
    apply andb_true_iff in H; destruct H as [Hs Hm].
    apply Bool.eqb_prop in Hs. apply Pos.eqb_eq in Hm. apply Z.eqb_eq in He. congruence.
Qed.

Definition feq (x y : float) : bool := sf_eqb (Prim2SF x) (Prim2SF y).
Lemma feq_eq x y : feq x y = true -> x = y.
Proof. intro H. apply Prim2SF_inj, sf_eqb_eq, H. Qed.

Definition exn_eqb_eq a b : exn_eqb a b = true -> a = b.
Proof. destruct a, b; simpl; intro H; try discriminate; reflexivity. Qed.

Fixpoint val_eqb (a b : val float) {struct a} : bool :=
  let fix l_eqb (l1 l2 : list (val float)) {struct l1} : bool :=
    match l1, l2 with
    | [], [] => true
    | x :: l1', y :: l2' => val_eqb x y && l_eqb l1' l2'
    | _, _ => false
    end in
  match a, b with
  | VNone, VNone => true
  | VBool x, VBool y => Bool.eqb x y
  | VInt x, VInt y => Z.eqb x y
  | VFloat x, VFloat y => feq x y
  | VStr s, VStr t => String.eqb s t
  | VTuple l1, VTuple l2 => l_eqb l1 l2
  | VList l1, VList l2 => l_eqb l1 l2
  | VObj c1 f1, VObj c2 f2 => Pos.eqb c1 c2 && l_eqb f1 f2
  | VErr e1, VErr e2 => exn_eqb e1 e2
  | _, _ => false
  end.

(* size-based induction, to get through the nested lists *)
Fixpoint vsize (v : val float) : nat :=
  let fix lsize (l : list (val float)) : nat :=
    match l with [] => 0%nat | x :: r => S (vsize x + lsize r)%nat end in
  match v with
  | VTuple l | VList l | VObj _ l => S (lsize l)
  | _ => 1%nat
  end.
Definition lsize := fix lsize (l : list (val float)) : nat :=
  match l with [] => 0%nat | x :: r => S (vsize x + lsize r)%nat end.

Definition l_eqb := fix l_eqb (l1 l2 : list (val float)) {struct l1} : bool :=
  match l1, l2 with
  | [], [] => true
  | x :: l1', y :: l2' => val_eqb x y && l_eqb l1' l2'
  | _, _ => false
  end.

Lemma lsize_cons x r : lsize (x :: r) = S (vsize x + lsize r). Proof. reflexivity. Qed.
Lemma vsize_tuple l : vsize (VTuple l) = S (lsize l). Proof. reflexivity. Qed.
Lemma vsize_list l : vsize (VList l) = S (lsize l). Proof. reflexivity. Qed.
Lemma vsize_obj c l : vsize (VObj c l) = S (lsize l). Proof. reflexivity. Qed.
Lemma vsize_pos v : (1 <= vsize v)%nat. Proof. destruct v; simpl; lia. Qed.
Lemma val_eqb_tuple l1 l2 : val_eqb (VTuple l1) (VTuple l2) = l_eqb l1 l2. Proof. reflexivity. Qed.
Lemma val_eqb_list l1 l2 : val_eqb (VList l1) (VList l2) = l_eqb l1 l2. Proof. reflexivity. Qed.
Lemma val_eqb_obj c1 c2 l1 l2 :
  val_eqb (VObj c1 l1) (VObj c2 l2) = Pos.eqb c1 c2 && l_eqb l1 l2. Proof. reflexivity. Qed.
Lemma l_eqb_cons x y l1 l2 : l_eqb (x :: l1) (y :: l2) = val_eqb x y && l_eqb l1 l2.
Proof. reflexivity. Qed.

Lemma val_eqb_eq_n : forall n a b, (vsize a <= n)%nat -> val_eqb a b = true -> a = b.
Proof.
  induction n as [|n IH]; intros a b Hn H.
  - pose proof (vsize_pos a); lia.
  - assert (HL : forall l1 l2, (lsize l1 <= n)%nat -> l_eqb l1 l2 = true -> l1 = l2).
    { induction l1 as [|x l1 IHl]; intros [|y l2] Hs Hl; try discriminate Hl; [reflexivity|].
      rewrite l_eqb_cons in Hl. apply andb_true_iff in Hl; destruct Hl as [Hx Hr].
      rewrite lsize_cons in Hs. f_equal.
      - apply IH; [lia|exact Hx].
      - apply IHl; [lia|exact Hr]. }
    destruct a, b; try discriminate H; try reflexivity.
    + apply Bool.eqb_prop in H; congruence.
    + apply Z.eqb_eq in H; congruence.
    + apply feq_eq in H; congruence.
    + apply String.eqb_eq in H; congruence.
    + rewrite val_eqb_tuple in H. rewrite vsize_tuple in Hn. f_equal. apply HL; [lia|exact H].
    + rewrite val_eqb_list in H. rewrite vsize_list in Hn. f_equal. apply HL; [lia|exact H].
    + rewrite val_eqb_obj in H. rewrite vsize_obj in Hn.
      apply andb_true_iff in H; destruct H as [Hc Hf]. apply Pos.eqb_eq in Hc. subst.
      f_equal. apply HL; [lia|exact Hf].
    + apply exn_eqb_eq in H; congruence.
Qed.

Theorem val_eqb_eq a b : val_eqb a b = true -> a = b.
Proof. apply (val_eqb_eq_n (vsize a)); lia. Qed.

Print Assumptions val_eqb_eq.
