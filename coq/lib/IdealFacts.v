(* IdealFacts: general lemmas about the real-arithmetic instance (Ideal.v):
   floor / trunc / C fmod on the reals, and Python's float % (PyVal.fmod_py) read
   in that instance.  Nothing here is specific to a pymeeus function. *)
From Coq Require Import Reals ZArith List Bool Lra Lia Psatz.
From PyLib Require Import PyVal Ideal.
Import ListNotations.
Open Scope R_scope.

Lemma Rfloor_le x : IZR (Rfloor x) <= x.
Proof. apply Rfloor_spec. Qed.
Lemma Rfloor_lt x : x < IZR (Rfloor x) + 1.
Proof. apply Rfloor_spec. Qed.

Lemma Rfloor_nonneg x : 0 <= x -> (0 <= Rfloor x)%Z.
Proof.
  intro H. pose proof (Rfloor_lt x) as H1.
  assert (0 < IZR (Rfloor x) + 1) by lra.
  rewrite <- plus_IZR in H0. apply lt_IZR in H0. lia.
Qed.

Lemma Rfloor_mono x y : x <= y -> (Rfloor x <= Rfloor y)%Z.
Proof.
  intro H. pose proof (Rfloor_le x). pose proof (Rfloor_lt y).
  assert (IZR (Rfloor x) < IZR (Rfloor y) + 1) by lra.
  rewrite <- plus_IZR in H2. apply lt_IZR in H2. lia.
Qed.

Lemma Rfloor_add_Z x z : Rfloor (x + IZR z) = (Rfloor x + z)%Z.
Proof.
  apply Rfloor_unique. rewrite plus_IZR.
  pose proof (Rfloor_spec x). lra.
Qed.

Lemma Rfloor_small x : 0 <= x < 1 -> Rfloor x = 0%Z.
Proof. intro H. apply Rfloor_unique. simpl. lra. Qed.

Lemma Rtrunc_nonneg x : 0 <= x -> Rtrunc x = Rfloor x.
Proof.
  intro H. unfold Rtrunc. destruct (Rlt_dec x 0); [lra | reflexivity].
Qed.

Lemma Rtrunc_neg x : x < 0 -> Rtrunc x = (- Rfloor (- x))%Z.
Proof.
  intro H. unfold Rtrunc. destruct (Rlt_dec x 0); [reflexivity | lra].
Qed.

Lemma Rtrunc_IZR z : Rtrunc (IZR z) = z.
Proof.
  unfold Rtrunc. destruct (Rlt_dec (IZR z) 0).
  - rewrite <- opp_IZR, Rfloor_IZR. lia.
  - apply Rfloor_IZR.
Qed.

(* floor of a quotient by a positive integer = integer quotient of the floor *)
Lemma Rfloor_div_Z a n : (0 < n)%Z -> Rfloor (a / IZR n) = (Rfloor a / n)%Z.
Proof.
  intro Hn. assert (0 < IZR n) as Hn' by (apply IZR_lt; lia).
  apply Rfloor_unique.
  pose proof (Rfloor_spec a) as [H1 H2].
  pose proof (Z.div_mod (Rfloor a) n ltac:(lia)) as Hd.
  pose proof (Z.mod_pos_bound (Rfloor a) n Hn) as Hm.
  set (q := (Rfloor a / n)%Z) in *. set (r := (Rfloor a mod n)%Z) in *.
  assert (IZR (Rfloor a) = IZR n * IZR q + IZR r) as E by (rewrite Hd, plus_IZR, mult_IZR; reflexivity).
  assert (0 <= IZR r) by (apply IZR_le; lia).
  assert (IZR r + 1 <= IZR n) by (rewrite <- plus_IZR; apply IZR_le; lia).
  split.
  - apply Rmult_le_reg_r with (IZR n); [lra|].
    unfold Rdiv. rewrite Rmult_assoc, Rinv_l by lra. lra.
  - apply Rmult_lt_reg_r with (IZR n); [lra|].
    unfold Rdiv. rewrite Rmult_assoc, Rinv_l by lra. lra.
Qed.

Lemma Rfloor_div_bounds a y : 0 < y ->
  y * IZR (Rfloor (a / y)) <= a < y * IZR (Rfloor (a / y)) + y.
Proof.
  intro Hy. pose proof (Rfloor_spec (a / y)) as [H1 H2].
  assert (a = y * (a / y)) as E by (field; lra).
  split.
  - rewrite E at 2. apply Rmult_le_compat_l; lra.
  - rewrite E at 1. replace (y * IZR (Rfloor (a / y)) + y) with (y * (IZR (Rfloor (a / y)) + 1)) by ring.
    apply Rmult_lt_compat_l; lra.
Qed.

(* C fmod for a non-negative dividend and positive divisor *)
Lemma Rfmod_nonneg a y : 0 <= a -> 0 < y -> Rfmod a y = a - y * IZR (Rfloor (a / y)).
Proof.
  intros Ha Hy. unfold Rfmod. rewrite Rtrunc_nonneg; [reflexivity|].
  apply Rmult_le_pos; [lra | left; apply Rinv_0_lt_compat; lra].
Qed.

Lemma Rfmod_bounds a y : 0 <= a -> 0 < y -> 0 <= Rfmod a y < y.
Proof.
  intros Ha Hy. rewrite Rfmod_nonneg by assumption.
  pose proof (Rfloor_div_bounds a y Hy). lra.
Qed.

Lemma Rfmod_1 a : 0 <= a -> Rfmod a 1 = a - IZR (Rfloor a).
Proof.
  intro Ha. rewrite Rfmod_nonneg by lra. replace (a / 1) with a by field. ring.
Qed.

Lemma Rfmod_1_bounds a : 0 <= a -> 0 <= Rfmod a 1 < 1.
Proof. intro Ha. apply Rfmod_bounds; lra. Qed.

(* Python's float % in the ideal instance, for a non-negative dividend and positive divisor *)
Lemma fmod_py_nonneg a y : 0 <= a -> 0 < y -> fmod_py Rops a y = VFloat (Rfmod a y).
Proof.
  intros Ha Hy. pose proof (Rfmod_bounds a y Ha Hy) as Hb.
  unfold fmod_py.
  cbn [f_eqb f_fmod f_signbit f_ltb f_neg f_add Rops RopsC f0 f_of_Z].
  rewrite (proj2 (Reqb_false y 0)) by lra.
  destruct (Req_EM_T (Rfmod a y) 0) as [E|E].
  - rewrite (proj2 (Reqb_true _ _) E). rewrite (proj2 (Rltb_false y 0)) by lra.
    rewrite E. reflexivity.
  - rewrite (proj2 (Reqb_false _ _) E). rewrite (proj2 (Rltb_false y 0)) by lra.
    rewrite (proj2 (Rltb_false (Rfmod a y) 0)) by lra. reflexivity.
Qed.

Lemma fmod_py_zero a y : y = 0 -> fmod_py Rops a y = VErr ZeroDivisionError.
Proof.
  intro E. unfold fmod_py. cbn [f_eqb Rops RopsC f0 f_of_Z].
  rewrite (proj2 (Reqb_true y 0)) by assumption. reflexivity.
Qed.

(* integer part + fractional part of a non-negative real, reduced modulo a positive integer n:
   IZR (floor a mod n) + (a - floor a) = a - n * floor (a / n) *)
Lemma int_frac_mod a n : (0 < n)%Z ->
  IZR (Rfloor a mod n) + (a - IZR (Rfloor a)) = a - IZR n * IZR (Rfloor (a / IZR n)).
Proof.
  intro Hn. rewrite Rfloor_div_Z by assumption.
  rewrite Z.mod_eq by lia. rewrite minus_IZR, mult_IZR. ring.
Qed.

(* truncation stays within one unit of its argument, on the side of zero *)
Lemma Rtrunc_bounds z : (0 <= z -> 0 <= z - IZR (Rtrunc z) < 1) /\ (z < 0 -> -1 < z - IZR (Rtrunc z) <= 0).
Proof.
  split; intro H.
  - rewrite Rtrunc_nonneg by assumption. pose proof (Rfloor_spec z). lra.
  - rewrite Rtrunc_neg by assumption. rewrite opp_IZR. pose proof (Rfloor_spec (- z)). lra.
Qed.

(* Python's float % for ANY dividend and a positive divisor: x - y * floor (x / y), in [0, y) *)
Lemma fmod_py_posdiv x y : 0 < y -> fmod_py Rops x y = VFloat (x - y * IZR (Rfloor (x / y))).
Proof.
  intros Hy. set (u := x / y). assert (x = y * u) as Ex by (unfold u; field; lra).
  set (t := Rtrunc u). assert (-1 < u - IZR t < 1) as Ht.
  { destruct (Rlt_dec u 0) as [N|N].
    - pose proof (proj2 (Rtrunc_bounds u) N). unfold t. lra.
    - pose proof (proj1 (Rtrunc_bounds u) ltac:(lra)). unfold t. lra. }
  assert (Rfmod x y = y * (u - IZR t)) as Em by (unfold Rfmod; fold u; fold t; rewrite Ex at 1; ring).
  unfold fmod_py. cbn [f_eqb f_fmod f_signbit f_ltb f_neg f_add Rops RopsC f0 f_of_Z].
  rewrite (proj2 (Reqb_false y 0)) by lra. rewrite Em.
  rewrite (proj2 (Rltb_false y 0)) by lra.
  set (d := u - IZR t) in *.
  destruct (Rtotal_order d 0) as [L|[E|G]].
  - assert (y * d < 0) by nra.
    rewrite (proj2 (Reqb_false (y * d) 0)) by lra.
    rewrite (proj2 (Rltb_true (y * d) 0)) by lra. cbn [Bool.eqb].
    assert (Rfloor u = (t - 1)%Z) as -> by (apply Rfloor_unique; rewrite minus_IZR; unfold d in *; lra).
    rewrite minus_IZR. f_equal. rewrite Ex. unfold d. ring.
  - rewrite E, Rmult_0_r. rewrite (proj2 (Reqb_true 0 0)) by reflexivity.
    assert (Rfloor u = t) as -> by (apply Rfloor_unique; unfold d in *; lra).
    f_equal. rewrite Ex. unfold d in E. nra.
  - assert (0 < y * d) by nra.
    rewrite (proj2 (Reqb_false (y * d) 0)) by lra.
    rewrite (proj2 (Rltb_false (y * d) 0)) by lra. cbn [Bool.eqb].
    assert (Rfloor u = t) as -> by (apply Rfloor_unique; unfold d in *; lra).
    f_equal. rewrite Ex. unfold d. ring.
Qed.
