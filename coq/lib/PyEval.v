(* PyEval: a small symbolic evaluator (Ltac) for the generated model in the ideal
   (real-number) instance.  Full normalisation (cbv/cbn) of the generated code
   explodes as soon as one real comparison is undecided, because the stuck `if`
   is pushed under every later `match`.  [pyrun] instead evaluates call-by-value
   at each `bind`, weak-head-normalises in between, and decides each real
   comparison it meets with a user tactic (default: literals normalised, lra),
   using the hypotheses in the context.  Case-split on input conditions BEFORE
   calling it.  Nothing here is trusted: the tactics only build ordinary proofs. *)
From Coq Require Import Reals ZArith List Bool Lra Lia String.
From PyLib Require Import PyVal PyBuiltins Ideal Whnf.
Import ListNotations.
Open Scope R_scope.

Lemma bind_ok {F} (e : val F) (k : val F -> val F) : is_err e = false -> bind e k = k e.
Proof. destruct e; simpl; intro H; try reflexivity; discriminate. Qed.
Lemma bind_err {F} (x : exn) (k : val F -> val F) : bind (VErr x) k = VErr x.
Proof. reflexivity. Qed.

(* expose the real operations behind the FloatOps projections *)
Ltac expose_R :=
  cbn [f_of_Z f_add f_sub f_mul f_div f_neg f_abs f_sqrt f_ltb f_leb f_eqb f_floor f_trunc
       f_fmod f_finite f_isnan f_lit f_libm f_round f_round_nd f_signbit f_pi f_deg2rad
       f_rad2deg f_fsum f_dom f_call Rops RopsC Rlibm Rdom zf f0].
Ltac expose_R_in H :=
  cbn [f_of_Z f_add f_sub f_mul f_div f_neg f_abs f_sqrt f_ltb f_leb f_eqb f_floor f_trunc
       f_fmod f_finite f_isnan f_lit f_libm f_round f_round_nd f_signbit f_pi f_deg2rad
       f_rad2deg f_fsum f_dom f_call Rops RopsC Rlibm Rdom zf f0] in H.

(* decimal literals as quotients of integer constants, which lra/field understand *)
Ltac Rlit_norm :=
  repeat match goal with
  | |- context [Rlit ?m ?e] =>
      let r := eval cbv -[IZR Rdiv Rmult Rinv Rplus Ropp] in (Rlit m e) in
      change (Rlit m e) with r
  end.
Ltac Rlit_norm_in H :=
  repeat match type of H with
  | context [Rlit ?m ?e] =>
      let r := eval cbv -[IZR Rdiv Rmult Rinv Rplus Ropp] in (Rlit m e) in
      change (Rlit m e) with r in H
  end.
Ltac Rlit_norm_all :=
  Rlit_norm; repeat match goal with H : context [Rlit _ _] |- _ => Rlit_norm_in H end.

Ltac pylra := Rlit_norm_all; first [ lra | unfold Rabs in *; repeat destruct (Rcase_abs _); lra ].

From Ltac2 Require Ltac2.
Ltac2 Set Whnf.is_blocked := fun c =>
  Ltac2.List.exist (Ltac2.Constr.equal c)
    ['@bind; 'Rltb; 'Rleb; 'Reqb; 'Rfloor; 'Rtrunc; 'Rround; 'is_int; 'Rfmod; 'Rround_nd;
     'Rlit; 'atan2; 'Rpow; 'pow10; 'Rabs; 'sqrt; 'sin; 'cos; 'tan; 'asin; 'acos; 'atan;
     'exp; 'ln; 'Rpower; 'powerRZ; 'IZR; 'PI].
Ltac whnf_lhs := whnf_lhs2.

(* Abstracting a callee: after
     Ltac2 Set Whnf.is_blocked as old := fun c => Bool.or (old c) (Constr.equal c '@Epoch_year).
   (needs [From Ltac2 Require Import Ltac2.] in a module/section of its own, or use the
   fully qualified names as above), pyrun does not enter [Epoch_year]; when evaluation
   reaches [Epoch_year Rops e] it rewrites with a hypothesis [H : Epoch_year Rops e = v]
   from the context. *)

Ltac is_canon v :=
  lazymatch v with
  | VNone => idtac | VBool _ => idtac | VInt _ => idtac | VFloat _ => idtac
  | VStr _ => idtac | VErr _ => idtac | VFun _ _ => idtac | VDict _ => idtac
  | VTuple ?l => canon_list l | VList ?l => canon_list l | VObj _ ?l => canon_list l
  end
with canon_list l :=
  lazymatch l with
  | nil => idtac
  | cons ?x ?r => is_canon x; canon_list r
  end.

(* first element of a literal list that is not canonical *)
Ltac first_noncanon l k :=
  lazymatch l with
  | cons ?x ?r => tryif is_canon x then first_noncanon r k else k x
  end.

(* decide the comparison [c] (an application of Rltb / Rleb / Reqb) with [tac] *)
Ltac py_decide_at c tac :=
  lazymatch c with
  | Rltb ?x ?y =>
      first [ rewrite (proj2 (Rltb_true x y)) by (expose_R; tac)
            | rewrite (proj2 (Rltb_false x y)) by (expose_R; tac)
            | idtac "pyrun: cannot decide" x "<" y; fail 1 ]
  | Rleb ?x ?y =>
      first [ rewrite (proj2 (Rleb_true x y)) by (expose_R; tac)
            | rewrite (proj2 (Rleb_false x y)) by (expose_R; tac)
            | idtac "pyrun: cannot decide" x "<=" y; fail 1 ]
  | Reqb ?x ?y =>
      first [ rewrite (proj2 (Reqb_true x y)) by (expose_R; tac)
            | rewrite (proj2 (Reqb_false x y)) by (expose_R; tac)
            | idtac "pyrun: cannot decide" x "=" y; fail 1 ]
  end.

#[global] Opaque bind.

(* closes [canonical = ?v]; fails if evaluation got stuck before a canonical value *)
Ltac py_canon_refl :=
  lazymatch goal with |- ?l = _ => is_canon l end; reflexivity.

(* [pyrun_using tac]: goal [lhs = rhs] with lhs : val R a call of the generated model.
   Rewrites lhs to a canonical value (constructors over real expressions). *)
Ltac py_trace s := idtac.
Ltac pyrun_using tac :=
  whnf_lhs;
  lazymatch goal with
  | |- ?l = _ =>
    tryif is_canon l then expose_R else
    first [
      lazymatch l with
      | bind ?e ?k =>
          tryif is_canon e then
            lazymatch e with
            | VErr _ => rewrite (bind_err _ k)
            | _ => rewrite (bind_ok e k) by reflexivity; cbv beta
            end
          else
            let H := fresh "Hev" in
            eassert (H : e = _) by (pyrun_using tac; py_canon_refl);
            rewrite H; clear H
      | VTuple ?xs => first_noncanon xs ltac:(fun x =>
            let H := fresh "Hev" in
            eassert (H : x = _) by (pyrun_using tac; py_canon_refl); rewrite H; clear H)
      | VList ?xs => first_noncanon xs ltac:(fun x =>
            let H := fresh "Hev" in
            eassert (H : x = _) by (pyrun_using tac; py_canon_refl); rewrite H; clear H)
      | VObj _ ?xs => first_noncanon xs ltac:(fun x =>
            let H := fresh "Hev" in
            eassert (H : x = _) by (pyrun_using tac; py_canon_refl); rewrite H; clear H)
      | _ =>
          pose_stuck;
          lazymatch goal with
          | py_stuck := ?s |- _ =>
              clear py_stuck; py_trace s;
              lazymatch s with
              | bind ?e ?k =>
                  let H := fresh "Hev" in
                  eassert (H : bind e k = _) by (pyrun_using tac; py_canon_refl);
                  rewrite H; clear H
              | Rltb _ _ => py_decide_at s tac
              | Rleb _ _ => py_decide_at s tac
              | Reqb _ _ => py_decide_at s tac
              | _ =>
                  (* a call of a function the user blocked (see pyrun_block): use a hypothesis
                     giving its value *)
                  first [ match goal with H : s = _ |- _ => rewrite H end
                        | idtac "pyrun: stuck on" s; fail 1 ]
              end
          end
      end;
      pyrun_using tac
    | idtac ]
  end.

Ltac pylra_fast := first [ assumption | Rlit_norm_all; lra ].
Ltac pyrun := pyrun_using pylra.
Ltac pyrun_fast := pyrun_using pylra_fast.

(* ------------------------------------------------------------------------------------
   pyrunv: CALL-BY-VALUE evaluator (same contract as pyrun: goal [model_call = rhs], the
   left side is rewritten to a canonical value; only ordinary proofs are built).

   Why: pyrun is call-by-value at [bind] only.  Below a bind the weak-head strategy is
   call-by-name, and the generated operator wrappers (match a with ... | _ => num_op a b)
   copy their unevaluated arguments into every branch, so a nested Python expression
   a + t*(b + t*(c + ...)), or a method call on the result of another call, is
   re-evaluated exponentially often (g_JDE2000: 250 s with pyrun, 7 s with pyrunv).

   What it does, at every step on [l = _]:
   1. if l is an application (not a bind) with non-canonical arguments of type [val], or
      literal lists [x; y; ...] of such (mk_tuple [..]), these are evaluated first, left to
      right (Python's order), each by a recursive pyrunv; the result is installed with
      a congruence proof term (eq_trans/f_equal), not with [rewrite], so no unification
      runs over the (huge) real-number terms.  If an argument cannot be evaluated
      (stuck, undecidable), it is left alone and step 2 proceeds lazily;
   2. otherwise one pyrun step (whnf, bind, tuple elements, comparison decided by [tac]);
   3. at a call of a constant blocked in Whnf.is_blocked (a characterised callee), in
      this order: a hypothesis [H : s = _] is used; else the hook
      [pyrunv_hook s tac] is asked to rewrite the call [s] with a lemma (rebind it with
      [Ltac pyrunv_hook s tac ::= lazymatch s with ... => rewrite (lemma x) by tac end]);
      else the first non-canonical argument of [s] is evaluated and the call is
      reconsidered; else "pyrunv: stuck on s" is printed and evaluation stops there.
      A hook that fails with [fail 1] does not abort the other alternatives.
   Block constants additively:
     Ltac2 Set Whnf.is_blocked as old := fun c =>
       Ltac2.Bool.or (old c) (Ltac2.List.exist (Ltac2.Constr.equal c) ['@Angle___init__]).
   ------------------------------------------------------------------------------------ *)

(* client hook: rewrite the stuck blocked call [s] in the goal, or fail *)
Ltac pyrunv_hook s tac := fail.

Ltac pv_noncanon_in_list l k :=
  lazymatch l with
  | cons ?x ?r => tryif is_canon x then pv_noncanon_in_list r k else k x
  end.

(* first non-canonical argument of type val (or element of a literal list of vals) of the
   application [s], leftmost first; fails if there is none *)
Ltac pv_first_noncanon_arg s k :=
  lazymatch s with
  | ?f ?a =>
      first [ pv_first_noncanon_arg f k
            | let t := type of a in
              lazymatch t with
              | PyVal.val _ => tryif is_canon a then fail else k a
              | list (PyVal.val _) => pv_noncanon_in_list a k
              end ]
  end.

Ltac pv_has_noncanon_arg s := pv_first_noncanon_arg s ltac:(fun _ => idtac).

Ltac pyrunv_using tac :=
  lazymatch goal with
  | |- ?l = _ =>
    tryif is_canon l then expose_R else
    tryif (lazymatch l with bind _ _ => fail | _ => idtac end; pv_has_noncanon_arg l)
    then first [ pv_cbv_fun l tac ltac:(fun p => refine (eq_trans p _)); pyrunv_using tac
               | pyrunv_step tac ]
    else pyrunv_step tac
  end
(* calls [k] with a proof of [g = g'], g' being g with its val arguments evaluated; fails if
   nothing could be evaluated *)
with pv_cbv_fun g tac k :=
  lazymatch g with
  | ?g1 ?a =>
      let t := type of a in
      lazymatch t with
      | PyVal.val _ =>
          tryif is_canon a then pv_cbv_fun g1 tac ltac:(fun p1 => k constr:(f_equal (fun f => f a) p1))
          else
            (let H := fresh "Hev" in
             eassert (H : a = _) by (pyrunv_using tac; py_canon_refl);
             first [ pv_cbv_fun g1 tac ltac:(fun p1 => k constr:(f_equal2 (fun f x => f x) p1 H))
                   | k constr:(f_equal g1 H) ];
             clear H)
      | list (PyVal.val _) =>
          first [ pv_cbv_list a tac ltac:(fun pa =>
                    first [ pv_cbv_fun g1 tac ltac:(fun p1 => k constr:(f_equal2 (fun f x => f x) p1 pa))
                          | k constr:(f_equal g1 pa) ])
                | pv_cbv_fun g1 tac ltac:(fun p1 => k constr:(f_equal (fun f => f a) p1)) ]
      | _ => pv_cbv_fun g1 tac ltac:(fun p1 => k constr:(f_equal (fun f => f a) p1))
      end
  end
(* calls [k] with a proof of [l = l'] for a literal list l with at least one element evaluated *)
with pv_cbv_list l tac k :=
  lazymatch l with
  | @cons ?A ?x ?r =>
      tryif is_canon x then pv_cbv_list r tac ltac:(fun pr => k constr:(f_equal (@cons A x) pr))
      else
        (let H := fresh "Hev" in
         eassert (H : x = _) by (pyrunv_using tac; py_canon_refl);
         first [ pv_cbv_list r tac ltac:(fun pr => k constr:(f_equal2 (@cons A) H pr))
               | k constr:(f_equal (fun z => @cons A z r) H) ];
         clear H)
  end
with pyrunv_step tac :=
  whnf_lhs;
  lazymatch goal with
  | |- ?l = _ =>
    tryif is_canon l then expose_R else
    first [
      lazymatch l with
      | bind ?e ?k =>
          tryif is_canon e then
            lazymatch e with
            | VErr _ => refine (eq_trans (bind_err _ k) _)
            | _ => refine (eq_trans (bind_ok e k eq_refl) _); cbv beta
            end
          else
            let H := fresh "Hev" in
            eassert (H : e = _) by (pyrunv_using tac; py_canon_refl);
            refine (eq_trans (f_equal (fun z => bind z k) H) _); clear H
      | VTuple ?xs => first_noncanon xs ltac:(fun x =>
            let H := fresh "Hev" in
            eassert (H : x = _) by (pyrunv_using tac; py_canon_refl); rewrite H; clear H)
      | VList ?xs => first_noncanon xs ltac:(fun x =>
            let H := fresh "Hev" in
            eassert (H : x = _) by (pyrunv_using tac; py_canon_refl); rewrite H; clear H)
      | VObj _ ?xs => first_noncanon xs ltac:(fun x =>
            let H := fresh "Hev" in
            eassert (H : x = _) by (pyrunv_using tac; py_canon_refl); rewrite H; clear H)
      | _ =>
          pose_stuck;
          lazymatch goal with
          | py_stuck := ?s |- _ =>
              clear py_stuck; py_trace s;
              lazymatch s with
              | bind ?e ?k =>
                  let H := fresh "Hev" in
                  eassert (H : bind e k = _) by (pyrunv_using tac; py_canon_refl);
                  rewrite H; clear H
              | Rltb _ _ => py_decide_at s tac
              | Rleb _ _ => py_decide_at s tac
              | Reqb _ _ => py_decide_at s tac
              | _ =>
                  first [ match goal with H : s = _ |- _ => rewrite H end
                        | first [ first [ pyrunv_hook s tac ] ]
                        | pv_first_noncanon_arg s ltac:(fun a =>
                            let H := fresh "Hev" in
                            eassert (H : a = _) by (pyrunv_using tac; py_canon_refl);
                            rewrite H; clear H)
                        | idtac "pyrunv: stuck on" s; fail 1 ]
              end
          end
      end;
      pyrunv_using tac
    | idtac ]
  end.

Ltac pyrunv := pyrunv_using pylra.
Ltac pyrunv_fast := pyrunv_using pylra_fast.
