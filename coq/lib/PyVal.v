(* PyVal: Python values and the operator semantics used by the generated model.
   Everything is parametric in the carrier F of Python's float and in a
   record of operations on it (FloatOps).  Two instances exist: B64.v
   (kernel binary64, executable) and Ideal.v (Coq reals). *)
From Coq Require Import ZArith NArith List String Ascii Bool.
From Coq Require PrimFloat.
Import ListNotations.
Open Scope Z_scope.

Inductive exn :=
| TypeError | ValueError | ZeroDivisionError | OverflowError | AttributeError
| IndexError | KeyError | UnboundLocalError | RuntimeError
| OutOfFuel      (* model artefact: loop fuel exhausted *)
| Unsupported.   (* model artefact: outside the modelled subset *)

Inductive libm_fn :=
| Lsin | Lcos | Ltan | Lasin | Lacos | Latan | Latan2 | Lpow | Lexp | Llog | Llog10.

Definition exn_eqb (a b : exn) : bool :=
  match a, b with
  | TypeError, TypeError | ValueError, ValueError
  | ZeroDivisionError, ZeroDivisionError | OverflowError, OverflowError
  | AttributeError, AttributeError | IndexError, IndexError
  | KeyError, KeyError | UnboundLocalError, UnboundLocalError
  | RuntimeError, RuntimeError | OutOfFuel, OutOfFuel
  | Unsupported, Unsupported => true
  | _, _ => false
  end.

(* class tags *)
Definition cls := positive.
Definition cAngle : cls := 1%positive.
Definition cEpoch : cls := 2%positive.
Definition cInterpolation : cls := 3%positive.
Definition cCurveFitting : cls := 4%positive.
Definition cEllipsoid : cls := 5%positive.
Definition cDate : cls := 6%positive.
Definition cDateTime : cls := 7%positive.
Definition cComplex : cls := 8%positive.
Definition cEarth : cls := 9%positive.
Definition cMinor : cls := 10%positive.

Inductive val (F : Type) : Type :=
| VNone
| VBool (b : bool)
| VInt (z : Z)
| VFloat (f : F)
| VStr (s : string)
| VTuple (l : list (val F))
| VList (l : list (val F))
| VDict (kv : list (val F * val F))
| VObj (c : cls) (fields : list (val F))
| VFun (id : positive) (env : list (val F))
| VErr (e : exn).

Arguments VNone {F}.
Arguments VBool {F} b.
Arguments VInt {F} z.
Arguments VFloat {F} f.
Arguments VStr {F} s.
Arguments VTuple {F} l.
Arguments VList {F} l.
Arguments VDict {F} kv.
Arguments VObj {F} c fields.
Arguments VFun {F} id env.
Arguments VErr {F} e.

Record FloatOps (F : Type) := mkFloatOps {
  f_of_Z : Z -> F;                 (* int -> float, correctly rounded *)
  f_add : F -> F -> F;
  f_sub : F -> F -> F;
  f_mul : F -> F -> F;
  f_div : F -> F -> F;             (* divisor checked non-zero by the caller *)
  f_neg : F -> F;
  f_abs : F -> F;
  f_sqrt : F -> F;
  f_ltb : F -> F -> bool;
  f_leb : F -> F -> bool;
  f_eqb : F -> F -> bool;
  f_floor : F -> Z;                (* on finite values *)
  f_trunc : F -> Z;                (* on finite values *)
  f_fmod : F -> F -> F;            (* C fmod, exact, sign of the dividend *)
  f_finite : F -> bool;
  f_isnan : F -> bool;
  f_lit : Z -> Z -> PrimFloat.float -> F;  (* m * 10^e, and its nearest double *)
  f_libm : libm_fn -> list F -> F;
  f_round : F -> Z;                (* round(x): half to even *)
  f_round_nd : F -> Z -> F;        (* round(x, n) *)
  f_signbit : F -> bool;
  f_pi : F;
  f_deg2rad : F;                   (* pi/180 *)
  f_rad2deg : F;                   (* 180/pi *)
  f_fsum : list F -> F;            (* math.fsum: exactly rounded sum *)
  f_dom : libm_fn -> list F -> bool;   (* mathematical domain of a libm function (ideal instance);
                                          binary64 instance: always true, errors show as NaN *)
  f_call : val F -> list (val F) -> val F;  (* calling a Python function value (basis functions) *)
  f_repr : F -> string                      (* repr(float): shortest round-trip decimal *)
}.

Arguments f_of_Z {F} _ _.
Arguments f_add {F} _ _ _.
Arguments f_sub {F} _ _ _.
Arguments f_mul {F} _ _ _.
Arguments f_div {F} _ _ _.
Arguments f_neg {F} _ _.
Arguments f_abs {F} _ _.
Arguments f_sqrt {F} _ _.
Arguments f_ltb {F} _ _ _.
Arguments f_leb {F} _ _ _.
Arguments f_eqb {F} _ _ _.
Arguments f_floor {F} _ _.
Arguments f_trunc {F} _ _.
Arguments f_fmod {F} _ _ _.
Arguments f_finite {F} _ _.
Arguments f_isnan {F} _ _.
Arguments f_lit {F} _ _ _ _.
Arguments f_libm {F} _ _ _.
Arguments f_round {F} _ _.
Arguments f_round_nd {F} _ _ _.
Arguments f_signbit {F} _ _.
Arguments f_pi {F} _.
Arguments f_deg2rad {F} _.
Arguments f_rad2deg {F} _.
Arguments f_fsum {F} _ _.
Arguments f_dom {F} _ _ _.
Arguments f_call {F} _ _ _.
Arguments f_repr {F} _ _.

Section Ops.
Context {F : Type} (O : FloatOps F).
Notation val := (val F).

Definition zf (z : Z) : F := f_of_Z O z.
Definition f0 : F := f_of_Z O 0.

(* ---------------------------------------------------------------- binding *)

Definition bind (e : val) (k : val -> val) : val :=
  match e with VErr err => VErr err | _ => k e end.

Definition is_err (v : val) : bool := match v with VErr _ => true | _ => false end.

(* truthiness *)
Definition ifv (c : val) (a b : unit -> val) : val :=
  match c with
  | VErr e => VErr e
  | VBool true => a tt
  | VBool false => b tt
  | VInt z => if z =? 0 then b tt else a tt
  | VFloat f => if f_eqb O f f0 then b tt else a tt
  | VNone => b tt
  | VStr s => match s with EmptyString => b tt | _ => a tt end
  | VTuple l | VList l => match l with [] => b tt | _ => a tt end
  | VDict l => match l with [] => b tt | _ => a tt end
  | VObj _ _ => a tt
  | VFun _ _ => a tt
  end.

Definition py_not (c : val) : val := ifv c (fun _ => VBool false) (fun _ => VBool true).
Definition py_and (a : val) (b : unit -> val) : val := ifv a b (fun _ => a).
Definition py_or (a : val) (b : unit -> val) : val := ifv a (fun _ => a) b.
Definition py_bool (c : val) : val := ifv c (fun _ => VBool true) (fun _ => VBool false).

(* bool is a subclass of int *)
Definition norm (v : val) : val :=
  match v with VBool true => VInt 1 | VBool false => VInt 0 | _ => v end.

(* ------------------------------------------------------------- arithmetic *)

Definition num2 (fi : Z -> Z -> val) (ff : F -> F -> val) (a b : val) : val :=
  match norm a with
  | VErr e => VErr e
  | VInt x =>
      match norm b with
      | VErr e => VErr e
      | VInt y => fi x y
      | VFloat y => ff (zf x) y
      | _ => VErr TypeError
      end
  | VFloat x =>
      match norm b with
      | VErr e => VErr e
      | VInt y => ff x (zf y)
      | VFloat y => ff x y
      | _ => VErr TypeError
      end
  | _ => match b with VErr e => VErr e | _ => VErr TypeError end
  end.

Definition num_add := num2 (fun x y => VInt (x + y)) (fun x y => VFloat (f_add O x y)).
Definition num_sub := num2 (fun x y => VInt (x - y)) (fun x y => VFloat (f_sub O x y)).
Definition num_mul := num2 (fun x y => VInt (x * y)) (fun x y => VFloat (f_mul O x y)).

Definition fdiv (x y : F) : val :=
  if f_eqb O y f0 then VErr ZeroDivisionError else VFloat (f_div O x y).
Definition num_truediv := num2 (fun x y => fdiv (zf x) (zf y)) fdiv.

(* float % : CPython float_rem *)
Definition fmod_py (x y : F) : val :=
  if f_eqb O y f0 then VErr ZeroDivisionError else
  let m := f_fmod O x y in
  if f_eqb O m f0
  then VFloat (if f_signbit O y then f_neg O f0 else f0)
  else if Bool.eqb (f_ltb O y f0) (f_ltb O m f0) then VFloat m
       else VFloat (f_add O m y).
Definition num_mod :=
  num2 (fun x y => if y =? 0 then VErr ZeroDivisionError else VInt (x mod y)) fmod_py.

(* float // : CPython float_floor_div; only the common case is modelled *)
Definition num_floordiv :=
  num2 (fun x y => if y =? 0 then VErr ZeroDivisionError else VInt (x / y))
       (fun _ _ => VErr Unsupported).

Definition f_is_integer (x : F) : bool :=
  f_finite O x && f_eqb O (zf (f_floor O x)) x.

Definition fpow (x y : F) : val :=
  if negb (f_finite O x && f_finite O y) then VErr Unsupported else
  if f_eqb O y f0 then VFloat (zf 1) else
  if f_eqb O x f0 then
    (if f_ltb O y f0 then VErr ZeroDivisionError else VFloat (f_libm O Lpow [x; y]))
  else if f_ltb O x f0 && negb (f_is_integer y) then VObj cComplex []
  else let r := f_libm O Lpow [x; y] in
       if f_finite O r then VFloat r
       else if f_isnan O r then VErr Unsupported else VErr OverflowError.
Definition num_pow :=
  num2 (fun x y => if 0 <=? y then VInt (x ^ y) else fpow (zf x) (zf y)) fpow.

Definition num_neg (a : val) : val :=
  match norm a with
  | VInt x => VInt (- x) | VFloat x => VFloat (f_neg O x)
  | VErr e => VErr e | _ => VErr TypeError end.
Definition num_pos (a : val) : val :=
  match norm a with
  | VInt x => VInt x | VFloat x => VFloat x
  | VErr e => VErr e | _ => VErr TypeError end.
Definition num_abs (a : val) : val :=
  match norm a with
  | VInt x => VInt (Z.abs x) | VFloat x => VFloat (f_abs O x)
  | VErr e => VErr e | _ => VErr TypeError end.

(* ------------------------------------------------------------ comparisons *)

Definition num_cmp (ci : Z -> Z -> bool) (cf : F -> F -> bool) :=
  num2 (fun x y => VBool (ci x y)) (fun x y => VBool (cf x y)).
Definition num_lt := num_cmp Z.ltb (f_ltb O).
Definition num_le := num_cmp Z.leb (f_leb O).
Definition num_gt := num_cmp Z.gtb (fun x y => f_ltb O y x).
Definition num_ge := num_cmp Z.geb (fun x y => f_leb O y x).

Definition is_num (v : val) : bool :=
  match v with VBool _ | VInt _ | VFloat _ => true | _ => false end.

(* == on non-object values; sequences compare element-wise *)
Definition b2z (b : bool) : Z := if b then 1 else 0.
Fixpoint base_eqb (a b : val) {struct a} : bool :=
  match a with
  | VNone => match b with VNone => true | _ => false end
  | VBool x => match norm b with
               | VInt y => b2z x =? y | VFloat y => f_eqb O (zf (b2z x)) y | _ => false end
  | VInt x => match norm b with
              | VInt y => x =? y | VFloat y => f_eqb O (zf x) y | _ => false end
  | VFloat x => match norm b with
                | VInt y => f_eqb O x (zf y) | VFloat y => f_eqb O x y | _ => false end
  | VStr s => match b with VStr t => String.eqb s t | _ => false end
  | VTuple l1 =>
      match b with
      | VTuple l2 =>
          (fix list_eqb (l1 l2 : list val) {struct l1} : bool :=
             match l1, l2 with
             | [], [] => true
             | x :: l1', y :: l2' => base_eqb x y && list_eqb l1' l2'
             | _, _ => false
             end) l1 l2
      | _ => false end
  | VList l1 =>
      match b with
      | VList l2 =>
          (fix list_eqb (l1 l2 : list val) {struct l1} : bool :=
             match l1, l2 with
             | [], [] => true
             | x :: l1', y :: l2' => base_eqb x y && list_eqb l1' l2'
             | _, _ => false
             end) l1 l2
      | _ => false end
  | _ => false
  end.

Definition has_obj (v : val) : bool :=
  match v with VObj _ _ | VFun _ _ | VDict _ => true | _ => false end.

Definition base_eq (a b : val) : val :=
  match a, b with
  | VErr e, _ => VErr e
  | _, VErr e => VErr e
  | _, _ => if has_obj a || has_obj b then VErr Unsupported else VBool (base_eqb a b)
  end.
Definition base_ne (a b : val) : val := bind (base_eq a b) py_not.

(* ------------------------------------------------------------ conversions *)

Definition f2int (x : F) : val :=
  if f_isnan O x then VErr ValueError
  else if f_finite O x then VInt (f_trunc O x) else VErr OverflowError.
Definition f2floor (x : F) : val :=
  if f_isnan O x then VErr ValueError
  else if f_finite O x then VInt (f_floor O x) else VErr OverflowError.

Definition num_int (a : val) : val :=
  match norm a with
  | VInt x => VInt x | VFloat x => f2int x
  | VErr e => VErr e | VStr _ => VErr Unsupported | _ => VErr TypeError end.
Definition num_float (a : val) : val :=
  match norm a with
  | VInt x => VFloat (zf x) | VFloat x => VFloat x
  | VErr e => VErr e | VStr _ => VErr Unsupported | _ => VErr TypeError end.
Definition math_floor (a : val) : val :=
  match norm a with
  | VInt x => VInt x | VFloat x => f2floor x
  | VErr e => VErr e | _ => VErr TypeError end.

Definition num_round1 (a : val) : val :=
  match norm a with
  | VInt x => VInt x
  | VFloat x => if f_isnan O x then VErr ValueError
                else if f_finite O x then VInt (f_round O x) else VErr OverflowError
  | VErr e => VErr e | _ => VErr TypeError end.
Definition num_round2 (a n : val) : val :=
  match norm a, norm n with
  | VErr e, _ => VErr e
  | _, VErr e => VErr e
  | VFloat x, VInt k => if f_finite O x then VFloat (f_round_nd O x k) else VFloat x
  | VInt x, VInt k => if 0 <=? k then VInt x else VErr Unsupported
  | VFloat x, VNone => num_round1 a
  | VInt x, VNone => VInt x
  | _, _ => VErr TypeError
  end.

(* ------------------------------------------------------------------- math *)

Definition to_f (a : val) (k : F -> val) : val :=
  match norm a with
  | VInt x => k (zf x) | VFloat x => k x
  | VErr e => VErr e | _ => VErr TypeError end.

(* libm call whose C wrapper raises ValueError when a finite/any argument
   gives NaN, or an infinite result from finite input (math_1 in mathmodule.c) *)
Definition m1 (fn : libm_fn) (a : val) : val :=
  to_f a (fun x =>
    if negb (f_dom O fn [x]) then VErr ValueError else
    let r := f_libm O fn [x] in
    if f_isnan O r && negb (f_isnan O x) then VErr ValueError
    else if negb (f_finite O r) && negb (f_isnan O r) && f_finite O x
         then VErr (match fn with Lexp => OverflowError | _ => ValueError end)
         else VFloat r).
Definition m2 (fn : libm_fn) (a b : val) : val :=
  to_f a (fun x => to_f b (fun y => VFloat (f_libm O fn [x; y]))).
Definition math_sqrt (a : val) : val :=
  to_f a (fun x => if f_ltb O x f0 then VErr ValueError else VFloat (f_sqrt O x)).
Definition math_radians (a : val) : val :=
  to_f a (fun x => VFloat (f_mul O x (f_deg2rad O))).
Definition math_degrees (a : val) : val :=
  to_f a (fun x => VFloat (f_mul O x (f_rad2deg O))).
Definition math_fabs (a : val) : val := to_f a (fun x => VFloat (f_abs O x)).
Definition math_copysign (a b : val) : val :=
  to_f a (fun x => to_f b (fun y =>
    VFloat (if f_signbit O y then f_neg O (f_abs O x) else f_abs O x))).
Definition math_pow (a b : val) : val :=
  to_f a (fun x => to_f b (fun y => fpow x y)).

(* ------------------------------------------------------------- containers *)

Definition seq_items (v : val) : option (list val) :=
  match v with VTuple l | VList l => Some l | _ => None end.

Definition py_len (v : val) : val :=
  match v with
  | VTuple l | VList l => VInt (Z.of_nat (List.length l))
  | VDict l => VInt (Z.of_nat (List.length l))
  | VStr s => VInt (Z.of_nat (String.length s))
  | VErr e => VErr e
  | _ => VErr TypeError
  end.

Definition nth_val (l : list val) (i : Z) : val :=
  let n := Z.of_nat (List.length l) in
  let j := if i <? 0 then i + n else i in
  if (j <? 0) || (n <=? j) then VErr IndexError
  else nth (Z.to_nat j) l (VErr IndexError).

Fixpoint dict_get (kv : list (val * val)) (k : val) : val :=
  match kv with
  | [] => VErr KeyError
  | (k', v) :: r => if base_eqb k' k then v else dict_get r k
  end.
Fixpoint dict_has (kv : list (val * val)) (k : val) : bool :=
  match kv with
  | [] => false
  | (k', _) :: r => base_eqb k' k || dict_has r k
  end.
Fixpoint dict_set (kv : list (val * val)) (k v : val) : list (val * val) :=
  match kv with
  | [] => [(k, v)]
  | (k', v') :: r => if base_eqb k' k then (k', v) :: r else (k', v') :: dict_set r k v
  end.

Definition str_nth (s : string) (i : Z) : val :=
  let n := Z.of_nat (String.length s) in
  let j := if i <? 0 then i + n else i in
  if (j <? 0) || (n <=? j) then VErr IndexError
  else match String.get (Z.to_nat j) s with
       | Some c => VStr (String c EmptyString) | None => VErr IndexError end.

Definition py_getitem (v i : val) : val :=
  match v, norm i with
  | VErr e, _ => VErr e
  | _, VErr e => VErr e
  | VTuple l, VInt k | VList l, VInt k => nth_val l k
  | VStr s, VInt k => str_nth s k
  | VDict kv, k => dict_get kv k
  | VTuple _, _ | VList _, _ | VStr _, _ => VErr TypeError
  | _, _ => VErr TypeError
  end.

Fixpoint list_set (l : list val) (n : nat) (x : val) : list val :=
  match l with
  | [] => []
  | y :: r => match n with 0%nat => x :: r | S n' => y :: list_set r n' x end
  end.

Definition py_setitem (v i x : val) : val :=
  match v, norm i, x with
  | VErr e, _, _ => VErr e
  | _, VErr e, _ => VErr e
  | _, _, VErr e => VErr e
  | VList l, VInt k, _ =>
      let n := Z.of_nat (List.length l) in
      let j := if k <? 0 then k + n else k in
      if (j <? 0) || (n <=? j) then VErr IndexError
      else VList (list_set l (Z.to_nat j) x)
  | VDict kv, k, _ => VDict (dict_set kv k x)
  | _, _, _ => VErr TypeError
  end.

(* v[lo:hi], bounds None or int *)
Definition clampi (n i : Z) : Z :=
  let j := if i <? 0 then i + n else i in
  if j <? 0 then 0 else if n <? j then n else j.
Definition py_slice (v lo hi : val) : val :=
  match v with
  | VErr e => VErr e
  | VTuple l | VList l =>
      let n := Z.of_nat (List.length l) in
      match norm lo, norm hi with
      | VErr e, _ => VErr e
      | _, VErr e => VErr e
      | lo', hi' =>
        match (match lo' with VNone => Some 0 | VInt a => Some (clampi n a) | _ => None end),
              (match hi' with VNone => Some n | VInt b => Some (clampi n b) | _ => None end) with
        | Some a, Some b =>
            let r := firstn (Z.to_nat (b - a)) (skipn (Z.to_nat a) l) in
            match v with VTuple _ => VTuple r | _ => VList r end
        | _, _ => VErr TypeError
        end
      end
  | _ => VErr Unsupported
  end.

Definition py_contains (c x : val) : val :=   (* x in c *)
  match c, x with
  | VErr e, _ => VErr e
  | _, VErr e => VErr e
  | VTuple l, _ | VList l, _ =>
      if has_obj x || existsb has_obj l then VErr Unsupported
      else VBool (existsb (fun y => base_eqb y x) l)
  | VDict kv, _ => VBool (dict_has kv x)
  | VStr _, _ => VErr Unsupported
  | _, _ => VErr TypeError
  end.

Definition py_append (l x : val) : val :=
  match l, x with
  | VErr e, _ => VErr e
  | _, VErr e => VErr e
  | VList r, _ => VList (r ++ [x])
  | _, _ => VErr AttributeError
  end.

Definition py_list (v : val) : val :=
  match v with
  | VTuple l | VList l => VList l
  | VDict kv => VList (map fst kv)
  | VErr e => VErr e
  | _ => VErr TypeError
  end.
Definition py_tuple (v : val) : val :=
  match v with
  | VTuple l | VList l => VTuple l
  | VErr e => VErr e
  | _ => VErr TypeError
  end.
Definition dict_keys (v : val) : val :=
  match v with VDict kv => VList (map fst kv) | VErr e => VErr e | _ => VErr AttributeError end.

Fixpoint zrange_nat (start : Z) (n : nat) : list val :=
  match n with 0%nat => [] | S n' => VInt start :: zrange_nat (start + 1) n' end.
Definition py_range (lo hi : val) : val :=
  match norm lo, norm hi with
  | VErr e, _ => VErr e
  | _, VErr e => VErr e
  | VInt a, VInt b => VList (zrange_nat a (Z.to_nat (b - a)))
  | _, _ => VErr TypeError
  end.

Fixpoint zrange_step (start step : Z) (n : nat) : list val :=
  match n with 0%nat => [] | S n' => VInt start :: zrange_step (start + step) step n' end.
Definition py_range3 (lo hi st : val) : val :=
  match norm lo, norm hi, norm st with
  | VErr e, _, _ => VErr e
  | _, VErr e, _ => VErr e
  | _, _, VErr e => VErr e
  | VInt a, VInt b, VInt s =>
      if s =? 0 then VErr ValueError
      else if 0 <? s then VList (zrange_step a s (Z.to_nat ((b - a + s - 1) / s)))
      else VList (zrange_step a s (Z.to_nat ((a - b - s - 1) / (- s))))
  | _, _, _ => VErr TypeError
  end.

(* sorted() on a list of numbers: insertion sort with Python's < *)
Definition num_ltb (a b : val) : bool :=
  match num_lt a b with VBool true => true | _ => false end.
Fixpoint insert_sorted (x : val) (l : list val) : list val :=
  match l with
  | [] => [x]
  | y :: r => if num_ltb x y then x :: l else y :: insert_sorted x r
  end.
Definition py_sorted (v : val) : val :=
  match v with
  | VErr e => VErr e
  | VTuple l | VList l =>
      if forallb is_num l then VList (fold_left (fun acc x => insert_sorted x acc) l [])
      else VErr Unsupported
  | _ => VErr TypeError
  end.

Fixpoint index_of (l : list val) (x : val) (i : Z) : val :=
  match l with
  | [] => VErr ValueError
  | y :: r => if base_eqb y x then VInt i else index_of r x (i + 1)
  end.
Definition list_index (l x : val) : val :=
  match l, x with
  | VErr e, _ => VErr e
  | _, VErr e => VErr e
  | VList r, _ | VTuple r, _ => index_of r x 0
  | _, _ => VErr AttributeError
  end.

(* first error of a list of values, or the list *)
Fixpoint first_err (l : list val) : option exn :=
  match l with
  | [] => None
  | VErr e :: _ => Some e
  | _ :: r => first_err r
  end.
Definition mk_tuple (l : list val) : val :=
  match first_err l with Some e => VErr e | None => VTuple l end.
Definition mk_list (l : list val) : val :=
  match first_err l with Some e => VErr e | None => VList l end.
Definition mk_dict (kv : list (val * val)) : val :=
  match first_err (map snd kv) with Some e => VErr e | None => VDict kv end.

(* tuple unpacking: exact arity *)
Definition unpack (n : nat) (v : val) : val :=
  match v with
  | VErr e => VErr e
  | VTuple l | VList l => if Nat.eqb (List.length l) n then v else VErr ValueError
  | _ => VErr TypeError
  end.
Definition item (v : val) (i : nat) : val :=
  match v with
  | VTuple l | VList l => nth i l (VErr IndexError)
  | VErr e => VErr e
  | _ => VErr TypeError
  end.

(* ---------------------------------------------------------------- strings *)

Definition acode (c : ascii) : N := N_of_ascii c.
Definition is_space (c : ascii) : bool :=
  let n := acode c in (N.eqb n 32) || ((N.leb 9 n) && (N.leb n 13)).
Fixpoint lstrip (s : string) : string :=
  match s with
  | String c r => if is_space c then lstrip r else s
  | EmptyString => s
  end.
Fixpoint srev_app (s acc : string) : string :=
  match s with String c r => srev_app r (String c acc) | EmptyString => acc end.
Definition srev (s : string) := srev_app s EmptyString.
Definition str_strip (s : string) : string := srev (lstrip (srev (lstrip s))).
Definition upper_c (c : ascii) : ascii :=
  let n := acode c in
  if (N.leb 97 n) && (N.leb n 122) then ascii_of_N (n - 32) else c.
Definition lower_c (c : ascii) : ascii :=
  let n := acode c in
  if (N.leb 65 n) && (N.leb n 90) then ascii_of_N (n + 32) else c.
Fixpoint smap (f : ascii -> ascii) (s : string) : string :=
  match s with String c r => String (f c) (smap f r) | EmptyString => EmptyString end.
Definition str_capitalize (s : string) : string :=
  match s with
  | String c r => String (upper_c c) (smap lower_c r)
  | EmptyString => EmptyString
  end.
Definition is_ascii_str (s : string) : bool :=
  let fix go s := match s with
    | String c r => N.ltb (acode c) 128 && go r
    | EmptyString => true end in go s.

Definition str_meth (f : string -> string) (v : val) : val :=
  match v with
  | VStr s => if is_ascii_str s then VStr (f s) else VErr Unsupported
  | VErr e => VErr e
  | _ => VErr AttributeError
  end.

(* str(int) *)
Definition digit_char (d : Z) : ascii := ascii_of_N (Z.to_N (48 + d)).
Fixpoint pos_digits (fuel : nat) (n : Z) (acc : string) : string :=
  match fuel with
  | 0%nat => acc
  | S fuel' => if n <? 10 then String (digit_char n) acc
               else pos_digits fuel' (n / 10) (String (digit_char (n mod 10)) acc)
  end.
Definition Z_to_string (z : Z) : string :=
  let n := Z.abs z in
  let s := pos_digits (S (Z.to_nat (Z.log2 n))) n EmptyString in
  if z <? 0 then String "-" s else s.

(* str(x) for the values that get formatted *)
Definition py_str_of (v : val) : option string :=
  match v with
  | VInt z => Some (Z_to_string z)
  | VFloat f => Some (f_repr O f)
  | VStr s => Some s
  | VBool true => Some "True"%string
  | VBool false => Some "False"%string
  | VNone => Some "None"%string
  | _ => None
  end.

(* "..{}..{}..".format(a, b): successive {} are replaced by str(arg) *)
Fixpoint fmt_go (t : string) (args : list val) : val :=
  match t with
  | EmptyString => VStr EmptyString
  | String c r =>
      match r with
      | String c2 r2 =>
          if (N.eqb (acode c) 123) && (N.eqb (acode c2) 125) then
            match args with
            | [] => VErr IndexError
            | a :: args' =>
                match a with VErr e => VErr e | _ =>
                match py_str_of a with
                | None => VErr Unsupported
                | Some sa => match fmt_go r2 args' with
                             | VStr rest => VStr (sa ++ rest)
                             | other => other end
                end end
            end
          else match fmt_go r args with VStr rest => VStr (String c rest) | other => other end
      | EmptyString => VStr t
      end
  end.
Definition py_format (t : val) (args : list val) : val :=
  match t with
  | VErr e => VErr e
  | VStr s => match first_err args with Some e => VErr e | None => fmt_go s args end
  | _ => VErr AttributeError
  end.

(* s.replace(a, b), non-overlapping, left to right; a non-empty *)
Fixpoint str_prefix (p s : string) : option string :=
  match p with
  | EmptyString => Some s
  | String c p' => match s with
                   | String d s' => if Ascii.eqb c d then str_prefix p' s' else None
                   | EmptyString => None end
  end.
Fixpoint str_replace_go (fuel : nat) (s a b : string) : string :=
  match fuel with
  | 0%nat => s
  | S fuel' =>
      match str_prefix a s with
      | Some rest => (b ++ str_replace_go fuel' rest a b)%string
      | None => match s with
                | EmptyString => EmptyString
                | String c r => String c (str_replace_go fuel' r a b)
                end
      end
  end.
Definition py_str_replace (s a b : val) : val :=
  match s, a, b with
  | VErr e, _, _ => VErr e
  | _, VErr e, _ => VErr e
  | _, _, VErr e => VErr e
  | VStr s', VStr a', VStr b' =>
      match a' with
      | EmptyString => VErr Unsupported
      | _ => VStr (str_replace_go (S (String.length s')) s' a' b')
      end
  | VStr _, _, _ => VErr TypeError
  | _, _, _ => VErr AttributeError
  end.

(* ---------------------------------------------------------------- objects *)

Definition is_obj (c : cls) (v : val) : bool :=
  match v with VObj c' _ => Pos.eqb c c' | _ => false end.

Definition get_field (c : cls) (i : nat) (v : val) : val :=
  match v with
  | VObj c' fs => if Pos.eqb c c' then nth i fs (VErr AttributeError) else VErr AttributeError
  | VErr e => VErr e
  | _ => VErr AttributeError
  end.
Definition set_field (c : cls) (i : nat) (v x : val) : val :=
  match v, x with
  | VErr e, _ => VErr e
  | _, VErr e => VErr e
  | VObj c' fs, _ => if Pos.eqb c c' then VObj c' (list_set fs i x) else VErr AttributeError
  | _, _ => VErr AttributeError
  end.
(* attribute that exists at the same index in several classes *)
Fixpoint get_field_any (cs : list (cls * nat)) (v : val) : val :=
  match cs with
  | [] => match v with VErr e => VErr e | _ => VErr AttributeError end
  | (c, i) :: r => if is_obj c v then get_field c i v else get_field_any r v
  end.

Inductive tytag := TInt | TFloat | TStr | TTuple | TList | TDict | TBool | TCls (c : cls).
Definition has_type (v : val) (t : tytag) : bool :=
  match t, v with
  | TInt, VInt _ | TInt, VBool _ | TBool, VBool _ | TFloat, VFloat _ | TStr, VStr _
  | TTuple, VTuple _ | TList, VList _ | TDict, VDict _ => true
  | TCls c, VObj c' _ => Pos.eqb c c' || (Pos.eqb c cDate && Pos.eqb c' cDateTime)
  | _, _ => false
  end.
Definition isinstance (v : val) (ts : list tytag) : val :=
  match v with VErr e => VErr e | _ => VBool (existsb (has_type v) ts) end.

(* keyword-argument dictionaries *)
Definition kw (k : string) (v : val) : val * val := (VStr k, v).

End Ops.

(* Statement-level notations used by the generated code *)
Declare Scope py_scope.
Delimit Scope py_scope with py.
Notation "'Let' x ':=' e 'in' k" := (bind e (fun x => k))
  (at level 200, x name, e at level 200, k at level 200, right associativity) : py_scope.
Notation "'If' c 'then' a 'else' b" := (ifv _ c (fun _ => a) (fun _ => b))
  (at level 200, c at level 200, a at level 200, b at level 200) : py_scope.
