(* B64: the binary64 instance of FloatOps, on Coq's primitive floats.
   + - * / sqrt and comparisons are the kernel primitives (IEEE 754 binary64,
   round to nearest even).  floor, trunc, fmod, round, fsum, int->float are
   computed exactly from mantissa/exponent.  libm functions are NOT modelled:
   they are looked up in a table supplied by the caller (recorded from the
   implementation run); a miss yields NaN. *)
From Coq Require Import ZArith List Bool.
From Coq Require Import Uint63 PrimFloat SpecFloat FloatOps.
From Coq Require String Ascii.
From PyLib Require Import PyVal.
Import ListNotations.
Open Scope Z_scope.

Definition two53 : Z := 9007199254740992.
Definition two62 : Z := 4611686018427387904.

(* m * 2^e correctly rounded (round to nearest even), any m, e *)
Definition b64_of_ZE (m e : Z) : float :=
  SF2Prim (binary_normalize prec emax m e false).

Definition b64_of_Z (z : Z) : float :=
  if Z.abs z <? two62
  then (if z <? 0 then PrimFloat.opp (of_uint63 (Uint63.of_Z (- z)))
        else of_uint63 (Uint63.of_Z z))
  else b64_of_ZE z 0.

(* finite x as (signed mantissa, exponent): x = m * 2^e ; zero -> (0,0) *)
Definition b64_parts (x : float) : option (Z * Z) :=
  match Prim2SF x with
  | S754_zero _ => Some (0, 0)
  | S754_finite s m e => Some (if s then Z.neg m else Z.pos m, e)
  | _ => None
  end.

Definition b64_floor_slow (x : float) : Z :=
  match b64_parts x with
  | Some (m, e) => if 0 <=? e then Z.shiftl m e else Z.shiftr m (- e)
  | None => 0
  end.

Definition c2p52 : float := 0x1p52%float.
Definition c2p51 : float := 0x1p51%float.

(* integer value of a float that is an integer with 0 <= r < 2^52 *)
Definition small_int_of (r : float) : Z :=
  (Uint63.to_Z (normfr_mantissa (fst (frshiftexp (r + c2p52)%float))) - 4503599627370496).

(* fast path: |x| < 2^51 *)
Definition b64_floor (x : float) : Z :=
  if (PrimFloat.abs x <? c2p51)%float then
    if (0 <=? x)%float then
      let r := ((x + c2p52) - c2p52)%float in      (* nearest integer *)
      let r := if (x <? r)%float then (r - 1)%float else r in
      small_int_of r
    else
      let a := PrimFloat.abs x in
      let r := ((a + c2p52) - c2p52)%float in
      let r := if (r <? a)%float then (r + 1)%float else r in   (* ceil |x| *)
      - small_int_of r
  else b64_floor_slow x.

Definition b64_trunc (x : float) : Z :=
  if (x <? 0)%float then - b64_floor (PrimFloat.abs x) else b64_floor x.

(* |x| < 2^51: truncation toward zero as a float *)
Definition trunc_small (x : float) : float :=
  let a := PrimFloat.abs x in
  let r := ((a + c2p52) - c2p52)%float in
  let r := if (a <? r)%float then (r - 1)%float else r in
  if (x <? 0)%float then (- r)%float else r.

(* C fmod: exact *)
Definition b64_fmod_slow (x y : float) : float :=
  match b64_parts x, b64_parts y with
  | Some (mx, ex), Some (my, ey) =>
      if my =? 0 then nan else
      if mx =? 0 then x else
      let e := Z.min ex ey in
      let X := Z.shiftl mx (ex - e) in
      let Y := Z.shiftl my (ey - e) in
      let R := Z.rem X Y in
      if R =? 0 then (if get_sign x then (-0)%float else 0%float)
      else b64_of_ZE R e
  | Some _, None => if is_nan y then nan else x     (* fmod(x, inf) = x *)
  | _, _ => nan
  end.

(* fast path for the very common x % 1 with |x| < 2^51: x - trunc x is exact *)
Definition b64_fmod (x y : float) : float :=
  if (y =? 1)%float && (PrimFloat.abs x <? c2p51)%float then
    let r := (x - trunc_small x)%float in
    if (r =? 0)%float then (if get_sign x then (-0)%float else 0%float) else r
  else b64_fmod_slow x y.

(* round half to even of the rational n/d, d > 0 *)
Definition q_round_half_even (n d : Z) : Z :=
  let q := n / d in
  let r := n - q * d in          (* 0 <= r < d *)
  if 2 * r <? d then q
  else if d <? 2 * r then q + 1
  else if Z.even q then q else q + 1.

Definition b64_round (x : float) : Z :=
  match b64_parts x with
  | Some (m, e) =>
      if 0 <=? e then Z.shiftl m e else q_round_half_even m (Z.shiftl 1 (- e))
  | None => 0
  end.

(* n/d (d>0) correctly rounded to binary64 *)
Definition b64_of_Q (n d : Z) : float :=
  if n =? 0 then 0%float else
  let a := Z.abs n in
  let k := Z.max 0 (64 + Z.log2 d - Z.log2 a) in
  let num := Z.shiftl a k in
  let q := num / d in
  let sticky := negb (num mod d =? 0) in
  let q2 := if sticky then 2 * q + 1 else 2 * q in
  let r := b64_of_ZE q2 (- k - 1) in
  if n <? 0 then PrimFloat.opp r else r.

(* round(x, nd): exact decimal rounding (half even on the exact binary value),
   then the nearest double of the decimal result — what CPython's
   dtoa-based float.__round__ computes. *)
Definition b64_round_nd (x : float) (nd : Z) : float :=
  match b64_parts x with
  | Some (m, e) =>
      if m =? 0 then x else
      let p10 := 10 ^ (Z.abs nd) in
      (* value = m * 2^e ; scaled = value * 10^nd *)
      let num0 := if 0 <=? e then Z.shiftl m e else m in
      let den0 := if 0 <=? e then 1 else Z.shiftl 1 (- e) in
      let num := if 0 <=? nd then num0 * p10 else num0 in
      let den := if 0 <=? nd then den0 else den0 * p10 in
      let q := (if num <? 0 then - q_round_half_even (- num) den
                else q_round_half_even num den) in
      if q =? 0 then (if get_sign x then (-0)%float else 0%float) else
      if 0 <=? nd then b64_of_Q q p10 else b64_of_ZE (q * p10) 0
  | None => x
  end.

(* math.fsum: exactly rounded sum of finite floats *)
Fixpoint fsum_parts (l : list float) (acc : list (Z * Z)) : option (list (Z * Z)) :=
  match l with
  | [] => Some acc
  | x :: r => match b64_parts x with
              | Some p => fsum_parts r (p :: acc)
              | None => None
              end
  end.
Definition b64_fsum (l : list float) : float :=
  match fsum_parts l [] with
  | None => nan
  | Some ps =>
      let emin := fold_left (fun a p => Z.min a (snd p)) ps 0 in
      let s := fold_left (fun a p => a + Z.shiftl (fst p) (snd p - emin)) ps 0 in
      if s =? 0 then 0%float else b64_of_ZE s emin
  end.

(* bit-level equality (distinguishes -0.0, identifies NaNs) *)
Definition feq_bits (x y : float) : bool :=
  match PrimFloat.compare x y with
  | FEq => Bool.eqb (get_sign x) (get_sign y)
  | FNotComparable => is_nan x && is_nan y
  | _ => false
  end.

Definition libm_fn_eqb (a b : libm_fn) : bool :=
  match a, b with
  | Lsin, Lsin | Lcos, Lcos | Ltan, Ltan | Lasin, Lasin | Lacos, Lacos
  | Latan, Latan | Latan2, Latan2 | Lpow, Lpow | Lexp, Lexp | Llog, Llog
  | Llog10, Llog10 => true
  | _, _ => false
  end.

Definition libm_table := list (libm_fn * list float * float).

Fixpoint args_eqb (a b : list float) : bool :=
  match a, b with
  | [], [] => true
  | x :: a', y :: b' => feq_bits x y && args_eqb a' b'
  | _, _ => false
  end.

Fixpoint libm_lookup (t : libm_table) (fn : libm_fn) (args : list float) : float :=
  match t with
  | [] => nan
  | (fn', args', r) :: t' =>
      if libm_fn_eqb fn fn' && args_eqb args args' then r else libm_lookup t' fn args
  end.

Import String Ascii.

(* repr(float), CPython float_repr_style 'short': David Gay's dtoa mode 0
   (shortest digit string that reads back to x; generated digit by digit with
   the low/high termination tests of dtoa.c, in exact integer arithmetic),
   then format_float_short's 'r' layout. *)

(* m*2^e >= 10^d ?   (m > 0) *)
Definition repr_ge_pow10 (m e d : Z) : bool :=
  Z.shiftl (10 ^ (Z.max d 0)) (Z.max (- e) 0) <=? Z.shiftl m (Z.max e 0) * 10 ^ (Z.max (- d) 0).

(* floor(log10(m*2^e)), m > 0 *)
Definition repr_dec_exp (m e : Z) : Z :=
  let lb := Z.log2 m + e in
  let d0 := (lb * 30103) / 100000 in
  if repr_ge_pow10 m e (d0 + 1) then d0 + 1
  else if repr_ge_pow10 m e d0 then d0 else d0 - 1.

(* R < 10*S: quotient (0..9) and remainder by repeated subtraction *)
Fixpoint repr_small_quot (fuel : nat) (R S q : Z) : Z * Z :=
  match fuel with
  | O => (q, R)
  | Datatypes.S f => if S <=? R then repr_small_quot f (R - S) S (q + 1) else (q, R)
  end.

(* dtoa's termination test after a digit: r the remainder, S one unit of the
   last digit, mlo/mhi the half gaps to the neighbouring doubles (same scale).
   Some false = stop; Some true = stop and round the last digit up (with the
   trailing-9 carry); None = generate another digit. *)
Definition repr_test (ev : bool) (S r mlo mhi dig : Z) : option bool :=
  let j := r ?= mlo in
  let j1 := (r + mhi) ?= S in
  match j1, ev with
  | Eq, true => if dig =? 9 then Some true else
                match j with Gt => Some true | _ => Some false end
  | _, _ =>
    if (match j with Lt => true | Eq => ev | Gt => false end) then
      if r =? 0 then Some false else
      match j1 with
      | Gt => match (2 * r ?= S) with
              | Gt => Some true
              | Eq => Some (Z.odd dig)
              | Lt => Some false
              end
      | _ => Some false
      end
    else match j1 with Gt => Some true | _ => None end
  end.

(* R/S = fraction not yet printed, in units of the last printed digit;
   acc = digits printed so far, last one first *)
Fixpoint repr_loop (fuel : nat) (ev : bool) (S R mlo mhi : Z) (acc : list Z) : list Z * bool :=
  match fuel with
  | O => (acc, false)
  | Datatypes.S f =>
      let mlo := 10 * mlo in
      let mhi := 10 * mhi in
      let (dig, r) := repr_small_quot 10 (10 * R) S 0 in
      match repr_test ev S r mlo mhi dig with
      | Some up => (dig :: acc, up)
      | None => repr_loop f ev S r mlo mhi (dig :: acc)
      end
  end.

(* digits of m*2^e (m > 0) with 10^(dp-1) <= m*2^e < 10^dp, last one first,
   and whether the last one is to be rounded up *)
Definition repr_digits (m e dp : Z) : list Z * bool :=
  let pe := Z.max e 0 in let ne := Z.max (- e) 0 in
  let t := 10 ^ (Z.max (- dp) 0) in
  let S := Z.shiftl (4 * 10 ^ (Z.max dp 0)) ne in
  let R := Z.shiftl (4 * m) pe * t in
  let mhi := Z.shiftl 2 pe * t in
  let mlo := if (m =? 4503599627370496) && (-1074 <? e) then Z.shiftl 1 pe * t else mhi in
  repr_loop 40 (Z.even m) S R mlo mhi [].

(* dtoa's roundoff: drop trailing nines, add one to the digit before them;
   all nines: "1" and the decimal point moves *)
Fixpoint repr_incr (l : list Z) : list Z * bool :=
  match l with
  | [] => ([1], true)
  | d :: r => if d =? 9 then repr_incr r else (d + 1 :: r, false)
  end.

Fixpoint repr_drop_zeros (l : list Z) : list Z :=
  match l with
  | d :: (_ :: _) as r => if d =? 0 then repr_drop_zeros r else l
  | _ => l
  end.

Fixpoint repr_digit_string (l : list Z) (acc : String.string) : String.string :=   (* l last digit first *)
  match l with
  | [] => acc
  | d :: r => repr_digit_string r (String.String (digit_char d) acc)
  end.

Fixpoint repr_zeros (n : nat) : String.string :=
  match n with O => String.EmptyString | S n' => String.String "0"%char (repr_zeros n') end.

Fixpoint repr_split_at (n : nat) (s : String.string) : String.string * String.string :=
  match n, s with
  | S n', String.String c r => let (a, b) := repr_split_at n' r in (String.String c a, b)
  | _, _ => (String.EmptyString, s)
  end.

(* digit string ds (no trailing repr_zeros), decimal point position decpt:
   value = 0.ds * 10^decpt *)
Definition repr_layout (ds : String.string) (decpt : Z) : String.string :=
  let nd := Z.of_nat (String.length ds) in
  if (decpt <=? -4) || (16 <? decpt) then
    let ex := decpt - 1 in
    let mant := match ds with
                | String.String c String.EmptyString => ds
                | String.String c r => String.String c (String.String "."%char r)
                | String.EmptyString => ds
                end in
    let ea := Z.abs ex in
    let es := Z_to_string ea in
    let es := if ea <? 10 then String.String "0"%char es else es in
    String.append mant (String.String "e"%char (String.String (if ex <? 0 then "-"%char else "+"%char) es))
  else if decpt <=? 0 then
    String.append "0."%string (String.append (repr_zeros (Z.to_nat (- decpt))) ds)
  else if nd <=? decpt then
    String.append ds (String.append (repr_zeros (Z.to_nat (decpt - nd))) ".0"%string)
  else
    let (a, b) := repr_split_at (Z.to_nat decpt) ds in
    String.append a (String.String "."%char b).

Definition b64_repr (x : float) : String.string :=
  match Prim2SF x with
  | S754_nan => "nan"%string
  | S754_infinity s => if s then "-inf"%string else "inf"%string
  | S754_zero s => if s then "-0.0"%string else "0.0"%string
  | S754_finite s pm e =>
      let m := Z.pos pm in
      let dp := repr_dec_exp m e + 1 in
      let (l, up) := repr_digits m e dp in
      let (l, carry) := if up then repr_incr l else (l, false) in
      let decpt := if carry then dp + 1 else dp in
      let ds := repr_digit_string (repr_drop_zeros l) String.EmptyString in
      let body := repr_layout ds decpt in
      if s then String.String "-"%char body else body
  end.

Definition B64opsC (t : libm_table) (call : val float -> list (val float) -> val float)
  : FloatOps float := {|
  f_of_Z := b64_of_Z;
  f_add := PrimFloat.add;
  f_sub := PrimFloat.sub;
  f_mul := PrimFloat.mul;
  f_div := PrimFloat.div;
  f_neg := PrimFloat.opp;
  f_abs := PrimFloat.abs;
  f_sqrt := PrimFloat.sqrt;
  f_ltb := PrimFloat.ltb;
  f_leb := PrimFloat.leb;
  f_eqb := PrimFloat.eqb;
  f_floor := b64_floor;
  f_trunc := b64_trunc;
  f_fmod := b64_fmod;
  f_finite := is_finite;
  f_isnan := is_nan;
  f_lit := fun _ _ b => b;
  f_libm := libm_lookup t;
  f_round := b64_round;
  f_round_nd := b64_round_nd;
  f_signbit := get_sign;
  f_pi := 0x1.921fb54442d18p+1%float;
  f_deg2rad := 0x1.1df46a2529d39p-6%float;
  f_rad2deg := 0x1.ca5dc1a63c1f8p+5%float;
  f_fsum := b64_fsum;
  f_dom := fun _ _ => true;
  f_call := call;
  f_repr := b64_repr
|}.

Definition B64ops (t : libm_table) : FloatOps float :=
  B64opsC t (fun _ _ => VErr Unsupported).

Definition B0 := B64ops [].

(* Basis functions that may be handed to CurveFitting.general_fitting in
   correspondence cases: the fixed menu of /verif/vlib/basis.py, named by the
   VFun ids of py2coq's EXTERN_FUN.  One numeric argument; ints stay ints where
   Python keeps them (bf_x(2) is the int 2, bf_x2(2) the int 4); sin/cos/exp go
   through the recorded libm table exactly like math.sin etc. (m1). *)
Definition b64_basis_call (t : libm_table) (f : val float) (args : list (val float)) : val float :=
  let O := B64ops t in
  match f, args with
  | VErr e, _ => VErr e
  | VFun id _, [x] =>
      match x with
      | VErr e => VErr e
      | VBool _ | VInt _ | VFloat _ =>
          match id with
          | 1%positive => VFloat 0%float
          | 2%positive => VFloat 1%float
          | 3%positive => x
          | 4%positive => num_mul O x x
          | 5%positive => num_mul O (num_mul O x x) x
          | 6%positive => m1 O Lsin x
          | 7%positive => m1 O Lcos x
          | 8%positive => m1 O Lsin (num_mul O (VFloat 2%float) x)
          | 9%positive => m1 O Lcos (num_mul O (VFloat 2%float) x)
          | 10%positive => m1 O Lexp x
          | 11%positive => math_sqrt O x
          | _ => VErr Unsupported
          end
      | _ => VErr Unsupported
      end
  | VFun _ _, _ => VErr TypeError
  | _, _ => VErr TypeError
  end.

Definition B64opsB (t : libm_table) : FloatOps float := B64opsC t (b64_basis_call t).
