(* PyBuiltins: helpers used by generated code (control glue, iteration,
   proleptic Gregorian dates of the datetime module, calendar.isleap). *)
From Coq Require Import ZArith List String Bool.
From PyLib Require Import PyVal.
Import ListNotations.
Open Scope Z_scope.

Section B.
Context {F : Type} (O : FloatOps F).
Notation val := (val F).

Definition loop_fuel : nat := 5000.
Definition rec_fuel : nat := 64.

(* strict function entry: an error in any argument is the result *)
Definition guard (args : list val) (k : unit -> val) : val :=
  match first_err args with Some e => VErr e | None => k tt end.

Definition ret_self (self v : val) : val :=
  match v with VErr e => VErr e | _ =>
  match self with VErr e => VErr e | _ => VTuple [self; v] end end.

Definition py_is (a b : val) : val :=
  match a, b with
  | VErr e, _ => VErr e
  | _, VErr e => VErr e
  | VNone, VNone => VBool true
  | VNone, _ | _, VNone => VBool false
  | VBool x, VBool y => VBool (Bool.eqb x y)
  | _, _ => VErr Unsupported
  end.

Definition py_iter (v : val) : val :=
  match v with
  | VErr e => VErr e
  | VTuple _ | VList _ => v
  | VDict kv => VList (map fst kv)
  | _ => VErr TypeError
  end.
Definition seq_of (v : val) : list val :=
  match v with VTuple l | VList l => l | _ => [] end.

Definition py_listcomp (f : val -> val) (it : val) : val :=
  bind (py_iter it) (fun l => mk_list (map f (seq_of l))).

Fixpoint enum_from (i : Z) (l : list val) : list val :=
  match l with [] => [] | x :: r => VTuple [VInt i; x] :: enum_from (i + 1) r end.
Definition py_enumerate (v : val) : val :=
  bind (py_iter v) (fun l => VList (enum_from 0 (seq_of l))).
Fixpoint zip2 (a b : list val) : list val :=
  match a, b with x :: a', y :: b' => VTuple [x; y] :: zip2 a' b' | _, _ => [] end.
Definition py_zip (a b : val) : val :=
  bind (py_iter a) (fun la => bind (py_iter b) (fun lb => VList (zip2 (seq_of la) (seq_of lb)))).

Definition py_sum (v : val) : val :=
  bind (py_iter v) (fun l => fold_left (fun acc x => num_add O acc x) (seq_of l) (VInt 0)).

Definition py_min_seq (v : val) : val :=
  bind (py_iter v) (fun l =>
    match seq_of l with
    | [] => VErr ValueError
    | x :: r => if forallb is_num (x :: r)
                then fold_left (fun m y => if num_ltb O y m then y else m) r x
                else VErr Unsupported
    end).
Definition py_max_seq (v : val) : val :=
  bind (py_iter v) (fun l =>
    match seq_of l with
    | [] => VErr ValueError
    | x :: r => if forallb is_num (x :: r)
                then fold_left (fun m y => if num_ltb O m y then y else m) r x
                else VErr Unsupported
    end).

Definition math_fsum (v : val) : val :=
  bind (py_iter v) (fun l =>
    let fix go (l : list val) (acc : list F) : val :=
      match l with
      | [] => VFloat (f_fsum O (rev acc))
      | x :: r => match norm x with
                  | VInt z => go r (zf O z :: acc)
                  | VFloat f => go r (f :: acc)
                  | VErr e => VErr e
                  | _ => VErr TypeError
                  end
      end in go (seq_of l) []).

(* ------------------------------------------ datetime.date (proleptic Gregorian) *)

Definition greg_leap (y : Z) : bool :=
  (y mod 4 =? 0) && (negb (y mod 100 =? 0) || (y mod 400 =? 0)).
Definition cal_isleap (v : val) : val :=
  match norm v with
  | VInt y => VBool (greg_leap y)
  | VErr e => VErr e
  | _ => VErr TypeError
  end.

Definition days_before_month (y m : Z) : Z :=
  let cum := nth (Z.to_nat (m - 1)) [0; 31; 59; 90; 120; 151; 181; 212; 243; 273; 304; 334] 0 in
  if (2 <? m) && greg_leap y then cum + 1 else cum.
Definition days_in_month (y m : Z) : Z :=
  if (m =? 2) && greg_leap y then 29
  else nth (Z.to_nat (m - 1)) [31; 28; 31; 30; 31; 30; 31; 31; 30; 31; 30; 31] 0.
Definition days_before_year (y : Z) : Z :=
  let y1 := y - 1 in y1 * 365 + y1 / 4 - y1 / 100 + y1 / 400.

(* datetime.date(y, m, d): ints only (a float argument is a TypeError) *)
Definition date_new (y m d : val) : val :=
  match y, m, d with
  | VErr e, _, _ => VErr e
  | _, VErr e, _ => VErr e
  | _, _, VErr e => VErr e
  | _, _, _ =>
    match norm y, norm m, norm d with
    | VInt yy, VInt mm, VInt dd =>
        if (1 <=? yy) && (yy <=? 9999) && (1 <=? mm) && (mm <=? 12)
           && (1 <=? dd) && (dd <=? days_in_month yy mm)
        then VObj cDate [VInt yy; VInt mm; VInt dd] else VErr ValueError
    | _, _, _ => VErr TypeError
    end
  end.

(* datetime.datetime(y, m, d, h, mi, s, us): ints only *)
Definition datetime_new (l : list val) : val :=
  match first_err l with Some e => VErr e | None =>
  match map norm l with
  | [VInt yy; VInt mm; VInt dd; VInt h; VInt mi; VInt s; VInt us] =>
      if (1 <=? yy) && (yy <=? 9999) && (1 <=? mm) && (mm <=? 12)
         && (1 <=? dd) && (dd <=? days_in_month yy mm)
         && (0 <=? h) && (h <? 24) && (0 <=? mi) && (mi <? 60) && (0 <=? s) && (s <? 60)
         && (0 <=? us) && (us <? 1000000)
      then VObj cDateTime [VInt yy; VInt mm; VInt dd; VInt h; VInt mi; VInt s; VInt us]
      else VErr ValueError
  | _ => VErr TypeError
  end end.

Definition date_ymd (v : val) : option (Z * Z * Z) :=
  match v with
  | VObj c (VInt y :: VInt m :: VInt d :: _) =>
      if Pos.eqb c cDate || Pos.eqb c cDateTime then Some (y, m, d) else None
  | _ => None
  end.
Definition date_yday (v : val) : val :=
  match v with VErr e => VErr e | _ =>
  match date_ymd v with
  | Some (y, m, d) => VInt (days_before_month y m + d)
  | None => VErr AttributeError
  end end.
Definition date_toordinal (v : val) : val :=
  match v with VErr e => VErr e | _ =>
  match date_ymd v with
  | Some (y, m, d) => VInt (days_before_year y + days_before_month y m + d)
  | None => VErr AttributeError
  end end.

(* ordinal -> date: year by estimate and correction, month by scan *)
Definition ord2ymd (n : Z) : Z * Z * Z :=
  let y0 := (n - 1) * 400 / 146097 + 1 in
  let y := if days_before_year (y0 + 1) <? n then y0 + 1
           else if n <=? days_before_year y0 then y0 - 1 else y0 in
  let doy := n - days_before_year y in
  let m := fold_left (fun acc mm => if days_before_month y mm <? doy then mm else acc)
                     [1; 2; 3; 4; 5; 6; 7; 8; 9; 10; 11; 12] 1 in
  (y, m, doy - days_before_month y m).
Definition date_fromordinal (v : val) : val :=
  match norm v with
  | VErr e => VErr e
  | VInt n => if (1 <=? n) && (n <=? 3652059)
              then let '(y, m, d) := ord2ymd n in VObj cDate [VInt y; VInt m; VInt d]
              else VErr ValueError
  | _ => VErr TypeError
  end.

End B.
