(* Ideal: the real-arithmetic instance of FloatOps.  The SAME generated model text
   that is executed on binary64 (B64.v) is read here over Coq's classical reals:
   + - * / sqrt and the libm functions are the mathematical functions, comparisons
   are decided classically, literals are exact decimal rationals, floor/round are
   the mathematical ones.  Nothing here is executable; theorems about this
   instance say what the code computes when rounding is ignored. *)
From Coq Require Import Reals ZArith List Bool Lra Lia.
From Coq Require PrimFloat.
From PyLib Require Import PyVal.
Import ListNotations.
Open Scope R_scope.

Definition Rltb (x y : R) : bool := if Rlt_dec x y then true else false.
Definition Rleb (x y : R) : bool := if Rle_dec x y then true else false.
Definition Reqb (x y : R) : bool := if Req_EM_T x y then true else false.

Lemma Rltb_true x y : Rltb x y = true <-> x < y.
Proof. unfold Rltb; destruct (Rlt_dec x y); split; intro; try discriminate; try lra; reflexivity. Qed.
Lemma Rltb_false x y : Rltb x y = false <-> y <= x.
Proof. unfold Rltb; destruct (Rlt_dec x y); split; intro; try discriminate; try lra; reflexivity. Qed.
Lemma Rleb_true x y : Rleb x y = true <-> x <= y.
Proof. unfold Rleb; destruct (Rle_dec x y); split; intro; try discriminate; try lra; reflexivity. Qed.
Lemma Rleb_false x y : Rleb x y = false <-> y < x.
Proof. unfold Rleb; destruct (Rle_dec x y); split; intro; try discriminate; try lra; reflexivity. Qed.
Lemma Reqb_true x y : Reqb x y = true <-> x = y.
Proof. unfold Reqb; destruct (Req_EM_T x y); split; intro; try discriminate; try contradiction; auto. Qed.
Lemma Reqb_false x y : Reqb x y = false <-> x <> y.
Proof. unfold Reqb; destruct (Req_EM_T x y); split; intro; try discriminate; try contradiction; auto. Qed.

(* floor: Int_part x <= x < Int_part x + 1 *)
Definition Rfloor (x : R) : Z := Int_part x.
Lemma Rfloor_spec x : IZR (Rfloor x) <= x < IZR (Rfloor x) + 1.
Proof.
  unfold Rfloor, Int_part. destruct (archimed x) as [H1 H2].
  rewrite minus_IZR. simpl. lra.
Qed.
Lemma Rfloor_unique x z : IZR z <= x < IZR z + 1 -> Rfloor x = z.
Proof.
  intros [H1 H2]. destruct (Rfloor_spec x) as [H3 H4].
  assert (IZR z < IZR (Rfloor x) + 1) by lra.
  assert (IZR (Rfloor x) < IZR z + 1) by lra.
  rewrite <- plus_IZR in *. apply lt_IZR in H, H0. lia.
Qed.
Lemma Rfloor_IZR z : Rfloor (IZR z) = z.
Proof. apply Rfloor_unique. lra. Qed.

Definition Rtrunc (x : R) : Z := if Rlt_dec x 0 then (- Rfloor (- x))%Z else Rfloor x.
(* C fmod: x - y * trunc (x / y), sign of x *)
Definition Rfmod (x y : R) : R := x - y * IZR (Rtrunc (x / y)).

(* round half to even *)
Definition Rround (x : R) : Z :=
  let fl := Rfloor x in
  let d := x - IZR fl in
  if Rlt_dec d (1/2) then fl
  else if Rlt_dec (1/2) d then (fl + 1)%Z
  else if Z.even fl then fl else (fl + 1)%Z.

Definition pow10 (n : Z) : R := if (0 <=? n)%Z then IZR (10 ^ n) else / IZR (10 ^ (- n)).
Definition Rround_nd (x : R) (n : Z) : R := IZR (Rround (x * pow10 n)) / pow10 n.

(* decimal literal m * 10^e, exactly *)
Definition Rlit (m e : Z) : R :=
  if (0 <=? e)%Z then IZR (m * 10 ^ e) else IZR m / IZR (10 ^ (- e)).

(* atan2 y x in (-PI, PI] (Coq 8.16 has none) *)
Definition atan2 (y x : R) : R :=
  if Rlt_dec 0 x then atan (y / x)
  else if Rlt_dec x 0 then (if Rle_dec 0 y then atan (y / x) + PI else atan (y / x) - PI)
  else if Rlt_dec 0 y then PI / 2
  else if Rlt_dec y 0 then - (PI / 2) else 0.

(* Python/C pow on the reals: x^y for x > 0; integer exponents for x <= 0 *)
Definition is_int (y : R) : bool := Reqb (IZR (Rfloor y)) y.
Definition Rpow (x y : R) : R :=
  if Rlt_dec 0 x then Rpower x y
  else if is_int y then powerRZ x (Rfloor y)
  else 0.

Definition Rlibm (fn : libm_fn) (args : list R) : R :=
  match fn, args with
  | Lsin, [x] => sin x
  | Lcos, [x] => cos x
  | Ltan, [x] => tan x
  | Lasin, [x] => asin x
  | Lacos, [x] => acos x
  | Latan, [x] => atan x
  | Latan2, [y; x] => atan2 y x
  | Lpow, [x; y] => Rpow x y
  | Lexp, [x] => exp x
  | Llog, [x] => ln x
  | Llog10, [x] => ln x / ln 10
  | _, _ => 0
  end.

Definition Rdom (fn : libm_fn) (args : list R) : bool :=
  match fn, args with
  | Lasin, [x] | Lacos, [x] => Rleb (-1) x && Rleb x 1
  | Llog, [x] | Llog10, [x] => Rltb 0 x
  | _, _ => true
  end.

Definition RopsC (call : val R -> list (val R) -> val R) : FloatOps R := {|
  f_of_Z := IZR;
  f_add := Rplus;
  f_sub := Rminus;
  f_mul := Rmult;
  f_div := Rdiv;
  f_neg := Ropp;
  f_abs := Rabs;
  f_sqrt := sqrt;
  f_ltb := Rltb;
  f_leb := Rleb;
  f_eqb := Reqb;
  f_floor := Rfloor;
  f_trunc := Rtrunc;
  f_fmod := Rfmod;
  f_finite := fun _ => true;
  f_isnan := fun _ => false;
  f_lit := fun m e _ => Rlit m e;
  f_libm := Rlibm;
  f_round := Rround;
  f_round_nd := Rround_nd;
  f_signbit := fun x => Rltb x 0;
  f_pi := PI;
  f_deg2rad := PI / 180;
  f_rad2deg := 180 / PI;
  f_fsum := fun l => fold_right Rplus 0 l;
  f_dom := Rdom;
  f_call := call;
  f_repr := fun _ => String.EmptyString
|}.

Definition Rops : FloatOps R := RopsC (fun _ _ => VErr Unsupported).

(* Reduction of the generated model in this instance: unfold everything except the
   real-number vocabulary.  [ideal_cbv] leaves a term over Rplus, sin, Rltb ... *)
Ltac ideal_cbv :=
  cbv -[Rplus Rminus Rmult Rdiv Rinv Ropp Rabs sqrt sin cos tan asin acos atan atan2 exp ln
        Rpower powerRZ Rpow PI IZR Rltb Rleb Reqb Rfloor Rtrunc Rfmod Rround Rround_nd Rlit
        pow10 is_int].
Ltac ideal_cbv_in H :=
  cbv -[Rplus Rminus Rmult Rdiv Rinv Ropp Rabs sqrt sin cos tan asin acos atan atan2 exp ln
        Rpower powerRZ Rpow PI IZR Rltb Rleb Reqb Rfloor Rtrunc Rfmod Rround Rround_nd Rlit
        pow10 is_int] in H.

(* literals: Rlit m e as a plain rational *)
Lemma Rlit_nonneg m e : (0 <= e)%Z -> Rlit m e = IZR (m * 10 ^ e).
Proof. intro H. unfold Rlit. apply Z.leb_le in H. rewrite H. reflexivity. Qed.
Lemma Rlit_neg m e : (e < 0)%Z -> Rlit m e = IZR m / IZR (10 ^ (- e)).
Proof. intro H. unfold Rlit. apply Z.leb_gt in H. rewrite H. reflexivity. Qed.
Ltac Rlit_simpl := unfold Rlit; simpl Z.leb; cbv iota; simpl Z.pow; simpl Z.mul; simpl Z.opp.
