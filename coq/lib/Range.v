(* Range: bounded universal quantification over Z by computation, and its lifting lemma. *)
From Coq Require Import ZArith NArith List Bool Lia.
Import ListNotations.
Open Scope Z_scope.

Definition range_step (f : Z -> bool) (p : Z * bool) : Z * bool :=
  (fst p + 1, snd p && f (fst p)).
Definition range_state (lo : Z) (n : N) (f : Z -> bool) : Z * bool :=
  N.iter n (range_step f) (lo, true).
(* f holds on lo, lo+1, ..., lo+n-1 *)
Definition all_range (lo : Z) (n : N) (f : Z -> bool) : bool := snd (range_state lo n f).

Lemma range_state_spec lo f : forall n,
  fst (range_state lo n f) = lo + Z.of_N n /\
  (snd (range_state lo n f) = true -> forall k, lo <= k < lo + Z.of_N n -> f k = true).
Proof.
  intro n. induction n as [|n IH] using N.peano_ind.
  - unfold range_state; simpl. split; [lia | intros _ k Hk; lia].
  - unfold range_state in *. rewrite N.iter_succ.
    destruct IH as [IH1 IH2].
    set (st := N.iter n (range_step f) (lo, true)) in *.
    unfold range_step at 1; simpl. split.
    + rewrite IH1. lia.
    + intros H k Hk. apply andb_true_iff in H. destruct H as [Ha Hb].
      destruct (Z.eq_dec k (lo + Z.of_N n)) as [->|Hne].
      * rewrite <- IH1. exact Hb.
      * apply IH2; [exact Ha | lia].
Qed.

Theorem all_range_spec lo n f :
  all_range lo n f = true -> forall k, lo <= k < lo + Z.of_N n -> f k = true.
Proof. unfold all_range. intro H. apply (proj2 (range_state_spec lo f n) H). Qed.

(* small list ranges, for inner loops *)
Fixpoint zrange (lo : Z) (n : nat) : list Z :=
  match n with O => [] | S k => lo :: zrange (lo + 1) k end.
Lemma zrange_In : forall n lo k, lo <= k < lo + Z.of_nat n -> In k (zrange lo n).
Proof.
  induction n as [|n IH]; intros lo k Hk; simpl in *; [lia|].
  destruct (Z.eq_dec k lo) as [->|Hne]; [left; reflexivity|right; apply IH; lia].
Qed.
Lemma forallb_zrange f lo n :
  forallb f (zrange lo n) = true -> forall k, lo <= k < lo + Z.of_nat n -> f k = true.
Proof. intros H k Hk. rewrite forallb_forall in H. apply H, zrange_In, Hk. Qed.
