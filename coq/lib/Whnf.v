(* Whnf: true weak-head normalisation of the left-hand side of an equation, in Ltac2.
   Coq 8.16's [hnf] refolds a constant whose unfolding does not end in a
   constructor, and cbv/lazy/cbn are strong (they normalise the branches of a
   stuck match, which explodes on the generated model).  Here: one delta step at
   the head-stuck position (following application heads, match scrutinees, the
   recursive argument of a fix, a head let), then strong beta-iota WITHOUT delta
   or zeta (cheap: nothing is unfolded), repeated until the head is a
   constructor or the head-stuck constant is opaque (bind, the real-number
   vocabulary, a variable).  Only conversion is used: the result is installed
   with [change], so the kernel re-checks it. *)
From Ltac2 Require Import Ltac2 Constr Std.
From Ltac2 Require Array Control Option List Ident.

Ltac2 bi_flags : red_flags := {
  rBeta := true; rMatch := true; rFix := true; rCofix := false;
  rZeta := false; rDelta := false; rConst := []
}.

(* constants that are never unfolded (set by the client: the real-number
   vocabulary and [bind]) *)
Ltac2 mutable is_blocked : constr -> bool := fun _ => false.

Ltac2 try_unfold_const (c : constant) (t : constr) : constr option :=
  if is_blocked t then None else
  Control.once (fun () => Control.plus
    (fun () => let t' := eval_unfold [(ConstRef c, AllOccurrences)] t in
               if Constr.equal t t' then None else Some t')
    (fun _ => None)).

(* a context variable without a body (a hypothesis / universally quantified value) is
   stuck for good; unfolding it would raise "x is opaque", which is not a backtrackable
   failure *)
Ltac2 var_has_body (x : ident) : bool :=
  List.exist (fun (id, body, _) =>
                match body with
                | Some _ => Ident.equal id x
                | None => false
                end) (Control.hyps ()).

Ltac2 try_unfold_var (x : ident) (t : constr) : constr option :=
  if var_has_body x then
  Control.once (fun () => Control.plus
    (fun () => let t' := eval_unfold [(VarRef x, AllOccurrences)] t in
               if Constr.equal t t' then None else Some t')
    (fun _ => None))
  else None.

(* one delta/zeta step at the head-stuck position; None if stuck for good *)
Ltac2 rec head_step (t : constr) : constr option :=
  match Unsafe.kind t with
  | Unsafe.App f args =>
      match Unsafe.kind f with
      | Unsafe.Fix recs i _ _ =>
          let n := Array.get recs i in
          if Int.lt n (Array.length args) then
            match head_step (Array.get args n) with
            | Some a' =>
                let args' := Array.copy args in
                Array.set args' n a';
                Some (Unsafe.make (Unsafe.App f args'))
            | None => None
            end
          else None
      | _ =>
          match head_step f with
          | Some f' => Some (Unsafe.make (Unsafe.App f' args))
          | None => None
          end
      end
  | Unsafe.Case ci p iv s brs =>
      match head_step s with
      | Some s' => Some (Unsafe.make (Unsafe.Case ci p iv s' brs))
      | None => None
      end
  | Unsafe.Constant c _ => try_unfold_const c t
  | Unsafe.Var x => try_unfold_var x t
  | Unsafe.LetIn _ v body => Some (Unsafe.substnl [v] 0 body)
  | Unsafe.Cast c _ _ => Some c
  | Unsafe.Proj p c =>
      match head_step c with
      | Some c' => Some (Unsafe.make (Unsafe.Proj p c'))
      | None => None
      end
  | _ => None
  end.

Ltac2 rec whnf_term (fuel : int) (t : constr) : constr :=
  if Int.le fuel 0 then t else
  let t := eval_cbv bi_flags t in
  match head_step t with
  | Some t' => whnf_term (Int.sub fuel 1) t'
  | None => t
  end.

(* weak-head normalise the spine of a list (elements untouched) *)
Ltac2 rec spine_term (t : constr) : constr :=
  let t := whnf_term 100000 t in
  lazy_match! t with
  | @cons ?a ?x ?r => let r' := spine_term r in constr:(@cons $a $x $r')
  | _ => t
  end.

(* whnf, and if the head is a constructor applied to a list (VTuple, VList, VObj),
   the spine of that list too *)
Ltac2 whnf_val (t : constr) : constr :=
  let t := whnf_term 100000 t in
  match Unsafe.kind t with
  | Unsafe.App f args =>
      match Unsafe.kind f with
      | Unsafe.Constructor _ _ =>
          let n := Array.length args in
          if Int.lt 0 n then
            let last := Array.get args (Int.sub n 1) in
            let ty := Constr.type last in
            lazy_match! ty with
            | list _ =>
                let args' := Array.copy args in
                Array.set args' (Int.sub n 1) (spine_term last);
                Unsafe.make (Unsafe.App f args')
            | _ => t
            end
          else t
      | _ => t
      end
  | _ => t
  end.

(* the subterm at the head-stuck position of a weak-head normal term *)
Ltac2 rec stuck_of (t : constr) : constr :=
  match Unsafe.kind t with
  | Unsafe.App f args =>
      match Unsafe.kind f with
      | Unsafe.Fix recs i _ _ =>
          let n := Array.get recs i in
          if Int.lt n (Array.length args) then stuck_of (Array.get args n) else t
      | Unsafe.Constant _ _ => t
      | Unsafe.Var _ => t
      | Unsafe.Constructor _ _ => t
      | _ => stuck_of f
      end
  | Unsafe.Case _ _ _ s _ => stuck_of s
  | Unsafe.Proj _ c => stuck_of c
  | _ => t
  end.

(* goal [l = r] with l weak-head normal: add [py_stuck := <head-stuck subterm of l>] *)
Ltac2 pose_stuck () :=
  lazy_match! goal with
  | [ |- ?l = _ ] =>
      let s := stuck_of l in
      Std.pose (Some @py_stuck) s
  end.
Ltac pose_stuck := ltac2:(Control.once pose_stuck).

(* goal [l = r]: replace l by its weak-head normal form *)
Ltac2 whnf_lhs2 () :=
  lazy_match! goal with
  | [ |- ?l = ?r ] =>
      let l' := whnf_val l in
      let ty := Constr.type l in
      change (@eq $ty $l' $r)
  end.

Ltac whnf_lhs2 := ltac2:(Control.once whnf_lhs2).
