(* Computus: Easter by the tabular (epact / golden number) definition.
   Julian calendar: the Dionysian table of Paschal full moons indexed by golden number.
   Gregorian calendar: Lilius/Clavius epact with solar and lunar corrections
   (as in Knuth, TAOCP 1.3.2 ex. 14).  Easter is the first Sunday strictly after the
   Paschal full moon; the weekday comes from the day count of CalSpec, not from a formula. *)
From Coq Require Import ZArith List Bool.
From Spec Require Import CalSpec.
Import ListNotations.
Open Scope Z_scope.

Definition golden (y : Z) : Z := y mod 19 + 1.

(* Paschal full moon as a day of March (32 = 1 April, ...), Julian calendar *)
Definition pfm_julian (y : Z) : Z :=
  nth (Z.to_nat (golden y - 1))
      [36; 25; 44; 33; 22; 41; 30; 49; 38; 27; 46; 35; 24; 43; 32; 21; 40; 29; 48] 0.

(* Gregorian epact and Paschal full moon (day of March) *)
Definition epact_greg (y : Z) : Z :=
  let g := golden y in
  let c := y / 100 + 1 in
  let x := 3 * c / 4 - 12 in            (* solar correction: dropped leap days *)
  let z := (8 * c + 5) / 25 - 5 in      (* lunar correction *)
  let e := (11 * g + 20 + z - x) mod 30 in
  if ((e =? 25) && (11 <? g)) || (e =? 24) then e + 1 else e.
Definition pfm_greg (y : Z) : Z :=
  let n := 44 - epact_greg y in if n <? 21 then n + 30 else n.

(* (month, day) of "March n" *)
Definition march_day (n : Z) : Z * Z := if n <=? 31 then (3, n) else (4, n - 31).

(* first Sunday strictly after March n of year y; weekday 0 = Sunday *)
Definition sunday_after (y n : Z) : Z :=
  let '(m, d) := march_day n in
  n + 7 - weekday y m d.

Definition easter_spec (y : Z) : Z * Z :=
  march_day (sunday_after y (if y <? 1583 then pfm_julian y else pfm_greg y)).

Example easter_1991 : easter_spec 1991 = (3, 31). Proof. reflexivity. Qed.
Example easter_1818 : easter_spec 1818 = (3, 22). Proof. reflexivity. Qed.
Example easter_1943 : easter_spec 1943 = (4, 25). Proof. reflexivity. Qed.
Example easter_2000 : easter_spec 2000 = (4, 23). Proof. reflexivity. Qed.
Example easter_1954 : easter_spec 1954 = (4, 18). Proof. reflexivity. Qed.
Example easter_179 : easter_spec 179 = (4, 12). Proof. reflexivity. Qed.
Example easter_1243 : easter_spec 1243 = (4, 12). Proof. reflexivity. Qed.
Example easter_2038 : easter_spec 2038 = (4, 25). Proof. reflexivity. Qed.
