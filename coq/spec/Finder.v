(* Finder: the arithmetic skeleton of Meeus' periodic-term event finders (ch. 36),
   written independently of the code.  An event series has mean instants
   jde0 k = A + k B (k any integer); the finder picks
        k(y) = round ((365.2425 y + 1721060 - A) / B)
   from the query's decimal year y and returns  res k = jde0 k + cr k  where the
   periodic correction stays within C of a constant c0.  Proved here, for ALL real
   y and ALL integers k:
     - k(y) is non-decreasing in y and takes every integer value, and between two
       queries every intermediate integer is taken by a query in between
       (no event skipped, none repeated out of order);
     - if 2C < B the results are strictly increasing in k and consecutive results are
       B - 2C .. B + 2C apart;
     - the mean instant is within B/2 of the query's (Gregorian mean year) instant, so
       the result is within B/2 + D + |c0| + C of a query JDE that is within D of it. *)
From Coq Require Import Reals ZArith Lra Lia.
From PyLib Require Import Ideal.
Open Scope R_scope.

Lemma Rround_near x : IZR (Rround x) - 1 / 2 <= x <= IZR (Rround x) + 1 / 2.
Proof.
  unfold Rround. destruct (Rfloor_spec x) as [H1 H2].
  destruct (Rlt_dec (x - IZR (Rfloor x)) (1 / 2)); [lra |].
  destruct (Rlt_dec (1 / 2) (x - IZR (Rfloor x))).
  - rewrite plus_IZR. lra.
  - destruct (Z.even (Rfloor x)); [lra | rewrite plus_IZR; lra].
Qed.

Lemma Rround_mono x y : x <= y -> (Rround x <= Rround y)%Z.
Proof.
  intros [Hlt | ->]; [| lia].
  pose proof (Rround_near x) as [Hx _]. pose proof (Rround_near y) as [_ Hy].
  assert (H : IZR (Rround x) < IZR (Rround y) + 1) by lra.
  rewrite <- plus_IZR in H. apply lt_IZR in H. lia.
Qed.

Lemma Rround_IZR n : Rround (IZR n) = n.
Proof.
  unfold Rround. rewrite Rfloor_IZR.
  destruct (Rlt_dec (IZR n - IZR n) (1 / 2)); [reflexivity | lra].
Qed.

Lemma Rabs_le_inv x a : Rabs x <= a -> - a <= x <= a.
Proof. unfold Rabs. destruct (Rcase_abs x); lra. Qed.

Section Finder.
  Variables A B : R.
  Hypothesis HB : 0 < B.

  Definition yinst (y : R) : R := 3652425 / 10000 * y + 1721060.
  Definition kof (y : R) : Z := Rround ((yinst y - A) / B).
  Definition jde0 (k : Z) : R := A + IZR k * B.
  Definition tof (k : Z) : R := (jde0 k - 2451545) / 36525.

  Lemma kof_mono y1 y2 : y1 <= y2 -> (kof y1 <= kof y2)%Z.
  Proof.
    intro H. apply Rround_mono. unfold yinst.
    apply Rmult_le_compat_r; [left; apply Rinv_0_lt_compat; exact HB | lra].
  Qed.

  (* the query year whose mean-year instant is exactly the k-th mean event *)
  Definition yof (k : Z) : R := (jde0 k - 1721060) * 10000 / 3652425.

  Lemma kof_yof k : kof (yof k) = k.
  Proof.
    unfold kof, yof, yinst, jde0.
    replace ((3652425 / 10000 * ((A + IZR k * B - 1721060) * 10000 / 3652425) + 1721060 - A) / B)
      with (IZR k) by (field; lra).
    apply Rround_IZR.
  Qed.

  Lemma kof_onto k : exists y, kof y = k.
  Proof. exists (yof k). apply kof_yof. Qed.

  (* no event is skipped: every index strictly between those of two queries belongs to a
     query strictly between them *)
  Lemma kof_between y1 y2 k : (kof y1 < k < kof y2)%Z -> exists y, y1 < y < y2 /\ kof y = k.
  Proof.
    intros [H1 H2]. exists (yof k). split; [| apply kof_yof].
    split.
    - destruct (Rlt_dec y1 (yof k)) as [? | Hn]; [assumption |].
      assert (Hle : yof k <= y1) by lra. apply kof_mono in Hle. rewrite kof_yof in Hle. lia.
    - destruct (Rlt_dec (yof k) y2) as [? | Hn]; [assumption |].
      assert (Hle : y2 <= yof k) by lra. apply kof_mono in Hle. rewrite kof_yof in Hle. lia.
  Qed.

  Lemma jde0_near y : Rabs (jde0 (kof y) - yinst y) <= B / 2.
  Proof.
    unfold jde0, kof. pose proof (Rround_near ((yinst y - A) / B)) as [H1 H2].
    set (k := IZR (Rround ((yinst y - A) / B))) in *.
    assert (E : yinst y - A = (yinst y - A) / B * B) by (field; lra).
    apply Rabs_le. split.
    - assert ((yinst y - A) / B * B <= (k + 1 / 2) * B) by (apply Rmult_le_compat_r; lra). lra.
    - assert ((k - 1 / 2) * B <= (yinst y - A) / B * B) by (apply Rmult_le_compat_r; lra). lra.
  Qed.

  (* the epoch argument T (Julian centuries from J2000) of the periodic terms stays in
     [-41, 21] for queries in -2000..4000 when the period is at most 800 days *)
  Lemma tof_range y : B <= 800 -> -2000 <= y <= 4000 -> -41 <= tof (kof y) <= 21.
  Proof.
    intros HB8 Hy. pose proof (jde0_near y) as H. apply Rabs_le_inv in H.
    unfold tof. unfold yinst in H. split.
    - apply Rmult_le_reg_r with 36525; [lra |]. unfold Rdiv. rewrite Rmult_assoc, Rinv_l by lra. lra.
    - apply Rmult_le_reg_r with 36525; [lra |]. unfold Rdiv. rewrite Rmult_assoc, Rinv_l by lra. lra.
  Qed.

  (* results: mean instant + a correction within C of the constant c0 on the T-range *)
  Variable cr : Z -> R.
  Variables c0 C : R.
  Hypothesis Hcr : forall k, -41 <= tof k <= 21 -> Rabs (cr k - c0) <= C.
  Hypothesis HC : 2 * C < B.
  Hypothesis HB8 : B <= 800.

  Definition res (k : Z) : R := jde0 k + cr k.

  Lemma res_gap k1 k2 : -41 <= tof k1 <= 21 -> -41 <= tof k2 <= 21 -> (k1 < k2)%Z ->
    IZR (k2 - k1) * B - 2 * C <= res k2 - res k1 <= IZR (k2 - k1) * B + 2 * C.
  Proof.
    intros T1 T2 Hk. pose proof (Hcr k1 T1) as E1. pose proof (Hcr k2 T2) as E2.
    apply Rabs_le_inv in E1, E2. unfold res, jde0. rewrite minus_IZR. lra.
  Qed.

  (* consecutive events are one period apart within +-2C, and strictly ordered *)
  Lemma res_step k : -41 <= tof k <= 21 -> -41 <= tof (k + 1) <= 21 ->
    B - 2 * C <= res (k + 1) - res k <= B + 2 * C /\ res k < res (k + 1).
  Proof.
    intros T1 T2. pose proof (res_gap k (k + 1) T1 T2 ltac:(lia)) as H.
    replace (k + 1 - k)%Z with 1%Z in H by lia. split; lra.
  Qed.

  Lemma res_incr k1 k2 : -41 <= tof k1 <= 21 -> -41 <= tof k2 <= 21 -> (k1 < k2)%Z ->
    res k1 + (B - 2 * C) <= res k2.
  Proof.
    intros T1 T2 Hk. pose proof (res_gap k1 k2 T1 T2 Hk) as H.
    assert (1 <= IZR (k2 - k1)) by (apply IZR_le; lia).
    assert (B <= IZR (k2 - k1) * B) by nra. lra.
  Qed.

  (* in terms of the query year *)
  Definition found (y : R) : R := res (kof y).

  Theorem found_monotone y1 y2 : -2000 <= y1 -> y1 <= y2 -> y2 <= 4000 ->
    found y1 <= found y2 /\
    (kof y1 = kof y2 \/ found y1 + (B - 2 * C) <= found y2).
  Proof.
    intros H1 H12 H2. pose proof (kof_mono y1 y2 H12) as Hk.
    assert (T1 : -41 <= tof (kof y1) <= 21) by (apply tof_range; lra).
    assert (T2 : -41 <= tof (kof y2) <= 21) by (apply tof_range; lra).
    destruct (Z.eq_dec (kof y1) (kof y2)) as [E | N].
    - unfold found. rewrite E. split; [lra | left; reflexivity].
    - pose proof (res_incr _ _ T1 T2 ltac:(lia)) as H. unfold found. split; [lra | right; lra].
  Qed.

  Theorem found_next y1 y2 : -2000 <= y1 <= 4000 -> -2000 <= y2 <= 4000 ->
    kof y2 = (kof y1 + 1)%Z ->
    B - 2 * C <= found y2 - found y1 <= B + 2 * C.
  Proof.
    intros H1 H2 E.
    assert (T1 : -41 <= tof (kof y1) <= 21) by (apply tof_range; lra).
    assert (T2 : -41 <= tof (kof y2) <= 21) by (apply tof_range; lra).
    unfold found. rewrite E in *. apply res_step; assumption.
  Qed.

  (* the result lies within B/2 + D + |c0| + C of a query instant J that is within D of the
     query's mean-year instant *)
  Theorem found_near y J D : -2000 <= y <= 4000 -> Rabs (yinst y - J) <= D ->
    Rabs (found y - J) <= B / 2 + D + Rabs c0 + C.
  Proof.
    intros Hy HD.
    assert (T : -41 <= tof (kof y) <= 21) by (apply tof_range; lra).
    pose proof (Hcr _ T) as E. pose proof (jde0_near y) as N.
    unfold found, res.
    replace (jde0 (kof y) + cr (kof y) - J)
      with ((jde0 (kof y) - yinst y) + (yinst y - J) + (cr (kof y) - c0) + c0) by ring.
    eapply Rle_trans; [apply Rabs_triang |].
    eapply Rle_trans; [apply Rplus_le_compat_r; apply Rabs_triang |].
    eapply Rle_trans; [apply Rplus_le_compat_r; apply Rplus_le_compat_r; apply Rabs_triang |].
    lra.
  Qed.
End Finder.
