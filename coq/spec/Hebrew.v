(* Hebrew: the arithmetic Hebrew calendar (molad + the four postponements), after
   Dershowitz & Reingold.  rosh_hashanah_jdn h = Julian Day Number of 1 Tishri AM h.
   Pesach (15 Nisan) of AM h falls 163 days before 1 Tishri of AM h+1. *)
From Coq Require Import ZArith List Bool.
From Spec Require Import CalSpec.
Import ListNotations.
Open Scope Z_scope.

Definition hebrew_leap (h : Z) : bool := (7 * h + 1) mod 19 <? 7.

(* days from the Hebrew epoch to the molad-based new year of AM h, with the
   "molad zaken" and weekday postponements *)
Definition hebrew_elapsed (h : Z) : Z :=
  let months := (235 * h - 234) / 19 in
  let parts := 12084 + 13753 * months in
  let day := 29 * months + parts / 25920 in
  if (3 * (day + 1)) mod 7 <? 3 then day + 1 else day.

(* the two remaining postponements, which depend on the lengths of adjacent years *)
Definition hebrew_newyear_delay (h : Z) : Z :=
  let ny0 := hebrew_elapsed (h - 1) in
  let ny1 := hebrew_elapsed h in
  let ny2 := hebrew_elapsed (h + 1) in
  if ny2 - ny1 =? 356 then 2
  else if ny1 - ny0 =? 382 then 1 else 0.

(* JDN of the Hebrew epoch, 1 Tishri AM 1 = Monday 7 October 3761 BCE (Julian) *)
Definition hebrew_epoch : Z := 347998.
Example hebrew_epoch_date : jdn (-3760) 10 7 = hebrew_epoch. Proof. reflexivity. Qed.
Definition rosh_hashanah_jdn (h : Z) : Z :=
  hebrew_epoch + hebrew_elapsed h + hebrew_newyear_delay h.

Definition pesach_jdn (y : Z) : Z := rosh_hashanah_jdn (y + 3761) - 163.

(* Rosh Hashanah 5751 was 20 Sep 1990; Pesach 1990 was 10 April 1990 *)
Example rh_5751 : rosh_hashanah_jdn 5751 = jdn 1990 9 20. Proof. reflexivity. Qed.
Example pesach_1990 : pesach_jdn 1990 = jdn 1990 4 10. Proof. reflexivity. Qed.
Example rh_5784 : rosh_hashanah_jdn 5784 = jdn 2023 9 16. Proof. reflexivity. Qed.
Example pesach_2024 : pesach_jdn 2024 = jdn 2024 4 23. Proof. reflexivity. Qed.
Example pesach_2000 : pesach_jdn 2000 = jdn 2000 4 20. Proof. reflexivity. Qed.
