(* AngleSpec: what "an angle reduced to (-360, 360) keeping its sign" and "the
   positive form in [0, 360)" mean, over the reals, independent of the code. *)
From Coq Require Import Reals ZArith Lra Lia.
Open Scope R_scope.

(* floor on the reals, defined here independently of the model library *)
Definition fl (x : R) : Z := Int_part x.
Lemma fl_spec x : IZR (fl x) <= x < IZR (fl x) + 1.
Proof.
  unfold fl, Int_part. destruct (archimed x) as [H1 H2].
  rewrite minus_IZR. simpl. lra.
Qed.

Definition sgn (x : R) : R := if Rle_dec 0 x then 1 else -1.

(* symmetric reduction: sign(x) * (|x| mod 360) *)
Definition red360 (x : R) : R :=
  if Rlt_dec (Rabs x) 360 then x
  else sgn x * (Rabs x - 360 * IZR (fl (Rabs x / 360))).

(* congruence modulo 360 degrees *)
Definition cong360 (x y : R) : Prop := exists k : Z, x = y + 360 * IZR k.

Lemma cong360_refl x : cong360 x x.
Proof. exists 0%Z. simpl. lra. Qed.
Lemma cong360_sym x y : cong360 x y -> cong360 y x.
Proof. intros [k H]. exists (- k)%Z. rewrite opp_IZR. lra. Qed.
Lemma cong360_trans x y z : cong360 x y -> cong360 y z -> cong360 x z.
Proof. intros [k H] [j G]. exists (k + j)%Z. rewrite plus_IZR. lra. Qed.

Lemma mod360_bounds a : 0 <= a -> 0 <= a - 360 * IZR (fl (a / 360)) < 360.
Proof.
  intro Ha. pose proof (fl_spec (a / 360)) as [H1 H2].
  assert (a = 360 * (a / 360)) as E by field.
  split; lra.
Qed.

Lemma red360_small x : Rabs x < 360 -> red360 x = x.
Proof. intro H. unfold red360. destruct (Rlt_dec (Rabs x) 360); [reflexivity | lra]. Qed.

Lemma red360_nonneg_big x : 360 <= x -> red360 x = x - 360 * IZR (fl (x / 360)).
Proof.
  intro H. unfold red360, sgn. rewrite Rabs_right by lra.
  destruct (Rlt_dec x 360); [lra|]. destruct (Rle_dec 0 x); [ring | lra].
Qed.

Lemma red360_neg_big x : x <= -360 -> red360 x = - (- x - 360 * IZR (fl (- x / 360))).
Proof.
  intro H. unfold red360, sgn. rewrite Rabs_left by lra.
  destruct (Rlt_dec (- x) 360); [lra|]. destruct (Rle_dec 0 x); [lra | ring].
Qed.

(* strictly inside (-360, 360) *)
Theorem red360_range x : -360 < red360 x < 360.
Proof.
  unfold red360. destruct (Rlt_dec (Rabs x) 360) as [H|H].
  - unfold Rabs in H. destruct (Rcase_abs x); lra.
  - pose proof (mod360_bounds (Rabs x) (Rabs_pos x)) as B.
    unfold sgn. destruct (Rle_dec 0 x); lra.
Qed.

(* the sign of the input (or zero) *)
Theorem red360_sign x : (0 <= x -> 0 <= red360 x) /\ (x <= 0 -> red360 x <= 0).
Proof.
  unfold red360. destruct (Rlt_dec (Rabs x) 360) as [H|H]; [lra|].
  pose proof (mod360_bounds (Rabs x) (Rabs_pos x)) as B.
  unfold sgn. destruct (Rle_dec 0 x); split; intro; try lra.
  assert (x = 0) by lra. subst. rewrite Rabs_R0 in H. lra.
Qed.

(* congruent to the input modulo 360 *)
Theorem red360_cong x : cong360 x (red360 x).
Proof.
  unfold red360. destruct (Rlt_dec (Rabs x) 360) as [H|H]; [apply cong360_refl|].
  unfold sgn. destruct (Rle_dec 0 x).
  - exists (fl (Rabs x / 360)). rewrite Rabs_right by lra. lra.
  - exists (- fl (Rabs x / 360))%Z. rewrite opp_IZR. rewrite Rabs_left by lra. lra.
Qed.

Theorem red360_idem x : red360 (red360 x) = red360 x.
Proof. apply red360_small. pose proof (red360_range x). unfold Rabs. destruct (Rcase_abs _); lra. Qed.

(* a value congruent to x strictly inside (-360,360) with the sign of x is red360 x *)
Theorem red360_unique x v : -360 < v < 360 -> cong360 x v ->
  (0 <= x -> 0 <= v) -> (x <= 0 -> v <= 0) -> v = red360 x.
Proof.
  intros Hv [k Hk] Hp Hn.
  pose proof (red360_range x) as Rr. pose proof (red360_sign x) as [Sp Sn].
  destruct (red360_cong x) as [j Hj].
  assert (v - red360 x = 360 * IZR (j - k)) as E by (rewrite minus_IZR; lra).
  destruct (Rle_dec 0 x) as [P|P].
  - specialize (Hp P). specialize (Sp P).
    assert (-1 < IZR (j - k) < 1) as B by lra.
    destruct B as [B1 B2]. apply lt_IZR in B1, B2. assert (j - k = 0)%Z as Z0 by lia.
    rewrite Z0 in E. simpl in E. lra.
  - assert (x <= 0) as N by lra. specialize (Hn N). specialize (Sn N).
    assert (-1 < IZR (j - k) < 1) as B by lra.
    destruct B as [B1 B2]. apply lt_IZR in B1, B2. assert (j - k = 0)%Z as Z0 by lia.
    rewrite Z0 in E. simpl in E. lra.
Qed.

(* positive form of a stored value *)
Definition pos360 (v : R) : R := if Rlt_dec v 0 then 360 + v else v.

Theorem pos360_range v : -360 < v < 360 -> 0 <= pos360 v < 360.
Proof. intro H. unfold pos360. destruct (Rlt_dec v 0); lra. Qed.
Theorem pos360_cong v : cong360 (pos360 v) v.
Proof.
  unfold pos360. destruct (Rlt_dec v 0); [exists 1%Z; lra | apply cong360_refl].
Qed.

(* sexagesimal value: the sign is carried by any piece *)
Definition dms_neg (d m s : R) : Prop := d < 0 \/ m < 0 \/ s < 0.
Definition dms_abs (d m s : R) : R := Rabs d + Rabs m / 60 + Rabs s / 3600.
