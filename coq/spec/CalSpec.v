(* CalSpec.v -- hand-written, independent specification of the civil calendar
   (Julian up to and including 4 Oct 1582, Gregorian from 15 Oct 1582) as a day count,
   with machine-checked theorems.  Coq 8.16.1, stdlib only.  No axioms. *)
From Coq Require Import ZArith List Bool Lia ZifyBool.
Import ListNotations.
Open Scope Z_scope.

Definition leap_j (y : Z) : bool := y mod 4 =? 0.
Definition leap_g (y : Z) : bool := (y mod 4 =? 0) && (negb (y mod 100 =? 0) || (y mod 400 =? 0)).
(* leap rule in force: Julian before 1582, Gregorian from 1582 on (1582 is common in both) *)
Definition leap (y : Z) : bool := if y <? 1582 then leap_j y else leap_g y.
Definition cum_days (m : Z) : Z :=
  nth (Z.to_nat (m - 1)) [0; 31; 59; 90; 120; 151; 181; 212; 243; 273; 304; 334] 0.
Definition mlen_common (m : Z) : Z :=
  nth (Z.to_nat (m - 1)) [31; 28; 31; 30; 31; 30; 31; 31; 30; 31; 30; 31] 0.
Definition mlen (y m : Z) : Z := if (m =? 2) && leap y then 29 else mlen_common m.
Definition before_reform (y m d : Z) : bool :=
  (y <? 1582) || ((y =? 1582) && ((m <? 10) || ((m =? 10) && (d <? 15)))).
(* Julian Day Number (at noon) of a Julian-calendar date; -4712-01-01 |-> 0 *)
Definition jdn_j (y m d : Z) : Z :=
  365 * (y + 4712) + (y + 4712 + 3) / 4 + cum_days m
  + (if (2 <? m) && leap_j y then 1 else 0) + d - 1.
(* Julian Day Number of a Gregorian-calendar date, via the proleptic Gregorian ordinal *)
Definition jdn_g (y m d : Z) : Z :=
  let y1 := y - 1 in
  365 * y1 + y1 / 4 - y1 / 100 + y1 / 400 + cum_days m
  + (if (2 <? m) && leap_g y then 1 else 0) + d + 1721425.
Definition jdn (y m d : Z) : Z := if before_reform y m d then jdn_j y m d else jdn_g y m d.
Definition valid (y m d : Z) : bool :=
  (-4712 <=? y) && (1 <=? m) && (m <=? 12) && (1 <=? d) && (d <=? mlen y m)
  && negb ((y =? 1582) && (m =? 10) && (5 <=? d) && (d <=? 14)).
Definition next (y m d : Z) : Z * Z * Z :=
  if (y =? 1582) && (m =? 10) && (d =? 4) then (1582, 10, 15)
  else if d <? mlen y m then (y, m, d + 1)
  else if m <? 12 then (y, m + 1, 1) else (y + 1, 1, 1).
(* day of year under the rule in force, 1 Jan = 1; in 1582 the ten dropped days are not counted *)
Definition doy (y m d : Z) : Z := jdn y m d - jdn y 1 1 + 1.
Definition year_len (y : Z) : Z := jdn (y + 1) 1 1 - jdn y 1 1.
Definition weekday (y m d : Z) : Z := (jdn y m d + 1) mod 7.   (* 0 = Sunday *)

(* ------------------------------------------------------------------------ *)
(* Helper definitions: month start offset / month length for a leap flag,   *)
(* JDN of 1 January in each calendar.                                       *)
(* ------------------------------------------------------------------------ *)

Definition ms (l : bool) (m : Z) : Z := cum_days m + (if (2 <? m) && l then 1 else 0).
Definition ml (l : bool) (m : Z) : Z := if (m =? 2) && l then 29 else mlen_common m.
Definition jan1_j (y : Z) : Z := 365 * (y + 4712) + (y + 4712 + 3) / 4.
Definition jan1_g (y : Z) : Z :=
  let y1 := y - 1 in 365 * y1 + y1 / 4 - y1 / 100 + y1 / 400 + 1721426.
Definition jan1 (y : Z) : Z := jdn y 1 1.

Ltac month_cases m :=
  let H := fresh "Hm" in
  assert (H : m = 1 \/ m = 2 \/ m = 3 \/ m = 4 \/ m = 5 \/ m = 6 \/ m = 7 \/ m = 8
              \/ m = 9 \/ m = 10 \/ m = 11 \/ m = 12) by lia;
  repeat (destruct H as [H | H]); subst m.

Lemma mlen_ml y m : mlen y m = ml (leap y) m.
Proof. reflexivity. Qed.

Lemma jdn_j_eq y m d : jdn_j y m d = jan1_j y + ms (leap_j y) m + d - 1.
Proof. unfold jdn_j, jan1_j, ms. ring. Qed.

Lemma jdn_g_eq y m d : jdn_g y m d = jan1_g y + ms (leap_g y) m + d - 1.
Proof. unfold jdn_g, jan1_g, ms. cbv zeta. ring. Qed.

(* --- month table facts (finite case analysis) --- *)

Lemma ms_1 l : ms l 1 = 0.
Proof. reflexivity. Qed.

Lemma ms_succ l m : 1 <= m < 12 -> ms l (m + 1) = ms l m + ml l m.
Proof. intros H. month_cases m; try lia; destruct l; reflexivity. Qed.

Lemma ms_12 l : ms l 12 + ml l 12 = if l then 366 else 365.
Proof. destruct l; reflexivity. Qed.

Lemma ml_12 l : ml l 12 = 31.
Proof. reflexivity. Qed.

Lemma ml_bounds l m : 1 <= m <= 12 -> 28 <= ml l m <= 31.
Proof. intros H. month_cases m; destruct l; vm_compute; split; discriminate. Qed.

Lemma ms_nonneg l m : 1 <= m <= 12 -> 0 <= ms l m.
Proof. intros H. month_cases m; destruct l; vm_compute; discriminate. Qed.

Lemma ms_mono l m m' : 1 <= m -> m < m' -> m' <= 12 -> ms l m + ml l m <= ms l m'.
Proof.
  intros H1 H2 H3.
  month_cases m; month_cases m'; try (exfalso; lia);
    destruct l; vm_compute; discriminate.
Qed.

Lemma ms_total l m : 1 <= m <= 12 -> ms l m + ml l m <= if l then 366 else 365.
Proof.
  intros H. destruct (Z.eq_dec m 12) as [-> | Hne].
  - rewrite ms_12. lia.
  - pose proof (ms_mono l m 12 ltac:(lia) ltac:(lia) ltac:(lia)).
    pose proof (ms_12 l). rewrite ml_12 in *. destruct l; lia.
Qed.

(* --- year steps (the only places where div/mod reasoning is needed) --- *)

Lemma jan1_j_succ y : jan1_j (y + 1) = jan1_j y + (if leap_j y then 366 else 365).
Proof.
  unfold jan1_j, leap_j. destruct (y mod 4 =? 0) eqn:E;
    Z.div_mod_to_equations; lia.
Qed.

Lemma jan1_g_succ y : jan1_g (y + 1) = jan1_g y + (if leap_g y then 366 else 365).
Proof.
  unfold jan1_g, leap_g. cbv zeta.
  replace (y + 1 - 1) with y by lia.
  destruct ((y mod 4 =? 0) && (negb (y mod 100 =? 0) || (y mod 400 =? 0))) eqn:E;
    Z.div_mod_to_equations; lia.
Qed.

Lemma leap_lt y : y < 1582 -> leap y = leap_j y.
Proof. intros H. unfold leap. destruct (y <? 1582) eqn:E; [reflexivity | lia]. Qed.

Lemma leap_ge y : 1582 <= y -> leap y = leap_g y.
Proof. intros H. unfold leap. destruct (y <? 1582) eqn:E; [lia | reflexivity]. Qed.

Lemma jan1_le y : y <= 1582 -> jan1 y = jan1_j y.
Proof.
  intros H. unfold jan1, jdn.
  destruct (before_reform y 1 1) eqn:E; unfold before_reform in E; [ | lia].
  rewrite jdn_j_eq, ms_1. lia.
Qed.

Lemma jan1_gt y : 1582 < y -> jan1 y = jan1_g y.
Proof.
  intros H. unfold jan1, jdn.
  destruct (before_reform y 1 1) eqn:E; unfold before_reform in E; [lia | ].
  rewrite jdn_g_eq, ms_1. lia.
Qed.

Lemma jan1_j_1582 : jan1_j 1582 = 2298884.
Proof. vm_compute. reflexivity. Qed.
Lemma jan1_g_1582 : jan1_g 1582 = 2298874.
Proof. vm_compute. reflexivity. Qed.
Lemma jan1_g_1583 : jan1_g 1583 = 2299239.
Proof. vm_compute. reflexivity. Qed.
Lemma leap_1582 : leap 1582 = false.
Proof. vm_compute. reflexivity. Qed.
Lemma leap_j_1582 : leap_j 1582 = false.
Proof. vm_compute. reflexivity. Qed.
Lemma leap_g_1582 : leap_g 1582 = false.
Proof. vm_compute. reflexivity. Qed.

(* JDN of any date = JDN of 1 Jan + ordinal in year - 1 - (10 dropped days) *)
Lemma jdn_eq y m d :
  jdn y m d = jan1 y + ms (leap y) m + d - 1
              - (if (y =? 1582) && negb (before_reform y m d) then 10 else 0).
Proof.
  destruct (Z.lt_total y 1582) as [H | [H | H]].
  - rewrite jan1_le, leap_lt by lia. unfold jdn.
    assert (E : before_reform y m d = true) by (unfold before_reform; lia).
    rewrite E, jdn_j_eq.
    destruct ((y =? 1582) && negb true) eqn:E2; lia.
  - subst y. rewrite jan1_le, jan1_j_1582, leap_1582 by lia. unfold jdn.
    destruct (before_reform 1582 m d).
    + rewrite jdn_j_eq, jan1_j_1582, leap_j_1582. cbn [Z.eqb Pos.eqb negb andb]. lia.
    + rewrite jdn_g_eq, jan1_g_1582, leap_g_1582. cbn [Z.eqb Pos.eqb negb andb]. lia.
  - rewrite jan1_gt, leap_ge by lia. unfold jdn.
    assert (E : before_reform y m d = false) by (unfold before_reform; lia).
    rewrite E, jdn_g_eq.
    destruct ((y =? 1582) && negb false) eqn:E2; lia.
Qed.

(* length of every year, no lower bound on y needed *)
Lemma jan1_succ y :
  jan1 (y + 1) = jan1 y + (if y =? 1582 then 355 else if leap y then 366 else 365).
Proof.
  destruct (Z.lt_total y 1582) as [H | [H | H]].
  - rewrite !jan1_le, leap_lt, jan1_j_succ by lia.
    assert (E : (y =? 1582) = false) by lia. rewrite E. reflexivity.
  - subst y. rewrite (jan1_le 1582) by lia. change (1582 + 1) with 1583.
    rewrite jan1_gt by lia. rewrite jan1_g_1583, jan1_j_1582. reflexivity.
  - rewrite !jan1_gt, leap_ge, jan1_g_succ by lia.
    assert (E : (y =? 1582) = false) by lia. rewrite E. reflexivity.
Qed.

Lemma valid_iff y m d :
  valid y m d = true <->
  (-4712 <= y /\ 1 <= m <= 12 /\ 1 <= d <= mlen y m
   /\ ~ (y = 1582 /\ m = 10 /\ 5 <= d <= 14)).
Proof. unfold valid. lia. Qed.

Lemma mlen_bounds y m : 1 <= m <= 12 -> 28 <= mlen y m <= 31.
Proof. intros. rewrite mlen_ml. now apply ml_bounds. Qed.

(* ------------------------------------------------------------------------ *)
(* 1. next preserves validity                                               *)
(* ------------------------------------------------------------------------ *)

Theorem next_valid : forall y m d, valid y m d = true ->
  let '(y', m', d') := next y m d in valid y' m' d' = true.
Proof.
  intros y m d H. apply valid_iff in H. destruct H as (Hy & Hm & Hd & Hgap).
  unfold next.
  destruct ((y =? 1582) && (m =? 10) && (d =? 4)) eqn:E1.
  - vm_compute. reflexivity.
  - destruct (d <? mlen y m) eqn:E2.
    + apply valid_iff. lia.
    + destruct (m <? 12) eqn:E3.
      * apply valid_iff. pose proof (mlen_bounds y (m + 1)). lia.
      * apply valid_iff. pose proof (mlen_bounds (y + 1) 1). lia.
Qed.
Print Assumptions next_valid.

(* ------------------------------------------------------------------------ *)
(* 2. next advances the day count by exactly one                            *)
(* ------------------------------------------------------------------------ *)

Theorem jdn_next : forall y m d, valid y m d = true ->
  let '(y', m', d') := next y m d in jdn y' m' d' = jdn y m d + 1.
Proof.
  intros y m d H. apply valid_iff in H. destruct H as (Hy & Hm & Hd & Hgap).
  unfold next.
  destruct ((y =? 1582) && (m =? 10) && (d =? 4)) eqn:E1.
  - assert (y = 1582) by lia. assert (m = 10) by lia. assert (d = 4) by lia.
    subst. vm_compute. reflexivity.
  - destruct (d <? mlen y m) eqn:E2.
    + rewrite !jdn_eq.
      destruct ((y =? 1582) && negb (before_reform y m (d + 1))) eqn:E3;
      destruct ((y =? 1582) && negb (before_reform y m d)) eqn:E4;
      unfold before_reform in *; lia.
    + assert (Hd' : d = ml (leap y) m) by (rewrite <- mlen_ml; lia).
      destruct (m <? 12) eqn:E3.
      * rewrite !jdn_eq. rewrite ms_succ by lia.
        destruct ((y =? 1582) && negb (before_reform y (m + 1) 1)) eqn:E4;
        destruct ((y =? 1582) && negb (before_reform y m d)) eqn:E5;
        unfold before_reform in *; pose proof (ml_bounds (leap y) m Hm); lia.
      * assert (m = 12) by lia. subst m. rewrite ml_12 in Hd'. subst d.
        change (jdn (y + 1) 1 1) with (jan1 (y + 1)).
        rewrite jan1_succ, jdn_eq.
        pose proof (ms_12 (leap y)) as H12. rewrite ml_12 in H12.
        destruct (y =? 1582) eqn:E4.
        -- assert (y = 1582) by lia. subst y. rewrite leap_1582 in *.
           vm_compute. reflexivity.
        -- cbn [andb]. destruct (leap y); lia.
Qed.
Print Assumptions jdn_next.

(* ------------------------------------------------------------------------ *)
(* 3. Anchors                                                               *)
(* ------------------------------------------------------------------------ *)

Example anchor_epoch      : jdn (-4712) 1 1 = 0.          Proof. vm_compute. reflexivity. Qed.
Example anchor_j2000      : jdn 2000 1 1 = 2451545.       Proof. vm_compute. reflexivity. Qed.
Example anchor_mjd        : jdn 1858 11 17 = 2400001.     Proof. vm_compute. reflexivity. Qed.
Example anchor_last_jul   : jdn 1582 10 4 = 2299160.      Proof. vm_compute. reflexivity. Qed.
Example anchor_first_greg : jdn 1582 10 15 = 2299161.     Proof. vm_compute. reflexivity. Qed.
Example anchor_sputnik    : jdn 1957 10 4 = 2436116.      Proof. vm_compute. reflexivity. Qed.

(* ------------------------------------------------------------------------ *)
(* 6. Year length (placed early: used by monotonicity)                      *)
(* ------------------------------------------------------------------------ *)

Theorem year_len_spec : forall y, -4712 <= y ->
  year_len y = if y =? 1582 then 355 else if leap y then 366 else 365.
Proof.
  intros y _. unfold year_len. fold (jan1 (y + 1)). fold (jan1 y).
  rewrite jan1_succ. lia.
Qed.
Print Assumptions year_len_spec.

Lemma year_len_ge y : jan1 y + 355 <= jan1 (y + 1).
Proof.
  rewrite jan1_succ. destruct (y =? 1582); [lia | destruct (leap y); lia].
Qed.

Lemma jan1_mono_nat : forall n, 0 <= n -> forall y, jan1 y + 355 * n <= jan1 (y + n).
Proof.
  intros n Hn. pattern n. apply natlike_ind; [ | | exact Hn].
  - intros y. replace (y + 0) with y by lia. lia.
  - intros k Hk IH y. pose proof (IH y). pose proof (year_len_ge (y + k)).
    replace (y + Z.succ k) with (y + k + 1) by lia. lia.
Qed.

Lemma jan1_mono y y' : y <= y' -> jan1 y + 355 * (y' - y) <= jan1 y'.
Proof.
  intros H. pose proof (jan1_mono_nat (y' - y) ltac:(lia) y) as H1.
  replace (y + (y' - y)) with y' in H1 by lia. exact H1.
Qed.

(* every valid date lies inside its own year *)
Lemma jdn_year_bounds y m d : valid y m d = true ->
  jan1 y <= jdn y m d < jan1 (y + 1).
Proof.
  intros H. apply valid_iff in H. destruct H as (Hy & Hm & Hd & Hgap).
  rewrite mlen_ml in Hd.
  rewrite jan1_succ, jdn_eq.
  pose proof (ms_nonneg (leap y) m Hm) as Hn.
  pose proof (ms_total (leap y) m Hm) as Ht.
  destruct (y =? 1582) eqn:E.
  - assert (y = 1582) by lia. subst y. rewrite leap_1582 in *.
    cbn [andb].
    destruct (negb (before_reform 1582 m d)) eqn:E2; unfold before_reform in E2.
    + (* after the reform: m >= 10, and m = 10 -> d >= 15 *)
      assert (Hlo : ms false 10 + 15 <= ms false m + d).
      { destruct (Z.eq_dec m 10) as [-> | Hne]; [lia | ].
        pose proof (ms_mono false 10 m ltac:(lia) ltac:(lia) ltac:(lia)).
        change (ml false 10) with 31 in *. lia. }
      change (ms false 10) with 273 in Hlo. lia.
    + (* before the reform: m <= 10, and m = 10 -> d <= 4 *)
      assert (Hhi : ms false m + d <= ms false 10 + 4).
      { destruct (Z.eq_dec m 10) as [-> | Hne]; [lia | ].
        pose proof (ms_mono false m 10 ltac:(lia) ltac:(lia) ltac:(lia)). lia. }
      change (ms false 10) with 273 in Hhi. lia.
  - cbn [andb]. destruct (leap y); lia.
Qed.

(* ------------------------------------------------------------------------ *)
(* 4. Strict monotonicity and injectivity                                   *)
(* ------------------------------------------------------------------------ *)

Definition date_lt (y m d y' m' d' : Z) : Prop :=
  y < y' \/ (y = y' /\ (m < m' \/ (m = m' /\ d < d'))).

(* ordinal inside a year is strictly increasing in (m, d) *)
Lemma ord_mono l m d m' d' :
  1 <= m <= 12 -> 1 <= m' <= 12 -> 1 <= d <= ml l m -> 1 <= d' <= ml l m' ->
  m < m' \/ (m = m' /\ d < d') ->
  ms l m + d < ms l m' + d'.
Proof.
  intros Hm Hm' Hd Hd' [Hlt | [-> Hlt]]; [ | lia].
  pose proof (ms_mono l m m' ltac:(lia) Hlt ltac:(lia)). lia.
Qed.

Theorem jdn_mono : forall y m d y' m' d',
  valid y m d = true -> valid y' m' d' = true ->
  date_lt y m d y' m' d' -> jdn y m d < jdn y' m' d'.
Proof.
  intros y m d y' m' d' V V' [Hlt | [<- Hlt]].
  - (* different years *)
    pose proof (jdn_year_bounds _ _ _ V).
    pose proof (jdn_year_bounds _ _ _ V').
    pose proof (jan1_mono (y + 1) y' ltac:(lia)). lia.
  - (* same year *)
    apply valid_iff in V. destruct V as (Hy & Hm & Hd & Hgap).
    apply valid_iff in V'. destruct V' as (_ & Hm' & Hd' & Hgap').
    rewrite mlen_ml in Hd, Hd'.
    pose proof (ord_mono (leap y) m d m' d' Hm Hm' Hd Hd' Hlt) as Hord.
    rewrite !jdn_eq.
    destruct (y =? 1582) eqn:E; cbn [andb]; [ | lia].
    assert (y = 1582) by lia. subst y. rewrite leap_1582 in *.
    destruct (negb (before_reform 1582 m d)) eqn:E1;
    destruct (negb (before_reform 1582 m' d')) eqn:E2;
    unfold before_reform in E1, E2; try lia.
    (* first date before the reform, second after: 10 days are dropped *)
    assert (Hhi : ms false m + d <= ms false 10 + 4).
    { destruct (Z.eq_dec m 10) as [-> | Hne]; [lia | ].
      pose proof (ms_mono false m 10 ltac:(lia) ltac:(lia) ltac:(lia)). lia. }
    assert (Hlo : ms false 10 + 15 <= ms false m' + d').
    { destruct (Z.eq_dec m' 10) as [-> | Hne]; [lia | ].
      pose proof (ms_mono false 10 m' ltac:(lia) ltac:(lia) ltac:(lia)).
      change (ml false 10) with 31 in *. lia. }
    lia.
Qed.
Print Assumptions jdn_mono.

Theorem jdn_inj : forall y m d y' m' d',
  valid y m d = true -> valid y' m' d' = true ->
  jdn y m d = jdn y' m' d' -> (y, m, d) = (y', m', d').
Proof.
  intros y m d y' m' d' V V' E.
  assert (T : date_lt y m d y' m' d' \/ date_lt y' m' d' y m d
              \/ (y = y' /\ m = m' /\ d = d')) by (unfold date_lt; lia).
  destruct T as [T | [T | (-> & -> & ->)]].
  - pose proof (jdn_mono _ _ _ _ _ _ V V' T). lia.
  - pose proof (jdn_mono _ _ _ _ _ _ V' V T). lia.
  - reflexivity.
Qed.
Print Assumptions jdn_inj.

(* ------------------------------------------------------------------------ *)
(* 5. Non-negativity                                                        *)
(* ------------------------------------------------------------------------ *)

Theorem jdn_nonneg : forall y m d, valid y m d = true -> 0 <= jdn y m d.
Proof.
  intros y m d V. pose proof (jdn_year_bounds _ _ _ V) as B.
  apply valid_iff in V. destruct V as (Hy & _).
  pose proof (jan1_mono (-4712) y Hy) as M.
  change (jan1 (-4712)) with (jdn (-4712) 1 1) in M. rewrite anchor_epoch in M. lia.
Qed.
Print Assumptions jdn_nonneg.

(* ------------------------------------------------------------------------ *)
(* 7. Day of year                                                           *)
(* ------------------------------------------------------------------------ *)

Theorem doy_jan1 : forall y, doy y 1 1 = 1.
Proof. intros y. unfold doy. lia. Qed.
Print Assumptions doy_jan1.

Theorem doy_dec31 : forall y, -4712 <= y -> doy y 12 31 = year_len y.
Proof.
  intros y Hy. unfold doy, year_len.
  assert (V : valid y 12 31 = true).
  { apply valid_iff. change (mlen y 12) with 31. lia. }
  pose proof (jdn_next y 12 31 V) as N. unfold next in N.
  change (mlen y 12) with 31 in N.
  destruct ((y =? 1582) && (12 =? 10) && (31 =? 4)) eqn:E; [lia | ].
  cbn in N. lia.
Qed.
Print Assumptions doy_dec31.

(* ------------------------------------------------------------------------ *)
(* 8. Day of week                                                           *)
(* ------------------------------------------------------------------------ *)

Theorem weekday_next : forall y m d, valid y m d = true ->
  let '(y', m', d') := next y m d in weekday y' m' d' = (weekday y m d + 1) mod 7.
Proof.
  intros y m d V. pose proof (jdn_next y m d V) as N.
  destruct (next y m d) as [[y' m'] d'].
  unfold weekday. rewrite N.
  rewrite Z.add_mod_idemp_l by lia. reflexivity.
Qed.
Print Assumptions weekday_next.

Theorem weekday_gregorian : forall y m d, valid y m d = true ->
  before_reform y m d = false -> weekday y m d = (jdn_g y m d + 1) mod 7.
Proof. intros y m d _ B. unfold weekday, jdn. rewrite B. reflexivity. Qed.
Print Assumptions weekday_gregorian.

Theorem weekday_range : forall y m d, 0 <= weekday y m d < 7.
Proof. intros. unfold weekday. apply Z.mod_pos_bound. lia. Qed.

Example weekday_2000_01_01 : weekday 2000 1 1 = 6.    Proof. vm_compute. reflexivity. Qed.
Example weekday_1582_10_15 : weekday 1582 10 15 = 5.  Proof. vm_compute. reflexivity. Qed.
Example weekday_1582_10_04 : weekday 1582 10 4 = 4.   Proof. vm_compute. reflexivity. Qed.
