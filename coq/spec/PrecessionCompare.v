(* PrecessionCompare: two rotations of the equatorial type Rz(z).Ry(-theta).Rz(zeta) whose angles
   differ little move every vector to nearby places: chord <= |dzeta| + |dtheta| + |dz| (the outer
   rotations are isometries; chord <= arc).  Applied to Newcomb's (FK4) polynomials against the
   IAU 1976 (FK5) ones for epochs 1800..2100. *)
From Coq Require Import Reals ZArith Lra Lia Psatz Nsatz.
From Interval Require Import Tactic.
From PyLib Require Import PyVal Ideal Sphere.
From Spec Require Import AngleSpec Precession PrecessionBack.
Open Scope R_scope.

Lemma Ry_vsub a u v : Ry a (vsub u v) = vsub (Ry a u) (Ry a v).
Proof. destruct u as [[? ?] ?], v as [[? ?] ?]. unfold Ry, vsub. apply vec_eq; ring. Qed.
Lemma vnorm_Ry a v : vnorm (Ry a v) = vnorm v.
Proof. unfold vnorm. rewrite dot_Ry. reflexivity. Qed.
Lemma chord_Ry a u v : chord (Ry a u) (Ry a v) = chord u v.
Proof. unfold chord. rewrite <- Ry_vsub. apply vnorm_Ry. Qed.

Lemma chord_Ry_self a v : chord (Ry a v) v <= Rabs a * vnorm v.
Proof.
  unfold chord, vnorm. rewrite <- (sqrt_Rsqr_abs a), <- sqrt_mult_alt by apply Rle_0_sqr.
  apply sqrt_le_1_alt. destruct v as [[x y] z]. unfold Ry, vsub, dot, Rsqr.
  pose proof (two_minus_two_cos a) as Hc. pose proof (sin2_eq a) as Hs.
  assert (E : (cos a * x + sin a * z - x) * (cos a * x + sin a * z - x) + (y - y) * (y - y)
              + (- sin a * x + cos a * z - z) * (- sin a * x + cos a * z - z)
              = (2 - 2 * cos a) * (x * x + z * z)).
  { nsatz. }
  rewrite E. assert (0 <= x * x + z * z) by nra. assert (0 <= y * y) by nra. nra.
Qed.

Lemma chord_sym u v : chord u v = chord v u.
Proof.
  unfold chord, vnorm. f_equal. destruct u as [[? ?] ?], v as [[? ?] ?]. unfold vsub, dot. ring.
Qed.

(* same vector, two angles *)
Lemma chord_Rz_angles a b v : chord (Rz a v) (Rz b v) <= Rabs (a - b) * vnorm v.
Proof.
  replace a with ((a - b) + b) at 1 by ring. rewrite <- Rz_add.
  pose proof (chord_Rz_self (a - b) (Rz b v)) as H. rewrite vnorm_Rz in H. exact H.
Qed.
Lemma chord_Ry_angles a b v : chord (Ry a v) (Ry b v) <= Rabs (a - b) * vnorm v.
Proof.
  replace a with ((a - b) + b) at 1 by ring. rewrite <- Ry_add.
  pose proof (chord_Ry_self (a - b) (Ry b v)) as H. rewrite vnorm_Ry in H. exact H.
Qed.

Theorem rot_equ_compare ze z th ze' z' th' v :
  chord (rot_equ ze z th v) (rot_equ ze' z' th' v)
  <= (Rabs (ze - ze') + Rabs (th - th') + Rabs (z - z')) * vnorm v.
Proof.
  unfold rot_equ.
  set (X := Ry (- th) (Rz ze v)). set (X' := Ry (- th') (Rz ze' v)).
  eapply Rle_trans; [apply (chord_triangle _ (Rz z' X) _)|].
  pose proof (chord_Rz_angles z z' X) as H1.
  assert (HX : vnorm X = vnorm v) by (unfold X; rewrite vnorm_Ry, vnorm_Rz; reflexivity).
  rewrite HX in H1. rewrite chord_Rz.
  assert (H2 : chord X X' <= (Rabs (th - th') + Rabs (ze - ze')) * vnorm v).
  { unfold X, X'.
    eapply Rle_trans; [apply (chord_triangle _ (Ry (- th') (Rz ze v)) _)|].
    pose proof (chord_Ry_angles (- th) (- th') (Rz ze v)) as H3. rewrite vnorm_Rz in H3.
    replace (- th - - th') with (- (th - th')) in H3 by ring. rewrite Rabs_Ropp in H3.
    rewrite chord_Ry.
    pose proof (chord_Rz_angles ze ze' v). lra. }
  lra.
Qed.

(* ------------------------------------------------------------------ *)
(** * Newcomb (FK4) against IAU 1976 (FK5), epochs 1800 .. 2100 *)

(* Newcomb's time arguments in terms of the FK5 ones: tropical centuries, origin B1900.0 *)
Definition kk : R := 36525 / 36524.2199.
Definition cc : R := (2451545 - 2415020.3135) / 36524.2199.

Lemma tropcen_B1900 j : tropcen B1900 j = kk * cen J2000 j + cc.
Proof. unfold tropcen, B1900, cen, J2000, kk, cc. dec_norm. field. Qed.
Lemma tropcen_cen j0 j1 : tropcen j0 j1 = kk * cen j0 j1.
Proof. unfold tropcen, cen, kk. dec_norm. field. Qed.

Ltac decn := cbv [Q2R QArith_base.Qnum QArith_base.Qden].

(* the differences of the three angles as polynomials in (T, t) with SMALL coefficients *)
Lemma dzeta_form k c T t :
  zeta_as T t - nzeta_as (k * T + c) (k * t)
  = (2306.2181 - (2304.25 + 1.396 * c) * k) * t + (1.39656 - 1.396 * k * k) * T * t
    - 0.000139 * T * T * t + (0.30188 - 0.302 * k * k) * t * t - 0.000344 * T * t * t
    + (0.017998 - 0.018 * k * k * k) * t * t * t.
Proof. unfold zeta_as, nzeta_as. decn. ring. Qed.

Lemma dz_form k c T t :
  z_as T t - nz_as (k * T + c) (k * t)
  = (2306.2181 - (2304.25 + 1.396 * c) * k) * t + (1.39656 - 1.396 * k * k) * T * t
    - 0.000139 * T * T * t + (1.09468 - (0.302 + 0.791) * k * k) * t * t + 0.000066 * T * t * t
    + (0.018203 - (0.018 + 0.001) * k * k * k) * t * t * t.
Proof. unfold z_as, nz_as, nzeta_as. decn. ring. Qed.

Lemma dtheta_form k c T t :
  theta_as T t - ntheta_as (k * T + c) (k * t)
  = (2004.3109 - (2004.682 - 0.853 * c) * k) * t + (- 0.85330 + 0.853 * k * k) * T * t
    - 0.000217 * T * T * t + (- 0.42665 + 0.426 * k * k) * t * t - 0.000217 * T * t * t
    + (- 0.041833 + 0.042 * k * k * k) * t * t * t.
Proof. unfold theta_as, ntheta_as. decn. ring. Qed.

(* T in [-2, 1.0001], T + t in the same range: 1 Jan 1800 .. 1 Jan 2100 and a little more *)
Lemma newcomb_angle_differences T t : -2 <= T <= 10001 / 10000 -> -30001 / 10000 <= t <= 30001 / 10000 ->
  Rabs (zeta_as T t - nzeta_as (kk * T + cc) (kk * t)) <= 16 / 10 /\
  Rabs (z_as T t - nz_as (kk * T + cc) (kk * t)) <= 17 / 10 /\
  Rabs (theta_as T t - ntheta_as (kk * T + cc) (kk * t)) <= 14 / 10.
Proof.
  intros HT Ht. rewrite dzeta_form, dz_form, dtheta_form. unfold kk, cc. decn.
  split; [|split]; interval with (i_prec 60).
Qed.

Lemma Rabs_d2r_diff a b : Rabs (d2r (a / 3600) - d2r (b / 3600)) = Rabs (a - b) / 3600 * (PI / 180).
Proof.
  replace (d2r (a / 3600) - d2r (b / 3600)) with (d2r ((a - b) / 3600)) by (unfold d2r; field).
  rewrite Rabs_d2r, Rabs_div3600. reflexivity.
Qed.

(* both epochs between JDE 2378496.5 (1 Jan 1800) and 2488071.5 (1 Jan 2100): the FK4 and the FK5
   rotation move any vector to places at most 2.3e-5 |v| apart (chord; = 0.00132 degree) *)
Theorem newcomb_vs_fk5_chord j0 j1 v :
  2378496.5 <= j0 <= 2488071.5 -> 2378496.5 <= j1 <= 2488071.5 ->
  let T := cen J2000 j0 in let t := cen j0 j1 in
  let T4 := tropcen B1900 j0 in let t4 := tropcen j0 j1 in
  chord (rot_equ (d2r (zeta_as T t / 3600)) (d2r (z_as T t / 3600)) (d2r (theta_as T t / 3600)) v)
        (rot_equ (d2r (nzeta_as T4 t4 / 3600)) (d2r (nz_as T4 t4 / 3600)) (d2r (ntheta_as T4 t4 / 3600)) v)
  <= 23 / 1000000 * vnorm v.
Proof.
  intros H0 H1 T t T4 t4.
  assert (HT : -2 <= T <= 10001 / 10000).
  { unfold T, cen, J2000. revert H0. decn. intros [A B]. split.
    - apply Rmult_le_reg_r with 36525; [lra|]. unfold Rdiv. rewrite Rmult_assoc, Rinv_l by lra. lra.
    - apply Rmult_le_reg_r with 36525; [lra|]. unfold Rdiv at 1. rewrite Rmult_assoc, Rinv_l by lra. lra. }
  assert (Ht : -30001 / 10000 <= t <= 30001 / 10000).
  { unfold t, cen. revert H0 H1. decn. intros [A B] [C D]. split.
    - apply Rmult_le_reg_r with 36525; [lra|]. unfold Rdiv at 2. rewrite Rmult_assoc, Rinv_l by lra. lra.
    - apply Rmult_le_reg_r with 36525; [lra|]. unfold Rdiv at 1. rewrite Rmult_assoc, Rinv_l by lra. lra. }
  unfold T4, t4. rewrite tropcen_B1900, tropcen_cen. fold T t.
  destruct (newcomb_angle_differences T t HT Ht) as (D1 & D2 & D3).
  eapply Rle_trans; [apply rot_equ_compare|].
  apply Rmult_le_compat_r; [apply vnorm_nonneg|].
  rewrite !Rabs_d2r_diff.
  assert (HPI : 0 < PI / 180 <= 1746 / 100000) by (split; interval).
  set (x := Rabs (zeta_as T t - nzeta_as (kk * T + cc) (kk * t))) in *.
  set (y := Rabs (theta_as T t - ntheta_as (kk * T + cc) (kk * t))) in *.
  set (w := Rabs (z_as T t - nz_as (kk * T + cc) (kk * t))) in *.
  set (k := PI / 180) in *.
  assert (0 <= x) by apply Rabs_pos. assert (0 <= y) by apply Rabs_pos. assert (0 <= w) by apply Rabs_pos.
  replace (x / 3600 * k + y / 3600 * k + w / 3600 * k) with ((x + y + w) * k / 3600) by field.
  assert ((x + y + w) * k <= 47 / 10 * (1746 / 100000)) by nra.
  lra.
Qed.

(* a chord of 2.3e-5 between unit vectors is an angle below 0.0014 degree (< 0.005 degree) *)
Theorem chord_23e6_angle u v : dot u u = 1 -> dot v v = 1 ->
  chord u v <= 23 / 1000000 ->
  cos (d2r (14 / 10000)) <= dot u v /\ cos (d2r (5 / 1000)) <= dot u v.
Proof.
  intros Hu Hv Hc. pose proof (chord_sqr_unit u v Hu Hv) as E.
  assert (0 <= chord u v) by apply vnorm_nonneg.
  assert (chord u v * chord u v <= 529 / 1000000000000) by nra.
  assert (cos (d2r (14 / 10000)) <= 1 - 2645 / 10000000000000).
  { unfold d2r. interval with (i_prec 100). }
  assert (cos (d2r (5 / 1000)) <= cos (d2r (14 / 10000))).
  { unfold d2r. interval with (i_prec 100). }
  lra.
Qed.
