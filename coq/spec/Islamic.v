(* Islamic: the arithmetic (tabular) Islamic calendar, civil epoch 16 July 622 (Julian),
   leap years 2, 5, 7, 10, 13, 16, 18, 21, 24, 26, 29 of each 30-year cycle. *)
From Coq Require Import ZArith List Bool Lia.
From Spec Require Import CalSpec.
Import ListNotations.
Open Scope Z_scope.

Definition islamic_epoch : Z := 1948440.      (* JDN of 1 Muharram AH 1 *)
Example epoch_is_16_july_622 : jdn 622 7 16 = islamic_epoch. Proof. reflexivity. Qed.

Definition islamic_leap (h : Z) : bool := (11 * h + 14) mod 30 <? 11.
Definition islamic_mlen (h m : Z) : Z :=
  if Z.odd m then 30 else if (m =? 12) && islamic_leap h then 30 else 29.
Definition islamic_ylen (h : Z) : Z := if islamic_leap h then 355 else 354.
Definition islamic_valid (h m d : Z) : bool :=
  (1 <=? h) && (1 <=? m) && (m <=? 12) && (1 <=? d) && (d <=? islamic_mlen h m).

(* days before year h: 354 per year plus the leap days of the years before h *)
Definition islamic_jdn (h m d : Z) : Z :=
  islamic_epoch + 354 * (h - 1) + (11 * h + 3) / 30 + 29 * (m - 1) + m / 2 + d - 1.

Example ah_1421 : islamic_jdn 1421 1 1 = jdn 2000 4 6. Proof. reflexivity. Qed.
Example ah_1412 : islamic_jdn 1412 2 2 = jdn 1991 8 13. Proof. reflexivity. Qed.
Example ah_1 : islamic_jdn 1 1 1 = jdn 622 7 16. Proof. reflexivity. Qed.
Example leap_years_of_cycle :
  filter islamic_leap [1;2;3;4;5;6;7;8;9;10;11;12;13;14;15;16;17;18;19;20;21;22;23;24;25;26;27;28;29;30]
  = [2;5;7;10;13;16;18;21;24;26;29].
Proof. reflexivity. Qed.
