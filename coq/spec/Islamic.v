(* Islamic: the arithmetic (tabular) Islamic calendar, civil epoch 16 July 622 (Julian),
   leap years 2, 5, 7, 10, 13, 16, 18, 21, 24, 26, 29 of each 30-year cycle. *)
From Coq Require Import ZArith List Bool Lia ZifyBool.
From Spec Require Import CalSpec.
Import ListNotations.
Open Scope Z_scope.

Definition islamic_epoch : Z := 1948440.      (* JDN of 1 Muharram AH 1 *)
Example epoch_is_16_july_622 : jdn 622 7 16 = islamic_epoch. Proof. reflexivity. Qed.

Definition islamic_leap (h : Z) : bool := (11 * h + 14) mod 30 <? 11.
Definition islamic_mlen (h m : Z) : Z :=
  if Z.odd m then 30 else if (m =? 12) && islamic_leap h then 30 else 29.
Definition islamic_ylen (h : Z) : Z := if islamic_leap h then 355 else 354.
Definition islamic_valid (h m d : Z) : bool :=
  (1 <=? h) && (1 <=? m) && (m <=? 12) && (1 <=? d) && (d <=? islamic_mlen h m).

(* days before year h: 354 per year plus the leap days of the years before h *)
Definition islamic_jdn (h m d : Z) : Z :=
  islamic_epoch + 354 * (h - 1) + (11 * h + 3) / 30 + 29 * (m - 1) + m / 2 + d - 1.

Example ah_1421 : islamic_jdn 1421 1 1 = jdn 2000 4 6. Proof. reflexivity. Qed.
Example ah_1412 : islamic_jdn 1412 2 2 = jdn 1991 8 13. Proof. reflexivity. Qed.
Example ah_1 : islamic_jdn 1 1 1 = jdn 622 7 16. Proof. reflexivity. Qed.
Example leap_years_of_cycle :
  filter islamic_leap [1;2;3;4;5;6;7;8;9;10;11;12;13;14;15;16;17;18;19;20;21;22;23;24;25;26;27;28;29;30]
  = [2;5;7;10;13;16;18;21;24;26;29].
Proof. reflexivity. Qed.

(* ------------------------------------------------------------------------ *)
(* Theorems about the arithmetic Islamic calendar, for ALL years h >= 1      *)
(* ------------------------------------------------------------------------ *)

Definition islamic_next (h m d : Z) : Z * Z * Z :=
  if d <? islamic_mlen h m then (h, m, d + 1)
  else if m <? 12 then (h, m + 1, 1) else (h + 1, 1, 1).
Definition islamic_lt (h m d h' m' d' : Z) : Prop :=
  h < h' \/ (h = h' /\ (m < m' \/ (m = m' /\ d < d'))).

Ltac imonth_cases m :=
  let H := fresh "Hm" in
  assert (H : m = 1 \/ m = 2 \/ m = 3 \/ m = 4 \/ m = 5 \/ m = 6 \/ m = 7 \/ m = 8
              \/ m = 9 \/ m = 10 \/ m = 11 \/ m = 12) by lia;
  repeat (destruct H as [H | H]); subst m.

(* days before month m inside a year *)
Definition islamic_ms (m : Z) : Z := 29 * (m - 1) + m / 2.
Lemma islamic_jdn_eq h m d : islamic_jdn h m d = islamic_jdn h 1 1 + islamic_ms m + d - 1.
Proof. unfold islamic_jdn, islamic_ms. change (1 / 2) with 0. ring. Qed.

Lemma islamic_valid_iff h m d :
  islamic_valid h m d = true <-> (1 <= h /\ 1 <= m <= 12 /\ 1 <= d <= islamic_mlen h m).
Proof. unfold islamic_valid. lia. Qed.

(* months have 29 or 30 days: odd months 30, even months 29, the twelfth 30 in leap years *)
Lemma islamic_mlen_29_30 h m : islamic_mlen h m = 29 \/ islamic_mlen h m = 30.
Proof.
  unfold islamic_mlen. destruct (Z.odd m); [right; reflexivity|].
  destruct ((m =? 12) && islamic_leap h); [right|left]; reflexivity.
Qed.

Lemma islamic_ms_succ h m : 1 <= m < 12 -> islamic_ms (m + 1) = islamic_ms m + islamic_mlen h m.
Proof. intros H. imonth_cases m; try lia; reflexivity. Qed.

Lemma islamic_ms_12 h : islamic_ms 12 + islamic_mlen h 12 = islamic_ylen h.
Proof. unfold islamic_mlen, islamic_ylen. simpl. destruct (islamic_leap h); reflexivity. Qed.

(* years have 354 or 355 days, 355 exactly in the leap years of the 30-year cycle *)
Theorem islamic_year_length h : islamic_jdn (h + 1) 1 1 - islamic_jdn h 1 1 = islamic_ylen h.
Proof.
  unfold islamic_jdn, islamic_ylen, islamic_leap.
  destruct ((11 * h + 14) mod 30 <? 11) eqn:E; Z.div_mod_to_equations; lia.
Qed.
Corollary islamic_ylen_354_355 h : islamic_ylen h = 354 \/ islamic_ylen h = 355.
Proof. unfold islamic_ylen. destruct (islamic_leap h); [right|left]; reflexivity. Qed.

(* the length of a month is the distance between the first days of consecutive months *)
Theorem islamic_month_length h m : 1 <= m <= 12 ->
  (let '(h', m', d') := islamic_next h m (islamic_mlen h m) in islamic_jdn h' m' d')
  - islamic_jdn h m 1 = islamic_mlen h m.
Proof.
  intros Hm. unfold islamic_next. rewrite Z.ltb_irrefl.
  destruct (m <? 12) eqn:E.
  - rewrite (islamic_jdn_eq h (m + 1)), (islamic_jdn_eq h m), (islamic_ms_succ h) by lia. lia.
  - assert (m = 12) by lia. subst m.
    pose proof (islamic_year_length h). pose proof (islamic_ms_12 h).
    rewrite (islamic_jdn_eq h 12). lia.
Qed.

Theorem islamic_next_valid h m d : islamic_valid h m d = true ->
  let '(h', m', d') := islamic_next h m d in islamic_valid h' m' d' = true.
Proof.
  intros V. apply islamic_valid_iff in V. destruct V as (Hh & Hm & Hd).
  unfold islamic_next. destruct (d <? islamic_mlen h m) eqn:E1.
  - apply islamic_valid_iff. lia.
  - destruct (m <? 12) eqn:E2; apply islamic_valid_iff.
    + pose proof (islamic_mlen_29_30 h (m + 1)). lia.
    + pose proof (islamic_mlen_29_30 (h + 1) 1). lia.
Qed.

(* consecutive Islamic dates fall on consecutive days *)
Theorem islamic_jdn_next h m d : islamic_valid h m d = true ->
  let '(h', m', d') := islamic_next h m d in islamic_jdn h' m' d' = islamic_jdn h m d + 1.
Proof.
  intros V. apply islamic_valid_iff in V. destruct V as (Hh & Hm & Hd).
  unfold islamic_next. destruct (d <? islamic_mlen h m) eqn:E1.
  - rewrite !(islamic_jdn_eq h m). lia.
  - assert (d = islamic_mlen h m) by lia. subst d.
    pose proof (islamic_month_length h m Hm) as L. unfold islamic_next in L.
    rewrite Z.ltb_irrefl in L.
    rewrite (islamic_jdn_eq h m (islamic_mlen h m)), (islamic_jdn_eq h m 1) in *.
    destruct (m <? 12); lia.
Qed.

Lemma islamic_ms_mono h m m' : 1 <= m -> m < m' -> m' <= 12 ->
  islamic_ms m + islamic_mlen h m <= islamic_ms m'.
Proof.
  intros H1 H2 H3. unfold islamic_mlen.
  imonth_cases m; imonth_cases m'; try (exfalso; lia);
    destruct (islamic_leap h); vm_compute; discriminate.
Qed.

Lemma islamic_year_bounds h m d : islamic_valid h m d = true ->
  islamic_jdn h 1 1 <= islamic_jdn h m d < islamic_jdn (h + 1) 1 1.
Proof.
  intros V. apply islamic_valid_iff in V. destruct V as (Hh & Hm & Hd).
  pose proof (islamic_year_length h) as Y. pose proof (islamic_ms_12 h) as T.
  rewrite (islamic_jdn_eq h m d).
  assert (0 <= islamic_ms m) by (unfold islamic_ms; Z.div_mod_to_equations; lia).
  destruct (Z.eq_dec m 12) as [->|Hne]; [lia|].
  pose proof (islamic_ms_mono h m 12 ltac:(lia) ltac:(lia) ltac:(lia)).
  pose proof (islamic_mlen_29_30 h 12). lia.
Qed.

Lemma islamic_newyear_mono h h' : h <= h' ->
  islamic_jdn h 1 1 + 354 * (h' - h) <= islamic_jdn h' 1 1.
Proof. intros H. unfold islamic_jdn. Z.div_mod_to_equations. lia. Qed.

Theorem islamic_jdn_mono h m d h' m' d' :
  islamic_valid h m d = true -> islamic_valid h' m' d' = true ->
  islamic_lt h m d h' m' d' -> islamic_jdn h m d < islamic_jdn h' m' d'.
Proof.
  intros V V' [Hlt | [<- Hlt]].
  - pose proof (islamic_year_bounds _ _ _ V). pose proof (islamic_year_bounds _ _ _ V').
    pose proof (islamic_newyear_mono (h + 1) h' ltac:(lia)). lia.
  - apply islamic_valid_iff in V. destruct V as (Hh & Hm & Hd).
    apply islamic_valid_iff in V'. destruct V' as (_ & Hm' & Hd').
    rewrite (islamic_jdn_eq h m d), (islamic_jdn_eq h m' d').
    destruct Hlt as [Hlt | [-> Hlt]]; [|lia].
    pose proof (islamic_ms_mono h m m' ltac:(lia) Hlt ltac:(lia)). lia.
Qed.

(* the day count is injective on valid Islamic dates ... *)
Theorem islamic_jdn_inj h m d h' m' d' :
  islamic_valid h m d = true -> islamic_valid h' m' d' = true ->
  islamic_jdn h m d = islamic_jdn h' m' d' -> (h, m, d) = (h', m', d').
Proof.
  intros V V' E.
  assert (T : islamic_lt h m d h' m' d' \/ islamic_lt h' m' d' h m d
              \/ (h = h' /\ m = m' /\ d = d')) by (unfold islamic_lt; lia).
  destruct T as [T | [T | (-> & -> & ->)]].
  - pose proof (islamic_jdn_mono _ _ _ _ _ _ V V' T). lia.
  - pose proof (islamic_jdn_mono _ _ _ _ _ _ V' V T). lia.
  - reflexivity.
Qed.

(* ... and onto the days from the epoch on: a bijection between valid dates and days *)
Theorem islamic_jdn_surj n : islamic_epoch <= n ->
  exists h m d, islamic_valid h m d = true /\ islamic_jdn h m d = n.
Proof.
  intros Hn. replace n with (islamic_epoch + (n - islamic_epoch)) by lia.
  assert (0 <= n - islamic_epoch) as Hk by lia. revert Hk. generalize (n - islamic_epoch) as k.
  intros k Hk. pattern k. apply natlike_ind; [| |exact Hk].
  - exists 1, 1, 1. split; reflexivity.
  - intros x Hx (h & m & d & V & E).
    pose proof (islamic_next_valid h m d V) as V'. pose proof (islamic_jdn_next h m d V) as E'.
    destruct (islamic_next h m d) as [[h' m'] d'].
    exists h', m', d'. split; [exact V'|lia].
Qed.

(* a date of year h lies below the first day of every later year *)
Lemma islamic_year_of_day h m d H : islamic_valid h m d = true ->
  islamic_jdn h m d < islamic_jdn (H + 1) 1 1 -> h <= H.
Proof.
  intros V L. destruct (Z_le_gt_dec h H) as [?|G]; [assumption|exfalso].
  pose proof (islamic_year_bounds _ _ _ V). pose proof (islamic_newyear_mono (H + 1) h ltac:(lia)). lia.
Qed.
Print Assumptions islamic_jdn_surj.
