(* PrecessionBack: going there and back.
   Equatorial (IAU 1976): the polynomials for the reverse trip, zeta(T+t, -t), z(T+t, -t),
   theta(T+t, -t), are EXACTLY -z(T,t), -zeta(T,t), -theta(T,t) (polynomial identities), so the
   composed rotation is the identity, not merely close to it.
   Ecliptical: eta(T+t,-t) + eta(T,t) = -0.00001 t^2 arcsec, p(T+t,-t) = -p(T,t), and
   Pi(T+t,-t) - Pi(T,t) - p(T,t) = 0.0001 t + 0.000042 T^2 t + 0.000042 T t^2 + 0.000006 t^3 arcsec:
   the composed rotation differs from the identity by a commutator of size
   2 |eta'| |delta| + |eta' + eta|; chords (Euclidean distance of unit vectors) measure it. *)
From Coq Require Import Reals ZArith Lra Lia Psatz Nsatz.
From Interval Require Import Tactic.
From PyLib Require Import PyVal Ideal Sphere.
From Spec Require Import AngleSpec Precession.
Open Scope R_scope.

(* ------------------------------------------------------------------ *)
(** * equatorial: exact inverse *)

Lemma zeta_back T t : zeta_as (T + t) (- t) = - z_as T t.
Proof. unfold zeta_as, z_as. dec_norm. field. Qed.
Lemma z_back T t : z_as (T + t) (- t) = - zeta_as T t.
Proof. unfold zeta_as, z_as. dec_norm. field. Qed.
Lemma theta_back T t : theta_as (T + t) (- t) = - theta_as T t.
Proof. unfold theta_as. dec_norm. field. Qed.

Lemma cen_add j0 j1 : cen J2000 j1 = cen J2000 j0 + cen j0 j1.
Proof. unfold cen. field. Qed.
Lemma cen_opp j0 j1 : cen j1 j0 = - cen j0 j1.
Proof. unfold cen. field. Qed.

Lemma d2r_opp_div x : d2r (- x / 3600) = - d2r (x / 3600).
Proof. unfold d2r. field. Qed.

(* the rotation of the reverse trip undoes the rotation of the forward trip *)
Theorem rot_equ_there_and_back j0 j1 v :
  let T := cen J2000 j0 in let t := cen j0 j1 in
  let T' := cen J2000 j1 in let t' := cen j1 j0 in
  rot_equ (d2r (zeta_as T' t' / 3600)) (d2r (z_as T' t' / 3600)) (d2r (theta_as T' t' / 3600))
    (rot_equ (d2r (zeta_as T t / 3600)) (d2r (z_as T t / 3600)) (d2r (theta_as T t / 3600)) v) = v.
Proof.
  intros T t T' t'. unfold T', t'. rewrite (cen_add j0 j1), (cen_opp j0 j1). fold T t.
  rewrite zeta_back, z_back, theta_back. rewrite !d2r_opp_div. apply rot_equ_inv.
Qed.

(* ------------------------------------------------------------------ *)
(** * chords: Euclidean distance between vectors; rotations are isometries and move a vector by
      at most the arc *)
Definition vadd (u v : vec) : vec :=
  let '(a, b, c) := u in let '(d, e, f) := v in (a + d, b + e, c + f).
Definition vsub (u v : vec) : vec :=
  let '(a, b, c) := u in let '(d, e, f) := v in (a - d, b - e, c - f).
Definition vnorm (u : vec) : R := sqrt (dot u u).
Definition chord (u v : vec) : R := vnorm (vsub u v).

Lemma dot_self_nonneg u : 0 <= dot u u.
Proof. destruct u as [[x y] z]. unfold dot. nra. Qed.

Lemma vnorm_nonneg u : 0 <= vnorm u.
Proof. apply sqrt_pos. Qed.

Lemma vnorm_sqr u : vnorm u * vnorm u = dot u u.
Proof. apply sqrt_sqrt, dot_self_nonneg. Qed.

Lemma dot_CS a b : dot a b * dot a b <= dot a a * dot b b.
Proof.
  destruct a as [[a1 a2] a3], b as [[b1 b2] b3]. unfold dot.
  assert (H : (a1 * a1 + a2 * a2 + a3 * a3) * (b1 * b1 + b2 * b2 + b3 * b3)
              - (a1 * b1 + a2 * b2 + a3 * b3) * (a1 * b1 + a2 * b2 + a3 * b3)
              = (a1 * b2 - a2 * b1) * (a1 * b2 - a2 * b1) + (a1 * b3 - a3 * b1) * (a1 * b3 - a3 * b1)
                + (a2 * b3 - a3 * b2) * (a2 * b3 - a3 * b2)) by ring.
  pose proof (Rle_0_sqr (a1 * b2 - a2 * b1)). pose proof (Rle_0_sqr (a1 * b3 - a3 * b1)).
  pose proof (Rle_0_sqr (a2 * b3 - a3 * b2)). unfold Rsqr in *. lra.
Qed.

Lemma dot_le_norms a b : dot a b <= vnorm a * vnorm b.
Proof.
  pose proof (dot_CS a b) as H. pose proof (vnorm_nonneg a). pose proof (vnorm_nonneg b).
  rewrite <- (vnorm_sqr a), <- (vnorm_sqr b) in H.
  destruct (Rle_dec (dot a b) 0); [nra|].
  apply Rnot_lt_le. intro Hc. assert (0 <= vnorm a * vnorm b) by nra. nra.
Qed.

Lemma dot_vadd a b : dot (vadd a b) (vadd a b) = dot a a + 2 * dot a b + dot b b.
Proof. destruct a as [[? ?] ?], b as [[? ?] ?]. unfold dot, vadd. ring. Qed.

Lemma vnorm_triangle a b : vnorm (vadd a b) <= vnorm a + vnorm b.
Proof.
  pose proof (vnorm_nonneg a). pose proof (vnorm_nonneg b).
  unfold vnorm at 1. rewrite <- (sqrt_square (vnorm a + vnorm b)) by lra.
  apply sqrt_le_1_alt. rewrite dot_vadd. pose proof (dot_le_norms a b).
  pose proof (vnorm_sqr a). pose proof (vnorm_sqr b). nra.
Qed.

Lemma vsub_split u v w : vsub u w = vadd (vsub u v) (vsub v w).
Proof. destruct u as [[? ?] ?], v as [[? ?] ?], w as [[? ?] ?]. unfold vsub, vadd. apply vec_eq; ring. Qed.

Lemma chord_triangle u v w : chord u w <= chord u v + chord v w.
Proof. unfold chord. rewrite (vsub_split u v w). apply vnorm_triangle. Qed.

Lemma Rx_vsub a u v : Rx a (vsub u v) = vsub (Rx a u) (Rx a v).
Proof. destruct u as [[? ?] ?], v as [[? ?] ?]. unfold Rx, vsub. apply vec_eq; ring. Qed.
Lemma Rz_vsub a u v : Rz a (vsub u v) = vsub (Rz a u) (Rz a v).
Proof. destruct u as [[? ?] ?], v as [[? ?] ?]. unfold Rz, vsub. apply vec_eq; ring. Qed.

Lemma vnorm_Rx a v : vnorm (Rx a v) = vnorm v.
Proof. unfold vnorm. rewrite dot_Rx. reflexivity. Qed.
Lemma vnorm_Rz a v : vnorm (Rz a v) = vnorm v.
Proof. unfold vnorm. rewrite dot_Rz. reflexivity. Qed.

Lemma chord_Rx a u v : chord (Rx a u) (Rx a v) = chord u v.
Proof. unfold chord. rewrite <- Rx_vsub. apply vnorm_Rx. Qed.
Lemma chord_Rz a u v : chord (Rz a u) (Rz a v) = chord u v.
Proof. unfold chord. rewrite <- Rz_vsub. apply vnorm_Rz. Qed.

(* sin^2 x <= x^2 and 2 - 2 cos a <= a^2 (chord <= arc) *)
Lemma sin_sqr_le x : sin x * sin x <= x * x.
Proof.
  assert (Hpos : forall y, 0 < y -> sin y * sin y <= y * y).
  { intros y Hy. destruct (Rle_dec 1 y) as [H1|H1].
    - pose proof (SIN_bound y). nra.
    - assert (0 <= sin y) by (apply sin_ge_0; [lra | pose proof PI_RGT_0; pose proof PI2_1; lra]).
      pose proof (sin_lt_x y Hy). nra. }
  destruct (Rtotal_order x 0) as [H|[H|H]].
  - pose proof (Hpos (- x) ltac:(lra)) as Hn. rewrite sin_neg in Hn. nra.
  - subst x. rewrite sin_0. lra.
  - apply Hpos. exact H.
Qed.

Lemma two_minus_two_cos a : 2 - 2 * cos a <= a * a.
Proof.
  pose proof (hav_cos a) as H. unfold hav in H.
  pose proof (sin_sqr_le (a / 2)). nra.
Qed.

Lemma chord_Rz_self a v : chord (Rz a v) v <= Rabs a * vnorm v.
Proof.
  unfold chord, vnorm. rewrite <- (sqrt_Rsqr_abs a), <- sqrt_mult_alt by apply Rle_0_sqr.
  apply sqrt_le_1_alt. destruct v as [[x y] z]. unfold Rz, vsub, dot, Rsqr.
  pose proof (two_minus_two_cos a) as Hc. pose proof (sin2_eq a) as Hs.
  assert (E : (cos a * x - sin a * y - x) * (cos a * x - sin a * y - x)
              + (sin a * x + cos a * y - y) * (sin a * x + cos a * y - y) + (z - z) * (z - z)
              = (2 - 2 * cos a) * (x * x + y * y)).
  { nsatz. }
  rewrite E. assert (0 <= x * x + y * y) by nra. assert (0 <= z * z) by nra. nra.
Qed.

Lemma chord_Rx_self a v : chord (Rx a v) v <= Rabs a * vnorm v.
Proof.
  unfold chord, vnorm. rewrite <- (sqrt_Rsqr_abs a), <- sqrt_mult_alt by apply Rle_0_sqr.
  apply sqrt_le_1_alt. destruct v as [[x y] z]. unfold Rx, vsub, dot, Rsqr.
  pose proof (two_minus_two_cos a) as Hc. pose proof (sin2_eq a) as Hs.
  assert (E : (x - x) * (x - x) + (cos a * y - sin a * z - y) * (cos a * y - sin a * z - y)
              + (sin a * y + cos a * z - z) * (sin a * y + cos a * z - z)
              = (2 - 2 * cos a) * (y * y + z * z)).
  { nsatz. }
  rewrite E. assert (0 <= y * y + z * z) by nra. assert (0 <= x * x) by nra. nra.
Qed.

(* a rotation about z by d, conjugating a rotation about x by a, differs from the latter only by
   the commutator: chord <= 2 |a| |d| |w| *)
Lemma commutator_identity a d w :
  vsub (Rz d (Rx a (Rz (- d) w))) (Rx a w)
  = vadd (vsub (Rz d (vsub (Rx a w) w)) (vsub (Rx a w) w))
         (Rz d (vsub (Rx a (vsub (Rz (- d) w) w)) (vsub (Rz (- d) w) w))).
Proof.
  destruct w as [[x y] z]. unfold Rz, Rx, vsub, vadd. rewrite cos_neg, sin_neg.
  pose proof (sin2_eq d) as Hs.
  apply vec_eq; nsatz.
Qed.

Lemma chord_commutator a d w :
  chord (Rz d (Rx a (Rz (- d) w))) (Rx a w) <= 2 * Rabs a * Rabs d * vnorm w.
Proof.
  unfold chord at 1. rewrite commutator_identity.
  eapply Rle_trans; [apply vnorm_triangle|].
  set (y := vsub (Rx a w) w). set (u := vsub (Rz (- d) w) w).
  assert (Hy : vnorm y <= Rabs a * vnorm w) by apply chord_Rx_self.
  assert (Hu : vnorm u <= Rabs d * vnorm w).
  { pose proof (chord_Rz_self (- d) w) as H. rewrite Rabs_Ropp in H. exact H. }
  assert (H1 : vnorm (vsub (Rz d y) y) <= Rabs d * vnorm y) by apply chord_Rz_self.
  assert (H2 : vnorm (Rz d (vsub (Rx a u) u)) <= Rabs a * vnorm u).
  { rewrite vnorm_Rz. apply chord_Rx_self. }
  pose proof (Rabs_pos a). pose proof (Rabs_pos d). pose proof (vnorm_nonneg w).
  pose proof (vnorm_nonneg y). pose proof (vnorm_nonneg u).
  nra.
Qed.

(* ------------------------------------------------------------------ *)
(** * ecliptical: there and back is within a small chord of the identity *)

(* mismatch of the reverse-trip polynomials, arcseconds *)
Definition dPi_as (T t : R) : R :=
  0.0001 * t + 0.000042 * T * T * t + 0.000042 * T * t * t + 0.000006 * t * t * t.

Lemma p_back T t : p_as (T + t) (- t) = - p_as T t.
Proof. unfold p_as. dec_norm. field. Qed.
Lemma pi_back T t : pi_as (T + t) (- t) = pi_as T t + p_as T t + dPi_as T t.
Proof. unfold pi_as, p_as, dPi_as. dec_norm. field. Qed.
Lemma eta_back T t : eta_as (T + t) (- t) = - eta_as T t - 0.00001 * t * t.
Proof. unfold eta_as. dec_norm. field. Qed.

(* generic: angles of the two trips related by  P' = -P,  Pi' = Pi + P + dl,  E' = -E - de *)
Theorem rot_ecl_back_chord E Pi P dl de v :
  chord (rot_ecl (- E - de) (Pi + P + dl) (- P) (rot_ecl E Pi P v)) v
  <= (2 * Rabs (- E - de) * Rabs dl + Rabs de) * vnorm v.
Proof.
  unfold rot_ecl.
  rewrite (Rz_add (- (Pi + P + dl)) (P + Pi)).
  replace (- (Pi + P + dl) + (P + Pi)) with (- dl) by ring.
  replace (- P + (Pi + P + dl)) with (Pi + dl) by ring.
  rewrite <- (Rz_add Pi dl).
  set (w0 := Rz (- Pi) v). set (w := Rx (- E) w0). set (a := - (- E - de)).
  assert (Hv : v = Rz Pi w0) by (unfold w0; rewrite Rz_inv'; reflexivity).
  match goal with |- chord ?X v <= _ =>
    replace (chord X v) with (chord X (Rz Pi w0)) by (f_equal; symmetry; exact Hv) end.
  rewrite chord_Rz.
  eapply Rle_trans; [apply (chord_triangle _ (Rx a w) _)|].
  assert (H1 : chord (Rz dl (Rx a (Rz (- dl) w))) (Rx a w) <= 2 * Rabs a * Rabs dl * vnorm w)
    by apply chord_commutator.
  assert (H2 : chord (Rx a w) w0 <= Rabs de * vnorm w0).
  { unfold w. rewrite Rx_add. replace (a + - E) with de by (unfold a; ring). apply chord_Rx_self. }
  assert (Hw : vnorm w = vnorm v) by (unfold w, w0; rewrite vnorm_Rx, vnorm_Rz; reflexivity).
  assert (Hw0 : vnorm w0 = vnorm v) by (unfold w0; apply vnorm_Rz).
  rewrite Hw in H1. rewrite Hw0 in H2.
  replace (Rabs (- E - de)) with (Rabs a) by (unfold a; apply Rabs_Ropp).
  lra.
Qed.

Lemma Rabs_d2r x : Rabs (d2r x) = Rabs x * (PI / 180).
Proof.
  unfold d2r. rewrite Rabs_mult. f_equal. apply Rabs_right.
  pose proof PI_RGT_0. apply Rle_ge. apply Rlt_le. apply Rdiv_lt_0_compat; lra.
Qed.

Lemma Rabs_div3600 a : Rabs (a / 3600) = Rabs a / 3600.
Proof. unfold Rdiv. rewrite Rabs_mult, (Rabs_right (/ 3600)) by lra. reflexivity. Qed.

(* the three rotation angles of the ecliptical routine, radians *)
Definition ecl_E (T t : R) : R := d2r (eta_as T t / 3600).
Definition ecl_Pi (T t : R) : R := d2r (pi_as T t / 3600 + pi0_deg).
Definition ecl_P (T t : R) : R := d2r (p_as T t / 3600).

(* starting and final epoch both within 5 centuries of J2000: the there-and-back image of any
   vector is within 6e-9 |v| of v (chord; 6e-9 rad = 3.44e-7 degree on the unit sphere) *)
Theorem rot_ecl_there_and_back T U v : -5 <= T <= 5 -> -5 <= U <= 5 ->
  let t := U - T in
  chord (rot_ecl (ecl_E U (- t)) (ecl_Pi U (- t)) (ecl_P U (- t))
           (rot_ecl (ecl_E T t) (ecl_Pi T t) (ecl_P T t) v)) v
  <= 6 / 1000000000 * vnorm v.
Proof.
  intros HT HU t.
  set (de := d2r (0.00001 * t * t / 3600)). set (dl := d2r (dPi_as T t / 3600)).
  assert (EU : U = T + t) by (unfold t; ring).
  assert (E1 : ecl_E U (- t) = - ecl_E T t - de).
  { unfold ecl_E, de. rewrite EU, eta_back. unfold d2r. field. }
  assert (E2 : ecl_Pi U (- t) = ecl_Pi T t + ecl_P T t + dl).
  { unfold ecl_Pi, ecl_P, dl. rewrite EU, pi_back. unfold d2r. field. }
  assert (E3 : ecl_P U (- t) = - ecl_P T t).
  { unfold ecl_P. rewrite EU, p_back. unfold d2r. field. }
  rewrite E2, E3. rewrite E1 at 1.
  eapply Rle_trans; [apply rot_ecl_back_chord|].
  apply Rmult_le_compat_r; [apply vnorm_nonneg|].
  rewrite <- E1.
  assert (B1 : Rabs (eta_as U (- t)) <= 480).
  { unfold t, eta_as. cbv [Q2R QArith_base.Qnum QArith_base.Qden]. interval. }
  assert (B2 : Rabs (dPi_as T t) <= 4 / 100).
  { unfold t, dPi_as. cbv [Q2R QArith_base.Qnum QArith_base.Qden]. interval. }
  assert (B3 : Rabs (0.00001 * t * t) <= 1 / 1000).
  { assert (-10 <= t <= 10) by (unfold t; lra). cbv [Q2R QArith_base.Qnum QArith_base.Qden].
    assert (0 <= t * t <= 100) by nra. rewrite Rabs_right; lra. }
  unfold ecl_E, dl, de. rewrite !Rabs_d2r.
  rewrite !Rabs_div3600.
  pose proof (Rabs_pos (eta_as U (- t))). pose proof (Rabs_pos (dPi_as T t)).
  pose proof (Rabs_pos (0.00001 * t * t)).
  assert (HPI : 0 < PI / 180 <= 1746 / 100000) by (split; interval).
  set (x := Rabs (eta_as U (- t))) in *. set (y := Rabs (dPi_as T t)) in *.
  set (w := Rabs (0.00001 * t * t)) in *. set (k := PI / 180) in *.
  assert (x * y <= 480 * (4 / 100)) by nra.
  assert (k * k <= 1746 / 100000 * (1746 / 100000)) by nra.
  assert (0 <= x * y) by nra.
  assert (x * y * (k * k) <= 480 * (4 / 100) * (1746 / 100000 * (1746 / 100000))) by nra.
  assert (w * k <= 1 / 1000 * (1746 / 100000)) by nra.
  replace (2 * (x / 3600 * k) * (y / 3600 * k) + w / 3600 * k)
    with (2 / 12960000 * (x * y * (k * k)) + (w * k) / 3600) by field.
  lra.
Qed.

(* ---- from chords to the angle between unit vectors ---- *)
Lemma chord_sqr_unit u v : dot u u = 1 -> dot v v = 1 ->
  chord u v * chord u v = 2 - 2 * dot u v.
Proof.
  intros Hu Hv. unfold chord. rewrite vnorm_sqr.
  destruct u as [[a b] c], v as [[d e] f]. unfold dot, vsub in *. nra.
Qed.

(* a chord of 6e-9 between unit vectors is an angle below 1e-6 degree: cos(1e-6 deg) <= u.v *)
Theorem chord_6e9_within_microdegree u v : dot u u = 1 -> dot v v = 1 ->
  chord u v <= 6 / 1000000000 -> cos (d2r (1 / 1000000)) <= dot u v.
Proof.
  intros Hu Hv Hc. pose proof (chord_sqr_unit u v Hu Hv) as E.
  assert (0 <= chord u v) by apply vnorm_nonneg.
  assert (chord u v * chord u v <= 36 / 1000000000000000000) by nra.
  assert (cos (d2r (1 / 1000000)) <= 1 - 18 / 1000000000000000000).
  { unfold d2r. interval with (i_prec 200). }
  lra.
Qed.
