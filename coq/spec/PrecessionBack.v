(* PrecessionBack: going there and back.
   Equatorial (IAU 1976): the polynomials for the reverse trip, zeta(T+t, -t), z(T+t, -t),
   theta(T+t, -t), are EXACTLY -z(T,t), -zeta(T,t), -theta(T,t) (polynomial identities), so the
   composed rotation is the identity, not merely close to it.
   Ecliptical: eta(T+t,-t) + eta(T,t) = -0.00001 t^2 arcsec, p(T+t,-t) = -p(T,t), and
   Pi(T+t,-t) - Pi(T,t) - p(T,t) = 0.0001 t + 0.000042 T^2 t + 0.000042 T t^2 + 0.000006 t^3 arcsec:
   the composed rotation differs from the identity by a commutator of size
   2 |eta'| |delta| + |eta' + eta|; chords (Euclidean distance of unit vectors) measure it. *)
From Coq Require Import Reals ZArith Lra Lia Psatz.
From Interval Require Import Tactic.
From PyLib Require Import PyVal Ideal Sphere.
From Spec Require Import AngleSpec Precession.
Open Scope R_scope.

(* ------------------------------------------------------------------ *)
(** * equatorial: exact inverse *)

Lemma zeta_back T t : zeta_as (T + t) (- t) = - z_as T t.
Proof. unfold zeta_as, z_as. dec_norm. field. Qed.
Lemma z_back T t : z_as (T + t) (- t) = - zeta_as T t.
Proof. unfold zeta_as, z_as. dec_norm. field. Qed.
Lemma theta_back T t : theta_as (T + t) (- t) = - theta_as T t.
Proof. unfold theta_as. dec_norm. field. Qed.

Lemma cen_add j0 j1 : cen J2000 j1 = cen J2000 j0 + cen j0 j1.
Proof. unfold cen. field. Qed.
Lemma cen_opp j0 j1 : cen j1 j0 = - cen j0 j1.
Proof. unfold cen. field. Qed.

Lemma d2r_opp_div x : d2r (- x / 3600) = - d2r (x / 3600).
Proof. unfold d2r. field. Qed.

(* the rotation of the reverse trip undoes the rotation of the forward trip *)
Theorem rot_equ_there_and_back j0 j1 v :
  let T := cen J2000 j0 in let t := cen j0 j1 in
  let T' := cen J2000 j1 in let t' := cen j1 j0 in
  rot_equ (d2r (zeta_as T' t' / 3600)) (d2r (z_as T' t' / 3600)) (d2r (theta_as T' t' / 3600))
    (rot_equ (d2r (zeta_as T t / 3600)) (d2r (z_as T t / 3600)) (d2r (theta_as T t / 3600)) v) = v.
Proof.
  intros T t T' t'. unfold T', t'. rewrite (cen_add j0 j1), (cen_opp j0 j1). fold T t.
  rewrite zeta_back, z_back, theta_back. rewrite !d2r_opp_div. apply rot_equ_inv.
Qed.
