(* MoonFinder: hand-written spec lemmas for the lunar event finders (C15), independent of the code.
   A finder computes k = round((fractional year - y0) * rate) (+ a target offset), a mean instant
   mean(k) and a periodic correction c(k) bounded by the sum C of its amplitudes.
   Here: the index k is non-decreasing in the fractional year and takes every integer value;
   with |c| <= C, consecutive mean instants B +- D apart and 2C + D < B the results are strictly
   increasing in k and consecutive results are B +- (2C + D) apart. *)
From Coq Require Import Reals ZArith Lra Lia.
From PyLib Require Import Ideal.
Open Scope R_scope.

Lemma abs_le_inv x a : Rabs x <= a -> - a <= x <= a.
Proof. unfold Rabs. destruct (Rcase_abs x); lra. Qed.
Lemma abs_le x a : - a <= x <= a -> Rabs x <= a.
Proof. unfold Rabs. destruct (Rcase_abs x); lra. Qed.

Lemma Rround_bounds x : x - 1 / 2 <= IZR (Rround x) <= x + 1 / 2.
Proof.
  unfold Rround. destruct (Rfloor_spec x) as [H1 H2].
  destruct (Rlt_dec (x - IZR (Rfloor x)) (1 / 2)) as [Ha|Ha].
  - lra.
  - destruct (Rlt_dec (1 / 2) (x - IZR (Rfloor x))) as [Hb|Hb].
    + rewrite plus_IZR. lra.
    + destruct (Z.even (Rfloor x)); [|rewrite plus_IZR]; lra.
Qed.

Lemma Rround_mono x y : x <= y -> (Rround x <= Rround y)%Z.
Proof.
  intro H. destruct (Req_dec x y) as [->|Hn]; [lia|].
  assert (Hlt : x < y) by lra.
  pose proof (Rround_bounds x) as [_ Hx]. pose proof (Rround_bounds y) as [Hy _].
  assert (IZR (Rround x) < IZR (Rround y) + 1) by lra.
  rewrite <- plus_IZR in H0. apply lt_IZR in H0. lia.
Qed.

Lemma Rround_IZR n : Rround (IZR n) = n.
Proof.
  unfold Rround. rewrite Rfloor_IZR.
  destruct (Rlt_dec (IZR n - IZR n) (1 / 2)); [reflexivity|lra].
Qed.

(* Python's round(x, 0) on a float, as the model computes it *)
Lemma Rround_nd_0 x : Rround_nd x 0 = IZR (Rround x).
Proof.
  unfold Rround_nd, pow10. simpl. replace (x * 1) with x by lra. field.
Qed.

(* the index: non-decreasing in the fractional year, and onto *)
Lemma index_mono (y0 rate yr1 yr2 : R) : 0 < rate -> yr1 <= yr2 ->
  (Rround ((yr1 - y0) * rate) <= Rround ((yr2 - y0) * rate))%Z.
Proof. intros Hr H. apply Rround_mono. nra. Qed.

Lemma index_onto (y0 rate : R) (n : Z) : 0 < rate ->
  exists yr, Rround ((yr - y0) * rate) = n.
Proof.
  intro Hr. exists (y0 + IZR n / rate).
  replace ((y0 + IZR n / rate - y0) * rate) with (IZR n) by (field; lra).
  apply Rround_IZR.
Qed.

(* the index changes by at most one lunation when the year fraction advances by less than 1/rate *)
Lemma index_step (y0 rate yr1 yr2 : R) : 0 < rate -> yr1 <= yr2 -> (yr2 - yr1) * rate <= 1 ->
  (Rround ((yr2 - y0) * rate) <= Rround ((yr1 - y0) * rate) + 2)%Z.
Proof.
  intros Hr H Hs.
  pose proof (Rround_bounds ((yr2 - y0) * rate)) as [_ H2].
  pose proof (Rround_bounds ((yr1 - y0) * rate)) as [H1 _].
  assert (IZR (Rround ((yr2 - y0) * rate)) < IZR (Rround ((yr1 - y0) * rate)) + 3) by nra.
  rewrite <- plus_IZR in H0. apply lt_IZR in H0. lia.
Qed.

(* results: strictly increasing in k, one mean month apart within 2C + D *)
Lemma results_spacing (B C D : R) (r mean c : Z -> R) :
  (forall k, r k = mean k + c k) ->
  (forall k, Rabs (c k) <= C) ->
  (forall k, Rabs (mean (k + 1)%Z - mean k - B) <= D) ->
  2 * C + D < B ->
  forall k, r k < r (k + 1)%Z /\ Rabs (r (k + 1)%Z - r k - B) <= 2 * C + D.
Proof.
  intros Hr Hc Hm Hb k. rewrite !Hr.
  pose proof (abs_le_inv _ _ (Hc k)). pose proof (abs_le_inv _ _ (Hc (k + 1)%Z)).
  pose proof (abs_le_inv _ _ (Hm k)).
  split; [lra|]. apply abs_le. lra.
Qed.

Lemma results_increasing (B C D : R) (r mean c : Z -> R) :
  (forall k, r k = mean k + c k) ->
  (forall k, Rabs (c k) <= C) ->
  (forall k, Rabs (mean (k + 1)%Z - mean k - B) <= D) ->
  2 * C + D < B ->
  forall k n, (0 < n)%Z -> r k < r (k + n)%Z.
Proof.
  intros Hr Hc Hm Hb k n Hn.
  pattern n. apply Zlt_lower_bound_ind with (z := 1%Z); [|lia].
  intros x IH Hx. destruct (Z.eq_dec x 1) as [->|Hne].
  - apply (results_spacing B C D r mean c Hr Hc Hm Hb k).
  - assert (r k < r (k + (x - 1))%Z) by (apply IH; lia).
    pose proof (proj1 (results_spacing B C D r mean c Hr Hc Hm Hb (k + (x - 1))%Z)).
    replace (k + (x - 1) + 1)%Z with (k + x)%Z in H0 by lia. lra.
Qed.

(* the result stays within the correction amplitude of the mean instant; a query whose own
   mean-instant estimate q satisfies |mean k - q| <= (1/2 + off) * B + drift is therefore within
   that distance + C of the result *)
Lemma result_near_query (B C off drift q meank ck : R) :
  Rabs ck <= C -> Rabs (meank - q) <= (1 / 2 + off) * B + drift ->
  Rabs (meank + ck - q) <= (1 / 2 + off) * B + drift + C.
Proof.
  intros H1 H2. apply abs_le_inv in H1, H2. apply abs_le. lra.
Qed.

(* amplitudes: the sums of |coefficient| of the periodic corrections (Meeus ch. 49-52, E <= 1.11
   on |T| <= 41) stay far below half a month, so 2C < B for every finder *)
Lemma amplitudes_small :
  2 * 0.75 < 29.530588861 /\ 2 * 3.2 < 27.55454989 /\ 2 * 0.8 < 27.212220817 /\ 2 * 2.0 < 27.321582247.
Proof. lra. Qed.

(* ---- results given as "linear mean instant + bounded deviation" on a range of indices ----
   r n = J0 + B (n + off) + dev n  with |dev n| <= C for every index n in the range P
   (P: the epoch argument stays in the window where the amplitude bound was computed). *)
Section LinearMean.
  Variables (J0 B off C : R) (r : Z -> R) (P : Z -> Prop).
  Hypothesis Hdev : forall n, P n -> Rabs (r n - (J0 + B * (IZR n + off))) <= C.
  Hypothesis HC : 2 * C < B.

  Lemma lin_step n : P n -> P (n + 1)%Z ->
    r n < r (n + 1)%Z /\ Rabs (r (n + 1)%Z - r n - B) <= 2 * C.
  Proof.
    intros H1 H2. pose proof (abs_le_inv _ _ (Hdev n H1)) as E1.
    pose proof (abs_le_inv _ _ (Hdev _ H2)) as E2. rewrite plus_IZR in E2.
    split; [lra | apply abs_le; lra].
  Qed.

  Lemma lin_order n1 n2 : P n1 -> P n2 -> (n1 < n2)%Z -> r n1 + (B - 2 * C) <= r n2.
  Proof.
    intros H1 H2 Hlt. pose proof (abs_le_inv _ _ (Hdev n1 H1)) as E1.
    pose proof (abs_le_inv _ _ (Hdev n2 H2)) as E2.
    assert (Hd : 1 <= IZR n2 - IZR n1) by (rewrite <- minus_IZR; apply IZR_le; lia).
    assert (B <= B * (IZR n2 - IZR n1)) by nra. lra.
  Qed.

  Lemma lin_monotone n1 n2 : P n1 -> P n2 -> (n1 <= n2)%Z -> r n1 <= r n2.
  Proof.
    intros H1 H2 Hle. destruct (Z.eq_dec n1 n2) as [-> | N]; [lra |].
    pose proof (lin_order n1 n2 H1 H2 ltac:(lia)). lra.
  Qed.
End LinearMean.
