(* Newton: divided differences and the Newton form of the interpolating polynomial, over the reals.
   Pure real analysis, independent of the code.  Nodes and ordinates are functions nat -> R (a table
   is read through [nth]); everything is stated for a window of nodes s, s+1, ..., s+k.
     dd k s        divided difference f[x_s, ..., x_(s+k)]   (recursion used by Interpolation._newton_diff)
     W s m x       (x - x_s)(x - x_(s+1)) ... (x - x_(s+m-1))
     NF s k x      sum_{m<=k} dd m s * W s m x               (Newton form on the window)
   Main results: the Neville recursion for NF (by induction on k), NF s k (x_j) = y_j on the window for
   pairwise distinct nodes, the Horner scheme evaluates NF, and a polynomial (coefficient list) of
   degree < n that vanishes at n distinct points is identically zero - so the Newton form reproduces
   every polynomial of degree < n from its values. *)
From Coq Require Import Reals List Lra Lia Arith.
Import ListNotations.
Open Scope R_scope.

Lemma neq_sub (a b : R) : a <> b -> a - b <> 0.
Proof. intros H E. apply H. lra. Qed.

Section Nodes.
Variables xf yf : nat -> R.

Fixpoint dd (k s : nat) : R :=
  match k with
  | O => yf s
  | S k' => (dd k' s - dd k' (S s)) / (xf s - xf (s + S k'))
  end.

Fixpoint W (s m : nat) (x : R) : R :=
  match m with O => 1 | S m' => W s m' x * (x - xf (s + m')) end.

Fixpoint NF (s k : nat) (x : R) : R :=
  match k with O => dd 0 s | S k' => NF s k' x + dd (S k') s * W s (S k') x end.

Lemma W_shift s m x : W s (S m) x = (x - xf s) * W (S s) m x.
Proof.
  induction m as [|m IH].
  - simpl. rewrite Nat.add_0_r. ring.
  - change (W s (S (S m)) x) with (W s (S m) x * (x - xf (s + S m))).
    rewrite IH. simpl W. replace (s + S m)%nat with (S (s + m)) by lia. simpl. ring.
Qed.

(* pairwise distinct on the window [s, s+k] *)
Definition distinct_on (s k : nat) : Prop :=
  forall i j, (s <= i <= s + k)%nat -> (s <= j <= s + k)%nat -> i <> j -> xf i <> xf j.

Lemma distinct_sub s k s' k' : (s <= s')%nat -> (s' + k' <= s + k)%nat -> distinct_on s k -> distinct_on s' k'.
Proof. intros A B D i j Hi Hj N. apply D; lia. Qed.

(* Neville's recursion holds for the Newton form *)
Lemma neville k : forall s x, distinct_on s (S k) ->
  (xf (s + S k) - xf s) * NF s (S k) x = (x - xf s) * NF (S s) k x - (x - xf (s + S k)) * NF s k x.
Proof.
  induction k as [|k IH]; intros s x D.
  - assert (N : xf s - xf (s + 1) <> 0).
    { apply neq_sub. apply D; lia. }
    simpl. rewrite !Nat.add_0_r. field. exact N.
  - assert (N : xf s - xf (s + S (S k)) <> 0).
    { apply neq_sub. apply D; lia. }
    assert (IHs : (xf (s + S k) - xf s) * NF s (S k) x = (x - xf s) * NF (S s) k x - (x - xf (s + S k)) * NF s k x)
      by (apply IH; apply (distinct_sub s (S (S k))); [lia | lia | exact D]).
    (* unfold one Newton term on each side *)
    change (NF s (S (S k)) x) with (NF s (S k) x + dd (S (S k)) s * W s (S (S k)) x).
    change (NF (S s) (S k) x) with (NF (S s) k x + dd (S k) (S s) * W (S s) (S k) x).
    assert (E1 : (x - xf s) * W (S s) (S k) x = W s (S (S k)) x) by (rewrite <- W_shift; reflexivity).
    assert (E2 : (x - xf (s + S (S k))) * W s (S k) x
                 = W s (S (S k)) x + (xf (s + S k) - xf (s + S (S k))) * W s (S k) x).
    { change (W s (S (S k)) x) with (W s (S k) x * (x - xf (s + S k))). ring. }
    assert (E3 : dd (S k) (S s) - dd (S k) s = (xf (s + S (S k)) - xf s) * dd (S (S k)) s).
    { change (dd (S (S k)) s) with ((dd (S k) s - dd (S k) (S s)) / (xf s - xf (s + S (S k)))).
      field. exact N. }
    change (NF s (S k) x) with (NF s k x + dd (S k) s * W s (S k) x) in *.
    (* (x - x_s) NF(s+1,k) = IH + (x - x_(s+k+1)) NF(s,k) *)
    assert (A : (x - xf s) * NF (S s) k x
                = (xf (s + S k) - xf s) * (NF s k x + dd (S k) s * W s (S k) x) + (x - xf (s + S k)) * NF s k x)
      by lra.
    transitivity ((xf (s + S (S k)) - xf s) * (NF s k x + dd (S k) s * W s (S k) x)
                  + (dd (S k) (S s) - dd (S k) s) * W s (S (S k)) x).
    + rewrite E3. ring.
    + replace ((x - xf s) * (NF (S s) k x + dd (S k) (S s) * W (S s) (S k) x))
        with ((x - xf s) * NF (S s) k x + dd (S k) (S s) * ((x - xf s) * W (S s) (S k) x)) by ring.
      rewrite E1, A.
      replace ((x - xf (s + S (S k))) * (NF s k x + dd (S k) s * W s (S k) x))
        with ((x - xf (s + S (S k))) * NF s k x + dd (S k) s * ((x - xf (s + S (S k))) * W s (S k) x)) by ring.
      rewrite E2. ring.
Qed.

(* the Newton form passes through every point of its window *)
Theorem NF_interpolates k : forall s j, distinct_on s k -> (s <= j <= s + k)%nat -> NF s k (xf j) = yf j.
Proof.
  induction k as [|k IH]; intros s j D Hj.
  - simpl. replace j with s by lia. reflexivity.
  - assert (N : xf (s + S k) - xf s <> 0).
    { apply neq_sub. apply D; lia. }
    apply (Rmult_eq_reg_l (xf (s + S k) - xf s)); [| exact N].
    rewrite (neville k s (xf j) D).
    assert (D1 : distinct_on (S s) k) by (apply (distinct_sub s (S k)); [lia | lia | exact D]).
    assert (D2 : distinct_on s k) by (apply (distinct_sub s (S k)); [lia | lia | exact D]).
    destruct (Nat.eq_dec j s) as [-> | Hs].
    + rewrite (IH s s D2) by lia. ring.
    + destruct (Nat.eq_dec j (s + S k)) as [-> | He].
      * rewrite (IH (S s) (s + S k)%nat D1) by lia. ring.
      * rewrite (IH (S s) j D1) by lia. rewrite (IH s j D2) by lia. ring.
Qed.

(* Horner evaluation, innermost coefficient first: what Interpolation.__call__ does.
   hornerN c i m x = c_i' + (x - x_i)(c_(i'+1) + (x - x_(i+1))( ... c_(i'+m))) with coefficient index j0 *)
Fixpoint hornerN (c : nat -> R) (i j0 m : nat) (x : R) : R :=
  match m with
  | O => c j0
  | S m' => c j0 + (x - xf i) * hornerN c (S i) (S j0) m' x
  end.

Fixpoint Gsum (c : nat -> R) (i m : nat) (x : R) : R :=
  match m with O => c O | S m' => Gsum c i m' x + c (S m') * W i (S m') x end.

Lemma Gsum_ext c c' i m x : (forall j, (j <= m)%nat -> c j = c' j) -> Gsum c i m x = Gsum c' i m x.
Proof.
  induction m as [|m IH]; intro H; simpl.
  - apply H. lia.
  - rewrite IH by (intros; apply H; lia). rewrite (H (S m)) by lia. reflexivity.
Qed.

Lemma Gsum_shift c i m x : Gsum c i (S m) x = c O + (x - xf i) * Gsum (fun j => c (S j)) (S i) m x.
Proof.
  induction m as [|m IH].
  - simpl. rewrite Nat.add_0_r. ring.
  - change (Gsum c i (S (S m)) x) with (Gsum c i (S m) x + c (S (S m)) * W i (S (S m)) x).
    rewrite IH. rewrite (W_shift i (S m) x).
    change (Gsum (fun j => c (S j)) (S i) (S m) x)
      with (Gsum (fun j => c (S j)) (S i) m x + c (S (S m)) * W (S i) (S m) x).
    ring.
Qed.

Lemma hornerN_Gsum c m : forall i j0 x, hornerN c i j0 m x = Gsum (fun j => c (j0 + j)%nat) i m x.
Proof.
  induction m as [|m IH]; intros i j0 x.
  - simpl. rewrite Nat.add_0_r. reflexivity.
  - simpl hornerN. rewrite IH. rewrite Gsum_shift. rewrite Nat.add_0_r. f_equal. f_equal.
    apply Gsum_ext. intros j _. f_equal. lia.
Qed.

Lemma NF_Gsum s k x : NF s k x = Gsum (fun m => dd m s) s k x.
Proof. induction k as [|k IH]; simpl; [reflexivity | rewrite IH; reflexivity]. Qed.

(* Horner over the divided differences dd 0 0, dd 1 0, ... evaluates the Newton form *)
Theorem horner_is_NF k x : hornerN (fun m => dd m 0) 0 0 k x = NF 0 k x.
Proof. rewrite hornerN_Gsum, NF_Gsum. apply Gsum_ext. intros. reflexivity. Qed.

Corollary horner_interpolates k j : distinct_on 0 k -> (j <= k)%nat ->
  hornerN (fun m => dd m 0) 0 0 k (xf j) = yf j.
Proof. intros D Hj. rewrite horner_is_NF. apply NF_interpolates; [exact D | lia]. Qed.

Lemma hornerN_ext c c' m : forall i j0 x,
  (forall j, (j0 <= j <= j0 + m)%nat -> c j = c' j) -> hornerN c i j0 m x = hornerN c' i j0 m x.
Proof.
  induction m as [|m IH]; intros i j0 x H; simpl.
  - apply H. lia.
  - rewrite (H j0) by lia. rewrite (IH (S i) (S j0) x) by (intros; apply H; lia). reflexivity.
Qed.

End Nodes.

(* ------------------------------------------------------------------ polynomials as coefficient lists *)
Fixpoint peval (p : list R) (x : R) : R :=
  match p with [] => 0 | c :: p' => c + x * peval p' x end.
Fixpoint padd (p q : list R) : list R :=
  match p, q with
  | [], _ => q
  | _, [] => p
  | a :: p', b :: q' => (a + b) :: padd p' q'
  end.
Definition pscale (a : R) (p : list R) : list R := map (Rmult a) p.

Lemma peval_padd p : forall q x, peval (padd p q) x = peval p x + peval q x.
Proof.
  induction p as [|a p IH]; intros q x; simpl; [lra|].
  destruct q as [|b q]; simpl; [lra|]. rewrite IH. ring.
Qed.
Lemma peval_pscale a p x : peval (pscale a p) x = a * peval p x.
Proof. unfold pscale. induction p as [|c p IH]; simpl; [lra|]. rewrite IH. ring. Qed.
Lemma length_padd p : forall q, length (padd p q) = Nat.max (length p) (length q).
Proof.
  induction p as [|a p IH]; intros q; simpl; [reflexivity|].
  destruct q as [|b q]; simpl; [reflexivity|]. rewrite IH. reflexivity.
Qed.
Lemma length_pscale a p : length (pscale a p) = length p.
Proof. apply map_length. Qed.

(* synthetic division by (x - a) *)
Fixpoint pdiv (a : R) (p : list R) : list R :=
  match p with [] => [] | _ :: p' => padd p' (pscale a (pdiv a p')) end.
Lemma length_pdiv a p : length (pdiv a p) = (length p - 1)%nat.
Proof.
  induction p as [|c p IH]; simpl; [reflexivity|].
  rewrite length_padd, length_pscale, IH. lia.
Qed.
Lemma pdiv_spec a p x : peval p x = peval p a + (x - a) * peval (pdiv a p) x.
Proof.
  induction p as [|c p IH]; simpl; [lra|].
  rewrite peval_padd, peval_pscale.
  set (Q := peval (pdiv a p) x) in *. set (Pa := peval p a) in *.
  rewrite IH. ring.
Qed.

Lemma NoDup_map_in {A B} (f : A -> B) (l : list A) :
  (forall a b, In a l -> In b l -> f a = f b -> a = b) -> NoDup l -> NoDup (map f l).
Proof.
  induction l as [|a l IH]; intros Hinj ND; simpl; [constructor|].
  inversion ND as [|? ? Hn ND']; subst. constructor.
  - intro Hin. apply in_map_iff in Hin. destruct Hin as (b & E & Hb).
    assert (b = a) by (apply Hinj; [right; exact Hb | left; reflexivity | exact E]). subst. contradiction.
  - apply IH; [| exact ND']. intros x y Hx Hy. apply Hinj; right; assumption.
Qed.

(* a polynomial of degree < n with n distinct zeros vanishes identically *)
Theorem poly_zero : forall n p roots, (length p <= n)%nat -> length roots = n -> NoDup roots ->
  (forall r, In r roots -> peval p r = 0) -> forall x, peval p x = 0.
Proof.
  induction n as [|n IH]; intros p roots Lp Lr ND Hz x.
  - destruct p; [reflexivity | simpl in Lp; lia].
  - destruct roots as [|a rest]; [discriminate|].
    inversion ND as [|? ? Hnotin ND']; subst.
    rewrite (pdiv_spec a p x). rewrite (Hz a) by (left; reflexivity).
    rewrite (IH (pdiv a p) rest); [ring | rewrite length_pdiv; lia | simpl in Lr; lia | exact ND' |].
    intros r Hr.
    assert (Hra : r - a <> 0) by (apply neq_sub; intro E; subst; contradiction).
    assert (E : (r - a) * peval (pdiv a p) r = 0).
    { pose proof (pdiv_spec a p r) as D. rewrite (Hz r) in D by (right; exact Hr).
      rewrite (Hz a) in D by (left; reflexivity). lra. }
    apply Rmult_integral in E. destruct E; [contradiction | assumption].
Qed.

(* the Newton form as a coefficient list, to compare it with an arbitrary polynomial *)
Section NewtonPoly.
Variables xf yf : nat -> R.
Definition pmulXa (a : R) (q : list R) : list R := padd (0 :: q) (pscale (- a) q).
Lemma peval_pmulXa a q x : peval (pmulXa a q) x = (x - a) * peval q x.
Proof. unfold pmulXa. rewrite peval_padd, peval_pscale. simpl. ring. Qed.
Lemma length_pmulXa a q : length (pmulXa a q) = S (length q).
Proof. unfold pmulXa. rewrite length_padd, length_pscale. cbn [length]. lia. Qed.

Fixpoint pW (s m : nat) : list R :=
  match m with O => [1] | S m' => pmulXa (xf (s + m')) (pW s m') end.
Lemma peval_pW s m x : peval (pW s m) x = W xf s m x.
Proof. induction m as [|m IH]; simpl; [lra|]. rewrite peval_pmulXa, IH. ring. Qed.
Lemma length_pW s m : length (pW s m) = S m.
Proof. induction m as [|m IH]; simpl; [reflexivity|]. rewrite length_pmulXa, IH. reflexivity. Qed.

Fixpoint pNF (s k : nat) : list R :=
  match k with
  | O => [dd xf yf 0 s]
  | S k' => padd (pNF s k') (pscale (dd xf yf (S k') s) (pW s (S k')))
  end.
Lemma peval_pNF s k x : peval (pNF s k) x = NF xf yf s k x.
Proof.
  induction k as [|k IH]; [simpl; lra|].
  change (pNF s (S k)) with (padd (pNF s k) (pscale (dd xf yf (S k) s) (pW s (S k)))).
  rewrite peval_padd, peval_pscale, peval_pW, IH. reflexivity.
Qed.
Lemma length_pNF s k : (length (pNF s k) <= S k)%nat.
Proof.
  induction k as [|k IH]; [simpl; lia|].
  change (pNF s (S k)) with (padd (pNF s k) (pscale (dd xf yf (S k) s) (pW s (S k)))).
  rewrite length_padd, length_pscale, length_pW. lia.
Qed.

(* the Newton form through n = k+1 pairwise distinct nodes reproduces every polynomial of degree <= k
   (coefficient list of length <= k+1) from its values at the nodes, at EVERY x *)
Theorem NF_reproduces k p : distinct_on xf 0 k -> (length p <= S k)%nat ->
  (forall j, (j <= k)%nat -> yf j = peval p (xf j)) ->
  forall x, NF xf yf 0 k x = peval p x.
Proof.
  intros D Lp Hy x.
  set (q := padd p (pscale (-1) (pNF 0 k))).
  assert (Hq : forall t, peval q t = peval p t - NF xf yf 0 k t).
  { intro t. unfold q. rewrite peval_padd, peval_pscale, peval_pNF. ring. }
  assert (Z : peval q x = 0).
  { apply (poly_zero (S k) q (map xf (seq 0 (S k)))).
    - unfold q. rewrite length_padd, length_pscale. pose proof (length_pNF 0 k). lia.
    - rewrite map_length, seq_length. reflexivity.
    - apply NoDup_map_in; [| apply seq_NoDup].
      intros i j Hi Hj E. apply in_seq in Hi. apply in_seq in Hj.
      destruct (Nat.eq_dec i j) as [|N]; [assumption|]. exfalso. apply (D i j); [lia | lia | exact N | exact E].
    - intros r Hr. apply in_map_iff in Hr. destruct Hr as (j & <- & Hj). apply in_seq in Hj.
      rewrite Hq. rewrite (NF_interpolates xf yf k 0 j D) by lia. rewrite Hy by lia. ring. }
  rewrite Hq in Z. lra.
Qed.
End NewtonPoly.
