(* OrbitFinder: the arithmetic skeleton of the perihelion / aphelion finders (Meeus ch. 38), written
   independently of the code.  Mean instants are a quadratic in the index,
        mean k = J0 + k (P - k c),
   perihelia have integer index k = round(kappa), aphelia half-integer index k = round(kappa + 1/2) - 1/2,
   where kappa = a (y - y0) comes from the query's decimal year; the finder returns an instant r k within h
   of mean k (the extremum of a 3-point interpolation over mean k - h .. mean k + h).  Proved here for all
   reals: the chosen index is within 1/2 of kappa (the mean instant within half a period of the query's),
   is non-decreasing in y; consecutive mean instants are P +- d apart, perihelion and aphelion mean
   instants alternate P/2 +- d apart; and, when 2h + d < P/2, the returned instants alternate and are
   P +- (d + 2h) apart.  d bounds |c x| for |x| <= 2 Kb + 2, Kb bounds the indices of the year range. *)
From Coq Require Import Reals ZArith Lra Lia.
From PyLib Require Import Ideal.
From Spec Require Import Finder.
Open Scope R_scope.

Section Orbit.
  Variables J0 P c : R.
  Definition mean (k : R) : R := J0 + k * (P - k * c).

  Lemma mean_step k : mean (k + 1) - mean k = P - c * (2 * k + 1).
  Proof. unfold mean. ring. Qed.
  Lemma mean_half k : mean (k + 1 / 2) - mean k = P / 2 - c * (k + 1 / 4).
  Proof. unfold mean. field. Qed.
  Lemma mean_diff k k' : mean k - mean k' = (k - k') * (P - c * (k + k')).
  Proof. unfold mean. ring. Qed.

  Variables Kb d : R.
  Hypothesis HKb : 0 <= Kb.
  Hypothesis Hd : forall x, - (2 * Kb + 2) <= x <= 2 * Kb + 2 -> - d <= c * x <= d.
  Hypothesis HdP : d < P.

  (* consecutive mean instants: one period apart within d *)
  Lemma step_bounds k : - Kb <= k <= Kb -> P - d <= mean (k + 1) - mean k <= P + d.
  Proof. intro H. rewrite mean_step. pose proof (Hd (2 * k + 1) ltac:(lra)). lra. Qed.

  (* a perihelion (index k) and the following aphelion (index k + 1/2), and that aphelion and the next
     perihelion, are half a period apart within d *)
  Lemma half_bounds k : - Kb - 1 <= k <= Kb + 1 / 2 -> P / 2 - d <= mean (k + 1 / 2) - mean k <= P / 2 + d.
  Proof. intro H. rewrite mean_half. pose proof (Hd (k + 1 / 4) ltac:(lra)). lra. Qed.

  (* an index within 1/2 of kappa puts the mean instant within half a period (+ d/2) of kappa's *)
  Lemma near_bounds k kappa : Rabs (k - kappa) <= 1 / 2 -> - Kb - 1 <= k <= Kb + 1 -> - Kb - 1 <= kappa <= Kb + 1 ->
    Rabs (mean k - mean kappa) <= (P + d) / 2.
  Proof.
    intros H1 H2 H3. rewrite mean_diff, Rabs_mult.
    pose proof (Hd (k + kappa) ltac:(lra)) as Hc.
    assert (Hp : 0 <= P - c * (k + kappa) <= P + d) by lra.
    rewrite (Rabs_right (P - c * (k + kappa))) by lra.
    pose proof (Rabs_pos (k - kappa)).
    assert (Rabs (k - kappa) * (P - c * (k + kappa)) <= 1 / 2 * (P + d)) by (apply Rmult_le_compat; lra).
    lra.
  Qed.

  (* the returned instants *)
  Variables (r : R -> R) (h : R).
  Hypothesis Hr : forall k, - Kb - 1 <= k <= Kb + 1 -> Rabs (r k - mean k) <= h.
  Hypothesis Hh : 2 * h + d < P / 2.

  Lemma Rabs_inv x a0 : Rabs x <= a0 -> - a0 <= x <= a0.
  Proof. unfold Rabs. destruct (Rcase_abs x); lra. Qed.

  (* perihelion k, aphelion k + 1/2, perihelion k + 1: strictly in this order *)
  Theorem alternate k : - Kb <= k <= Kb -> r k < r (k + 1 / 2) /\ r (k + 1 / 2) < r (k + 1).
  Proof.
    intro H.
    pose proof (Rabs_inv _ _ (Hr k ltac:(lra))). pose proof (Rabs_inv _ _ (Hr (k + 1 / 2) ltac:(lra))).
    pose proof (Rabs_inv _ _ (Hr (k + 1) ltac:(lra))).
    pose proof (half_bounds k ltac:(lra)). pose proof (half_bounds (k + 1 / 2) ltac:(lra)) as H5.
    replace (k + 1 / 2 + 1 / 2) with (k + 1) in H5 by lra. split; lra.
  Qed.

  (* successive events of the same kind: one period apart within d + 2h *)
  Theorem spacing k : - Kb <= k <= Kb -> P - d - 2 * h <= r (k + 1) - r k <= P + d + 2 * h.
  Proof.
    intro H. pose proof (Rabs_inv _ _ (Hr k ltac:(lra))). pose proof (Rabs_inv _ _ (Hr (k + 1) ltac:(lra))).
    pose proof (step_bounds k H). lra.
  Qed.

  (* within half a period (+ d/2 + h) of the query's mean instant *)
  Theorem near_query k kappa : Rabs (k - kappa) <= 1 / 2 -> - Kb - 1 <= k <= Kb + 1 -> - Kb - 1 <= kappa <= Kb + 1 ->
    Rabs (r k - mean kappa) <= (P + d) / 2 + h.
  Proof.
    intros H1 H2 H3. pose proof (near_bounds k kappa H1 H2 H3) as N. pose proof (Hr k H2) as E.
    replace (r k - mean kappa) with ((r k - mean k) + (mean k - mean kappa)) by ring.
    eapply Rle_trans; [apply Rabs_triang |]. lra.
  Qed.
End Orbit.

(* the index rules *)
Section Index.
  Variables a y0 : R.
  Hypothesis Ha : 0 < a.
  Definition kappa (y : R) : R := a * (y - y0).
  Definition kper (y : R) : R := IZR (Rround (kappa y)).
  Definition kaph (y : R) : R := IZR (Rround (kappa y + 1 / 2)) - 1 / 2.

  Lemma kper_near y : Rabs (kper y - kappa y) <= 1 / 2.
  Proof. unfold kper. pose proof (Rround_near (kappa y)). apply Rabs_le. lra. Qed.
  Lemma kaph_near y : Rabs (kaph y - kappa y) <= 1 / 2.
  Proof. unfold kaph. pose proof (Rround_near (kappa y + 1 / 2)). apply Rabs_le. lra. Qed.
  (* perihelion indices are integers, aphelion indices integers + 1/2 *)
  Lemma kper_int y : exists n : Z, kper y = IZR n.
  Proof. eexists. reflexivity. Qed.
  Lemma kaph_half y : exists n : Z, kaph y = IZR n + 1 / 2.
  Proof. exists (Rround (kappa y + 1 / 2) - 1)%Z. unfold kaph. rewrite minus_IZR. lra. Qed.
  Lemma kper_mono y1 y2 : y1 <= y2 -> kper y1 <= kper y2.
  Proof. intro H. unfold kper. apply IZR_le, Rround_mono. unfold kappa. nra. Qed.
  Lemma kaph_mono y1 y2 : y1 <= y2 -> kaph y1 <= kaph y2.
  Proof.
    intro H. unfold kaph. assert (IZR (Rround (kappa y1 + 1 / 2)) <= IZR (Rround (kappa y2 + 1 / 2))); [| lra].
    apply IZR_le, Rround_mono. unfold kappa. nra.
  Qed.
End Index.
