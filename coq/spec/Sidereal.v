(* Sidereal: Greenwich mean sidereal time, IAU 1982 expression (Aoki et al. 1982; Meeus,
   Astronomical Algorithms, eq. 12.2/12.3), transcribed independently of the code.
   In days (turns), not reduced:
     GMST at 0h UT  = (24110.54841 + 8640184.812866 T0 + 0.093104 T0^2 - 6.2e-6 T0^3) s / 86400
     T0             = (j0 - 2451545) / 36525, j0 = the 0h UT instant at or before j
     later that day = + 1.00273790935 * (j - j0)                                        *)
From Coq Require Import Reals ZArith Lra.
Open Scope R_scope.

Definition sfl (x : R) : Z := Int_part x.
Lemma sfl_spec x : IZR (sfl x) <= x < IZR (sfl x) + 1.
Proof.
  unfold sfl, Int_part. destruct (archimed x) as [H1 H2]. rewrite minus_IZR. simpl. lra.
Qed.

(* the 0h UT instant (JD ending in .5) at or before j *)
Definition jd_0h (j : R) : R := IZR (sfl (j - 1/2)) + 1/2.
Lemma jd_0h_bounds j : jd_0h j <= j < jd_0h j + 1.
Proof. unfold jd_0h. pose proof (sfl_spec (j - 1/2)). lra. Qed.

Definition sidereal_rate : R := 100273790935 / 100000000000.

Definition gmst0_sec (T : R) : R :=
  2411054841 / 100000 + 8640184812866 / 1000000 * T + 93104 / 1000000 * T * T
  - 62 / 10000000 * T * T * T.

Definition gmst_iau1982 (j : R) : R :=
  let j0 := jd_0h j in
  gmst0_sec ((j0 - 2451545) / 36525) / 86400 + sidereal_rate * (j - j0).

(* congruence modulo one turn *)
Definition cong1 (x y : R) : Prop := exists k : Z, x = y + IZR k.

(* within the day the expression advances by exactly the sidereal rate *)
Lemma gmst_rate j h : jd_0h (j + h) = jd_0h j ->
  gmst_iau1982 (j + h) - gmst_iau1982 j = sidereal_rate * h.
Proof. intro E. unfold gmst_iau1982. cbv zeta. rewrite E. lra. Qed.
