(* CivilOfJdn.v -- the civil date of a Julian Day Number: inverse of Spec.CalSpec.jdn.
   Hand-written, independent of the code under verification.
   * every day number z >= 0 is the jdn of exactly one valid civil date (all z, no upper
     bound): jdn_surj (induction with CalSpec.next) + CalSpec.jdn_inj;
   * civil_of_jdn is a computable candidate for that date (year estimate + correction,
     month scan); `civil_ok z` decides whether it is right at z, and when it is, the
     result is THE date of z (civil_ok_unique).  Clients establish civil_ok over their
     finite domain by kernel computation (it is cheap: pure Z arithmetic). *)
From Coq Require Import ZArith List Bool Lia ZifyBool.
From Spec Require Import CalSpec.
Import ListNotations.
Open Scope Z_scope.

(* ---- existence: every non-negative day number is hit ---- *)
Theorem jdn_surj : forall z, 0 <= z ->
  exists y m d, valid y m d = true /\ jdn y m d = z.
Proof.
  intros z Hz. pattern z. apply natlike_ind; [| |exact Hz].
  - exists (-4712), 1, 1. split; reflexivity.
  - intros x Hx (y & m & d & Hv & Hj).
    pose proof (next_valid y m d Hv) as Hn. pose proof (jdn_next y m d Hv) as Hs.
    destruct (next y m d) as [[y' m'] d'].
    exists y', m', d'. split; [exact Hn|]. rewrite Hs, Hj. reflexivity.
Qed.

Theorem jdn_unique : forall z y m d y' m' d',
  valid y m d = true -> jdn y m d = z -> valid y' m' d' = true -> jdn y' m' d' = z ->
  (y, m, d) = (y', m', d').
Proof. intros. apply jdn_inj; try assumption. congruence. Qed.

(* ---- a computable inverse ---- *)
Definition year_guess (z : Z) : Z :=
  if z <? 2299161 then (4 * z) / 1461 - 4712
  else ((z - 1721426) * 400) / 146097 + 1.

Definition year_of (z : Z) : Z :=
  let y0 := year_guess z in
  let y1 := if z <? jdn y0 1 1 then y0 - 1 else y0 in
  let y2 := if z <? jdn y1 1 1 then y1 - 1 else y1 in
  let y3 := if jdn (y2 + 1) 1 1 <=? z then y2 + 1 else y2 in
  if jdn (y3 + 1) 1 1 <=? z then y3 + 1 else y3.

Fixpoint month_scan (y z : Z) (ms : list Z) : Z * Z * Z :=
  match ms with
  | [] => (y, 1, z - jdn y 1 1 + 1)
  | m :: r =>
      let first := if (y =? 1582) && (m =? 10) && (2299161 <=? z) then 15 else 1 in
      if jdn y m first <=? z then (y, m, first + (z - jdn y m first)) else month_scan y z r
  end.

Definition civil_of_jdn (z : Z) : Z * Z * Z :=
  month_scan (year_of z) z [12; 11; 10; 9; 8; 7; 6; 5; 4; 3; 2].

Definition civil_ok (z : Z) : bool :=
  let '(y, m, d) := civil_of_jdn z in valid y m d && (jdn y m d =? z).

Lemma civil_ok_spec z : civil_ok z = true ->
  let '(y, m, d) := civil_of_jdn z in valid y m d = true /\ jdn y m d = z.
Proof.
  unfold civil_ok. destruct (civil_of_jdn z) as [[y m] d]. intro H.
  apply andb_true_iff in H. destruct H as [H1 H2]. split; [exact H1|lia].
Qed.

Theorem civil_ok_unique z : civil_ok z = true ->
  forall y m d, valid y m d = true -> jdn y m d = z -> civil_of_jdn z = (y, m, d).
Proof.
  intros H y m d Hv Hj. apply civil_ok_spec in H.
  destruct (civil_of_jdn z) as [[y' m'] d']. destruct H as [Hv' Hj'].
  apply (jdn_unique z); assumption.
Qed.

(* strictly later day number = strictly later date (lexicographic), for valid dates *)
Theorem date_order_of_jdn : forall y m d y' m' d',
  valid y m d = true -> valid y' m' d' = true ->
  jdn y m d < jdn y' m' d' -> date_lt y m d y' m' d'.
Proof.
  intros y m d y' m' d' V V' H.
  assert (T : date_lt y m d y' m' d' \/ date_lt y' m' d' y m d
              \/ (y = y' /\ m = m' /\ d = d')) by (unfold date_lt; lia).
  destruct T as [T | [T | (-> & -> & ->)]]; [exact T| |lia].
  pose proof (jdn_mono _ _ _ _ _ _ V' V T). lia.
Qed.

(* anchors *)
Example civil_0 : civil_of_jdn 0 = (-4712, 1, 1). Proof. reflexivity. Qed.
Example civil_reform_a : civil_of_jdn 2299160 = (1582, 10, 4). Proof. reflexivity. Qed.
Example civil_reform_b : civil_of_jdn 2299161 = (1582, 10, 15). Proof. reflexivity. Qed.
Example civil_j2000 : civil_of_jdn 2451545 = (2000, 1, 1). Proof. reflexivity. Qed.
