(* Precession: what "precession is a rigid rotation of the sky" means, over the reals,
   independent of the code: the three-rotation form Rz . Ry . Rz (equatorial) and
   Rz . Rx . Rz (ecliptical) on unit vectors, the polynomial angles of Meeus ch. 21
   written out as real polynomials in T (centuries from J2000 to the starting epoch) and
   t (centuries between the two epochs), and the facts about Angle(0, 0, seconds) and
   congruence modulo 360 degrees that connect the stored degree values to them. *)
From Coq Require Import Reals ZArith Lra Lia Psatz.
From PyLib Require Import PyVal Ideal IdealFacts Sphere.
From Spec Require Import AngleSpec.
Open Scope R_scope.

(* decimal notations 1.25 are [Q2R (n # d)]: make them quotients of integer constants *)
Ltac dec_norm := cbv [Q2R QArith_base.Qnum QArith_base.Qden] in *.

(* ------------------------------------------------------------------ *)
(** * congruence modulo 360 and trigonometry of degree values *)

Lemma cong360_add x y u v : cong360 x y -> cong360 u v -> cong360 (x + u) (y + v).
Proof. intros [k H] [j G]. exists (k + j)%Z. rewrite plus_IZR. lra. Qed.
Lemma cong360_sub x y u v : cong360 x y -> cong360 u v -> cong360 (x - u) (y - v).
Proof. intros [k H] [j G]. exists (k - j)%Z. rewrite minus_IZR. lra. Qed.
Lemma cong360_mulZ (n : Z) x y : cong360 x y -> cong360 (x * IZR n) (y * IZR n).
Proof. intros [k H]. exists (k * n)%Z. rewrite mult_IZR. rewrite H. ring. Qed.
Lemma cong360_opp x y : cong360 x y -> cong360 (- x) (- y).
Proof. intros [k H]. exists (- k)%Z. rewrite opp_IZR. lra. Qed.
Lemma cong360_eq x y : x = y -> cong360 x y.
Proof. intros ->. apply cong360_refl. Qed.
Lemma red360_cong' x : cong360 (red360 x) x.
Proof. apply cong360_sym, red360_cong. Qed.

Lemma cos_d2r_cong x y : cong360 x y -> cos (d2r x) = cos (d2r y).
Proof. intros [k ->]. apply cos_d2r_360k. Qed.
Lemma sin_d2r_cong x y : cong360 x y -> sin (d2r x) = sin (d2r y).
Proof. intros [k ->]. apply sin_d2r_360k. Qed.
Lemma uvec_d2r_cong l1 l2 b1 b2 : cong360 l1 l2 -> cong360 b1 b2 ->
  uvec (d2r l1) (d2r b1) = uvec (d2r l2) (d2r b2).
Proof.
  intros Hl Hb. unfold uvec.
  rewrite (cos_d2r_cong _ _ Hl), (sin_d2r_cong _ _ Hl), (cos_d2r_cong _ _ Hb), (sin_d2r_cong _ _ Hb).
  reflexivity.
Qed.
Lemma Rz_d2r_cong a b v : cong360 a b -> Rz (d2r a) v = Rz (d2r b) v.
Proof.
  intros H. destruct v as [[x y] z]. unfold Rz.
  rewrite (cos_d2r_cong _ _ H), (sin_d2r_cong _ _ H). reflexivity.
Qed.
Lemma Ry_d2r_cong a b v : cong360 a b -> Ry (d2r a) v = Ry (d2r b) v.
Proof.
  intros H. destruct v as [[x y] z]. unfold Ry.
  rewrite (cos_d2r_cong _ _ H), (sin_d2r_cong _ _ H). reflexivity.
Qed.
Lemma Rx_d2r_cong a b v : cong360 a b -> Rx (d2r a) v = Rx (d2r b) v.
Proof.
  intros H. destruct v as [[x y] z]. unfold Rx.
  rewrite (cos_d2r_cong _ _ H), (sin_d2r_cong _ _ H). reflexivity.
Qed.

(* ------------------------------------------------------------------ *)
(** * the degree value stored by Angle(0, 0, s), s in arcseconds *)

Definition sgn_sec (s : R) : R := if Rlt_dec s 0 then -1 else 1.
Definition dms_sec (s : R) : R :=
  let a := Rabs s in
  let M := Rfloor (a / 60) in
  sgn_sec s * (IZR ((M / 60) mod 360) + IZR (M mod 60) / 60 + (a - 60 * IZR M) / 3600).

Lemma dms_sec_parts s :
  let a := Rabs s in let M := Rfloor (a / 60) in
  (0 <= M)%Z /\ 0 <= a - 60 * IZR M < 60.
Proof.
  intros a M. assert (Ha : 0 <= a) by apply Rabs_pos.
  assert (0 <= a / 60) by (apply Rmult_le_pos; lra).
  split. { apply Rfloor_nonneg; assumption. }
  pose proof (Rfloor_le (a / 60)). pose proof (Rfloor_lt (a / 60)). fold M in H0, H1. lra.
Qed.

Lemma sgn_sec_abs s : sgn_sec s * Rabs s = s.
Proof.
  unfold sgn_sec. destruct (Rlt_dec s 0).
  - rewrite Rabs_left by assumption. ring.
  - rewrite Rabs_right by lra. ring.
Qed.

Theorem dms_sec_cong s : cong360 (dms_sec s) (s / 3600).
Proof.
  unfold dms_sec. destruct (dms_sec_parts s) as [HM _].
  set (a := Rabs s) in *. set (M := Rfloor (a / 60)) in *.
  pose proof (Z.div_mod M 60 ltac:(lia)) as E1.
  pose proof (Z.div_mod (M / 60) 360 ltac:(lia)) as E2.
  set (D := (M / 60)%Z) in *. set (q := (D / 360)%Z) in *.
  assert (E1' : IZR (M mod 60) = IZR M - 60 * IZR D).
  { replace (M mod 60)%Z with (M - 60 * D)%Z by lia. rewrite minus_IZR, mult_IZR. reflexivity. }
  assert (E2' : IZR (D mod 360) = IZR D - 360 * IZR q).
  { replace (D mod 360)%Z with (D - 360 * q)%Z by lia. rewrite minus_IZR, mult_IZR. reflexivity. }
  rewrite E1', E2'.
  replace (s / 3600) with (sgn_sec s * a / 3600) by (unfold a; rewrite sgn_sec_abs; reflexivity).
  unfold sgn_sec. destruct (Rlt_dec s 0).
  - exists q. field.
  - exists (- q)%Z. rewrite opp_IZR. field.
Qed.

Theorem dms_sec_bound s : Rabs (dms_sec s) < 360.
Proof.
  unfold dms_sec. destruct (dms_sec_parts s) as [HM Hs].
  set (a := Rabs s) in *. set (M := Rfloor (a / 60)) in *.
  pose proof (Z.mod_pos_bound (M / 60) 360 eq_refl) as B1.
  pose proof (Z.mod_pos_bound M 60 eq_refl) as B2.
  assert (0 <= IZR ((M / 60) mod 360) <= 359).
  { split; apply IZR_le; lia. }
  assert (0 <= IZR (M mod 60) <= 59).
  { split; apply IZR_le; lia. }
  unfold sgn_sec. destruct (Rlt_dec s 0).
  - rewrite Rabs_left1 by lra. lra.
  - rewrite Rabs_right by lra. lra.
Qed.

Lemma dms_sec_0 : dms_sec 0 = 0.
Proof.
  unfold dms_sec. rewrite Rabs_R0.
  assert (E : Rfloor (0 / 60) = 0%Z) by (apply Rfloor_unique; simpl; lra). rewrite E.
  change ((0 / 60) mod 360)%Z with 0%Z. change (0 mod 60)%Z with 0%Z.
  unfold sgn_sec. destruct (Rlt_dec 0 0); lra.
Qed.

(* trig of the stored value = trig of s/3600 degrees *)
Lemma cos_dms_sec s : cos (d2r (dms_sec s)) = cos (d2r (s / 3600)).
Proof. apply cos_d2r_cong, dms_sec_cong. Qed.
Lemma sin_dms_sec s : sin (d2r (dms_sec s)) = sin (d2r (s / 3600)).
Proof. apply sin_d2r_cong, dms_sec_cong. Qed.

(* ------------------------------------------------------------------ *)
(** * the rotation carried out by the equatorial formulas (Meeus 21.4) *)

Section EquRot.
Variables (a0 d0 ze z th : R).   (* radians *)
Definition eqA : R := cos d0 * sin (a0 + ze).
Definition eqB : R := cos th * cos d0 * cos (a0 + ze) - sin th * sin d0.
Definition eqC : R := sin th * cos d0 * cos (a0 + ze) + cos th * sin d0.

Lemma eq_vec : (eqB, eqA, eqC) = Ry (- th) (Rz ze (uvec a0 d0)).
Proof.
  rewrite Rz_uvec. unfold uvec, Ry, eqA, eqB, eqC. rewrite cos_neg, sin_neg.
  apply vec_eq; ring.
Qed.

Lemma eq_unit : eqA * eqA + eqB * eqB + eqC * eqC = 1.
Proof.
  assert (H : dot (eqB, eqA, eqC) (eqB, eqA, eqC) = 1).
  { rewrite eq_vec, dot_Ry, dot_Rz. apply uvec_norm. }
  unfold dot in H. lra.
Qed.
End EquRot.

(* longitude atan2(A, B) + z, latitude atan2(C, sqrt(A^2+B^2)) of a unit vector (B, A, C):
   valid for EVERY latitude, the poles included *)
Lemma rho_comm x y : rho x y = rho y x.
Proof. unfold rho. f_equal. ring. Qed.

Theorem uvec_atan2_unit A B C : A * A + B * B + C * C = 1 ->
  uvec (atan2 A B) (atan2 C (sqrt (A * A + B * B))) = (B, A, C).
Proof.
  intros H. change (sqrt (A * A + B * B)) with (rho A B).
  assert (H1 : rho (rho A B) C = 1).
  { unfold rho at 1. rewrite rho_sqr. replace (A * A + B * B + C * C) with 1 by lra. apply sqrt_1. }
  pose proof (rho_cos_atan2 C (rho A B)) as Hc. pose proof (rho_sin_atan2 C (rho A B)) as Hs.
  rewrite H1, Rmult_1_l in Hc, Hs.
  unfold uvec. rewrite Hc, Hs. rewrite (rho_comm A B).
  rewrite rho_cos_atan2, rho_sin_atan2. reflexivity.
Qed.

Theorem equ_rotation a0 d0 ze z th :
  let A := eqA a0 d0 ze in let B := eqB a0 d0 ze th in let C := eqC a0 d0 ze th in
  uvec (atan2 A B + z) (atan2 C (sqrt (A * A + B * B))) = Rz z (Ry (- th) (Rz ze (uvec a0 d0))).
Proof.
  intros A B C. rewrite <- Rz_uvec. rewrite uvec_atan2_unit.
  - unfold A, B, C. rewrite eq_vec. reflexivity.
  - apply eq_unit.
Qed.

(* ------------------------------------------------------------------ *)
(** * the rotation carried out by the ecliptical formulas (Meeus 21.7) *)

Section EclRot.
Variables (l0 b0 eta pie p : R).   (* radians *)
Definition ecA : R := cos eta * cos b0 * sin (pie - l0) - sin eta * sin b0.
Definition ecB : R := cos b0 * cos (pie - l0).
Definition ecC : R := cos eta * sin b0 + sin eta * cos b0 * sin (pie - l0).

(* (B, -A, C) is the start vector turned by -pie about z and then by -eta about x *)
Lemma ec_vec : (ecB, - ecA, ecC) = Rx (- eta) (Rz (- pie) (uvec l0 b0)).
Proof.
  rewrite Rz_uvec. unfold uvec, Rx, ecA, ecB, ecC. rewrite cos_neg, sin_neg.
  replace (pie - l0) with (- (l0 + - pie)) by ring. rewrite cos_neg, sin_neg.
  apply vec_eq; ring.
Qed.

Lemma ec_unit : ecA * ecA + ecB * ecB + ecC * ecC = 1.
Proof.
  assert (H : dot (ecB, - ecA, ecC) (ecB, - ecA, ecC) = 1).
  { rewrite ec_vec, dot_Rx, dot_Rz. apply uvec_norm. }
  unfold dot in H. lra.
Qed.

Lemma ecC_range : -1 <= ecC <= 1.
Proof. pose proof ec_unit. split; nra. Qed.
End EclRot.

Theorem ecl_rotation l0 b0 eta pie p :
  let A := ecA l0 b0 eta pie in let B := ecB l0 b0 pie in let C := ecC l0 b0 eta pie in
  uvec (p + pie - atan2 A B) (atan2 C (sqrt (A * A + B * B)))
  = Rz (p + pie) (Rx (- eta) (Rz (- pie) (uvec l0 b0))).
Proof.
  intros A B C.
  replace (p + pie - atan2 A B) with (- atan2 A B + (p + pie)) by ring.
  rewrite <- Rz_uvec. rewrite <- My_uvec. rewrite uvec_atan2_unit.
  - unfold My, A, B, C. rewrite <- ec_vec. reflexivity.
  - apply ec_unit.
Qed.

(* ------------------------------------------------------------------ *)
(** * rigid: every composition of these rotations preserves dot products and is invertible *)

Definition rot_equ (ze z th : R) (v : vec) : vec := Rz z (Ry (- th) (Rz ze v)).
Definition rot_ecl (eta pie p : R) (v : vec) : vec := Rz (p + pie) (Rx (- eta) (Rz (- pie) v)).

Lemma rot_equ_dot ze z th u v : dot (rot_equ ze z th u) (rot_equ ze z th v) = dot u v.
Proof. unfold rot_equ. rewrite dot_Rz, dot_Ry, dot_Rz. reflexivity. Qed.
Lemma rot_ecl_dot eta pie p u v : dot (rot_ecl eta pie p u) (rot_ecl eta pie p v) = dot u v.
Proof. unfold rot_ecl. rewrite dot_Rz, dot_Rx, dot_Rz. reflexivity. Qed.

Lemma rot_equ_0 v : rot_equ 0 0 0 v = v.
Proof. unfold rot_equ. rewrite Ropp_0, Rz_0, Ry_0, Rz_0. reflexivity. Qed.
(* zero interval in the ecliptical routine: eta = p = 0, pie arbitrary *)
Lemma rot_ecl_0 pie v : rot_ecl 0 pie 0 v = v.
Proof.
  unfold rot_ecl. rewrite Ropp_0, Rx_0, Rz_add. replace (0 + pie + - pie) with 0 by ring.
  apply Rz_0.
Qed.

(* the inverse rotation exists (it is again of the same three-rotation type) *)
Lemma rot_equ_inv ze z th v : rot_equ (- z) (- ze) (- th) (rot_equ ze z th v) = v.
Proof.
  unfold rot_equ. rewrite Rz_inv, Ropp_involutive, Ry_inv', Rz_inv. reflexivity.
Qed.

Lemma rot_equ_unit ze z th l b : dot (rot_equ ze z th (uvec l b)) (rot_equ ze z th (uvec l b)) = 1.
Proof. rewrite rot_equ_dot. apply uvec_norm. Qed.
Lemma rot_ecl_unit eta pie p l b : dot (rot_ecl eta pie p (uvec l b)) (rot_ecl eta pie p (uvec l b)) = 1.
Proof. rewrite rot_ecl_dot. apply uvec_norm. Qed.

(* ------------------------------------------------------------------ *)
(** * the polynomial angles, in arcseconds (Meeus 21.2, 21.5; Newcomb; Laskar) *)

Definition J2000 : R := 2451545.
Definition cen (j0 j1 : R) : R := (j1 - j0) / 36525.          (* Julian centuries from j0 to j1 *)

(* IAU 1976 (FK5): T from J2000 to the starting epoch, t between the epochs *)
Definition zeta_as (T t : R) : R :=
  (2306.2181 + 1.39656 * T - 0.000139 * T * T) * t + (0.30188 - 0.000344 * T) * t * t + 0.017998 * t * t * t.
Definition z_as (T t : R) : R :=
  (2306.2181 + 1.39656 * T - 0.000139 * T * T) * t + (1.09468 + 0.000066 * T) * t * t + 0.018203 * t * t * t.
Definition theta_as (T t : R) : R :=
  (2004.3109 - 0.85330 * T - 0.000217 * T * T) * t - (0.42665 + 0.000217 * T) * t * t - 0.041833 * t * t * t.

(* ecliptical *)
Definition eta_as (T t : R) : R :=
  (47.0029 - 0.06603 * T + 0.000598 * T * T) * t + (-0.03302 + 0.000598 * T) * t * t + 0.000060 * t * t * t.
Definition pi_as (T t : R) : R :=     (* without the constant 174.876384 degrees *)
  3289.4789 * T + 0.60622 * T * T - (869.8089 + 0.50491 * T) * t + 0.03536 * t * t.
Definition pi0_deg : R := 174.876384.
Definition p_as (T t : R) : R :=
  (5029.0966 + 2.22226 * T - 0.000042 * T * T) * t + (1.11113 - 0.000042 * T) * t * t - 0.000006 * t * t * t.

(* Newcomb (FK4): tropical centuries, T from B1900.0 *)
Definition B1900 : R := 2415020.3135.
Definition tropcen (j0 j1 : R) : R := (j1 - j0) / 36524.2199.
Definition nzeta_as (T t : R) : R := (2304.25 + 1.396 * T) * t + 0.302 * t * t + 0.018 * t * t * t.
Definition nz_as (T t : R) : R := nzeta_as T t + 0.791 * t * t + 0.001 * t * t * t.
Definition ntheta_as (T t : R) : R := (2004.682 - 0.853 * T) * t - 0.426 * t * t - 0.042 * t * t * t.

(* Laskar's mean obliquity, u in units of 10000 Julian years from J2000, arcseconds *)
Definition eps0_deg : R := 23 + 26 / 60 + 21.448 / 3600.
Definition obl_as (u : R) : R :=
  - 4680.93 * u - 1.55 * u ^ 2 + 1999.25 * u ^ 3 - 51.38 * u ^ 4 - 249.67 * u ^ 5
  - 39.05 * u ^ 6 + 7.12 * u ^ 7 + 27.87 * u ^ 8 + 5.79 * u ^ 9 + 2.45 * u ^ 10.

(* a zero interval makes every rotation angle vanish *)
Lemma zeta_as_0 T : zeta_as T 0 = 0. Proof. unfold zeta_as. ring. Qed.
Lemma z_as_0 T : z_as T 0 = 0. Proof. unfold z_as. ring. Qed.
Lemma theta_as_0 T : theta_as T 0 = 0. Proof. unfold theta_as. ring. Qed.
Lemma eta_as_0 T : eta_as T 0 = 0. Proof. unfold eta_as. ring. Qed.
Lemma p_as_0 T : p_as T 0 = 0. Proof. unfold p_as. ring. Qed.
Lemma nzeta_as_0 T : nzeta_as T 0 = 0. Proof. unfold nzeta_as. ring. Qed.
Lemma nz_as_0 T : nz_as T 0 = 0. Proof. unfold nz_as, nzeta_as. ring. Qed.
Lemma ntheta_as_0 T : ntheta_as T 0 = 0. Proof. unfold ntheta_as. ring. Qed.
Lemma cen_0 j : cen j j = 0. Proof. unfold cen. field. Qed.
Lemma tropcen_0 j : tropcen j j = 0. Proof. unfold tropcen. dec_norm. field. Qed.

Lemma d2r_0 : d2r 0 = 0. Proof. unfold d2r. ring. Qed.

(* ------------------------------------------------------------------ *)
(** * the stored degree values (Angle arithmetic reduces with red360 at every step)
      and what they mean on the sphere *)

(* start coordinate corrected for proper motion: x0 += mu * t * 100.0 (mu in degrees/year) *)
Definition pm_start (x0 mu t : R) : R := red360 (x0 + red360 (red360 (mu * t) * 100)).

Lemma pm_start_cong x0 mu t : cong360 (pm_start x0 mu t) (x0 + 100 * mu * t).
Proof.
  unfold pm_start. eapply cong360_trans; [apply red360_cong'|].
  apply cong360_add; [apply cong360_refl|].
  eapply cong360_trans; [apply red360_cong'|].
  replace (100 * mu * t) with (mu * t * IZR 100) by (simpl; ring).
  apply (cong360_mulZ 100). apply red360_cong'.
Qed.

(* what precession_equatorial / precession_newcomb return for rotation angles
   zeta, z, theta (arcseconds) and corrected start (a1, d1) (degrees) *)
Definition equ_out (zeta z theta a1 d1 : R) : R * R :=
  let ze := d2r (dms_sec zeta) in
  let zz := d2r (dms_sec z) in
  let th := d2r (dms_sec theta) in
  let A := eqA (d2r a1) (d2r d1) ze in
  let B := eqB (d2r a1) (d2r d1) ze th in
  let C := eqC (d2r a1) (d2r d1) ze th in
  (red360 (r2d (atan2 A B + zz)), red360 (r2d (atan2 C (sqrt (A * A + B * B))))).

Lemma Ry_opp_d2r_cong a b v : cong360 a b -> Ry (- d2r a) v = Ry (- d2r b) v.
Proof.
  intros H. rewrite <- !d2r_opp. apply Ry_d2r_cong, cong360_opp, H.
Qed.
Lemma Rx_opp_d2r_cong a b v : cong360 a b -> Rx (- d2r a) v = Rx (- d2r b) v.
Proof.
  intros H. rewrite <- !d2r_opp. apply Rx_d2r_cong, cong360_opp, H.
Qed.

Theorem equ_out_rotation zeta z theta a1 d1 :
  let o := equ_out zeta z theta a1 d1 in
  uvec (d2r (fst o)) (d2r (snd o))
  = rot_equ (d2r (zeta / 3600)) (d2r (z / 3600)) (d2r (theta / 3600)) (uvec (d2r a1) (d2r d1)).
Proof.
  intros o. unfold o, equ_out. cbn [fst snd].
  rewrite (uvec_d2r_cong _ _ _ _ (red360_cong' _) (red360_cong' _)).
  rewrite !d2r_r2d. rewrite equ_rotation. unfold rot_equ.
  rewrite (Rz_d2r_cong _ _ _ (dms_sec_cong zeta)).
  rewrite (Ry_opp_d2r_cong _ _ _ (dms_sec_cong theta)).
  rewrite (Rz_d2r_cong _ _ _ (dms_sec_cong z)).
  reflexivity.
Qed.

(* stored values are in (-360, 360) *)
Lemma equ_out_range zeta z theta a1 d1 :
  let o := equ_out zeta z theta a1 d1 in -360 < fst o < 360 /\ -360 < snd o < 360.
Proof. intros o. unfold o, equ_out. cbn [fst snd]. split; apply red360_range. Qed.

(* ecliptical: pie carries the constant 174.876384 added to the Angle *)
Definition pie_deg (pie : R) : R := red360 (dms_sec pie + pi0_deg).
Definition ecl_out (eta pie p l1 b1 : R) : R * R :=
  let et := d2r (dms_sec eta) in
  let pr := d2r (pie_deg pie) in
  let pp := d2r (dms_sec p) in
  let A := ecA (d2r l1) (d2r b1) et pr in
  let B := ecB (d2r l1) (d2r b1) pr in
  let C := ecC (d2r l1) (d2r b1) et pr in
  (red360 (r2d (pp + pr - atan2 A B)), red360 (r2d (atan2 C (sqrt (A * A + B * B))))).

Lemma pie_deg_cong pie : cong360 (pie_deg pie) (pie / 3600 + pi0_deg).
Proof.
  unfold pie_deg. eapply cong360_trans; [apply red360_cong'|].
  apply cong360_add; [apply dms_sec_cong | apply cong360_refl].
Qed.

Theorem ecl_out_rotation eta pie p l1 b1 :
  let o := ecl_out eta pie p l1 b1 in
  uvec (d2r (fst o)) (d2r (snd o))
  = rot_ecl (d2r (eta / 3600)) (d2r (pie / 3600 + pi0_deg)) (d2r (p / 3600)) (uvec (d2r l1) (d2r b1)).
Proof.
  intros o. unfold o, ecl_out. cbn [fst snd].
  rewrite (uvec_d2r_cong _ _ _ _ (red360_cong' _) (red360_cong' _)).
  rewrite !d2r_r2d. rewrite ecl_rotation. unfold rot_ecl.
  rewrite <- !d2r_plus.
  rewrite (Rz_d2r_cong (dms_sec p + pie_deg pie) (p / 3600 + (pie / 3600 + pi0_deg)))
    by (apply cong360_add; [apply dms_sec_cong | apply pie_deg_cong]).
  rewrite (Rx_opp_d2r_cong _ _ _ (dms_sec_cong eta)).
  rewrite <- !d2r_opp.
  rewrite (Rz_d2r_cong (- pie_deg pie) (- (pie / 3600 + pi0_deg)))
    by (apply cong360_opp, pie_deg_cong).
  reflexivity.
Qed.

Lemma ecl_out_range eta pie p l1 b1 :
  let o := ecl_out eta pie p l1 b1 in -360 < fst o < 360 /\ -360 < snd o < 360.
Proof. intros o. unfold o, ecl_out. cbn [fst snd]. split; apply red360_range. Qed.

(* mean obliquity: Angle(23, 26, 21.448) += Angle(0, 0, delta) *)
Definition obl_out (u : R) : R := red360 (eps0_deg + dms_sec (obl_as u)).
Lemma obl_out_cong u : cong360 (obl_out u) (eps0_deg + obl_as u / 3600).
Proof.
  unfold obl_out. eapply cong360_trans; [apply red360_cong'|].
  apply cong360_add; [apply cong360_refl | apply dms_sec_cong].
Qed.
