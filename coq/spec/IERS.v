(* IERS: the leap-second history of UTC, written from the public IERS Bulletin C list
   (https://hpiers.obspm.fr/iers/bul/bulc/Leap_Second.dat), independent of pymeeus'
   LEAP_TABLE.  Each entry is the civil date (year, month; always day 1, 0h UTC) FROM which
   TAI-UTC is one second larger than before.  TAI-UTC was 10 s on 1972-01-01, TT-TAI = 32.184 s. *)
From Coq Require Import ZArith List Bool Lia.
Import ListNotations.
Open Scope Z_scope.

Definition iers_dates : list (Z * Z) :=
  [(1972, 7); (1973, 1); (1974, 1); (1975, 1); (1976, 1); (1977, 1); (1978, 1); (1979, 1);
   (1980, 1); (1981, 7); (1982, 7); (1983, 7); (1985, 7); (1988, 1); (1990, 1); (1991, 1);
   (1992, 7); (1993, 7); (1994, 7); (1996, 1); (1997, 7); (1999, 1); (2006, 1); (2009, 1);
   (2012, 7); (2015, 7); (2017, 1)].

(* (y, m) <= (y', m') as months *)
Definition ym_le (a b : Z * Z) : bool :=
  (fst a <? fst b) || ((fst a =? fst b) && (snd a <=? snd b)).

Definition count_le (l : list (Z * Z)) (y m : Z) : Z :=
  Z.of_nat (length (filter (fun d => ym_le d (y, m)) l)).

(* number of leap seconds inserted up to and including the first day of month (y, m):
   since every insertion is at 0h of a day 1, this is the count for every day of that month *)
Definition iers_count (y m : Z) : Z := count_le iers_dates y m.

(* UTC starts (in its present form) on 1972-01-01 *)
Definition utc_era (y : Z) : bool := 1972 <=? y.

(* TAI - UTC in seconds on the civil day (y, m, d), d >= 1, for dates from 1972-01-01 on *)
Definition tai_utc (y m d : Z) : Z := 10 + iers_count y m.

(* TT - UTC in milliseconds: 32.184 s + TAI-UTC; 0 before 1972 (no correction defined) *)
Definition tt_utc_ms (y m : Z) : Z :=
  if utc_era y then 32184 + 1000 * (10 + iers_count y m) else 0.

(* ---- facts about the list, for all integers *)

Lemma ym_le_trans a b c : ym_le a b = true -> ym_le b c = true -> ym_le a c = true.
Proof.
  unfold ym_le. destruct a as [a1 a2], b as [b1 b2], c as [c1 c2]; simpl.
  rewrite !orb_true_iff, !andb_true_iff, !Z.ltb_lt, !Z.eqb_eq, !Z.leb_le. lia.
Qed.

Lemma count_le_mono l y m y' m' : ym_le (y, m) (y', m') = true -> count_le l y m <= count_le l y' m'.
Proof.
  intro H. unfold count_le. induction l as [|d l IH]; simpl; [lia|].
  destruct (ym_le d (y, m)) eqn:E.
  - rewrite (ym_le_trans _ _ _ E H). simpl length. lia.
  - destruct (ym_le d (y', m')); simpl length; lia.
Qed.

Lemma count_le_range l y m : 0 <= count_le l y m <= Z.of_nat (length l).
Proof.
  unfold count_le. induction l as [|d l IH]; simpl; [lia|].
  destruct (ym_le d (y, m)); simpl length; lia.
Qed.

(* non-decreasing step function of (year, month) *)
Theorem iers_count_mono y m y' m' :
  ym_le (y, m) (y', m') = true -> iers_count y m <= iers_count y' m'.
Proof. apply count_le_mono. Qed.

Theorem iers_count_range y m : 0 <= iers_count y m <= 27.
Proof. exact (count_le_range iers_dates y m). Qed.

Lemma count_all l y m : forallb (fun d => ym_le d (y, m)) l = true -> count_le l y m = Z.of_nat (length l).
Proof.
  unfold count_le. induction l as [|d l IH]; cbn [forallb filter length]; [reflexivity|].
  intro H. apply andb_true_iff in H. destruct H as [H1 H2]. rewrite H1. cbn [length].
  rewrite !Nat2Z.inj_succ. rewrite IH by exact H2. reflexivity.
Qed.

Lemma count_none l y m : forallb (fun d => negb (ym_le d (y, m))) l = true -> count_le l y m = 0.
Proof.
  unfold count_le. induction l as [|d l IH]; simpl; [reflexivity|].
  intro H. apply andb_true_iff in H. destruct H as [H1 H2].
  apply negb_true_iff in H1. rewrite H1. apply IH, H2.
Qed.

(* constant (27) from 2017-01 on *)
Theorem iers_count_after y m : ym_le (2017, 1) (y, m) = true -> iers_count y m = 27.
Proof.
  intro H. unfold iers_count. rewrite count_all; [reflexivity|].
  apply forallb_forall. intros d Hd. apply (ym_le_trans d (2017, 1)); [|exact H].
  revert d Hd. apply forallb_forall. reflexivity.
Qed.

(* zero before 1972-07 *)
Theorem iers_count_before y m : ym_le (1972, 7) (y, m) = false -> iers_count y m = 0.
Proof.
  intro H. unfold iers_count. apply count_none.
  apply forallb_forall. intros d Hd. apply negb_true_iff.
  destruct (ym_le d (y, m)) eqn:E; [|reflexivity].
  assert (forall d', In d' iers_dates -> ym_le (1972, 7) d' = true) as A
    by (apply forallb_forall; reflexivity).
  pose proof (A d Hd) as H7.
  rewrite (ym_le_trans _ _ _ H7 E) in H. discriminate.
Qed.

(* the list is strictly increasing, every insertion is on 1 January or 1 July, 27 entries *)
Fixpoint strictly_increasing (l : list (Z * Z)) : bool :=
  match l with
  | a :: ((b :: _) as r) => ym_le a b && negb (ym_le b a) && strictly_increasing r
  | _ => true
  end.
Lemma iers_dates_shape :
  strictly_increasing iers_dates = true /\ length iers_dates = 27%nat /\
  forallb (fun d => (snd d =? 1) || (snd d =? 7)) iers_dates = true.
Proof. repeat split; reflexivity. Qed.

(* the count rises by exactly one in each listed month, by nothing in any other month 1950..2100 *)
Definition prev_month (y m : Z) : Z * Z := if m =? 1 then (y - 1, 12) else (y, m - 1).
Definition is_insertion (y m : Z) : bool := existsb (fun d => (fst d =? y) && (snd d =? m)) iers_dates.
Definition step_ok (y m : Z) : bool :=
  let p := prev_month y m in
  iers_count y m - iers_count (fst p) (snd p) =? (if is_insertion y m then 1 else 0).
Lemma iers_steps : forallb (fun y => forallb (step_ok y) [1;2;3;4;5;6;7;8;9;10;11;12])
                           (map (fun k => 1950 + Z.of_nat k) (seq 0 151)) = true.
Proof. vm_compute. reflexivity. Qed.

(* anchors everybody can check against the Bulletin: TAI-UTC = 10 s on 1972-01-01, 11 s from
   1972-07-01, 32 s on 2000-01-01, 37 s from 2017-01-01 *)
Example tai_utc_anchors :
  tai_utc 1972 1 1 = 10 /\ tai_utc 1972 6 30 = 10 /\ tai_utc 1972 7 1 = 11 /\
  tai_utc 2000 1 1 = 32 /\ tai_utc 2016 12 31 = 36 /\ tai_utc 2017 1 1 = 37 /\ tai_utc 2100 12 31 = 37.
Proof. repeat split; reflexivity. Qed.
