(* PrecessionRoute: equatorial route against the ecliptical route through the mean obliquity of
   each epoch, TO FIRST ORDER in the interval.
   R(T,t) = Rz(z) Ry(-theta) Rz(zeta)   and   E(T,t) = Rx(eps(T+t)) Rz(p+Pi) Rx(-eta) Rz(-Pi) Rx(-eps(T))
   are both the identity at t = 0; their angular velocities there are
     w_R = (0, -theta1, zeta1 + z1)
     w_E = (eps' - eta1 cos Pi0, -p1 sin eps - eta1 sin Pi0 cos eps, p1 cos eps - eta1 sin Pi0 sin eps)
   (x1 = coefficient of t in x(T,t), Pi0 = Pi(T,0), eps' = d eps / dT): Meeus' classical relations
   m = p cos eps - ..., n = p sin eps + ..., eps' = eta' cos Pi.  Proved here: for |T| <= 5 centuries the
   three components agree within 0.025, 0.010 and 0.005 arcsec/century, on the polynomials of the
   regenerated model (three separately coded sets: zeta/z/theta, eta/Pi/p, obliquity).
   The finite-interval statement (1e-4 degree) is NOT proved: it would need a certified bound of
   |w_E - w_R| over the two-dimensional (T, t) domain to 0.005 arcsec/century in quantities of
   5000 arcsec/century (searched instead; measured maximum 3.35e-5 degree). *)
From Coq Require Import Reals ZArith Lra Lia Psatz.
#[local] Set Warnings "-ambiguous-paths".
From Coquelicot Require Import Coquelicot.
From Interval Require Import Tactic.
From PyLib Require Import PyVal Ideal Sphere.
From Spec Require Import AngleSpec Precession.
Open Scope R_scope.

Ltac decn := cbv [Q2R QArith_base.Qnum QArith_base.Qden].

(* rates at zero interval: coefficients of t, arcsec / century *)
Definition zeta1 (T : R) : R := 2306.2181 + 1.39656 * T - 0.000139 * T * T.
Definition theta1 (T : R) : R := 2004.3109 - 0.85330 * T - 0.000217 * T * T.
Definition eta1 (T : R) : R := 47.0029 - 0.06603 * T + 0.000598 * T * T.
Definition p1 (T : R) : R := 5029.0966 + 2.22226 * T - 0.000042 * T * T.
(* Pi at zero interval, degrees; obliquity, degrees, and its rate, arcsec / century *)
Definition Pi0_deg (T : R) : R := (3289.4789 * T + 0.60622 * T * T) / 3600 + pi0_deg.
Definition eps_deg (T : R) : R := eps0_deg + obl_as (T / 100) / 3600.
Definition eps_rate (T : R) : R :=
  let u := T / 100 in
  (- 4680.93 - 2 * 1.55 * u + 3 * 1999.25 * u ^ 2 - 4 * 51.38 * u ^ 3 - 5 * 249.67 * u ^ 4
   - 6 * 39.05 * u ^ 5 + 7 * 7.12 * u ^ 6 + 8 * 27.87 * u ^ 7 + 9 * 5.79 * u ^ 8 + 10 * 2.45 * u ^ 9) / 100.

Lemma zeta_rate T : is_derive (fun t => zeta_as T t) 0 (zeta1 T).
Proof. unfold zeta_as, zeta1. auto_derive; [trivial|]. ring. Qed.
Lemma z_rate T : is_derive (fun t => z_as T t) 0 (zeta1 T).
Proof. unfold z_as, zeta1. auto_derive; [trivial|]. ring. Qed.
Lemma theta_rate T : is_derive (fun t => theta_as T t) 0 (theta1 T).
Proof. unfold theta_as, theta1. auto_derive; [trivial|]. ring. Qed.
Lemma eta_rate T : is_derive (fun t => eta_as T t) 0 (eta1 T).
Proof. unfold eta_as, eta1. auto_derive; [trivial|]. ring. Qed.
Lemma p_rate T : is_derive (fun t => p_as T t) 0 (p1 T).
Proof. unfold p_as, p1. auto_derive; [trivial|]. ring. Qed.
Lemma Pi_at_0 T : pi_as T 0 / 3600 + pi0_deg = Pi0_deg T.
Proof. unfold pi_as, Pi0_deg. field. Qed.
Lemma obl_rate T : is_derive (fun T => obl_as (T / 100)) T (eps_rate T).
Proof. unfold obl_as, eps_rate. auto_derive; [trivial|]. cbv zeta. field. Qed.
Lemma zero_interval_angles T :
  zeta_as T 0 = 0 /\ z_as T 0 = 0 /\ theta_as T 0 = 0 /\ eta_as T 0 = 0 /\ p_as T 0 = 0.
Proof. unfold zeta_as, z_as, theta_as, eta_as, p_as. repeat split; ring. Qed.

(* the three components of w_E - w_R, arcsec / century *)
Definition route_dx (T : R) : R := eps_rate T - eta1 T * cos (d2r (Pi0_deg T)).
Definition route_dy (T : R) : R :=
  theta1 T - (p1 T * sin (d2r (eps_deg T)) + eta1 T * sin (d2r (Pi0_deg T)) * cos (d2r (eps_deg T))).
Definition route_dz (T : R) : R :=
  2 * zeta1 T - (p1 T * cos (d2r (eps_deg T)) - eta1 T * sin (d2r (Pi0_deg T)) * sin (d2r (eps_deg T))).

Theorem route_first_order T : -5 <= T <= 5 ->
  Rabs (route_dx T) <= 25 / 1000 /\ Rabs (route_dy T) <= 10 / 1000 /\ Rabs (route_dz T) <= 5 / 1000.
Proof.
  intro HT.
  unfold route_dx, route_dy, route_dz, eps_rate, eta1, theta1, p1, zeta1, Pi0_deg, eps_deg, obl_as,
         eps0_deg, pi0_deg, d2r. cbv zeta. decn.
  split; [|split].
  - Time interval with (i_bisect T, i_taylor T, i_prec 60).
  - Time interval with (i_bisect T, i_taylor T, i_prec 60).
  - Time interval with (i_bisect T, i_taylor T, i_prec 60).
Qed.
