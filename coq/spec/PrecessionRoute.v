(* PrecessionRoute: equatorial route against the ecliptical route through the mean obliquity of
   each epoch, TO FIRST ORDER in the interval.
   R(T,t) = Rz(z) Ry(-theta) Rz(zeta)   and   E(T,t) = Rx(eps(T+t)) Rz(p+Pi) Rx(-eta) Rz(-Pi) Rx(-eps(T))
   are both the identity at t = 0; their angular velocities there are
     w_R = (0, -theta1, zeta1 + z1)
     w_E = (eps' - eta1 cos Pi0, -p1 sin eps - eta1 sin Pi0 cos eps, p1 cos eps - eta1 sin Pi0 sin eps)
   (x1 = coefficient of t in x(T,t), Pi0 = Pi(T,0), eps' = d eps / dT): Meeus' classical relations
   m = p cos eps - ..., n = p sin eps + ..., eps' = eta' cos Pi.  Proved here: for |T| <= 5 centuries the
   three components agree within 0.025, 0.010 and 0.005 arcsec/century, on the polynomials of the
   regenerated model (three separately coded sets: zeta/z/theta, eta/Pi/p, obliquity).
   The finite-interval statement (1e-4 degree) is NOT proved: it would need a certified bound of
   |w_E - w_R| over the two-dimensional (T, t) domain to 0.005 arcsec/century in quantities of
   5000 arcsec/century (searched instead; measured maximum 3.35e-5 degree). *)
From Coq Require Import Reals ZArith Lra Lia Psatz.
#[local] Set Warnings "-ambiguous-paths".
From Coquelicot Require Import Coquelicot.
From Interval Require Import Tactic.
From PyLib Require Import PyVal Ideal Sphere.
From Spec Require Import AngleSpec Precession.
Open Scope R_scope.

Ltac decn := cbv [Q2R QArith_base.Qnum QArith_base.Qden].

(* rates at zero interval: coefficients of t, arcsec / century *)
Definition zeta1 (T : R) : R := 2306.2181 + 1.39656 * T - 0.000139 * T * T.
Definition theta1 (T : R) : R := 2004.3109 - 0.85330 * T - 0.000217 * T * T.
Definition eta1 (T : R) : R := 47.0029 - 0.06603 * T + 0.000598 * T * T.
Definition p1 (T : R) : R := 5029.0966 + 2.22226 * T - 0.000042 * T * T.
(* Pi at zero interval, degrees; obliquity, degrees, and its rate, arcsec / century *)
Definition Pi0_deg (T : R) : R := (3289.4789 * T + 0.60622 * T * T) / 3600 + pi0_deg.
Definition eps_deg (T : R) : R := eps0_deg + obl_as (T / 100) / 3600.
Definition eps_rate (T : R) : R :=
  let u := T / 100 in
  (- 4680.93 - 2 * 1.55 * u + 3 * 1999.25 * u ^ 2 - 4 * 51.38 * u ^ 3 - 5 * 249.67 * u ^ 4
   - 6 * 39.05 * u ^ 5 + 7 * 7.12 * u ^ 6 + 8 * 27.87 * u ^ 7 + 9 * 5.79 * u ^ 8 + 10 * 2.45 * u ^ 9) / 100.

Lemma zeta_rate T : is_derive (fun t => zeta_as T t) 0 (zeta1 T).
Proof. unfold zeta_as, zeta1. auto_derive; [trivial|]. ring. Qed.
Lemma z_rate T : is_derive (fun t => z_as T t) 0 (zeta1 T).
Proof. unfold z_as, zeta1. auto_derive; [trivial|]. ring. Qed.
Lemma theta_rate T : is_derive (fun t => theta_as T t) 0 (theta1 T).
Proof. unfold theta_as, theta1. auto_derive; [trivial|]. ring. Qed.
Lemma eta_rate T : is_derive (fun t => eta_as T t) 0 (eta1 T).
Proof. unfold eta_as, eta1. auto_derive; [trivial|]. ring. Qed.
Lemma p_rate T : is_derive (fun t => p_as T t) 0 (p1 T).
Proof. unfold p_as, p1. auto_derive; [trivial|]. ring. Qed.
Lemma Pi_at_0 T : pi_as T 0 / 3600 + pi0_deg = Pi0_deg T.
Proof. unfold pi_as, Pi0_deg. field. Qed.
Lemma obl_rate T : is_derive (fun T => obl_as (T / 100)) T (eps_rate T).
Proof. unfold obl_as, eps_rate. auto_derive; [trivial|]. cbv zeta. field. Qed.
Lemma zero_interval_angles T :
  zeta_as T 0 = 0 /\ z_as T 0 = 0 /\ theta_as T 0 = 0 /\ eta_as T 0 = 0 /\ p_as T 0 = 0.
Proof. unfold zeta_as, z_as, theta_as, eta_as, p_as. repeat split; ring. Qed.

(* the three components of w_E - w_R, arcsec / century *)
Definition route_dx (T : R) : R := eps_rate T - eta1 T * cos (d2r (Pi0_deg T)).
Definition route_dy (T : R) : R :=
  theta1 T - (p1 T * sin (d2r (eps_deg T)) + eta1 T * sin (d2r (Pi0_deg T)) * cos (d2r (eps_deg T))).
Definition route_dz (T : R) : R :=
  2 * zeta1 T - (p1 T * cos (d2r (eps_deg T)) - eta1 T * sin (d2r (Pi0_deg T)) * sin (d2r (eps_deg T))).

Theorem route_first_order T : -5 <= T <= 5 ->
  Rabs (route_dx T) <= 25 / 1000 /\ Rabs (route_dy T) <= 10 / 1000 /\ Rabs (route_dz T) <= 5 / 1000.
Proof.
  intro HT.
  unfold route_dx, route_dy, route_dz, eps_rate, eta1, theta1, p1, zeta1, Pi0_deg, eps_deg, obl_as,
         eps0_deg, pi0_deg, d2r. cbv zeta. decn.
  split; [|split].
  - Time interval with (i_bisect T, i_taylor T, i_prec 60).
  - Time interval with (i_bisect T, i_taylor T, i_prec 60).
  - Time interval with (i_bisect T, i_taylor T, i_prec 60).
Qed.

(* ------------------------------------------------------------------ *)
(** * finite intervals with one end at J2000 (a one-variable problem): the two routes agree within
      a chord of 9e-7 (5.2e-5 degree < 1e-4 degree) for the other epoch within 5 centuries *)
From Spec Require Import PrecessionBack.

Definition R_route (T t : R) (v : vec) : vec :=
  rot_equ (d2r (zeta_as T t / 3600)) (d2r (z_as T t / 3600)) (d2r (theta_as T t / 3600)) v.
Definition E_route (T t : R) (v : vec) : vec :=
  Rx (d2r (eps_deg (T + t)))
     (rot_ecl (d2r (eta_as T t / 3600)) (d2r (pi_as T t / 3600 + pi0_deg)) (d2r (p_as T t / 3600))
              (Rx (- d2r (eps_deg T)) v)).

(* linear combinations of three vectors *)
Definition vscal (k : R) (u : vec) : vec := let '(a, b, c) := u in (k * a, k * b, k * c).
Definition vlin (x y z : R) (c1 c2 c3 : vec) : vec := vadd (vscal x c1) (vadd (vscal y c2) (vscal z c3)).

Lemma vlin_basis x y z : (x, y, z) = vlin x y z (1, 0, 0) (0, 1, 0) (0, 0, 1).
Proof. unfold vlin, vscal, vadd. apply vec_eq; ring. Qed.
Lemma Rx_vlin a x y z c1 c2 c3 : Rx a (vlin x y z c1 c2 c3) = vlin x y z (Rx a c1) (Rx a c2) (Rx a c3).
Proof.
  destruct c1 as [[? ?] ?], c2 as [[? ?] ?], c3 as [[? ?] ?]. unfold vlin, vscal, vadd, Rx. apply vec_eq; ring.
Qed.
Lemma Ry_vlin a x y z c1 c2 c3 : Ry a (vlin x y z c1 c2 c3) = vlin x y z (Ry a c1) (Ry a c2) (Ry a c3).
Proof.
  destruct c1 as [[? ?] ?], c2 as [[? ?] ?], c3 as [[? ?] ?]. unfold vlin, vscal, vadd, Ry. apply vec_eq; ring.
Qed.
Lemma Rz_vlin a x y z c1 c2 c3 : Rz a (vlin x y z c1 c2 c3) = vlin x y z (Rz a c1) (Rz a c2) (Rz a c3).
Proof.
  destruct c1 as [[? ?] ?], c2 as [[? ?] ?], c3 as [[? ?] ?]. unfold vlin, vscal, vadd, Rz. apply vec_eq; ring.
Qed.
Lemma vsub_vlin x y z a1 a2 a3 b1 b2 b3 :
  vsub (vlin x y z a1 a2 a3) (vlin x y z b1 b2 b3) = vlin x y z (vsub a1 b1) (vsub a2 b2) (vsub a3 b3).
Proof.
  destruct a1 as [[? ?] ?], a2 as [[? ?] ?], a3 as [[? ?] ?], b1 as [[? ?] ?], b2 as [[? ?] ?], b3 as [[? ?] ?].
  unfold vlin, vscal, vadd, vsub. apply vec_eq; ring.
Qed.

Lemma R_route_vlin T t x y z c1 c2 c3 :
  R_route T t (vlin x y z c1 c2 c3) = vlin x y z (R_route T t c1) (R_route T t c2) (R_route T t c3).
Proof. unfold R_route, rot_equ. rewrite Rz_vlin, Ry_vlin, Rz_vlin. reflexivity. Qed.
Lemma E_route_vlin T t x y z c1 c2 c3 :
  E_route T t (vlin x y z c1 c2 c3) = vlin x y z (E_route T t c1) (E_route T t c2) (E_route T t c3).
Proof. unfold E_route, rot_ecl. rewrite Rx_vlin, Rz_vlin, Rx_vlin, Rz_vlin, Rx_vlin. reflexivity. Qed.

Lemma vnorm_vscal k u : vnorm (vscal k u) = Rabs k * vnorm u.
Proof.
  unfold vnorm. rewrite <- (sqrt_Rsqr_abs k), <- sqrt_mult_alt by apply Rle_0_sqr.
  f_equal. destruct u as [[a b] c]. unfold vscal, dot, Rsqr. ring.
Qed.

Lemma coord_le_vnorm x y z : Rabs x <= vnorm (x, y, z) /\ Rabs y <= vnorm (x, y, z) /\ Rabs z <= vnorm (x, y, z).
Proof.
  unfold vnorm, dot.
  repeat split; rewrite <- sqrt_Rsqr_abs; apply sqrt_le_1_alt; unfold Rsqr; nra.
Qed.

Lemma vnorm_vlin x y z c1 c2 c3 :
  vnorm (vlin x y z c1 c2 c3) <= (vnorm c1 + vnorm c2 + vnorm c3) * vnorm (x, y, z).
Proof.
  unfold vlin. eapply Rle_trans; [apply vnorm_triangle|].
  eapply Rle_trans; [apply Rplus_le_compat_l, vnorm_triangle|].
  rewrite !vnorm_vscal. destruct (coord_le_vnorm x y z) as (Hx & Hy & Hz).
  pose proof (vnorm_nonneg c1). pose proof (vnorm_nonneg c2). pose proof (vnorm_nonneg c3).
  pose proof (Rabs_pos x). pose proof (Rabs_pos y). pose proof (Rabs_pos z). nra.
Qed.

Lemma vnorm_le_sum a b c : vnorm (a, b, c) <= Rabs a + Rabs b + Rabs c.
Proof.
  unfold vnorm, dot. pose proof (Rabs_pos a). pose proof (Rabs_pos b). pose proof (Rabs_pos c).
  rewrite <- (sqrt_square (Rabs a + Rabs b + Rabs c)) by lra. apply sqrt_le_1_alt.
  rewrite <- (Rabs_mult a a), <- (Rabs_mult b b), <- (Rabs_mult c c) || idtac.
  assert (a * a = Rabs a * Rabs a) by (rewrite <- Rabs_mult; symmetry; apply Rabs_right; nra).
  assert (b * b = Rabs b * Rabs b) by (rewrite <- Rabs_mult; symmetry; apply Rabs_right; nra).
  assert (c * c = Rabs c * Rabs c) by (rewrite <- Rabs_mult; symmetry; apply Rabs_right; nra).
  nra.
Qed.

(* the difference of the two routes on an arbitrary vector from the differences on the basis *)
Theorem route_chord_from_columns T t v b1 b2 b3 :
  chord (E_route T t (1, 0, 0)) (R_route T t (1, 0, 0)) <= b1 ->
  chord (E_route T t (0, 1, 0)) (R_route T t (0, 1, 0)) <= b2 ->
  chord (E_route T t (0, 0, 1)) (R_route T t (0, 0, 1)) <= b3 ->
  chord (E_route T t v) (R_route T t v) <= (b1 + b2 + b3) * vnorm v.
Proof.
  intros H1 H2 H3. destruct v as [[x y] z]. rewrite (vlin_basis x y z) at 1 2.
  unfold chord in *. rewrite E_route_vlin, R_route_vlin, vsub_vlin.
  eapply Rle_trans; [apply vnorm_vlin|].
  apply Rmult_le_compat_r; [apply vnorm_nonneg | lra].
Qed.
