(* Kepler: hand-written specification of Kepler's equation  E - e sin E = M  and of
   the binary search (Meeus' third method, after R. Sinnott) that solves it, over the
   reals.  Independent of the pymeeus code; C11 bridges the generated loop to
   [bisect].  Nothing here mentions the model. *)
From Coq Require Import Reals Ranalysis5 Lra Lia.
Open Scope R_scope.

(* Kepler's function: mean anomaly as a function of the eccentric anomaly *)
Definition kg (e E : R) : R := E - e * sin E.

(* copysign(1.0, x) read over the reals (x = 0 counts as positive) *)
Definition sgn1 (x : R) : R := if Rlt_dec x 0 then -1 else 1.

(* n steps of the binary search from estimate e0 with step d *)
Fixpoint bisect (e m : R) (n : nat) (d e0 : R) : R :=
  match n with
  | O => e0
  | S n' => bisect e m n' (d / 2) (e0 + d * sgn1 (m - kg e e0))
  end.

Lemma abs_sin_le_pos x : 0 < x -> Rabs (sin x) <= x.
Proof.
  intro H. pose proof (sin_lt_x x H). pose proof (SIN_bound x).
  unfold Rabs. destruct (Rcase_abs (sin x)); try lra.
  destruct (Rle_dec x 1).
  - assert (0 <= sin x); [| lra].
    apply sin_ge_0. lra. pose proof PI2_3_2. lra.
  - lra.
Qed.

Lemma abs_sin_le x : Rabs (sin x) <= Rabs x.
Proof.
  destruct (Rtotal_order x 0) as [H | [H | H]].
  - rewrite (Rabs_left x H). replace (sin x) with (- sin (- x)) by (rewrite sin_neg; ring).
    rewrite Rabs_Ropp. apply abs_sin_le_pos. lra.
  - subst. rewrite sin_0. lra.
  - rewrite (Rabs_right x) by lra. apply abs_sin_le_pos. lra.
Qed.

Lemma sin_lip a b : Rabs (sin a - sin b) <= Rabs (a - b).
Proof.
  rewrite form4. rewrite !Rabs_mult.
  pose proof (abs_sin_le ((a - b) / 2)) as H1.
  pose proof (COS_bound ((a + b) / 2)) as H2.
  assert (Rabs (cos ((a + b) / 2)) <= 1) as H3 by (apply Rabs_le; lra).
  pose proof (Rabs_pos (cos ((a + b) / 2))).
  pose proof (Rabs_pos (sin ((a - b) / 2))).
  rewrite (Rabs_right 2) by lra.
  replace (Rabs (a - b)) with (2 * Rabs ((a - b) / 2)).
  2:{ unfold Rdiv. rewrite Rabs_mult. rewrite (Rabs_right (/ 2)) by lra. lra. }
  nra.
Qed.

Lemma kg_lip e a b : 0 <= e -> Rabs (kg e a - kg e b) <= (1 + e) * Rabs (a - b).
Proof.
  intro He. unfold kg.
  replace (a - e * sin a - (b - e * sin b)) with ((a - b) + - (e * (sin a - sin b))) by ring.
  eapply Rle_trans; [apply Rabs_triang|].
  rewrite Rabs_Ropp, Rabs_mult, (Rabs_right e) by lra.
  pose proof (sin_lip a b). pose proof (Rabs_pos (a - b)). nra.
Qed.

(* kg is strictly increasing for e < 1 *)
Lemma kg_incr e a b : 0 <= e < 1 -> a < b -> kg e a < kg e b.
Proof.
  intros He Hab. unfold kg.
  pose proof (sin_lip b a) as H. rewrite (Rabs_right (b - a)) in H by lra.
  assert (sin b - sin a <= b - a) by (unfold Rabs in H; destruct (Rcase_abs _); lra).
  nra.
Qed.

Lemma kg_inj e a b : 0 <= e < 1 -> kg e a = kg e b -> a = b.
Proof.
  intros He H. destruct (Rtotal_order a b) as [L | [L | L]]; auto.
  - pose proof (kg_incr e a b He L). lra.
  - pose proof (kg_incr e b a He L). lra.
Qed.

Lemma pow2_pos n : 0 < 2 ^ n.
Proof. apply pow_lt. lra. Qed.

(* the bracket  kg(E - 2d) <= m <= kg(E + 2d)  is kept, and it only shrinks *)
Lemma bisect_bracket e m n : forall d e0, 0 < d ->
  kg e (e0 - 2 * d) <= m <= kg e (e0 + 2 * d) ->
  kg e (bisect e m n d e0 - 2 * (d / 2 ^ n)) <= m <= kg e (bisect e m n d e0 + 2 * (d / 2 ^ n)) /\
  e0 - 2 * d <= bisect e m n d e0 - 2 * (d / 2 ^ n) /\
  bisect e m n d e0 + 2 * (d / 2 ^ n) <= e0 + 2 * d.
Proof.
  induction n; intros d e0 Hd Hb.
  - simpl. replace (d / 1) with d by field. lra.
  - simpl bisect.
    replace (d / 2 ^ S n) with (d / 2 / 2 ^ n).
    2:{ simpl. field. pose proof (pow2_pos n). lra. }
    unfold sgn1. destruct (Rlt_dec (m - kg e e0) 0) as [L | L].
    + destruct (IHn (d / 2) (e0 + d * -1)) as (A & B & C); [lra | |].
      * replace (e0 + d * -1 - 2 * (d / 2)) with (e0 - 2 * d) by field.
        replace (e0 + d * -1 + 2 * (d / 2)) with e0 by field. lra.
      * split; [exact A|]. lra.
    + destruct (IHn (d / 2) (e0 + d * 1)) as (A & B & C); [lra | |].
      * replace (e0 + d * 1 - 2 * (d / 2)) with e0 by field.
        replace (e0 + d * 1 + 2 * (d / 2)) with (e0 + 2 * d) by field. lra.
      * split; [exact A|]. lra.
Qed.

(* residual of the n-th estimate *)
Theorem bisect_residual e m n d e0 : 0 <= e -> 0 < d ->
  kg e (e0 - 2 * d) <= m <= kg e (e0 + 2 * d) ->
  Rabs (kg e (bisect e m n d e0) - m) <= (1 + e) * (2 * (d / 2 ^ n)).
Proof.
  intros He Hd Hb.
  destruct (bisect_bracket e m n d e0 Hd Hb) as ((A1 & A2) & _).
  set (E := bisect e m n d e0) in *. set (dn := d / 2 ^ n) in *.
  assert (0 < dn) by (apply Rdiv_lt_0_compat; [lra | apply pow2_pos]).
  pose proof (kg_lip e E (E - 2 * dn) He) as L1.
  pose proof (kg_lip e (E + 2 * dn) E He) as L2.
  replace (E - (E - 2 * dn)) with (2 * dn) in L1 by ring.
  replace (E + 2 * dn - E) with (2 * dn) in L2 by ring.
  rewrite (Rabs_right (2 * dn)) in L1, L2 by lra.
  unfold Rabs in *. repeat destruct (Rcase_abs _); lra.
Qed.

(* distance of the n-th estimate from the (unique) root *)
Theorem bisect_near_root e m n d e0 Es : 0 <= e < 1 -> 0 < d ->
  kg e (e0 - 2 * d) <= m <= kg e (e0 + 2 * d) -> kg e Es = m ->
  Rabs (Es - bisect e m n d e0) <= 2 * (d / 2 ^ n).
Proof.
  intros He Hd Hb Hs.
  destruct (bisect_bracket e m n d e0 Hd Hb) as ((A1 & A2) & _).
  set (E := bisect e m n d e0) in *. set (dn := d / 2 ^ n) in *.
  assert (E - 2 * dn <= Es).
  { destruct (Rle_dec (E - 2 * dn) Es); auto.
    pose proof (kg_incr e Es (E - 2 * dn) He). lra. }
  assert (Es <= E + 2 * dn).
  { destruct (Rle_dec Es (E + 2 * dn)); auto.
    pose proof (kg_incr e (E + 2 * dn) Es He). lra. }
  apply Rabs_le. lra.
Qed.

(* Kepler's equation has a root in [0, PI] for a mean anomaly in [0, PI] *)
Theorem kepler_root_exists e m : 0 <= e < 1 -> 0 <= m <= PI ->
  exists Es, 0 <= Es <= PI /\ kg e Es = m.
Proof.
  intros He Hm. pose proof PI_RGT_0 as Hpi.
  assert (kg e 0 = 0) as K0 by (unfold kg; rewrite sin_0; ring).
  assert (kg e PI = PI) as K1 by (unfold kg; rewrite sin_PI; ring).
  destruct (Req_dec m 0) as [-> | N0]; [exists 0; split; [lra | exact K0]|].
  destruct (Req_dec m PI) as [-> | N1]; [exists PI; split; [lra | exact K1]|].
  destruct (IVT_interv (fun x => kg e x - m) 0 PI) as (z & Hz & Hf).
  - intros a _. unfold kg. reg.
  - lra.
  - rewrite K0. lra.
  - rewrite K1. lra.
  - exists z. split; [exact Hz | lra].
Qed.

(* true anomaly from the eccentric anomaly: v = 2 atan( sqrt((1+e)/(1-e)) tan(E/2) ) *)
Lemma true_anomaly_tan c t : let v := 2 * atan (c * t) in
  tan (v / 2) = c * t /\ - PI < v < PI.
Proof.
  intro v. unfold v.
  replace (2 * atan (c * t) / 2) with (atan (c * t)) by field.
  split; [apply tan_atan|].
  pose proof (atan_bound (c * t)). lra.
Qed.

(* the true anomaly has the sign of the eccentric anomaly (same half of the orbit) *)
Lemma true_anomaly_sign c E : 0 < c -> - PI < E < PI ->
  (0 < E -> 0 < 2 * atan (c * tan (E / 2))) /\ (E < 0 -> 2 * atan (c * tan (E / 2)) < 0).
Proof.
  intros Hc HE. split; intro H.
  - assert (0 < tan (E / 2)) by (apply tan_gt_0; lra).
    assert (atan 0 < atan (c * tan (E / 2))) by (apply atan_increasing; nra).
    rewrite atan_0 in *. lra.
  - assert (tan (E / 2) < 0) by (apply tan_lt_0; lra).
    assert (atan (c * tan (E / 2)) < atan 0) by (apply atan_increasing; nra).
    rewrite atan_0 in *. lra.
Qed.
