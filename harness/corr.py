"""Correspondence harness: the same Python expressions are (a) evaluated by the real
implementation with every libm call traced and (b) translated by py2coq into
calls of the generated model, evaluated by vm_compute with the traced libm
values as oracle table, and compared bit for bit inside Coq."""
import ast, importlib, importlib.util, json, math, os, re, subprocess, sys, types, datetime

HERE = os.path.dirname(os.path.abspath(__file__))
sys.path.insert(0, os.path.join(HERE, "..", "py2coq"))
import translate as T   # noqa: E402

LIBM = ["sin", "cos", "tan", "asin", "acos", "atan", "atan2", "exp", "log", "log10"]
LIBM_TAG = {"sin": "Lsin", "cos": "Lcos", "tan": "Ltan", "asin": "Lasin", "acos": "Lacos",
            "atan": "Latan", "atan2": "Latan2", "exp": "Lexp", "log": "Llog", "log10": "Llog10",
            "pow": "Lpow"}
EXN = ["TypeError", "ValueError", "ZeroDivisionError", "OverflowError", "AttributeError",
       "IndexError", "KeyError", "UnboundLocalError", "RuntimeError"]


def fhex(x):
    if x != x: return "nan"
    if x == math.inf: return "infinity"
    if x == -math.inf: return "neg_infinity"
    h = float(x).hex()
    return "(%s)%%float" % h


class Tracer:
    def __init__(self):
        self.trace = []

    def wrap(self, name, fn):
        def w(*a):
            try:
                fa = [float(x) for x in a]
            except Exception:
                return fn(*a)
            try:
                r = fn(*a)
            except ValueError:
                self.trace.append((name, fa, math.nan)); raise
            except OverflowError:
                self.trace.append((name, fa, math.inf)); raise
            self.trace.append((name, fa, r))
            return r
        w.__name__ = name
        return w

    def vpow(self, a, b):
        r = None
        try:
            r = a ** b
            return r
        finally:
            if isinstance(a, (int, float)) and isinstance(b, (int, float)) and not \
                    (isinstance(a, int) and isinstance(b, int) and b >= 0) and not isinstance(a, bool):
                try:
                    fa, fb = float(a), float(b)
                    rr = r if isinstance(r, float) else math.pow(fa, fb)
                    self.trace.append(("pow", [fa, fb], rr))
                except Exception:
                    try:
                        self.trace.append(("pow", [float(a), float(b)], math.inf))
                    except Exception:
                        pass


class PowRewriter(ast.NodeTransformer):
    def visit_BinOp(self, n):
        self.generic_visit(n)
        if isinstance(n.op, ast.Pow):
            return ast.copy_location(ast.Call(func=ast.Name(id="__vpow__", ctx=ast.Load()),
                                              args=[n.left, n.right], keywords=[]), n)
        return n

    def visit_AugAssign(self, n):
        self.generic_visit(n)
        if isinstance(n.op, ast.Pow):
            load = ast.parse(ast.unparse(n.target), mode="eval").body
            return ast.copy_location(ast.Assign(targets=[n.target], value=ast.Call(
                func=ast.Name(id="__vpow__", ctx=ast.Load()), args=[load, n.value], keywords=[])), n)
        return n


def load_impl(repo, tracer, modnames):
    """import pymeeus from `repo` with `**` rewritten to a tracing call and the libm
    names of every module rebound to tracing wrappers (no change to the repo)."""
    for k in [k for k in sys.modules if k == "pymeeus" or k.startswith("pymeeus.")]:
        del sys.modules[k]
    pkg = types.ModuleType("pymeeus"); pkg.__path__ = [os.path.join(repo, "pymeeus")]
    sys.modules["pymeeus"] = pkg
    import builtins
    mods = {}
    wrappers = {n: tracer.wrap(n, getattr(math, n)) for n in LIBM}

    class Finder:
        @staticmethod
        def find_spec(name, path=None, target=None):
            if not name.startswith("pymeeus."): return None
            fn = os.path.join(repo, "pymeeus", name.split(".", 1)[1] + ".py")
            if not os.path.exists(fn): return None
            return importlib.util.spec_from_loader(name, Loader(fn))

    class Loader:
        def __init__(self, fn): self.fn = fn
        def create_module(self, spec): return None
        def exec_module(self, module):
            src = open(self.fn).read()
            tree = PowRewriter().visit(ast.parse(src))
            ast.fix_missing_locations(tree)
            module.__dict__["__vpow__"] = tracer.vpow
            module.__file__ = self.fn
            exec(compile(tree, self.fn, "exec"), module.__dict__)
            for n, w in wrappers.items():
                if n in module.__dict__ and module.__dict__[n] is getattr(math, n):
                    module.__dict__[n] = w

    finder = Finder()
    sys.meta_path.insert(0, finder)
    try:
        for m in modnames:
            mods[m] = importlib.import_module("pymeeus." + m)
    finally:
        sys.meta_path.remove(finder)
    return mods


class Encoder:
    def __init__(self, tr):
        self.tr = tr

    def enc(self, v):
        if v is None: return "VNone"
        if v is True: return "(VBool true)"
        if v is False: return "(VBool false)"
        if isinstance(v, int): return "(VInt (%d))" % v
        if isinstance(v, float): return "(VFloat %s)" % fhex(v)
        if isinstance(v, str):
            if any(ord(c) > 127 for c in v): raise ValueError("non-ascii")
            return '(VStr "%s"%%string)' % v.replace('"', '""')
        if isinstance(v, tuple): return "(VTuple [%s])" % "; ".join(self.enc(x) for x in v)
        if isinstance(v, list): return "(VList [%s])" % "; ".join(self.enc(x) for x in v)
        if isinstance(v, dict):
            return "(VDict [%s])" % "; ".join("(%s, %s)" % (self.enc(k), self.enc(x)) for k, x in v.items())
        if isinstance(v, datetime.datetime):
            return "(VObj cDateTime [%s])" % "; ".join(
                self.enc(x) for x in (v.year, v.month, v.day, v.hour, v.minute, v.second, v.microsecond))
        if isinstance(v, datetime.date):
            return "(VObj cDate [%s])" % "; ".join(self.enc(x) for x in (v.year, v.month, v.day))
        if isinstance(v, complex): return "(VObj cComplex [])"
        cn = type(v).__name__
        if cn in T.CLASS_TAG:
            fs = self.tr.class_fields(cn)
            return "(VObj %s [%s])" % (T.CLASS_TAG[cn], "; ".join(self.enc(getattr(v, f)) for f in fs))
        raise ValueError("cannot encode %r" % (v,))

    def enc_exc(self, e):
        n = type(e).__name__
        return "(VErr %s)" % (n if n in EXN else "RuntimeError")


def cases_module_source(tr, cases, modnames):
    """Python source of a module defining case_<i>() for each expression string"""
    lines = []
    for m in tr.modules:
        names = [k for k in m.classes] + \
                [k for k, fi in m.funcs.items() if fi.cls is None and k != "main"] + list(m.globals)
        names = [n for n in names if n.isidentifier()]
        if names:
            lines.append("from pymeeus.%s import %s" % (m.name, ", ".join(sorted(set(names)))))
    lines.append("import datetime")
    lines.append("from math import pi")
    lines.append("")
    for i, c in enumerate(cases):
        lines.append("def case_%d():" % i)
        lines.append("    return %s" % c)
        lines.append("")
    return "\n".join(lines)


def basis_namespace(tracer):
    """the menu of basis functions /verif/vlib/basis.py (names bf_*; py2coq maps them to
    VFun ids, B64.b64_basis_call interprets them) for case expressions; the libm calls inside
    them are traced like pymeeus' own (their `math` is a namespace of tracing wrappers)."""
    fn = os.path.join(HERE, "..", "vlib", "basis.py")
    if not os.path.exists(fn): return {}
    tm = types.SimpleNamespace(**{n: getattr(math, n) for n in dir(math) if not n.startswith("_")})
    for n in LIBM:
        setattr(tm, n, tracer.wrap(n, getattr(math, n)))
    ns = {"__name__": "basis"}
    exec(compile(open(fn).read(), fn, "exec"), ns)
    ns["math"] = tm      # the functions look `math` up at call time
    return {k: v for k, v in ns.items() if k.startswith("bf_")}


def run_impl(repo, src, ncases, modnames, tr):
    """returns per case (encoded result, libm table text, summary)"""
    tracer = Tracer()
    load_impl(repo, tracer, modnames)
    tree = PowRewriter().visit(ast.parse(src)); ast.fix_missing_locations(tree)
    env = {"__vpow__": tracer.vpow, "__name__": "cases"}
    env.update(basis_namespace(tracer))
    exec(compile(tree, "<cases>", "exec"), env)
    enc = Encoder(tr)
    out = []
    for i in range(ncases):
        tracer.trace = []
        try:
            r = env["case_%d" % i]()
            try:
                e = enc.enc(r); kind = "value"
            except ValueError as ex:
                e = None; kind = "unencodable: %s" % ex
        except Exception as ex:      # noqa
            e = enc.enc_exc(ex); kind = type(ex).__name__
        seen, tbl = set(), []
        for name, args, res in tracer.trace:
            key = (name, tuple(a.hex() if a == a else "nan" for a in args))
            if key in seen: continue
            seen.add(key)
            tbl.append("(%s, [%s], %s)" % (LIBM_TAG[name], "; ".join(fhex(a) for a in args), fhex(res)))
        out.append((e, "[%s]" % "; ".join(tbl), kind, len(tracer.trace)))
    return out


RUN_HEADER = """From Coq Require Import ZArith List String PrimFloat Bool.
From PyLib Require Import PyVal PyBuiltins B64 Corr.
From Gen Require Import %s.
Import ListNotations.
Open Scope Z_scope.
"""


def write_shard(path_v, modname, idxs, results):
    """Run file: evaluates each case against its oracle table and lists the failing indices"""
    with open(path_v, "w") as f:
        f.write(RUN_HEADER % modname)
        items = []
        for i in idxs:
            e, tbl, kind, _ = results[i]
            if e is None: continue
            items.append("(%d, val_bits_eqb (%s.f_case_%d (B64opsB %s) tt) %s)" % (i, modname, i, tbl, e))
        f.write("Definition results : list (Z * bool) :=\n  [%s].\n" % ";\n   ".join(items))
        f.write("Definition failing := map fst (filter (fun p => negb (snd p)) results).\n")
        f.write("Eval vm_compute in failing.\n")


def parse_failing(out):
    m = re.search(r"=\s*\[(.*?)\]\s*:\s*list Z", out, re.S)
    if not m: return None
    body = m.group(1).strip()
    if not body: return []
    return [int(x.strip().strip("()")) for x in body.split(";")]
