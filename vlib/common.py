"""Shared machinery of /verif/bin/check: regeneration, build, correspondence, evidence."""
import fcntl, glob, hashlib, json, os, re, shutil, subprocess, sys, time

VERIF = os.path.dirname(os.path.dirname(os.path.abspath(__file__)))
REPO = os.environ.get("VERIF_REPO", "/repo")
BUILD = os.path.join(VERIF, "build")
PY = "/venv/bin/python"
NPROC = min(16, os.cpu_count() or 4)

sys.path.insert(0, os.path.join(VERIF, "py2coq"))
sys.path.insert(0, os.path.join(VERIF, "harness"))

ALL_MODULES = ["base", "Angle", "Epoch", "Interpolation", "CurveFitting", "Coordinates", "Earth", "Sun", "Moon",
               "Mercury", "Venus", "Mars", "Jupiter", "Saturn", "Uranus", "Neptune", "Pluto", "Minor", "JupiterMoons"]


def mods(*names):
    """module list in the canonical (dependency) order"""
    return [m for m in ALL_MODULES if m in names]

ENV = dict(os.environ, PYTHONPATH=REPO, PYTHONHASHSEED="0", PIP_NO_INDEX="1",
           PYTHONDONTWRITEBYTECODE="1")

TRUSTED_BASE = [
    "Coq 8.16.1 kernel incl. primitive Uint63/PrimFloat evaluation and the vm_compute machine (no native_compute)",
    "py2coq translator (/verif/py2coq/translate.py), incl. its value-semantics treatment of self-mutating methods",
    "Python-semantics library /verif/coq/lib (PyVal, PyBuiltins, B64): validated by the bit-exact correspondence run, not proved",
    "CPython float + - * / sqrt are IEEE binary64 round-to-nearest-even (x86-64 SSE2)",
    "libm functions are an oracle table in the binary64 instance (no theorem assumes anything about them)",
    "hand-written specifications under /verif/coq/spec are the meaning given to the property text",
]


def _kill_tree(pid):
    """SIGKILL pid and all its descendants (children stay in the caller's process group and session, so
    that whoever kills the check's group also kills them; on OUR timeout the tree is walked via /proc)"""
    import signal
    kids = {}
    for d in os.listdir("/proc"):
        if d.isdigit():
            try:
                with open("/proc/%s/stat" % d) as f:
                    st = f.read()
                pp = int(st[st.rindex(")") + 2:].split()[1])
                kids.setdefault(pp, []).append(int(d))
            except (OSError, ValueError, IndexError):
                pass
    todo, seen = [pid], []
    while todo:
        x = todo.pop(); seen.append(x); todo.extend(kids.get(x, []))
    for x in reversed(seen):
        try: os.kill(x, signal.SIGKILL)
        except OSError: pass


def sh(cmd, timeout=None, cwd=None, env=None):
    """run a command; on timeout the whole process tree is killed (a `make` that is killed alone leaves
    its coqc children running for hours)"""
    t0 = time.time()
    p = subprocess.Popen(cmd, shell=isinstance(cmd, str), cwd=cwd, env=env or ENV, stdout=subprocess.PIPE,
                         stderr=subprocess.STDOUT, text=True)
    try:
        out, _ = p.communicate(timeout=timeout)
        return p.returncode, out, time.time() - t0
    except subprocess.TimeoutExpired:
        _kill_tree(p.pid)
        try: out, _ = p.communicate(timeout=30)
        except Exception: out = ""
        return 124, (out or "") + "\n[timeout after %ss]" % timeout, time.time() - t0


def sha_files(paths):
    h = hashlib.sha256()
    for p in sorted(paths):
        h.update(p.encode()); h.update(b"\0")
        with open(p, "rb") as f:
            h.update(f.read())
        h.update(b"\0")
    return h.hexdigest()


def static_sources():
    """files the generated model's .vo depend on besides the Python sources: the translator and
    the two library files the generated code imports.  Other lib files (B64, Ideal, PyEval, ...)
    are tracked by make's own dependencies when proofs are compiled."""
    return ([os.path.join(VERIF, "coq", "lib", f) for f in ("PyVal.v", "PyBuiltins.v")]
            + glob.glob(os.path.join(VERIF, "py2coq", "*.py")))


def coq_flags(bdir):
    return ["-Q", os.path.join(VERIF, "coq", "lib"), "PyLib",
            "-Q", os.path.join(VERIF, "coq", "spec"), "Spec",
            "-Q", os.path.join(bdir, "gen"), "Gen",
            "-Q", os.path.join(bdir, "proofs"), "Proofs"]


class Lock:
    def __init__(self, path):
        os.makedirs(os.path.dirname(path), exist_ok=True)
        self.f = open(path, "w")
    def __enter__(self):
        fcntl.flock(self.f, fcntl.LOCK_EX); return self
    def __exit__(self, *a):
        fcntl.flock(self.f, fcntl.LOCK_UN); self.f.close()


def ensure_static():
    """lib/ and spec/ .vo files (normally built by setup_cmd); rebuild if stale"""
    cdir = os.path.join(VERIF, "coq")
    with Lock(os.path.join(BUILD, "static.lock")):
        rc, out, _ = sh("coq_makefile -f _CoqProject -o Makefile > /dev/null && make -j%d 2>&1 | tail -30" % NPROC,
                        cwd=cdir, timeout=1800)
        return rc == 0 and "Error" not in out, out


def generate(modules, log):
    """Stage G: translate `modules` from REPO's working tree into build/<hash>/gen and compile.
    Returns (bdir, report, ok, message)."""
    import translate as T
    srcs = [os.path.join(REPO, "pymeeus", m + ".py") for m in modules]
    for s in srcs:
        if not os.path.exists(s):
            return None, {}, False, "source file missing: %s" % s
    key = sha_files(srcs + static_sources())[:16]
    bdir = os.path.join(BUILD, key)
    gdir = os.path.join(bdir, "gen")
    with Lock(os.path.join(BUILD, key + ".lock")):
        stamp = os.path.join(gdir, "OK-" + "-".join(modules))
        rep_path = os.path.join(gdir, "REPORT-" + "-".join(modules) + ".json")
        if os.path.exists(stamp):
            return bdir, json.load(open(rep_path)), True, "cached"
        os.makedirs(gdir, exist_ok=True)
        sys.setrecursionlimit(50000)
        try:
            tr = T.Translator(REPO, modules)
        except SyntaxError as e:
            return bdir, {}, False, "source does not parse: %s" % e
        tr.run()
        tr.write(gdir)
        json.dump(tr.report, open(rep_path, "w"), indent=1, sort_keys=True)
        for m in modules:
            vo = os.path.join(gdir, "M_%s.vo" % m)
            rc, out, dt = sh(["coqc"] + coq_flags(bdir) + [os.path.join(gdir, "M_%s.v" % m)], timeout=1800)
            log("  coqc M_%s.v: rc=%d %.1fs" % (m, rc, dt))
            if rc != 0:
                return bdir, tr.report, False, "generated model M_%s.v does not compile:\n%s" % (m, out[-2000:])
        open(stamp, "w").write("ok")
        prune_builds(keep=key)
        return bdir, tr.report, True, "generated"


def prune_builds(keep, n=40, min_age_s=6 * 3600):
    """keep the n most recent build directories; never remove one used in the last hours
    (another check may be running in it)"""
    ds = [d for d in glob.glob(os.path.join(BUILD, "*")) if os.path.isdir(d) and len(os.path.basename(d)) == 16]
    ds.sort(key=os.path.getmtime, reverse=True)
    now = time.time()
    for d in ds[n:]:
        newest = max([os.path.getmtime(d)] + [os.path.getmtime(os.path.join(d, x)) for x in os.listdir(d)])
        if os.path.basename(d) != keep and now - newest > min_age_s:
            shutil.rmtree(d, ignore_errors=True)
            try: os.remove(d + ".lock")
            except OSError: pass


def build_proofs(bdir, prop, files, log, timeout=3000, jobs=NPROC):
    """Stage P: copy coq/proofs/<prop>/*.v next to the generated model and compile with make.
    Returns (ok, output, failing file or None, assumptions {theorem: text})."""
    src = os.path.join(VERIF, "coq", "proofs", prop)
    dst = os.path.join(bdir, "proofs", prop)
    os.makedirs(dst, exist_ok=True)
    for f in files:
        # an entry "../Cyy/file.v" is a proof file of another property that this one imports
        # (From Proofs.Cyy Require ...): it is copied to proofs/Cyy/ of this build and compiled here
        s, d = os.path.normpath(os.path.join(src, f)), os.path.normpath(os.path.join(dst, f))
        os.makedirs(os.path.dirname(d), exist_ok=True)
        if not os.path.exists(d) or open(s).read() != open(d).read():
            shutil.copy(s, d)
            for ext in (".vo", ".glob", ".vok", ".vos"):
                try: os.remove(d[:-2] + ext)
                except OSError: pass
    with Lock(os.path.join(bdir, "proofs-%s.lock" % prop)):
        cp = os.path.join(bdir, "_CoqProject.%s" % prop)
        with open(cp, "w") as f:
            f.write("-Q %s PyLib\n-Q %s Spec\n-Q gen Gen\n-Q proofs Proofs\n" % (
                os.path.join(VERIF, "coq", "lib"), os.path.join(VERIF, "coq", "spec")))
            for x in files:
                f.write(os.path.normpath("proofs/%s/%s" % (prop, x)) + "\n")
        mk = "Makefile.%s" % prop
        rc, out, _ = sh("coq_makefile -f %s -o %s 2>&1" % (os.path.basename(cp), mk), cwd=bdir, timeout=120)
        if rc != 0:
            return False, out, None, {}
        rc, out, dt = sh("make -f %s -j%d -k 2>&1" % (mk, jobs), cwd=bdir, timeout=timeout)
        log("  make proofs/%s: rc=%d %.1fs" % (prop, rc, dt))
        bad = None
        if rc != 0:
            # the File line that is followed by an Error (not a Warning)
            m = re.search(r'File "\./proofs/%s/([^"]+)", line (\d+), characters [^\n]*\n(?:[^\n]*\n)??Error' % prop, out) or \
                re.search(r'File "\./proofs/%s/([^"]+)", line (\d+)[^\n]*\nError' % prop, out)
            if m: bad = "%s line %s" % (m.group(1), m.group(2))
            else:
                m = re.search(r"proofs/%s/(\S+?)\.vo" % prop, out)
                bad = m.group(1) if m else "unknown (timeout?)" if rc == 124 else "unknown"
        return rc == 0, out, bad, parse_assumptions(out)


def parse_assumptions(out):
    """`Print Assumptions` output following a marker line written with `Print` is not
    labelled by Coq; proof files echo the theorem name first via a Check."""
    res, cur, name = {}, None, None
    for line in out.splitlines():
        m = re.match(r"^ASSUMPTIONS_OF (\S+)", line)
        if m:
            name = m.group(1); res[name] = []; continue
        if name is not None:
            if line.startswith("COQC") or line.startswith("make") or line.startswith("ASSUMPTIONS_END"):
                name = None; continue
            if line.strip():
                res[name].append(line.rstrip())
    return {k: "\n".join(v) for k, v in res.items()}


ALLOWED_AXIOM_PREFIXES = (
    "ClassicalDedekindReals.", "FunctionalExtensionality.", "Classical_Prop.", "PrimFloat.", "PrimInt63.",
    "FloatAxioms.", "Uint63.", "Eqdep.", "JMeq.", "ProofIrrelevance.", "ClassicalEpsilon.", "Epsilon.",
    "ChoiceFacts.", "Description.", "IndefiniteDescription.", "ClassicalUniqueChoice.", "Classical_Pred_Type.",
    "PropExtensionality.", "Int63.", "Floats.", "SpecFloat.", "PrimArray.", "Rdefinitions.", "Raxioms.",
    "ClassicalFacts.", "Coq.", "Flocq.", "Interval.", "Coquelicot.")
# kernel primitives print unqualified when PrimFloat / Uint63 are imported
PRIMITIVE_NAMES = set("""float int abs eqb sub sqrt of_uint63 normfr_mantissa mul ltb ldshiftexp frshiftexp div compare add
opp leb classify next_up next_down lsl lsr land lor lxor head0 tail0 mod addc subc addcarryc subcarryc mulc diveucl
diveucl_21 addmuldiv compares ltbs lebs divs mods asr to_uint63 of_int63""".split())


def check_assumptions(text):
    """names listed by Print Assumptions that are neither kernel primitives nor standard-library /
    installed-library axioms (this development declares none, so any other name is a leak)"""
    bad = []
    for line in text.splitlines():
        if not line or line[0] in " \t" or line.startswith(("Axioms:", "Closed under", "Section Variables:", "Fetching")):
            continue
        name = line.split(":")[0].split()[0] if line.split() else ""
        if not name or name in PRIMITIVE_NAMES or name.startswith(ALLOWED_AXIOM_PREFIXES):
            continue
        bad.append(name)
    return bad


def gate_no_axioms(prop=None, gen_dir=None):
    """no Axiom/Admitted/... in the library, the specs and the proof files of `prop`
    (all proof directories when prop is None), nor in the generated model under gen_dir"""
    pat = re.compile(r"\b(Admitted|admit|Axiom|Axioms|Parameter|Parameters|Conjecture|Conjectures|Hypothesis|Hypotheses|Variable|Variables|Context|give_up|Abort|Primitive)\b|Admit Obligations|Declare Module|Unset Guard|Unset Positivity|Unset Universe|bypass_check|type-in-type|impredicative-set|native_compute")
    bad = []
    files = glob.glob(os.path.join(VERIF, "coq", "lib", "*.v")) + glob.glob(os.path.join(VERIF, "coq", "spec", "*.v"))
    files += glob.glob(os.path.join(VERIF, "coq", "proofs", prop or "*", "*.v"))
    if gen_dir: files += glob.glob(os.path.join(gen_dir, "*.v"))
    for f in files:
        insec = 0
        # blank out comments (also multi-line, non-nested is enough here) but keep line numbers
        src = re.sub(r"\(\*.*?\*\)", lambda m: re.sub(r"[^\n]", " ", m.group(0)), open(f).read(), flags=re.S)
        for i, line in enumerate(src.splitlines(), 1):
            code = line
            if re.match(r"\s*Section\b", code): insec += 1
            if re.match(r"\s*End\b", code) and insec: insec -= 1
            m = pat.search(code)
            if m:
                if m.group(1) in ("Variable", "Hypothesis", "Variables", "Hypotheses", "Context") and insec: continue
                bad.append("%s:%d: %s" % (os.path.relpath(f, VERIF), i, line.strip()))
    return bad


def write_evidence(prop, tier, seed, coverage, wall, violations, assumptions):
    os.makedirs(os.path.join(VERIF, "evidence"), exist_ok=True)
    ev = {"property_id": prop, "tier": tier, "seed": seed, "level": "proof",
          "coverage": coverage, "assumptions": assumptions, "wall_s": round(wall, 2),
          "violations": violations}
    with open(os.path.join(VERIF, "evidence", prop + ".json"), "w") as f:
        json.dump(ev, f, indent=1, sort_keys=True)


def write_replay(prop, data):
    d = os.path.join(VERIF, "replays")
    os.makedirs(d, exist_ok=True)
    n = 0
    while os.path.exists(os.path.join(d, "%s-%d.json" % (prop, n))): n += 1
    p = os.path.join(d, "%s-%d.json" % (prop, n))
    json.dump(data, open(p, "w"), indent=1, sort_keys=True, default=str)
    return os.path.relpath(p, VERIF)


def known_findings(prop):
    p = os.path.join(VERIF, "known_findings.json")
    if not os.path.exists(p): return []
    return [k for k in json.load(open(p)).get("findings", []) if k["property"] == prop]


def correspondence(bdir, modules, cases, log, tag, shard=250, timeout=900):
    """Stage C.  cases: list of Python expression strings.  Returns dict with
    n, failing [(idx, expr, impl_result)], kinds histogram, libm call count, errors."""
    import translate as T
    import corr as C
    from concurrent.futures import ThreadPoolExecutor
    cdir = os.path.join(bdir, "gen")
    res = {"n": len(cases), "failing": [], "kinds": {}, "libm_calls": 0, "errors": [], "samples": []}
    # interleaved shards: expensive cases (planetary series) come in runs, a contiguous block of them
    # made one shard run for tens of minutes
    nsh = max(1, -(-len(cases) // shard))
    shards = [list(range(k, len(cases), nsh)) for k in range(nsh)]
    jobs = []
    for k, idxs in enumerate(shards):
        name = "cases_%s_%d" % (tag, k)
        sub = [cases[i] for i in idxs]
        tr = T.Translator(REPO, modules)
        src = C.cases_module_source(tr, sub, modules)
        tr = T.Translator(REPO, modules, extra=[(name, src)])
        # mark everything in the real modules as already emitted (they are compiled in gen/)
        rep = json.load(open(os.path.join(cdir, "REPORT-" + "-".join(modules) + ".json")))
        # the same full, ordered translation that produced gen/M_*.v (so every function and
        # operator wrapper of the real modules is available, under the same names), with the
        # case module last
        sys.setrecursionlimit(50000)
        tr.run()
        bad = [(i, tr.report.get("case_%d" % j)) for j, i in enumerate(idxs) if tr.report.get("case_%d" % j) != "ok"]
        for i, why in bad:
            res["errors"].append("case %d (%s): %s" % (i, cases[i], why))
        tr.write(cdir, only=[name])
        results = C.run_impl(REPO, src, len(sub), modules, tr)
        for j, i in enumerate(idxs):
            e, tbl, kind, ncalls = results[j]
            res["kinds"][kind] = res["kinds"].get(kind, 0) + 1
            res["libm_calls"] += ncalls
            if len(res["samples"]) < 5 and j % 37 == 0:
                res["samples"].append({"expr": cases[i], "impl": e})
        okidx = [j for j in range(len(sub)) if tr.report.get("case_%d" % j) == "ok"]
        runv = os.path.join(cdir, "Run_%s.v" % name)
        C.write_shard(runv, "M_" + name, okidx, results)
        jobs.append((name, idxs, results, runv))

    def work(job):
        name, idxs, results, runv = job
        rc, out, dt = sh(["coqc"] + coq_flags(bdir) + [os.path.join(cdir, "M_%s.v" % name)], timeout=timeout)
        if rc != 0:
            return job, None, "M_%s.v: %s" % (name, out[-1500:])
        rc, out, dt2 = sh(["coqc"] + coq_flags(bdir) + [runv], timeout=timeout)
        if rc != 0:
            return job, None, "Run_%s.v: %s" % (name, out[-1500:])
        return job, C.parse_failing(out), None

    with ThreadPoolExecutor(max_workers=NPROC) as ex:
        for job, failing, err in ex.map(work, jobs):
            name, idxs, results, runv = job
            if err:
                res["errors"].append(err); continue
            if failing is None:
                res["errors"].append("could not parse output of Run_%s.v" % name); continue
            for j in failing:
                res["failing"].append((idxs[j], cases[idxs[j]], results[j][0]))
    # tidy: the case files are large
    for f in glob.glob(os.path.join(cdir, "*cases_%s_*" % tag)):
        try: os.remove(f)
        except OSError: pass
    return res
