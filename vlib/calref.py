"""Python transcription of Spec.CalSpec (independent civil-calendar day count), used by
the search oracles to state properties on the implementation."""
CUM = [0, 31, 59, 90, 120, 151, 181, 212, 243, 273, 304, 334]
ML = [31, 28, 31, 30, 31, 30, 31, 31, 30, 31, 30, 31]

def leap_j(y): return y % 4 == 0
def leap_g(y): return y % 4 == 0 and (y % 100 != 0 or y % 400 == 0)
def leap(y): return leap_j(y) if y < 1582 else leap_g(y)
def mlen(y, m): return 29 if (m == 2 and leap(y)) else ML[m - 1]
def before_reform(y, m, d): return y < 1582 or (y == 1582 and (m < 10 or (m == 10 and d < 15)))
def jdn_j(y, m, d):
    return 365 * (y + 4712) + (y + 4712 + 3) // 4 + CUM[m - 1] + (1 if m > 2 and leap_j(y) else 0) + d - 1
def jdn_g(y, m, d):
    y1 = y - 1
    return 365 * y1 + y1 // 4 - y1 // 100 + y1 // 400 + CUM[m - 1] + (1 if m > 2 and leap_g(y) else 0) + d + 1721425
def jdn(y, m, d): return jdn_j(y, m, d) if before_reform(y, m, d) else jdn_g(y, m, d)
def valid(y, m, d):
    return y >= -4712 and 1 <= m <= 12 and 1 <= d <= mlen(y, m) and not (y == 1582 and m == 10 and 5 <= d <= 14)
def next_date(y, m, d):
    if (y, m, d) == (1582, 10, 4): return (1582, 10, 15)
    if d < mlen(y, m): return (y, m, d + 1)
    if m < 12: return (y, m + 1, 1)
    return (y + 1, 1, 1)
def doy(y, m, d): return jdn(y, m, d) - jdn(y, 1, 1) + 1
def year_len(y): return jdn(y + 1, 1, 1) - jdn(y, 1, 1)
def civil_of_jdn(n):
    """inverse of jdn by search (year estimate + correction)"""
    y = int((n - 0.5) // 365.25) - 4712
    while jdn(y + 1, 1, 1) <= n: y += 1
    while jdn(y, 1, 1) > n: y -= 1
    for m in range(12, 0, -1):
        first = 15 if (y == 1582 and m == 10 and n >= 2299161) else 1
        if jdn(y, m, first) <= n:
            return (y, m, first + n - jdn(y, m, first))
    raise ValueError(n)
