"""Exact reference for C17 (curve fitting): normal equations solved in rational arithmetic
(fractions.Fraction on the exact binary values of the inputs), plus a first-order estimate of
the rounding error of the closed forms the implementation uses, which decides whether a data
set is well-conditioned enough for the property's relative 1e-6 to be demanded."""
from fractions import Fraction as Q
from itertools import permutations
import math

EPS = 2.0 ** -53


def gram(fvals, ys):
    """fvals: list (per basis function) of lists of floats/ints (basis values at the points).
    returns (M, rhs, Mabs, rhsabs): exact Gram matrix / right side and the same with absolute
    values of every summand (floats)"""
    k, n = len(fvals), len(ys)
    F = [[Q(v) for v in col] for col in fvals]
    Y = [Q(y) for y in ys]
    M = [[sum(F[i][p] * F[j][p] for p in range(n)) for j in range(k)] for i in range(k)]
    rhs = [sum(F[i][p] * Y[p] for p in range(n)) for i in range(k)]
    Mabs = [[float(sum(abs(F[i][p] * F[j][p]) for p in range(n))) for j in range(k)] for i in range(k)]
    rhsabs = [float(sum(abs(F[i][p] * Y[p]) for p in range(n))) for i in range(k)]
    return M, rhs, Mabs, rhsabs


def det(M):
    k = len(M)
    if k == 1: return M[0][0]
    if k == 2: return M[0][0] * M[1][1] - M[0][1] * M[1][0]
    return (M[0][0] * (M[1][1] * M[2][2] - M[1][2] * M[2][1])
            - M[0][1] * (M[1][0] * M[2][2] - M[1][2] * M[2][0])
            + M[0][2] * (M[1][0] * M[2][1] - M[1][1] * M[2][0]))


def perm_abs(M):
    """sum over all permutations of the products of |entries| (upper bound of the size of the
    terms of any expansion of the determinant)"""
    k = len(M)
    s = 0.0
    for p in permutations(range(k)):
        t = 1.0
        for i in range(k): t *= abs(M[i][p[i]])
        s += t
    return s


def replace_col(M, j, col):
    return [[col[i] if c == j else M[i][c] for c in range(len(M))] for i in range(len(M))]


def solve(fvals, ys):
    """exact least-squares coefficients for the basis values `fvals`.
    returns None if the normal equations are singular, else dict with
    coef (Fractions), err (estimated absolute rounding error of the closed-form evaluation
    in binary64, per coefficient), d (determinant), M, rhs"""
    M, rhs, Mabs, rhsabs = gram(fvals, ys)
    k, n = len(fvals), len(ys)
    d = det(M)
    if d == 0:
        return None
    coef = [det(replace_col(M, j, rhs)) / d for j in range(k)]
    K = 4.0 * (n + 16) * EPS
    pd = perm_abs(Mabs)
    fd = abs(float(d))
    err = []
    for j in range(k):
        pn = perm_abs(replace_col(Mabs, j, rhsabs))
        err.append(K * (pn / fd + abs(float(coef[j])) * pd / fd) if fd > 0 else math.inf)
    sol = {"coef": coef, "err": err, "d": d, "M": M, "rhs": rhs, "Mabs": Mabs, "rhsabs": rhsabs}
    sol["cond"] = conditioning(sol)
    return sol


# Conditioning, defined on the exact (Fraction) normal equations only - nothing of the
# implementation's closed form enters.  With s_j = sqrt(M_jj) the system is put in the scaled form
# Ms z = bs  (Ms_ij = M_ij/(s_i s_j), z_j = a_j s_j, bs_i = b_i/s_i: the Gram matrix of the
# normalised basis functions).  K = cond_inf(Ms) * max(1, max_i(sum|y f_i|/s_i) / max_i|bs_i|): the
# condition number of the scaled normal matrix times the cancellation of the right-hand side.  Any
# solver that forms these inner products in binary64 has relative error ~ c*n*eps*K of the scaled
# solution; for n <= 200, K <= KMAX = 1e6 gives n*eps*K <= 2.3e-8, so relative 1e-6 is achievable
# with a factor 45 to spare.  "relative 1e-6" is read normwise on the scaled solution:
# max_j |a_j - a^_j| s_j <= 1e-6 max_j |a_j| s_j.
KMAX = 1e6


def conditioning(sol):
    M, rhs, k = sol["M"], sol["rhs"], len(sol["coef"])
    d = sol["d"]
    s = [math.sqrt(float(M[j][j])) for j in range(k)]
    if min(s) == 0.0:
        return None
    def minor(i, j):
        return [[M[r][c] for c in range(k) if c != j] for r in range(k) if r != i]
    if k == 1:
        inv = [[1 / M[0][0]]]
    else:
        inv = [[((-1) ** (i + j)) * det(minor(j, i)) / d for j in range(k)] for i in range(k)]
    n_ms = max(sum(abs(float(M[i][j])) / (s[i] * s[j]) for j in range(k)) for i in range(k))
    n_inv = max(sum(abs(float(inv[i][j])) * (s[i] * s[j]) for j in range(k)) for i in range(k))
    z = [abs(float(sol["coef"][j])) * s[j] for j in range(k)]
    bs = max(abs(float(rhs[i])) / s[i] for i in range(k))
    ba = max(sol["rhsabs"][i] / s[i] for i in range(k))
    rho = ba / bs if bs > 0 else math.inf
    return {"K": n_ms * n_inv * max(1.0, rho), "s": s, "zmax": max(z)}


def well_conditioned(sol):
    """is relative 1e-6 (normwise, scaled) demanded of this data set?"""
    c = sol.get("cond")
    return c is not None and c["K"] <= KMAX and c["zmax"] > 0


def correlation(xs, ys):
    """exact r^2 ingredients; returns None when a variance vanishes, else
    (r as float, estimated absolute rounding error of the implementation's formula)"""
    n = len(xs)
    X = [Q(x) for x in xs]; Y = [Q(y) for y in ys]
    sx, sy = sum(X), sum(Y)
    sxx = sum(x * x for x in X); syy = sum(y * y for y in Y); sxy = sum(x * y for x, y in zip(X, Y))
    vx = n * sxx - sx * sx; vy = n * syy - sy * sy; cxy = n * sxy - sx * sy
    if vx == 0 or vy == 0:
        return None
    ax = float(sum(abs(x) for x in X)); ay = float(sum(abs(y) for y in Y))
    axy = float(sum(abs(x * y) for x, y in zip(X, Y)))
    fvx, fvy = float(vx), float(vy)
    r = float(cxy) / math.sqrt(fvx) / math.sqrt(fvy)
    K = 4.0 * (n + 16) * EPS
    kx = (n * float(sxx) + ax * ax) / fvx
    ky = (n * float(syy) + ay * ay) / fvy
    err = K * ((n * axy + ax * ay) / math.sqrt(fvx) / math.sqrt(fvy) + abs(r) * (kx + ky))
    return r, err


# ---------------------------------------------------------------------------------------------
# The documented algorithm in binary64 (Meeus ch. 4 closed forms with the absolute guard
# |d| < TOL), written out independently of pymeeus.  Used ONLY to delimit the known finding
# "degenerate-inexact-not-refused": on data whose exact determinant is 0, a result other than
# ZeroDivisionError is excused exactly when this float evaluation, through rounding of the sums,
# does not refuse either and gives the same result; anything else gets a different key.
TOL = 1e-10


def float_sums(xs, ys):
    n = len(xs)
    P = math.fsum(xs); T = math.fsum(ys)
    Qs = Rs = Ss = Us = Vs = Ws = 0.0
    for i in range(n):
        x2 = xs[i] * xs[i]; xy = xs[i] * ys[i]
        Qs += x2; Rs += x2 * xs[i]; Ss += x2 * x2; Us += xy; Vs += xy * xs[i]; Ws += ys[i] * ys[i]
    return n, P, Qs, Rs, Ss, T, Us, Vs, Ws


def float_linear(xs, ys):
    n, p, q, r, s, t, u, v, w = float_sums(xs, ys)
    d = n * q - p * p
    if abs(d) < TOL: return ("exc", "ZeroDivisionError")
    return ("ok", ((n * u - p * t) / d, (t * q - p * u) / d))


def float_quadratic(xs, ys):
    n, p, q, r, s, t, u, v, w = float_sums(xs, ys)
    q2 = q * q
    d = n * q * s + 2.0 * p * q * r - q2 * q - p * p * s - n * r * r
    if abs(d) < TOL: return ("exc", "ZeroDivisionError")
    a = (n * q * v + p * r * t + p * q * u - q2 * t - p * p * v - n * r * u) / d
    b = (n * s * u + p * q * v + q * r * t - q2 * u - p * s * t - n * r * v) / d
    c = (q * s * t + q * r * u + p * r * v - q2 * v - p * s * u - r * r * t) / d
    return ("ok", (a, b, c))


def float_correlation(xs, ys):
    n, p, q, r, s, t, u, v, w = float_sums(xs, ys)
    vx = n * q - p * p; vy = n * w - t * t
    if vx < 0 or vy < 0: return ("exc", "ValueError")
    den = math.sqrt(vx) * math.sqrt(vy)
    if den == 0: return ("exc", "ZeroDivisionError")
    return ("ok", max(-1.0, min(1.0, (n * u - p * t) / den)))


def exact_linear_det(xs):
    X = [Q(x) for x in xs]
    return len(xs) * sum(x * x for x in X) - sum(X) ** 2
