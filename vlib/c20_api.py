"""C20 support library: enumeration of the public API of pymeeus, source-level call records,
deep snapshots of argument objects and of module state, harvesting of documented in-domain
calls (docstring examples, the repository's own test functions) and ill-typed probes.

A *call record* is a piece of Python source: `setup` (list of (var, expression source)) that
builds fresh argument objects, and `call` (one statement assigning `r`).  Executing the same
record twice gives equal-valued fresh arguments; joining setup and call with ';' is the replay."""
import contextlib, copy, datetime, doctest, importlib, inspect, io, math, os, pickle, re, sys, types

from vlib import common as K
from vlib.impl import load

MODS = ["base", "Angle", "Epoch", "Interpolation", "CurveFitting", "Coordinates", "Earth", "Sun", "Moon",
        "Mercury", "Venus", "Mars", "Jupiter", "Saturn", "Uranus", "Neptune", "Pluto", "Minor", "JupiterMoons"]

# receiver-mutating methods allowed by the property text (+ the other documented setters)
# documented: "when the celestial body is exactly at the zenith ... this function will return 'None'"
DOCUMENTED_NONE = {"Coordinates.parallactic_angle"}

MUTATORS = {"Angle.to_positive", "Angle.set", "Angle.set_radians", "Angle.set_ra", "Angle.set_tolerance",
            "Epoch.set", "Interpolation.set", "CurveFitting.set",
            # further documented setters (named set*): they exist to mutate their receiver
            "Interpolation.set_tolerance", "Earth.set", "Minor.set"}

SKIP_NAMES = {"main", "__str__", "__repr__"}


class Fn:
    __slots__ = ("key", "mod", "cls", "name", "kind", "func", "params", "doc", "types", "rtype", "varargs", "varkw")

    def __repr__(self):
        return "<Fn %s %s>" % (self.key, self.kind)


def doc_types(doc):
    types_ = {}
    for name, t in re.findall(r":type (\w+):\s*(.+(?:\n\s+(?!:)\S.*)*)", doc or ""):
        types_[name] = " ".join(t.split())
    rt = re.findall(r":rtype:\s*(.+)", doc or "")
    return types_, (rt[0].strip() if rt else None)


def kinds_of_doc(t):
    """set of accepted kinds from a documented type string"""
    if t is None: return None
    t = t.lower()
    ks = set()
    for word, kind in (("int", "int"), ("float", "float"), ("bool", "bool"), ("str", "str"), ("list", "list"),
                       ("tuple", "tuple"), ("angle", "Angle"), ("epoch", "Epoch"), ("datetime", "date"),
                       ("date", "date"), ("ellipsoid", "Ellipsoid"), ("interpolation", "Interpolation"),
                       ("curvefitting", "CurveFitting")):
        if re.search(r"\b%s\b|`%s`" % (word, word), t) or (word in ("angle", "epoch", "ellipsoid") and word in t):
            ks.add(kind)
    return ks or None


def kind_of_value(v):
    if v is None: return "None"
    if isinstance(v, bool): return "bool"
    if isinstance(v, int): return "int"
    if isinstance(v, float): return "float"
    if isinstance(v, complex): return "complex"
    if isinstance(v, str): return "str"
    if isinstance(v, list): return "list"
    if isinstance(v, tuple): return "tuple"
    if isinstance(v, (datetime.date, datetime.datetime)): return "date"
    if callable(v) and not inspect.isclass(v) and type(v).__name__ in ("function", "builtin_function_or_method"):
        return "func"
    return type(v).__name__


class Api:
    def __init__(self, modnames=None):
        self.modnames = list(modnames or MODS)
        self.mods = load(self.modnames)
        self.fns = {}
        self.classes = {}
        for mn in self.modnames:
            M = self.mods[mn]
            for n, o in list(vars(M).items()):
                if getattr(o, "__module__", None) != M.__name__: continue
                if inspect.isfunction(o):
                    self._add(mn, None, n, "func", o)
                elif inspect.isclass(o):
                    self.classes[n] = o
                    for k, v in list(vars(o).items()):
                        if isinstance(v, staticmethod): self._add(mn, n, k, "static", v.__func__)
                        elif isinstance(v, classmethod): self._add(mn, n, k, "static", v.__func__)
                        elif inspect.isfunction(v): self._add(mn, n, k, "ctor" if k == "__init__" else "method", v)
        self.ns = self.namespace()

    def _add(self, mn, cls, name, kind, func):
        if name in SKIP_NAMES: return
        if name.startswith("_") and not (name.startswith("__") and name.endswith("__")): return
        if name == "__hash__": return
        f = Fn()
        f.key = "%s.%s" % (cls or mn, name)
        f.mod, f.cls, f.name, f.kind, f.func = mn, cls, name, kind, func
        f.doc = inspect.getdoc(func) or ""
        f.types, f.rtype = doc_types(f.doc)
        sig = inspect.signature(func)
        ps = list(sig.parameters.values())
        if kind in ("method", "ctor"): ps = ps[1:]
        f.params = [p for p in ps if p.kind in (p.POSITIONAL_OR_KEYWORD, p.POSITIONAL_ONLY)]
        f.varargs = next((p.name for p in ps if p.kind == p.VAR_POSITIONAL), None)
        f.varkw = next((p.name for p in ps if p.kind == p.VAR_KEYWORD), None)
        self.fns[f.key] = f

    def namespace(self):
        ns = {"datetime": datetime, "math": math, "pi": math.pi}
        for mn in self.modnames:
            M = self.mods[mn]
            for n, o in vars(M).items():
                if n.startswith("_") or n == "main" or inspect.ismodule(o): continue
                ns[n] = o
        for fnname in ("sqrt", "sin", "cos", "tan", "log", "exp"):
            ns[fnname] = getattr(math, fnname)
        return ns

    def prelude(self):
        return ("import datetime, math; from math import *; " +
                "; ".join("from pymeeus.%s import *" % m for m in self.modnames))

    # ------------------------------------------------------------------ module state
    def global_state(self):
        """structural snapshot of every module-level datum, class attribute, function default and
        function attribute of every pymeeus module (bytes per module; floats exact)"""
        out = {}
        for mn in self.modnames:
            M = self.mods[mn]
            data, misc = {}, {}
            for n, o in vars(M).items():
                if n.startswith("__"): continue
                if inspect.ismodule(o): continue
                if inspect.isfunction(o) or inspect.isbuiltin(o):
                    if getattr(o, "__module__", None) == M.__name__:
                        misc["fn:" + n] = fn_state(o)
                    else:
                        misc["imp:" + n] = id(o)
                    continue
                if inspect.isclass(o):
                    if getattr(o, "__module__", None) == M.__name__:
                        for k, v in vars(o).items():
                            if k in ("__dict__", "__weakref__", "__doc__", "__module__", "__qualname__", "__slotnames__"): continue
                            g = v.__func__ if isinstance(v, (staticmethod, classmethod)) else v
                            if inspect.isfunction(g):
                                misc["cls:%s.%s" % (n, k)] = fn_state(g)
                            else:
                                misc["clsattr:%s.%s" % (n, k)] = snap(v)
                    else:
                        misc["imp:" + n] = id(o)
                    continue
                data[n] = o
            try:
                blob = pickle.dumps(data, protocol=4)
            except Exception:
                blob = pickle.dumps(sorted(((k, snap_fast(v)) for k, v in data.items()), key=lambda kv: kv[0]), protocol=4)
            out[mn] = (blob, sorted(data), misc)
        return out

    def diff_state(self, s0, s1):
        """names of what changed between two global_state() snapshots"""
        ch = []
        for mn in self.modnames:
            b0, n0, m0 = s0[mn]; b1, n1, m1 = s1[mn]
            if n0 != n1:
                ch.append("%s: names %s" % (mn, sorted(set(n0) ^ set(n1))))
            if b0 != b1:
                try:
                    d0, d1 = dict(pickle.loads(b0)), dict(pickle.loads(b1))
                    n = len(ch)
                    for k in sorted(set(d0) | set(d1)):
                        if snap(d0.get(k)) != snap(d1.get(k)): ch.append("%s.%s" % (mn, k))
                    if len(ch) == n: ch.append(mn + ".<sharing structure>")
                except Exception:
                    ch.append(mn + ".<data>")
            if m0 != m1:
                for k in sorted(set(m0) | set(m1)):
                    if m0.get(k) != m1.get(k): ch.append("%s.%s" % (mn, k))
        return ch


PRIM = (int, float, str, bool, type(None))


def fn_state(g):
    """identity, default values and attributes of a function (cheap when defaults are primitives)"""
    d = g.__defaults__
    if d is not None and not all(isinstance(x, PRIM) for x in d):
        d = snap(d)
    elif d is not None:
        d = tuple((type(x).__name__, x.hex() if isinstance(x, float) else x) for x in d)
    kd = g.__kwdefaults__
    a = g.__dict__
    return (id(g), d, snap(kd) if kd else None, snap(dict(a)) if a else None)


def is_instance(v):
    """an ordinary object with fields (Angle, Epoch, Interpolation ... are callable: do not use callable())"""
    return hasattr(v, "__dict__") and not (inspect.isroutine(v) or inspect.isclass(v) or inspect.ismodule(v))


def snap_fast(v):
    """picklable deep structure (objects -> (class name, fields))"""
    if isinstance(v, (int, float, str, bool, type(None), complex, bytes)): return v
    if isinstance(v, list): return ["L"] + [snap_fast(x) for x in v]
    if isinstance(v, tuple): return ("T",) + tuple(snap_fast(x) for x in v)
    if isinstance(v, dict): return {"D": [(snap_fast(k), snap_fast(x)) for k, x in v.items()]}
    if isinstance(v, (datetime.date, datetime.datetime)): return ("date", v.isoformat())
    if is_instance(v):
        return ("O", type(v).__name__, [(k, snap_fast(x)) for k, x in sorted(vars(v).items())])
    return ("?", type(v).__name__, id(v))


def snap(v, depth=0):
    """deep, exact, hashable structural snapshot (floats by bits: nan == nan, -0.0 != 0.0)"""
    if depth > 12: return ("deep",)
    if v is None or isinstance(v, (bool, str, bytes)): return v
    if isinstance(v, int): return ("i", v)
    if isinstance(v, float): return ("f", v.hex())
    if isinstance(v, complex): return ("c", v.real.hex(), v.imag.hex())
    if isinstance(v, list): return ("L",) + tuple(snap(x, depth + 1) for x in v)
    if isinstance(v, tuple): return ("T",) + tuple(snap(x, depth + 1) for x in v)
    if isinstance(v, dict): return ("D",) + tuple((snap(k, depth + 1), snap(x, depth + 1)) for k, x in v.items())
    if isinstance(v, (datetime.date, datetime.datetime)): return ("date", v.isoformat())
    if inspect.isfunction(v) or inspect.isbuiltin(v) or inspect.isclass(v) or inspect.ismodule(v):
        return ("fn", getattr(v, "__qualname__", getattr(v, "__name__", "?")))
    if hasattr(v, "__dict__"):
        return ("O", type(v).__name__) + tuple((k, snap(x, depth + 1)) for k, x in sorted(vars(v).items()))
    return ("?", type(v).__name__)


def floats_in(v, depth=0):
    """every float reachable in a result value"""
    if depth > 12: return
    if isinstance(v, float): yield v
    elif isinstance(v, (list, tuple)):
        for x in v: yield from floats_in(x, depth + 1)
    elif isinstance(v, dict):
        for x in v.values(): yield from floats_in(x, depth + 1)
    elif is_instance(v):
        for x in vars(v).values(): yield from floats_in(x, depth + 1)


def shape(v, depth=0):
    """type/arity signature of a result"""
    if v is None: return "None"
    if isinstance(v, bool): return "bool"
    if isinstance(v, int): return "int"
    if isinstance(v, float): return "float"
    if isinstance(v, str): return "str"
    if isinstance(v, tuple): return "(" + ",".join(shape(x, depth + 1) for x in v) + ")"
    if isinstance(v, list): return "[" + ",".join(sorted({shape(x, depth + 1) for x in v})) + "*]"
    return type(v).__name__


def mutable_ids(v, out=None, depth=0):
    """ids of every mutable object (list, dict, instance) reachable from v"""
    if out is None: out = {}
    if depth > 12: return out
    if isinstance(v, (list, dict)) or is_instance(v):
        if id(v) in out: return out
        out[id(v)] = v
    if isinstance(v, (list, tuple)):
        for x in v: mutable_ids(x, out, depth + 1)
    elif isinstance(v, dict):
        for x in v.values(): mutable_ids(x, out, depth + 1)
    elif is_instance(v):
        for x in vars(v).values(): mutable_ids(x, out, depth + 1)
    return out


# ---------------------------------------------------------------------- source of a value
class NoSource(Exception):
    pass


def fsrc(x):
    if x != x: return "float('nan')"
    if x in (math.inf, -math.inf): return "float('%sinf')" % ("-" if x < 0 else "")
    return repr(x)


def src(v, depth=0):
    """Python source that rebuilds an equal-valued fresh object"""
    if depth > 8: raise NoSource("deep")
    if v is None or isinstance(v, (bool, int, str)): return repr(v)
    if isinstance(v, float): return fsrc(v)
    if isinstance(v, complex): return repr(v)
    if isinstance(v, list): return "[" + ", ".join(src(x, depth + 1) for x in v) + "]"
    if isinstance(v, tuple):
        return "(" + ", ".join(src(x, depth + 1) for x in v) + ("," if len(v) == 1 else "") + ")"
    if isinstance(v, (datetime.datetime, datetime.date)):
        if getattr(v, "tzinfo", None) is not None: raise NoSource("tz")
        return repr(v)
    cn = type(v).__name__
    d = getattr(v, "__dict__", None)
    try:
        if cn == "Angle": return "Angle(%s)" % fsrc(float(d["_deg"]))
        if cn == "Epoch": return "Epoch(%s)" % fsrc(float(d["_jde"]))
        if cn in ("Interpolation", "CurveFitting") and not d["_x"] and not d["_y"]: return cn + "()"
        if cn == "Interpolation": return "Interpolation(%s, %s)" % (src(d["_x"], depth + 1), src(d["_y"], depth + 1))
        if cn == "CurveFitting": return "CurveFitting(%s, %s)" % (src(d["_x"], depth + 1), src(d["_y"], depth + 1))
        if cn == "Ellipsoid": return "Ellipsoid(%s, %s, %s)" % (fsrc(d["_a"]), fsrc(d["_f"]), fsrc(d["_omega"]))
        if cn == "Earth": return "Earth(%s)" % src(d["_ellip"], depth + 1)
        if cn == "Minor":
            return "Minor(%s)" % ", ".join(src(d[k], depth + 1) for k in ("_q", "_e", "_i", "_omega", "_w", "_t"))
        if cn == "Sun": return "Sun()"
    except (KeyError, TypeError, ValueError):
        raise NoSource(cn)
    if inspect.isbuiltin(v) and getattr(math, v.__name__, None) is v: return "math." + v.__name__
    raise NoSource(cn)


class Call:
    __slots__ = ("key", "setup", "call", "argvars", "origin")

    def __init__(self, key, setup, call, argvars, origin=""):
        self.key, self.setup, self.call, self.argvars, self.origin = key, list(setup), call, list(argvars), origin

    def code(self):
        return "; ".join(["%s = %s" % (v, s) for v, s in self.setup] + [self.call])

    def ident(self):
        return self.code()

    def with_arg(self, var, newsrc):
        return Call(self.key, [(v, newsrc if v == var else s) for v, s in self.setup], self.call, self.argvars, self.origin)


def make_call(fn, recv, args, kwargs, origin=""):
    """fn: Fn; recv/args/kwargs: source strings"""
    setup, names = [], []
    if fn.kind == "method":
        setup.append(("s", recv))
    for i, a in enumerate(args):
        setup.append(("a%d" % i, a)); names.append("a%d" % i)
    kws = []
    for i, (k, a) in enumerate(sorted(kwargs.items())):
        setup.append(("k%d" % i, a)); kws.append("%s=k%d" % (k, i))
    arglist = ", ".join(names + kws)
    if fn.kind == "method": target = "s.%s" % fn.name
    elif fn.kind == "ctor": target = fn.cls
    elif fn.kind == "static": target = "%s.%s" % (fn.cls, fn.name)
    else: target = fn.name
    return Call(fn.key, setup, "r = %s(%s)" % (target, arglist), [v for v, _ in setup if v != "s"], origin)


# ---------------------------------------------------------------------- harvesting
class Spy:
    """wraps every public function/method of the loaded modules; at depth 0 records the call
    (as source) before executing it"""

    def __init__(self, api):
        self.api = api
        self.depth = 0
        self.records = []      # Call
        self.seen = set()
        self.patches = []
        self.origin = ""
        self.active = False

    def wrapper(self, fn):
        spy = self
        f = fn.func

        def w(*a, **kw):
            if not spy.active or spy.depth > 0:
                spy.depth += 1
                try:
                    return f(*a, **kw)
                finally:
                    spy.depth -= 1
            try:
                if fn.kind == "method":
                    rec = make_call(fn, src(a[0]), [src(x) for x in a[1:]], {k: src(v) for k, v in kw.items()}, spy.origin)
                elif fn.kind == "ctor":
                    rec = make_call(fn, None, [src(x) for x in a[1:]], {k: src(v) for k, v in kw.items()}, spy.origin)
                else:
                    rec = make_call(fn, None, [src(x) for x in a], {k: src(v) for k, v in kw.items()}, spy.origin)
                if rec.ident() not in spy.seen:
                    spy.seen.add(rec.ident()); spy.records.append(rec)
            except NoSource:
                pass
            except Exception:
                pass
            spy.depth += 1
            try:
                return f(*a, **kw)
            finally:
                spy.depth -= 1
        w.__name__ = f.__name__; w.__doc__ = f.__doc__; w.__wrapped__ = f
        return w

    def install(self):
        api = self.api
        for fn in api.fns.values():
            w = self.wrapper(fn)
            if fn.cls:
                cls = api.classes[fn.cls]
                old = vars(cls)[fn.name]
                setattr(cls, fn.name, staticmethod(w) if isinstance(old, staticmethod) else w)
                self.patches.append((cls, fn.name, old))
            else:
                for M in api.mods.values():
                    if vars(M).get(fn.name) is fn.func:
                        self.patches.append((M, fn.name, fn.func))
                        setattr(M, fn.name, w)

    def remove(self):
        for obj, name, old in reversed(self.patches):
            setattr(obj, name, old)
        self.patches = []


def harvest(api, log=None):
    """documented in-domain calls: every docstring example of every function/class, then every
    test function of /repo/tests, run under the spy.  Returns list of Call."""
    spy = Spy(api)
    spy.install()
    parser = doctest.DocTestParser()
    sink = io.StringIO()
    nex = nfail = 0
    try:
        base_ns = api.namespace()       # after install: module-level names are the recording wrappers
        objs = [(mn, api.mods[mn]) for mn in api.modnames] + list(api.classes.items())
        objs += [(f.key, f.func) for f in api.fns.values()]
        for name, o in objs:
            if name.endswith(".main"): continue
            g = getattr(o, "__wrapped__", o)
            doc = inspect.getdoc(g) or ""
            try:
                exs = parser.get_examples(doc)
            except ValueError:
                continue
            if not exs: continue
            env = dict(base_ns)
            spy.origin = "doc:" + name
            for ex in exs:
                nex += 1
                if ex.exc_msg is not None: continue      # an example that documents an exception
                spy.active = True
                try:
                    with contextlib.redirect_stdout(sink):
                        exec(compile(ex.source, "<doc %s>" % name, "single"), env)
                except Exception:
                    nfail += 1
                finally:
                    spy.active = False; spy.depth = 0
        # the repository's own tests
        tdir = os.path.join(K.REPO, "tests")
        if os.path.isdir(tdir):
            for fn in sorted(os.listdir(tdir)):
                if not (fn.startswith("test_") and fn.endswith(".py")): continue
                try:
                    srctext = open(os.path.join(tdir, fn)).read()
                    tm = types.ModuleType("c20_" + fn[:-3])
                    tm.__file__ = os.path.join(tdir, fn)
                    exec(compile(srctext, tm.__file__, "exec"), tm.__dict__)
                except Exception:
                    continue
                for n, o in list(vars(tm).items()):
                    if n.startswith("test_") and inspect.isfunction(o):
                        spy.origin = "test:%s.%s" % (fn[:-3], n)
                        spy.active = True
                        try:
                            with contextlib.redirect_stdout(sink):
                                o()
                        except BaseException:
                            nfail += 1
                        finally:
                            spy.active = False; spy.depth = 0
    finally:
        spy.active = False
        spy.remove()
    if log: log("harvest: %d doc examples, %d raised; %d distinct top-level calls" % (nex, nfail, len(spy.records)))
    return spy.records


# ---------------------------------------------------------------------- running a record
class Outcome:
    __slots__ = ("exc", "result", "env", "pre", "post", "state_changed", "setup_exc")


def run_call(api, call, check_state=True, state0=None):
    """executes a record on fresh arguments.  Returns Outcome."""
    o = Outcome()
    env = dict(api.ns)
    o.env, o.exc, o.result, o.setup_exc, o.state_changed = env, None, None, None, []
    try:
        for v, s in call.setup:
            env[v] = eval(s, env)
    except Exception as e:       # noqa
        o.setup_exc = e
        return o
    vars_ = [v for v, _ in call.setup]
    o.pre = {v: snap(env[v]) for v in vars_}
    s0 = None
    if check_state:
        s0 = state0 if state0 is not None else getattr(api, "_state", None)
        if s0 is None: s0 = api.global_state()
    try:
        exec(call.call, env)
        o.result = env.get("r")
    except Exception as e:       # noqa
        o.exc = e
    o.post = {v: snap(env[v]) for v in vars_}
    if check_state:
        s1 = api.global_state()
        o.state_changed = api.diff_state(s0, s1)
        api._state = s1
    return o


# ---------------------------------------------------------------------- ill-typed probes
PROBES = [("None", "None"), ("str", "'abc'"), ("complex", "(1+2j)"), ("list", "[1.0]"), ("tuple", "(1.0,)"),
          ("Angle", "Angle(1.0)"), ("Epoch", "Epoch(2451545.0)")]

NUMERIC = {"int", "float", "bool"}


def accepted_kinds(fn, pname, observed):
    """kinds a parameter accepts: documented (:type:) united with what the documented examples pass"""
    ks = set(kinds_of_doc(fn.types.get(pname)) or ())
    ks |= set(observed)
    if ks & {"int", "float"}: ks |= NUMERIC
    if "func" in ks: ks |= {"func"}
    return ks


# ====================================================================== checking engine
BUILD_FAILURES = []       # (function, origin) of every in-domain record whose arguments could not be built


def finding(key, what, call, extra_code=None):
    code = extra_code or call.code()
    return {"key": key, "what": what, "input": code,
            "replay": "PYTHONPATH=%s /venv/bin/python -c \"%s; %s; print(repr(r))\"" % (
                K.REPO, PRELUDE, code.replace('"', '\\"'))}


PRELUDE = "import datetime, math; from math import *; " + "; ".join("from pymeeus.%s import *" % m for m in MODS)

RTYPE_WORDS = {"tuple": tuple, "float": float, "int": int, "bool": bool, "str": str, "string": str, "list": list}


def rtype_ok(api, fn, r):
    """documented :rtype: against the value (None = undocumented / not decidable)"""
    t = fn.rtype
    if not t: return None
    t = t.lower()
    if fn.kind == "ctor": return None
    if t.startswith("("): return isinstance(r, tuple)
    alts = []
    for w, ty in RTYPE_WORDS.items():
        if re.search(r"\b%s\b" % w, t): alts.append(ty)
    for cn, c in api.classes.items():
        if cn.lower() in t: alts.append(c)
    if "none" in t: alts.append(type(None))
    if not alts: return None
    if float in alts: alts.append(int)     # an int where a float is documented is a number
    if isinstance(r, bool) and bool not in alts and int not in alts: return False
    return isinstance(r, tuple(alts))


def param_of_var(fn, call, var):
    """parameter name a setup variable feeds"""
    if var == "s": return "self"
    if var.startswith("a"):
        i = int(var[1:])
        if i < len(fn.params): return fn.params[i].name
        return fn.varargs or "?"
    m = re.search(r"(\w+)=%s\b" % var, call.call)
    return m.group(1) if m else "?"


def check_in_domain(api, fn, call, shapes, partner=None, learn=None):
    """clauses (1) purity, (2) determinism/history, (5) receiver, (6) totality on one in-domain call"""
    out = []
    o1 = run_call(api, call)
    if o1.setup_exc is not None:
        BUILD_FAILURES.append((fn.key, call.origin))
        if not any(t in call.origin for t in ("redrawn", "shifted")):
            out.append(finding("cannot-build-arguments:" + fn.key, "the arguments of a documented call of %s cannot be built: %s: %s (%s)" % (
                fn.key, type(o1.setup_exc).__name__, str(o1.setup_exc)[:80], call.origin), call))
        return out, None
    if o1.exc is not None:
        out.append(finding("raises-in-domain:" + fn.key, "%s raises %s: %s on documented in-domain arguments (%s)" % (
            fn.key, type(o1.exc).__name__, str(o1.exc)[:80], call.origin), call))
    for v in o1.pre:
        if o1.pre[v] != o1.post[v]:
            if v == "s" and fn.key in MUTATORS: continue
            who = "its receiver" if v == "s" else "argument '%s'" % param_of_var(fn, call, v)
            out.append(finding("mutates-argument:" + fn.key, "%s changes %s: %s -> %s" % (
                fn.key, who, short(o1.pre[v]), short(o1.post[v])), call,
                call.code() + "; r = %s" % v))
    if o1.state_changed:
        out.append(finding("mutates-global:" + fn.key, "%s changes module state: %s" % (fn.key, ", ".join(o1.state_changed[:5])), call))
    if o1.exc is None:
        r = o1.result
        if fn.kind == "ctor": r = None
        bad = [x for x in floats_in(o1.result) if not math.isfinite(x)]
        if bad:
            out.append(finding("non-finite:" + fn.key, "%s returns a non-finite value %r" % (fn.key, bad[0]), call))
        if fn.kind != "ctor" and not (o1.result is None and fn.key in DOCUMENTED_NONE):
            ok = rtype_ok(api, fn, o1.result)
            if ok is False:
                out.append(finding("wrong-result-type:" + fn.key, "%s returns %s, documented :rtype: %s" % (
                    fn.key, shape(o1.result), fn.rtype), call))
            sh = shape(o1.result)
            if learn is not None:
                learn.setdefault(fn.key, set()).add(sh)
            elif shapes is not None and fn.key in shapes and sh not in shapes[fn.key]:
                out.append(finding("wrong-result-shape:" + fn.key, "%s returns %s; recorded shapes of this function: %s" % (
                    fn.key, sh, sorted(shapes[fn.key])), call))
    # determinism on equal fresh arguments
    o2 = run_call(api, call, check_state=True)
    if o2.state_changed:
        out.append(finding("mutates-global:" + fn.key, "%s changes module state when called a second time: %s" % (
            fn.key, ", ".join(o2.state_changed[:5])), call, call.code() + "; " + call.code()))
    if not same_outcome(o1, o2):
        out.append(finding("nondeterministic:" + fn.key, "%s gives %s, then %s on equal fresh arguments" % (
            fn.key, describe(o1), describe(o2)), call, call.code() + "; r1 = r; " + call.code() + "; r = (r1, r)"))
    # history: another API call in between
    if partner is not None:
        op = run_call(api, partner, check_state=False)
        o3 = run_call(api, call, check_state=False)
        if not same_outcome(o1, o3):
            out.append(finding("nondeterministic:" + fn.key, "%s gives %s, but %s after a call of %s" % (
                fn.key, describe(o1), describe(o3), partner.key), call,
                call.code() + "; r1 = r; " + rename(partner).code() + "; " + call.code() + "; r = (r1, r)"))
        s1 = api.global_state()
        ch = api.diff_state(api._state, s1)
        api._state = s1
        if ch:
            out.append(finding("mutates-global:" + partner.key, "module state changes (%s) when %s is called between two calls of %s" % (
                ", ".join(ch[:5]), partner.key, fn.key), partner, call.code() + "; " + rename(partner).code() + "; " + call.code()))
    return out, o1


def rename(call, suffix="_p"):
    """partner record with its variables renamed so that it can be chained in one replay"""
    m = {v: v + suffix for v, _ in call.setup}
    c = call.call
    for v, w in m.items():
        c = re.sub(r"\b%s\b" % v, w, c)
    c = re.sub(r"^r = ", "rp = ", c)
    return Call(call.key, [(m[v], s) for v, s in call.setup], c, [], call.origin)


def short(s, n=70):
    t = repr(s)
    return t if len(t) <= n else t[:n] + "..."


def describe(o):
    if o.setup_exc is not None: return "setup:%s" % type(o.setup_exc).__name__
    if o.exc is not None: return "raises %s" % type(o.exc).__name__
    return short(snap(o.result), 60)


def same_outcome(a, b):
    if (a.exc is None) != (b.exc is None): return False
    if a.exc is not None: return type(a.exc) is type(b.exc)
    return snap(a.result) == snap(b.result) and a.post == b.post


def observed_kinds(api, calls):
    """function key -> parameter name -> set of kinds the documented calls pass"""
    obs = {}
    for c in calls:
        fn = api.fns.get(c.key)
        if fn is None: continue
        env = dict(api.ns)
        for v, s in c.setup:
            if v == "s": continue
            try:
                val = eval(s, env)
            except Exception:
                continue
            obs.setdefault(c.key, {}).setdefault(param_of_var(fn, c, v), set()).add(kind_of_value(val))
    return obs


def check_state_after(api, fn, what):
    """module state against the last snapshot (used once per group of ill-typed calls)"""
    s1 = api.global_state()
    s0 = getattr(api, "_state", None)
    api._state = s1
    if s0 is None: return []
    ch = api.diff_state(s0, s1)
    if not ch: return []
    return [{"key": "mutates-global:" + fn.key, "what": "%s (%s) changes module state: %s" % (fn.key, what, ", ".join(ch[:5])),
             "input": fn.key, "replay": ""}]


def classify_exc(e):
    return "ok" if isinstance(e, (TypeError, ValueError)) else type(e).__name__


def probe_calls(api, fn, base, obs):
    """ill-typed variants of one in-domain record: (label, Call)"""
    out = []
    for v, s in base.setup:
        if v == "s": continue
        pname = param_of_var(fn, base, v)
        acc = accepted_kinds(fn, pname, obs.get(fn.key, {}).get(pname, ()))
        if not acc: continue
        for kind, psrc in PROBES:
            if kind in acc: continue
            if kind in ("list", "tuple") and acc & {"list", "tuple"}: continue
            out.append(("%s=%s" % (pname, kind), base.with_arg(v, psrc)))
    # wrong arity
    pos = [v for v, _ in base.setup if v.startswith("a")]
    if fn.varargs is None:
        m = re.match(r"^(r = [\w.]+\()(.*)\)$", base.call)
        if m:
            inner = [x for x in m.group(2).split(", ") if x]
            if len(pos) == len(fn.params) and not any("=" in x for x in inner):
                out.append(("arity+1", Call(base.key, base.setup + [("x9", "1.0")],
                                            m.group(1) + ", ".join(inner + ["x9"]) + ")", base.argvars, base.origin)))
            nreq = sum(1 for p in fn.params if p.default is p.empty)
            if pos and len(pos) <= nreq and not any("=" in x for x in inner):
                out.append(("arity-1", Call(base.key, base.setup, m.group(1) + ", ".join(inner[:-1]) + ")", base.argvars, base.origin)))
    return out


NUMFIELDS = {"Angle": ("_deg", "_tol"), "Epoch": ("_jde",), "Ellipsoid": ("_a", "_f", "_omega"),
             "Interpolation": ("_tol",), "Minor": ("_q", "_e", "_a", "_n")}


def non_value(v, depth=0):
    """why a value is not a proper value: a complex number, a non-finite float, or an object whose
    numeric state is not a finite real number (None = it is a proper value)"""
    if depth > 10: return None
    if isinstance(v, complex): return "a complex number %r" % (v,)
    if isinstance(v, float) and not math.isfinite(v): return "a non-finite float %r" % v
    if isinstance(v, (list, tuple)):
        for x in v:
            w = non_value(x, depth + 1)
            if w: return w
        return None
    if isinstance(v, dict):
        for x in v.values():
            w = non_value(x, depth + 1)
            if w: return w
        return None
    if is_instance(v):
        cn = type(v).__name__
        for k, x in vars(v).items():
            if k in NUMFIELDS.get(cn, ()):
                if isinstance(x, bool) or not isinstance(x, (int, float)):
                    return "a %s whose %s is %s" % (cn, k, short(snap(x), 40))
            w = non_value(x, depth + 1)
            if w: return "a %s holding %s" % (cn, w) if not w.startswith("a " + cn) else w
    return None


def non_value_kind(why):
    if why.startswith("a complex"): return "complex"
    if why.startswith("a non-finite"): return "non-finite"
    if why.startswith("None"): return "None"
    return "object-state"


def check_probe(api, fn, label, call, check_state=True, shapes=None):
    """an ill-typed call must raise TypeError or ValueError"""
    o = run_call(api, call, check_state=check_state)
    out = []
    if o.setup_exc is not None: return out, "setup"
    if o.exc is None:
        # duck-typed input that yields a proper value is not a violation; a silent NON-value is
        res = "accepted"
        why = non_value(o.result)
        if why is None and "s" in o.env and fn.kind == "method":
            why = non_value(o.env["s"])
            if why: why = "its receiver left as " + why
        if why is None and o.result is None and fn.kind != "ctor":
            rec = (shapes or {}).get(fn.key)
            if rec is not None and "None" not in rec and fn.key not in DOCUMENTED_NONE:
                why = "None (no documented call of this function returns None)"
        if why:
            res = "non-value"
            out.append(finding("returns-non-value:%s:%s:%s" % (fn.key, label.split("=")[0], non_value_kind(why)),
                               "%s with %s silently returns %s instead of raising TypeError/ValueError" % (fn.key, label, why), call))
    else:
        res = classify_exc(o.exc)
        if res != "ok":
            out.append(finding("wrong-exception:%s:%s:%s:%s" % (fn.key, label.split("=")[0], label.split("=")[-1], res),
                               "%s with %s raises %s (%s), not TypeError/ValueError" % (
                fn.key, label, res, str(o.exc)[:60]), call))
    for v in o.pre:
        if o.pre[v] != o.post[v] and not (v == "s" and fn.key in MUTATORS):
            out.append(finding("mutates-argument:" + fn.key, "%s (ill-typed call, %s) changes %s" % (fn.key, label, v), call))
    if o.state_changed:
        out.append(finding("mutates-global:" + fn.key, "%s (ill-typed call, %s) changes module state: %s" % (
            fn.key, label, ", ".join(o.state_changed[:5])), call))
    return out, res


# ====================================================================== further in-domain calls
E0 = "Epoch(2448976.5)"          # 1992-12-20
A_RA, A_DEC = "Angle(41.73129)", "Angle(49.22775)"

# (key, receiver source or None, [argument sources], {keyword: source}) for functions without a
# documented example, and boundary forms of the constructors
EXPLICIT = [
    ("Angle.__div__", "Angle(45.0)", ["2.0"], {}), ("Angle.__div__", "Angle(45.0)", ["Angle(7.5)"], {}),
    ("Angle.__idiv__", "Angle(45.0)", ["2.0"], {}), ("Angle.__idiv__", "Angle(-45.0)", ["Angle(7.5)"], {}),
    ("Angle.get_tolerance", "Angle(12.5)", [], {}), ("Angle.ra_tuple", "Angle(-12.5)", [], {}),
    ("Angle.ra_tuple", "Angle(345.25)", [], {}), ("Angle.set_tolerance", "Angle(12.5)", ["1e-08"], {}),
    ("Angle.__init__", None, ["[1.0]"], {"radians": "True"}), ("Angle.__init__", None, ["(1.0,)"], {}),
    ("Angle.__init__", None, ["[10, 30]"], {}), ("Angle.__init__", None, ["[10, 30, 15.5]"], {}),
    ("Angle.__init__", None, ["[10, 30, 15.5, -1]"], {}), ("Angle.__init__", None, ["[10, 30, 15.5]"], {"ra": "True"}),
    ("Angle.__init__", None, ["1.5"], {"radians": "True"}), ("Angle.__init__", None, ["10", "30", "15.5"], {"ra": "True"}),
    ("Angle.__init__", None, ["359.99999999999994"], {}), ("Angle.__init__", None, ["-720.0"], {}),
    ("Angle.set", "Angle(5.0)", ["[1.0]"], {"radians": "True"}), ("Angle.set", "Angle(5.0)", ["Angle(77.0)"], {}),
    ("Angle.set", "Angle(5.0)", ["[10, 30, 15.5]"], {}), ("Angle.set", "Angle(5.0)", ["10", "30", "15.5"], {}),
    ("Angle.set_ra", "Angle(5.0)", ["[10, 30, 15.5]"], {}), ("Angle.set_ra", "Angle(5.0)", ["10", "30", "15.5"], {}),
    ("Angle.set_ra", "Angle(5.0)", ["10.5"], {}),
    ("Angle.to_positive", "Angle(-87.5)", [], {}), ("Angle.to_positive", "Angle(87.5)", [], {}),
    ("Epoch.__init__", None, ["[2000, 1, 1.5]"], {}), ("Epoch.__init__", None, ["(2000, 1, 1.5)"], {}),
    ("Epoch.__init__", None, ["[1987, 6, 19, 12, 0, 0.0]"], {}), ("Epoch.__init__", None, ["1987", "6", "19.5"], {"utc": "True"}),
    ("Epoch.__init__", None, ["1987", "6", "19.5"], {"leap_seconds": "35.0"}),
    ("Epoch.__init__", None, ["datetime.date(2000, 1, 1)"], {}), ("Epoch.__init__", None, ["datetime.datetime(1837, 4, 10, 7, 12, 0, 0)"], {}),
    ("Epoch.__init__", None, ["1582", "10", "15.0"], {}), ("Epoch.__init__", None, ["1582", "10", "4.0"], {}),
    ("Epoch.__init__", None, ["-4712", "1", "1.5"], {}), ("Epoch.__init__", None, ["Epoch(2451545.0)"], {}),
    ("Epoch.set", "Epoch(2451545.0)", ["[2000, 1, 1.5]"], {}), ("Epoch.set", "Epoch(2451545.0)", ["Epoch(2448976.5)"], {}),
    ("Epoch.set", "Epoch(2451545.0)", ["1987", "6", "19.5"], {}),
    ("Epoch.check_input_date", None, ["2000", "1", "1.5"], {}), ("Epoch.check_input_date", None, [E0], {}),
    ("Epoch.check_input_date", None, ["datetime.date(2000, 1, 1)"], {}),
    ("Epoch.check_input_date", None, ["1987", "6", "19.5"], {"leap_seconds": "35.0"}),
    ("Epoch.check_input_date", None, ["(1987, 6, 19.5)"], {}),
    ("Epoch.get_last_leap_second", None, [], {}),
    ("Interpolation.get_tolerance", "Interpolation([1, 2, 3], [12, 5, -8])", [], {}),
    ("Interpolation.set_tolerance", "Interpolation([1, 2, 3], [12, 5, -8])", ["1e-08"], {}),
    ("Interpolation.__init__", None, ["Interpolation([1, 2, 3], [12, 5, -8])"], {}),
    ("Interpolation.__init__", None, ["[Angle(1.0), Angle(2.0), Angle(3.0)]", "[Angle(12.0), Angle(5.0), Angle(-8.0)]"], {}),
    ("Interpolation.__init__", None, ["(1, 2, 3)", "(12, 5, -8)"], {}),
    ("Interpolation.set", "Interpolation([1, 2, 3], [12, 5, -8])", ["Interpolation([0.0, 1.0], [3.0, 4.0])"], {}),
    ("CurveFitting.__init__", None, ["CurveFitting([1, 2, 3], [12, 5, -8])"], {}),
    ("CurveFitting.__init__", None, ["(1, 2, 3, 4)", "(12, 5, -8, 1)"], {}),
    ("CurveFitting.set", "CurveFitting([1, 2, 3], [12, 5, -8])", ["CurveFitting([0.0, 1.0, 2.5], [3.0, 4.0, 4.5])"], {}),
    ("CurveFitting.general_fitting", "CurveFitting([0.0, 1.0, 2.0, 3.0, 4.0], [1.0, 2.5, 6.0, 12.5, 20.0])", ["math.sin", "math.cos"], {}),
    ("CurveFitting.general_fitting", "CurveFitting([0.5, 1.0, 2.0, 3.0, 4.0], [1.0, 2.5, 6.0, 12.5, 20.0])", ["math.sqrt"], {}),
    ("Coordinates.vsop_pos", None, [E0, "VSOP87_L", "VSOP87_B", "VSOP87_R"], {}),
    ("Coordinates.geometric_vsop_pos", None, [E0, "VSOP87_L", "VSOP87_B", "VSOP87_R"], {}),
    ("Coordinates.geometric_vsop_pos", None, [E0, "VSOP87_L", "VSOP87_B", "VSOP87_R"], {"tofk5": "False"}),
    ("Coordinates.apparent_vsop_pos", None, [E0, "VSOP87_L", "VSOP87_B", "VSOP87_R"], {}),
    ("Coordinates.apparent_vsop_pos", None, [E0, "VSOP87_L", "VSOP87_B", "VSOP87_R"], {"nutation": "False"}),
    ("Coordinates.orbital_elements", None, [E0, "ORBITAL_ELEM", "ORBITAL_ELEM"], {}),
    ("Coordinates.p_motion_equa2eclip", None, ["Angle(0.0001)", "Angle(-0.0002)", A_RA, A_DEC, "Angle(31.0)", "Angle(23.44)"], {}),
    ("Coordinates.precession_newcomb", None, ["Epoch(2451545.0)", "Epoch(2462088.69)", A_RA, A_DEC, "Angle(0.0001)", "Angle(-0.00002)"], {}),
    ("Coordinates.precession_newcomb", None, ["Epoch(2451545.0)", "Epoch(2462088.69)", A_RA, A_DEC], {}),
    ("Coordinates.precession_equatorial", None, ["Epoch(2451545.0)", "Epoch(2462088.69)", A_RA, A_DEC], {}),
    ("Coordinates.precession_ecliptical", None, ["Epoch(2451545.0)", "Epoch(2462088.69)", "Angle(149.48194)", "Angle(1.76549)"], {}),
    ("Earth.geometric_heliocentric_position_j2000", None, [E0], {}),
    ("Earth.geometric_heliocentric_position_j2000", None, [E0], {"tofk5": "False"}),
    ("Earth.set", "Earth()", ["Ellipsoid(6378140.0, 0.0033528131778969143, 7.292114992e-05)"], {}),
    ("Earth.__init__", None, [], {}), ("Earth.__init__", None, ["Ellipsoid(6378140.0, 0.0033528131778969143, 7.292114992e-05)"], {}),
    ("Earth.distance", "Earth()", ["Angle(2.33)", "Angle(48.83)", "Angle(2.33)", "Angle(48.83)"], {}),
    ("Minor.set", "Minor(2.2091404, 0.8502196, Angle(11.94524), Angle(334.75006), Angle(186.23352), Epoch(2448192.5))",
     ["1.4", "0.5", "Angle(10.0)", "Angle(20.0)", "Angle(30.0)", "Epoch(2448192.5)"], {}),
    ("Sun.__init__", None, [], {}),
    ("base.machine_accuracy", None, [], {}),
    # JupiterMoons: coordinate forms of correct_rectangular_positions, keywords, the check_* signatures
    ("JupiterMoons.correct_rectangular_positions", None, ["5.929892730360271", "1", "5.6611211815432645", "(-3.4489935969836503, 0.21361563816963675, -4.818966623735296)"], {}),
    ("JupiterMoons.correct_rectangular_positions", None, ["5.929892730360271", "1", "5.6611211815432645", "[-3.4489935969836503, 0.21361563816963675, -4.818966623735296]"], {}),
    ("JupiterMoons.correct_rectangular_positions", None, ["5.929892730360271", "3", "5.6611211815432645", "3.0720", "1.0289", "-5.2"], {}),
    ("JupiterMoons.correct_rectangular_positions", None, ["5.929892730360271", "4", "5.6611211815432645", "-4.2", "-0.5"], {}),
    ("JupiterMoons.rectangular_positions_jovian_equatorial", None, ["Epoch(2448972.500685)"], {"solar": "True"}),
    ("JupiterMoons.rectangular_positions_jovian_equatorial", None, ["Epoch(2448972.500685)"], {"tofk5": "False"}),
    ("JupiterMoons.rectangular_positions_jovian_equatorial", None, ["Epoch(2448972.500685)"], {"do_correction": "False"}),
    ("JupiterMoons.check_coordinates", None, ["0.3", "-0.2"], {}), ("JupiterMoons.check_coordinates", None, ["1.5", "0.0"], {}),
    ("JupiterMoons.check_occultation", None, ["-3.450168811390241", "0.21370246960509387", "-4.818966623735296"], {}),
    ("JupiterMoons.check_occultation", None, ["0.3", "-0.2", "-5.0"], {}),
    ("JupiterMoons.check_occultation", None, ["0.3", "-0.2", "5.0"], {}),
    ("JupiterMoons.check_occultation", None, ["-3.45", "0.21", "-4.8", "Epoch(2448972.500685)", "1"], {}),
    ("JupiterMoons.check_eclipse", None, ["-2.543358080396381", "0.21011856852373847", "-4.8"], {}),
    ("JupiterMoons.check_eclipse", None, ["0.3", "-0.2", "-5.0"], {}),
    ("JupiterMoons.check_eclipse", None, ["-2.54", "0.21", "-4.8", "Epoch(2448972.500685)", "1"], {}),
    ("JupiterMoons.check_phenomena", None, ["Epoch(2448972.500685)"], {"check_all": "False", "i_sat": "2"}),
    ("JupiterMoons.check_phenomena", None, ["Epoch(2448972.500685)", "True"], {}),
    ("JupiterMoons.is_phenomena", None, ["Epoch(2451545.0)"], {}),
    ("JupiterMoons.jupiter_system_angles", None, ["Epoch(2451545.0)"], {}),
    ("JupiterMoons.calculate_delta", None, ["Epoch(2451545.0)"], {}),
] + [("%s.apparent_heliocentric_position" % p, None, [E0], {}) for p in
     ("Mercury", "Venus", "Mars", "Jupiter", "Saturn", "Uranus", "Neptune")] + [
    ("Mercury.magnitude", None, ["0.4", "1.1", "Angle(65.0)"], {}), ("Mercury.magnitude", None, ["0.4", "1.1", "65.0"], {}),
    ("Mars.magnitude", None, ["1.5", "2.1", "Angle(25.0)"], {}), ("Mars.magnitude", None, ["1.5", "2.1", "25.0"], {}),
    ("Jupiter.magnitude", None, ["5.2", "4.5"], {}), ("Uranus.magnitude", None, ["19.2", "18.5"], {}),
    ("Neptune.magnitude", None, ["30.1", "29.5"], {}),
]


def explicit_calls(api):
    out = []
    for key, recv, args, kw in EXPLICIT:
        fn = api.fns.get(key)
        if fn is None: continue
        out.append(make_call(fn, recv, args, kw, "explicit"))
    return out


# functions whose documented domain is the whole type of each parameter (angles anywhere on the
# circle, epochs anywhere in 1900-2090): their documented calls may be re-drawn at random
FREE_COORD = {"equatorial2ecliptical", "ecliptical2equatorial", "equatorial2horizontal", "horizontal2equatorial",
              "equatorial2galactic", "galactic2equatorial", "parallactic_angle", "ecliptic_equator",
              "angular_separation", "relative_position_angle", "mean_obliquity", "true_obliquity",
              "nutation_longitude", "nutation_obliquity", "precession_equatorial", "precession_ecliptical",
              "precession_newcomb", "refraction_apparent2true", "refraction_true2apparent", "apparent_position",
              "vsop_pos", "geometric_vsop_pos", "apparent_vsop_pos", "orbital_elements", "p_motion_equa2eclip"}
NOT_FREE = {"Epoch.rise_set", "Sun.beginning_synodic_rotation", "Sun.get_equinox_solstice", "Epoch.apparent_sidereal_time"}
PLUTO_JDE = (2409543.0, 2488069.0)        # 1885 .. 2099


def is_free(fn):
    if fn.key in NOT_FREE: return False
    if fn.mod == "Coordinates": return fn.name in FREE_COORD
    if fn.cls in ("Angle",): return True
    if fn.cls == "Epoch":
        return fn.kind == "method" and fn.name not in ("set", "__init__")
    if fn.cls in ("Interpolation", "CurveFitting", "Minor", "Ellipsoid"): return False
    if fn.cls == "Earth": return fn.kind == "method" and fn.name not in ("set", "__init__", "distance")
    # Sun / Moon / planets / Pluto / JupiterMoons: the functions of the epoch alone
    names = [p.name for p in fn.params]
    return bool(names) and names[0] == "epoch" and all(
        p.default is not p.empty for p in fn.params[1:])


ANG = re.compile(r"^Angle\((-?[\d.e+-]+)\)$")
EPO = re.compile(r"^Epoch\((-?[\d.e+-]+)\)$")
NUM = re.compile(r"^-?\d+\.\d*(e[+-]?\d+)?$")


def redraw(fn, call, rng):
    """the same documented call with angles / epochs / float operands re-drawn (random + boundary)"""
    setup = []
    for v, s in call.setup:
        m = ANG.match(s)
        if m:
            x = float(m.group(1))
            if abs(x) <= 90.0 and not (fn.cls == "Angle"):
                y = rng.choice([rng.uniform(-89.9, 89.9), rng.uniform(-89.9, 89.9), 0.0, 89.0, -89.0, x])
            else:
                y = rng.choice([rng.uniform(0, 360), rng.uniform(-360, 360), 0.0, 180.0, 359.99999999999994,
                                -359.99999999999994, 90.0, 270.0, x])
            if fn.cls == "Angle" and fn.name in ("__div__", "__truediv__", "__idiv__", "__itruediv__", "__mod__",
                                                 "__imod__", "__rdiv__", "__rtruediv__", "__rmod__") and y == 0.0:
                y = 1.5
            if fn.cls == "Angle" and "pow" in fn.name: y = x
            setup.append((v, "Angle(%s)" % fsrc(y))); continue
        m = EPO.match(s)
        if m:
            lo, hi = (PLUTO_JDE if fn.cls == "Pluto" else (2415020.5, 2484500.5))
            y = rng.choice([rng.uniform(lo, hi), float(int(rng.uniform(lo, hi))) + 0.5, 2451545.0, float(m.group(1))])
            setup.append((v, "Epoch(%s)" % fsrc(y))); continue
        setup.append((v, s))
    return Call(call.key, setup, call.call, call.argvars, call.origin + "+redrawn")


def shift_negative(call):
    """the same directions on the circle written as negative angles (x > 0 -> x - 360): in-domain for
    every function of directions, and the form in which a stray to_positive() on an argument shows"""
    setup, changed = [], False
    for v, s in call.setup:
        m = ANG.match(s)
        if m and float(m.group(1)) > 0.0:
            setup.append((v, "Angle(%s)" % fsrc(float(m.group(1)) - 360.0))); changed = True
        else:
            setup.append((v, s))
    if not changed: return None
    return Call(call.key, setup, call.call, call.argvars, call.origin + "+shifted")


# ---------------------------------------------------------------------- (3) copies, (4) in-place operators
IDENTITY_ONLY = []


def copy_path_checks(api, recs):
    """(3) observable independence through EVERY public path: for a copy b = Cls(a), every documented
    method call is made on a (then on b) and the other object must keep its exact state"""
    out, n = [], 0
    bases = {"Angle": "Angle(-33.25)", "Epoch": "Epoch(2448976.5)",
             "Interpolation": "Interpolation([1, 2, 3, 4], [12, 5, -8, 3])",
             "CurveFitting": "CurveFitting([1, 2, 3, 4], [2, 4, 7, 8])"}
    for c in recs:
        fn = api.fns.get(c.key)
        if fn is None or fn.kind != "method" or fn.cls not in bases: continue
        for side in ("a", "b"):
            code = "a = %s; b = %s(a); " % (bases[fn.cls], fn.cls) + "; ".join(
                "%s = %s" % (v, x) for v, x in c.setup if v != "s") + ("; " if len(c.setup) > 1 else "") + \
                re.sub(r"\bs\.", side + ".", c.call)
            env = dict(api.ns)
            other = "b" if side == "a" else "a"
            try:
                exec("a = %s; b = %s(a)" % (bases[fn.cls], fn.cls), env)
                pre = snap(env[other])
                for v, x in c.setup:
                    if v != "s": env[v] = eval(x, env)
                try:
                    exec(re.sub(r"\bs\.", side + ".", c.call), env)
                except Exception:
                    pass
                n += 1
                if snap(env[other]) != pre:
                    out.append(finding("shared-state:%s.copy" % fn.cls, "after b = %s(a), %s.%s(...) changes %s: %s -> %s" % (
                        fn.cls, side, fn.name, other, short(pre), short(snap(env[other]))), Call("", [], code + "; r = " + other, [])))
            except Exception:
                continue
    return out, n


def sharing_checks(api, rng):
    """copy constructors and list inputs: observable independence, then structural sharing.
    returns (findings, number of checks)"""
    out, n = [], 0
    ns = api.ns

    def run(code):
        env = dict(ns)
        exec(code, env)
        return env

    def fnd(key, what, code):
        c = Call(key, [], code, [])
        return finding(key, what, c)

    x = round(rng.uniform(1, 80), 3)
    # --- observable: mutate the source, the copy keeps its value, and vice versa
    I0, I1 = "Interpolation([1, 2, 3], [12, 5, -8])", "Interpolation([1, 2, 3], [0, 1, 4])"
    C0, C1 = "CurveFitting([1, 2, 3, 4], [2, 4, 7, 8])", "CurveFitting([1, 2, 3, 4], [0, 1, 2, 3])"
    # (class, code giving r, independent code giving the value r must have)
    OBS = [
        ("Angle.copy", "a = Angle(%r); b = Angle(a); a.set(200.5); r = (b(), a())" % x, "r = (%r, 200.5)" % x),
        ("Angle.copy", "a = Angle(%r); b = Angle(a); b.set(200.5); r = (a(), b())" % x, "r = (%r, 200.5)" % x),
        ("Angle.copy", "a = Angle(%r); b = Angle(a); a.set_tolerance(1e-3); r = (b.get_tolerance(), a.get_tolerance())" % x,
         "r = (Angle(%r).get_tolerance(), 1e-3)" % x),
        ("Angle.copy", "a = Angle(-%r); b = Angle(a); a.to_positive(); r = b()" % x, "r = Angle(-%r)()" % x),
        ("Angle.list-input", "l = [10, 30, 15.5]; a = Angle(l); l[0] = 99; r = (a(), l)", "r = (Angle(10, 30, 15.5)(), [99, 30, 15.5])"),
        ("Epoch.copy", "a = Epoch(2451545.0); b = Epoch(a); a.set(1987, 6, 19.5); r = (b.jde(), a.jde())",
         "r = (2451545.0, Epoch(1987, 6, 19.5).jde())"),
        ("Epoch.copy", "a = Epoch(2451545.0); b = Epoch(a); b.set(1987, 6, 19.5); r = (a.jde(), b.jde())",
         "r = (2451545.0, Epoch(1987, 6, 19.5).jde())"),
        ("Epoch.list-input", "l = [2000, 1, 1.5]; a = Epoch(l); l[0] = 1999; r = (a.jde(), l)", "r = (Epoch(2000, 1, 1.5).jde(), [1999, 1, 1.5])"),
        ("Interpolation.copy", "i = %s; j = Interpolation(i); i.set([1, 2, 3], [0, 1, 4]); r = (j(2.5), i(2.5), len(j))" % I0,
         "r = (%s(2.5), %s(2.5), 3)" % (I0, I1)),
        ("Interpolation.copy", "i = %s; j = Interpolation(i); j.set([1, 2, 3], [0, 1, 4]); r = (i(2.5), j(2.5), i.derivative(2.0))" % I0,
         "r = (%s(2.5), %s(2.5), %s.derivative(2.0))" % (I0, I1, I0)),
        ("Interpolation.copy", "i = %s; j = Interpolation(i); i.set_tolerance(0.5); r = (j.get_tolerance(), i.get_tolerance())" % I0,
         "r = (%s.get_tolerance(), 0.5)" % I0),
        ("Interpolation.list-input", "xs = [1, 2, 3]; ys = [12, 5, -8]; i = Interpolation(xs, ys); ys[1] = 500; xs[0] = -7; r = (i(2.5), xs, ys)",
         "r = (%s(2.5), [-7, 2, 3], [12, 500, -8])" % I0),
        ("Interpolation.list-input", "ys = [12, 5, -8]; i = Interpolation(ys); ys[1] = 500; r = (i(1.5), ys)",
         "r = (Interpolation([0, 1, 2], [12, 5, -8])(1.5), [12, 500, -8])"),
        ("CurveFitting.copy", "c = %s; d = CurveFitting(c); c.set([1, 2, 3, 4], [0, 1, 2, 3]); r = (d.linear_fitting(), c.linear_fitting())" % C0,
         "r = (%s.linear_fitting(), %s.linear_fitting())" % (C0, C1)),
        ("CurveFitting.copy", "c = %s; d = CurveFitting(c); d.set([1, 2, 3, 4], [0, 1, 2, 3]); r = (c.linear_fitting(), d.linear_fitting())" % C0,
         "r = (%s.linear_fitting(), %s.linear_fitting())" % (C0, C1)),
        ("CurveFitting.list-input", "xs = [1, 2, 3, 4]; ys = [2, 4, 7, 8]; c = CurveFitting(xs, ys); ys[0] = 500; xs[3] = -7; r = (c.linear_fitting(), xs, ys)",
         "r = (%s.linear_fitting(), [1, 2, 3, -7], [500, 4, 7, 8])" % C0),
        ("CurveFitting.list-input", "ys = [2, 4, 7, 8]; c = CurveFitting(ys); ys[0] = 500; r = (c.linear_fitting(), ys)",
         "r = (CurveFitting([0, 1, 2, 3], [2, 4, 7, 8]).linear_fitting(), [500, 4, 7, 8])"),
        ("CurveFitting.list-input", "xs = (1, 2, 3, 4); ys = [2, 4, 7, 8]; c = CurveFitting(); c.set(xs, ys); ys[0] = 500; r = (c.linear_fitting(), ys)",
         "r = (%s.linear_fitting(), [500, 4, 7, 8])" % C0),
        ("Earth.arguments", "e = Earth(); f = Earth(Ellipsoid(1.0, 0.0, 0.0)); r = Earth().rho(Angle(10.0))", "r = Earth().rho(Angle(10.0))"),
    ]
    for cls, code, expect in OBS:
        n += 1
        try:
            r = run(code)["r"]
            want = run(expect)["r"]
            if snap(r) != snap(want):
                out.append(fnd("shared-state:" + cls, "%s: a copy / an input shares state with its source: r = %r, expected %r" % (cls, r, want), code))
        except Exception as e:      # noqa
            out.append(fnd("shared-state:" + cls, "%s: the independence check itself raises %r" % (cls, e), code))
    # --- structural: nothing mutable reachable from the copy is the same object as in the source
    STRUCT = [
        ("Angle.copy", "a = Angle(%r); b = Angle(a)" % x, "a", "b"),
        ("Angle.list-input", "a = [10, 30, 15.5]; b = Angle(a)", "a", "b"),
        ("Epoch.copy", "a = Epoch(2451545.0); b = Epoch(a)", "a", "b"),
        ("Epoch.list-input", "a = [2000, 1, 1.5]; b = Epoch(a)", "a", "b"),
        ("Interpolation.copy", "a = Interpolation([1, 2, 3], [12, 5, -8]); b = Interpolation(a)", "a", "b"),
        ("Interpolation.list-input", "a = ([1, 2, 3], [12, 5, -8]); b = Interpolation(a[0], a[1])", "a", "b"),
        ("Interpolation.list-input", "a = [12, 5, -8]; b = Interpolation(a)", "a", "b"),
        ("Interpolation.set-copy", "a = Interpolation([1, 2, 3], [12, 5, -8]); b = Interpolation(); b.set(a)", "a", "b"),
        ("CurveFitting.copy", "a = CurveFitting([1, 2, 3, 4], [2, 4, 7, 8]); b = CurveFitting(a)", "a", "b"),
        ("CurveFitting.list-input", "a = ([1, 2, 3, 4], [2, 4, 7, 8]); b = CurveFitting(a[0], a[1])", "a", "b"),
        ("CurveFitting.list-input", "a = [2, 4, 7, 8]; b = CurveFitting(a)", "a", "b"),
        ("CurveFitting.set-copy", "a = CurveFitting([1, 2, 3, 4], [2, 4, 7, 8]); b = CurveFitting(); b.set(a)", "a", "b"),
        ("Interpolation.angle-elements", "a = ([Angle(1.0), Angle(2.0), Angle(3.0)], [Angle(12.0), Angle(5.0), Angle(8.0)]); b = Interpolation(a[0], a[1])", "a", "b"),
        ("Minor.arguments", "a = (Angle(11.94524), Angle(334.75006), Angle(186.23352), Epoch(2448192.5)); b = Minor(2.2091404, 0.8502196, a[0], a[1], a[2], a[3])", "a", "b"),
        ("Earth.arguments", "a = Ellipsoid(6378140.0, 0.0033528131778969143, 7.292114992e-05); b = Earth(a)", "a", "b"),
    ]
    for key, code, sv, cv in STRUCT:
        n += 1
        try:
            env = run(code)
        except Exception as e:      # noqa
            out.append(fnd("shared-state:" + key, "construction raises %r" % e, code + "; r = None")); continue
        ia, ib = mutable_ids(env[sv]), mutable_ids(env[cv])
        common = [ia[k] for k in ia if k in ib]
        if common and "list-input" not in key:
            IDENTITY_ONLY.append(key)        # identity-only sharing, not observable through the public API: a statistic
        elif common:
            out.append(fnd("shared-state:" + key + "(identity)", "%s: the new object holds %d mutable object(s) of its source by reference (e.g. %s)" % (
                key, len(common), short(snap(common[0]), 40)), code + "; r = [k for k in vars(b) if any(vars(b)[k] is y for y in (list(vars(a).values()) if hasattr(a, '__dict__') else list(a) + [a]))]"))
    # results returned by accessor methods are not internal state
    ALIAS = [
        ("Epoch", "e = Epoch(2451545.0); f = e + 0; f.set(1987, 6, 19.5); r = e.jde()", lambda r: r == 2451545.0),
        ("Angle", "a = Angle(%r); b = a + 0; b.set(5.0); r = a()" % x, lambda r: r == x),
        ("Angle", "a = Angle(%r); b = a.to_positive(); r = (b is a)" % x, lambda r: r is True),   # documented: returns self
        ("Angle", "a = Angle(%r); b = -a; c = abs(a); b.set(1.0); c.set(2.0); r = a()" % x, lambda r: r == x),
    ]
    for cls, code, ok in ALIAS:
        n += 1
        try:
            r = run(code)["r"]
            if not ok(r):
                out.append(fnd("shared-state:" + cls, "%s: an operator result aliases its operand: r = %r" % (cls, r), code))
        except Exception as e:      # noqa
            out.append(fnd("shared-state:" + cls, "alias check raises %r" % e, code))
    return out, n


def inplace_checks(api, rng):
    """b = a; a op= x must leave b (the original object) unchanged, and x unchanged"""
    out, n = [], 0
    ops = [("+=", "__iadd__"), ("-=", "__isub__"), ("*=", "__imul__"), ("/=", "__itruediv__"), ("%=", "__imod__"), ("**=", "__ipow__")]
    for cls, mk, operands in (
            ("Angle", lambda v: "Angle(%s)" % fsrc(v), ["Angle(%s)", "%s", "3"]),
            ("Epoch", lambda v: "Epoch(%s)" % fsrc(2451545.0 + v), ["%s", "3"])):
        for sym, meth in ops:
            if cls == "Epoch" and sym not in ("+=", "-="): continue
            for oper in operands:
                for _ in range(3):
                    a0 = round(rng.uniform(-300, 300), 4)
                    xv = round(rng.uniform(0.5, 7.0), 3) if sym in ("/=", "%=", "**=") else round(rng.uniform(-400, 400), 3)
                    if sym == "**=":
                        a0 = abs(a0) % 20 + 1; xv = rng.choice([2, 3, 0.5])
                    xs = oper % fsrc(xv) if "%s" in oper else oper
                    if sym == "**=" and xs.startswith("Angle"): xs = "Angle(2.0)"
                    code = "a = %s; b = a; x = %s; x0 = %s; a %s x; r = (b, x, a is b)" % (mk(a0), xs, xs, sym)
                    n += 1
                    env = dict(api.ns)
                    try:
                        exec(code, env)
                    except Exception as e:      # noqa
                        out.append(finding("raises-in-domain:%s.%s" % (cls, meth), "%s raises %r" % (code, e), Call("", [], code, [])))
                        continue
                    b, xx, same = env["r"]
                    fresh = eval(mk(a0), env)
                    key = "mutates-argument:%s.%s" % (cls, meth)
                    if snap(b) != snap(fresh):
                        out.append(finding(key, "`a %s x` changes the object other references still point to: %s -> %s" % (
                            sym, short(snap(fresh)), short(snap(b))), Call("", [], code, [])))
                    elif same:
                        out.append(finding(key, "`a %s x` returns its own operand object (aliasing)" % sym, Call("", [], code, [])))
                    if snap(xx) != snap(env["x0"]):
                        out.append(finding(key, "`a %s x` changes its right operand" % sym, Call("", [], code, [])))
    return out, n


# ====================================================================== boundary probes from the source
import ast as _ast, textwrap as _textwrap

# documented domains used to classify an exception at a boundary value (inside: raises-in-domain)
DOMAINS = {"Epoch.tt2ut": {"year": (-2000, 3000), "month": (1, 12)}}
MONTHLIKE = {"month": (1, 12), "mm": (1, 12)}


def _num_const(n):
    if isinstance(n, _ast.Constant) and isinstance(n.value, (int, float)) and not isinstance(n.value, bool):
        return n.value
    if isinstance(n, _ast.UnaryOp) and isinstance(n.op, _ast.USub):
        v = _num_const(n.operand)
        return -v if v is not None else None
    if isinstance(n, _ast.UnaryOp) and isinstance(n.op, _ast.UAdd):
        return _num_const(n.operand)
    return None


def _func_ast(func):
    try:
        return _ast.parse(_textwrap.dedent(inspect.getsource(func)))
    except Exception:
        return None


def comparison_constants(api, fn, depth=2):
    """numeric constants compared against something in the source of fn and of the functions of the
    same class / module it calls (depth 2): list of (constant, names in the comparison, own body?)"""
    out, seen = [], set()
    M = api.mods[fn.mod]
    cls = api.classes.get(fn.cls) if fn.cls else None

    def resolve(name):
        if cls is not None and name in vars(cls):
            v = vars(cls)[name]
            return v.__func__ if isinstance(v, (staticmethod, classmethod)) else v
        v = vars(M).get(name)
        return v if inspect.isfunction(v) and getattr(v, "__module__", None) == M.__name__ else None

    def walk(func, d, own):
        if func in seen or not inspect.isfunction(func): return
        seen.add(func)
        tree = _func_ast(func)
        if tree is None: return
        for n in _ast.walk(tree):
            if isinstance(n, _ast.Compare):
                names = {x.id for x in _ast.walk(n) if isinstance(x, _ast.Name)}
                for side in [n.left] + list(n.comparators):
                    c = _num_const(side)
                    if c is not None and math.isfinite(c):
                        out.append((c, names if own else set(), own))
            elif isinstance(n, _ast.Call) and d > 0:
                f = n.func
                name = None
                if isinstance(f, _ast.Name): name = f.id
                elif isinstance(f, _ast.Attribute) and isinstance(f.value, _ast.Name) and \
                        f.value.id in ("self", fn.cls or "", "cls"):
                    name = f.attr
                if name and name != "main":
                    g = resolve(name)
                    if g is not None: walk(g, d - 1, False)
    walk(fn.func, depth, True)
    return out


def boundary_values(c, integral_only):
    vals = [c]
    if float(c).is_integer():
        vals.append(int(c))
        if not integral_only: vals.append(float(c))
    r1 = [c - 1, c + 1]
    r2 = [] if integral_only else [math.nextafter(float(c), -math.inf), math.nextafter(float(c), math.inf)]
    return vals, r1, r2


def boundary_calls(api, fn, bases, obs, cap):
    """in-domain-by-type probes at the comparison constants of the source, for every numeric scalar
    parameter; deterministic order: constants compared with the parameter itself first, exact values
    before +-1 before +-1ulp, parameters interleaved; at most `cap` per function"""
    consts = comparison_constants(api, fn)
    if not consts: return []
    rounds = [[], [], [], [], [], []]     # primary exact, primary +-1, primary ulp, secondary exact, +-1, ulp
    for base in bases:
        env = dict(api.ns)
        for v, s in base.setup:
            if v == "s": continue
            try:
                val = eval(s, env)
            except Exception:
                continue
            if isinstance(val, bool) or not isinstance(val, (int, float)): continue
            pname = param_of_var(fn, base, v)
            docks = kinds_of_doc(fn.types.get(pname)) or set()
            okinds = obs.get(fn.key, {}).get(pname, set())
            integral_only = isinstance(val, int) and "float" not in docks and "float" not in okinds
            prim = sorted({c for c, names, own in consts if own and pname in names})
            sec = sorted({c for c, names, own in consts} - set(prim))
            for k, cs in ((0, prim), (3, sec)):
                for c in cs:
                    if integral_only and not float(c).is_integer(): continue
                    a, b, u = boundary_values(c, integral_only)
                    cr = repr(int(c)) if float(c).is_integer() else repr(c)
                    for j, vs in enumerate((a, b, u)):
                        cat = (cr, cr + "+-1", cr + "+-ulp")[j]
                        for x in vs:
                            rounds[k + j].append((pname + "|" + cat, base.with_arg(v, repr(x) if isinstance(x, int) else fsrc(x))))
    out, seen = [], set()
    for r in rounds:
        for pname, c in r:
            code = c.code()
            if code in seen: continue
            seen.add(code)
            c.origin = "boundary:" + pname.split("|")[0]
            out.append((pname, c))
            if len(out) >= cap: return out
    return out


def in_stated_domain(fn, call):
    """True/False when every numeric argument with a stated domain is inside/outside it, None if no domain is stated"""
    dom = dict(MONTHLIKE) if fn.cls == "Epoch" else {}
    dom.update(DOMAINS.get(fn.key, {}))
    if fn.key not in DOMAINS: return None
    ok = True
    for v, s in call.setup:
        if v == "s": continue
        p = param_of_var(fn, call, v)
        if p in dom:
            try:
                x = eval(s, {"float": float})
            except Exception:
                continue
            if isinstance(x, (int, float)) and not (dom[p][0] <= x <= dom[p][1]): ok = False
    return ok


def check_boundary(api, fn, pname, call, shapes):
    """totality and determinism at a boundary value: an exception other than TypeError/ValueError is a
    finding everywhere; TypeError/ValueError is a finding only inside a stated domain"""
    out = []
    pname, _, cat = pname.partition("|")
    o1 = run_call(api, call, check_state=False)
    if o1.setup_exc is not None: return out, "setup"
    inside = in_stated_domain(fn, call)
    if o1.exc is not None:
        cls = type(o1.exc).__name__
        if isinstance(o1.exc, (TypeError, ValueError)):
            if inside:
                out.append(finding("raises-in-domain:" + fn.key, "%s raises %s (%s) at a boundary value of '%s' inside its documented domain" % (
                    fn.key, cls, str(o1.exc)[:60], pname), call))
            return out, "rejected"
        if re.search(r":raises?:?\s*%s\b" % cls, fn.doc):
            return out, "documented " + cls          # e.g. ZeroDivisionError of the Angle division operators
        key = ("raises-in-domain:%s" % fn.key) if inside else ("wrong-exception:%s:%s:%s:%s" % (fn.key, pname, cat, cls))
        out.append(finding(key, "%s raises %s (%s) at a boundary value of '%s' (a comparison constant of its source), not TypeError/ValueError" % (
            fn.key, cls, str(o1.exc)[:60], pname), call))
        return out, cls
    for v in o1.pre:
        if o1.pre[v] != o1.post[v] and not (v == "s" and fn.key in MUTATORS):
            out.append(finding("mutates-argument:" + fn.key, "%s (boundary value of '%s') changes %s" % (fn.key, pname, v), call))
    why = non_value(o1.result)
    if why is None and o1.result is None and fn.kind != "ctor":
        rec = (shapes or {}).get(fn.key)
        if rec is not None and "None" not in rec and fn.key not in DOCUMENTED_NONE:
            why = "None (no documented call of this function returns None)"
    if why:
        out.append(finding("returns-non-value:%s:%s:%s" % (fn.key, pname, non_value_kind(why)),
                           "%s silently returns %s at a boundary value of '%s'" % (fn.key, why, pname), call))
    elif fn.kind != "ctor":
        if rtype_ok(api, fn, o1.result) is False and not (o1.result is None and fn.key in DOCUMENTED_NONE):
            out.append(finding("wrong-result-type:" + fn.key, "%s returns %s at a boundary value of '%s', documented :rtype: %s" % (
                fn.key, shape(o1.result), pname, fn.rtype), call))
        sh = shape(o1.result)
        num = lambda t: re.sub(r"\bint\b", "float", t)      # an int where a float was recorded is a number (int inputs)
        if shapes is not None and fn.key in shapes and num(sh) not in {num(t) for t in shapes[fn.key]}:
            out.append(finding("wrong-result-shape:" + fn.key, "%s returns %s at a boundary value of '%s'; recorded shapes: %s" % (
                fn.key, sh, pname, sorted(shapes[fn.key])), call))
    o2 = run_call(api, call, check_state=False)
    if not same_outcome(o1, o2):
        out.append(finding("nondeterministic:" + fn.key, "%s gives %s, then %s on equal boundary arguments" % (
            fn.key, describe(o1), describe(o2)), call, call.code() + "; r1 = r; " + call.code() + "; r = (r1, r)"))
    return out, "value"


# ====================================================================== sequence-argument variants
def _top_elems(src_text):
    """top-level elements of a list/tuple display source, or None"""
    try:
        t = _ast.parse(src_text, mode="eval").body
    except Exception:
        return None
    if not isinstance(t, (_ast.List, _ast.Tuple)): return None
    return [_ast.get_source_segment(src_text, e) for e in t.elts], isinstance(t, _ast.List)


def _disp(elems, is_list):
    if is_list: return "[" + ", ".join(elems) + "]"
    return "(" + ", ".join(elems) + ("," if len(elems) == 1 else "") + ")"


def sequence_variants(api, fn, bases, cap):
    """variants of documented calls whose arguments are list/tuple displays of >= 3 elements:
      even/odd : the last entry of EVERY table dropped (tables of the other parity, still consistent)
      tuple    : every list given as a tuple (where the documentation accepts tuples) / every tuple as a list
      dup-last / dup-first / dup-max : ONE table with a repeated entry (ill-formed for abscissae)
    returns list of (kind, Call)"""
    out, seen = [], set()
    for base in bases:
        seqs = {}
        for v, s in base.setup:
            if v == "s": continue
            te = _top_elems(s)
            if te and len(te[0]) >= 3: seqs[v] = te
        if not seqs: continue

        def mk(kind, repl):
            c = Call(base.key, [(v, repl.get(v, s)) for v, s in base.setup], base.call, base.argvars, "seq:" + kind)
            if c.code() not in seen and c.code() != base.code():
                seen.add(c.code()); out.append((kind, c))
        mk("drop-last", {v: _disp(e[:-1], il) for v, (e, il) in seqs.items()})
        mk("drop-two", {v: _disp(e[:-2], il) for v, (e, il) in seqs.items() if len(e) >= 5})
        mk("other-sequence-type", {v: _disp(e, not il) for v, (e, il) in seqs.items()})
        mk("drop-last+other-sequence-type", {v: _disp(e[:-1], not il) for v, (e, il) in seqs.items()})
        for v, (e, il) in seqs.items():
            mk("dup-last:" + param_of_var(fn, base, v), {v: _disp(e[:-1] + [e[-2]], il)})
            mk("dup-first:" + param_of_var(fn, base, v), {v: _disp([e[0], e[0]] + e[2:], il)})
            mk("dup-unordered:" + param_of_var(fn, base, v), {v: _disp([e[-1]] + e[1:], il)})
        if len(out) >= cap: break
    return out[:cap]


def check_variant(api, fn, kind, call, base_ok, shapes):
    """purity and exception class on a sequence variant.  A repeated entry / a shorter table may be out
    of domain: TypeError/ValueError are then proper answers; the other sequence type is documented as
    accepted, so it must behave like the documented call"""
    out = []
    o1 = run_call(api, call, check_state=False)
    if o1.setup_exc is not None: return out, "setup"
    strict = kind == "other-sequence-type" and base_ok
    res = "value"
    if o1.exc is not None:
        cls = type(o1.exc).__name__
        res = cls
        if isinstance(o1.exc, (TypeError, ValueError)):
            res = "rejected"
            if strict and accepts_both_sequence_types(fn, call):
                out.append(finding("raises-in-domain:" + fn.key, "%s raises %s (%s) when its documented list arguments are given as tuples (or tuples as lists), both documented as accepted" % (
                    fn.key, cls, str(o1.exc)[:60]), call))
        elif not re.search(r":raises?:?\s*%s\b" % cls, fn.doc):
            out.append(finding("wrong-exception:%s:%s:%s:%s" % (fn.key, kind.split(":")[1] if ":" in kind else "tables", kind.split(":")[0], cls),
                               "%s raises %s (%s) on a %s variant of a documented call, not TypeError/ValueError" % (
                fn.key, cls, str(o1.exc)[:60], kind.split(":")[0]), call))
    for v in o1.pre:
        if o1.pre[v] != o1.post[v] and not (v == "s" and fn.key in MUTATORS):
            who = "its receiver" if v == "s" else "argument '%s'" % param_of_var(fn, call, v)
            out.append(finding("mutates-argument:" + fn.key, "%s (%s variant) changes %s: %s -> %s" % (
                fn.key, kind.split(":")[0], who, short(o1.pre[v]), short(o1.post[v])), call, call.code() + "; r = %s" % v))
    if o1.exc is None:
        why = non_value(o1.result)
        if why is None and fn.kind == "method" and "s" in o1.env: why = non_value(o1.env["s"])
        if why:
            out.append(finding("returns-non-value:%s:%s:%s" % (fn.key, kind.split(":")[-1] if ":" in kind else "tables", non_value_kind(why)),
                               "%s silently returns %s on a %s variant of a documented call" % (fn.key, why, kind.split(":")[0]), call))
    o2 = run_call(api, call, check_state=False)
    if not same_outcome(o1, o2):
        out.append(finding("nondeterministic:" + fn.key, "%s gives %s, then %s on an equal %s variant" % (
            fn.key, describe(o1), describe(o2), kind.split(":")[0]), call, call.code() + "; r1 = r; " + call.code() + "; r = (r1, r)"))
    return out, res


def accepts_both_sequence_types(fn, call):
    for v, s in call.setup:
        if v == "s" or not s.startswith(("[", "(")): continue
        ks = kinds_of_doc(fn.types.get(param_of_var(fn, call, v))) or set()
        if not ({"list", "tuple"} <= ks): return False
    return True


# ====================================================================== documented inclusive ranges
def range_boundary_calls(api, recs):
    """calls AT the ends of ranges the docstrings state as inclusive:
      ':raises: ValueError if input epoch outside the A/B (A-B) range'  -> epochs in the first and last year
      ':raises: ValueError if input value is outside of interpolation range' -> x at the first / last abscissa
    returns (param, label, wording, Call); raising there is raises-in-domain:<fn>:<param>:<label>"""
    out = []
    for fn in api.fns.values():
        m = re.search(r":raises:\s*(ValueError if input epoch outside the (-?\d+)([/-])(-?\d+) range)", fn.doc)
        if m and fn.params and fn.params[0].name == "epoch" and fn.kind in ("static", "func"):
            lo, hi = int(m.group(2)), int(m.group(4))
            if m.group(3) == "/":
                # 'A/B': an interval of the epoch as a fractional year (property text: query epochs in [A, B]):
                # both ends and one day inside are accepted, one day outside is refused
                inside = (("year%d" % lo, "Epoch(%d, 1, 1.0)" % lo), ("year%d" % lo, "Epoch(%d, 1, 2.0)" % lo),
                          ("year%d" % hi, "Epoch(%d, 1, 1.0)" % hi), ("year%d" % hi, "Epoch(%d, 12, 31.0)" % (hi - 1)))
                outside = (("before-year%d" % lo, "Epoch(%d, 12, 31.0)" % (lo - 1)), ("after-year%d" % hi, "Epoch(%d, 1, 2.0)" % hi))
            else:
                # 'A-B': calendar years A .. B (Pluto: the property quantifies over the years 1885-2099)
                inside = (("year%d" % lo, "Epoch(%d, 1, 1.0)" % lo), ("year%d" % lo, "Epoch(%d, 7, 1.0)" % lo),
                          ("year%d" % hi, "Epoch(%d, 1, 1.0)" % hi), ("year%d" % hi, "Epoch(%d, 7, 1.0)" % hi),
                          ("year%d" % hi, "Epoch(%d, 12, 31.5)" % hi))
                outside = (("before-year%d" % lo, "Epoch(%d, 12, 1.0)" % (lo - 1)), ("after-year%d" % hi, "Epoch(%d, 2, 1.0)" % (hi + 1)))
            for label, e in inside:
                out.append(("epoch", label, m.group(1), make_call(fn, None, [e], {}, "range-boundary")))
            for label, e in outside:
                out.append(("epoch", "!" + label, m.group(1), make_call(fn, None, [e], {}, "range-boundary-outside")))
    seen = set()
    for c in recs:
        fn = api.fns.get(c.key)
        if fn is None or fn.key not in ("Interpolation.__call__", "Interpolation.derivative"): continue
        recv = dict(c.setup).get("s")
        if recv in seen or recv is None: continue
        seen.add(recv)
        try:
            obj = eval(recv, dict(api.ns))
            xs = [x for x in (obj._x[0], obj._x[-1]) if isinstance(x, (int, float))]
        except Exception:
            continue
        for x, label in zip(xs, ("first-abscissa", "last-abscissa")):
            out.append(("x", label, "ValueError if input value is outside of interpolation range",
                        make_call(fn, recv, [repr(x)], {}, "range-boundary")))
        if len(seen) >= 6: break
    return out


def check_range_boundary(api, fn, param, label, wording, call, shapes):
    if label.startswith("!"):       # just outside the documented range: must be refused with ValueError
        o = run_call(api, call, check_state=False)
        if o.setup_exc is not None: return []
        if isinstance(o.exc, ValueError): return []
        got = "raises %s" % type(o.exc).__name__ if o.exc is not None else "returns %s" % shape(o.result)
        return [finding("not-refused-out-of-range:%s:%s:%s" % (fn.key, param, label[1:]),
                        "%s %s instead of ValueError: %s" % (fn.key, got, ("an impossible date given in the " + wording) if wording.startswith("documented input form")
                                                           else "just outside its documented range (docstring: ':raises: %s')" % wording), call)]
    fs, o = check_in_domain(api, fn, call, shapes, None)
    for f in fs:
        if f["key"] == "raises-in-domain:" + fn.key:
            f["key"] = "raises-in-domain:%s:%s:%s" % (fn.key, param, label)
            f["what"] = "%s raises %s (%s) on %s" % (
                fn.key, type(o.exc).__name__ if o is not None and o.exc is not None else "?",
                str(o.exc)[:60] if o is not None and o.exc is not None else "", wording if wording.startswith("documented input form")
                else "the end of its documented range (docstring: ':raises: %s')" % wording)
    return fs


# ====================================================================== documented alternative input forms
def input_form_calls(api):
    """explicit in-domain records for the documented alternative INPUT FORMS at the corners where a
    form-specific branch can hide (month names x leap day / month ends, tuple / list / date forms, sexagesimal
    tuples incl. the sign element, the table forms of Interpolation / CurveFitting).
    returns (param, label, wording, Call); label starting with '!' = must be refused with ValueError"""
    out = []
    F = api.fns

    def add(key, recv, args, kw, label, must_refuse=False):
        fn = F.get(key)
        if fn is None: return
        c = make_call(fn, recv, args, kw, "input-form")
        out.append((fn.varargs or (fn.params[0].name if fn.params else "self"), ("!" if must_refuse else "") + label,
                    "documented input form '%s'" % label, c))

    SHORT = ["Jan", "Feb", "Mar", "Apr", "May", "Jun", "Jul", "Aug", "Sep", "Oct", "Nov", "Dec"]
    LONG = ["January", "February", "March", "April", "May", "June", "July", "August", "September", "October",
            "November", "December"]
    E0 = "Epoch(2451545.0)"

    def epoch_forms(y, m, d, label, refuse=False, full=True):
        """every way of saying the date (y, m, d) with month given as `m` (source text)"""
        add("Epoch.__init__", None, [repr(y), m, repr(d)], {}, label, refuse)
        if not full:
            add("Epoch.check_input_date", None, ["(%r, %s, %r)" % (y, m, d)], {}, label + "/tuple", refuse)
            return
        add("Epoch.__init__", None, ["(%r, %s, %r)" % (y, m, d)], {}, label + "/tuple", refuse)
        add("Epoch.__init__", None, ["[%r, %s, %r]" % (y, m, d)], {}, label + "/list", refuse)
        add("Epoch.set", E0, [repr(y), m, repr(d)], {}, label, refuse)
        add("Epoch.set", E0, ["(%r, %s, %r)" % (y, m, d)], {}, label + "/tuple", refuse)
        add("Epoch.check_input_date", None, [repr(y), m, repr(d)], {}, label, refuse)
        add("Epoch.check_input_date", None, ["[%r, %s, %r]" % (y, m, d)], {}, label + "/list", refuse)

    # 29 February of leap years, Julian and Gregorian, month as number and as name in every documented spelling
    for y in (2000, 2024, 1500, -4712, 1600, 4):
        for m in ("2", "'Feb'", "'February'", "'FEBRUARY'", "'feb'", "' february '"):
            lab = "leap-day/month-" + ("number" if m == "2" else "name")
            epoch_forms(y, m, 29, lab)
            epoch_forms(y, m, 29.5, lab, full=(m in ("2", "'FEBRUARY'")))
    for y in (1900, 2023, 2100, 1582):       # not leap years (1900, 2100: Gregorian century years)
        for m in ("2", "'Feb'", "'FEBRUARY'"):
            epoch_forms(y, m, 29, "no-leap-day/month-" + ("number" if m == "2" else "name"), refuse=True)
    # the last day of every month, names in three spellings
    mlen = [31, 28, 31, 30, 31, 30, 31, 31, 30, 31, 30, 31]
    for k in range(12):
        for m in (repr(k + 1), repr(SHORT[k]), repr(LONG[k].upper()), repr(LONG[k].lower())):
            lab = "month-end/month-" + ("number" if m.isdigit() else "name")
            epoch_forms(2023, m, mlen[k], lab)
            epoch_forms(2023, m, mlen[k] + 0.75, lab, full=False)
            epoch_forms(2023, m, mlen[k] + 1, "past-month-end/month-" + ("number" if m.isdigit() else "name"), refuse=True, full=False)
    # date / datetime objects
    for d in ("datetime.date(2024, 2, 29)", "datetime.datetime(2024, 2, 29, 12, 30, 15)", "datetime.date(1900, 2, 28)",
              "datetime.date(2023, 12, 31)", "datetime.datetime(2000, 2, 29, 23, 59, 59, 999999)"):
        add("Epoch.__init__", None, [d], {}, "date-object")
        add("Epoch.set", E0, [d], {}, "date-object")
        add("Epoch.check_input_date", None, [d], {}, "date-object")
    # leap-year related statics on the same corners
    for y in (2000, 2024, 1500, -4712, 1900, 2100, 2023, 2000.0):
        add("Epoch.is_leap", None, [repr(y)], {}, "leap-corner")
    for y in (2000, 2024, 1500, -4712):
        add("Epoch.get_doy", None, [repr(y), "2", "29"], {}, "leap-day")
        add("Epoch.get_doy", None, [repr(y), "12", "31"], {}, "leap-year-end")
        add("Epoch.doy2date", None, [repr(y), "60"], {}, "leap-day")
        add("Epoch.doy2date", None, [repr(y), "366"], {}, "leap-year-end")
        add("Epoch.is_julian", None, [repr(y), "2", "29"], {}, "leap-day")
    add("Epoch.get_doy", None, ["1900", "2", "29"], {}, "no-leap-day", True)
    for m in SHORT + LONG + [x.upper() for x in LONG] + [x.lower() for x in SHORT]:
        add("Epoch.get_month", None, [repr(m)], {}, "month-name")
        add("Epoch.get_month", None, [repr(m)], {"as_string": "True"}, "month-name")
    # Angle: sexagesimal tuples and lists, incl. the 4-element form with the sign
    for body in ("10, 30, 15.5", "-10, 30, 15.5", "0, 0, 59.99", "10, 30", "359, 59, 59.9", "0, -30, 0.0"):
        for o, c in (("(", ")"), ("[", "]")):
            lab = "dms-" + ("tuple" if o == "(" else "list")
            add("Angle.__init__", None, [o + body + c], {}, lab)
            add("Angle.set", "Angle(5.0)", [o + body + c], {}, lab)
            add("Angle.__init__", None, [o + body + c], {"ra": "True"}, lab + "/ra")
            add("Angle.set_ra", "Angle(5.0)", [o + body + c], {}, lab + "/ra")
    for body in ("10, 30, 15.5, -1", "10, 30, 15.5, 1", "10, 30, 15.5, -1.0", "0, 0, 30.0, -1", "10, 30, 15.5, 1.0"):
        for o, c in (("(", ")"), ("[", "]")):
            add("Angle.__init__", None, [o + body + c], {}, "dms-sign-4" + ("tuple" if o == "(" else "list"))
            add("Angle.set", "Angle(5.0)", [o + body + c], {}, "dms-sign-4" + ("tuple" if o == "(" else "list"))
    for args in (["10", "30", "15.5"], ["-10", "30", "15.5"], ["10", "30"], ["10", "30", "15.5", "-1"]):
        add("Angle.__init__", None, args, {}, "dms-scalars")
        add("Angle.set", "Angle(5.0)", args, {}, "dms-scalars")
    # Interpolation / CurveFitting table forms
    for cls, xs, ys in (("Interpolation", "1, 2, 3, 4", "12, 5, -8, 3"), ("CurveFitting", "1, 2, 3, 4", "2, 4, 7, 8"),
                        ("Interpolation", "1.5, 0.5, 2.5", "3.0, -1.0, 4.0"), ("CurveFitting", "1.5, 0.5, 2.5", "3.0, -1.0, 4.0")):
        xl, yl = xs.split(", "), ys.split(", ")
        inter = [v for p in zip(xl, yl) for v in p]
        forms = (("two-tuples", ["(%s)" % xs, "(%s)" % ys]), ("list+tuple", ["[%s]" % xs, "(%s)" % ys]),
                 ("tuple+list", ["(%s)" % xs, "[%s]" % ys]), ("two-lists", ["[%s]" % xs, "[%s]" % ys]),
                 ("interleaved-scalars", inter), ("interleaved-odd-count", inter + ["99"]),
                 ("ordinates-only-list", ["[%s]" % ys]), ("ordinates-only-tuple", ["(%s)" % ys]),
                 ("copy", ["%s([%s], [%s])" % (cls, xs, ys)]),
                 ("angles", ["[%s]" % ", ".join("Angle(%s)" % v for v in xl), "[%s]" % ", ".join("Angle(%s)" % v for v in yl)]),
                 ("unequal-lengths", ["[%s, 77]" % xs, "[%s]" % ys]))
        for lab, args in forms:
            add(cls + ".__init__", None, args, {}, lab)
            add(cls + ".set", cls + "()", args, {}, lab)
    return out
