"""Python twin of Spec.Computus / Spec.Hebrew / Spec.Islamic (written from the calendar
definitions, not from pymeeus).  Used by the search oracle of C19."""
from vlib import calref as R

# ---- Computus (tabular epact definition) ----
PFM_JULIAN = [36, 25, 44, 33, 22, 41, 30, 49, 38, 27, 46, 35, 24, 43, 32, 21, 40, 29, 48]

def golden(y): return y % 19 + 1
def pfm_julian(y): return PFM_JULIAN[golden(y) - 1]
def epact_greg(y):
    g = golden(y)
    c = y // 100 + 1
    x = 3 * c // 4 - 12            # solar correction
    z = (8 * c + 5) // 25 - 5      # lunar correction
    e = (11 * g + 20 + z - x) % 30
    if (e == 25 and g > 11) or e == 24:
        e += 1
    return e
def pfm_greg(y):
    n = 44 - epact_greg(y)
    return n + 30 if n < 21 else n
def march_day(n): return (3, n) if n <= 31 else (4, n - 31)
def weekday(y, m, d): return (R.jdn(y, m, d) + 1) % 7     # 0 = Sunday
def sunday_after(y, n):
    m, d = march_day(n)
    return n + 7 - weekday(y, m, d)
def easter(y):
    """(month, day) of Easter: Julian calendar to 1582, Gregorian from 1583"""
    return march_day(sunday_after(y, pfm_julian(y) if y < 1583 else pfm_greg(y)))

# ---- arithmetic Hebrew calendar ----
HEBREW_EPOCH = 347998          # JDN of 1 Tishri AM 1 (7 Oct -3760 Julian)
def hebrew_elapsed(h):
    months = (235 * h - 234) // 19
    parts = 12084 + 13753 * months
    day = 29 * months + parts // 25920
    return day + 1 if (3 * (day + 1)) % 7 < 3 else day
def hebrew_newyear_delay(h):
    ny0, ny1, ny2 = hebrew_elapsed(h - 1), hebrew_elapsed(h), hebrew_elapsed(h + 1)
    if ny2 - ny1 == 356: return 2
    if ny1 - ny0 == 382: return 1
    return 0
def rosh_hashanah_jdn(h): return HEBREW_EPOCH + hebrew_elapsed(h) + hebrew_newyear_delay(h)
def pesach_jdn(y):
    """JDN of 15 Nisan falling in civil year y = 163 days before 1 Tishri AM y+3761"""
    return rosh_hashanah_jdn(y + 3761) - 163

# ---- tabular Islamic calendar ----
ISLAMIC_EPOCH = 1948440        # JDN of 1 Muharram AH 1 = 16 July 622 (Julian)
def islamic_leap(h): return (11 * h + 14) % 30 < 11
def islamic_mlen(h, m):
    if m % 2 == 1: return 30
    return 30 if (m == 12 and islamic_leap(h)) else 29
def islamic_ylen(h): return 355 if islamic_leap(h) else 354
def islamic_valid(h, m, d): return h >= 1 and 1 <= m <= 12 and 1 <= d <= islamic_mlen(h, m)
def islamic_jdn(h, m, d):
    return ISLAMIC_EPOCH + 354 * (h - 1) + (11 * h + 3) // 30 + 29 * (m - 1) + m // 2 + d - 1
def islamic_next(h, m, d):
    if d < islamic_mlen(h, m): return (h, m, d + 1)
    if m < 12: return (h, m + 1, 1)
    return (h + 1, 1, 1)
def islamic_of_jdn(n):
    """inverse of islamic_jdn by search"""
    h = max(1, (n - ISLAMIC_EPOCH) // 355)
    while islamic_jdn(h + 1, 1, 1) <= n: h += 1
    m = 1
    while m < 12 and islamic_jdn(h, m + 1, 1) <= n: m += 1
    return (h, m, n - islamic_jdn(h, m, 1) + 1)
