"""Load the implementation from /repo's working tree (fresh import, no bytecode cache)."""
import importlib, sys
from vlib import common as K

def load(names):
    sys.dont_write_bytecode = True
    for k in [k for k in sys.modules if k == "pymeeus" or k.startswith("pymeeus.")]:
        del sys.modules[k]
    if K.REPO not in sys.path:
        sys.path.insert(0, K.REPO)
    return {n: importlib.import_module("pymeeus." + n) for n in names}
