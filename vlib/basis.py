"""Fixed menu of basis functions usable in correspondence case expressions for
CurveFitting.general_fitting (py2coq maps these names to VFun ids, see EXTERN_FUN
in py2coq/translate.py; the binary64 model interprets them in B64.b64_basis_call).
sin/cos/exp go through the traced libm of the harness when called from a case."""
import math

def bf_zero(x): return 0.0
def bf_one(x): return 1.0
def bf_x(x): return x
def bf_x2(x): return x * x
def bf_x3(x): return x * x * x
def bf_sin(x): return math.sin(x)
def bf_cos(x): return math.cos(x)
def bf_sin2(x): return math.sin(2.0 * x)
def bf_cos2(x): return math.cos(2.0 * x)
def bf_exp(x): return math.exp(x)
def bf_sqrt(x): return math.sqrt(x)
