"""C17 — curve fitting returns the least-squares solution."""
import math
from fractions import Fraction as Q
from itertools import permutations
from vlib import common as K, ref_C17 as R, basis as B
from vlib.impl import load

ID = "C17"
MODULES = K.mods("base", "Angle", "CurveFitting")
REQUIRED = ["CurveFitting.__init__", "CurveFitting.set", "CurveFitting._compute_parameters",
            "CurveFitting.correlation_coeff", "CurveFitting.linear_fitting",
            "CurveFitting.quadratic_fitting", "CurveFitting.general_fitting"]
THEOREMS = ["C17_sums", "C17_linear_normal_equations", "C17_quadratic_normal_equations",
            "C17_general_normal_equations", "C17_general_eq_quadratic", "C17_general_eq_linear",
            "C17_degenerate_refused", "C17_correlation", "C17_input_forms",
            "C17_correlation_collinear", "C17_correlation_rescaling", "C17_permutation_invariance",
            "C17_general_permutation_invariance", "C17_noiseless_recovered", "C17_menu_instances",
            "C17_input_forms_any_length", "C17_linear_minimises", "C17_r_one_iff_collinear", "C17_correlation_range"]
PROOF_TIMEOUT = {"quick": 1500, "thorough": 3000}
EXHAUSTIVE = False
MANIFEST = {
    "category": "proof",
    "text": "Ideal (real-arithmetic) instance of the regenerated model, data lists of ANY length (induction over the generated loops): the stored sums are the power sums; whenever the generated guards let a result through, linear/quadratic/general_fitting satisfy the 2x2/3x3 normal equations (residuals orthogonal to every basis function, arbitrary basis functions), general(x^2,x,1) = quadratic and general(x,1,0) = linear, exactly degenerate data give ZeroDivisionError, correlation coefficient = the textbook quotient, returned value in [-1,1] outright (final limitation proved to be the identity on data sets by Cauchy-Schwarz), r = +-1 on collinear data, affine invariance, sign flips, permutation invariance of all fits, noiseless data recovered exactly; constructor/set() build that object from every input form for tables of any length, linear fit = unique minimiser of the residual sum, |r| = 1 iff collinear; all theorems ideal-instance only (binary64 rounding searched, not proved); bit-exact correspondence incl. basis-function values; exact rational (Fraction) reference search on the implementation with an implementation-independent definition of well-conditioned.",
    "technique": "generated model + symbolic evaluation (pyrun) + induction over lists + field/nra in the ideal instance + bit-exact differential correspondence + exact rational oracle",
    "design_ref": "8/C17",
}
EXPLANATION = ("The model of CurveFitting regenerated from /repo is read in exact real arithmetic: for float data lists of any "
               "length the accumulated sums are proved to be the power sums (induction over the generated for-loops), and the "
               "closed forms of linear/quadratic/general_fitting are proved to solve the normal equations whenever the guards "
               "let a result through (field), else ZeroDivisionError (both branches explicit, no fuel involved); further: "
               "general(x^2,x,1)=quadratic, general(x,1,null)=linear, |r|<=1, r=+-1 on collinear data, affine invariance, "
               "permutation invariance, noiseless recovery. All theorems are about the ideal instance starting from the stored "
               "object cf_of xs ys, which the constructor / set() is proved to build from every input form for tables of any length (except the single-list form); the linear fit is proved to be the unique minimiser of the residual sum; binary64 rounding is not covered "
               "by any theorem and is searched against an exact rational reference; well-conditioned is defined on the exact normal equations only (scaled condition number times right-hand-side cancellation <= 1e6).")
CLAUSES = {
    "stored sums are N, Sx, Sx2, Sx3, Sx4, Sy, Sxy, Sx2y, Sy2 (float data lists of any length)": "proved [ideal, induction over the generated loop of _compute_parameters]",
    "linear fit solves the 2x2 normal equations / residuals orthogonal to x and 1 when the guard passes, else ZeroDivisionError; it MINIMISES the sum of squared residuals over all lines and is the unique minimiser": "proved [ideal, any length]",
    "quadratic fit solves the 3x3 normal equations / residuals orthogonal to x^2, x, 1 when the guard passes, else ZeroDivisionError": "proved [ideal, any length]",
    "general fit: residuals orthogonal to every basis function (ARBITRARY f0,f1,f2; 3-function branch), 2x2 normal equations in the 2-function branch, all three refusal branches": "proved [ideal, NON-EMPTY float data of any length, induction over the generated loop of general_fitting; function values abstracted by `call` with hypotheses call f_k [VFloat x] = VFloat (g_k x), shown satisfiable by the concrete interpreter menu_call (C17_menu_instances)]",
    "general(x^2, x, 1) = quadratic fit; general(x, 1, null) = linear fit": "proved [ideal, any length, equal returned values; side conditions: the guards of both methods pass (general(x,1) additionally needs Sx2 >= TOL)]",
    "exactly degenerate data (all x equal) => ZeroDivisionError from linear/quadratic fit and correlation": "proved [ideal: exact-zero determinant only]; binary64: data whose determinant evaluated in binary64 is below TOL are searched strictly (key degenerate-not-refused); the known finding degenerate-inexact-not-refused is restricted to: exact determinant 0 (Fraction) AND the documented closed form evaluated in binary64 does not refuse AND the implementation returns bit-identically that result; any other outcome gets key degenerate-inexact-other",
    "the correlation coefficient lies in [-1, 1]: the returned value is max(-1, min(1, quotient)) for ANY stored sums; for the sums of a data set the limitation is the identity (|quotient| <= 1 by Cauchy-Schwarz), i.e. the returned r is the textbook cov/(sqrt varx * sqrt vary); sign flip under y -> -y": "proved [ideal, any length]; binary64: |r| <= 1 checked LITERALLY on every data set on which the call returns (no gate, no slack)",
    "input forms, tables of ANY length: two lists / two tuples (cut to the shorter one, m = min), interleaved scalars (odd trailing one dropped), copy constructor, set() on an existing object all store cf_of xs ys = the data with their power sums; fewer than two points in a list => ValueError": "proved [ideal, any length >= 2, float entries, whatever the object under construction holds; induction over the generated loops of CurveFitting.set]; not covered by a theorem: the single-list form CurveFitting(ys) (integer abscissae 0..n-1), int/Angle entries, tuples too short; searched for 2-200 points: 7 forms bit-identical",
    "r = +-1 for collinear data (y = al*x + be, al <> 0, x not all equal) and |r| = 1 ONLY for collinear data; r unchanged by positive affine rescaling of either variable, sign flip under a negative one / negation of x or y": "proved [ideal, any length]; binary64: searched on every data set (no gate) with tolerance 1e-6 + 16*err, err = 4(n+16)*eps*[(n S|xy| + S|x|S|y|)/sqrt(vx vy) + |r|(kx + ky)], kx = (n Sx2 + (S|x|)^2)/vx the mean-offset ratio of the data: 1e-6 (to within 10 %) when err <= 1e-7, growing in proportion to the offset ratios otherwise; incl. pure changes of scale 1e-7..1e7 and abscissae spaced 2^-20; |r| <= 1 literal",
    "noiseless data are recovered exactly: points exactly on a line / parabola give back its coefficients when the guard passes": "proved [ideal, any length]; binary64: BIT-EXACT equality demanded on data with integer abscissae |x| <= 15 and integer coefficients (all sums exact); on exactly representable dyadic data whose sums round: within 16(n+16)*eps*K of the scaled solution (a few ulps times the condition number K) on every set with K <= 1e6",
    "relative 1e-6 agreement of the binary64 result with the exact rational solution on well-conditioned data": "unproved (searched): rounding is outside the ideal instance. Well-conditioned is defined on the exact (Fraction) normal equations only: K = cond_inf of the normal matrix scaled to unit diagonal times the cancellation factor of the right-hand side, K <= 1e6 (n*eps*K <= 2.3e-8 for n <= 200); every such set is checked (about 80 % of the generated sets), 1e-6 read normwise on the scaled solution (max_j |da_j| sqrt(M_jj) <= 1e-6 max_j |a_j| sqrt(M_jj)), residual orthogonality likewise; a raise on such a set is a finding (<fit>-raises-well-conditioned; the absolute-tolerance cause has the key well-conditioned-refused-absolute-tol)",
    "independence of the order of the points (Permutation of the point list): linear, quadratic fit, correlation; general fit with arbitrary basis functions in every branch its closed forms cover": "proved [ideal, any length: the exact real sums are symmetric; says nothing about the order of binary64 summation]; binary64: searched (all permutations of sets of <= 5 points, 3 random ones of larger sets, relative 1e-6)",
    "general_fitting(f0, f1) with the default null third function": "modelled by hand: the translator cannot render the lambda default, cases pass bf_zero explicitly; the search checks general_fitting(bf_x, bf_one) == general_fitting(bf_x, bf_one, bf_zero) on the implementation",
}


def proof_files(tier):
    return ["C17_whnf.v", "C17_tac.v", "C17_sums.v", "C17_fits.v", "C17_general.v", "C17_corr.v", "C17_ctorN.v", "C17_main.v", "C17_more.v", "C17_lsq.v", "C17.v"]


# ------------------------------------------------------------------ data generators

def rnd_round(rng, v):
    k = rng.choice([None, None, 1, 2, 3])
    return v if k is None else round(v, k)


def gen_xs(rng, n):
    style = rng.choice(["spread", "spread", "small", "cluster", "grid", "intgrid"])
    if style == "spread":
        xs = [rnd_round(rng, rng.uniform(-1e3, 1e3)) for _ in range(n)]
    elif style == "small":
        xs = [rnd_round(rng, rng.uniform(-5, 5)) for _ in range(n)]
    elif style == "cluster":
        c = rng.uniform(-1e3, 1e3); w = rng.choice([1e-3, 1e-1, 1.0, 10.0, 50.0])
        xs = [min(1e3, max(-1e3, c + w * rng.uniform(-1, 1))) for _ in range(n)]
    elif style == "grid":
        x0 = rng.uniform(-1e3, 0); h = rng.choice([0.25, 0.5, 1.0, 2.5, 5.0])
        xs = [min(1e3, x0 + h * i) for i in range(n)]
    else:
        xs = [float(rng.randint(-40, 40)) for _ in range(n)]
    return xs, style


BASES = {"bf_zero": B.bf_zero, "bf_one": B.bf_one, "bf_x": B.bf_x, "bf_x2": B.bf_x2, "bf_sin": B.bf_sin,
         "bf_cos": B.bf_cos, "bf_sin2": B.bf_sin2, "bf_cos2": B.bf_cos2, "bf_exp": B.bf_exp}
TRIPLES = [("bf_x2", "bf_x", "bf_one"), ("bf_x", "bf_one", "bf_zero"), ("bf_one", "bf_x", "bf_zero"),
           ("bf_sin", "bf_cos", "bf_one"), ("bf_sin", "bf_cos", "bf_zero"), ("bf_sin2", "bf_cos2", "bf_one"),
           ("bf_sin", "bf_sin2", "bf_one"), ("bf_cos", "bf_x", "bf_one"), ("bf_exp", "bf_x", "bf_one"),
           ("bf_exp", "bf_one", "bf_zero"), ("bf_x", "bf_zero", "bf_zero"), ("bf_sin", "bf_zero", "bf_zero"),
           ("bf_one", "bf_zero", "bf_zero"), ("bf_x2", "bf_one", "bf_zero"), ("bf_one", "bf_x", "bf_x2")]


def gen_ys(rng, xs, names=None):
    """ordinates: noiseless or noisy values of a model in the given basis, or unrelated noise"""
    kind = rng.choice(["noiseless", "noisy", "noisy", "random"])
    names = names or rng.choice(TRIPLES[:3])
    cs = [rng.choice([rng.uniform(-5, 5), float(rng.randint(-4, 4)), rng.uniform(-100, 100)]) for _ in names]
    ys = []
    for x in xs:
        try:
            v = sum(c * BASES[f](x) for c, f in zip(cs, names))
        except OverflowError:
            v = 0.0
        if kind == "noisy": v += rng.gauss(0, 1) * rng.choice([1e-3, 0.1, 1.0])
        if kind == "random": v = rng.uniform(-100, 100)
        if not math.isfinite(v) or abs(v) > 1e12: v = rng.uniform(-1, 1)
        ys.append(v)
    return ys, kind


def pick_n(rng):
    r = rng.random()
    if r < 0.45: return rng.randint(2, 6)
    if r < 0.85: return rng.randint(7, 40)
    return rng.randint(41, 200)


def lit(v):
    return repr(v)


def lst(vs):
    return "[" + ", ".join(lit(v) for v in vs) + "]"


# ------------------------------------------------------------------ correspondence cases

def cases(rng, tier):
    n_sets = 70 if tier == "quick" else 600
    cs = []
    for _ in range(n_sets):
        n = min(pick_n(rng), 60)
        xs, _ = gen_xs(rng, n)
        names = rng.choice(TRIPLES)
        if "bf_exp" in names: xs = [x / 200.0 for x in xs]
        ys, _ = gen_ys(rng, xs, names if rng.random() < 0.5 else None)
        if rng.random() < 0.25:       # ints among the data
            xs = [int(x) if rng.random() < 0.5 else x for x in xs]
            ys = [int(y) if rng.random() < 0.3 else y for y in ys]
        form = rng.random()
        if form < 0.55: ctor = "CurveFitting(%s, %s)" % (lst(xs), lst(ys))
        elif form < 0.7: ctor = "CurveFitting(%s, %s)" % ("(" + ", ".join(map(lit, xs)) + ",)", "(" + ", ".join(map(lit, ys)) + ",)")
        elif form < 0.85: ctor = "CurveFitting(%s)" % ", ".join("%s, %s" % (lit(x), lit(y)) for x, y in zip(xs, ys))
        elif form < 0.93: ctor = "CurveFitting(%s)" % lst(ys)
        else: ctor = "CurveFitting(CurveFitting(%s, %s))" % (lst(xs), lst(ys))
        cs.append(ctor + ".linear_fitting()")
        cs.append(ctor + ".quadratic_fitting()")
        cs.append(ctor + ".correlation_coeff()")
        cs.append(ctor + ".general_fitting(%s, %s, %s)" % names)
        if rng.random() < 0.2: cs.append(ctor)
    # degenerate / malformed / boundary
    cs += ["CurveFitting([2.0, 2.0, 2.0], [2.0, 4.1, 7.2]).linear_fitting()",
           "CurveFitting([2.0, 2.0, 2.0], [2.0, 4.1, 7.2]).quadratic_fitting()",
           "CurveFitting([2.0, 2.0, 2.0], [2.0, 4.1, 7.2]).correlation_coeff()",
           "CurveFitting([0.1, 0.1, 0.1], [2.0, 4.1, 7.2]).correlation_coeff()",
           "CurveFitting([604.5, 604.5, 604.5, 604.5], [2.0, 4.1, 7.2, 1.0]).quadratic_fitting()",
           "CurveFitting([1.0, 2.0, 3.0], [5.0, 5.0, 5.0]).correlation_coeff()",
           "CurveFitting([1.0, 2.0], [5.0, 7.0]).quadratic_fitting()",
           "CurveFitting([1.0, 2.0], [5.0, 7.0]).linear_fitting()",
           "CurveFitting([1.0, 2.0, 4.0], [5.0, 7.0, 1.0]).general_fitting(bf_x, bf_x, bf_one)",
           "CurveFitting([1.0, 2.0, 4.0], [5.0, 7.0, 1.0]).general_fitting(bf_zero, bf_zero, bf_zero)",
           "CurveFitting([1.0, 2.0, 4.0], [5.0, 7.0, 1.0]).general_fitting(bf_x, bf_zero, bf_one)",
           "CurveFitting([1.0, 2.0, 4.0], [5.0, 7.0, 1.0]).general_fitting(bf_zero, bf_x, bf_one)",
           "CurveFitting([1.5, 2, -3, 9], [2, 4, 8, 16.5]).general_fitting(bf_sqrt, bf_zero, bf_zero)",
           "CurveFitting([1.5, 2, 3, 9], [2, 4, 8, 16.5]).general_fitting(bf_sqrt, bf_one, bf_zero)",
           "CurveFitting([1.5, 2, 3, 900], [2, 4, 8, 16.5]).general_fitting(bf_exp, bf_one, bf_zero)",
           "CurveFitting([1.5, 2, 3, 9], [2, 4, 8, 16.5]).general_fitting(bf_x3, bf_x, bf_zero)",
           "CurveFitting([1, 2, 3, 9], [2, 4, 8, 16]).general_fitting(bf_x2, bf_x, bf_one)",
           "CurveFitting([5, 3, 6, 1, 2, 4, 9], [10, 6, 12, 2, 4, 8])",
           "CurveFitting([3, -8, 1, 12, 2, 5, 8])", "CurveFitting(3, -8, 1, 12, 2, 5, 8)",
           "CurveFitting(3, -8, 1, 12, 2, 5, 8).linear_fitting()",
           "CurveFitting(1.0)", "CurveFitting([1.0])", "CurveFitting(1, 2, 3)", "CurveFitting('a')",
           "CurveFitting([1, 2], 3)", "CurveFitting(1, 2, 3, 'a')", "CurveFitting([1.0], [2.0])",
           "CurveFitting([1.0, 2.0], 'ab')", "CurveFitting(None)", "CurveFitting((1.0, 2.0), [3.0, 4.0, 5.0]).linear_fitting()",
           "CurveFitting([1.0, 'a'], [3.0, 4.0]).linear_fitting()"]
    return cs


# ------------------------------------------------------------------ search oracle

def call(f):
    try:
        return ("ok", f())
    except Exception as e:      # noqa
        return ("exc", type(e).__name__)


def replay_cmd(xs, ys, expr):
    return ("PYTHONPATH=/repo:/verif /venv/bin/python -c \"from pymeeus.CurveFitting import CurveFitting; "
            "from vlib.basis import *; xs=%s; ys=%s; cf=CurveFitting(xs, ys); print(%s)\"" % (lst(xs), lst(ys), expr))


class Oracle:
    def __init__(self, CF):
        self.CF = CF
        self.findings = []
        self.keys = {}
        self.n = 0
        self.nontrivial = 0
        self.inexact_seen = 0

    def report(self, key, what, xs, ys, expr):
        self.keys[key] = self.keys.get(key, 0) + 1
        if self.keys[key] > 3: return
        self.findings.append({"key": key, "what": what, "input": {"x": list(xs), "y": list(ys), "call": expr},
                              "replay": replay_cmd(xs, ys, expr)})

    # --- coefficient tuples against the exact solution
    def check_fit(self, xs, ys, expr, got, fvals, key, label):
        """got: ('ok', tuple) or ('exc', name); fvals: basis values (non-null functions only).
        Well-conditioned is decided on the exact normal equations alone (R.conditioning, K <= R.KMAX);
        every such set is checked, a raise on it is a finding."""
        self.n += 1
        sol = R.solve(fvals, ys)
        if sol is None:
            return None
        k = len(fvals)
        wc = R.well_conditioned(sol)
        if got[0] == "exc":
            if wc:
                # the degeneracy guards compare a determinant with the ABSOLUTE tolerance 1e-10; that exact cause
                # (ZeroDivisionError although well-conditioned, exact determinant - or, in general_fitting, the exact
                # product of the diagonal sums - below 1.01e-10) has its own key; every other raise is a separate finding
                tiny = abs(float(sol["d"])) < 1.01e-10
                if key == "general":
                    prod = 1.0
                    for j in range(k): prod *= float(sol["M"][j][j])
                    tiny = tiny or prod < 1.01e-10
                if got[1] == "ZeroDivisionError" and tiny:
                    self.report("well-conditioned-refused-absolute-tol", "%s raises ZeroDivisionError on well-conditioned data (K = %.3g) because the determinant %.3g is below the absolute tolerance 1e-10; exact solution %s"
                                % (label, sol["cond"]["K"], float(sol["d"]), [float(c) for c in sol["coef"]]), xs, ys, expr)
                else:
                    self.report(key + "-raises-well-conditioned", "%s raises %s on well-conditioned data (K = %.3g, determinant %.3g, exact solution %s)"
                                % (label, got[1], sol["cond"]["K"], float(sol["d"]), [float(c) for c in sol["coef"]]), xs, ys, expr)
            return sol
        res = got[1]
        # the null functions' coefficients must be exactly 0.0 (always)
        for j in range(k, len(res)):
            if res[j] != 0.0:
                self.report(key + "-coefficient", "%s returns %r: coefficient %d of a null function is not 0" % (label, tuple(res), j), xs, ys, expr)
        if not wc:
            return sol
        self.nontrivial += 1
        sc, zmax = sol["cond"]["s"], sol["cond"]["zmax"]
        for j in range(k):
            c = float(sol["coef"][j])
            if not (abs(res[j] - c) * sc[j] <= 1e-6 * zmax):
                self.report(key + "-coefficient", "%s returns %r, the exact least-squares solution is %r (coefficient %d off by %.3g of the scaled solution, K = %.3g)"
                            % (label, tuple(res), tuple(float(x) for x in sol["coef"]), j, abs(res[j] - c) * sc[j] / zmax, sol["cond"]["K"]), xs, ys, expr)
                return sol
        # residuals orthogonal to every basis function (exact arithmetic on the returned floats):
        # sum r f_i / s_i = sum_j (a_j - a^_j) s_j Ms_ij, |Ms_ij| <= 1, so <= k * 1e-6 * zmax
        F = [[Q(v) for v in col] for col in fvals]
        for i in range(k):
            t = sum((Q(ys[p]) - sum(Q(res[j]) * F[j][p] for j in range(k))) * F[i][p] for p in range(len(ys)))
            if abs(float(t)) / sc[i] > k * 1e-6 * zmax:
                self.report(key + "-orthogonality", "%s: residuals not orthogonal to basis function %d: sum r*f/|f| = %.3g (scaled solution %.3g)"
                            % (label, i, float(t) / sc[i], zmax), xs, ys, expr)
                break
        return sol

    def fits(self, xs, ys, triple=None, light=False):
        CF = self.CF
        cf = CF(list(xs), list(ys))
        x1 = [1.0] * len(xs)
        lin = call(cf.linear_fitting)
        self.check_fit(xs, ys, "cf.linear_fitting()", lin, [list(xs), x1], "linear", "linear_fitting")
        quad = call(cf.quadratic_fitting)
        x2 = [B.bf_x2(x) for x in xs]
        solq = self.check_fit(xs, ys, "cf.quadratic_fitting()", quad, [x2, list(xs), x1], "quadratic", "quadratic_fitting")
        # general fits
        triples = [("bf_x2", "bf_x", "bf_one"), ("bf_x", "bf_one", "bf_zero")]
        if triple and triple not in triples: triples.append(triple)
        gres = {}
        for t in triples:
            try:
                fv = [[BASES[f](x) for x in xs] for f in t if f != "bf_zero"]
            except (OverflowError, ValueError):
                continue
            expr = "cf.general_fitting(%s, %s, %s)" % t
            g = call(lambda: cf.general_fitting(*[BASES[f] for f in t]))
            gres[t] = g
            self.check_fit(xs, ys, expr, g, fv, "general", "general_fitting(%s,%s,%s)" % t)
        # two-argument form (null default for f2)
        g2 = call(lambda: cf.general_fitting(B.bf_x, B.bf_one))
        self.n += 1
        if g2 != gres.get(("bf_x", "bf_one", "bf_zero")):
            self.report("general-default-args", "general_fitting(bf_x, bf_one) = %r differs from general_fitting(bf_x, bf_one, bf_zero) = %r"
                        % (g2, gres.get(("bf_x", "bf_one", "bf_zero"))), xs, ys, "cf.general_fitting(bf_x, bf_one)")
        # general(x^2,x,1) = quadratic ; general(x,1) = linear
        self.same_fit(xs, ys, gres.get(("bf_x2", "bf_x", "bf_one")), quad, [x2, list(xs), x1], "general-vs-quadratic",
                      "general_fitting(x^2,x,1)", "quadratic_fitting", "cf.general_fitting(bf_x2, bf_x, bf_one), cf.quadratic_fitting()")
        self.same_fit(xs, ys, g2, lin, [list(xs), x1], "general-vs-linear",
                      "general_fitting(x,1)", "linear_fitting", "cf.general_fitting(bf_x, bf_one), cf.linear_fitting()")
        return lin, quad, gres

    def same_fit(self, xs, ys, a, b, fvals, key, la, lb, expr):
        if a is None or b is None: return
        self.n += 1
        sol = R.solve(fvals, ys)
        if sol is None or not R.well_conditioned(sol): return
        k = len(fvals)
        self.nontrivial += 1
        if a[0] != b[0]:
            self.report(key, "%s gives %r but %s gives %r" % (la, a, lb, b), xs, ys, expr); return
        if a[0] == "exc":
            if a[1] != b[1]: self.report(key, "%s raises %s but %s raises %s" % (la, a[1], lb, b[1]), xs, ys, expr)
            return
        sc, zmax = sol["cond"]["s"], sol["cond"]["zmax"]
        for j in range(k):
            if not (abs(a[1][j] - b[1][j]) * sc[j] <= 2e-6 * zmax):
                self.report(key, "%s = %r but %s = %r" % (la, tuple(a[1]), lb, tuple(b[1])), xs, ys, expr); return

    # --- permutations and input forms
    def perms(self, rng, xs, ys, all_perms):
        CF = self.CF
        n = len(xs)
        base = {}
        cf = CF(list(xs), list(ys))
        for m in ("linear_fitting", "quadratic_fitting", "correlation_coeff"):
            base[m] = call(getattr(cf, m))
        base["general"] = call(lambda: cf.general_fitting(B.bf_sin, B.bf_cos, B.bf_one))
        sols = {"linear_fitting": R.solve([list(xs), [1.0] * n], ys),
                "quadratic_fitting": R.solve([[x * x for x in xs], list(xs), [1.0] * n], ys),
                "general": R.solve([[math.sin(x) for x in xs], [math.cos(x) for x in xs], [1.0] * n], ys)}
        corr = R.correlation(xs, ys)
        idxs = list(permutations(range(n))) if all_perms else [tuple(rng.sample(range(n), n)) for _ in range(3)]
        for p in idxs:
            px = [xs[i] for i in p]; py = [ys[i] for i in p]
            cfp = CF(px, py)
            for m in ("linear_fitting", "quadratic_fitting", "general"):
                self.n += 1
                sol = sols[m]
                if sol is None or not R.well_conditioned(sol): continue
                g = call(getattr(cfp, m)) if m != "general" else call(lambda: cfp.general_fitting(B.bf_sin, B.bf_cos, B.bf_one))
                b = base[m]
                self.nontrivial += 1
                expr = "cf.%s()" % m if m != "general" else "cf.general_fitting(bf_sin, bf_cos, bf_one)"
                sc, zmax = sol["cond"]["s"], sol["cond"]["zmax"]
                if g[0] != b[0] or (g[0] == "ok" and any(not (abs(u - v) * sj <= 2e-6 * zmax) for u, v, sj in zip(g[1], b[1], sc))):
                    self.report("permutation", "%s depends on the order of the points: %r for %s, %r for the permutation %s"
                                % (m, b, lst(xs), g, list(p)), px, py, expr)
            if corr is not None:
                self.n += 1
                g = call(cfp.correlation_coeff); b = base["correlation_coeff"]
                tol = 2 * (1e-6 + 16 * corr[1])
                if (g[0] != b[0] and corr[1] <= 1e-7) or (g[0] == "ok" and b[0] == "ok" and abs(g[1] - b[1]) > tol):
                    self.report("permutation", "correlation_coeff depends on the order of the points: %r vs %r" % (b, g), px, py, "cf.correlation_coeff()")

    def forms(self, xs, ys):
        CF = self.CF
        def results(cf):
            return [call(cf.linear_fitting), call(cf.quadratic_fitting), call(cf.correlation_coeff),
                    call(lambda: cf.general_fitting(B.bf_sin, B.bf_cos, B.bf_one))]
        base = call(lambda: results(CF(list(xs), list(ys))))
        inter = []
        for x, y in zip(xs, ys): inter += [x, y]
        alts = {"tuples": lambda: results(CF(tuple(xs), tuple(ys))),
                "interleaved scalars": lambda: results(CF(*inter)),
                "interleaved scalars + 1 extra": lambda: results(CF(*(inter + [7.0]))),
                "copy constructor": lambda: results(CF(CF(list(xs), list(ys)))),
                "set() on an existing object": lambda: (lambda c: (c.set(list(xs), list(ys)), results(c))[1])(CF([0.0, 1.0], [1.0, 5.0])),
                "longer y list (truncated)": lambda: results(CF(list(xs), list(ys) + [3.25]))}
        for name, f in alts.items():
            self.n += 1; self.nontrivial += 1
            g = call(f)
            if repr(g) != repr(base):
                self.report("input-form", "input form '%s' gives %r, separate lists give %r" % (name, g, base), xs, ys,
                            "cf.linear_fitting(), cf.quadratic_fitting(), cf.correlation_coeff()")
        # single list: abscissae 0, 1, 2, ...
        self.n += 1
        g = call(lambda: results(CF(list(ys))))
        b = call(lambda: results(CF(list(range(len(ys))), list(ys))))
        if repr(g) != repr(b):
            self.report("input-form", "CurveFitting(ys) gives %r, CurveFitting(range(n), ys) gives %r" % (g, b), list(range(len(ys))), ys,
                        "CurveFitting(ys).linear_fitting()")

    # --- correlation coefficient
    def corr(self, rng, xs, ys, collinear=False):
        CF = self.CF
        self.n += 1
        ref = R.correlation(xs, ys)
        got = call(CF(list(xs), list(ys)).correlation_coeff)
        neg = call(CF(list(xs), [-y for y in ys]).correlation_coeff)
        # sign flip: exact in binary64 as well (negation commutes with every operation used)
        if got[0] != neg[0] or (got[0] == "ok" and not (neg[1] == -got[1])) or (got[0] == "exc" and got[1] != neg[1]):
            self.report("correlation-sign-flip", "correlation_coeff = %r but %r after negating y" % (got, neg), xs, ys, "cf.correlation_coeff()")
        # the coefficient lies in [-1, 1]: literally, on every data set on which the call returns
        if got[0] == "ok" and not (abs(got[1]) <= 1.0):
            self.report("correlation-range", "correlation_coeff = %r outside [-1, 1]" % (got[1],), xs, ys, "cf.correlation_coeff()")
        if ref is None:
            return
        # tolerance for comparisons with the exact r: 1e-6 + 16*err, err = 4(n+16)*eps*[(n S|xy| + S|x| S|y|)/sqrt(vx vy)
        # + |r| (kx + ky)], kx = (n Sx2 + (S|x|)^2)/vx the mean-offset ratio of the data (R.correlation); applied to
        # every data set, it is 1e-6 to within 10 % on well-conditioned ones (err <= 1e-7) and grows with kx, ky
        r, err = ref
        tol = 1e-6 + 16 * err
        if got[0] != "ok":
            if err <= 1e-7:
                self.report("correlation-raises-well-conditioned", "correlation_coeff raises %s on regular data (exact r = %r)" % (got[1], r), xs, ys, "cf.correlation_coeff()")
            return
        if err <= 1e-7: self.nontrivial += 1
        g = got[1]
        if not (abs(g - r) <= tol):
            self.report("correlation-value", "correlation_coeff = %r, exact value %r (tolerance %.3g)" % (g, r, tol), xs, ys, "cf.correlation_coeff()")
        if collinear and not (abs(abs(g) - 1) <= tol):
            self.report("correlation-collinear", "correlation_coeff = %r on collinear data (tolerance %.3g)" % (g, tol), xs, ys, "cf.correlation_coeff()")
        # positive affine rescaling of either variable, and pure changes of scale over 1e-7 .. 1e7
        # (the coefficient has no absolute threshold to cross)
        al = rng.choice([2.0, 0.5, 3.7, 1e-2, 12.5]); be = rng.choice([0.0, 1.0, -17.25, 100.0])
        trials = [("xy"[w] + " -> %r*v + %r" % (al, be), al if w == 0 else None, al if w == 1 else None, be) for w in (0, 1)]
        for w in (0, 1, 2):
            sc = rng.choice([1e-7, 2.0 ** -20, 1e-4, 1e4, 1e7])
            trials.append((("x", "y", "x and y")[w] + " times %r" % sc, sc if w in (0, 2) else None, sc if w in (1, 2) else None, 0.0))
        for what, ax, ay, be in trials:
            xs2 = [ax * x + be for x in xs] if ax is not None else list(xs)
            ys2 = [ay * y + be for y in ys] if ay is not None else list(ys)
            ref2 = R.correlation(xs2, ys2)
            if ref2 is None: continue
            self.n += 1
            tol2 = 1e-6 + 16 * ref2[1]
            g2 = call(CF(xs2, ys2).correlation_coeff)
            if g2[0] != "ok":
                if ref2[1] <= 1e-7:
                    self.report("correlation-scale", "correlation_coeff = %r, but %r after rescaling %s (exact value %r)" % (g, g2, what, ref2[0]), xs2, ys2, "cf.correlation_coeff()")
                continue
            if ref2[1] <= 1e-7: self.nontrivial += 1
            if not (abs(g2[1]) <= 1.0) or not (abs(g2[1] - ref2[0]) <= tol2) or not (abs(g2[1] - g) <= tol + tol2):
                self.report("correlation-scale", "correlation_coeff = %r, but %r after rescaling %s (exact value %r, tolerance %.3g)"
                            % (g, g2, what, ref2[0], tol + tol2), xs2, ys2, "cf.correlation_coeff()")

    # --- degenerate data
    def degenerate(self, rng):
        CF = self.CF
        # (a) exact sums: small half-integers, every sum and product exact in binary64
        n = rng.randint(2, 10)
        x0 = rng.randint(-12, 12) / 2.0
        ys = [rng.randint(-20, 20) / 2.0 for _ in range(n)]
        if len(set(ys)) == 1: ys[0] += 1.0
        xs = [x0] * n
        cf = CF(xs, ys)
        todo = [("cf.linear_fitting()", cf.linear_fitting), ("cf.quadratic_fitting()", cf.quadratic_fitting),
                ("cf.correlation_coeff()", cf.correlation_coeff),
                ("cf.general_fitting(bf_x2, bf_x, bf_one)", lambda: cf.general_fitting(B.bf_x2, B.bf_x, B.bf_one))]
        if x0 != 0:
            todo.append(("cf.general_fitting(bf_x, bf_one)", lambda: cf.general_fitting(B.bf_x, B.bf_one)))
        for expr, f in todo:
            self.n += 1; self.nontrivial += 1
            g = call(f)
            if g != ("exc", "ZeroDivisionError"):
                self.report("degenerate-not-refused", "%s on data with all x = %r gives %r instead of ZeroDivisionError" % (expr, x0, g), xs, ys, expr)
        # two distinct abscissae: the quadratic is undetermined
        xs2 = [rng.choice([x0, x0 + 1.5]) for _ in range(n)]
        xs2[0], xs2[-1] = x0, x0 + 1.5
        self.n += 1
        g = call(CF(xs2, ys).quadratic_fitting)
        if g != ("exc", "ZeroDivisionError"):
            self.report("degenerate-not-refused", "quadratic_fitting on data with only two distinct abscissae gives %r" % (g,), xs2, ys, "cf.quadratic_fitting()")
        # all y equal: correlation undefined
        xs3 = [float(i) for i in range(n)]; ys3 = [x0] * n
        self.n += 1
        g = call(CF(xs3, ys3).correlation_coeff)
        if g != ("exc", "ZeroDivisionError"):
            self.report("degenerate-not-refused", "correlation_coeff on constant ordinates gives %r" % (g,), xs3, ys3, "cf.correlation_coeff()")
        # linearly dependent / null basis functions
        for t in (("bf_x", "bf_x", "bf_one"), ("bf_zero", "bf_zero", "bf_zero"), ("bf_one", "bf_one", "bf_x")):
            self.n += 1
            g = call(lambda: CF(xs3, ys).general_fitting(*[BASES[f] for f in t]))
            if g != ("exc", "ZeroDivisionError"):
                self.report("degenerate-not-refused", "general_fitting(%s, %s, %s) (singular normal equations) gives %r" % (t + (g,)), xs3, ys,
                            "cf.general_fitting(%s, %s, %s)" % t)
        # (b) any abscissa in [-1e3, 1e3] (sums generally not exact in binary64).  The exact determinant is 0
        # (checked with Fraction).  ZeroDivisionError is what the property demands.  Anything else is the KNOWN
        # finding only if it is precisely the documented rounding effect: the documented algorithm evaluated in
        # binary64 (R.float_*: absolute guard |d| < TOL on the rounded sums) does not refuse either and gives the
        # identical result.  If that evaluation refuses (float determinant below TOL, e.g. exact sums) the strict
        # key is used; if it gives something else, the implementation deviates from the documented algorithm.
        n = pick_n(rng)
        x0 = rng.choice([rng.uniform(-1e3, 1e3), round(rng.uniform(-1e3, 1e3), 1), float(rng.randint(-1000, 1000)),
                         rng.uniform(-1, 1), round(rng.uniform(-5, 5), 1), 0.1])
        ys = [rng.uniform(-10, 10) for _ in range(n)]
        xs = [x0] * n
        assert R.exact_linear_det(xs) == 0
        cf = CF(xs, ys)
        for expr, f, model in (("cf.linear_fitting()", cf.linear_fitting, R.float_linear),
                               ("cf.quadratic_fitting()", cf.quadratic_fitting, R.float_quadratic),
                               ("cf.correlation_coeff()", cf.correlation_coeff, R.float_correlation)):
            self.n += 1
            g = call(f)
            if g == ("exc", "ZeroDivisionError"):
                continue
            want = model(xs, ys)
            if want == ("exc", "ZeroDivisionError"):
                self.report("degenerate-not-refused", "%s on %d points with all x = %r gives %r although the determinant "
                            "computed in binary64 is below TOL (ZeroDivisionError expected)" % (expr, n, x0, g), xs, ys, expr)
            elif repr(g) == repr(want):
                self.inexact_seen += 1
                self.report("degenerate-inexact-not-refused", "%s on %d points with all x = %r gives %r instead of ZeroDivisionError "
                            "(exact determinant 0, rounded determinant not below TOL)" % (expr, n, x0, g), xs, ys, expr)
            else:
                self.report("degenerate-inexact-other", "%s on %d points with all x = %r gives %r; the documented closed form "
                            "evaluated in binary64 gives %r" % (expr, n, x0, g, want), xs, ys, expr)


def noiseless_exact(rng):
    """integer abscissae and integer coefficients: the data lie exactly on the model curve"""
    n = rng.randint(3, 12)
    xs = rng.sample(range(-15, 16), n)
    deg = rng.choice([1, 2])
    cs = [rng.randint(-6, 6) for _ in range(deg + 1)]
    if cs[0] == 0: cs[0] = 1
    ys = [float(sum(c * x ** (deg - i) for i, c in enumerate(cs))) for x in xs]
    return [float(x) for x in xs], ys, deg, cs


def search(rng, tier, deep):
    mods = load(["CurveFitting"])
    O = Oracle(mods["CurveFitting"].CurveFitting)
    full = deep or tier == "thorough"
    n_sets = 1500 if full else 260
    for it in range(n_sets):
        n = pick_n(rng) if it > n_sets // 3 else rng.randint(2, 6)   # small sets first: small replays
        xs, style = gen_xs(rng, n)
        triple = rng.choice(TRIPLES)
        if "bf_exp" in triple: xs = [x / 200.0 for x in xs]
        ys, kind = gen_ys(rng, xs, triple if rng.random() < 0.6 else None)
        O.fits(xs, ys, triple)
        O.corr(rng, xs, ys)
        if n <= 40 or it % 5 == 0:
            O.forms(xs, ys)
        if n <= 4: O.perms(rng, xs, ys, True)
        elif n == 5 and it % 4 == 0: O.perms(rng, xs, ys, True)
        elif it % 3 == 0: O.perms(rng, xs, ys, False)
    # noiseless data are recovered EXACTLY: integer abscissae |x| <= 15 and integer coefficients, so every sum
    # and every product of the closed forms is exact in binary64 and the quotient a*d/d is a: bit-exact equality
    for it in range(300 if full else 80):
        xs, ys, deg, cs = noiseless_exact(rng)
        CF = O.CF
        cf = CF(xs, ys)
        O.n += 1; O.nontrivial += 1
        g = call(cf.linear_fitting) if deg == 1 else call(cf.quadratic_fitting)
        expr = "cf.linear_fitting()" if deg == 1 else "cf.quadratic_fitting()"
        if g[0] != "ok" or any(u != float(c) for u, c in zip(g[1], cs)):
            O.report("noiseless-not-recovered", "data exactly on the curve with coefficients %r, %s returns %r (bit-exact recovery expected: all sums exact)" % (cs, expr, g), xs, ys, expr)
        names = ("bf_x2", "bf_x", "bf_one") if deg == 2 else ("bf_x", "bf_one", "bf_zero")
        g = call(lambda: cf.general_fitting(*[BASES[f] for f in names]))
        if g[0] != "ok" or any(u != float(c) for u, c in zip(g[1], cs)):
            O.report("noiseless-not-recovered", "data exactly on the curve with coefficients %r, general_fitting%r returns %r (bit-exact recovery expected)" % (cs, names, g),
                     xs, ys, "cf.general_fitting(%s, %s, %s)" % names)
        if deg == 1:
            O.corr(rng, xs, ys, collinear=True)
    # noiseless data with dyadic (not integer) abscissae and coefficients: the ordinates are exactly on the curve
    # but the sums round; the coefficients must come back to within 16(n+16)*eps*K of the scaled solution
    # (K = R.conditioning; i.e. a few ulps times the condition number), on every set with K <= KMAX
    for it in range(300 if full else 80):
        n = rng.randint(3, 40)
        xs = [rng.randint(-800, 800) / 8.0 for _ in range(n)]
        deg = rng.choice([1, 2])
        cs = [rng.randint(-200, 200) / 4.0 for _ in range(deg + 1)]
        if cs[0] == 0: cs[0] = 0.25
        yq = [sum(Q(c) * Q(x) ** (deg - i) for i, c in enumerate(cs)) for x in xs]
        ys = [float(y) for y in yq]
        if any(Q(y) != q for y, q in zip(ys, yq)): continue
        fv = [[x * x for x in xs], list(xs), [1.0] * n] if deg == 2 else [list(xs), [1.0] * n]
        sol = R.solve(fv, ys)
        if sol is None or not R.well_conditioned(sol): continue
        cf = O.CF(xs, ys)
        O.n += 1; O.nontrivial += 1
        g = call(cf.linear_fitting) if deg == 1 else call(cf.quadratic_fitting)
        expr = "cf.linear_fitting()" if deg == 1 else "cf.quadratic_fitting()"
        tolz = 16 * (n + 16) * R.EPS * sol["cond"]["K"] * sol["cond"]["zmax"]
        if g[0] != "ok" or any(abs(u - c) * sj > tolz for u, c, sj in zip(g[1], cs, sol["cond"]["s"])):
            O.report("noiseless-not-recovered", "data exactly on the curve with coefficients %r, %s returns %r (allowed deviation %.3g of the scaled solution, K = %.3g)"
                     % (cs, expr, g, tolz / sol["cond"]["zmax"], sol["cond"]["K"]), xs, ys, expr)
    # collinear data in floats
    for it in range(300 if full else 60):
        n = rng.randint(2, 30)
        xs, _ = gen_xs(rng, n)
        a = rng.choice([rng.uniform(-5, 5), 2.0, -0.5]); b = rng.uniform(-100, 100)
        if a == 0: a = 1.0
        O.corr(rng, xs, [a * x + b for x in xs], collinear=True)
    # finely spaced / tiny abscissae (spacing 2^-20, scale 1e-7): regular data for the correlation coefficient
    for it in range(200 if full else 40):
        n = rng.randint(3, 12)
        h = rng.choice([2.0 ** -20, 1e-7, 2.0 ** -10])
        xs = [h * i for i in rng.sample(range(-20, 21), n)]
        ys = [rng.choice([1.0, 1e-7, 1e3]) * rng.uniform(-5, 5) for _ in range(n)]
        O.corr(rng, xs, ys)
    for it in range(400 if full else 80):
        O.degenerate(rng)
    stats = {"evaluations": O.n, "distinct_nontrivial": O.nontrivial,
             "rule": "data sets of 2-200 points (spread/clustered/grid abscissae in [-1e3,1e3], noiseless/noisy/random ordinates): "
                     "linear/quadratic/general fits against the exact rational solution of the normal equations (relative 1e-6 "
                     "demanded normwise on the scaled solution of every set whose exact normal equations have K <= 1e6 = non-trivial; raises there are findings), "
                     "residual orthogonality, general(x^2,x,1)=quadratic, general(x,1)=linear, all permutations of sets of <= 5 points, "
                     "7 input forms bit-identical, correlation coefficient (range, exact value, collinear, affine, sign flip), degenerate data",
             "samples": [{"input": "xs=[1.0,2.0,3.5], ys=[2.0,4.1,7.2]", "checked": "linear_fitting vs Fraction solution, orthogonality, forms, permutations"}],
             "finding_counts": O.keys, "known_finding_envelope": "degenerate-inexact-not-refused only when exact determinant = 0, the documented closed form in binary64 does not refuse, and the implementation returns exactly that result (%d such)" % O.inexact_seen}
    return O.findings, stats
