"""C03 — Angle: canonical range, congruence mod 360 and closed arithmetic."""
import math, re, sys
from fractions import Fraction as Fr
from vlib import common as K
from vlib.impl import load

ID = "C03"
MODULES = K.mods("base", "Angle")
REQUIRED = ["Angle.__init__", "Angle.reduce_deg", "Angle.reduce_dms", "Angle.dms2deg", "Angle.set",
            "Angle.set_radians", "Angle.set_ra", "Angle.to_positive", "Angle.rad", "Angle.get_ra",
            "Angle.__call__", "Angle.__float__", "Angle.__int__",
            "Angle.__eq__", "Angle.__ne__", "Angle.__lt__", "Angle.__le__", "Angle.__gt__", "Angle.__ge__",
            "Angle.__neg__", "Angle.__abs__", "Angle.__round__",
            "Angle.__add__", "Angle.__sub__", "Angle.__mul__", "Angle.__div__", "Angle.__truediv__",
            "Angle.__mod__", "Angle.__pow__",
            "Angle.__iadd__", "Angle.__isub__", "Angle.__imul__", "Angle.__idiv__", "Angle.__itruediv__",
            "Angle.__imod__", "Angle.__ipow__",
            "Angle.__radd__", "Angle.__rsub__", "Angle.__rmul__", "Angle.__rdiv__", "Angle.__rtruediv__",
            "Angle.__rmod__", "Angle.__rpow__"]
THEOREMS = ["C03_reduce_deg_ideal", "C03_reduction_spec", "C03_construct_ideal", "C03_sexagesimal_ideal", "C03_sexagesimal_canonical_ideal", "C03_operators_more_ideal",
            "C03_operators_ideal", "C03_division_by_zero_ideal", "C03_unary_compare_ideal",
            "C03_views_ideal", "C03_grid_b64", "C03_reduce_deg_b64", "C03_construct_b64", "C03_to_positive_b64", "C03_set_ra_b64",
            "C03_addsub_b64", "C03_operators_b64", "C03_division_by_zero_b64"]
PROOF_TIMEOUT = {"quick": 1500, "thorough": 3000}
EXHAUSTIVE = False
MANIFEST = {
    "category": "proof",
    "text": ("Binary64, EVERY finite float (Flocq bridge): reduce_deg exact (= red360, no rounding), Angle(x), to_positive and set_ra in range; operators + - * / (plain, reflected, in-place) = red360 of the ONE rounded operation, Angle +- Angle congruent to the exact result within 2^-44 deg, overflow raises OverflowError.  Ideal (real-arithmetic) instance of the regenerated Angle model, for ALL real inputs: reduce_deg = "
             "sign(x)(|x| - 360 floor(|x|/360)) (strictly inside (-360,360), sign of x, congruent mod 360); Angle(x) / "
             "radians / ra; sexagesimal: reduce_dms (float pieces) = a transcription of its branches with result shape and the sign of any piece for all real pieces; independent value formula +-(|d|+|m|/60+|s|/3600) reduced proved for CANONICAL pieces only (whole degrees, minutes < 60, seconds < 60), tuple = list = separate arguments, incl. int pieces such as Angle(12,30,15) (canonical pieces); the operators + - * / % ** (restrictions: % for modulus > 0, ** for base > 0) "
             "incl. reflected and in-place = Angle(reduce(a op b)), division by a zero divisor raises ZeroDivisionError; "
             "to_positive in [0,360) congruent; rad, get_ra.  Binary64 instance additionally: range / sign / exactness of the "
             "reduction, sexagesimal triples and hours evaluated by the Coq kernel on an explicit boundary grid (k*360 +- 0..2 ulp, denormals, 1e15, "
             "former counterexamples) - a finite grid; dms2deg / set_ra / operator rounding for all floats unproved.  Bit-exact correspondence and a Python oracle "
             "of every clause on the implementation each run."),
    "technique": ("symbolic evaluation of the generated model over the reals (pyrun) + lemmas on floor/fmod (lra/lia); "
                  "kernel computation (vm_compute) on a finite binary64 grid with exact rational reference from "
                  "mantissa/exponent; bit-exact differential correspondence; boundary-directed search with Fraction reference"),
    "design_ref": "8/C03",
}
EXPLANATION = ("The Angle model regenerated from /repo is read (a) over the reals, where reduce_deg, the constructor "
               "forms, the operators, to_positive, rad and get_ra are characterised for ALL real inputs by closed "
               "formulas (theorems *_ideal; says nothing about rounding), and (b) in binary64, where range, sign and "
               "exact agreement with the rational reduction are checked by the Coq kernel on an explicit finite "
               "boundary grid (C03_grid_b64).  reduce_deg is additionally proved exact for EVERY finite float "
               "(C03_reduce_deg_b64, Flocq bridge), and so are Angle(x) and to_positive (C03_construct_b64, C03_to_positive_b64); dms2deg / set_ra for all floats are covered by the grid and the search oracle.")
CLAUSES = {
    "reduce_deg(x) = sign(x)*(|x| - 360*floor(|x|/360)), strictly inside (-360,360), sign of x, congruent mod 360, unique such value":
        "proved [ideal, all real x and all ints: C03_reduce_deg_ideal + C03_reduction_spec]; proved [B64, FINITE grid: k*360 +- 0..2 ulp and k*360 +- 1 as int for |k|<=40, denormals, +-1 ulp around 0, 1e15-magnitude, ints to 1e15: exact equality with the rational reduction, C03_grid_b64]; proved [B64, EVERY finite float: C03_reduce_deg_b64 - the returned float is finite and its real value is exactly red360 of the value of x, hence |.| < 360 and sign kept; Flocq-based lib/B64Verified.v, contributed by the C11 worker]",
    "Angle(x), Angle(x, radians=True), Angle(x, ra=True), 1-tuple/1-list, copy, no argument":
        "proved [ideal, all real x / ints: C03_construct_ideal]; Angle(x) for a float x: proved [B64, EVERY finite float: C03_construct_b64 - stored value = red360(x) exactly, strictly inside (-360,360), sign of x]; other forms B64: grid (25 h RA etc.) + search",
    "sexagesimal input (float pieces): reduce_dms returns (int, int, float, sign) with sign -1 iff any piece negative, and equals the branch function dms_spec of |d|,|m|,|s|":
        "proved [ideal, ALL real pieces given as floats incl. fractional/overflowing, 64 branches: C03_sexagesimal_ideal part 1].  dms_spec is a TRANSCRIPTION of the code's branches (pins the code against change; independent content: result shape and sign rule only) - not an independent specification of the value",
    "sexagesimal value = +-(|d|+|m|/60+|s|/3600) reduced, negative iff any piece negative (incl. (0,-m,s))":
        "proved [ideal, end to end through the constructor, tuple, list and hours forms, against the independent formula red360(+-(|d|+|m|/60+|s|/3600))] for CANONICAL pieces only (whole degrees, whole minutes < 60, seconds < 60): int pieces (Angle(12,30,15), Angle(0,-30,0)), ints with float seconds, floats holding whole degrees/minutes (C03_sexagesimal_canonical_ideal, C03_sexagesimal_ideal part 3); mixed int/float degrees-minutes combinations other than these three: not in a theorem (correspondence + searched); for fractional/overflowing pieces the arithmetic identity on the branch function is unproved (searched; B64 grid of 30 triples incl. (359,59,59.99999999999999), overflow and 1e15 pieces within 2^-36 degree)",
    "tuple/list forms equal separate arguments; 2 pieces = seconds 0; hours = times 15 reduced again":
        "proved [ideal: float pieces, any values (C03_sexagesimal_ideal parts 4-5: conditional on the value r that dms2deg returns, which parts 1-3 and C03_sexagesimal_canonical_ideal supply); int pieces and int+float seconds: canonical pieces (C03_sexagesimal_canonical_ideal)]; B64 grid (float pieces only): bit-identical",
    "binary operators (+ - * / % **), reflected and in-place: result = new Angle(default tolerance) holding red360(a op b)":
        "proved [ideal, all real a, b / float y / int z: C03_operators_ideal (43 equations) + C03_operators_more_ideal (% by a positive int)]; proved [B64, EVERY finite float, + - * / incl. reflected and in-place: C03_addsub_b64, C03_operators_b64 - red360(RN(a op b)), overflow -> OverflowError].  NOT in a theorem (searched only): % with modulus < 0, ** with base <= 0 or int exponent, reflected ** by an int",
    "operands unchanged":
        "model: operators are pure functions of immutable values (translator alias analysis, trusted); searched on the implementation with before/after snapshots of both operands for every operator x operand-type x plain/in-place, and over CALL SEQUENCES (next clause)",
    "views = value on one object across call sequences (no stale state): after every mutator - set() in all input forms, set_radians, set_ra, to_positive, += -= *= /= %= **=, set_tolerance - every view (rad, float, int, call, dms_tuple, ra_tuple, get_ra, dms_str, ra_str, str, repr, abs, neg, round, comparisons, tolerance) equals bit for bit that of a freshly constructed Angle of the same value; the object left behind by an in-place operator is unchanged":
        "searched only (keys sequence-stale-view, sequence-inplace-changed-operand): every view x every mutator form as view -> mutator -> all views, plus 300 (quick) / 2500 random sequences of 2-5 steps per run.  The model has no object identity or hidden attributes (value semantics), so a memoised attribute is invisible to the theorems beyond breaking the translation (stage G/P)",
    "% follows the documented reading sign(a)*(|a| mod b); number % Angle converts the number to an Angle first (400 % Angle(70) = 40)":
        "proved [ideal, b > 0 (Angle, float, positive int)]; b < 0: searched only",
    "division by an Angle equal to 0 within tolerance / a number equal to 0 raises ZeroDivisionError (also reflected, in-place, %)":
        "proved [ideal: C03_division_by_zero_ideal (/ plain, in-place, reflected; % by 0.0) + C03_operators_more_ideal (%= 0.0, % int 0, % Angle holding exactly 0, number % Angle holding exactly 0)]; searched",
    "** with negative base and fractional exponent is complex -> TypeError (not a violation)": "searched (accepted outcome)",
    "unary -, abs, round(n); comparisons = comparisons of the values, == within the left operand's tolerance": "proved [ideal: C03_unary_compare_ideal (Angle-Angle all six; < > == vs float) + C03_operators_more_ideal (<= >= != vs float)]; comparisons with an int and reflected comparisons: searched",
    "to_positive in [0,360), congruent": "proved [ideal, all stored values in (-360,360): C03_views_ideal]; proved [B64, EVERY finite stored value in (-360,360): C03_to_positive_b64 - result in [0,360), = RN(360+d) (one rounding, error <= 2^-45 deg) or 0.0 when that rounds to 360.0 (only for -2^-45 <= d < 0, e.g. -1e-20)]; grid + searched",
    "rad = deg*pi/180, get_ra = deg/15, float(a) = a()": "proved [ideal: C03_views_ideal]; searched",
    "binary64 rounding of the arithmetic (1e-9 degree scaled with magnitude) for all floats": "reduce_deg itself: proved exact for every finite float (C03_reduce_deg_b64); to_positive, Angle(x) and set_ra(x): proved for every finite float (C03_to_positive_b64, C03_construct_b64, C03_set_ra_b64: set_ra stores red360(RN(red360(x)*15)), one rounding <= 2^-41 deg); operators + - * / (plain, reflected, in-place; Angle, float and int |z| <= 2^53 operands): proved for EVERY finite float - the result is a new Angle holding exactly red360(RN(a op b)), one IEEE rounding then the exact reduction, strictly inside (-360,360), sign of the rounded result; Angle +- Angle never overflows and is congruent mod 360 to the exact real result within 2^-44 deg < 1e-9 deg (C03_addsub_b64); with scalars the theorem carries the explicit hypothesis that the IEEE operation does not overflow, and when it does overflow the operator raises OverflowError (never stores inf/nan) (C03_operators_b64); zero divisors C03_division_by_zero_b64.  Still grid + searched only in binary64: dms2deg (sexagesimal), %, **, round, comparisons; (the 1e-9*max(1,|v|) congruence to the exact real result is part of C03_operators_b64 for all of + - * /, from |RN v - v| <= 2^-53|v| + 2^-1075)",
}


def proof_files(tier):
    return ["C03_defs.v", "C03_tac.v", "C03_reduce.v", "C03_construct.v", "C03_forms.v", "C03_dmsi.v", "C03_dms.v", "C03_dms_int.v", "C03_ops.v",
            "C03_grid.v", "C03_reduce_b64.v", "C03_b64.v", "C03_ra_b64.v",
            "C03_tacb.v", "C03_opsb_a.v", "C03_ops_b64.v", "C03.v"]


# ----------------------------------------------------------------------------------------------
# exact reference
PI = Fr(314159265358979323846264338327950288419716939937510, 10**50)
TOL9 = Fr(1, 10**9)


def red_exact(q):
    a = abs(q)
    r = a - 360 * (a // 360)
    return r if q >= 0 else -r


def tol_for(q):
    return TOL9 * max(1, abs(q))


def congruent(v, q, tol):
    d = Fr(v) - q
    k = round(d / 360)
    return abs(d - 360 * k) <= tol


def ulps(x, n):
    for _ in range(abs(n)):
        x = math.nextafter(x, math.inf if n > 0 else -math.inf)
    return x


def gen_numbers(rng, n):
    out = []
    for k in list(range(-3, 4)) + [rng.randint(-40, 40) for _ in range(6)] + [rng.randint(-10**12, 10**12) for _ in range(4)]:
        for u in (-2, -1, 0, 1, 2):
            out.append(ulps(360.0 * k, u))
        out.append(360 * k)
    out += [0, 0.0, -0.0, 5e-324, -5e-324, 1e-320, -1e-320, 2.2250738585072014e-308, -2.2250738585072014e-308,
            1e-300, -1e-300, 1e-20, -1e-20, 1e15, -1e15, 10**15, -10**15, 999999999999999.9, -999999999999999.9,
            359, -359, 361, -361, 360, -360, 359.99999999999994, -359.99999999999994, 360.00000000000006,
            720, -720, 1, -1, 0.5, -0.5, 2.0**52, -2.0**52, 2.0**49 + 0.25, 4503599627370495.5 / 8]
    for _ in range(n):
        r = rng.random()
        if r < 0.35:
            out.append(rng.choice([-1, 1]) * 10 ** rng.uniform(-3, 15))
        elif r < 0.55:
            out.append(rng.uniform(-1000, 1000))
        elif r < 0.75:
            out.append(rng.randint(-10**15, 10**15) if rng.random() < 0.5 else rng.randint(-2000, 2000))
        elif r < 0.9:
            out.append(ulps(360.0 * rng.randint(-10**6, 10**6), rng.randint(-3, 3)))
        else:
            out.append(360 * rng.randint(-10**12, 10**12) + rng.choice([-1, 0, 1]))
    return [x for x in out if abs(x) <= 1e15]


def gen_angle_values(rng, n):
    """values an Angle can hold"""
    out = [0.0, -0.0, 5e-324, -5e-324, 1e-20, -1e-20, 1e-11, -1e-11, 9.9e-11, 1.1e-10, -1.1e-10, 1.0, -1.0, 15.0, 90.0, -90.0,
           180.0, -180.0, 359.99999999999994, -359.99999999999994, 359.5, -359.5, 0.1, 72.0, 333.0, 12.5, 4.0]
    for _ in range(n):
        r = rng.random()
        if r < 0.5: out.append(rng.uniform(-360, 360))
        elif r < 0.7: out.append(float(rng.randint(-359, 359)))
        elif r < 0.85: out.append(rng.choice([-1, 1]) * 10 ** rng.uniform(-12, 2.5))
        else: out.append(rng.randint(-359, 359) + rng.choice([0.5, 0.25, 0.125]))
    return [x for x in out if abs(x) < 360]


def gen_op_numbers(rng, n):
    out = [0, 0.0, 1, -1, 2, 3, -3, 15, 15.0, 360, -360, 720.0, 0.5, -0.5, 1e-11, 1e-9, -1e-9, 1e-300, 359, 361.5, 1e6, -1e6, 10**9, 1e15,
           -10**15, 7, 2.5, -2.5, 80.0, 350, 24.0]
    for _ in range(n):
        r = rng.random()
        if r < 0.4: out.append(rng.randint(-1000, 1000))
        elif r < 0.8: out.append(rng.uniform(-1000, 1000))
        else: out.append(rng.choice([-1, 1]) * 10 ** rng.uniform(-6, 12))
    return out


def gen_triples(rng, n):
    out = [(359, 59, 59.99999999999999), (-359, 59, 59.99999999999999), (0, -30, 0), (0, 30, -5), (0, 0, -1e-9), (-0.0, 5, 0),
           (23, 26, 48.999983999997596), (-743.0, 26.0, 49.6), (10, 60, 60), (10, 59.5, 59.5), (10.5, 30.5, 30.5),
           (359, 60, 0), (359, 59, 60), (359.999, 0.06, 0), (720, 0, 0), (-720, 0, 0), (1, 6000, 360000), (0, 0, 1295999.9999999998),
           (0, 21600, 0), (0, 21599.999999999996, 0), (12, -13, -14), (1e9, 1e9, 1e9), (1e15, 0, 0), (0, 1e15, 0), (0, 0, 1e15),
           (25, 0, 0), (23, 59, 59.99999999999999), (24, 0, 0), (9, 14, 55.8), (2, 44, 11.98581), (0, 0, 0), (0, 0.0, -0.0)]
    for _ in range(n):
        r = rng.random()
        def piece(big):
            q = rng.random()
            if q < 0.4: return rng.randint(0, big)
            if q < 0.7: return rng.uniform(0, big)
            if q < 0.8: return float(rng.randint(0, big))
            if q < 0.9: return rng.choice([0, 59, 60, 59.99999999999999, 60.00000000000001, 0.5, 1e-9])
            return rng.randint(0, big) + rng.choice([0.5, 0.25, 0.75])
        d = piece(rng.choice([360, 360, 1000, 10**6]))
        m = piece(rng.choice([60, 60, 120, 10**5]))
        s = piece(rng.choice([60, 60, 120, 10**6]))
        q = rng.random()
        if q < 0.15: d = -d
        elif q < 0.3: m = -m
        elif q < 0.45: s = -s
        elif q < 0.5: d, m, s = -d, -m, -s
        elif q < 0.55: d, m = 0, -m
        out.append((d, m, s))
    return out


def dms_exact(d, m, s, extra=()):
    neg = any(x < 0 for x in (d, m, s) + tuple(extra))
    q = abs(Fr(d)) + abs(Fr(m)) / 60 + abs(Fr(s)) / 3600
    return -q if neg else q


# ----------------------------------------------------------------------------------------------
# correspondence cases

def cases(rng, tier):
    n = 60 if tier == "quick" else 600
    cs = []
    nums = gen_numbers(rng, n)
    rng.shuffle(nums)
    for x in nums[:(150 if tier == "quick" else 1500)]:
        k = rng.random()
        if k < 0.3: cs.append("Angle.reduce_deg(%r)" % (x,))
        elif k < 0.6: cs.append("Angle(%r)" % (x,))
        elif k < 0.7: cs.append("Angle(%r, radians=True)" % (x,))
        elif k < 0.8: cs.append("Angle(%r, ra=True)" % (x,))
        elif k < 0.9: cs.append("Angle(%r).to_positive()" % (x,))
        elif k < 0.95: cs.append("Angle(%r).rad()" % (x,))
        else: cs.append("Angle(%r).get_ra()" % (x,))
    tr = gen_triples(rng, n)
    for (d, m, s) in tr[:(120 if tier == "quick" else 900)]:
        k = rng.random()
        if k < 0.3: cs.append("Angle(%r, %r, %r)" % (d, m, s))
        elif k < 0.45: cs.append("Angle((%r, %r, %r))" % (d, m, s))
        elif k < 0.6: cs.append("Angle([%r, %r, %r])" % (d, m, s))
        elif k < 0.7: cs.append("Angle(%r, %r)" % (d, m))
        elif k < 0.8: cs.append("Angle.dms2deg(%r, %r, %r)" % (d, m, s))
        elif k < 0.9: cs.append("Angle(%r, %r, %r, ra=True)" % (d, m, s))
        else: cs.append("Angle.reduce_dms(%r, %r, %r)" % (d, m, s))
    av = gen_angle_values(rng, n)
    nv = gen_op_numbers(rng, n)
    ops = ["+", "-", "*", "/", "%", "**"]
    imeth = {"+": "__iadd__", "-": "__isub__", "*": "__imul__", "/": "__itruediv__", "%": "__imod__", "**": "__ipow__"}
    for _ in range(260 if tier == "quick" else 2500):
        a, b = rng.choice(av), rng.choice(av)
        x = rng.choice(nv)
        op = rng.choice(ops)
        if op == "**":
            a = rng.choice([a, abs(a), 12.5, 37.0, 5.0]); b = rng.choice([4.0, 3.0, 2.0, 0.5, b / 100]); x = rng.choice([2, 3, 0.5, 24.0, -2, x % 7 if isinstance(x, int) else 1.5])
        k = rng.random()
        if k < 0.25: cs.append("Angle(%r) %s Angle(%r)" % (a, op, b))
        elif k < 0.5: cs.append("Angle(%r) %s %r" % (a, op, x))
        elif k < 0.75: cs.append("(%r) %s Angle(%r)" % (x, op, a))
        elif k < 0.88: cs.append("Angle(%r).%s(%r)" % (a, imeth[op], x))
        else: cs.append("Angle(%r).%s(Angle(%r))" % (a, imeth[op], b))
    for _ in range(60 if tier == "quick" else 600):
        a, b = rng.choice(av), rng.choice(av)
        x = rng.choice(nv)
        c = rng.choice(["<", "<=", ">", ">=", "==", "!="])
        k = rng.random()
        if k < 0.4: cs.append("Angle(%r) %s Angle(%r)" % (a, c, rng.choice([b, a, a + 5e-11])))
        elif k < 0.7: cs.append("Angle(%r) %s %r" % (a, c, rng.choice([x, a])))
        else: cs.append("(%r) %s Angle(%r)" % (rng.choice([x, a]), c, a))
    for a in av[:40]:
        k = rng.random()
        if k < 0.3: cs.append("-Angle(%r)" % a)
        elif k < 0.6: cs.append("abs(Angle(%r))" % a)
        elif k < 0.8: cs.append("round(Angle(%r), %d)" % (a, rng.randint(0, 6)))
        elif k < 0.9: cs.append("float(Angle(%r))" % a)
        else: cs.append("int(Angle(%r))" % a)
    cs += ["Angle()", "Angle(Angle(-13, 30, 0.0))", "Angle(359, 59, 59.99999999999999)", "Angle(25.0, ra=True)",
           "Angle(-1e-20).to_positive()", "Angle(-5e-324).to_positive()", "Angle(1, 2, 3, -1)", "Angle((1, 2, 3, -4))",
           "Angle([3.5])", "Angle((400,))", "Angle('a')", "Angle([])", "Angle(None)", "Angle(10) + 'a'", "Angle(10) / 0",
           "Angle(10) / Angle(1e-11)", "5 / Angle(0.0)", "Angle(10).__itruediv__(0.0)", "Angle(10) % 0", "400 % Angle(70)",
           "Angle(-8) ** 0.5", "Angle(0.0) ** -1", "Angle(-10) % Angle(-3)", "Angle(330.0).__imod__(Angle(45.0))",
           "Angle(0, -30, 0)", "Angle(1e15)", "Angle(-10**15)", "Angle(pi, radians=True)"]
    return cs


# ----------------------------------------------------------------------------------------------
# search oracle

REPLAY = "PYTHONPATH=/repo /venv/bin/python -c \"from pymeeus.Angle import Angle; from math import pi; print(repr(%s))\""


class Oracle:
    def __init__(self, Angle):
        self.A = Angle
        self.findings = []
        self.n = 0
        self.nontriv = 0
        self.env = {"Angle": Angle, "pi": math.pi}

    def fail(self, key, what, expr):
        if sum(1 for f in self.findings if f["key"] == key) < 3:
            self.findings.append({"key": key, "what": what, "input": expr, "replay": REPLAY % expr})

    def ev(self, expr):
        self.n += 1
        try:
            return eval(expr, dict(self.env)), None
        except Exception as e:       # noqa
            return None, e

    def value_of(self, key, expr):
        """evaluate an expression that must give an Angle; return its float value or None"""
        r, e = self.ev(expr)
        if e is not None:
            self.fail(key + "-raises", "%s raises %s: %s" % (expr, type(e).__name__, e), expr)
            return None
        if not isinstance(r, self.A):
            self.fail(key + "-type", "%s returns %r, not an Angle" % (expr, r), expr)
            return None
        v = r()
        if not isinstance(v, float):
            self.fail(key + "-type", "%s holds %r (%s), not a float" % (expr, v, type(v).__name__), expr)
            return None
        return v

    def check_value(self, key, expr, v, ref, sign_of=None, tol=None):
        """range, sign, congruence of float v against exact ref"""
        self.nontriv += 1
        if not (v == v and -360.0 < v < 360.0):
            self.fail(key + "-range", "%s = %r is not strictly inside (-360, 360)" % (expr, v), expr)
            return False
        if sign_of is not None:
            if (sign_of > 0 and v < 0) or (sign_of < 0 and v > 0) or (sign_of == 0 and v != 0):
                self.fail(key + "-sign", "%s = %r does not have the sign of the input" % (expr, v), expr)
                return False
        t = tol_for(ref) if tol is None else tol
        if not congruent(v, ref, t):
            self.fail(key + "-congruence", "%s = %r is not congruent mod 360 to the exact %s (tolerance %.3g)"
                      % (expr, v, float(ref), float(t)), expr)
            return False
        return True

    # -- construction
    def construct_number(self, x):
        q = Fr(x)
        sg = (q > 0) - (q < 0)
        e = "Angle(%r)" % (x,)
        v = self.value_of("construct-deg", e)
        if v is not None:
            self.check_value("construct-deg", e, v, q, sg)
            # the stored value is the exact reduction when it is representable
            for form in ("Angle([%r])", "Angle((%r,))", "Angle(Angle(%r))", "Angle(Angle.reduce_deg(%r))"):
                e2 = form % (x,)
                v2 = self.value_of("construct-forms", e2)
                if v2 is not None and v2.hex() != v.hex():
                    self.fail("construct-forms", "%s = %r differs from %s = %r" % (e2, v2, e, v), e2)
            r, ex = self.ev("Angle.reduce_deg(%r)" % (x,))
            if ex is not None or not isinstance(r, float) or r.hex() != v.hex():
                self.fail("reduce-deg", "Angle.reduce_deg(%r) = %r, Angle(%r)() = %r" % (x, r if ex is None else ex, x, v),
                          "Angle.reduce_deg(%r)" % (x,))
        e = "Angle(%r, radians=True)" % (x,)
        v = self.value_of("construct-rad", e)
        if v is not None:
            self.check_value("construct-rad", e, v, q * 180 / PI, sg)
        e = "Angle(%r, ra=True)" % (x,)
        v = self.value_of("construct-ra", e)
        if v is not None:
            self.check_value("construct-ra", e, v, q * 15, sg)

    def construct_triple(self, d, m, s):
        q = dms_exact(d, m, s)
        neg = q < 0 or any(x < 0 for x in (d, m, s))
        sg = 0 if q == 0 else (-1 if neg else 1)
        e = "Angle(%r, %r, %r)" % (d, m, s)
        v = self.value_of("construct-dms", e)
        if v is None: return
        self.check_value("construct-dms", e, v, q, sg)
        for form in ("Angle((%r, %r, %r))", "Angle([%r, %r, %r])", "Angle(Angle.dms2deg(%r, %r, %r))"):
            e2 = form % (d, m, s)
            v2 = self.value_of("construct-dms-forms", e2)
            if v2 is not None and v2.hex() != v.hex():
                self.fail("construct-dms-forms", "%s = %r differs from %s = %r" % (e2, v2, e, v), e2)
        # two pieces
        q2 = dms_exact(d, m, 0)
        sg2 = 0 if q2 == 0 else (-1 if (d < 0 or m < 0) else 1)
        for form in ("Angle(%r, %r)", "Angle((%r, %r))", "Angle([%r, %r])"):
            e2 = form % (d, m)
            v2 = self.value_of("construct-dm", e2)
            if v2 is not None:
                self.check_value("construct-dm", e2, v2, q2, sg2)
        # fourth argument carries only a sign
        for sgn in (1, -1, -0.5):
            qq = dms_exact(d, m, s, (sgn,))
            for form in ("Angle(%r, %r, %r, %r)", "Angle((%r, %r, %r, %r))", "Angle([%r, %r, %r, %r])"):
                e2 = form % (d, m, s, sgn)
                v2 = self.value_of("construct-dms4", e2)
                if v2 is not None:
                    self.check_value("construct-dms4", e2, v2, qq, 0 if qq == 0 else (1 if qq > 0 else -1))
        # right ascension in h, m, s
        e2 = "Angle(%r, %r, %r, ra=True)" % (d, m, s)
        v2 = self.value_of("construct-ra-hms", e2)
        if v2 is not None:
            self.check_value("construct-ra-hms", e2, v2, q * 15, sg)

    # -- views
    def views(self, x):
        e = "Angle(%r)" % (x,)
        a, ex = self.ev(e)
        if ex is not None: return
        v = a()
        self.nontriv += 1
        # positive form
        e2 = "Angle(%r).to_positive()" % (x,)
        b, ex = self.ev(e2)
        if ex is not None or not isinstance(b, self.A):
            self.fail("to-positive-raises", "%s gives %r" % (e2, ex if ex is not None else b), e2)
        else:
            p = b()
            if not (isinstance(p, float) and 0.0 <= p < 360.0):
                self.fail("to-positive-range", "%s = %r is not in [0, 360)" % (e2, p), e2)
            elif not congruent(p, Fr(v), TOL9):
                self.fail("to-positive-congruence", "%s = %r is not congruent to %r" % (e2, p, v), e2)
            elif v >= 0 and p.hex() != (v + 0.0).hex() and not (v == 0 and p == 0):
                self.fail("to-positive-nonneg-changed", "%s = %r changed the non-negative value %r" % (e2, p, v), e2)
            a2 = self.A(x); r2 = a2.to_positive()
            if r2 is not a2 or a2() != p:
                self.fail("to-positive-self", "Angle(%r).to_positive() does not return the (updated) object itself" % (x,), e2)
            p3 = self.A(p).to_positive()()
            if p3 != p:
                self.fail("to-positive-idempotent", "to_positive applied twice moves %r to %r" % (p, p3), e2)
        # radians / hours / float / call
        r, ex = self.ev("Angle(%r).rad()" % (x,))
        if ex is not None or not isinstance(r, float) or abs(Fr(r) - Fr(v) * PI / 180) > Fr(1, 10**12) * max(Fr(1, 10**300), abs(Fr(v))):
            self.fail("rad", "Angle(%r).rad() = %r, value %r * pi/180 = %r" % (x, r if ex is None else ex, v, v * math.pi / 180),
                      "Angle(%r).rad()" % (x,))
        r, ex = self.ev("Angle(%r).get_ra()" % (x,))
        if ex is not None or not isinstance(r, float) or abs(Fr(r) * 15 - Fr(v)) > Fr(1, 10**12) * max(Fr(1, 10**300), abs(Fr(v))):
            self.fail("get-ra", "Angle(%r).get_ra() = %r, value %r / 15 = %r" % (x, r if ex is None else ex, v, v / 15),
                      "Angle(%r).get_ra()" % (x,))
        r, ex = self.ev("float(Angle(%r))" % (x,))
        if ex is not None or not isinstance(r, float) or r.hex() != v.hex():
            self.fail("float-view", "float(Angle(%r)) = %r, value %r" % (x, r if ex is None else ex, v), "float(Angle(%r))" % (x,))
        r, ex = self.ev("int(Angle(%r))" % (x,))
        if ex is not None or r != int(v):
            self.fail("int-view", "int(Angle(%r)) = %r, value %r" % (x, r if ex is None else ex, v), "int(Angle(%r))" % (x,))

    # -- operators
    def opref(self, op, a, b):
        """exact (Fraction) reference of `a op b` on the values; None = outside the domain; 'ZDE' = must raise"""
        if op == "+": return Fr(a) + Fr(b)
        if op == "-": return Fr(a) - Fr(b)
        if op == "*": return Fr(a) * Fr(b)
        if op == "/":
            if b == 0: return "ZDE"
            return Fr(a) / Fr(b)
        if op == "%":
            if b == 0: return "ZDE"
            # documented reading: negative left values are treated as if they were positive
            m = abs(Fr(a)) - Fr(b) * math.floor(abs(Fr(a)) / Fr(b))
            return m if a >= 0 else -m
        if op == "**":
            try:
                r = float(a) ** float(b) if not (isinstance(a, int) and isinstance(b, int) and b >= 0) else a ** b
            except ZeroDivisionError:
                return "ZDE"
            except OverflowError:
                return None
            if isinstance(r, complex): return "TypeError"
            if isinstance(r, float) and not math.isfinite(r): return None
            return Fr(r)

    def binop(self, op, la, lb, kind):
        """la, lb: ('A', value) or ('N', number).  kind: 'plain' or 'inplace'"""
        A = self.A
        mk = lambda t: A(t[1]) if t[0] == "A" else t[1]
        src = lambda t: ("Angle(%r)" % (t[1],)) if t[0] == "A" else "(%r)" % (t[1],)
        x, y = mk(la), mk(lb)
        val = lambda o: o() if isinstance(o, A) else o
        xv, yv = val(x), val(y)
        snap = lambda o: (o._deg, o._tol, float(o._deg).hex()) if isinstance(o, A) else repr(o)
        sx, sy = snap(x), snap(y)
        imeth = {"+": "__iadd__", "-": "__isub__", "*": "__imul__", "/": "__itruediv__", "%": "__imod__", "**": "__ipow__"}
        if kind == "inplace":
            expr = "%s.%s(%s)" % (src(la), imeth[op], src(lb))
        else:
            expr = "%s %s %s" % (src(la), op, src(lb))
        key = "op-%s-%s%s%s" % ({"+": "add", "-": "sub", "*": "mul", "/": "div", "%": "mod", "**": "pow"}[op],
                                 "i" if kind == "inplace" else "", la[0], lb[0])
        # reference operands: a number on the left of % is converted to an Angle first (documented __rmod__)
        rx, ry = xv, yv
        if op == "%" and la[0] == "N":
            rx = A(xv)()
        # zero divisors: an Angle divisor counts as zero within its tolerance
        if op == "/" and lb[0] == "A" and abs(yv) < y._tol:
            ref = "ZDE"
        else:
            ref = self.opref(op, rx, ry)
        self.n += 1
        try:
            if kind == "inplace":
                z = x
                if op == "+": z += y
                elif op == "-": z -= y
                elif op == "*": z *= y
                elif op == "/": z /= y
                elif op == "%": z %= y
                else: z **= y
                res = z
            else:
                res = {"+": lambda: x + y, "-": lambda: x - y, "*": lambda: x * y, "/": lambda: x / y,
                       "%": lambda: x % y, "**": lambda: x ** y}[op]()
            exc = None
        except Exception as e:     # noqa
            res, exc = None, e
        if snap(x) != sx or snap(y) != sy:
            self.fail(key + "-operand-changed", "%s changed an operand: %r -> %r, %r -> %r" % (expr, sx, snap(x), sy, snap(y)), expr)
            return
        if ref == "ZDE":
            self.nontriv += 1
            if not isinstance(exc, ZeroDivisionError):
                self.fail(key + "-zero-division", "%s gives %r instead of raising ZeroDivisionError"
                          % (expr, exc if exc is not None else res()), expr)
            return
        if ref == "TypeError":
            if exc is not None and not isinstance(exc, TypeError):
                self.fail(key + "-complex", "%s (complex result) raises %s" % (expr, type(exc).__name__), expr)
            return
        if ref is None or abs(ref) > Fr(10) ** 300:
            return                      # result not a finite float: outside the property's domain
        if exc is not None:
            self.fail(key + "-raises", "%s raises %s: %s" % (expr, type(exc).__name__, exc), expr)
            return
        if not isinstance(res, A) or res is x or res is y:
            self.fail(key + "-type", "%s returns %r (must be a new Angle)" % (expr, res), expr)
            return
        v = res()
        if not isinstance(v, float):
            self.fail(key + "-type", "%s holds %r" % (expr, v), expr)
            return
        tol = tol_for(ref)
        if op == "**":
            tol = max(tol, abs(ref) * Fr(1, 10**9))
        self.check_value(key, expr, v, ref, None, tol)

    def unary(self, a):
        A = self.A
        x = A(a); v = x()
        for key, expr, ref in (("neg", "-Angle(%r)" % a, -Fr(v)), ("abs", "abs(Angle(%r))" % a, abs(Fr(v))),
                               ("round0", "round(Angle(%r))" % a, Fr(round(v, 0))),
                               ("round2", "round(Angle(%r), 2)" % a, Fr(round(v, 2))),
                               ("round7", "round(Angle(%r), 7)" % a, Fr(round(v, 7)))):
            r = self.value_of("unary-" + key, expr)
            if r is not None:
                self.check_value("unary-" + key, expr, r, ref, None, Fr(1, 10**12))
                if key == "abs" and r < 0:
                    self.fail("unary-abs-sign", "%s = %r is negative" % (expr, r), expr)
                if key == "neg" and r != -v:
                    self.fail("unary-neg-value", "%s = %r, expected %r" % (expr, r, -v), expr)

    def compare(self, a, b, bnum):
        """a: Angle value; b: Angle value; bnum: a number"""
        A = self.A
        for (rs, rv, rt) in (("Angle(%r)" % b, A(b)(), "A"), ("(%r)" % (bnum,), bnum, "N")):
            av = A(a)()
            want = {"<": av < rv, ">": av > rv, "<=": not (av > rv), ">=": not (av < rv),
                    "==": abs(av - float(rv)) < 1e-10, "!=": not (abs(av - float(rv)) < 1e-10)}
            for c, w in want.items():
                for expr, ww in (("Angle(%r) %s %s" % (a, c, rs), w),):
                    r, ex = self.ev(expr)
                    self.nontriv += 1
                    if ex is not None or r is not ww:
                        self.fail("compare-%s-A%s" % ({"<": "lt", ">": "gt", "<=": "le", ">=": "ge", "==": "eq", "!=": "ne"}[c], rt),
                                  "%s = %r, the values give %r" % (expr, r if ex is None else ex, ww), expr)
            if rt == "N":
                # reflected: number on the left
                mirror = {"<": av > rv, ">": av < rv, "<=": not (av < rv), ">=": not (av > rv),
                          "==": abs(av - float(rv)) < 1e-10, "!=": not (abs(av - float(rv)) < 1e-10)}
                for c, w in mirror.items():
                    expr = "%s %s Angle(%r)" % (rs, c, a)
                    r, ex = self.ev(expr)
                    if ex is not None or r is not w:
                        self.fail("compare-reflected", "%s = %r, the values give %r" % (expr, r if ex is None else ex, w), expr)


# ---- call sequences on ONE object: every view must always equal that of a fresh Angle of the same value
SEQ_VIEWS = ["a.rad()", "float(a)", "int(a)", "a()", "a.dms_tuple()", "a.ra_tuple()", "a.get_ra()", "a.dms_str()",
             "a.dms_str(False, 3)", "a.ra_str()", "a.ra_str(False, 2)", "str(a)", "repr(a)", "abs(a)()", "(-a)()",
             "round(a, 3)()", "a == 12.5", "a != Angle(12.5)", "a < 100", "a <= Angle(-3.0)", "a > -7.25", "a >= Angle(200.0)",
             "a.get_tolerance()", "(a + 0.0)()", "(a * 1)()"]


def seq_mutators(rng):
    """source lines acting on the variable `a` (a fresh choice of arguments per call)"""
    x = rng.choice([rng.uniform(-1000, 1000), float(rng.randint(-720, 720)), rng.randint(-720, 720), -87.32, 359.99999999999994,
                    -1e-20, 0.0, 400.5, -360.0])
    d, m, sec = rng.randint(0, 400), rng.randint(0, 70), rng.choice([rng.uniform(0, 70), rng.randint(0, 59), 59.99999999999999])
    sg = rng.choice([1, -1])
    y = rng.choice([rng.uniform(-50, 50), rng.randint(1, 9), 2.5, -3, 0.5, 360, 1e-3])
    yp = abs(y) if y != 0 else 1.5
    return ["a.set(%r)" % (x,), "a.set(%r)" % (int(x),), "a.set(%r, %r, %r)" % (sg * d, m, sec), "a.set((%r, %r, %r))" % (d, sg * m, sec),
            "a.set([%r, %r, %r])" % (d, m, sg * sec), "a.set((%r, %r, %r, %r))" % (d, m, sec, sg), "a.set(%r, %r, %r, %r)" % (d, m, sec, sg),
            "a.set(%r, %r)" % (sg * d, m), "a.set([%r])" % (x,), "a.set(Angle(%r))" % (x,), "a.set()",
            "a.set(%r, radians=True)" % (x / 50.0,), "a.set(%r, ra=True)" % (x / 15.0,), "a.set(%r, %r, %r, ra=True)" % (d % 24, m % 60, sec),
            "a.set_radians(%r)" % (x / 50.0,), "a.set_ra(%r)" % (x / 15.0,), "a.set_ra(%r, %r, %r)" % (sg * (d % 24), m % 60, sec),
            "a.to_positive()", "a += %r" % (y,), "a -= %r" % (y,), "a *= %r" % (y,), "a /= %r" % (yp,), "a %%= %r" % (yp,),
            "a **= %r" % (rng.choice([2, 0.5, 1.5, 3]),), "a += Angle(%r)" % (x,), "a -= Angle(%r)" % (x,), "a *= Angle(%r)" % (y,),
            "a.set_tolerance(%r)" % (rng.choice([1e-6, 1e-12, 0.5]),)]


def _norm(v, A):
    if isinstance(v, A): return ("Angle", _norm(v(), A), _norm(v.get_tolerance(), A))
    if isinstance(v, bool): return v
    if isinstance(v, float): return v.hex() if v == v else "nan"
    if isinstance(v, (tuple, list)): return tuple(_norm(x, A) for x in v)
    return v


def _views(obj, A):
    out = {}
    for e in SEQ_VIEWS:
        try:
            out[e] = _norm(eval(e, {"a": obj, "Angle": A}), A)
        except Exception as ex:      # noqa
            out[e] = ("EXC", type(ex).__name__)
    return out


def run_sequence(O, start, steps):
    """steps: source lines (views are expressions, mutators statements).  After EVERY mutator all views of the
    object are compared bit for bit with those of a freshly constructed Angle holding the same value and tolerance."""
    A = O.A
    env = {"Angle": A, "a": A(start)}
    done = ["a = Angle(%r)" % (start,)]
    for st in steps:
        is_view = st in SEQ_VIEWS
        old = env["a"]
        snap = None if is_view else _views(old, A)
        O.n += 1
        try:
            if is_view: eval(st, env)
            else: exec(st, env)
        except (ZeroDivisionError, OverflowError, TypeError, ValueError):
            return                      # outside the domain of that step; covered by the operator clauses
        done.append(st)
        if is_view: continue
        a = env["a"]
        O.nontriv += 1
        seq = "; ".join(done)
        if not isinstance(a, A):
            O.fail("sequence-type", "after `%s` the name a holds %r" % (seq, a), seq); return
        if a is not old and _views(old, A) != snap:          # an in-place operator must leave the old object alone
            now = _views(old, A)
            bad = [k for k in snap if snap[k] != now[k]][0]
            O.findings.append({"key": "sequence-inplace-changed-operand", "what": "after `%s` the ORIGINAL object changed: %s was %r, now %r"
                               % (seq, bad, snap[bad], now[bad]), "input": seq,
                               "replay": "PYTHONPATH=/repo /venv/bin/python -c \"from pymeeus.Angle import Angle; %s; print('see sequence')\"" % seq})
            return
        v = a()
        if not (isinstance(v, float) and -360.0 < v < 360.0):
            return                      # range violations are reported by the construction / operator clauses
        fresh = A(v)
        if fresh().hex() != v.hex():
            return
        fresh.set_tolerance(a.get_tolerance())
        got, want = _views(a, A), _views(fresh, A)
        for k in SEQ_VIEWS:
            if got[k] != want[k]:
                if sum(1 for f in O.findings if f["key"] == "sequence-stale-view") < 3:
                    O.findings.append({
                        "key": "sequence-stale-view",
                        "what": "after `%s` the view %s gives %r, a fresh Angle(%r) gives %r" % (seq, k, got[k], v, want[k]),
                        "input": seq,
                        "replay": "PYTHONPATH=/repo /venv/bin/python -c \"from pymeeus.Angle import Angle; %s; print(repr(%s), repr(%s))\""
                                  % (seq, k, re.sub(r"\ba\b", "Angle(a())", k))})
                return


def search_sequences(O, rng, big):
    starts = [-87.32, 12.5, 359.99999999999994, -1e-20, 0.0, -200.25]
    # deterministic: view -> mutator -> all views, for every view x every mutator form
    muts = seq_mutators(rng)
    det = [("a.rad()", "a.to_positive()"), ("a.dms_str()", "a.set((10, 20, 30.5))"), ("a.rad()", "a += 5"),
           ("a.ra_str()", "a.set_ra(3.5)"), ("float(a)", "a *= 2"), ("a.get_ra()", "a.set(1.0, radians=True)")]
    for (v, m) in det:
        for st in starts[:3]:
            run_sequence(O, st, [v, m])
    for v in SEQ_VIEWS:
        for m in muts:
            run_sequence(O, rng.choice(starts), [v, m])
    # random sequences of 2..5 steps, views and mutators mixed (a view first, so that something can go stale)
    for _ in range(2500 if big else 300):
        k = rng.randint(2, 5)
        steps = [rng.choice(SEQ_VIEWS)]
        for _ in range(k - 1):
            steps.append(rng.choice(SEQ_VIEWS) if rng.random() < 0.4 else rng.choice(seq_mutators(rng)))
        if all(x in SEQ_VIEWS for x in steps): steps[-1] = rng.choice(seq_mutators(rng))
        run_sequence(O, rng.choice(starts + [rng.uniform(-360, 360)]), steps)


def search(rng, tier, deep):
    mods = load(["Angle"])
    Angle = mods["Angle"].Angle
    O = Oracle(Angle)
    big = deep or tier == "thorough"
    nn = 1500 if big else 400
    for x in gen_numbers(rng, nn):
        O.construct_number(x)
    for x in gen_numbers(rng, nn // 3):
        O.views(x)
    for x in [-1e-20, -5e-324, -1e-300, -1e-14, -2.8e-14, -5.7e-14, -359.99999999999994, 359.99999999999994, -360.0, 360.0]:
        O.views(x)
    for (d, m, s) in gen_triples(rng, 2000 if big else 400):
        O.construct_triple(d, m, s)
    av = gen_angle_values(rng, 600 if big else 150)
    nv = gen_op_numbers(rng, 600 if big else 150)
    ops = ["+", "-", "*", "/", "%", "**"]
    combos = [("A", "A"), ("A", "N"), ("N", "A")]
    for op in ops:
        for (ta, tb) in combos:
            for _ in range(400 if big else 120):
                a = rng.choice(av) if ta == "A" else rng.choice(nv)
                b = rng.choice(av) if tb == "A" else rng.choice(nv)
                if op == "**":
                    if rng.random() < 0.8:
                        b = rng.choice([4.0, 3.0, 2.0, 2, 3, 0.5, 1.5, -1, 0, 1, -0.5]) if tb == "N" else rng.choice([4.0, 3.0, 2.0, 0.5, 1.5, -1.0, 0.0])
                    if abs(a) > 1e6: a = rng.choice([2, 3.5, 24.0, -2, 0.5])
                O.binop(op, (ta, a), (tb, b), "plain")
                if ta == "A":
                    O.binop(op, (ta, a), (tb, b), "inplace")
        # zero divisors
        if op in ("/", "%"):
            for z in (0, 0.0, -0.0):
                for a in (10.0, -3.5, 0.0):
                    O.binop(op, ("A", a), ("N", z), "plain"); O.binop(op, ("A", a), ("N", z), "inplace")
            for z in (0.0, 1e-11, -1e-11, 9.9e-11, 5e-324):
                for a in (10.0, -3.5):
                    if op == "/" or z == 0.0:
                        O.binop(op, ("A", a), ("A", z), "plain"); O.binop(op, ("A", a), ("A", z), "inplace")
                        O.binop(op, ("N", a), ("A", z), "plain"); O.binop(op, ("N", 7), ("A", z), "plain")
    for a in av[:(300 if big else 120)]:
        O.unary(a)
    for _ in range(600 if big else 200):
        a = rng.choice(av)
        b = rng.choice([rng.choice(av), a, a + 5e-11, a - 5e-11, a + 1.5e-10, math.nextafter(a, 400)])
        if abs(b) >= 360: b = a
        O.compare(a, b, rng.choice([rng.choice(nv), a, a + 5e-11, a - 2e-10, int(a)]))
    search_sequences(O, rng, big)
    stats = {"evaluations": O.n, "distinct_nontrivial": O.nontriv,
             "rule": ("numbers: k*360 +-0..2 ulp (small, random and 1e12-size k), denormals, +-1e-20, +-1e15, ints up to 1e15, "
                      "log-uniform floats; sexagesimal triples with fractional/overflowing/negative pieces and former "
                      "counterexamples; every operator x (Angle,Angle)/(Angle,number)/(number,Angle) x plain/in-place with "
                      "before/after operand snapshots; zero divisors; unary; comparisons; call sequences view->mutator->all views vs a fresh Angle; exact Fraction reference, "
                      "tolerance 1e-9 degree x max(1,|exact|); non-trivial = value checks performed"),
             "samples": [{"input": "Angle(359, 59, 59.99999999999999)", "checked": "strictly inside (-360,360), sign, congruent to 1295999.99999999999/3600"},
                         {"input": "Angle(-1e-20).to_positive()", "checked": "in [0,360), congruent, returns self"},
                         {"input": "(400) % Angle(70.0)", "checked": "new Angle in range, congruent to Angle(400) % 70, operands unchanged"}]}
    return O.findings, stats
