"""C14 — seasons, equation of time and sunrise/sunset agree with the solar position."""
import math
from vlib import common as K
from vlib.impl import load

ID = "C14"
MODULES = K.mods("base", "Angle", "Epoch", "Interpolation", "Coordinates", "Earth", "Sun", "Moon")   # Moon: needed by the imported C08 files
REQUIRED = ["Sun.get_equinox_solstice", "Sun.equation_of_time", "Sun.apparent_geocentric_position",
            "Epoch.rise_set", "Epoch.apparent_sidereal_time", "times_rise_transit_set",
            "equatorial2horizontal", "ecliptical2equatorial", "true_obliquity", "nutation_longitude"]
BASE_THEOREMS = ["C14_jde2000", "C14_eot_closed_form", "C14_eot_reduced", "C14_eot_bound", "C14_eot_seconds", "C14_eot_recompose",
            "C14_season_structure", "C14_season_loop_invariant", "C14_season_longitude", "C14_season_target_or_antipode", "C14_season_result", "C14_season_year_range", "C14_season_type",
            "C14_season_order", "C14_season_year_length", "C14_season_joint",
            "C14_sunrise_identity", "C14_rise_set_closed_form", "C14_callee_shapes", "C14_rise_set_altitude", "C14_rise_set_order",
            "C14_rise_set_polar", "C14_trts_none", "C14_never_crosses"]
# thorough tier only (C14_final.v): the season theorems with the CtorExact premise discharged by property C02's
# Epoch_ctor_exact_ideal (17 files of C02, 5-6 min single core + 16 shards)
THOROUGH_THEOREMS = ["C14_season_longitude_unconditional", "C14_season_target_or_antipode_unconditional",
                     "C14_season_result_unconditional"]
THEOREMS = list(BASE_THEOREMS)
PROOF_TIMEOUT = {"quick": 1500, "thorough": 3000}
EXHAUSTIVE = False
MANIFEST = {
    "category": "proof",
    "text": "Partial proof. Ideal-instance (real-arithmetic) closed forms of the regenerated Sun.equation_of_time (E = 4*red360(L0-0.0057183-alpha+dpsi*cos eps), |E|<=720 min, (m,s) decomposition), of Epoch.rise_set (sunrise-equation quotient with h0 = -0.83-2.076 sqrt(h)/60 deg as coded, ValueError beyond 66.55 deg) and of the None guard of times_rise_transit_set (if direction only); structure of Sun.get_equinox_solstice (mean-instant polynomials, exit and iteration step of the generated loop) and, by induction on the fuel with the Sun-position premise discharged by the imported C08 theorem on Sun.apparent_geocentric_position, the season clause modulo termination: every returned instant (int years -1000..3000) has the library's own apparent longitude within 2.5e-6 deg of k*90 deg or of its antipode (termination and exclusion of the antipode remain unproved; exactness of Epoch(float) is a premise in the quick tier and is discharged in the thorough tier by importing property C02's constructor theorem). Callees (VSOP position, nutation, obliquity, Epoch/Angle constructors, get_date, leap_seconds) are abstracted as hypotheses whose result shapes are shown attained by the model in its binary64 instance. Every numeric clause of the property (1e-5 deg, 25/17.5 min, 45 s/day, 1 deg, 0.005 deg, None iff never crossing) is only searched by a literal Python oracle; bit-exact correspondence every run.",
    "technique": "symbolic evaluation of the generated model in the real-number instance with abstracted callees (call-by-value pyrun2) + induction on loop fuel + field/lra/nra/interval + binary64 witnesses (vm_compute) + property oracle search + bit-exact differential correspondence",
    "design_ref": "8/C14",
}
EXPLANATION = ("Generated Sun.equation_of_time, Epoch.rise_set and the guard of times_rise_transit_set are evaluated symbolically "
               "(ideal instance, callees abstracted) to closed forms; get_equinox_solstice to its loop structure and, with property C08's unconditional Sun-position theorem imported, to "
               "'returned instant => apparent longitude within 2.5e-6 deg of k*90 deg or its antipode' (modulo termination). Everything that needs the "
               "VSOP numbers - the property's own tolerances - is searched on the implementation, not proved.")
CLAUSES = {
    "equation of time = 4*red360(L0 - 0.0057183 - alpha + dpsi cos eps), red360 x = x - 360 round(x/360) (abstract alpha, dpsi, eps and the Angle-reduced L0 as hypotheses; JDE2000 = 2451545 proved: C14_jde2000)":
        "proved [ideal, pyrun with callees abstracted: C14_eot_closed_form; the callee hypotheses (Sun position triple, obliquity, nutation, conversion as Angle objects) are not shown attainable in the ideal instance]",
    "red360 x is the unique representative of x mod 360 in (-180, 180) (explicit integer Rround(x/360)); |E| <= 720 min structurally":
        "proved [spec of the reduction, used by the closed form: C14_eot_reduced, C14_eot_bound] - this is NOT the property's 25 / 17.5 min",
    "(m, s): m = trunc(E), s = (|E| mod 1)*60 in [0,60), |m| + s/60 = |E|": "proved [spec lemmas about the expressions in C14_eot_closed_form: C14_eot_seconds, C14_eot_recompose]",
    "|E| <= 25 min (17.5 min in 1800-2200), daily change < 45 s": "unproved (searched): needs VSOP numerics; the sign of E is lost in (m, s) when |E| < 1 min: the 45 s clause requires ONE consistent sign choice along the year (a candidate sign of a day must be within 45 s of a feasible candidate of the day before)",
    "get_equinox_solstice = the generated loop started at corr = 1.0, Epoch(jde0), jde0 = Meeus polynomial per season and year table (switch at 1000); loop: no fuel -> OutOfFuel, |corr| <= 2.5e-6 -> Epoch(epoch - corr), else one more round with corr = 58 sin(k*90 - lambda+)":
        "proved [ideal, pyrun per season x table: C14_season_structure] for int years -1000..3000, under CtorExact D (Epoch(float) exact on the instants visited; attained at dyadic JDEs in the binary64 instance: C14_callee_shapes)",
    "mean instants jde0 ordered, 88-95 d apart, same season 365.2-365.3 d apart, tables agree to 0.01 d at year 1000":
        "proved [about the polynomials jde0 the iteration starts from (tied to the code by C14_season_structure), NOT about the returned instants; interval: C14_season_order, C14_season_year_length, C14_season_joint]",
    "int years outside -1000..3000 -> ValueError (all four seasons, both sides), float year -> TypeError": "proved [ideal: C14_season_year_range, C14_season_type]",
    "SEASON CLAUSE: at the returned instant the Sun's apparent longitude, as Sun.apparent_geocentric_position itself returns it, is within 2.5e-6 deg (property: 1e-5) of k*90 deg or of its antipode, for every season and int year -1000..3000":
        "proved modulo termination [ideal: C14_season_longitude, C14_season_target_or_antipode, C14_season_result; induction on the loop fuel; the Sun-position premise is DISCHARGED by importing property C08's C08_app.sun_apparent_unconditional (years -2000..6000, 24 files of C07/C08 compiled in this build)]. Remaining: (1) termination - the disjunct OutOfFuel; (2) the antipode k*90+180 is not excluded; (3) QUICK tier: premise CtorExact (Epoch(float j) has JDE j on the instants within 290058 days of the mean instant). THOROUGH tier: that premise is discharged too, by importing property C02's C02_ctor_ideal.Epoch_ctor_exact_ideal (all reals JDE -0.5 .. 5399999.5; 17 files, 5-6 min + 16 shards, hence thorough only): C14_season_longitude_unconditional, C14_season_target_or_antipode_unconditional, C14_season_result_unconditional have NO callee premise - only termination and the antipode remain",
    "same invariant for an arbitrary abstract Sun model (lam, bet, rad) on a step-closed set of instants":
        "proved as PARTIAL correctness [ideal: C14_season_loop_invariant]; its premises SunModel/StepClosed are instantiated and discharged in C14_season_longitude",
    "termination of the season iteration; exclusion of the antipode; order/spacing (88-95 d, 365.2-365.3 d) of the RETURNED instants": "unproved (searched): needs quantitative rate bounds of the apparent longitude (VSOP + nutation + aberration)",
    "generated Epoch.rise_set = (Epoch(jt - w/360), Epoch(jt + w/360)), w = degrees(acos c), c = (sin h0 - sin phi sin delta)/(cos phi cos delta), h0 = -0.83 - 2.076 sqrt(height)/60 deg as coded":
        "proved [ideal, pyrun: C14_rise_set_closed_form] for |latitude| <= 66.55, height >= 0, with get_date / Epoch(y,m,d) / leap_seconds (int) / the two output Epoch constructions abstracted; shapes attained by the model: C14_callee_shapes (binary64 instance, JDE 2451545) and C14_jde2000 (ideal)",
    "at hour angle +-w0 the altitude formula gives exactly the coded standard altitude for the algorithm's own declination; rise < transit < set when cos w0 < 1":
        "proved [trig, tied to the generated quotient rs_cosom of C14_rise_set_closed_form: C14_rise_set_altitude, C14_rise_set_order; C14_sunrise_identity, C14_never_crosses are the underlying [spec] identities]",
    "ValueError beyond the limit Angle(66,33,0) = 66.55 deg as coded": "proved [ideal: C14_rise_set_polar]",
    "times_rise_transit_set returns (None, None, None) when |cos H0| > 1": "proved [ideal: C14_trts_none]",
    "times_rise_transit_set returns three None ONLY when |cos H0| > 1": "unproved (searched, key trts-none-iff-never-crossing): the success path runs through two while loops and a for loop on symbolic values",
    "rise/set within 1 deg of -0.8333 - dip against VSOP Sun + sidereal time; rise < transit < set on the implementation":
        "unproved (searched); the 1 deg bound is refuted near the ends of 1900-2100: witness "
        "Epoch(2095,3,20).rise_set(Angle(-66.4), Angle(149.22583329129634), 2261.2834322062554) sunset 1.06 deg off "
        "(known finding, keys sunrise-altitude / sunset-altitude ONLY inside the envelope |year-2000| >= 75, |latitude| >= 40, deviation <= 1.3 deg; outside it the keys are *-gross and count as violations)",
    "times_rise_transit_set: altitude at rise/set within 0.005 deg, meridian at transit (synthetic bodies and the library's own Sun around the March equinox)":
        "unproved (searched). 'Grazing' = a culmination altitude within 0.75 deg of h0 on the body's true path over the three given days (2.7 % of events). "
        "Outside it the literal 0.005 deg is missed by 0.005-0.025 deg for about 1 in 8000 events, all fast bodies (|declination rate| >= 0.97 deg/day): witness "
        "times_rise_transit_set(Angle(157.4031645039181), Angle(-53.74224098992069), Angle(36.61480123169554), Angle(31.59378253441465), Angle(36.92815907036987), Angle(33.070618572165785), Angle(37.24151690904421), Angle(34.54745460991692), Angle(0.125), 69.2, Angle(177.38303401009554)) rising 0.0064 deg off "
        "(keys trts-rising/setting-altitude-fast-body ONLY for a miss <= 0.03 deg with |declination rate| >= 0.95 deg/day; otherwise trts-rising/setting-altitude = violation)",
    "rise_set returns instants for every latitude within +-66.5 deg (ValueError only where the Sun does not cross h0 that day)":
        "unproved (searched). Refuted marginally: Epoch(2097,1,14).rise_set(Angle(-66.4), Angle(-102.88), 1684.4) raises ValueError although the library's own Sun passes h0 by 0.37 deg "
        "(key riseset-refused-marginal-crossing ONLY when the Sun passes h0 by <= 0.5 deg at |latitude| >= 60; otherwise riseset-refused-inside-polar-circle = violation)",
}


# proof files of properties C07 / C08 that C08_app.sun_apparent_unconditional rests on (compiled in this build)
C08_IMPORT = ["../C07/C07_angle.v", "../C07/C07_defs.v", "../C07/C07_sec_a.v", "../C07/C07_sec_b.v", "../C07/C07_sec_c.v", "../C07/C07_sec.v", "../C07/C07_corr.v", "../C07/C07_lib.v", "../C07/C07_mono.v", "../C07/C07_dec.v", "../C07/C07_series.v", "../C07/C07_mono_code.v", "../C07/C07_mono_earth.v", "../C08/C08_base.v", "../C08/C08_angle2.v", "../C08/C08_node.v", "../C08/C08_nut_angle.v", "../C08/C08_nut_loop.v", "../C08/C08_nut_main.v", "../C08/C08_nut_bound.v", "../C08/C08_obliquity.v", "../C08/C08_sun.v", "../C08/C08_wide.v", "../C08/C08_app.v"]


C02_IMPORT = ["../C02/C02_ctor_spec.v"] + ["../C02/C02_ctor_rt_%02d.v" % k for k in range(16)] + ["../C02/C02_ctor_ideal.v"]


def proof_files(tier):
    global THEOREMS
    files = C08_IMPORT + ["C14_tac.v", "C14_angle.v", "C14_jde.v", "C14_eot.v", "C14_angle2.v", "C14_season.v",
            "C14_sA0.v", "C14_sA1.v", "C14_sA2.v", "C14_sA3.v", "C14_sB0.v", "C14_sB1.v", "C14_sB2.v", "C14_sB3.v", "C14_season_all.v",
            "C14_poly.v", "C14_rise.v", "C14_riseset.v", "C14_trts.v", "C14_witness.v", "C14_trig.v", "C14_sunapp.v", "C14.v"]
    if tier == "thorough":
        THEOREMS = BASE_THEOREMS + THOROUGH_THEOREMS
        return files + C02_IMPORT + ["C14_final.v"]
    THEOREMS = list(BASE_THEOREMS)
    return files


# ------------------------------------------------------------------ correspondence
SEASONS = ["spring", "summer", "autumn", "winter"]


def cases(rng, tier):
    cs = []
    nv = 6 if tier == "quick" else 20
    # VSOP-heavy (thousands of traced cos values each)
    for y in [-1000, 999, 1000, 3000] + [rng.randint(-1000, 3000) for _ in range(nv)]:
        cs.append("Sun.get_equinox_solstice(%d, target=%r).jde()" % (y, rng.choice(SEASONS)))
    for _ in range(nv + 2):
        y = rng.randint(-2000, 4000)
        cs.append("Sun.equation_of_time(Epoch(%d, %d, %r))" % (y, rng.randint(1, 12), rng.randint(1, 28) + rng.random()))
    cs += ["Sun.equation_of_time(Epoch(2000, 3, 20.5))", "Sun.equation_of_time(Epoch(1992, 10, 13.0))",
           "Sun.equation_of_time(2451545.0)", "Sun.get_equinox_solstice(3001, target='spring')",
           "Sun.get_equinox_solstice(-1001, target='winter')", "Sun.get_equinox_solstice(2000.0, target='spring')",
           "Sun.get_equinox_solstice(2000, target='Spring')", "Sun.get_equinox_solstice(2000, 1)"]
    # cheap: rise_set and the general routine
    n = 150 if tier == "quick" else 1500
    for _ in range(n):
        y, m, d = rng.randint(1900, 2100), rng.randint(1, 12), rng.randint(1, 28)
        r = rng.random()
        lat = rng.choice([66.5, -66.5, 66.55, -66.55, 66.56, 0.0]) if r < 0.25 else rng.uniform(-66.5, 66.5)
        lon = rng.choice([180.0, -180.0, 0.0]) if rng.random() < 0.15 else rng.uniform(-180, 180)
        h = rng.choice([0, 0.0, 5000.0, 520.0]) if rng.random() < 0.3 else rng.uniform(0, 5000)
        cs.append("[x.jde() for x in Epoch(%d, %d, %d).rise_set(Angle(%r), Angle(%r), %r)]" % (y, m, d, lat, lon, h))
    cs += ["Epoch(2019, 4, 2).rise_set(Angle(48, 8, 0), 11.5, 520.0)", "Epoch(2019, 4, 2).rise_set(Angle(67.0), Angle(11.5), 0.0)",
           "Epoch(2019, 6, 21).rise_set(Angle(66.5), Angle(0.0), 0.0)", "Epoch(2019, 4, 2).rise_set(Angle(48.0), Angle(11.5), -1.0)"]
    for _ in range(n):
        cs.append("times_rise_transit_set(%s)" % ", ".join(body_args(rng)))
    cs += ["times_rise_transit_set(Angle(71, 5, 0.0), Angle(42, 20, 0.0), Angle(2, 42, 43.25, ra=True), Angle(18, 2, 51.4), "
           "Angle(2, 46, 55.51, ra=True), Angle(18, 26, 27.3), Angle(2, 51, 7.69, ra=True), Angle(18, 49, 38.7), "
           "Angle(-0.5667), 56.0, Angle(11, 50, 58.1, ra=True))",
           "times_rise_transit_set(Angle(0.0), Angle(80.0), Angle(10.0), Angle(60.0), Angle(10.0), Angle(60.0), Angle(10.0), Angle(60.0), Angle(-0.5667), 56.0, Angle(100.0))",
           "times_rise_transit_set(Angle(0.0), Angle(80.0), Angle(10.0), Angle(60.0), Angle(10.0), Angle(60.0), Angle(10.0), Angle(60.0), -0.5667, 56.0, Angle(100.0))"]
    return cs


def body_params(rng):
    """a synthetic body moving linearly, up to 1.5 deg/day in total"""
    rate = rng.choice([0.0, 1.5, 1.0]) if rng.random() < 0.3 else rng.uniform(0, 1.5)
    ang = rng.uniform(0, 2 * math.pi)
    r = rng.random()
    a0 = rng.choice([0.0, 359.9, 0.3, 359.99, 180.0]) if r < 0.3 else rng.uniform(0, 360)
    d0 = rng.uniform(-85, 85) if rng.random() < 0.8 else rng.choice([0.0, 23.44, -23.44, 70.0, -70.0])
    lat = rng.uniform(-88, 88) if rng.random() < 0.85 else rng.choice([0.0, 66.5, -66.5, 42.3333, 80.0, -80.0])
    lon = rng.uniform(-180, 180)
    h0 = rng.choice([-0.5667, -0.8333, 0.125])
    dt = rng.choice([0.0, 56.0, 69.2, -5.0, 120.0])
    th0 = rng.uniform(0, 360)
    dra = rate * math.cos(ang) / max(math.cos(math.radians(d0)), 0.2)
    dra = max(-1.5, min(1.5, dra))
    return dict(a0=a0, d0=d0, dra=dra, ddec=rate * math.sin(ang), lat=lat, lon=lon, h0=h0, dt=dt, th0=th0)


def body_exprs(p):
    f = lambda x: "Angle(%r)" % x
    return [f(p["lon"]), f(p["lat"]), f((p["a0"] - p["dra"]) % 360.0), f(p["d0"] - p["ddec"]), f(p["a0"]), f(p["d0"]),
            f((p["a0"] + p["dra"]) % 360.0), f(p["d0"] + p["ddec"]), f(p["h0"]), repr(p["dt"]), f(p["th0"])]


def body_args(rng):
    return body_exprs(body_params(rng))


# ------------------------------------------------------------------ search oracle
def wrap180(x):
    return (x + 180.0) % 360.0 - 180.0


class Ctx:
    def __init__(self):
        m = load(["Angle", "Epoch", "Coordinates", "Sun"])
        self.Angle = m["Angle"].Angle
        self.Epoch = m["Epoch"].Epoch
        self.C = m["Coordinates"]
        self.Sun = m["Sun"].Sun
        self.findings, self.n, self.nontriv = [], 0, 0
        self.seen = {}

    def add(self, key, what, inp, replay):
        self.seen[key] = self.seen.get(key, 0) + 1
        if self.seen[key] <= 3:
            self.findings.append({"key": key, "what": what, "input": inp,
                                  "replay": "PYTHONPATH=/repo /venv/bin/python -c \"from pymeeus.Sun import Sun; from pymeeus.Epoch import Epoch; "
                                            "from pymeeus.Angle import Angle; from pymeeus.Coordinates import *; %s\"" % replay})

    # altitude of the Sun's centre from the library's own position and sidereal time at a UT instant
    def sun_alt_ha(self, jd_ut, lat, lon_east):
        E, C = self.Epoch, self.C
        y, mo, _ = E(jd_ut).get_date()
        dt = E.tt2ut(y, mo)
        ett = E(jd_ut + dt / 86400.0)
        lon, la, r = self.Sun.apparent_geocentric_position(ett)
        eps = C.true_obliquity(ett)
        ra, dec = C.ecliptical2equatorial(lon, la, eps)
        dpsi = C.nutation_longitude(ett)
        th0 = E(jd_ut).apparent_sidereal_time(eps, dpsi) * 360.0
        ha = wrap180(th0 + lon_east - ra.to_positive()())
        azi, ele = C.equatorial2horizontal(self.Angle(ha), dec, self.Angle(lat))
        return ele(), ha


def seasons(cx, years):
    Sun, Epoch = cx.Sun, cx.Epoch
    cache = {}

    def inst(y, k):
        if (y, k) not in cache:
            cache[(y, k)] = Sun.get_equinox_solstice(y, target=SEASONS[k]).jde()
        return cache[(y, k)]
    for y in years:
        t = []
        for k in range(4):
            cx.n += 1; cx.nontriv += 1
            rp = "e=Sun.get_equinox_solstice(%d, target=%r); print(e.jde(), Sun.apparent_geocentric_position(e)[0].to_positive()())" % (y, SEASONS[k])
            try:
                j = inst(y, k)
            except Exception as ex:
                cx.add("season-raises", "get_equinox_solstice(%d,%r) raises %r" % (y, SEASONS[k], ex), [y, SEASONS[k]], rp)
                t = None
                break
            lon = Sun.apparent_geocentric_position(Epoch(j))[0].to_positive()()
            d = wrap180(lon - 90.0 * k)
            if not abs(d) <= 1e-5:
                cx.add("season-longitude", "get_equinox_solstice(%d,%r) = JDE %.6f where the apparent longitude is %.7f deg, not %d within 1e-5"
                       % (y, SEASONS[k], j, lon, 90 * k), [y, SEASONS[k]], rp)
            t.append(j)
        if t is None: continue
        for k in range(3):
            gap = t[k + 1] - t[k]
            if not (88.0 <= gap <= 95.0):
                cx.add("season-spacing", "year %d: %s -> %s are %.4f days apart (88..95 demanded)" % (y, SEASONS[k], SEASONS[k + 1], gap),
                       [y, k], "print([Sun.get_equinox_solstice(%d, target=s).jde() for s in ('spring','summer','autumn','winter')])" % y)
        if y + 1 <= 3000:
            for k in range(4):
                cx.n += 1
                try:
                    gap = inst(y + 1, k) - t[k]
                except Exception as ex:      # y + 1 is inside -1000..3000: a raise is a finding
                    cx.add("season-raises", "get_equinox_solstice(%d,%r) raises %r" % (y + 1, SEASONS[k], ex), [y + 1, SEASONS[k]],
                           "print(Sun.get_equinox_solstice(%d, target=%r))" % (y + 1, SEASONS[k]))
                    continue
                if k == 3:
                    g2 = inst(y + 1, 0) - t[3]
                    if not (88.0 <= g2 <= 95.0):
                        cx.add("season-spacing", "winter %d -> spring %d are %.4f days apart (88..95 demanded)" % (y, y + 1, g2), [y, 3],
                               "print(Sun.get_equinox_solstice(%d, target='spring').jde() - Sun.get_equinox_solstice(%d, target='winter').jde())" % (y + 1, y))
                if not (365.2 <= gap <= 365.3):
                    cx.add("season-year-length", "%s %d -> %d: %.5f days (365.2..365.3 demanded)" % (SEASONS[k], y, y + 1, gap), [y, k],
                           "print(Sun.get_equinox_solstice(%d, target=%r).jde() - Sun.get_equinox_solstice(%d, target=%r).jde())" % (y + 1, SEASONS[k], y, SEASONS[k]))
    for y in (-1001, -1002, 3001, 3002, -5000, 10000):
        for k in (0, 3):
            cx.n += 1
            try:
                r = Sun.get_equinox_solstice(y, target=SEASONS[k])
                cx.add("season-range-not-refused", "get_equinox_solstice(%d,%r) returns %r instead of ValueError" % (y, SEASONS[k], r.jde()),
                       [y, SEASONS[k]], "print(Sun.get_equinox_solstice(%d, target=%r))" % (y, SEASONS[k]))
            except ValueError:
                pass
            except Exception as ex:
                cx.add("season-range-wrong-exception", "get_equinox_solstice(%d,%r) raises %s, not ValueError" % (y, SEASONS[k], type(ex).__name__),
                       [y, SEASONS[k]], "print(Sun.get_equinox_solstice(%d, target=%r))" % (y, SEASONS[k]))


def eot_abs(ms):
    m, s = ms
    return abs(m) + s / 60.0


def eot_candidates(ms):
    m, s = ms
    a = abs(m) + s / 60.0
    if m > 0: return [a]
    if m < 0: return [-a]
    return [a, -a]          # the sign is lost when -1 < E < 1


def eot_chain(cx, js, mss, key, where=""):
    """45 s/day clause with ONE consistent sign choice: the API loses the sign of E when the minutes field is 0; a day then has
    the two candidates +|E| and -|E|.  A candidate of day i is feasible if some feasible candidate of day i-1 is less than 45 s
    away; the clause fails at day i when no candidate of day i is feasible (then the chain restarts at day i)."""
    feas = None
    for i, ms in enumerate(mss):
        if ms is None:
            feas = None; continue
        cand = eot_candidates(ms)
        if feas is None:
            feas = cand; continue
        nxt = [x for x in cand if any(abs(x - z) * 60.0 < 45.0 for z in feas)]
        if not nxt:
            ch = min(abs(x - z) for x in cand for z in feas) * 60.0
            cx.add(key, "equation_of_time changes by at least %.1f s from Epoch(%r) %r to Epoch(%r) %r%s for every sign choice consistent with the days before (< 45 s demanded)"
                   % (ch, js[i - 1], mss[i - 1], js[i], ms, where), [js[i - 1], js[i]],
                   "print(Sun.equation_of_time(Epoch(%r)), Sun.equation_of_time(Epoch(%r)))" % (js[i - 1], js[i]))
            feas = cand
        else:
            feas = nxt


def eot(cx, years):
    Sun, Epoch = cx.Sun, cx.Epoch
    for y in years:
        j0 = Epoch(y, 1, 1.0).jde()
        lim = 17.5 if 1800 <= y <= 2200 else 25.0
        js, mss = [], []
        for d in range(0, 367):
            cx.n += 1; cx.nontriv += 1
            j = j0 + d
            rp = "print(Sun.equation_of_time(Epoch(%r)))" % j
            js.append(j)
            try:
                ms = Sun.equation_of_time(Epoch(j))
            except Exception as ex:
                cx.add("eot-raises", "equation_of_time(Epoch(%r)) raises %r" % (j, ex), [j], rp); mss.append(None); continue
            mss.append(ms)
            m, s = ms
            if not (isinstance(m, int) and 0.0 <= s < 60.0):
                cx.add("eot-encoding", "equation_of_time(Epoch(%r)) = %r: minutes not int or seconds outside [0,60)" % (j, ms), [j], rp)
            a = eot_abs(ms)
            if not a <= lim:
                cx.add("eot-magnitude", "equation_of_time(Epoch(%r)) (year %d, day %d) = %r: |E| = %.3f min > %.1f" % (j, y, d, ms, a, lim), [j], rp)
        eot_chain(cx, js, mss, "eot-daily-change")


def rise_set(cx, rng, n):
    Epoch, Angle = cx.Epoch, cx.Angle
    for i in range(n):
        y, mo, d = rng.randint(1900, 2100), rng.randint(1, 12), rng.randint(1, 28)
        r = rng.random()
        if r < 0.2: mo, d = rng.choice([(6, 20), (6, 21), (12, 21), (12, 22), (3, 20), (9, 23)])
        r = rng.random()
        lat = rng.choice([66.5, -66.5, 66.4, -66.4, 0.0, 65.0, -65.0]) if r < 0.35 else rng.uniform(-66.5, 66.5)
        lon = rng.choice([180.0, -180.0, 0.0, 179.9, -179.9]) if rng.random() < 0.2 else rng.uniform(-180, 180)
        h = rng.choice([0.0, 5000.0, 0, 1000.0]) if rng.random() < 0.3 else rng.uniform(0, 5000)
        cx.n += 1
        h0 = -0.8333 - 2.076 * math.sqrt(h) / 60.0
        call = "Epoch(%d,%d,%d).rise_set(Angle(%r), Angle(%r), %r)" % (y, mo, d, lat, lon, h)
        rp = "r,s=%s; print(r.jde(), s.jde())" % call
        e = Epoch(y, mo, d)
        try:
            rs, st = e.rise_set(Angle(lat), Angle(lon), h)
        except ValueError:
            # no instants: acceptable only when the Sun really does not cross h0 that local day (polar day/night at the circle)
            # (independent check: the library's own Sun, every 10 minutes of the local day; no margin)
            noon = e.jde() + 0.5 - lon / 360.0
            alts = [cx.sun_alt_ha(noon + q / 144.0, lat, lon)[0] for q in range(-72, 73)]
            if max(alts) > h0 and min(alts) < h0:
                # narrow candidate known finding: the Sun passes h0 by at most 0.5 deg (start/end of midnight sun or polar night at
                # that height) at |lat| >= 60; anything else is a violation
                marg = min(max(alts) - h0, h0 - min(alts))
                key = "riseset-refused-marginal-crossing" if (marg <= 0.5 and abs(lat) >= 60.0) else "riseset-refused-inside-polar-circle"
                cx.add(key, "%s raises ValueError although the Sun goes from %.3f to %.3f deg (h0 = %.3f, passes it by %.3f deg)"
                       % (call, min(alts), max(alts), h0, marg), [y, mo, d, lat, lon, h], "print(%s)" % call)
            continue
        except Exception as ex:
            cx.add("riseset-raises", "%s raises %r" % (call, ex), [y, mo, d, lat, lon, h], "print(%s)" % call); continue
        cx.nontriv += 1
        jr, js = rs.jde(), st.jde()
        ar, har = cx.sun_alt_ha(jr, lat, lon)
        as_, has = cx.sun_alt_ha(js, lat, lon)
        # known finding (known_findings.json): the J2000-frozen sunrise equation misses 1 deg by at most 0.3 deg
        # for |year-2000| >= 75 and |latitude| >= 40; anything else is reported under the -gross keys
        env = abs(y - 2000) >= 75 and abs(lat) >= 40.0
        if not abs(ar - h0) <= 1.0:
            cx.add("sunrise-altitude" if (env and abs(ar - h0) <= 1.3) else "sunrise-altitude-gross", "%s: at the returned sunrise JD %.5f the Sun's centre is at %.3f deg, standard altitude %.3f"
                   % (call, jr, ar, h0), [y, mo, d, lat, lon, h], rp)
        if not abs(as_ - h0) <= 1.0:
            cx.add("sunset-altitude" if (env and abs(as_ - h0) <= 1.3) else "sunset-altitude-gross", "%s: at the returned sunset JD %.5f the Sun's centre is at %.3f deg, standard altitude %.3f"
                   % (call, js, as_, h0), [y, mo, d, lat, lon, h], rp)
        # sunrise < local transit < sunset: east of the meridian at rise, west at set, less than a day apart
        if not (jr < js and js - jr < 1.0 and har < 0.0 < has):
            cx.add("rise-transit-set-order", "%s: rise JD %.5f (hour angle %.2f), set JD %.5f (hour angle %.2f): not rise < transit < set"
                   % (call, jr, har, js, has), [y, mo, d, lat, lon, h], rp)
    # beyond the limit in the code
    for lat in (66.56, -66.56, 70.0, -89.0, 90.0):
        cx.n += 1
        try:
            Epoch(2019, 4, 2).rise_set(Angle(lat), Angle(11.5), 0.0)
            cx.add("riseset-polar-not-refused", "rise_set at latitude %r returns instead of ValueError" % lat, [lat],
                   "print(Epoch(2019,4,2).rise_set(Angle(%r), Angle(11.5), 0.0))" % lat)
        except ValueError:
            pass
        except Exception as ex:
            cx.add("riseset-polar-wrong-exception", "rise_set at latitude %r raises %s" % (lat, type(ex).__name__), [lat],
                   "print(Epoch(2019,4,2).rise_set(Angle(%r), Angle(11.5), 0.0))" % lat)


def cosH0(h0, lat, dec):
    return ((math.sin(math.radians(h0)) - math.sin(math.radians(lat)) * math.sin(math.radians(dec)))
            / (math.cos(math.radians(lat)) * math.cos(math.radians(dec))))


def body_alt(p, m):
    """altitude (deg) of the synthetic body at day fraction m, from its linear motion (plain spherical trigonometry)"""
    nn = m + p["dt"] / 86400.0
    ha = math.radians(p["th0"] + 360.985647 * m - p["lon"] - (p["a0"] + nn * p["dra"]))
    d, f = math.radians(p["d0"] + nn * p["ddec"]), math.radians(p["lat"])
    return math.degrees(math.asin(max(-1.0, min(1.0, math.sin(f) * math.sin(d) + math.cos(f) * math.cos(d) * math.cos(ha)))))


def culmination_gap(p):
    """smallest distance (deg) between h0 and a local extremum of the body's altitude over days -1 .. +2"""
    hs = [body_alt(p, -1.0 + k / 480.0) for k in range(1441)]
    gap = 99.0
    for k in range(1, len(hs) - 1):
        if (hs[k] - hs[k - 1]) * (hs[k + 1] - hs[k]) <= 0.0:
            gap = min(gap, abs(hs[k] - p["h0"]))
    return gap


def general(cx, rng, n):
    Angle, C = cx.Angle, cx.C
    for i in range(n):
        p = body_params(rng)
        ex = body_exprs(p)
        call = "times_rise_transit_set(%s)" % ", ".join(ex)
        cx.n += 1
        try:
            res = eval(call, {"times_rise_transit_set": C.times_rise_transit_set, "Angle": Angle})
        except Exception as e:
            cx.add("trts-raises", "%s raises %r" % (call, e), p, "print(%s)" % call); continue
        # does the body cross h0?  criterion with the declination anywhere within the three days
        decs = [p["d0"] + q * p["ddec"] for q in (-1.0, -0.5, 0.0, 0.5, 1.0, 1.5)]
        cs = [cosH0(p["h0"], p["lat"], dd) for dd in decs]
        never = all(abs(c) > 1.0 for c in cs)
        always = all(abs(c) < 1.0 for c in cs)
        none3 = (res == (None, None, None))
        if (none3 and always) or (never and not none3):
            cx.add("trts-none-iff-never-crossing", "%s = %r although cos H0 over the day is in [%.4f, %.4f]" % (call, res, min(cs), max(cs)),
                   p, "print(%s)" % call)
        if none3 or any(x is None for x in res):
            if not none3:
                cx.add("trts-partial-none", "%s = %r" % (call, res), p, "print(%s)" % call)
            continue
        cx.nontriv += 1
        # grazing (geometric): on the body's true path over the three given days (-1 .. +2 d, sampled every 3 minutes) some
        # upper or lower culmination altitude lies within 0.75 deg of h0 -- the body barely reaches h0, or stops/starts doing so
        grazing = culmination_gap(p) < 0.75
        out = []
        for idx, hrs in enumerate(res):
            m = hrs / 24.0
            nn = m + p["dt"] / 86400.0
            al = p["a0"] + nn * p["dra"]
            de = p["d0"] + nn * p["ddec"]
            th = p["th0"] + 360.985647 * m
            ha = wrap180(th - p["lon"] - al)
            azi, ele = C.equatorial2horizontal(Angle(ha), Angle(de), Angle(p["lat"]))
            out.append((ha, ele()))
        if not abs(out[1][0]) <= 0.005:
            cx.add("trts-transit-off-meridian", "%s: at the returned transit %.6f h the hour angle is %.5f deg" % (call, res[1], out[1][0]),
                   p, "print(%s)" % call)
        if not grazing:
            for idx, nm in ((0, "rising"), (2, "setting")):
                dev = abs(out[idx][1] - p["h0"])
                if not dev <= 0.005:
                    # narrow candidate known finding: fast bodies (|declination rate| >= 0.95 deg/day) missing by at most 0.03 deg
                    # (worst seen in 150000 bodies on the tree of 2026-10-02: 0.025 deg)
                    fast = dev <= 0.03 and abs(p["ddec"]) >= 0.95
                    cx.add("trts-%s-altitude%s" % (nm, "-fast-body" if fast else ""), "%s: at the returned %s %.6f h the altitude is %.5f deg, h0 = %.4f (cos H0 = %.3f)"
                           % (call, nm, res[idx], out[idx][1], p["h0"], cs[2]), p, "print(%s)" % call)
            if not (out[0][0] < 0.0 < out[2][0]):
                cx.add("trts-rise-east-set-west", "%s: hour angles at rise/set are %.3f / %.3f deg" % (call, out[0][0], out[2][0]), p, "print(%s)" % call)


def sun_radec(cx, jd_tt):
    """apparent right ascension / declination (degrees) of the Sun from the library's own routines"""
    e = cx.Epoch(jd_tt)
    lon, la, r = cx.Sun.apparent_geocentric_position(e)
    eps = cx.C.true_obliquity(e)
    ra, dec = cx.C.ecliptical2equatorial(lon, la, eps)
    return ra.to_positive()(), dec(), eps, cx.C.nutation_longitude(e)


def sun_general(cx, rng, n):
    """times_rise_transit_set fed with the library's own Sun around the March equinox (right ascension passing through
    0h between the three daily positions): Sun at h0 +- 0.005 deg at the returned rise/set, on the meridian at transit."""
    Angle, Epoch, C = cx.Angle, cx.Epoch, cx.C
    places = [("Boston", 71.0833, 42.3333), ("Munich", -11.5667, 48.1333), ("Quito", 78.5, -0.2), ("Sydney", -151.2, -33.87)]
    todo = [(2024, 3, 20, 0), (2024, 3, 21, 0), (1987, 3, 21, 1), (1987, 3, 22, 1), (2000, 3, 20, 0), (2000, 3, 21, 1)]
    while len(todo) < n:
        todo.append((rng.randint(1900, 2100), 3, rng.randint(18, 23), rng.randrange(len(places))))
    h0 = -0.8333
    for (y, mo, d, pi_) in todo:
        name, lonw, lat = places[pi_]
        cx.n += 1
        j0 = Epoch(y, mo, d).jde()                       # 0h of the day (used as 0h TT for the positions, 0h UT for theta0)
        pos = [sun_radec(cx, j0 + q) for q in (-1.0, 0.0, 1.0)]
        dt = Epoch.tt2ut(y, mo)
        eps, dpsi = pos[1][2], pos[1][3]
        th0 = (Epoch(j0).apparent_sidereal_time(eps, dpsi) * 360.0) % 360.0
        call = ("times_rise_transit_set(Angle(%r), Angle(%r), Angle(%r), Angle(%r), Angle(%r), Angle(%r), Angle(%r), Angle(%r), Angle(%r), %r, Angle(%r))"
                % (lonw, lat, pos[0][0], pos[0][1], pos[1][0], pos[1][1], pos[2][0], pos[2][1], h0, dt, th0))
        try:
            res = C.times_rise_transit_set(Angle(lonw), Angle(lat), Angle(pos[0][0]), Angle(pos[0][1]), Angle(pos[1][0]), Angle(pos[1][1]),
                                           Angle(pos[2][0]), Angle(pos[2][1]), Angle(h0), dt, Angle(th0))
        except Exception as ex:
            cx.add("trts-sun-raises", "%s (Sun, %s %d-%d-%d) raises %r" % (call, name, y, mo, d, ex), [y, mo, d, name], "print(%s)" % call); continue
        if any(x is None for x in res):
            cx.add("trts-sun-none", "%s (Sun, %s %d-%d-%d) = %r" % (call, name, y, mo, d, res), [y, mo, d, name], "print(%s)" % call); continue
        cx.nontriv += 1
        wrap = not (pos[0][0] < pos[1][0] < pos[2][0])
        for idx, nm in ((0, "rising"), (1, "transit"), (2, "setting")):
            m = res[idx] / 24.0
            ra, dec, _, _ = sun_radec(cx, j0 + m + dt / 86400.0)
            ha = wrap180(th0 + 360.985647 * m - lonw - ra)
            azi, ele = C.equatorial2horizontal(Angle(ha), Angle(dec), Angle(lat))
            if idx == 1:
                if not abs(ha) <= 0.005:
                    cx.add("trts-sun-transit-off-meridian", "%s (Sun, %s %d-%d-%d%s): at the returned transit %.5f h the Sun's hour angle is %.4f deg"
                           % (call, name, y, mo, d, ", RA wraps through 0h" if wrap else "", res[1], ha), [y, mo, d, name], "print(%s)" % call)
            elif not abs(ele() - h0) <= 0.005:
                cx.add("trts-sun-%s-altitude" % nm, "%s (Sun, %s %d-%d-%d%s): at the returned %s %.5f h the Sun is at %.4f deg, h0 = %.4f"
                       % (call, name, y, mo, d, ", RA wraps through 0h" if wrap else "", nm, res[idx], ele(), h0), [y, mo, d, name], "print(%s)" % call)
        if not (0.0 <= res[1] <= 24.0):
            cx.add("trts-sun-transit-range", "%s (Sun, %s %d-%d-%d): transit %.4f h outside 0..24" % (call, name, y, mo, d, res[1]), [y, mo, d, name], "print(%s)" % call)


def eot_crossings(cx, years):
    """day-to-day change across the four yearly zero crossings (+-14 days), same one-consistent-sign-choice rule"""
    Sun, Epoch = cx.Sun, cx.Epoch
    for y in years:
        for (mo, d) in ((4, 15), (6, 13), (9, 1), (12, 25)):
            j0 = Epoch(y, mo, d).jde()
            js = [j0 + q for q in range(-14, 15)]
            mss = []
            for j in js:
                cx.n += 1; cx.nontriv += 1
                try:
                    mss.append(Sun.equation_of_time(Epoch(j)))
                except Exception as ex:
                    cx.add("eot-raises", "equation_of_time(Epoch(%r)) raises %r" % (j, ex), [j], "print(Sun.equation_of_time(Epoch(%r)))" % j)
                    mss.append(None)
            eot_chain(cx, js, mss, "eot-daily-change-at-zero-crossing", " near the zero crossing of %d-%d-%d" % (y, mo, d))


def search(rng, tier, deep):
    cx = Ctx()
    full = deep or tier == "thorough"
    if full:
        years = list(range(-1000, 3001))
        eyears = sorted(set(list(range(-2000, 4001, 100)) + [1800, 1999, 2000, 2024, 2200]))
        nrs, ntr = 6000, 30000
        nsun, cyears = 400, list(range(-2000, 4001, 50))
    else:
        years = sorted(set([-1000, -999, -1, 0, 1, 998, 999, 1000, 1001, 1582, 2000, 2999, 3000] + [rng.randint(-1000, 3000) for _ in range(240)]))
        eyears = sorted(set([-2000, -1000, 0, 1000, 1800, 2000, 2200, 3000, 4000] + [rng.randint(-2000, 4000) for _ in range(4)]))
        nrs, ntr = 500, 3000
        nsun, cyears = 40, sorted(set([-2000, 0, 1600, 1987, 2000, 2024, 4000] + [rng.randint(-2000, 4000) for _ in range(8)]))
    seasons(cx, years)
    eot(cx, eyears)
    rise_set(cx, rng, nrs)
    general(cx, rng, ntr)
    sun_general(cx, rng, nsun)
    eot_crossings(cx, cyears)
    stats = {"evaluations": cx.n, "distinct_nontrivial": cx.nontriv,
             "rule": "seasons: %s years x 4 (longitude at the returned instant vs 90k within 1e-5 deg, order, 88-95 d, 365.2-365.3 d, ValueError outside); "
                     "equation of time: every day of %d sample years -2000..4000 (|E| bound, daily change < 45 s: one consistent sign choice along the year must work when |E| < 1 min hides the sign); "
                     "rise_set: %d random/boundary places and dates 1900-2100 (altitude from apparent_geocentric_position + apparent_sidereal_time + equatorial2horizontal); "
                     "times_rise_transit_set: %d synthetic linearly moving bodies (<= 1.5 deg/day), grazing = a culmination altitude within 0.75 deg of h0 somewhere on the true path over the three given days (geometric); "
                     "times_rise_transit_set with the library's own Sun on 18-23 March (RA through 0h), 4 places incl. Boston 2024-03-20/21 and Munich 1987-03-21/22; "
                     "equation of time +-14 days around its four zero crossings, same consistent-sign rule"
                     % ("ALL -1000..3000" if full else "%d sampled/boundary" % len(years), len(eyears), nrs, ntr),
             "samples": [{"input": [2000, "spring"], "checked": "apparent longitude at the returned JDE within 1e-5 deg of 0"}],
             "findings_by_key": cx.seen,
             "exhaustive_search": bool(full)}
    return cx.findings, stats
